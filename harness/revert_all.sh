#!/bin/bash
# usage: revert_all.sh  -- every repaired defect (known_findings.json, status fixed) un-repaired in a scratch worktree in turn: the
# property's quick check must report the violation again ("a fixed entry suppresses nothing"). Patches: seeded/fix-reverts/<prop>_<commit>.diff
# PAR=<n> runs n of them at a time.
ROOT=$(cd "$(dirname "$0")/.." && pwd); cd $ROOT
OUT=${REVERT_RESULTS:-$ROOT/seeded/fix-reverts/RESULTS.txt}
TMPD=$(mktemp -d /tmp/revert_all.XXXXXX)
one() { f=$1; b=$(basename $f .diff); prop=${b%%_*}
  res=$(harness/seed_run.sh $ROOT/$f $prop 2>&1 | grep -E "VIOLATION|quick:|INFRA|APPLY" | head -2 | tr '\n' '|' | cut -c1-200)
  echo "$b: $res" | tee $TMPD/$b; }
export -f one; export ROOT TMPD
ls seeded/fix-reverts/*.diff | xargs -P ${PAR:-1} -I{} bash -c 'one {}'
cat $(ls $TMPD/* | sort) > $OUT; rm -rf $TMPD
