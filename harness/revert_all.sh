#!/bin/bash
# usage: revert_all.sh  -- every repaired defect (known_findings.json, status fixed) un-repaired in a scratch worktree in turn: the
# property's quick check must report the violation again ("a fixed entry suppresses nothing"). Patches: seeded/fix-reverts/<prop>_<commit>.diff
ROOT=$(cd "$(dirname "$0")/.." && pwd); cd $ROOT
OUT=${REVERT_RESULTS:-$ROOT/seeded/fix-reverts/RESULTS.txt}; : > $OUT
for f in seeded/fix-reverts/*.diff; do
  b=$(basename $f .diff); prop=${b%%_*}
  res=$(harness/seed_run.sh $ROOT/$f $prop 2>&1 | grep -E "VIOLATION|quick:|INFRA|APPLY" | head -2 | tr '\n' '|' | cut -c1-200)
  echo "$b: $res" | tee -a $OUT
done
