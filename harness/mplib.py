"""Multi-product stream: real multi-product simulations, with the product-general kernels
(_raw_materials_to_finished_goods, inventory_position with earmarks, raw-material order scaling)
recorded call by call and replayed through the Lean kernels of Model/MultiProd.lean, plus the
conservation / consistency / on-order / policy predicates evaluated on the Python state with
arbitrary bill-of-materials numbers."""
import random, warnings, copy
from fractions import Fraction as F
import core
from core import fr, unfr

TOL = 1e-9


def gen_mp_spec(rng, thorough=False):
	"""suppliers (each with 1-2 real products or the dummy) -> factory with 2-3 products -> optional retailer."""
	ns = rng.randint(1, 3)
	sup = []
	pid = 10
	for s in range(ns):
		k = rng.choice([1, 1, 2])
		prods = []
		for _ in range(k):
			prods.append(pid); pid += 1
		sup.append({'label': s + 1, 'products': prods, 'slt': rng.choice([0, 1, 2]), 'olt': rng.choice([0, 0, 1]),
					'S': rng.randint(5, 40), 'h': rng.choice([1, 2, 0.5]), 'ht': rng.choice([None, None, 0, 1.5]), 'rev': rng.choice([None, 0, 0.75])})
	# multi-sourcing: a second supplier carries the first supplier's first product as well
	msrc = None
	if ns >= 2 and rng.random() < .45:
		msrc = sup[0]['products'][0]
		sup[1]['products'] = [msrc] + sup[1]['products'][1:]
	rms = []   # (supplier label, product index or None for dummy)
	for s in sup:
		if s['products']:
			rms += [(s['label'], p) for p in s['products'] if not (p == msrc and s is not sup[0])]
		else:
			rms.append((s['label'], None))
	nf = rng.randint(2, 3)
	fprods = []
	for i in range(nf):
		k = rng.randint(1, min(3, len(rms)))
		use = rng.sample(rms, k)
		if i > 0 and rng.random() < .7:
			# share a raw material with the first product
			shared = rng.choice(fprods[0]['bom'])
			if all(u != (shared[0], shared[1]) for u in use):
				use[0] = (shared[0], shared[1])
		bom = [(a, b, rng.choice([1, 1, 2, 3, 4, 0.5])) for a, b in dict.fromkeys(use)]
		pt = rng.choice(['BS', 'BS', 'sS', 'rQ'])
		if pt == 'BS':
			pol = {'t': 'BS', 'a': rng.randint(4, 20)}
		elif pt == 'sS':
			s_ = rng.randint(2, 8); pol = {'t': 'sS', 'a': s_, 'b': s_ + rng.randint(1, 10)}
		else:
			pol = {'t': 'rQ', 'a': rng.randint(2, 8), 'b': rng.randint(2, 9)}
		fprods.append({'index': 100 + i, 'bom': bom, 'policy': pol, 'initIL': rng.choice([None, rng.randint(0, 15)]),
					   'demand': [rng.randint(0, 9) for _ in range(rng.randint(2, 8))], 'h': rng.choice([1, 2]), 'p': rng.choice([3, 8]),
					   'rev': rng.choice([None, 0, 3, 2.5])})
	# a multi-sourced product must really be a raw material of the factory (otherwise one of its suppliers has a BOM relation
	# through another product and the other only the default one: a degenerate mix outside the documented use)
	if msrc is not None and not any(b[1] == msrc for fp in fprods for b in fp['bom']):
		fprods[0]['bom'].append((sup[0]['label'], msrc, rng.choice([1, 2, 3])))
	# a bill-of-materials number revised AFTER the products have been attached to the network (2 -> 3): nodes must order with the new number
	for fp in fprods:
		fp['bom0'] = list(fp['bom'])
		if rng.random() < .3:
			ks = [k for k, b in enumerate(fp['bom']) if b[1] is not None]
			if ks:
				k = rng.choice(ks); a, b, num = fp['bom'][k]
				fp['bom'][k] = (a, b, rng.choice([x for x in (1, 2, 3, 4) if x != num]))
	T = rng.randint(4, 30 if thorough else 14)
	dis = None
	if rng.random() < .4:
		dis = {'type': rng.choice(['OP', 'SP', 'TP', 'RP']), 'list': [rng.random() < .35 for _ in range(rng.randint(2, T))]}
	# the order capacity given PER PRODUCT: a node-level dict that names only the first product, or an attribute of the first product object
	# (the other products are uncapacitated); decided by a private stream so that the main one is unchanged
	rngc = random.Random(131 * T + 7 * len(fprods) + len(sup))
	cap_form = rngc.choice(['node', 'node', 'node-dict-first-product', 'first-product-object']) if len(fprods) >= 2 else 'node'
	cap_first = rngc.randint(2, 6)
	# one Policy OBJECT filed under two products of the node-level policy dict (its `product` attribute can name only one of them): each product
	# still orders from ITS OWN position
	shared_policy = len(fprods) >= 2 and rngc.random() < .3
	if shared_policy:
		fprods[1]['policy'] = dict(fprods[0]['policy'])
	return {'suppliers': sup, 'factory': {'label': 9, 'products': fprods, 'slt': rng.choice([0, 1, 2]), 'olt': rng.choice([0, 0, 1]),
										   'dis': dis, 'cap': rng.choice([None, rng.randint(3, 12), rng.randint(2, 6)]), 'cap_form': cap_form, 'cap_first': cap_first, 'shared_policy': shared_policy}, 'T': T, 'shared': msrc}


def build_mp(spec):
	from stockpyl.supply_chain_network import SupplyChainNetwork
	from stockpyl.supply_chain_node import SupplyChainNode
	from stockpyl.supply_chain_product import SupplyChainProduct
	from stockpyl.policy import Policy
	from stockpyl.demand_source import DemandSource
	from stockpyl.disruption_process import DisruptionProcess
	net = SupplyChainNetwork()
	fac = spec['factory']
	f = SupplyChainNode(fac['label'], shipment_lead_time=fac['slt'], order_lead_time=fac['olt'], order_capacity=fac['cap'])
	sup_nodes = {}
	prod_objs = {}
	for s in spec['suppliers']:
		n = SupplyChainNode(s['label'], supply_type='U', shipment_lead_time=s['slt'], order_lead_time=s['olt'], local_holding_cost=s['h'],
							stockout_cost=1, in_transit_holding_cost=s.get('ht'), revenue=s.get('rev'))
		sup_nodes[s['label']] = n
		net.add_node(n)
	net.add_node(f)
	for s in spec['suppliers']:
		net.add_edge(s['label'], fac['label'])
	for s in spec['suppliers']:
		n = sup_nodes[s['label']]
		if s['products']:
			for p in s['products']:
				if p in prod_objs:
					# a product carried by several suppliers: one product object, policy and initial stock at (node, product) level
					po = prod_objs[p]
					n.add_product(po)
				else:
					po = SupplyChainProduct(p)
					prod_objs[p] = po
					n.add_product(po)
			if spec.get('shared') is not None and spec['shared'] in s['products']:
				n.inventory_policy = {p: Policy(type='BS', base_stock_level=s['S'], node=n, product=prod_objs[p]) for p in s['products']}
				n.initial_inventory_level = {p: s['S'] for p in s['products']}
			else:
				for p in s['products']:
					po = prod_objs[p]
					po.inventory_policy = Policy(type='BS', base_stock_level=s['S'], node=n, product=po)
					po.initial_inventory_level = s['S']
		else:
			n.inventory_policy = Policy(type='BS', base_stock_level=s['S'], node=n)
			n.initial_inventory_level = s['S']
	fobjs = []
	for fp in fac['products']:
		po = SupplyChainProduct(fp['index'], local_holding_cost=fp['h'], stockout_cost=fp['p'], revenue=fp.get('rev'))
		for (sl, rp, num) in fp.get('bom0', fp['bom']):
			rm_index = rp if rp is not None else sup_nodes[sl]._dummy_product.index
			po.set_bill_of_materials(raw_material=rm_index, num_needed=num)
		fobjs.append(po)
	f.add_products(fobjs)
	if fac.get('cap_form') == 'node-dict-first-product':
		f.order_capacity = {fac['products'][0]['index']: fac['cap_first']}
	elif fac.get('cap_form') == 'first-product-object':
		f.order_capacity = None
		fobjs[0].order_capacity = fac['cap_first']
	for fp, po in zip(fac['products'], fobjs):
		for old_, new_ in zip(fp.get('bom0', fp['bom']), fp['bom']):
			if tuple(old_) != tuple(new_):
				po.set_bill_of_materials(raw_material=new_[1], num_needed=new_[2])          # revised while attached
	f.demand_source = {fp['index']: DemandSource(type='D', demand_list=list(fp['demand'])) for fp in fac['products']}
	for fp, po in zip(fac['products'], fobjs):
		pol = fp['policy']
		if pol['t'] == 'BS':
			po.inventory_policy = Policy(type='BS', base_stock_level=pol['a'], node=f, product=po)
		elif pol['t'] == 'sS':
			po.inventory_policy = Policy(type='sS', reorder_point=pol['a'], order_up_to_level=pol['b'], node=f, product=po)
		else:
			po.inventory_policy = Policy(type='rQ', reorder_point=pol['a'], order_quantity=pol['b'], node=f, product=po)
		if fp['initIL'] is not None:
			po.initial_inventory_level = fp['initIL']
	if fac.get('shared_policy'):
		p0, p1 = fobjs[0], fobjs[1]
		shared_pol = p0.inventory_policy
		p0.inventory_policy = None; p1.inventory_policy = None
		f.inventory_policy = {p0.index: shared_pol, p1.index: shared_pol}
		for po in fobjs[2:]:
			f.inventory_policy[po.index] = po.inventory_policy
	if fac['dis']:
		f.disruption_process = DisruptionProcess(random_process_type='E', disruption_type=fac['dis']['type'],
												 disruption_state_list=list(fac['dis']['list']))
	return net


_rec = None
_installed = False


def install():
	global _installed
	if _installed:
		return
	from stockpyl import sim
	from stockpyl.node_state_vars import NodeStateVars
	from stockpyl.policy import Policy
	orig_rm = sim._raw_materials_to_finished_goods
	orig_ip = NodeStateVars.inventory_position
	orig_oq = Policy.get_order_quantity

	def nbom(node, p, r):
		if r in node.raw_materials_by_product(p, return_indices=True, network_BOM=True):
			return true_bom(node, p, r)
		return 0

	def rm(node):
		if _rec is None or not node.is_multiproduct:
			return orig_rm(node)
		period = node.network.period
		prods = list(node.product_indices)
		rms = list(node.raw_materials_by_product('all', return_indices=True, network_BOM=True))
		bom = [[nbom(node, p, r) for r in rms] for p in prods]
		sv = node.state_vars_current
		avail = [sv.raw_material_inventory[r] for r in rms]
		units = []; oqfg_old = []
		for r in rms:
			prod0 = node.products_by_raw_material(r)[0]
			L = (node.get_attribute('order_lead_time', prod0) or 0) + (node.get_attribute('shipment_lead_time', prod0) or 0)
			old = node.state_vars[period - L]
			units.append(sum(old.order_quantity[pi][r] for pi in node.raw_material_suppliers_by_raw_material(r, return_indices=True, network_BOM=True)))
			oqfg_old.append([old.order_quantity_fg[p] for p in prods])
		il_before = {p: sv.inventory_level[p] for p in prods}
		res = orig_rm(node)
		_rec['rmtofg'].append({'node': node.index, 'period': period, 'prods': prods, 'rms': rms, 'bom': bom, 'avail': avail,
							   'unitsOrdered': units, 'oqfgOld': oqfg_old, 'newFG': [res[p] for p in prods],
							   'rmAfter': [sv.raw_material_inventory[r] for r in rms],
							   'ilDelta': [sv.inventory_level[p] - il_before[p] for p in prods]})
		return res

	def ip(self, product=None, exclude_earmarked_units=False):
		if _rec is None or self.node is None or not self.node.is_multiproduct:
			return orig_ip(self, product=product, exclude_earmarked_units=exclude_earmarked_units)
		node = self.node
		_, prod = node.validate_product(product)
		views = []
		for r in node.raw_materials_by_product(product=prod, return_indices=True, network_BOM=True):
			pl = self.raw_material_inventory[r]
			for pi in node.raw_material_suppliers_by_raw_material(raw_material=r, return_indices=True, network_BOM=True):
				pl += self.on_order_by_predecessor[pi][r] + self.inbound_disrupted_items[pi][r]
			others = [[node.state_vars_current.pending_finished_goods[o], true_bom(node, o, r)]
					  for o in node.product_indices if o != prod]
			views.append({'pipeline': pl, 'others': others, 'nb': true_bom(node, prod, r)})
		res = orig_ip(self, product=product, exclude_earmarked_units=exclude_earmarked_units)
		_rec['ip'].append({'node': node.index, 'period': node.network.period, 'prod': prod, 'il': self.inventory_level[prod],
						   'rms': views, 'excl': bool(exclude_earmarked_units), 'result': res})
		return res

	def oq(self, product=None, order_capacity=None, include_raw_materials=False, inventory_position=None,
		   echelon_inventory_position_adjusted=None):
		res = orig_oq(self, product=product, order_capacity=order_capacity, include_raw_materials=include_raw_materials,
					  inventory_position=inventory_position, echelon_inventory_position_adjusted=echelon_inventory_position_adjusted)
		if _rec is not None and include_raw_materials and self.node is not None and self.node.is_multiproduct and isinstance(res, dict):
			node = self.node
			_, prod = node.validate_product(product)
			per_rm = []
			for r in node.raw_materials_by_product(prod, return_indices=True):
				sups = node.raw_material_suppliers_by_raw_material(r, return_indices=True)
				per_rm.append({'rm': r, 'nb': true_bom(node, prod, r),
							   'orders': [res[s][r] for s in sups]})
			# the inventory position the policy saw = last recorded IP of this product (if any) minus current demand
			demand = node._get_state_var_total('inbound_order', node.network.period, product=prod)
			last_ip = None
			for x in reversed(_rec['ip']):
				if x['node'] == node.index and x['prod'] == prod and x['period'] == node.network.period:
					last_ip = x['result']; break
			try:
				# the position the policy is documented to observe: that of the product the order is FOR (whatever the Policy object's own `product` says)
				last_ip = orig_ip(node.state_vars_current, product=prod, exclude_earmarked_units=True)
			except Exception:
				pass
			_rec['oq'].append({'node': node.index, 'period': node.network.period, 'prod': prod, 'oq': res[None][None], 'per_rm': per_rm,
							   'type': self.type, 'S': self.base_stock_level, 's': self.reorder_point, 'Sup': self.order_up_to_level,
							   'Q': self.order_quantity, 'cap': (node.get_attribute('order_capacity', product=prod) or None), 'cap_passed': order_capacity,
							   'ip_before_demand': last_ip, 'demand': demand})
		return res

	sim._raw_materials_to_finished_goods = rm
	NodeStateVars.inventory_position = ip
	Policy.get_order_quantity = oq
	_installed = True


def run_mp(spec):
	global _rec
	from stockpyl import sim
	install()
	try:
		with warnings.catch_warnings():
			warnings.simplefilter('ignore')
			sim.issued_backorder_warning = False
			net = build_mp(spec)
			_rec = {'rmtofg': [], 'ip': [], 'oq': []}
			total = sim.simulation(net, spec['T'], rand_seed=1, progress_bar=False, consistency_checks='W')
			rec = _rec
			_rec = None
	except Exception as e:
		_rec = None
		import traceback
		return {'error': core.err_enum(e), 'msg': str(e)[:300], 'tb': traceback.format_exc()[-800:]}
	return {'net': net, 'rec': rec, 'total': total}


def close(a, b):
	import math as _m
	if not (_m.isfinite(float(a)) and _m.isfinite(float(b))):
		return float(a) == float(b)          # an infinite value is close to nothing finite
	return abs(float(a) - float(b)) <= TOL * max(1.0, abs(float(a)), abs(float(b)))


def true_bom(n, p, r):
	"""Units of raw material r per unit of product p at node n, read from the PRODUCT's bill of materials (what the user set last);
	the network default (1 unit of each product of a predecessor without an explicit relation) where the product has none."""
	try:
		b = n.products_by_index[p].BOM(r)
	except Exception:
		b = 0
	return b if b else n.NBOM(product=p, predecessor=None, raw_material=r)


def mp_oracles(net, T, rec):
	"""Conservation / consistency / on-order / policy predicates on the Python state, any BOM. Returns dict prop -> [failures]."""
	bad = {'C01': [], 'C02': [], 'C03': [], 'C04': [], 'C05': []}
	# C05: every cost component recomputed from the state it prices (any number of products, shared and multi-sourced raw materials)
	grand = 0.0
	for n in net.nodes:
		sv = n.state_vars
		prods = n.product_indices
		rms = n.raw_materials_by_product('all', return_indices=True, network_BOM=True)
		for t in range(T):
			hold = 0.0; so = 0.0; tr = 0.0
			for p in prods:
				il = sv[t].inventory_level[p]
				hold += (n.get_attribute('local_holding_cost', p) or 0) * (max(0, il) + sum(sv[t].outbound_disrupted_items[s][p] for s in sv[t].outbound_disrupted_items))
				so += (n.get_attribute('stockout_cost', p) or 0) * sum(sv[t].backorders_by_successor[s][p] for s in sv[t].backorders_by_successor)
				ht = n.get_attribute('in_transit_holding_cost', p)
				if ht is None:
					ht = n.get_attribute('local_holding_cost', p) or 0
				for s in n.successors():
					pl = s.state_vars[t].inbound_shipment_pipeline.get(n.index, {})
					if p in pl:
						tr += ht * sum(pl[p])
			for r in dict.fromkeys(rms):
				sups = [q for q in n.raw_material_suppliers_by_raw_material(raw_material=r, network_BOM=True) if q is not None]
				if sups:
					# each raw material is held once, whatever the number of products that use it; the first supplier's rate prices the stock
					# (the code's documented workaround), each supplier's own rate prices the items it has waiting at the door
					hold += (sups[0].get_attribute('local_holding_cost', r) or 0) * sv[t].raw_material_inventory[r]
					for q in sups:
						hold += (q.get_attribute('local_holding_cost', r) or 0) * sv[t].inbound_disrupted_items[q.index][r]
			for nm, want, got in (('holding', hold, sv[t].holding_cost_incurred), ('stockout', so, sv[t].stockout_cost_incurred),
								  ('in-transit', tr, sv[t].in_transit_holding_cost_incurred),
								  ('total', sv[t].holding_cost_incurred + sv[t].stockout_cost_incurred + sv[t].in_transit_holding_cost_incurred - sv[t].revenue_earned, sv[t].total_cost_incurred)):
				if not close(want, got):
					bad['C05'].append('node %s t=%d: %s cost reported %s, the reported state prices to %s' % (n.index, t, nm, got, want))
			grand += sv[t].total_cost_incurred
	bad['_grand_total'] = grand
	newfg = {(r['node'], r['period']): dict(zip(r['prods'], r['newFG'])) for r in rec['rmtofg']}
	for n in net.nodes:
		sv = n.state_vars
		prods = n.product_indices
		rms = n.raw_materials_by_product('all', return_indices=True, network_BOM=True)
		for t in range(T):
			fg = newfg.get((n.index, t))
			for p in prods:
				il = sv[t].inventory_level[p]
				prev_il = sv[t - 1].inventory_level[p] if t > 0 else None
				io = sum(sv[t].inbound_order[s][p] for s in sv[t].inbound_order)
				if fg is not None and prev_il is not None and not close(il, prev_il + fg[p] - io):
					bad['C01'].append('node %s product %s t=%d: IL %s != prev %s + produced %s - orders %s' % (n.index, p, t, il, prev_il, fg[p], io))
				# service bookkeeping per PRODUCT: cumulative demand grows by the orders received for this product, what was met from stock never
				# exceeds it, and the reported fill rate is their ratio (1 while there has been no demand)
				dc, dm = sv[t].demand_cumul[p], sv[t].demand_met_from_stock_cumul[p]
				if t > 0 and not close(dc, sv[t - 1].demand_cumul[p] + io):
					bad['C02'].append('node %s product %s t=%d: cumulative demand %s != previous %s + orders received %s' % (n.index, p, t, dc, sv[t - 1].demand_cumul[p], io))
				if dm > dc + TOL:
					bad['C02'].append('node %s product %s t=%d: cumulative demand met from stock %s exceeds cumulative demand %s' % (n.index, p, t, dm, dc))
				if not close(sv[t].fill_rate[p], (dm / dc) if dc > 0 else 1.0):
					bad['C02'].append('node %s product %s t=%d: fill rate %s != met from stock %s / demand %s' % (n.index, p, t, sv[t].fill_rate[p], dm, dc))
				bo = sum(sv[t].backorders_by_successor[s][p] for s in sv[t].backorders_by_successor)
				if not close(bo, max(0, -il)):
					bad['C02'].append('node %s product %s t=%d: backorders %s != negative part of IL %s' % (n.index, p, t, bo, il))
				for s in sv[t].inbound_order:
					if t > 0:
						lhs = sv[t].backorders_by_successor[s][p] + sv[t].outbound_disrupted_items[s][p] + sv[t].outbound_shipment[s][p]
						rhs = sv[t - 1].backorders_by_successor[s][p] + sv[t - 1].outbound_disrupted_items[s][p] + sv[t].inbound_order[s][p]
						if not close(lhs, rhs):
							bad['C01'].append('node %s -> %s product %s t=%d: ordered units not all shipped/backordered/held' % (n.index, s, p, t))
					for v in (sv[t].backorders_by_successor[s][p], sv[t].outbound_shipment[s][p], sv[t].outbound_disrupted_items[s][p]):
						if v < -TOL:
							bad['C02'].append('node %s product %s t=%d: negative count %s' % (n.index, p, t, v))
			for r in rms:
				if fg is not None and t > 0:
					recd = sum(sv[t].inbound_shipment[pi][r] for pi in sv[t].inbound_shipment if r in sv[t].inbound_shipment[pi])
					used = sum(fg[p] * true_bom(n, p, r) for p in prods
							   if r in n.raw_materials_by_product(p, return_indices=True, network_BOM=True))
					if not close(sv[t].raw_material_inventory[r], sv[t - 1].raw_material_inventory[r] + recd - used):
						bad['C01'].append('node %s raw material %s t=%d: stock %s != prev %s + received %s - consumed %s' % (
							n.index, r, t, sv[t].raw_material_inventory[r], sv[t - 1].raw_material_inventory[r], recd, used))
				if sv[t].raw_material_inventory[r] < -TOL:
					bad['C02'].append('node %s raw material %s t=%d: negative stock %s' % (n.index, r, t, sv[t].raw_material_inventory[r]))
				# orders per raw material = sum over products of FG order x BOM
				oq_rm = sum(sv[t].order_quantity[pi][r] for pi in sv[t].order_quantity if r in sv[t].order_quantity[pi])
				want = sum(sv[t].order_quantity_fg[p] * true_bom(n, p, r) for p in prods
						   if r in n.raw_materials_by_product(p, return_indices=True, network_BOM=True))
				if not close(oq_rm, want):
					bad['C04'].append('node %s raw material %s t=%d: raw-material orders %s != sum of FG orders x BOM %s' % (n.index, r, t, oq_rm, want))
				for pi in n.raw_material_suppliers_by_raw_material(r, return_indices=True, network_BOM=True):
					oo = sv[t].on_order_by_predecessor[pi][r]
					want = sum(sv[t].inbound_shipment_pipeline[pi][r])
					if pi is not None:
						ps = net.nodes_by_index[pi].state_vars[t]
						want += sum(ps.inbound_order_pipeline[n.index][r]) + ps.backorders_by_successor[n.index][r] + ps.outbound_disrupted_items[n.index][r]
					if not close(oo, want):
						bad['C03'].append('node %s <- %s raw material %s t=%d: on-order %s != ordered-not-received %s' % (n.index, pi, r, t, oo, want))
					if t > 0 and pi is not None:
						# order-pipeline conservation: what this node ordered from pi in period t is, with what was already travelling, either
						# received by pi in period t or still travelling -- whatever the number of products that need the raw material
						ps0, ps1 = net.nodes_by_index[pi].state_vars[t - 1], net.nodes_by_index[pi].state_vars[t]
						lhs = sum(ps1.inbound_order_pipeline[n.index][r]) + ps1.inbound_order[n.index][r]
						rhs = sum(ps0.inbound_order_pipeline[n.index][r]) + sv[t].order_quantity[pi][r]
						if not close(lhs, rhs):
							bad['C01'].append('edge %s -> %s raw material %s t=%d: orders placed %s + travelling before %s != received by the supplier %s + travelling now %s' % (
								pi, n.index, r, t, sv[t].order_quantity[pi][r], sum(ps0.inbound_order_pipeline[n.index][r]), ps1.inbound_order[n.index][r], sum(ps1.inbound_order_pipeline[n.index][r])))
					if t > 0:
						if pi is not None:
							inflow = net.nodes_by_index[pi].state_vars[t].outbound_shipment[n.index][r]
						else:
							inflow = sv[t].order_quantity[pi][r]
						lhs = sum(sv[t].inbound_shipment_pipeline[pi][r]) + sv[t].inbound_disrupted_items[pi][r] + sv[t].inbound_shipment[pi][r]
						rhs = sum(sv[t - 1].inbound_shipment_pipeline[pi][r]) + sv[t - 1].inbound_disrupted_items[pi][r] + inflow
						if not close(lhs, rhs):
							bad['C01'].append('edge %s -> %s raw material %s t=%d: shipped != received + in transit + held' % (pi, n.index, r, t))
	# the inventory position the policy observes is IL + what the pipeline can still deliver for THIS product
	for x in rec['ip']:
		vals = []
		for v in x['rms']:
			pl = v['pipeline']
			if x['excl']:
				for pfg, nb in v['others']:
					pl = max(0, pl - pfg * nb)      # units earmarked for the other products, in raw-material units
			vals.append(pl / v['nb'])
		ref = x['il'] + min(vals)
		if not close(ref, x['result']):
			bad['C04'].append('node %s product %s t=%d: inventory position used by the policy is %s but IL + producible pipeline = %s' % (
				x['node'], x['prod'], x['period'], x['result'], ref))
	# orders follow the policy for the inventory position observed
	for x in rec['oq']:
		if x['ip_before_demand'] is None and x['type'] != 'FQ':
			continue
		if x['type'] == 'FQ':
			q = x['Q']
		else:
			ipv = x['ip_before_demand'] - x['demand']
			if x['type'] == 'BS':
				q = max(0.0, x['S'] - ipv)
			elif x['type'] == 'sS':
				q = x['Sup'] - ipv if ipv <= x['s'] else 0
			elif x['type'] == 'rQ':
				q = x['Q'] if ipv <= x['s'] else 0
			else:
				continue
		if x['cap'] is not None:
			q = min(q, x['cap'])
		if not close(q, x['oq']):
			bad['C04'].append('node %s product %s t=%d: ordered %s but the policy prescribes %s for IP %s' % (x['node'], x['prod'], x['period'], x['oq'], q, ipv))
	return bad


def mp_case(rep, drv, spec, prop, theorem):
	"""Runs one multi-product case for property `prop` ('C01'|'C02'|'C03'|'C04'): kernel replay + predicates."""
	r = run_mp(spec)
	if 'error' in r:
		rep.case('mp-kernels', spec, nontrivial=False)
		rep.count('mp-python-error:' + r['error'])
		rep.diff('mp-kernels', 'real simulator raised %s on a multi-product network: %s' % (r['error'], r.get('msg')), spec,
				 py={'tb': r.get('tb')}, oracle=True, theorem=theorem)
		return
	rec = r['rec']
	rep.case('mp-kernels', spec, nontrivial=len(rec['rmtofg']) > 0 and any(any(v > 0 for v in x['newFG']) for x in rec['rmtofg']))
	rep.count('mp:rmtofg-calls', len(rec['rmtofg'])); rep.count('mp:ip-calls', len(rec['ip'])); rep.count('mp:oq-calls', len(rec['oq']))
	diffs = []
	if prop in ('C01', 'C02'):
		reqs = [{'fn': 'mp_rmtofg', 'bom': [[fr(v) for v in row] for row in x['bom']], 'avail': [fr(v) for v in x['avail']],
				 'unitsOrdered': [fr(v) for v in x['unitsOrdered']], 'oqfgOld': [[fr(v) for v in row] for row in x['oqfgOld']]} for x in rec['rmtofg']]
		outs = drv.batch(reqs) if reqs else []
		for x, o in zip(rec['rmtofg'], outs):
			rep.tol_cmp += 1
			if any(abs(a) > 0 and len(set(x['unitsOrdered'])) and False for a in []):
				pass
			shared = any(sum(1 for row in x['bom'] if row[j] > 0) > 1 for j in range(len(x['rms'])))
			if shared:
				rep.count('mp:shared-raw-material-call')
			for k, (a, b) in enumerate(zip(x['newFG'], o['newFG'])):
				if not close(a, unfr(b)):
					diffs.append('node %s t=%d product %s: produced %s, model kernel on the same inputs %s' % (x['node'], x['period'], x['prods'][k], a, float(unfr(b))))
			for k, (a, b) in enumerate(zip(x['rmAfter'], o['rmAfter'])):
				if not close(a, unfr(b)):
					diffs.append('node %s t=%d raw material %s: stock after production %s, model kernel %s' % (x['node'], x['period'], x['rms'][k], a, float(unfr(b))))
	if prop == 'C04':
		reqs = [{'fn': 'mp_ip', 'il': fr(x['il']), 'excl': x['excl'],
				 'rms': [{'pipeline': fr(v['pipeline']), 'nb': fr(v['nb']), 'others': [[fr(a), fr(b)] for a, b in v['others']]} for v in x['rms']]}
				for x in rec['ip']]
		outs = drv.batch(reqs) if reqs else []
		for x, o in zip(rec['ip'], outs):
			rep.tol_cmp += 1
			if not close(x['result'], unfr(o)):
				diffs.append('node %s t=%d product %s: inventory position %s, model kernel on the same inputs %s' % (x['node'], x['period'], x['prod'], x['result'], float(unfr(o))))
		for x in rec['oq']:
			for pr in x['per_rm']:
				o = drv.call('mp_rmorders', oq=fr(x['oq']), nb=fr(pr['nb']), k=len(pr['orders']))
				rep.tol_cmp += 1
				if len(o) != len(pr['orders']) or any(not close(a, unfr(b)) for a, b in zip(pr['orders'], o)):
					diffs.append('node %s t=%d product %s raw material %s: raw-material orders %s, model %s' % (x['node'], x['period'], x['prod'], pr['rm'], pr['orders'], o))
	if prop == 'C05':
		# the model's multi-product cost kernel (Model/MultiProd.lean mpCosts) on every reported end-of-period state
		net = r['net']; reqs = []; keys = []
		for n in net.nodes:
			prods = list(n.product_indices)
			rms = list(n.raw_materials_by_product('all', return_indices=True, network_BOM=True))
			bom = [[(n.NBOM(product=p, predecessor=None, raw_material=rm) if rm in n.raw_materials_by_product(p, return_indices=True, network_BOM=True) else 0)
					for rm in rms] for p in prods]
			for t in range(spec['T']):
				sv = n.state_vars[t]
				pl = []
				for p in prods:
					tr = 0
					for s_ in n.successors():
						q = s_.state_vars[t].inbound_shipment_pipeline.get(n.index, {})
						if p in q:
							tr += sum(q[p])
					ht = n.get_attribute('in_transit_holding_cost', p)
					pl.append({'h': fr(n.get_attribute('local_holding_cost', p) or 0), 'p': fr(n.get_attribute('stockout_cost', p) or 0),
							   'ht': None if ht is None else fr(ht), 'rev': fr(n.get_attribute('revenue', p) or 0), 'il': fr(sv.inventory_level[p]),
							   'odi': fr(sum(sv.outbound_disrupted_items[s_][p] for s_ in sv.outbound_disrupted_items)), 'transit': fr(tr),
							   'shipped': fr(sum(sv.outbound_shipment[s_][p] for s_ in sv.outbound_shipment))})
				rl = []
				for rm in rms:
					sups = [q for q in n.raw_material_suppliers_by_raw_material(raw_material=rm, network_BOM=True) if q is not None]
					if sups:
						rl.append({'rate': fr(sups[0].get_attribute('local_holding_cost', rm) or 0), 'stock': fr(sv.raw_material_inventory[rm]),
								   'door': fr(sv.inbound_disrupted_items[sups[0].index][rm])})
					else:
						rl.append({'rate': '0', 'stock': fr(sv.raw_material_inventory[rm]), 'door': '0'})
				reqs.append({'fn': 'mp_costs', 'bom': [[fr(v) for v in row] for row in bom], 'prods': pl, 'rms': rl}); keys.append((n, t))
		outs = drv.batch(reqs) if reqs else []
		for (n, t), o in zip(keys, outs):
			sv = n.state_vars[t]
			rep.tol_cmp += 5
			for k_, got in (('hc', sv.holding_cost_incurred), ('sc', sv.stockout_cost_incurred), ('ithc', sv.in_transit_holding_cost_incurred),
							('rv', sv.revenue_earned), ('tc', sv.total_cost_incurred)):
				if not close(got, unfr(o[k_])):
					diffs.append('node %s t=%d %s: reported %s, model cost kernel on the same state %s' % (n.index, t, k_, got, float(unfr(o[k_]))))
	orc = mp_oracles(r['net'], spec['T'], rec)
	fails = orc[prop]
	if prop == 'C05':
		rep.tol_cmp += 1
		if not close(orc['_grand_total'], r['total']):
			fails.append('simulation() returned %s but the per-period totals of all nodes add up to %s' % (r['total'], orc['_grand_total']))
	if diffs or fails:
		what = ''
		if diffs:
			what = 'model kernel/implementation differ: ' + '; '.join(diffs[:3])
		if fails:
			what += ' | property predicate fails on the real code: ' + '; '.join(fails[:3])
		rep.diff('mp-kernels', what, spec, py={'diffs': diffs[:10], 'predicate_failures': fails[:10]}, oracle=bool(fails),
				 theorem=theorem if not diffs else None)


def run_mp_stream(rep, drv, prop, theorem, n, thorough, seed_off=0):
	rng = random.Random(rep.seed * 7919 + seed_off)
	for k in range(n):
		mp_case(rep, drv, gen_mp_spec(rng, thorough), prop, theorem)
