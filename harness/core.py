"""Shared machinery of the /verif checks: model driver, canonicalisation, comparison,
known findings, evidence, replays.  Run with /venv/bin/python (stockpyl's own interpreter)."""
import sys, os, json, time, subprocess, random, hashlib, math, traceback, re, glob
from fractions import Fraction

VERIF = os.path.dirname(os.path.dirname(os.path.abspath(__file__)))
REPO = os.environ.get('STOCKPYL_REPO', '/repo')
# where evidence/ and replays/ are written (seeded-change runs redirect it so that /verif/evidence always describes the real tree)
OUT = os.environ.get('VERIF_OUT', None)
sys.path.insert(0, os.path.join(REPO, 'src'))
LEAN_DIR = os.path.join(VERIF, 'lean')
DRV = os.path.join(LEAN_DIR, '.lake', 'build', 'bin', 'drv')
ALLOWED_AXIOMS = {'propext', 'Classical.choice', 'Quot.sound'}


class Infra(Exception):
	"""Infrastructure failure (exit 2) - never a VIOLATION."""


# ---------------------------------------------------------------- numbers
def fr(x):
	"""Exact rational of a Python/NumPy number, as protocol string."""
	if x is None:
		return None
	if isinstance(x, bool):
		return '1' if x else '0'
	if isinstance(x, Fraction):
		f = x
	elif isinstance(x, int):
		f = Fraction(x)
	else:
		try:
			import numpy as np
			if isinstance(x, np.integer):
				f = Fraction(int(x))
			else:
				f = Fraction(float(x))
		except (OverflowError, ValueError):
			raise
	return str(f.numerator) if f.denominator == 1 else '%d/%d' % (f.numerator, f.denominator)


def frs(xs):
	return [fr(x) for x in xs]


def unfr(s):
	"""Protocol string/int -> Fraction (None stays None)."""
	if s is None:
		return None
	if isinstance(s, bool):
		return s
	if isinstance(s, (int,)):
		return Fraction(s)
	if isinstance(s, str):
		return Fraction(s)
	raise ValueError('unfr %r' % (s,))


def exact_eq(py, model):
	"""py: python number; model: protocol rational. Exact equality of values."""
	if py is None or model is None:
		return py is None and model is None
	return Fraction(py) == unfr(model)


def close(py, model, rtol=1e-9, atol=1e-9):
	if py is None or model is None:
		return py is None and model is None
	m = unfr(model) if not isinstance(model, (int, float, Fraction)) else model
	p = float(py)
	m = float(m)
	if math.isnan(p) or math.isnan(m):
		return False
	return abs(p - m) <= atol + rtol * max(abs(m), abs(p))


def err_enum(e):
	"""Map an exception to the small error enum of the protocol."""
	n = type(e).__name__
	if n in ('ValueError', 'AttributeError', 'IndexError', 'KeyError', 'TypeError', 'ZeroDivisionError'):
		return n
	return 'crash:' + n


# ---------------------------------------------------------------- driver
class Driver:
	"""Line-protocol client of the Lean model driver (compiled, Mathlib-free)."""

	def __init__(self):
		if not os.path.exists(DRV):
			raise Infra('model driver not built: ' + DRV)
		self.p = subprocess.Popen([DRV], stdin=subprocess.PIPE, stdout=subprocess.PIPE, text=True, bufsize=1)
		self.calls = 0

	def call(self, fn, **args):
		args['fn'] = fn
		self.p.stdin.write(json.dumps(args) + '\n')
		self.p.stdin.flush()
		line = self.p.stdout.readline()
		if not line:
			raise Infra('model driver died on ' + fn)
		self.calls += 1
		r = json.loads(line)
		if 'ok' in r:
			return r['ok']
		return {'__err__': r.get('err')}

	def batch(self, reqs):
		"""reqs: list of dicts with 'fn'. Returns list of results (pipelined through a thread)."""
		import threading
		out = []
		data = ''.join(json.dumps(r) + '\n' for r in reqs)
		def feed():
			self.p.stdin.write(data)
			self.p.stdin.flush()
		th = threading.Thread(target=feed)
		th.start()
		for _ in reqs:
			line = self.p.stdout.readline()
			if not line:
				raise Infra('model driver died in batch')
			r = json.loads(line)
			out.append(r['ok'] if 'ok' in r else {'__err__': r.get('err')})
		th.join()
		self.calls += len(reqs)
		return out

	def close(self):
		try:
			self.p.stdin.close()
			self.p.wait(timeout=5)
		except Exception:
			self.p.kill()


# ---------------------------------------------------------------- Lean obligations
def run(cmd, cwd=None, timeout=3600):
	r = subprocess.run(cmd, cwd=cwd, shell=isinstance(cmd, str), capture_output=True, text=True, timeout=timeout)
	return r.returncode, r.stdout + r.stderr


def lake_build():
	t0 = time.time()
	rc, out = run(['lake', 'build'], cwd=LEAN_DIR, timeout=3600)
	return rc == 0, out, time.time() - t0


_FORBIDDEN = re.compile(r'\b(sorry|admit|native_decide|bv_decide|implemented_by)\b|^axiom |unsafe |maxHeartbeats 0')


def strip_comments(src):
	# remove /- ... -/ (nested not handled beyond one level) and -- comments
	out = []
	i = 0
	depth = 0
	n = len(src)
	while i < n:
		if src.startswith('/-', i):
			depth += 1
			i += 2
		elif src.startswith('-/', i) and depth > 0:
			depth -= 1
			i += 2
		elif depth > 0:
			if src[i] == '\n':
				out.append('\n')
			i += 1
		elif src.startswith('--', i):
			while i < n and src[i] != '\n':
				i += 1
		else:
			out.append(src[i])
			i += 1
	return ''.join(out)


def grep_forbidden():
	hits = []
	for root in ('StockpylModel', 'Driver'):
		for path in glob.glob(os.path.join(LEAN_DIR, root, '**', '*.lean'), recursive=True):
			src = strip_comments(open(path).read())
			for ln, line in enumerate(src.split('\n'), 1):
				if _FORBIDDEN.search(line):
					hits.append('%s:%d: %s' % (os.path.relpath(path, LEAN_DIR), ln, line.strip()))
	return hits


def theorem_list(pid):
	"""Props/Cxx.list: one fully-qualified theorem name per line (# comments allowed)."""
	path = os.path.join(LEAN_DIR, 'StockpylModel', 'Props', pid + '.list')
	names = []
	for line in open(path):
		line = line.split('#')[0].strip()
		if line:
			names.append(line)
	return names


def audit_axioms(pid, names):
	"""#print axioms on every listed theorem; returns dict name -> list of axioms (or None if missing)."""
	d = os.path.join(LEAN_DIR, '.lake', 'audit')
	os.makedirs(d, exist_ok=True)
	f = os.path.join(d, '%s_%d.lean' % (pid, os.getpid()))          # one file per process: checks of one property may run side by side
	with open(f, 'w') as fh:
		fh.write('import StockpylModel\n')
		for n in names:
			fh.write('#print axioms %s\n' % n)
	rc, out = run(['lake', 'env', 'lean', f], cwd=LEAN_DIR, timeout=1800)
	try:
		os.remove(f)
	except OSError:
		pass
	res = {n: None for n in names}
	# output format: "'name' depends on axioms: [a, b]" or "'name' does not depend on any axioms"
	for m in re.finditer(r"'(\S+)' depends on axioms: \[([^\]]*)\]", out):
		res[m.group(1)] = [a.strip() for a in m.group(2).replace('\n', ' ').split(',') if a.strip()]
	for m in re.finditer(r"'(\S+)' does not depend on any axioms", out):
		res[m.group(1)] = []
	return res, out


def check_obligations(pid, tier):
	"""Build + audit. Returns dict for evidence; raises Infra if the Lean side itself is broken."""
	ok, out, dt = lake_build()
	if not ok:
		raise Infra('lake build failed:\n' + out[-3000:])
	names = theorem_list(pid)
	hits = grep_forbidden()
	if hits:
		raise Infra('forbidden tokens in Lean sources:\n' + '\n'.join(hits))
	res, out = audit_axioms(pid, names)
	discharged = 0
	bad = []
	axioms_used = set()
	for n in names:
		ax = res.get(n)
		if ax is None:
			bad.append(n + ': not found')
		elif not set(ax) <= ALLOWED_AXIOMS:
			bad.append(n + ': axioms ' + ','.join(ax))
		else:
			discharged += 1
			axioms_used |= set(ax)
	if bad:
		raise Infra('axiom audit failed: ' + '; '.join(bad) + '\n' + out[-2000:])
	info = {
		'obligations': len(names), 'discharged': discharged, 'theorems': names,
		'axioms_used': sorted(axioms_used),
		'checker_cmd': 'cd lean && lake build && lake env lean .lake/audit/%s.lean  (#print axioms on every theorem of Props/%s.list)' % (pid, pid),
		'build_s': round(dt, 2),
	}
	if tier == 'thorough':
		t0 = time.time()
		mods = ['StockpylModel.Props.' + pid] + (['StockpylModel.Props.Net', 'StockpylModel.Props.NetBO', 'StockpylModel.Props.NetFlow', 'StockpylModel.Props.NetArrive', 'StockpylModel.Props.NetPolicy', 'StockpylModel.Props.NetExt'] if pid in ('C01', 'C02', 'C03', 'C04') else [])
		rc, out2 = run(['lake', 'env', 'leanchecker'] + mods, cwd=LEAN_DIR, timeout=3600)
		info['leanchecker'] = {'rc': rc, 'wall_s': round(time.time() - t0, 1), 'tail': out2[-300:]}
		if rc != 0:
			raise Infra('leanchecker rejected Props.%s: %s' % (pid, out2[-1500:]))
	return info


# ---------------------------------------------------------------- watchdog for calls into the code under check
class TimedOut(Exception):
	"""The code under check did not return within the allotted time (a changed loop bound, a grid far larger than documented...)."""


class time_limit:
	"""with time_limit(30): real_code(...)  -- raises TimedOut in the calling thread if the block uses more than that much CPU time
	of this process (ITIMER_PROF / SIGPROF): a busy machine cannot turn a slow but finite call into a false alarm, while a call that
	loops or allocates without end still stops."""
	def __init__(self, seconds):
		self.seconds = seconds
	def __enter__(self):
		import signal, time
		def on_alarm(signum, frame):
			raise TimedOut('no result within %d s of CPU time' % self.seconds)
		self.t0 = time.process_time()
		self.outer = signal.getitimer(signal.ITIMER_PROF)[0]          # an enclosing, possibly shorter, limit keeps its deadline
		self.old = signal.signal(signal.SIGPROF, on_alarm)
		signal.setitimer(signal.ITIMER_PROF, min(self.seconds, self.outer) if self.outer > 0 else self.seconds)
		return self
	def __exit__(self, *exc):
		import signal, time
		signal.setitimer(signal.ITIMER_PROF, 0)
		signal.signal(signal.SIGPROF, self.old)
		if self.outer > 0:
			signal.setitimer(signal.ITIMER_PROF, max(0.01, self.outer - (time.process_time() - self.t0)))
		return False


def guard(fn, *args, _limit=30, **kw):
	with time_limit(_limit):
		return fn(*args, **kw)


_wd_depth = [0]


def install_watchdog(default=120, slow=360):
	"""Wrap every public function of the library modules (as seen from the harness) in a time limit, outermost call only.
	A call that does not return raises TimedOut, which the streams report like any other exception of the code under check."""
	import importlib, inspect, functools
	mods = ['eoq', 'newsvendor', 'rq', 'ss', 'wagner_whitin', 'finite_horizon', 'supply_uncertainty', 'ssm_serial', 'gsm_serial', 'gsm_tree',
			'gsm_helpers', 'meio_general', 'loss_functions', 'helpers', 'sim', 'sim_io', 'instances', 'optimization']
	slow_names = {'simulation', 'run_multiple_trials', 'meio_by_enumeration', 'meio_by_coordinate_descent', 'optimize_base_stock_levels', 'expected_cost',
				  'finite_horizon_dp', 'optimize_committed_service_times'}
	for m in mods:
		try:
			mod = importlib.import_module('stockpyl.' + m)
		except Exception:
			continue
		for name, fn in list(vars(mod).items()):
			if name.startswith('_') or not inspect.isfunction(fn) or fn.__module__ != mod.__name__:
				continue
			def make(fn, lim):
				@functools.wraps(fn)
				def wrapped(*a, **k):
					if _wd_depth[0] > 0:
						return fn(*a, **k)
					_wd_depth[0] += 1
					try:
						with time_limit(lim):
							return fn(*a, **k)
					finally:
						_wd_depth[0] -= 1
				return wrapped
			setattr(mod, name, make(fn, slow if name in slow_names else default))


def limit_memory(gb=24):
	"""A changed grid or loop bound can make the code under check allocate without end: fail with MemoryError instead of taking the machine down."""
	try:
		import resource
		resource.setrlimit(resource.RLIMIT_AS, (gb << 30, gb << 30))
	except Exception:
		pass


# ---------------------------------------------------------------- findings
def load_known():
	path = os.path.join(VERIF, 'known_findings.json')
	if not os.path.exists(path):
		return []
	return json.load(open(path))['entries']


class Report:
	"""Collects what a run covered, the diffs it met and their classification."""

	def __init__(self, pid, tier, seed):
		self.pid, self.tier, self.seed = pid, tier, seed
		self.t0 = time.time()
		self.evaluations = 0
		self.nontrivial = set()
		self.samples = []
		self.hist = {}
		self.exact_cmp = 0
		self.tol_cmp = 0
		self.violations = []      # dicts: {stream, what, case, py, model, oracle, finding_id}
		self.known_hits = {}      # finding id -> count
		self.notes = []
		self.streams = {}
		self.rule = ''
		self.assumptions = []
		self.extra = {}

	def count(self, key, n=1):
		self.hist[key] = self.hist.get(key, 0) + n

	def case(self, stream, case, nontrivial=True, sample_every=None):
		self.evaluations += 1
		self.last_case = (stream, case)
		self.streams[stream] = self.streams.get(stream, 0) + 1
		if nontrivial:
			h = hashlib.sha1(json.dumps([stream, case], sort_keys=True, default=str).encode()).hexdigest()
			self.nontrivial.add(h)
		if len(self.samples) < 4 and (self.streams[stream] in (1, 7)):
			self.samples.append({'stream': stream, 'case': case})

	def diff(self, stream, what, case, py=None, model=None, oracle=None, finding_id=None, theorem=None):
		"""A disagreement between model and implementation, or an oracle failure.
		oracle: None (not evaluated), True (the property's executable predicate FAILS on the real
		code at this input => concrete counterexample), False (predicate holds here)."""
		self.violations.append({'stream': stream, 'what': what, 'case': case, 'py': py, 'model': model,
								'oracle_fails': oracle, 'finding_id': finding_id, 'theorem': theorem})

	def n_violations(self):
		return len(self.violations)


def jsonable(x):
	import numpy as np
	if isinstance(x, dict):
		return {str(k): jsonable(v) for k, v in x.items()}
	if isinstance(x, (list, tuple, set)):
		return [jsonable(v) for v in x]
	if isinstance(x, Fraction):
		return fr(x)
	if isinstance(x, (np.integer,)):
		return int(x)
	if isinstance(x, (np.floating,)):
		return float(x)
	if isinstance(x, np.ndarray):
		return jsonable(x.tolist())
	if isinstance(x, (int, float, str, bool)) or x is None:
		return x
	return repr(x)


def finish(rep, obligations, trusted_base, replay_only=False):
	"""Print KNOWN-FINDING / VIOLATION lines, write replays and evidence, return exit code."""
	known = {e['id']: e for e in load_known() if e.get('property') == rep.pid}
	new = []
	known_seen = {}
	for v in rep.violations:
		fid = v.get('finding_id')
		if fid and fid in known and known[fid].get('status') == 'finding':
			known_seen.setdefault(fid, v)
		else:
			new.append(v)
	for fid, v in known_seen.items():
		print('KNOWN-FINDING: property=%s %s [%s]' % (rep.pid, known[fid]['what'], fid))
	rc = 0
	os.makedirs(os.path.join(OUT or VERIF, 'replays'), exist_ok=True)
	if new:
		rc = 1
		# prefer a diff with a concrete failing input
		new.sort(key=lambda v: 0 if v['oracle_fails'] else 1)
		v = new[0]
		path = os.path.join(OUT or VERIF, 'replays', '%s-%d-%d.json' % (rep.pid, rep.seed, len(new)))
		doc = {'property': rep.pid, 'seed': rep.seed, 'tier': rep.tier, 'stream': v['stream'], 'what': v['what'],
			   'case': jsonable(v['case']), 'python': jsonable(v['py']), 'model': jsonable(v['model']),
			   'concrete_failing_input': bool(v['oracle_fails']),
			   'no_longer_checks': v.get('theorem') or ('correspondence stream ' + v['stream']),
			   'other_diffs': [{'stream': w['stream'], 'what': w['what'], 'case': jsonable(w['case']),
								'python': jsonable(w['py']), 'model': jsonable(w['model']),
								'concrete_failing_input': bool(w['oracle_fails'])} for w in new[1:20]],
			   'total_diffs': len(new)}
		with open(path, 'w') as fh:
			json.dump(doc, fh, indent=1)
		tail = '' if v['oracle_fails'] else ' no-failing-input-found'
		print('VIOLATION property=%s replay=%s%s' % (rep.pid, path, tail))
		print('  ' + v['stream'] + ': ' + str(v['what'])[:300])
	if replay_only:
		return rc
	cov = dict(obligations)
	cov.update({
		'trusted_base': trusted_base,
		'evaluations': rep.evaluations,
		'distinct_nontrivial': len(rep.nontrivial),
		'rule': rep.rule,
		'samples': jsonable(rep.samples) or [{'obligations': obligations.get('theorems', [])[:5]}],
		'streams': rep.streams,
		'input_distribution': rep.hist,
		'comparisons_exact': rep.exact_cmp,
		'comparisons_tolerance': rep.tol_cmp,
		'known_findings_seen': sorted(known_seen.keys()),
		'notes': rep.notes,
	})
	cov.update(rep.extra)
	ev = {'property_id': rep.pid, 'tier': rep.tier, 'seed': rep.seed, 'level': 'proof', 'coverage': cov,
		  'assumptions': rep.assumptions, 'wall_s': round(time.time() - rep.t0, 2), 'violations': len(new)}
	os.makedirs(os.path.join(OUT or VERIF, 'evidence'), exist_ok=True)
	with open(os.path.join(OUT or VERIF, 'evidence', rep.pid + '.json'), 'w') as fh:
		json.dump(ev, fh, indent=1)
	return rc


# ------------------------------------------------------------------ call histories
_FRESH_SCRIPT = r'''
import sys, pickle, warnings
warnings.simplefilter('ignore')
sys.path.insert(0, sys.argv[1])
import importlib
mod, fn, args, kw = pickle.load(sys.stdin.buffer)
try:
	r = getattr(importlib.import_module(mod), fn)(*args, **kw)
	out = ('ok', r)
except Exception as e:
	out = ('error', type(e).__name__)
sys.stdout.buffer.write(pickle.dumps(out))
'''


def _flat(x):
	"""Numbers of a result, in order (tuples / lists / dicts / arrays flattened); anything else by repr."""
	import numpy as np
	if isinstance(x, dict):
		return [v for k in sorted(x, key=repr) for v in [repr(k)] + _flat(x[k])]
	if isinstance(x, (list, tuple, np.ndarray)):
		return [v for e in x for v in _flat(e)]
	if isinstance(x, (int, float, np.integer, np.floating)):
		return [float(x)]
	return [repr(x)]


def history_check(rep, stream, calls, theorem=None, rtol=1e-9):
	"""`calls`: list of (module name, function name, args tuple, kwargs dict) of a DETERMINISTIC function of its arguments. They are evaluated
	in this order in this process (so each call runs after the earlier ones), and each one again alone in a fresh interpreter. The answer to a
	call is a function of the arguments of that call: any difference means that what the library returns depends on what it was asked before
	(module-level memo, cache keyed by too few arguments, shared mutable default ...), and then for one of the two the documented result
	fails -- reported with the history as the failing input."""
	import importlib, pickle, subprocess, warnings
	from concurrent.futures import ThreadPoolExecutor
	here = []
	def plain(x):
		"""repr of the plain-data arguments (numbers, strings, lists, tuples, dicts, arrays); objects are skipped."""
		import numpy as np
		if isinstance(x, (list, tuple)):
			return [plain(e) for e in x]
		if isinstance(x, dict):
			return {repr(k): plain(v) for k, v in x.items()}
		if isinstance(x, np.ndarray):
			return x.tolist()
		return x if isinstance(x, (int, float, str, bool, type(None))) else None
	for mod, fn, args, kw in calls:
		before = repr((plain(args), plain(kw)))
		try:
			with warnings.catch_warnings():
				warnings.simplefilter('ignore')
				here.append(('ok', getattr(importlib.import_module(mod), fn)(*args, **kw)))
		except Exception as e:
			here.append(('error', type(e).__name__))
		after = repr((plain(args), plain(kw)))
		if before != after:
			rep.diff(stream, '%s.%s rewrote an argument in place: %s -> %s' % (mod, fn, before[:300], after[:300]), {'call': [mod, fn, before]}, py=after[:400], model=before[:400],
					 oracle=True, theorem=theorem)
	def fresh(c):
		p = subprocess.run([sys.executable, '-c', _FRESH_SCRIPT, os.path.join(REPO, 'src')], input=pickle.dumps(c), capture_output=True, timeout=600)
		if p.returncode != 0:
			raise Infra('fresh interpreter failed: ' + p.stderr.decode()[-300:])
		return pickle.loads(p.stdout)
	with ThreadPoolExecutor(max_workers=8) as ex:
		alone = list(ex.map(fresh, calls))
	for i, (c, a, b) in enumerate(zip(calls, here, alone)):
		rep.case(stream, {'call': '%s.%s' % (c[0], c[1]), 'args': repr(c[2])[:300], 'kwargs': repr(c[3])[:300], 'position': i}, nontrivial=i > 0)
		rep.count('call-history:' + c[1]); rep.tol_cmp += 1
		fa, fb = (_flat(a[1]) if a[0] == 'ok' else [a[1]]), (_flat(b[1]) if b[0] == 'ok' else [b[1]])
		same = a[0] == b[0] and len(fa) == len(fb) and all(
			(x == y) if isinstance(x, str) or isinstance(y, str) else (abs(x - y) <= rtol * max(1.0, abs(x), abs(y)) or (x != x and y != y)) for x, y in zip(fa, fb))
		if not same:
			rep.diff(stream, '%s.%s%s after %d earlier call(s) returns %s; the same call alone in a fresh interpreter returns %s (earlier calls: %s)' % (
				c[0], c[1], repr(c[2])[:200] + repr(c[3])[:200], i, repr(a[1])[:200], repr(b[1])[:200], [repr(x[2])[:80] + repr(x[3])[:80] for x in calls[:i]][-3:]),
				{'history': [[x[0], x[1], repr(x[2]), repr(x[3])] for x in calls[:i + 1]]}, py=repr(a[1])[:400], model=repr(b[1])[:400], oracle=True, theorem=theorem)


def one_argument_histories(base, keys, bump=None):
	"""base: kwargs dict. The base call, then one call per key with only that argument changed, then the base call again."""
	bump = bump or (lambda k, v: v * 1.5 + 1 if isinstance(v, (int, float)) else v)
	out = [dict(base)]
	for k in keys:
		out.append(dict(base, **{k: bump(k, base[k])}))
	out.append(dict(base))
	return out
