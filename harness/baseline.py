"""Runs the pinned test suite of /repo and checks every test of BASELINE.json's stable_pass still passes."""
import json, subprocess, sys, xml.etree.ElementTree as ET, tempfile, os
base = json.load(open('/root/.vp/BASELINE.json'))
f = tempfile.mktemp(suffix='.xml')
cmd = base['cmd'].replace('<file>', f)
r = subprocess.run(cmd, shell=True, capture_output=True, text=True)
root = ET.parse(f).getroot()
passed = set()
for tc in root.iter('testcase'):
	ok = not any(ch.tag in ('failure', 'error', 'skipped') for ch in tc)
	if ok:
		passed.add(tc.get('classname') + '::' + tc.get('name'))
os.remove(f)
missing = [t for t in base['stable_pass'] if t not in passed]
print('stable_pass: %d, passing now: %d, missing: %d' % (len(base['stable_pass']), len(passed), len(missing)))
for m in missing[:20]:
	print('  NOT PASSING:', m)
sys.exit(1 if missing else 0)
