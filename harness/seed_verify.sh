#!/bin/bash
# usage: seed_verify.sh <seed-id> <dir containing patch.diff demo.py>
# Confirms in a scratch worktree: suite still passes its stable set with the patch; demo passes without and fails with.
set -u
ID=$1; SRC=$2
WT=/tmp/wt/verify_$ID
git -C /repo worktree remove --force $WT 2>/dev/null
git -C /repo worktree add -q --detach $WT HEAD || exit 2
cd $WT
echo "== demo on unchanged tree"; PYTHONPATH=$WT/src /venv/bin/python -W ignore $SRC/demo.py > /tmp/wt/demo_$ID.a 2>&1; A=$?; tail -2 /tmp/wt/demo_$ID.a
git apply $SRC/patch.diff || { echo "PATCH DOES NOT APPLY"; git -C /repo worktree remove --force $WT; exit 2; }
echo "== demo with change"; PYTHONPATH=$WT/src /venv/bin/python -W ignore $SRC/demo.py > /tmp/wt/demo_$ID.b 2>&1; B=$?; tail -2 /tmp/wt/demo_$ID.b
echo "== suite with change"
PYTHONPATH=$WT/src /venv/bin/python -m pytest -q -p no:cacheprovider --timeout=900 --continue-on-collection-errors --junitxml=/tmp/wt/junit_$ID.xml tests > /tmp/wt/suite_$ID.log 2>&1
/venv/bin/python - <<PY
import json, xml.etree.ElementTree as ET
base = json.load(open('/root/.vp/BASELINE.json'))
passed=set()
for tc in ET.parse('/tmp/wt/junit_$ID.xml').getroot().iter('testcase'):
    if not any(ch.tag in ('failure','error','skipped') for ch in tc): passed.add(tc.get('classname')+'::'+tc.get('name'))
missing=[t for t in base['stable_pass'] if t not in passed]
print('suite: stable_pass %d, missing with change: %d' % (len(base['stable_pass']), len(missing)), missing[:5])
PY
echo "demo exit codes: unchanged=$A changed=$B"
cd /; git -C /repo worktree remove --force $WT
