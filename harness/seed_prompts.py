#!/usr/bin/env python3
"""usage: seed_prompts.py <round letter> <out dir>  -- writes one task description per property for a new round of seeded changes. Each task names
only the property text (title, statement, quantifier) and the changes of the earlier rounds (seeded/*/meta.json: what / needs) that the new one must
differ from; the sub-agent that receives it works in its own scratch worktree {WT} and never sees /verif."""
import json, glob, os, sys
R, OUT = sys.argv[1], sys.argv[2]
ROOT = os.path.dirname(os.path.dirname(os.path.abspath(__file__)))
HEAD = 'You are working in your own scratch git worktree of the pure-Python inventory-optimization library "stockpyl" at {WT} (a checkout of the library; source under {WT}/src/stockpyl, tests under {WT}/tests). Work ONLY inside {WT}. Never touch /repo or /verif, never commit, never push.\n\nHow to run things (important: the installed package points elsewhere, so always set PYTHONPATH):\n  cd {WT} && PYTHONPATH={WT}/src /venv/bin/python your_script.py\n  cd {WT} && PYTHONPATH={WT}/src /venv/bin/python -m pytest -q -p no:cacheprovider --timeout=900 tests 2>&1 | tail -40\nOn the unchanged tree the suite gives 712 passed / 6 failed (the 6 failures are pre-existing NumPy-2 incompatibilities and are expected). "Passing the existing tests" means: exactly the same 712 tests still pass after your change (save the list of passed test ids before and after with `-rA` or `--junitxml` and compare).\n\n'
TAIL = 'Look for parts of the code the property depends on that none of them touches: other functions in the files involved, other option combinations and argument shapes (scalars / lists / dicts / numpy values / None / 0 / negative / equal values), other object life-cycle steps, helper functions the main functions rely on, initialisation and clean-up code, rarely used branches.\n\nYOUR TASK: devise ONE realistic change to the library\'s source code (under src/stockpyl only; not the tests) that BREAKS this property while the code still imports and the existing test-suite still passes exactly as before. Think of the kind of bug a maintainer could plausibly introduce in a refactor or "optimisation". The change must need something SPECIFIC to manifest — e.g. an unusual but legal input, a particular multi-step sequence of operations, a particular combination of options, a rarely taken branch, or two cooperating code sites that each look fine alone — NOT something that ordinary use or the most basic call would expose at once. Prefer subtle semantic changes over crashes.\n\nDeliver, inside {WT}/mutation/ :\n  1. patch.diff   — output of `git -C {WT} diff` for your change (source only).\n  2. demo.py      — a small standalone program that uses only the public behaviour of the library to demonstrate the violation: run as `PYTHONPATH=<tree>/src /venv/bin/python demo.py`, it must print PASS and exit 0 on the unchanged tree and print FAIL (with a short explanation) and exit 1 with your change applied.\n  3. README.md    — which clause of the property is broken, what exactly is needed for it to manifest, and what you ran (test-suite result before/after, demo result before/after).\nVerify all of it yourself: run the full suite before and after and compare the passed sets; run demo.py with and without the change (toggle with `git apply -R mutation/patch.diff` and `git apply mutation/patch.diff` inside your worktree; do NOT use `git stash`: the stash is shared by all worktrees of the repository and other people are working in parallel). Leave the worktree with your change APPLIED (uncommitted) and the three files written.\n\nFinish with a short report: the idea of the change, the files touched, the trigger condition, and confirmation of the test-suite and demo results.'
props = {json.loads(l)['id']: json.loads(l) for l in open(os.path.join(ROOT, 'properties.jsonl'))}
os.makedirs(OUT, exist_ok=True)
for pid, p in sorted(props.items()):
	wt = '/tmp/wt/%s%s' % (pid, R)
	prior = []
	for d in sorted(glob.glob(os.path.join(ROOT, 'seeded', pid + '-*'))):
		m = json.load(open(d + '/meta.json'))
		prior.append('"%s" (needed: %s)' % (m['what'], m['needs']))
	s = HEAD.replace('{WT}', wt)
	s += 'Here is a semantic property that the library is supposed to satisfy:\n\n'
	s += '  Title: %s\n  Statement: %s\n  Quantified over: %s\n\n' % (p['title'], p['statement'], p['quantifier']['text'])
	s += ('IMPORTANT: earlier exercises already produced the changes below, so yours must be DIFFERENT from all of them - break a different clause of the property, '
		  'or go through a different function / code site / mechanism. Do not reuse any of these ideas or a close variant:\n')
	for i, x in enumerate(prior):
		s += '  (%d) %s\n' % (i + 1, x)
	s += TAIL.replace('{WT}', wt)
	open(os.path.join(OUT, '%s%s.txt' % (pid, R)), 'w').write(s)
print('wrote', len(props), 'prompts to', OUT)
