"""./check <Cxx> [--tier quick|thorough] [--replay file]"""
import os, sys, json, time, importlib, argparse, traceback
sys.path.insert(0, os.path.dirname(os.path.abspath(__file__)))
import core

GLOBAL_TB = [
	"Lean 4.33 kernel; axioms limited to propext, Classical.choice, Quot.sound (audited by #print axioms each run)",
	"no sorry/admit/native_decide/bv_decide/axiom in lean/ (grep each run)",
	"Lean compiler + runtime executing the model driver (lean_exe drv, Mathlib-free)",
	"Python harness: generators, canonicaliser, comparator (harness/)",
	"hand-written model is NOT trusted: it is tied to /repo by the correspondence run of this check",
]


def main():
	ap = argparse.ArgumentParser()
	ap.add_argument('pid')
	ap.add_argument('--tier', default=os.environ.get('VERIF_TIER', 'quick'))
	ap.add_argument('--replay', default=None)
	a = ap.parse_args()
	seed = int(os.environ.get('VERIF_SEED', '20260930'))
	pid = a.pid
	try:
		mod = importlib.import_module('props.' + pid.lower())
	except ImportError as e:
		print('no check for', pid, e)
		return 2
	rep = core.Report(pid, a.tier, seed)
	try:
		if a.replay:
			ok, out, dt = core.lake_build()
			if not ok:
				raise core.Infra('lake build failed:\n' + out[-3000:])
			doc = json.load(open(a.replay))
			drv = core.Driver()
			core.limit_memory()
			core.install_watchdog()
			mod.replay(rep, drv, doc)
			drv.close()
			rc = core.finish(rep, {}, [], replay_only=True)
			print('replay: %s' % ('property fails on this input' if rc else 'no disagreement on this input'))
			return rc
		ob = core.check_obligations(pid, a.tier)
		drv = core.Driver()
		core.limit_memory()
		core.install_watchdog()
		try:
			mod.run(rep, drv)
		except core.Infra:
			raise
		except Exception as e:
			# An exception that escapes a stream. If it was raised INSIDE the code under check (frames of the repository below the last harness
			# frame), the real code failed on the case being processed: a verdict about the code, with that case as the replay. Driver / lake /
			# tool failures (core.Infra) stay exit 2.
			tb = traceback.extract_tb(e.__traceback__)
			repo_src = os.path.join(core.REPO, 'src')
			hdir = os.path.dirname(os.path.abspath(__file__))
			last_h = max([i for i, f in enumerate(tb) if f.filename.startswith(hdir)] or [-1])
			inner = [f for f in tb[last_h + 1:] if f.filename.startswith(repo_src)]          # frames of the repository below the last harness frame
			stream, case = getattr(rep, 'last_case', ('?', None))
			if inner:
				rep.diff(stream, 'the code under check raised %s outside any guarded call while this case was processed: %s (%s:%d)' % (
					core.err_enum(e), str(e)[:160], os.path.relpath(inner[-1].filename, core.REPO), inner[-1].lineno), case,
					py={'traceback': traceback.format_exc()[-1500:]}, oracle=True, theorem=None)
			else:
				# raised in the harness itself while it evaluated what the code returned for this case (never seen on the unchanged tree, several
				# seeds): the property can no longer be evaluated there - reported as a broken correspondence without a concrete failing input
				if case is None:
					raise
				rep.diff(stream, 'the check could not evaluate the property on what the code under check returned for this case: %s: %s (%s:%d)' % (
					type(e).__name__, str(e)[:160], os.path.basename(tb[-1].filename), tb[-1].lineno), case,
					py={'traceback': traceback.format_exc()[-1500:]}, oracle=None, theorem='correspondence of stream ' + stream)
		drv.close()
		ob['model_calls'] = drv.calls
		tb = GLOBAL_TB + list(getattr(mod, 'TRUSTED', []))
		rc = core.finish(rep, ob, tb)
		print('%s %s: obligations %d/%d, %d cases (%d distinct non-trivial), %d new diffs, %.1fs' % (
			pid, a.tier, ob['discharged'], ob['obligations'], rep.evaluations, len(rep.nontrivial),
			sum(1 for _ in rep.violations) , time.time() - rep.t0))
		return rc
	except core.Infra as e:
		print('INFRASTRUCTURE ERROR (not a verdict):', e)
		return 2
	except Exception:
		traceback.print_exc()
		print('INFRASTRUCTURE ERROR (not a verdict): harness crashed')
		return 2


if __name__ == '__main__':
	sys.exit(main())
