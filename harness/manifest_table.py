SIM_TB = ("Trusted: Lean kernel + 3 standard axioms; harness; CPython/NumPy as executed. Modelled rather than verified: "
		  "the simulator's Python code itself (tied by exact field-by-field trajectory equality on generated networks).")

def fill(claim, NA):
	claim('C11',
		  "Theorems (Props/C11.lean, all proved, no sorry): DP recursion incl. first-minimiser tie-break (ww_recursion, ww_pointer_first); "
		  "optimality against EVERY plan = every segmentation of the horizon into consecutive non-empty blocks, any T (ww_optimal); returned "
		  "plan tiles the horizon and its documented cost equals the reported cost (ww_plan_cost, ww_quantities); feasibility: no backorders, "
		  "zero ending stock, total ordered = total demand (blockQ_feasible); shape conventions (ww_shapes_equiv & instances); bundle ww_correct. "
		  "Tie to code: exact (rational equality) differential run of wagner_whitin vs the model on random horizons with all parameter shapes "
		  "and a malformed stream, plus exhaustive 2^(T-1) plan enumeration on the Python output as failing-input search.",
		  "Trusted: Lean kernel, propext/Classical.choice/Quot.sound, the harness. Modelled not verified: wagner_whitin.py:126-159 and "
		  "helpers.ensure_list_for_time_periods (Model/WW.lean), tied by exact correspondence in the exact-arithmetic regime (small integer/"
		  "dyadic inputs). Binary64 rounding for non-dyadic inputs is outside the model.")
