SIM_TB = ("Trusted: Lean kernel + 3 standard axioms; harness; CPython/NumPy as executed. Modelled rather than verified: "
		  "the simulator's Python code itself (tied by exact field-by-field trajectory equality on generated networks).")

def fill(claim, NA):
	claim('C11',
		  "Theorems (Props/C11.lean, all proved, no sorry): DP recursion incl. first-minimiser tie-break (ww_recursion, ww_pointer_first); "
		  "optimality against EVERY plan = every segmentation of the horizon into consecutive non-empty blocks, any T (ww_optimal); returned "
		  "plan tiles the horizon and its documented cost equals the reported cost (ww_plan_cost, ww_quantities); feasibility: no backorders, "
		  "zero ending stock, total ordered = total demand (blockQ_feasible); shape conventions (ww_shapes_equiv & instances); bundle ww_correct. "
		  "Tie to code: exact (rational equality) differential run of wagner_whitin vs the model on random horizons with all parameter shapes "
		  "and a malformed stream, plus exhaustive 2^(T-1) plan enumeration on the Python output as failing-input search.",
		  "Trusted: Lean kernel, propext/Classical.choice/Quot.sound, the harness. Modelled not verified: wagner_whitin.py:126-159 and "
		  "helpers.ensure_list_for_time_periods (Model/WW.lean), tied by exact correspondence in the exact-arithmetic regime (small integer/"
		  "dyadic inputs). Binary64 rounding for non-dyadic inputs is outside the model.")

	SIMNOTE = ("Trusted: Lean kernel + propext/Classical.choice/Quot.sound; harness (generator, canonicaliser, comparator); CPython/NumPy. "
			   "Modelled not verified: sim.py/policy.py/node_state_vars.py for single-product networks (Model/Sim.lean, edge-record state), tied by exact "
			   "field-by-field equality of whole trajectories on generated networks in the exact-arithmetic regime. Kernel / single-edge theorems hold for "
			   "arbitrary inputs; Props/Net.lean and Props/NetBO.lean lift them to WHOLE NETWORKS (any number of nodes, any history, every reachable state) by "
			   "projecting one period of the model onto an edge / a node (step_edge_internal) and induction over the history, under executable hypotheses "
			   "(netWFb, initOKb, VisitOK, non-negative demands) that the driver evaluates on every generated network and the evidence counts. "
			   "Shipment arrival exactness (a unit shipped at t is received exactly SLT periods later absent TP/RP pauses) remains at pipeline level (shiftPipe_get) + correspondence. "
			   "Multi-product BOM shares, cost functions, order_quantity_override and BEBS are outside the model.")
	claim('C01',
		  "Theorems (Props/C01.lean): every kernel that moves units conserves them for all inputs: receipt (recvShip_conserves), production bound "
		  "(producible_le), propagation into the customer's pipeline, order placement (internal / external supplier), next-period carry-over "
		  "(nextEdge_conserves, pipeline shift and TP freeze preserve totals), NETWORK LEVEL (Props/NetFlow.lean): node_balance_step, edge_flow_step and "
		  "conservation_network - along the WHOLE trajectory the simulator reports, for every well-formed network of any size, every node satisfies IL_t = IL_{t-1} + produced_t - "
		  "orders received_t and, per supplier, RM_t = RM_{t-1} + receipt_t - produced_t, and every internal edge satisfies shipped = received + change of (in transit + held at the door) "
		  "and ordered = shipped + change of (backordered + held); together with C02's bo_matches_il_network these are the conservation laws for whole networks; Props/NetExt.lean adds the external edges: "
		  "step_edge_extsupply, ext_supply_on_order_network (on every edge from the external supplier, in every reported state, on-order = what is in the pipeline) and "
		  "ext_customer_accounting_step (backorders' + shipped = backorders + demand on every edge to the external customer); and the composed one-period theorem for an internal edge "
		  "edge_period_conserves: for ANY order quantity, on-hand and disruption flags, shipped = received + in transit + held at door, and ordered = "
		  "shipped + backordered + held. Tie: exact trajectory correspondence (13 conservation-relevant fields incl. the ghost 'produced' quantity "
		  "recorded by wrapping _raw_materials_to_finished_goods) + the five conservation identities evaluated on every Python trace.", SIMNOTE)
	claim('C02',
		  "Theorems (Props/C02.lean): shipOne_accounting(_ext), shipOne_nonneg (no negative counts, never ships more than on-hand + held), "
		  "shipAll_spec / bo_matches_il_kernel: for every list of successors and every pattern of shipment pauses, total backorders after the loop = "
		  "negative part of the new inventory level given the same before; shipAll_on_hand; fill_rate_def, fill_rate_unit ([0,1]). NETWORK LEVEL (Props/NetBO.lean): bo_matches_il_network - for every well-formed network of any size and "
		  "topology (no condition on the visiting order), every history of non-negative demands and arbitrary disruption flags, in every state the simulator reports "
		  "and at every node, the backorders owed to its customers sum to exactly the negative part of its inventory level (induction over the history; inv2_nodeShip: "
		  "every node operation preserves it). Tie: exact "
		  "trajectory correspondence + predicates (BO = IL^-, non-negativity of every count, ship bound, DMFS<=demand, fill-rate formula) on every Python trace.", SIMNOTE)
	claim('C03',
		  "Theorems (Props/C03.lean): on_order_exact_period (ledger on-order − (orders travelling + supplier backorders + held + in transit) is invariant "
		  "over a full period of an internal edge for any order, on-hand and SP/TP/RP flags), on_order_exact_ext, orders_arrive (an order written at slot "
		  "OLT is read from slot 0 after exactly OLT shifts), shiftOrders_iter, shiftPipe_get, tp_freezes, rp_releases. NETWORK LEVEL (Props/Net.lean): step_edge_internal (one period of the "
		  "whole model acts on every internal edge record exactly as edgePeriod for some non-negative order and on-hand), ledger_step, on_order_exact_network / "
		  "on_order_exact_checked: in EVERY state the simulator reports, on every internal edge of every well-formed network, on-order = orders travelling + supplier "
		  "backorders + held + in transit, for any number of nodes and periods; orders_arrive_network (Props/NetArrive.lean): on every internal edge, for every period t, the "
		  "inbound order the supplier reads in period t + OLT is exactly the order quantity the customer placed in period t, whatever happens in between. Tie: exact trajectory "
		  "correspondence with SLT 0-3 × OLT 0-2 × disruption type cells + on-order / order-arrival / shipment-arrival predicates on every Python trace.", SIMNOTE)
	claim('C04',
		  "Theorems (Props/C04.lean): bs_rule, ebs_rule, sS_rule, rQ_rule, fq_rule, capped_rule (None and 0 = no capacity), placeOrders_follows_policy "
		  "(the model's order = capped(policy(IP observed)); identity under an OP disruption), ipObserved_local. NETWORK LEVEL (Props/NetPolicy.lean): "
		  "order_follows_policy_step / orders_follow_policy_network - along the whole reported trajectory of every well-formed network, at every node with a local policy, the "
		  "order quantity of every period equals capped(policy(IL + min over suppliers (RM + on-order + held) reported at the end of the previous period - inbound orders of "
		  "the current period)), and 0 under an order-pausing disruption, whatever the other nodes do. Tie: (a) pure policy function vs "
		  "Policy.get_order_quantity exactly incl. boundaries; (b) model kernel orderQty evaluated on the state the real simulator observed, every node and "
		  "period, incl. an echelon-position predicate written from the docstrings (EBS x all four disruption types). ECHELON NODES (Props/NetEBS.lean): "
		  "orders_follow_policy_network_ebs - the same statement for echelon base-stock nodes with the echelon inventory position of the previously reported state. "
		  "SERIAL SYSTEMS (Props/C04Ech.lean over Model/SerialEchelon.lean): eip_eq_sumLip (echelon position = sum of the local positions of the stage and everything "
		  "downstream, every state), echelon_equals_local / echelon_equals_local_from_start - echelon base-stock with the converted levels and local base-stock generate "
		  "IDENTICAL trajectories for any number of stages, lead times and non-negative demands; (c) the serial model is run against the real simulator under BOTH policies "
		  "(IL and order of every stage and period), its hypotheses evaluated per instance; with order lead times the two policies legitimately differ (counted).", SIMNOTE)
	claim('C05',
		  "Theorems (Props/C05.lean): period_costs_def (each component as a function of the reported state, in-transit default only for None), "
		  "in_transit_rate_zero_is_not_none, total_is_sum, total_append, holding_function_on_items_held; multi-product nodes (Props/C05MP.lean over Model/MultiProd.lean "
		  "mpCosts): mp_costs_def, mp_total_def, each_raw_material_once (a raw material shared by several products is priced exactly once), cost_independent_of_sharing. "
		  "Tie: model cost kernels evaluated on every end-of-period state the real simulator reported (single-product networks exact; multi-product networks with "
		  "per-product rates/revenues, shared and multi-sourced raw materials to 1e-9), simulation() return value vs sum, run_multiple_trials mean/SEM vs recorded "
		  "per-trial totals (Python-side).", SIMNOTE)
	claim('C06',
		  "The Lean model is the independent reference implementation of the documented sequence of events. Theorems (Props/C06.lean): step_batch (every split), "
		  "trace_length, resolve_rename (any injective renumbering leaves what the simulator sees unchanged), op_skips_order, sp_holds, backorders_first, "
		  "tp_freezes, rp_releases. Tie: full-trajectory exact equality (all 24 documented fields, both DFS visiting sequences, returned total) + six "
		  "Python-vs-Python variants per case (step-wise, re-run, relabel fresh / reindex_nodes, consistency_checks E/N).", SIMNOTE)

	claim('C20',
		  "Theorems (Props/C20.lean): dict_match_symm + dict_match_spec (exactly the documented predicate with tolerance and presence options) + isclose_symm; "
		  "nearest_unsorted_spec (index of a first element at minimal distance), nearest_sorted_spec (searchsorted-based branch returns a nearest element for ANY "
		  "sorted array and value: below, inside, above, ties); direct convolution: lsum_conv (mass = product of masses), convMany_sum_one, conv_nn / convMany_nn, "
		  "conv_length; sumDiscreteUniforms_is_pmf; compareLists_iff_perm (multiset equality); ensure_list_cases / ensure_dict_cases; sortByKey_spec (sorted + "
		  "permutation); time-period lists: ensure_time_cases, ensure_time_length (always T+1 entries), ensure_time_forms_agree, and C11's scalar_equiv_list, listT_equiv_listT1. Tie: each helper on generated shapes (empty, singleton, ties, wrong "
		  "lengths, None, ndarray/list/scalar) compared with the Lean model exactly (FFT convolution, Irwin-Hall: 1e-9) plus the documented predicate; every helper call is "
		  "checked for argument mutation (only change_dict_key is documented to work in place); build_node_data_dict against its documented rules. String-key helpers and predicates are harness-only reference tests (labelled).",
		  "Trusted: Lean kernel + 3 axioms; harness. Modelled not verified: helpers.py functions listed (Model/Helpers.lean). FFT vs direct convolution agree only up to "
		  "rounding (FP); that the Irwin-Hall formula is the true cdf is not proved. NumPy's searchsorted/argmin/fft are black boxes.")

	claim('C18',
		  "Theorems (Props/C18.lean): Coherent (unique labels; predecessor/successor lists mutual inverses; no dangling labels; no duplicate entries) holds for the "
		  "empty network and is preserved by add_node, add_edge, add_successor, add_predecessor, remove_node and reindex_nodes (any map injective on the labels): "
		  "coherent_addNode/_link/_addSucc/_addPred/_addEdge/_removeNode/_reindex, coherent_apply; hence after ANY operation sequence of any length "
		  "(coherent_reachable, induction over the op list); removeNode_gone; edges_iff_preds (both adjacency lists describe the same graph); "
		  "toEchelon_mono and local_echelon_inverse (echelon<->local conversion is the identity on non-negative local levels, any number of stages); coherent_unlink; "
		  "product registries (Props/C18Reg.lean over Model/Registry.lean): explicit_product_stays (a product added to the network itself stays a product of the network until "
		  "it is removed from the network, for every sequence of node-level and network-level operations), loc_persists, not_product, products_spec. Reachability views (Props/C18Reach.lean): descendants_sound / ancestors_sound (every node the descendants/ancestors view reports is joined to the start node by a non-empty path of successor/predecessor edges, for every graph, cyclic or not, and any fuel: reach_sound by induction on the fuel), self_not_descendant / self_not_ancestor (a node is never reported as its own descendant, even on a cycle), descendants_mem_succs and descendants_are_nodes (on a coherent network every reported descendant is a node of the network); succsOf_iff_predsOf and path_succs_iff_path_preds (on a coherent network a successor path from a to b exists exactly when a predecessor path from b to a does, so the two views explore the same relation); completeness on coherent networks: reach_closed (fuel = number of nodes always suffices: counting argument on the duplicate-free accumulator), descendants_complete / ancestors_complete, hence mem_descendants_iff / mem_ancestors_iff (the views ARE graph reachability minus the start node) and descendant_iff_ancestor (b is a descendant of a exactly when a is an ancestor of b, after any operation history that keeps the network coherent, i.e. every accepted history by coherent_reachable); hasCycle_iff (the model's has_directed_cycle answers yes exactly when some node is joined to itself by a non-empty successor path; compared with network.has_directed_cycle() after every operation on networks of up to 7 nodes); level conversion, other direction (Props/C18Levels.lean): toEchelon_toLocal (echelon -> local -> echelon returns the suffix minima of the echelon levels) and echelon_local_inverse (identity on non-decreasing echelon levels); derived views (Props/C18Views.lean): edges_nodup (no edge listed twice), edges_endpoints, mem_sources_iff / mem_sinks_iff (source/sink views = nodes without predecessors/successors), source_no_ancestors, sink_no_descendants; the model views are compared exactly with nx.descendants / nx.ancestors on the real network after every operation. "
		  "Tie: random operation sequences on real SupplyChainNetwork objects with the structure dumped through the public accessors after every operation "
		  "(nodes order, adjacency lists, edges, sources, sinks, descendants, ancestors, accepted/KeyError) compared exactly with the model, plus the coherence "
		  "predicate on the real objects; level conversions vs model. Builders' topology/attribute placement and derived BOM views: reference predicates in the harness (labelled tests).",
		  "Trusted: Lean kernel + 3 axioms; harness. Modelled not verified: supply_chain_network.py:468-719, supply_chain_node.py:1860-1938, 1598-1674 (Model/Graph.lean). "
		  "NetworkX reachability is a black box re-implemented in the model. Product/BOM mutators, builders and build_node_data_dict are not in the Lean model.")

	claim('C19',
		  "Theorems (Props/C19.lean): mem_cartesian + enum_argmin (enumeration returns a grid vector, reported cost = objective there, no grid vector has lower objective; "
		  "first minimiser) + enum_total; grouped_share_level; golden-section search: gssStep_inv / gssStep_nested / gss_bracket (for every strictly unimodal f the minimiser "
		  "stays bracketed after any number of steps and brackets are nested - under the per-run side condition allOrdered that the driver evaluates), gss_result (returned point and "
		  "minimiser both in the final bracket), gss_reports_value (second component = f(x*), degenerate interval included); grid_step, grid_defaults (explicit 0 is a bound). "
		  "Tie: golden_section_search vs the exact-rational model with the code's own double constants (x*, f(x*) to 1e-9, evaluation count exactly), every line search; "
		  "meio_by_enumeration on serial networks (explicit / (lo,hi,step) / (lo,hi,num) / default grids, groups) vs model minimum over the documented grid (by objective value, never index); "
		  "truncate_and_discretize vs model. Coordinate descent: in-box, reported = f(result), no worse than start up to line-search resolution - evaluated on the Python result (labelled test).",
		  "Trusted: Lean kernel + 3 axioms; harness. FP: golden ratio constants are doubles, Python rounds every step (x* compared to 1e-9), step count n uses math.log/ceil. "
		  "The unconditional bracket theorem needs r*r = 1-r (real golden ratio, no rational satisfies it): open target; proved form is conditional on allOrdered, checked per run. "
		  "Simulation-based objectives are exercised Python-side only.")

	claim('C17',
		  "Theorems (Props/C17.lean): the instance file refines a finite map name -> data: load_save_same, load_save_other (other instances preserved for replace/append/no-replace), "
		  "load_save_new, save_noreplace, store_refines_map (every operation, hence every operation sequence, behaves as on the abstract map and returns the same result); "
		  "keys_roundtrip (a dict survives any key codec whose decoder inverts its encoder; with a concrete non-inverting codec the example shows integer keys coming back as strings); "
		  "table_aligned and sorted_columns_keep_labels (header/row built from one column list; key-sorting keeps each value with its key); attr_roundtrip + attr_missing_default "
		  "(a plain attribute written by to_dict comes back from from_dict with its exact value, 0 and None included: the key's presence decides, not the value's truthiness). "
		  "Tie: (a) to_dict->json->from_dict and save_instance/load_instance round trips of random single-/multi-product networks with node-, product- and (node,product)-level "
		  "attributes, with and without saved state variables: deep_equal_to, an independent field-wise comparison, original unchanged, identical trajectories under one seed; "
		  "(b) save/replace/load sequences on one file vs the Lean store model (exact); (c) every cell of the results CSV vs the state variable its header names.",
		  "Trusted: Lean kernel + 3 axioms; harness; the json module and int<->str key conversion (keys_roundtrip is parametric in the codec). Equality of reloaded networks and "
		  "of their trajectories is judged on the real objects (Python-vs-Python); the recursive to_dict/from_dict of the four classes is not modelled in Lean beyond the key-codec law. "
		  "Product-level policy objects lose their node link on reload (documented exception): for such networks equality is judged field-wise and the link is restored before simulating.")

	claim('C13',
		  "Theorems (Props/C13.lean): for ANY pmf (list of non-negative rationals summing to one), any one-period cost G, fixed cost K and any number n = S-s of states: "
		  "cost_telescopes (a pair (c, v) passing the decidable average-cost certificate gives J_T(i) + E[v(X_T)] = T c + v(i) for every horizon T and start state), W_bounded, "
		  "avg_cost_converges (|J_T(i) - T c| <= 2B for all T: c IS the long-run average cost, rate 2B/T, exact arithmetic); expectation lemmas ex_add/ex_const/ex_le/ex_ge; "
		  "m_zero; zfLoop_reports_cost / zf_reports_cost (the exact algorithm reports the cost of the pair it returns). UNCONDITIONAL (Props/C13Cert.lean): renewal (m_j = [j=0] + "
		  "sum_{l<=j} p_l m_{j-l}), triangle_swap, certificate_holds (the model's relative-value function passes the certificate for EVERY pmf with non-negative entries and p_0 < 1, every "
		  "G, K and n >= 1) and ss_cost_is_long_run_average: for every s < S the value s_s_cost_discrete computes differs from J_T/T by at most 2B/T for all T and all starting states. "
		  "The driver still verifies the certificate exactly per instance (coverage.certificates_verified_exactly). "
		  "Tie: s_s_cost_discrete vs exact-rational model (1e-9) on random dyadic pmfs incl. zero-probability points, short supports, all s<S in a window; s_s_discrete_exact vs model "
		  "search; stationary-distribution oracle and exhaustive window search on the Python result; Poisson entry point vs custom-pmf entry point on the Poisson pmf.",
		  "Trusted: Lean kernel + 3 axioms; harness; SciPy poisson.pmf values (inputs; the Poisson pmf is truncated, so its entries sum to one only within rounding). Open: "
		  "optimality of the Zheng-Federgruen search over all integer pairs (exhaustive window per instance = labelled test).")

	claim('C14',
		  "Theorems (Props/C14.lean), over an ABSTRACT one-period cost G : Int -> Rat: cost_def (the Poisson (r,Q) cost is (K lambda + sum_{y=r+1}^{r+Q} G(y))/Q with the window-sum "
		  "recursion), windowSum_shift, fzLoop_reports_cost / fz_reports_cost (the Federgruen-Zheng search reports exactly the cost of the pair it returns, Q >= 1), "
		  "fzLoop_stops_at_increase (it stops exactly when adding the cheaper neighbouring position strictly increases the average cost), bisection_post (the reorder point "
		  "returned for a given Q equalises the cost curve at r and r+Q within tol) and bisection_in_bracket, for any curve. Tie: r_q_poisson_exact and r_q_cost_poisson vs the exact "
		  "model on the G/cdf tables the real code uses (r, Q exactly, costs 1e-9) + exhaustive integer window; normal-demand r_q_cost vs independent quadrature, r(Q) equalisation and "
		  "minimisation over r, EIL / EOQ+SS / EOQB approximations vs their defining equations (SciPy-side labelled tests). GLOBAL OPTIMALITY (Props/C14Opt.lean): "
		  "window_opt (for a unimodal G the window the search holds is the cheapest of ALL windows of its size), gamk_mono, cond_persists / after_stop (once the average cost rises it "
		  "keeps rising), fzLoop_traj, fz_optimal: for every G non-increasing up to S and non-decreasing after, the returned pair minimises (K lambda + window sum)/Q over ALL integer r "
		  "and all Q >= 1; tableFn_unimodal + fz_optimal_table turn the hypothesis into an executable check (tableUnimodalb) that the driver evaluates on the very G table of each instance.",
		  "Trusted: Lean kernel + 3 axioms; harness; SciPy (poisson pmf/cdf, norm, quad, fsolve) as black boxes. That the Poisson newsvendor cost G is unimodal around S is checked "
		  "per instance on the table (not proved for the closed form); outside the table G is extended by a large constant; normal-demand clauses are numerical (quad).")

	claim('C12',
		  "Theorems (Props/C12.lean): bellman (for every period and state the reported cost is attained at the reported order-up-to level y* in [x, x_max], no y >= x on the grid is "
		  "cheaper, and y* is the first minimiser), bestAt_unique, eval_reproduces_opt (evaluation mode with the optimiser's order-up-to row reproduces the cost row), cost_le_stay, "
		  "cand_shift + K_zero_base_stock (K_t = 0: every state at or below S orders up to exactly S, no state above S does) + reorderPos_eq (so the extracted reorder point equals the "
		  "order-up-to level), solve_shape (defined for every horizon length incl. T = 1); OPTIMAL POLICY (Props/C12Opt.lean): dp_dominates_every_policy - for any horizon and ANY "
		  "state-dependent order-up-to rule on the grid (not only (s,S) rules), the expected cost of operating that rule (the code's evaluation mode) is, in every period and state, at least "
		  "the cost the optimiser reports (non-negative probabilities and discount factors, checked per instance by the driver). Tie: every cell of cost_matrix vs the exact model fed with the code's own probability tables "
		  "and the DOCUMENTED one-period cost (1e-8), oul by objective value, (s,S) extraction, evaluation mode, K=0, T=1; myopic bounds per instance (labelled test).",
		  "Trusted: Lean kernel + 3 axioms; harness; SciPy pmf/cdf and the loss-function values (inputs); FP in the grid-truncation rules (re-derived in the harness). "
		  "Range doubling is handled by taking the x_range the code returns (the model reports whether the optimum sits at the top of the grid).")

	claim('C09',
		  "Theorems (Props/C09.lean). Finite pmf on {0..D} (any D, exact): loss_complement (nbar(x) - n(x) = x - E[X]), loss_nonneg, loss_monotone (n non-increasing, nbar "
		  "non-decreasing), nbar_step / nbar_zero / cdf_branch_eq_definition (the cdf branch sum_{y<x} F(y) equals the definition E[(x-X)+]: summation by parts), second_loss_sum "
		  "(factorial-moment pair sums to (1/2)(E[X^2] - (2x+1)E[X] + x^2 + x) = (1/2)((x-E)^2 + (x-E) + V)). Closed forms, for ANY primitive values f, F: poisson_complement, "
		  "poisson_second_complement, std_normal_complement (first and second order), normal_complement, negbin_gamma_complement, uniform_complement. "
		  "Tie: discrete_loss / discrete_second_loss (pmf-dict branch exactly, scipy-object branch 1e-9) vs the model; every closed form vs the model formula on the same SciPy "
		  "primitives (1e-9) and vs its definition by direct summation / quadrature (labelled tests); complement, non-negativity on the Python values.",
		  "Trusted: Lean kernel + 3 axioms; harness; SciPy primitives and quadrature. Open: closed form = definition for the infinite-support families (normal, lognormal, gamma, "
		  "Poisson, geometric, negative binomial) is checked numerically only; the theorems there are the complement identities.")

	claim('C10',
		  "Theorems (Props/C10.lean), over an ordered field with the optimiser's decision entering through its first-order equation: aq_bq_min; eoq_optimal (h Q*^2 = 2K lambda => "
		  "cost(Q*) = h Q* and cost(Q*) <= cost(Q) for every Q > 0), epq_optimal, eoqb_fraction_optimal + eoqb_optimal (jointly optimal in (Q, x) over all Q > 0 and all x), "
		  "jrp_cycle_optimal, eoq_mul_yield_optimal, eoq_add_yield_optimal; discrete newsvendor on any finite pmf: cdfAt_mono', nvCost_step (g(y+1) - g(y) = (h+b)F(y) - b), "
		  "nv_discrete_optimal (the first level whose cdf reaches b/(b+h) minimises h nbar + b n over ALL levels y >= 0), nv_discrete_coherent; addYield_is_newsvendor + "
		  "add_yield_optimal (additive-yield newsvendor with a discrete yield: d - F_Y^-1(h/(h+p)) is optimal among all S <= d). "
		  "Tie: optimise-then-evaluate coherence, first-order residuals (1e-8), model cost functions vs evaluation mode on decision grids (1e-9), discrete newsvendor vs the exact model "
		  "(levels and costs exactly), JRP bookkeeping; normal / Poisson / explicit-profit / myopic / continuous / yield / disruption newsvendors and EOQ-with-disruptions: coherence, "
		  "defining expectation and no-better-alternative on grids (labelled tests).",
		  "Trusted: Lean kernel + 3 axioms; harness; math.sqrt, SciPy ppf/pdf/cdf/brentq, golden-section search (FP). Not proved: continuous newsvendor optimality (only via the "
		  "critical-ratio residual and grids), unimodality of the exact EOQ-with-disruptions cost, myopic level sets.")

	claim('C08',
		  "Theorems (Props/C08.lean): serial (Inderfurth) DP for ANY number of stages, processing times, stage-cost tables and external service times: theta_cons, "
		  "gsm_serial_optimal (no feasible integer CST vector - all net lead times non-negative, demand stage quoting the external outbound CST - is cheaper than the reported optimum), "
		  "gsm_serial_sound (returned CSTs are feasible and the reported cost equals the safety-stock cost of exactly those CSTs); tree evaluators: inbound_ge_pred, "
		  "bruteForce_lower_bound (the model's exhaustive optimum bounds every feasible vector in the box). Tie: gsm_serial vs the exact model (cost 1e-9, returned vector re-priced by the "
		  "model evaluators); gsm_tree on random trees: feasibility and cost of the returned CSTs via the model evaluators, comparison with the model's exhaustive optimum over all integer "
		  "CST vectors within the max-replenishment-time bounds, relabelled copies, serial-vs-tree agreement.",
		  "Trusted: Lean kernel + 3 axioms; harness; math.sqrt cost tables (FP); NetworkX. Open: global optimality of the Graves-Willems tree DP is not a theorem (exhaustive "
		  "comparison per instance on trees <= 6 nodes = labelled test); relabel_nodes correctness is observed through relabelling invariance only.")

	claim('C16',
		  "What a theorem can carry here is the LOGIC of generation, not the randomness. Theorems (Props/C16.lean): demand_cycle and explicit_cycle (deterministic demand lists and "
		  "explicit disruption lists are replayed cyclically: value at t is list[t mod len], period len), support_normal / support_uniform_discrete / support_uniform_continuous "
		  "(whenever the primitive's value lies in the primitive's documented range the generated demand lies in the declared support), uniform_continuous_primitive (the sampler "
		  "arguments are (lo, hi)), round_close, probs_accepted, steady_state_balance ((beta, alpha)/(alpha+beta) is a probability vector solving the balance equation), "
		  "markov_step_thresholds, conv_first_moment (+ C20's lsum_conv, convMany_sum_one, convMany_nn: lead-time demand by L-fold convolution is a pmf with mean L*mu). "
		  "Tie (deterministic): NumPy samplers replaced by a recording stub - sampler name, arguments and post-processing vs the model for every type, parameters, rounding on/off; "
		  "reported mean/sd/cdf vs the distribution object and the definition; lead_time_demand_distribution vs model convolution / Irwin-Hall and L*mu, L*sigma^2; probability "
		  "vectors summing to one within rounding; Markov thresholds, explicit lists, steady state.",
		  "Trusted: Lean kernel + 3 axioms; harness. RNG: that NumPy's samplers realise their documented distributions and that empirical frequencies converge cannot be exhibited "
		  "by an executable model (partial claim, see DESIGN.md); SciPy distribution objects; FFT convolution (1e-9). Variance additivity of the convolution is checked numerically only.")

	claim('C15',
		  "Theorems (Props/C15.lean) about Model/SingleStage.lean, the single-stage specialisation of the simulator model: single_stage_pathwise (for EVERY non-negative demand path "
		  "a base-stock stage started at S has pipeline = the last L demands and IL = S - their sum), single_stage_cost (so each period is charged h(S-D)+ + p(D-S)+), expect_conv / "
		  "expect_convMany_replicate (expectation under the L-fold convolution = iterated expectation over L independent demands), newsvendor_cost_is_expectation and "
		  "single_stage_expected_cost (hence the expected period cost from period L on EQUALS the analytical newsvendor cost for lead-time demand - equality, not just a limit), "
		  "ss_stage_chain_step + nextSt_matches (an (s,S) stage with L=1 follows exactly the C13 chain and is charged the integrand of G; with C13 avg_cost_converges its long-run "
		  "expected average is g(s,S) with transient <= 2B/T). Tie: the real simulator run for thousands of periods on its own random demands vs the single-stage model path by path "
		  "(IL, cost, order; exact), vs the network model Model/Sim.lean on a prefix (every state variable), exact expected cost of the model vs newsvendor_poisson_cost / "
		  "newsvendor_discrete / s_s_cost_discrete, echelon-to-local conversion, per-period cost identity of the serial system; long-run average vs analytical within 8 batch-means "
		  "standard errors (+ the proved transient bound) as supporting search.",
		  "Trusted: Lean kernel + 3 axioms; harness; NumPy RNG (demands read back from the simulator's state). PARTIAL: the serial-system limit (Clark-Scarf: sim average -> SSM "
		  "expected cost) is not a theorem - trajectory tied exactly to the network model, analytical value to the C07 evaluator and an exact top-down evaluation, the limit itself "
		  "only within the statistical band; (s,S) for L>1 has no analytical counterpart in stockpyl; normal demand is compared in floating point only.")
	claim('C07',
		  "Theorems (Props/C07.lean) about the model of the Chen-Zheng recursion on the code's integer grid: stage_argmin (the level chosen for every stage is a first minimiser of that "
		  "stage's cost row over the whole grid), eval_is_opt_with_fixed_S (evaluation mode with the optimiser's own level reproduces the optimiser's rows), reported_cost_def, "
		  "one_stage_chat + one_stage_newsvendor (N = 1: C_1(y) = sum_d f_d (h (y-d)+ + p (d-y)+) for every grid point, including positions below the grid - the linear left tail "
		  "is exact). Tie: optimiser vs the exact model on the grid bounds and per-stage lead-time-demand tables re-derived from SciPy (S* exactly / by objective on ties, cost 1e-9), "
		  "expected_cost of arbitrary vectors vs model evaluation mode; independent top-down expected-cost evaluator (within the documented truncation error) for returned and "
		  "neighbouring level vectors (+-2 per stage), one stage = Poisson newsvendor, renumbering; normal demand coherence and Shang-Song bounds (labelled tests).",
		  "Trusted: Lean kernel + 3 axioms; harness; SciPy lead-time-demand distributions (inputs). Open: that the nested expectation equals the long-run expected cost of the stochastic "
		  "system (Clark-Scarf) is not formalised - cross-checked numerically by the top-down evaluator; Shang-Song bracket checked per instance; continuous (normal) grid with "
		  "nearest-point lookup is not modelled.")
