"""Simulator correspondence library shared by C01-C06 (and C15/C17): spec generation, building
real stockpyl networks through the public API, dumping every documented state variable, the
conversion to the Lean model's edge-record layout, comparison, and the executable predicates
(oracles) of C01-C05 which run on either side's trace."""
import random, copy, warnings, io, contextlib
from fractions import Fraction
import core
from core import fr, unfr

F = Fraction
NODE_FIELDS = ['il', 'oqfg', 'pfg', 'dcum', 'dmfs', 'dmfsCum', 'fill', 'disrupted', 'hc', 'sc', 'ithc', 'rv', 'tc']
CUST_FIELDS = ['ispl', 'is', 'oo', 'idi', 'oq', 'rm']
SUPP_FIELDS = ['iopl', 'io', 'os', 'bo', 'odi']


# ------------------------------------------------------------------ generation
def gen_value(rng, lo, hi, half=False):
	if half and rng.random() < .3:
		return F(rng.randint(lo * 2, hi * 2), 2)
	return F(rng.randint(lo, hi))


def gen_topology(rng, nmax):
	kind = rng.choice(['serial', 'serial', 'assembly', 'distribution', 'tree', 'dag', 'dag', 'single'])
	if kind == 'single':
		return kind, 1, []
	n = rng.randint(2, nmax)
	if kind == 'serial':
		return kind, n, [(i, i + 1) for i in range(n - 1)]          # 0 -> 1 -> ... (positions, upstream first)
	if kind == 'assembly':
		return kind, n, [(i, n - 1) for i in range(n - 1)]
	if kind == 'distribution':
		return kind, n, [(0, i) for i in range(1, n)]
	if kind == 'tree':
		edges = []
		for i in range(1, n):
			j = rng.randrange(i)
			edges.append((j, i) if rng.random() < .5 else (i, j))
		# orientation may create cycles? No: each new node i attaches to an older one by a single edge -> tree.
		return kind, n, edges
	# dag: random forward edges in a random topological order, at least one edge per non-first node
	edges = []
	for j in range(1, n):
		ps = [i for i in range(j) if rng.random() < .45]
		if not ps:
			ps = [rng.randrange(j)]
		edges += [(i, j) for i in ps]
	return kind, n, edges


def gen_spec(rng, thorough=False, force=None):
	"""A single-product network + deterministic history. Positions are indices into spec['labels']."""
	force = force or {}
	nmax = 8 if thorough else 5
	kind, n, pedges = gen_topology(rng, nmax)
	if 'kind' in force and force['kind'] == 'serial':
		kind = 'serial'; n = rng.randint(1, nmax); pedges = [(i, i + 1) for i in range(n - 1)]
	if 'kind' in force and force['kind'] == 'distribution':
		# a rooted out-tree (every node has at most one supplier): one warehouse and its retailers, possibly over several levels
		kind = 'distribution'; n = rng.randint(3, nmax); pedges = [(rng.randrange(i) if rng.random() < .5 else 0, i) for i in range(1, n)]
	T = rng.randint(3, 40 if thorough and rng.random() < .2 else 12)
	perm = list(range(n)); rng.shuffle(perm)                 # network.nodes order is a random permutation
	pool = rng.sample(range(1, 30), n)
	if rng.random() < .25:
		pool[rng.randrange(n)] = 0          # index 0 is a legal node index (and falsy in Python)
	labels = [pool[i] for i in range(n)]
	# edges in random insertion order (insertion order = successor / predecessor iteration order)
	rng.shuffle(pedges)
	edges = [[labels[perm[a]], labels[perm[b]]] for a, b in pedges]
	has_pred = {l: False for l in labels}; has_succ = {l: False for l in labels}
	for a, b in edges:
		has_succ[a] = True; has_pred[b] = True
	ebs = (kind in ('serial', 'single')) and rng.random() < .25
	nodes = {}
	for l in labels:
		pt = 'EBS' if ebs else rng.choice(['BS', 'BS', 'BS', 'sS', 'rQ', 'FQ'])
		if force.get('policy'):
			pt = force['policy']
		if pt in ('BS', 'EBS'):
			# a negative base-stock level is legal (a planned backlog; it arises for upstream stages when echelon levels are converted to local ones)
			pol = {'t': pt, 'a': fr(gen_value(rng, -8, -1, True) if rng.random() < force.get('pnegS', .1) else gen_value(rng, 0, 25, True))}
		elif pt == 'sS':
			s = gen_value(rng, -4, -1, True) if rng.random() < force.get('pnegS', .1) else gen_value(rng, 0, 10, True)
			pol = {'t': 'sS', 'a': fr(s), 'b': fr(s + gen_value(rng, 0, 12, True))}
		elif pt == 'rQ':
			pol = {'t': 'rQ', 'a': fr(gen_value(rng, 0, 10, True)), 'b': fr(gen_value(rng, 1, 12, True))}
		else:
			pol = {'t': 'FQ', 'a': fr(gen_value(rng, 0, 8, True))}
		demand = None
		if not has_succ[l] or rng.random() < .2:
			m = rng.randint(2, T)
			demand = [fr(gen_value(rng, 0, 12, True)) if rng.random() < .85 else '0' for _ in range(m)]
		dis = None
		if rng.random() < (force.get('pdis', .35)):
			m = rng.randint(2, T)
			dis = {'type': rng.choice(['OP', 'SP', 'TP', 'RP']), 'list': [rng.random() < .4 for _ in range(m)]}
		opt = lambda vals: rng.choice(vals)
		nodes[str(l)] = {
			'slt': rng.choice([0, 1, 1, 2, 3]), 'olt': rng.choice([0, 0, 1, 2]),
			'policy': pol,
			'cap': opt([None, None, None, '0', fr(gen_value(rng, 1, 15, True))]),
			'h': opt([None, '0', '1', '2', '1/2']), 'p': opt([None, '0', '4', '10', '5/2']),
			'ht': opt([None, None, '0', '3/2', '1']), 'rev': opt([None, None, '0', '3']),
			'initIL': opt([None, None, fr(gen_value(rng, 0, 15, True))]),
			'initOrders': opt([None, None, None, '0', fr(gen_value(rng, 1, 5))]),
			'initShipments': opt([None, None, None, '0', fr(gen_value(rng, 1, 5))]),
			'ext_supply': (not has_pred[l]) or (rng.random() < force.get('pextsup', .08)),
			'demand': demand, 'dis': dis,
		}
		if demand is not None and rng.random() < .2:
			nodes[str(l)]['demand'] = demand[:1]; nodes[str(l)]['scalar_demand'] = True
		rngp = random.Random(31 * l + 7 * T + n)          # private stream: the main one is unchanged
		if demand is not None and not nodes[str(l)].get('scalar_demand') and len(demand) >= 3 and rngp.random() < .2:
			# the demand list given as a NumPy array, starting with periods of zero demand (nothing has been demanded yet: the fill rate is 1)
			nodes[str(l)]['demand'] = ['0'] * rngp.choice([1, 2]) + list(demand[1:]); nodes[str(l)]['np_demand'] = True
		if rng.random() < .2:
			nodes[str(l)]['none_objects'] = True          # demand_source / disruption_process set to None where the node has none
		# cost FUNCTIONS (callables) instead of rates, as polynomials the model can evaluate exactly
		if rng.random() < force.get('pcostfn', .12):
			nodes[str(l)]['hfn'] = [rng.choice(['0', '1/2', '1']), rng.choice(['0', '1', '2']), rng.choice(['0', '1/2', '1'])]
		if rng.random() < force.get('pcostfn', .12):
			nodes[str(l)]['pfn'] = [rng.choice(['0', '1']), rng.choice(['0', '-1', '-3']), rng.choice(['0', '1/2', '1'])]
	spec = {'kind': kind, 'labels': labels, 'edges': edges, 'nodes': nodes, 'T': T}
	if rng.random() < force.get('pprodlevel', .15) and not any(nd['policy']['t'] == 'EBS' for nd in nodes.values()):
		spec['attr_level'] = 'product'          # attributes carried by an explicit product per node instead of the node
	if force.get('prandom'):
		# random inputs: Poisson / discrete-uniform / rounded-normal demand sources, Markov disruption processes, and an explicit seed (0 is a legal seed)
		for nd in nodes.values():
			if nd['demand'] is not None and rng.random() < force['prandom']:
				nd['rdemand'] = rng.choice([{'type': 'P', 'mean': rng.choice([2, 5, 9])}, {'type': 'UD', 'lo': rng.randint(0, 3), 'hi': rng.randint(4, 12)},
											{'type': 'N', 'mean': rng.choice([4, 10]), 'sd': rng.choice([1, 3])}])
			if nd['dis'] is not None and rng.random() < force['prandom']:
				nd['dis']['markov'] = [rng.choice([0.1, 0.3, 0.5]), rng.choice([0.3, 0.6])]
		spec['seed'] = rng.choice([0, 0, 1, 7, 12345, 2 ** 31])
	if force.get('label0') and 0 not in labels:
		# give index 0 to a node that is somebody's customer (0 is a legal index, and falsy)
		cust = [l for l in labels if has_pred[l]]
		if cust:
			old_l = rng.choice(cust)
			spec['labels'] = [0 if l == old_l else l for l in labels]
			spec['edges'] = [[0 if a == old_l else a, 0 if b == old_l else b] for a, b in edges]
			spec['nodes'] = {('0' if k == str(old_l) else k): v for k, v in nodes.items()}
	return spec


def spec_flags(spec):
	"""Feature flags of a spec, for the input-distribution histogram."""
	fl = ['kind:' + spec['kind'], 'n=%d' % len(spec['labels'])]
	if 0 in spec['labels']:
		fl.append('has-node-index-0')
	if 'seed' in spec:
		fl.append('rand_seed=%s' % spec['seed'])
	fl.append('attributes-at:' + spec.get('attr_level', 'node'))
	for l, nd in spec['nodes'].items():
		fl.append('policy:' + nd['policy']['t'])
		fl.append('slt=%d' % nd['slt']); fl.append('olt=%d' % nd['olt'])
		if nd['dis']:
			fl.append('dis:' + nd['dis']['type'])
			if nd['dis'].get('markov'): fl.append('dis:markov')
		if nd.get('rdemand'):
			fl.append('random-demand:' + nd['rdemand']['type'])
		if nd['cap'] not in (None, '0'):
			fl.append('capacity')
		if nd.get('hfn'):
			fl.append('holding-cost-function')
		if nd.get('pfn'):
			fl.append('stockout-cost-function')
	return fl


# ------------------------------------------------------------------ building the real thing
def num(s):
	"""Protocol rational -> python int/float as a user would pass it."""
	if s is None:
		return None
	f = F(s)
	return int(f) if f.denominator == 1 else float(f)


def build_py(spec, relabel=None):
	from stockpyl.supply_chain_network import SupplyChainNetwork
	from stockpyl.supply_chain_node import SupplyChainNode
	from stockpyl.policy import Policy
	from stockpyl.demand_source import DemandSource
	from stockpyl.disruption_process import DisruptionProcess
	rl = (lambda l: relabel[l]) if relabel else (lambda l: l)
	net = SupplyChainNetwork()
	objs = {}
	prods = {}
	for l in spec['labels']:
		nd = spec['nodes'][str(l)]
		kw = dict(supply_type='U' if nd['ext_supply'] else None,
				  shipment_lead_time=nd['slt'], order_lead_time=nd['olt'],
				  local_holding_cost=num(nd['h']), stockout_cost=num(nd['p']),
				  in_transit_holding_cost=num(nd['ht']), revenue=num(nd['rev']),
				  initial_inventory_level=num(nd['initIL']), initial_orders=num(nd['initOrders']),
				  initial_shipments=num(nd['initShipments']), order_capacity=num(nd['cap']))
		prodlevel = spec.get('attr_level') == 'product'
		if prodlevel:
			# the same single-product network with an explicit product per node that carries the attributes (lead times, costs, initial
			# quantities, policy): attributes may be set at node, product or (node, product) level
			from stockpyl.supply_chain_product import SupplyChainProduct
			pkw = {k: kw.pop(k) for k in ('shipment_lead_time', 'order_lead_time', 'local_holding_cost', 'stockout_cost', 'in_transit_holding_cost',
										  'revenue', 'initial_inventory_level', 'initial_orders', 'initial_shipments')}
		n = SupplyChainNode(rl(l), **kw)
		if prodlevel:
			prod = SupplyChainProduct(1000 + l, **pkw)
			n.add_product(prod)
			prods[l] = prod
		pol = nd['policy']
		if pol['t'] in ('BS', 'EBS'):
			po_ = Policy(type=pol['t'], base_stock_level=num(pol['a']), node=n)
		elif pol['t'] == 'sS':
			po_ = Policy(type='sS', reorder_point=num(pol['a']), order_up_to_level=num(pol['b']), node=n)
		elif pol['t'] == 'rQ':
			po_ = Policy(type='rQ', reorder_point=num(pol['a']), order_quantity=num(pol['b']), node=n)
		else:
			po_ = Policy(type='FQ', order_quantity=num(pol['a']), node=n)
		if prodlevel:
			po_.product = prods[l]; prods[l].inventory_policy = po_
		else:
			n.inventory_policy = po_
		if nd['demand'] is not None:
			n.demand_source = DemandSource(type='D', demand_list=[num(x) for x in nd['demand']])
			if nd.get('np_demand'):
				import numpy as _np
				n.demand_source = DemandSource(type='D', demand_list=_np.array([num(x) for x in nd['demand']]))
			if nd.get('scalar_demand'):
				n.demand_source = DemandSource(type='D', demand_list=num(nd['demand'][0]))          # one number: the same demand in every period
		elif nd.get('none_objects'):
			n.demand_source = None          # optional object attributes may be None
			rd = nd.get('rdemand')
			if rd:          # a random demand source (integer-valued, so the exact regime still applies to the realised demands)
				n.demand_source = DemandSource(type='P', mean=rd['mean']) if rd['type'] == 'P' else (
					DemandSource(type='UD', lo=rd['lo'], hi=rd['hi']) if rd['type'] == 'UD' else
					DemandSource(type='N', mean=rd['mean'], standard_deviation=rd['sd'], round_to_int=True))
		# cost functions: on the node; in product-level networks on the product, in a node-level dict keyed by product, or on the node
		# (the place is a function of the label, so that a replay builds the same network)
		for key_, attr_ in (('hfn', 'local_holding_cost_function'), ('pfn', 'stockout_cost_function')):
			if nd.get(key_):
				fn_ = (lambda cs: (lambda x: sum(c * x ** k for k, c in enumerate(cs))))([float(F(c)) for c in nd[key_]])
				place = (l + len(spec['labels'])) % 3 if prodlevel else 2
				if place == 0:
					setattr(prods[l], attr_, fn_)
				elif place == 1:
					setattr(n, attr_, {prods[l].index: fn_})
				else:
					setattr(n, attr_, fn_)
		if nd['dis'] is None and nd.get('none_objects'):
			n.disruption_process = None
		if nd['dis'] is not None:
			n.disruption_process = DisruptionProcess(random_process_type='E', disruption_type=nd['dis']['type'],
													 disruption_state_list=list(nd['dis']['list']))
			if nd['dis'].get('markov'):
				n.disruption_process = DisruptionProcess(random_process_type='M', disruption_type=nd['dis']['type'],
														 disruption_probability=nd['dis']['markov'][0], recovery_probability=nd['dis']['markov'][1])
		objs[l] = n
		net.add_node(n)
	for a, b in spec['edges']:
		net.add_edge(rl(a), rl(b))
	if prods:
		for a, b in spec['edges']:
			prods[b].set_bill_of_materials(raw_material=prods[a].index, num_needed=1)
	return net, objs


def attr_holder(spec, node, attr=None):
	"""The object that carries the attributes of `node` in this spec: the node itself, or its explicit product (attr_level 'product').
	The order capacity and the disruption process always stay on the node (cost functions: see build_py())."""
	if spec.get('attr_level') == 'product' and attr not in ('order_capacity',):
		return node.products[0]
	return node


def layout(spec):
	"""Positions and the edge list of the model: internal edges (spec order), then external-supplier
	edges, then external-customer edges. Returns (pos, edges[(src,dst)], inE, outE)."""
	pos = {l: i for i, l in enumerate(spec['labels'])}
	edges = [(pos[a], pos[b]) for a, b in spec['edges']]
	n = len(pos)
	inE = [[] for _ in range(n)]; outE = [[] for _ in range(n)]
	for k, (a, b) in enumerate(edges):
		outE[a].append(k); inE[b].append(k)
	for l in spec['labels']:
		if spec['nodes'][str(l)]['ext_supply']:
			edges.append((None, pos[l])); inE[pos[l]].append(len(edges) - 1)
	for l in spec['labels']:
		if spec['nodes'][str(l)]['demand'] is not None:
			edges.append((pos[l], None)); outE[pos[l]].append(len(edges) - 1)
	return pos, edges, inE, outE


_hooks_installed = False
_rec = {'newfg': None, 'oseq': None, 'sseq': None}


def install_hooks():
	"""Instrument stockpyl from the harness process (no change to /repo)."""
	global _hooks_installed
	if _hooks_installed:
		return
	from stockpyl import sim
	orig_rm = sim._raw_materials_to_finished_goods
	orig_ro = sim._receive_inbound_orders
	orig_rs = sim._receive_inbound_shipments
	def rm(node):
		r = orig_rm(node)
		if _rec['newfg'] is not None:
			_rec['newfg'][(node.index, node.network.period)] = dict(r)
		return r
	def ro(node):
		if _rec['oseq'] is not None:
			_rec['oseq'].append((node.network.period, node.index))
		return orig_ro(node)
	def rs(node):
		if _rec['sseq'] is not None:
			_rec['sseq'].append((node.network.period, node.index))
		return orig_rs(node)
	sim._raw_materials_to_finished_goods = rm
	sim._receive_inbound_orders = ro
	sim._receive_inbound_shipments = rs
	_hooks_installed = True


class NonFiniteStateVariable(ValueError):
	"""The simulator reported nan or inf where a number of units, a rate or a cost is documented."""


def fv(x):
	if isinstance(x, bool):
		return x
	import math
	if not math.isfinite(float(x)):
		raise NonFiniteStateVariable('a reported state variable is %r (not a number of units, a ratio or a cost)' % (x,))
	return F(float(x))


def dump_py(spec, net, objs, T, relabel=None):
	"""Every documented state variable of every node for t < T, in the model's layout."""
	rl = (lambda l: relabel[l]) if relabel else (lambda l: l)
	pos, edges, inE, outE = layout(spec)
	lab = {i: l for l, i in pos.items()}
	trace = []
	for t in range(T):
		nodes = []
		est = [dict() for _ in edges]
		for i in range(len(pos)):
			n = objs[lab[i]]
			sv = n.state_vars[t]
			prod = n.product_indices[0]
			nodes.append({'il': fv(sv.inventory_level[prod]), 'oqfg': fv(sv.order_quantity_fg[prod]),
						  'pfg': fv(sv.pending_finished_goods[prod]), 'dcum': fv(sv.demand_cumul[prod]),
						  'dmfs': fv(sv.demand_met_from_stock[prod]), 'dmfsCum': fv(sv.demand_met_from_stock_cumul[prod]),
						  'fill': fv(sv.fill_rate[prod]), 'disrupted': bool(sv.disrupted),
						  'hc': fv(sv.holding_cost_incurred), 'sc': fv(sv.stockout_cost_incurred),
						  'ithc': fv(sv.in_transit_holding_cost_incurred), 'rv': fv(sv.revenue_earned),
						  'tc': fv(sv.total_cost_incurred)})
			for e in inE[i]:
				src = edges[e][0]
				pl = rl(lab[src]) if src is not None else None
				rm = objs[lab[src]].product_indices[0] if src is not None else n._external_supplier_dummy_product.index
				est[e].update({'ispl': [fv(x) for x in sv.inbound_shipment_pipeline[pl][rm]],
							   'is': fv(sv.inbound_shipment[pl][rm]), 'oo': fv(sv.on_order_by_predecessor[pl][rm]),
							   'idi': fv(sv.inbound_disrupted_items[pl][rm]), 'oq': fv(sv.order_quantity[pl][rm]),
							   'rm': fv(sv.raw_material_inventory[rm])})
			for e in outE[i]:
				dst = edges[e][1]
				sl = rl(lab[dst]) if dst is not None else None
				est[e].update({'iopl': [fv(x) for x in sv.inbound_order_pipeline[sl][prod]],
							   'io': fv(sv.inbound_order[sl][prod]), 'os': fv(sv.outbound_shipment[sl][prod]),
							   'bo': fv(sv.backorders_by_successor[sl][prod]),
							   'odi': fv(sv.outbound_disrupted_items[sl][prod])})
		trace.append({'nodes': nodes, 'edges': est})
	return trace


def run_py(spec, mode='batch', relabel=None, split=None, consistency='W', reindex_after=None, net_objs=None, overrides=None):
	"""Runs the real simulator. Returns dict(trace, total, newfg, oseq, sseq) or dict(error=...)."""
	from stockpyl import sim
	install_hooks()
	T = spec['T']
	try:
		with warnings.catch_warnings():
			warnings.simplefilter('ignore')
			sim.issued_backorder_warning = False
			if net_objs is None:
				net, objs = build_py(spec, relabel)
			else:
				net, objs = net_objs
			if reindex_after:
				net.reindex_nodes(reindex_after)
				relabel = reindex_after
			_rec['newfg'] = {}; _rec['oseq'] = []; _rec['sseq'] = []
			if mode == 'batch':
				total = sim.simulation(net, T, rand_seed=spec.get('seed', 1), progress_bar=False, consistency_checks=consistency)
			else:
				sim.initialize(net, T, rand_seed=spec.get('seed', 1))
				for t_ in range(T):
					ov = overrides[t_] if overrides else None          # {label: quantity}: the order of that node is SET to the quantity in this period
					if ov:
						sim.step(net, order_quantity_override={(relabel[l] if relabel else l): {None: {None: float(q)}} for l, q in ov.items()}, consistency_checks=consistency)
					else:
						sim.step(net, consistency_checks=consistency)
				total = sim.close(net)
			newfg = _rec['newfg']; oseq = _rec['oseq']; sseq = _rec['sseq']
			_rec['newfg'] = None; _rec['oseq'] = None; _rec['sseq'] = None
			trace = dump_py(spec, net, objs, T, relabel)
	except Exception as e:
		_rec['newfg'] = None; _rec['oseq'] = None; _rec['sseq'] = None
		import traceback
		return {'error': core.err_enum(e), 'msg': str(e)[:300], 'tb': traceback.format_exc()[-600:]}
	rl = (lambda l: relabel[l]) if relabel else (lambda l: l)
	pos = {rl(l): i for i, l in enumerate(spec['labels'])}
	for (lbl, t), d in newfg.items():
		if t < T:
			trace[t]['nodes'][pos[lbl]]['newFG'] = fv(list(d.values())[0])
	return {'trace': trace, 'total': F(float(total)),
			'oseq': [pos[l] for (t, l) in oseq if t == 0], 'sseq': [pos[l] for (t, l) in sseq if t == 0],
			'net': net, 'objs': objs}


# ------------------------------------------------------------------ the model side
def model_request(spec, exo_from=None):
	pos, edges, inE, outE = layout(spec)
	nodes = []
	for i, l in enumerate(spec['labels']):
		nd = spec['nodes'][str(l)]
		nodes.append({'inE': inE[i], 'outE': outE[i], 'slt': nd['slt'], 'olt': nd['olt'], 'policy': nd['policy'],
					  'cap': nd['cap'], 'dtype': nd['dis']['type'] if nd['dis'] else None,
					  'h': nd['h'] or '0', 'p': nd['p'] or '0', 'ht': nd['ht'], 'rev': nd['rev'] or '0',
					  'initIL': nd['initIL'], 'initOrders': nd['initOrders'] or '0',
					  'initShipments': nd['initShipments'] or '0', 'hFn': nd.get('hfn'), 'pFn': nd.get('pfn')})
	hist = []
	for t in range(spec['T']):
		row = []
		for i, l in enumerate(spec['labels']):
			nd = spec['nodes'][str(l)]
			if exo_from is not None:
				# what the real DemandSource / DisruptionProcess produced in the Python run
				ext = [e for e in outE[i] if edges[e][1] is None]
				d = exo_from[t]['edges'][ext[0]]['io'] if ext else F(0)
				x = exo_from[t]['nodes'][i]['disrupted']
			else:
				d = F(nd['demand'][t % len(nd['demand'])]) if nd['demand'] else F(0)
				x = bool(nd['dis']['list'][t % len(nd['dis']['list'])]) if nd['dis'] else False
			row.append({'d': fr(d), 'x': x})
		hist.append(row)
	return {'nodes': nodes, 'edges': [[a, b] for a, b in edges], 'hist': hist}


def canon_model(resp):
	"""Model response -> same shape as dump_py (Fractions)."""
	if '__err__' in resp:
		return {'error': 'model:' + str(resp['__err__'])}
	tr = []
	for st in resp['trace']:
		nodes = [{k: (v if isinstance(v, bool) else unfr(v)) for k, v in n.items()} for n in st['nodes']]
		edges = [{k: ([unfr(x) for x in v] if isinstance(v, list) else unfr(v)) for k, v in e.items()} for e in st['edges']]
		tr.append({'nodes': nodes, 'edges': edges})
	return {'trace': tr, 'total': unfr(resp['total']), 'oseq': resp['orderSeq'], 'sseq': resp['shipSeq'],
			'orderOK': resp['orderOK'], 'netWF': resp.get('netWF', True), 'initOK': resp.get('initOK', True), 'allVisited': resp.get('allVisited', True), 'visitOK': resp.get('visitOK', True), 'exoOK': resp.get('exoOK', True)}


def compare_traces(spec, py, mo, fields=None):
	"""Field-by-field exact comparison. Returns list of (t, where, field, py, model)."""
	diffs = []
	pos, edges, inE, outE = layout(spec)
	for t, (a, b) in enumerate(zip(py['trace'], mo['trace'])):
		for i, (na, nb) in enumerate(zip(a['nodes'], b['nodes'])):
			for k in NODE_FIELDS + ['newFG']:
				if fields and k not in fields:
					continue
				if k not in na:
					continue
				if k == 'fill':
					# a quotient: Python's correctly rounded binary64 division of two exact floats
					if float(na[k]) != float(nb.get(k)):
						diffs.append((t, 'node%d(label %s)' % (i, spec['labels'][i]), k, na[k], nb.get(k)))
				elif na[k] != nb.get(k):
					diffs.append((t, 'node%d(label %s)' % (i, spec['labels'][i]), k, na[k], nb.get(k)))
		for e, (ea, eb) in enumerate(zip(a['edges'], b['edges'])):
			for k in ea:
				if fields and k not in fields:
					continue
				if ea[k] != eb.get(k):
					diffs.append((t, 'edge%d%s' % (e, edges[e]), k, ea[k], eb.get(k)))
		if len(diffs) > 40:
			break
	if len(py['trace']) != len(mo['trace']):
		diffs.append((-1, 'trace', 'length', len(py['trace']), len(mo['trace'])))
	return diffs


def fmt_diffs(diffs, k=4):
	def s(x):
		if isinstance(x, list):
			return '[' + ','.join(str(y) for y in x) + ']'
		return str(x)
	return '; '.join('t=%d %s.%s python=%s model=%s' % (t, w, f, s(a), s(b)) for t, w, f, a, b in diffs[:k]) + \
		(' (+%d more)' % (len(diffs) - k) if len(diffs) > k else '')


# ------------------------------------------------------------------ oracles (run on either side's trace)
def pos_(x):
	return x if x > 0 else F(0)


def init_trace_state(spec):
	"""State 'before period 0' needed by the one-step identities: initial IL, pipelines, BO=0."""
	pos, edges, inE, outE = layout(spec)
	n = len(pos)
	nodes = []
	for l in spec['labels']:
		nd = spec['nodes'][str(l)]
		nodes.append(nd)
	return nodes


def oracle_C01(spec, tr, init, tol=None):
	"""Conservation identities on a trace (list of states in edge layout). init = model's initial state
	(state_vars[0] before period 0). Returns list of failure strings."""
	bad = []
	ne = (lambda x, y: x != y) if not tol else (lambda x, y: abs(x - y) > tol)          # tol: streams outside the exact regime
	pos, edges, inE, outE = layout(spec)
	prev = init
	for t, st in enumerate(tr):
		for i, nd in enumerate(st['nodes']):
			if 'newFG' not in nd:
				continue
			io = sum((st['edges'][e]['io'] for e in outE[i]), F(0))
			if ne(nd['il'], prev['nodes'][i]['il'] + nd['newFG'] - io):
				bad.append('t=%d node%d: IL %s != prev IL %s + produced %s - orders received %s' % (
					t, i, nd['il'], prev['nodes'][i]['il'], nd['newFG'], io))
			if ne(nd['pfg'], prev['nodes'][i]['pfg'] + nd['oqfg'] - nd['newFG']):
				bad.append('t=%d node%d: pending finished goods not conserved' % (t, i))
			for e in inE[i]:
				ed, pe = st['edges'][e], prev['edges'][e]
				if ne(ed['rm'], pe['rm'] + ed['is'] - nd['newFG']):
					bad.append('t=%d edge%d: raw material %s != prev %s + received %s - consumed %s' % (
						t, e, ed['rm'], pe['rm'], ed['is'], nd['newFG']))
		for e, (a, b) in enumerate(edges):
			ed, pe = st['edges'][e], prev['edges'][e]
			if b is not None:
				# shipped into the pipeline this period: supplier's outbound shipment, or the order itself (external supplier)
				inflow = ed['os'] if a is not None else ed['oq']
				if ne(sum(ed['ispl'], F(0)) + ed['idi'] + ed['is'], sum(pe['ispl'], F(0)) + pe['idi'] + inflow):
					bad.append('t=%d edge%d%s: shipped != received + in transit + held at the door' % (t, e, (a, b)))
			if a is not None and b is not None:
				# orders on their way to the supplier: what was in the order pipeline, plus the order placed now, is either received by the
				# supplier now or still in the pipeline - an order is never lost or duplicated on the way
				if ne(sum(ed['iopl'], F(0)) + ed['io'], sum(pe['iopl'], F(0)) + ed['oq']):
					bad.append('t=%d edge%d%s: orders in transit to the supplier not conserved (pipeline %s + received %s != previous pipeline %s + ordered %s)' % (
						t, e, (a, b), [str(x) for x in ed['iopl']], ed['io'], [str(x) for x in pe['iopl']], ed['oq']))
			if a is not None:
				if ne(ed['bo'] + ed['odi'] + ed['os'], pe['bo'] + pe['odi'] + ed['io']):
					bad.append('t=%d edge%d%s: ordered units not all shipped/backordered/held (BO %s ODI %s OS %s vs prev BO %s ODI %s IO %s)' % (
						t, e, (a, b), ed['bo'], ed['odi'], ed['os'], pe['bo'], pe['odi'], ed['io']))
		prev = next_state(spec, st)
		if len(bad) > 10:
			break
	return bad


def next_state(spec, st):
	"""The carried-over part of the next period's initial state, read from the *next* trace entry is not
	available for the last period, so carry forward the documented carry-overs: the quantities compared
	by the one-step identities are all carried unchanged (IL, PFG, RM, BO, ODI, IDI) or sum-preserved
	(pipelines)."""
	return st


def oracle_C02(spec, tr, init):
	bad = []
	pos, edges, inE, outE = layout(spec)
	prev = init
	for t, st in enumerate(tr):
		for i, nd in enumerate(st['nodes']):
			bo = sum((st['edges'][e]['bo'] for e in outE[i]), F(0))
			if bo != pos_(-nd['il']):
				bad.append('t=%d node%d: backorders %s != negative part of IL %s' % (t, i, bo, nd['il']))
			if 'newFG' in nd:
				os_ = sum((st['edges'][e]['os'] for e in outE[i]), F(0))
				stock = pos_(prev['nodes'][i]['il']) + nd['newFG'] + sum((prev['edges'][e]['odi'] for e in outE[i]), F(0))
				if os_ > stock:
					bad.append('t=%d node%d: shipped %s > stock held %s' % (t, i, os_, stock))
			if nd['dmfsCum'] > nd['dcum']:
				bad.append('t=%d node%d: cumulative demand met from stock %s > cumulative demand %s' % (t, i, nd['dmfsCum'], nd['dcum']))
			# backorders are served before new demand, customer by customer: what a customer receives beyond its own outstanding backorders
			# is demand met from stock
			want_dm = sum((pos_(st['edges'][e]['os'] - prev['edges'][e]['bo']) for e in outE[i]), F(0))
			if 'dmfs' in nd and nd['dmfs'] != want_dm:
				bad.append('t=%d node%d: demand met from stock %s != sum over customers of (shipped - own backorders)+ = %s' % (t, i, nd['dmfs'], want_dm))
			if 'dmfs' in nd and nd['dmfsCum'] != prev['nodes'][i].get('dmfsCum', F(0)) + nd['dmfs']:
				bad.append('t=%d node%d: cumulative demand met from stock %s != previous %s + this period %s' % (t, i, nd['dmfsCum'], prev['nodes'][i].get('dmfsCum', F(0)), nd['dmfs']))
			want = (nd['dmfsCum'] / nd['dcum']) if nd['dcum'] > 0 else F(1)
			if float(nd['fill']) != float(want) and abs(float(nd['fill']) - float(want)) > 1e-15:
				bad.append('t=%d node%d: fill rate %s != %s' % (t, i, float(nd['fill']), float(want)))
			if not (0 <= nd['fill'] <= 1):
				bad.append('t=%d node%d: fill rate outside [0,1]' % (t, i))
			for k in ('dmfs', 'newFG'):
				if k in nd and nd[k] < 0:
					bad.append('t=%d node%d: %s negative' % (t, i, k))
		for e, ed in enumerate(st['edges']):
			for k, v in ed.items():
				vs = v if isinstance(v, list) else [v]
				if any(x < 0 for x in vs):
					bad.append('t=%d edge%d%s: %s negative (%s)' % (t, e, edges[e], k, [str(x) for x in vs]))
		prev = st
		if len(bad) > 10:
			break
	return bad


def oracle_C03(spec, tr, init, exo_dis=None, tol=None):
	"""on-order exactness and lead-time exactness. tol: compare within this absolute tolerance (streams outside the exact regime)."""
	bad = []
	ne = (lambda x, y: x != y) if not tol else (lambda x, y: abs(x - y) > tol)
	pos, edges, inE, outE = layout(spec)
	labels = spec['labels']
	T = len(tr)
	for t, st in enumerate(tr):
		for e, (a, b) in enumerate(edges):
			if b is None:
				continue
			ed = st['edges'][e]
			want = sum(ed['ispl'], F(0))
			if a is not None:
				want += sum(ed['iopl'], F(0)) + ed['bo'] + ed['odi']
			if ne(ed['oo'], want):
				bad.append('t=%d edge%d%s: on-order %s != ordered-not-yet-received %s' % (t, e, (a, b), ed['oo'], want))
			nd = spec['nodes'][str(labels[b])]
			rp_now = bool(nd['dis'] and nd['dis']['type'] == 'RP' and st['nodes'][b]['disrupted'])
			if not rp_now and ne(ed['idi'], 0):
				bad.append('t=%d edge%d%s: %s units still held at the door although no receipt-pausing disruption is active' % (t, e, (a, b), ed['idi']))
			if rp_now and ne(ed['is'], 0):
				bad.append('t=%d edge%d%s: received %s during a receipt-pausing disruption' % (t, e, (a, b), ed['is']))
	# order lead time: IO at t+olt equals OQ at t
	for e, (a, b) in enumerate(edges):
		if a is None or b is None:
			continue
		olt = spec['nodes'][str(labels[b])]['olt']
		for t in range(T - olt):
			if ne(tr[t + olt]['edges'][e]['io'], tr[t]['edges'][e]['oq']):
				bad.append('edge%d%s: order of period %d (%s) not received by the supplier in period %d (got %s)' % (
					e, (a, b), t, tr[t]['edges'][e]['oq'], t + olt, tr[t + olt]['edges'][e]['io']))
				break
	# shipment lead time when the receiver is never TP/RP-disrupted in the window
	for e, (a, b) in enumerate(edges):
		if b is None:
			continue
		nd = spec['nodes'][str(labels[b])]
		slt, olt = nd['slt'], nd['olt']
		lag = slt if a is not None else slt + olt
		dt = nd['dis']['type'] if nd['dis'] else None
		for t in range(T - lag):
			window = [tr[u]['nodes'][b]['disrupted'] for u in range(t, t + lag + 1)]
			if dt in ('TP', 'RP') and any(window):
				continue
			if dt in ('TP', 'RP') and any(tr[u]['nodes'][b]['disrupted'] for u in range(0, t)):
				continue   # earlier pauses may have piled up shipments; covered by the general identity below
			sent = tr[t]['edges'][e]['os'] if a is not None else tr[t]['edges'][e]['oq']
			got = tr[t + lag]['edges'][e]['is']
			if t < lag:
				continue   # initial pipeline contents arrive in the first periods
			if ne(sent, got):
				bad.append('edge%d%s: shipment of period %d (%s) but receipt in period %d is %s' % (e, (a, b), t, sent, t + lag, got))
				break
	if not tol:
		bad += oracle_disruptions(spec, tr)
	return bad


def oracle_disruptions(spec, tr):
	"""The four documented disruption semantics, on the reported trajectory: OP - the disrupted node places no order; SP - nothing is
	shipped to the disrupted node; TP - items in transit to the disrupted node do not advance (so nothing that was in transit arrives
	in the next period); RP - the disrupted node receives nothing."""
	bad = []
	pos, edges, inE, outE = layout(spec)
	labels = spec['labels']
	T = len(tr)
	for t, st in enumerate(tr):
		for b in range(len(labels)):
			nd = spec['nodes'][str(labels[b])]
			if not (nd['dis'] and st['nodes'][b]['disrupted']):
				continue
			dt = nd['dis']['type']
			for e in inE[b]:
				a = edges[e][0]
				ed = st['edges'][e]
				if dt == 'OP' and ed['oq'] != 0:
					bad.append('t=%d node%d is order-paused but ordered %s on edge%d%s' % (t, b, ed['oq'], e, edges[e]))
				if dt == 'SP' and a is not None and ed['os'] != 0:
					bad.append('t=%d node%d is shipment-paused but %s units were shipped to it on edge%d%s' % (t, b, ed['os'], e, edges[e]))
				if dt == 'RP' and ed['is'] != 0:
					bad.append('t=%d node%d is receipt-paused but received %s on edge%d%s' % (t, b, ed['is'], e, edges[e]))
				if dt == 'TP' and t + 1 < T:
					lag = nd['slt'] if a is not None else nd['slt'] + nd['olt']
					nxt = tr[t + 1]['edges'][e]
					# transit was frozen at the end of period t: slot 0 (emptied by the receipt of period t) is still empty at the start of
					# t+1, so period t+1 receives only what enters slot 0 in that very period (lead time 0)
					same_period = (nxt['os'] if a is not None else nxt['oq']) if lag == 0 else 0
					if nxt['is'] != ed['ispl'][0] + same_period:
						bad.append('t=%d node%d is transit-paused, yet in period %d it received %s on edge%d%s (frozen pipeline allows %s)' % (
							t, b, t + 1, nxt['is'], e, edges[e], ed['ispl'][0] + same_period))
		# SP, the other half: the units withheld for a shipment-paused customer are shipped as soon as the pause is over -- at the end of a period in
		# which the customer is not shipment-paused nothing is held for it any more (whether or not it ordered anything in that period)
		for e, (a, b) in enumerate(edges):
			if a is None or b is None:
				continue
			ndb = spec['nodes'][str(labels[b])]
			paused = bool(ndb['dis'] and ndb['dis']['type'] == 'SP' and st['nodes'][b]['disrupted'])
			if not paused and st['edges'][e]['odi'] != 0:
				bad.append('t=%d edge%d%s: %s units are still withheld for node%d although it is not shipment-paused in this period' % (t, e, edges[e], st['edges'][e]['odi'], b))
		if len(bad) > 8:
			break
	return bad


def oracle_C05(spec, tr):
	"""Re-price the reported state."""
	bad = []
	pos, edges, inE, outE = layout(spec)
	labels = spec['labels']
	rate = lambda l, k: F(spec['nodes'][str(l)][k] or 0)
	tot = F(0)
	for t, st in enumerate(tr):
		for i, nd in enumerate(st['nodes']):
			l = labels[i]
			cfg = spec['nodes'][str(l)]
			held = pos_(nd['il']) + sum((st['edges'][e]['odi'] for e in outE[i]), F(0))
			poly = lambda cs, x: sum((F(c) * x ** k for k, c in enumerate(cs)), F(0))
			hc = poly(cfg['hfn'], held) if cfg.get('hfn') else rate(l, 'h') * held
			for e in inE[i]:
				if edges[e][0] is not None:
					hc += rate(labels[edges[e][0]], 'h') * (st['edges'][e]['rm'] + st['edges'][e]['idi'])
			sc = poly(cfg['pfn'], nd['il']) if cfg.get('pfn') else rate(l, 'p') * pos_(-nd['il'])
			ht = rate(l, 'h') if cfg['ht'] is None else F(cfg['ht'])
			ithc = ht * sum((sum(st['edges'][e]['ispl'], F(0)) for e in outE[i] if edges[e][1] is not None), F(0))
			rv = rate(l, 'rev') * sum((st['edges'][e]['os'] for e in outE[i]), F(0))
			for k, v in (('hc', hc), ('sc', sc), ('ithc', ithc), ('rv', rv)):
				if nd[k] != v:
					bad.append('t=%d node%d: %s reported %s but the reported state costs %s' % (t, i, k, nd[k], v))
			if nd['tc'] != nd['hc'] + nd['sc'] + nd['ithc'] - nd['rv']:
				bad.append('t=%d node%d: total != holding + stockout + in-transit - revenue' % (t, i))
			tot += nd['tc']
		if len(bad) > 10:
			break
	return bad, tot


def policy_qty(pol, ip):
	t = pol['t']; a = F(pol['a']); b = F(pol.get('b', 0))
	if t in ('BS', 'EBS'):
		return max(F(0), a - ip)
	if t == 'sS':
		return b - ip if ip <= a else F(0)
	if t == 'rQ':
		return b if ip <= a else F(0)
	return a


def oracle_C04(spec, tr, init):
	"""Order quantity = policy(IP observed after demand), capped; zero under OP; RM orders = FG order."""
	bad = []
	pos, edges, inE, outE = layout(spec)
	labels = spec['labels']
	prev = init
	for t, st in enumerate(tr):
		for i, nd in enumerate(st['nodes']):
			cfg = spec['nodes'][str(labels[i])]
			pol = cfg['policy']
			for e in inE[i]:
				if st['edges'][e]['oq'] != nd['oqfg']:
					bad.append('t=%d node%d: raw-material order %s != finished-goods order %s' % (t, i, st['edges'][e]['oq'], nd['oqfg']))
			if cfg['dis'] and cfg['dis']['type'] == 'OP' and nd['disrupted']:
				if nd['oqfg'] != 0:
					bad.append('t=%d node%d: ordered %s during an order-pausing disruption' % (t, i, nd['oqfg']))
				continue
			if pol['t'] == 'EBS':
				# documented echelon inventory position (node_state_vars.py docstrings): on-hand here and at / in transit to every downstream node,
				# minus the backorders of the downstream-most nodes, plus everything on order, waiting as raw material or held at the door
				if len(inE[i]) != 1:
					continue
				succ = lambda j: [edges[e][1] for e in outE[j] if edges[e][1] is not None]
				desc = []; front = [i]
				while front:
					front = [m for j in front for m in succ(j) if m not in desc]
					desc += list(dict.fromkeys(front))
				eoh = pos_(prev['nodes'][i]['il'])
				for d in desc:
					eoh += pos_(prev['nodes'][d]['il'])
					for e in inE[d]:
						if edges[e][0] is not None and (edges[e][0] == i or edges[e][0] in desc):
							eoh += sum(prev['edges'][e]['ispl'], F(0))
				eil = eoh - sum((pos_(-prev['nodes'][d]['il']) for d in [i] + desc if not succ(d)), F(0))
				e0 = inE[i][0]
				demand = sum((st['edges'][e]['io'] for e in outE[i]), F(0))
				ip = eil + prev['edges'][e0]['oo'] + prev['edges'][e0]['rm'] + prev['edges'][e0]['idi'] - demand
				q = policy_qty(pol, ip)
				cap = cfg['cap']
				if cap is not None and F(cap) != 0:
					q = min(q, F(cap))
				if nd['oqfg'] != q:
					bad.append('t=%d node%d: ordered %s but the echelon base-stock level %s and the echelon inventory position %s prescribe %s' % (t, i, nd['oqfg'], pol['a'], ip, q))
				continue
			if pol['t'] == 'FQ':
				q = F(pol['a'])
			else:
				# IP observed: start-of-period IL + min over raw materials (RM + OO + IDI) - demand received now
				demand = sum((st['edges'][e]['io'] for e in outE[i]), F(0))
				pipe = min(prev['edges'][e]['rm'] + prev['edges'][e]['oo'] + prev['edges'][e]['idi'] for e in inE[i])
				ip = prev['nodes'][i]['il'] + pipe - demand
				q = policy_qty(pol, ip)
			cap = cfg['cap']
			if cap is not None and F(cap) != 0:
				q = min(q, F(cap))
			if nd['oqfg'] != q:
				bad.append('t=%d node%d: ordered %s but policy %s prescribes %s' % (t, i, nd['oqfg'], pol, q))
		prev = st
		if len(bad) > 10:
			break
	return bad


def carried(spec, st):
	"""Initial state of the next period as far as the oracles need it (carry-overs only)."""
	return st
