"""The §3 correspondence stream: real simulator vs Lean model on generated single-product networks."""
import random, json
from fractions import Fraction as F
import simlib, core
from core import fr


def state_to_proto(st):
	"""dump/trace state (Fractions) -> protocol JSON for the model."""
	def ed(e):
		out = {}
		for k, v in e.items():
			out[k] = [fr(x) for x in v] if isinstance(v, list) else fr(v)
		return out
	def nd(n):
		return {k: (v if isinstance(v, bool) else fr(v)) for k, v in n.items()}
	return {'nodes': [nd(n) for n in st['nodes']], 'edges': [ed(e) for e in st['edges']]}


def nontrivial(spec, py):
	"""At least one period with a positive backorder and, if a disruption is configured, a disrupted
	period in which the affected quantity is non-zero."""
	tr = py['trace']
	bo = any(e.get('bo', 0) > 0 for st in tr for e in st['edges'])
	if not bo:
		return False
	return True


def branch_counters(rep, spec, py):
	pos, edges, inE, outE = simlib.layout(spec)
	for st in py['trace']:
		for e, ed in enumerate(st['edges']):
			if ed.get('odi', 0) > 0: rep.count('branch:SP-held-items')
			if ed.get('idi', 0) > 0: rep.count('branch:RP-held-at-door')
			if ed.get('bo', 0) > 0: rep.count('branch:backorder')
		for i, nd in enumerate(st['nodes']):
			if nd['disrupted']:
				rep.count('branch:disrupted-period')


def run_stream(rep, drv, stream, n_cases, fields, oracle_fn, theorem, thorough, force=None, seed_off=0,
			   classify=None):
	"""oracle_fn(spec, trace, init) -> list of failure strings (evaluated on the PYTHON trace)."""
	rng = random.Random(rep.seed * 1000003 + seed_off)
	ok_cases = 0
	for k in range(n_cases):
		spec = simlib.gen_spec(rng, thorough, force)
		one_case(rep, drv, stream, spec, fields, oracle_fn, theorem, classify)
	return


def one_case(rep, drv, stream, spec, fields, oracle_fn, theorem, classify=None, quiet=True):
	py = simlib.run_py(spec)
	for fl in simlib.spec_flags(spec):
		rep.count(fl)
	if 'error' in py:
		# the model is total on well-formed specs: an exception on an admissible network is a failing input
		fid = classify(spec, py, None) if classify else None
		rep.case(stream, spec, nontrivial=False)
		rep.count('python-error:' + py['error'])
		rep.diff(stream, 'real simulator raised %s on an admissible network: %s' % (py['error'], py.get('msg', '')),
				 spec, py={'error': py['error'], 'msg': py.get('msg'), 'tb': py.get('tb')}, model=None, oracle=True,
				 finding_id=fid, theorem=theorem)
		return None
	req = simlib.model_request(spec, exo_from=py['trace'])
	resp = drv.call('sim', **req)
	mo = simlib.canon_model(resp)
	if 'error' in mo:
		raise core.Infra('model driver error: ' + mo['error'])
	init = simlib.canon_model({'trace': [resp['init']], 'total': '0', 'orderSeq': [], 'shipSeq': [], 'orderOK': True})['trace'][0]
	nt = nontrivial(spec, py)
	rep.case(stream, spec, nontrivial=nt)
	branch_counters(rep, spec, py)
	if not mo['orderOK']:
		rep.count('orderOK-false')
	# hypotheses of the network-level theorems (Props/Net.lean), evaluated by the driver on this very network and history
	for hyp in ('netWF', 'initOK', 'visitOK', 'allVisited', 'exoOK'):
		if mo.get(hyp, True):
			rep.count('net-theorem-hypothesis-%s-true' % hyp)
		else:
			rep.count('net-theorem-hypothesis-%s-FALSE' % hyp)
			rep.diff(stream, 'hypothesis %s of the network-level theorems (Props/Net.lean) is false on this generated network: the theorem does not cover it' % hyp,
					 spec, oracle=False, theorem='Props/Net.lean on_order_exact_checked, Props/NetBO.lean bo_matches_il_network, Props/NetFlow.lean conservation_network')
	diffs = simlib.compare_traces(spec, py, mo, fields)
	if fields is None or 'total' in (fields or []):
		if py['total'] != mo['total']:
			diffs.append((-1, 'simulation()', 'total', py['total'], mo['total']))
	if fields is None:
		if py['oseq'] != mo['oseq']:
			diffs.append((0, 'order phase', 'visiting sequence', py['oseq'], mo['oseq']))
		if py['sseq'] != mo['sseq']:
			diffs.append((0, 'shipment phase', 'visiting sequence', py['sseq'], mo['sseq']))
	rep.exact_cmp += sum(len(st['nodes']) * 13 + len(st['edges']) * 11 for st in py['trace'])
	fails = oracle_fn(spec, py['trace'], init) if oracle_fn else []
	if diffs or fails:
		what = ''
		if diffs:
			what = 'model/implementation differ: ' + simlib.fmt_diffs(diffs)
		if fails:
			what += ' | property predicate fails on the real code: ' + '; '.join(fails[:3])
		fid = classify(spec, py, fails) if classify else None
		rep.diff(stream, what, spec, py={'first_diffs': [list(map(str, d)) for d in diffs[:10]], 'predicate_failures': fails[:10]},
				 model=None, oracle=bool(fails), finding_id=fid, theorem=theorem if not diffs else None)
	return py, mo, init
