#!/bin/bash
# usage: seed_take.sh <id e.g. C03-b> <worktree dir> <checks...>  -- store, verify, run checks against it, remove worktree
ID=$1; WT=$2; shift 2
mkdir -p /verif/seeded/$ID && cp $WT/mutation/{patch.diff,demo.py,README.md} /verif/seeded/$ID/ || exit 2
/verif/harness/seed_verify.sh $ID /verif/seeded/$ID 2>&1 | tail -3
/verif/harness/seed_run.sh /verif/seeded/$ID/patch.diff "$@"
git -C /repo worktree remove --force $WT
