"""Regenerates /verif/MANIFEST.json from the table below (kept in one place so it stays valid)."""
import json, os
VERIF = os.path.dirname(os.path.dirname(os.path.abspath(__file__)))

CHECKS = {}   # pid -> dict(text=..., note=..., technique=..., design=...)
NA = {}       # pid -> reason

def claim(pid, text, note, technique='Lean 4 theorems about a hand-written executable model + differential correspondence check against /repo on every run', design=None):
	CHECKS[pid] = dict(text=text, note=note, technique=technique, design=design or ('DESIGN.md §4 ' + pid))

from manifest_table import fill
fill(claim, NA)

# additions of the later seeding rounds (one sentence each, appended to the tie description)
HIST = (" Call histories: each function of the family is also evaluated with one argument changed at a time after an earlier call and once more unchanged, and every "
		"such call is compared with the same call alone in a fresh interpreter (core.history_check) - the answer is a function of the arguments of the call.")
EXTRA = {
	'C09': HIST + " Arguments outside the integration range and shifted/scaled SciPy families are compared with elementary values / quadrature.",
	'C10': HIST + " Lot demand (pmf dicts with gaps) and off-lattice levels for the disruption newsvendor are compared with the defining expectations. The continuous newsvendor is compared with the defining expectation (independent quadrature) at S* and at other levels, one corpus case per shifted/scaled family.",
	'C12': HIST + " myopic_bounds: scalar, length-T and length-(T+1) forms (stray 0th element) of one instance agree. Corpus: cheap stockouts (cells near the lower end of the state space decide the policy), a uniform-continuous demand source (exact losses outside the support).",
	'C13': HIST + " Large Poisson means (up to 800) against the custom-pmf entry point and the stationary cost.",
	'C14': HIST + " EIL approximation: reported cost = equation (5.16) of the returned pair; low-mean corpus for the exact algorithm.",
	'C11': " Call histories: one instance solved again with exactly one argument changed, every call compared with the model; every call's arguments are compared with copies (no argument is rewritten in place); integer NumPy arrays of narrow dtypes (int16/int32/uint8) whose cost sums leave the dtype's range.",
	'C04': " Echelon base-stock nodes are also exercised in distribution systems (several downstream-most nodes); multi-product nodes with order capacities given per product (the predicate uses the documented capacity of the (node, product) pair).",
	'C06': " Props/NetSeq.lean: orderSeq_nodup, shipSeq_nodup (no node is processed twice in a phase - for every network, unconditionally) and visitOK_iff. The order-follows-policy predicate, the cost re-pricing predicate, the release of withheld units after a shipment pause and order-pipeline conservation are part of the predicates evaluated on every real trajectory.",
	'C03': " On every edge into a TP/RP node the edge-flow identity (nothing lost while a pause delays a shipment) is evaluated.",
	'C08': " External inbound times at inner stages; a pre-processed tree edited before solving equals the edited instance built afresh.",
	'C15': " The workflow also runs the stockout penalty as a cost function, and with consistency_checks 'N' and 'E' (diagnostic options leave the trajectory alone). One-object workflow: analysis with network=, conversion, installation by index (and Policy objects moved from a simulated pilot system), simulation - identical to the same levels on a fresh copy.",
	'C16': " Distributions handed out earlier are re-queried after later requests; the reported cdf is compared with the distribution object's at, between and outside support points; Markov probabilities 0 and 1.",
	'C17': " Simulated networks are saved through every exit of save_instance (incl. the documented no-ops) and their state variables compared; CSV output of multi-product networks (one cell per label, every labelled cell = its state variable).",
	'C18': " Serial systems stored in four construction orders for the level conversions; identity and permutation re-index maps; builders with list- and dict-valued demand sources and per-node demand attributes (two genuine defects of owmr_system/mwor_system repaired, known_findings.json).",
	'C01': " The same network objects are simulated a second time (as run_multiple_trials does) and the second trajectory is checked like the first. An order-override stream (orders forced through step(order_quantity_override=...), above and below the policy quantity) evaluates every balance on the real trajectory; multi-product networks also check order-pipeline conservation per raw material.",
	'C02': " Multi-product networks: per-product cumulative demand, demand met from stock and fill rate.",
	'C05': " run_multiple_trials is also run with 30 trials on instances where a per-trial seed repeats.",
	'C20': " Non-scalar defaults of the node normalisers; random nested dicts for the key rewriters (reference implementations, no sharing with the argument).",
}
# rounds 11-12
EXTRA2 = {
	'C02': " Demand lists given as NumPy arrays that start with zero-demand periods.",
	'C04': " A line shortened after a first simulation is simulated again (orders from the network as it is now); one Policy object shared by two products.",
	'C07': " Stale demand moments next to a demand source; an instance with demand in the thousands (inventory grid of more than 2000 points).",
	'C08': " Demand-bound constants of 0; the four-stage shared-supplier instance under all 24 labellings; dict-valued and stage-dependent parameters of the serial optimiser.",
	'C09': " Large Poisson means (up to 1000) against direct summation; special parameter values of every closed-form family.",
	'C10': " A pmf dict revised in place between two calls; EOQ with disruptions whose exact optimum lies far above the approximate one.",
	'C11': " Zero-dimensional array singletons; cost figures of the order of 1e7-1e9 with small savings (no relative tolerance in the minimum).",
	'C14': " r_q_optimal_r_for_q honours tolerances tighter than the default; Poisson cost at mean lead-time demands up to 1300 against the defining sum.",
	'C15': " Negative reorder points in every third (s,S) case; stale demand moments next to the demand source in every second serial case.",
	'C16': " Probability vectors whose floating-point sum falls a hair above as well as below 1.",
	'C17': " sim_io.write_instance_and_states (debug save) leaves the saved network untouched.",
	'C18': " supply_type arguments to the builders make no difference.",
	'C19': " Golden-section search on kinks thousands of times steeper on one side; coordinate descent on coupled non-smooth objectives started at their minimiser.",
	'C20': " dict_match at coarse relative / absolute tolerances on both sides of the symmetric rule; exact integer keys beyond 2^53.",
}
for pid_, extra_ in EXTRA2.items():
	EXTRA[pid_] = EXTRA.get(pid_, '') + extra_
for pid_, extra_ in EXTRA.items():
	if pid_ in CHECKS:
		CHECKS[pid_]['text'] = CHECKS[pid_]['text'].rstrip() + extra_

ids = [json.loads(l)['id'] for l in open(os.path.join(VERIF, 'properties.jsonl'))]
checks = []
for pid in ids:
	if pid in CHECKS:
		c = CHECKS[pid]
		checks.append({
			'property_id': pid,
			'quick_cmd': './check %s --tier quick' % pid,
			'thorough_cmd': './check %s --tier thorough' % pid,
			'evidence_file': 'evidence/%s.json' % pid,
			'replay_cmd_template': './check %s --replay {path}' % pid,
			'engine': 'lean4+correspondence',
			'level_claimed': {'category': 'proof', 'text': c['text'], 'design_ref': c['design']},
			'level_note': c['note'],
			'technique': c['technique'],
		})
na = [{'property_id': p, 'reason': NA.get(p, 'check not built yet (work in progress; see DESIGN.md §8 build order)')}
	  for p in ids if p not in CHECKS]
man = {
	'version': 1,
	'setup_cmd': 'cd lean && lake build',
	'hooks': {
		'guard': 'STOCKPYL_VERIF',
		'enable': 'none needed: the harness instruments stockpyl from its own process by wrapping functions; /repo carries no hook code',
		'baseline_off_cmd': 'cd /repo && /venv/bin/python -m pytest -ra -q -p no:cacheprovider --timeout=900 --continue-on-collection-errors',
		'source_commits': [],
		'add_only': True,
	},
	'engines': [{'name': 'lean4+correspondence', 'path': 'lean/ + harness/',
				 'serves_properties': sorted(CHECKS), 'kind_free_text':
				 'Lean 4 model + theorems (lean/StockpylModel), compiled model driver (lean/Driver), Python differential harness (harness/)'}],
	'checks': checks,
	'not_applicable': na,
	'notes': 'Single entry point ./check <id> [--tier quick|thorough] [--replay f]; exit 0 held, 1 VIOLATION, 2 infrastructure error (never a verdict). known_findings.json lists genuine defects found (fixed / finding).',
}
json.dump(man, open(os.path.join(VERIF, 'MANIFEST.json'), 'w'), indent=1)
print('claimed:', sorted(CHECKS), 'not claimed:', [x['property_id'] for x in na])
