"""Regenerates /verif/MANIFEST.json from the table below (kept in one place so it stays valid)."""
import json, os
VERIF = os.path.dirname(os.path.dirname(os.path.abspath(__file__)))

CHECKS = {}   # pid -> dict(text=..., note=..., technique=..., design=...)
NA = {}       # pid -> reason

def claim(pid, text, note, technique='Lean 4 theorems about a hand-written executable model + differential correspondence check against /repo on every run', design=None):
	CHECKS[pid] = dict(text=text, note=note, technique=technique, design=design or ('DESIGN.md §4 ' + pid))

from manifest_table import fill
fill(claim, NA)

ids = [json.loads(l)['id'] for l in open(os.path.join(VERIF, 'properties.jsonl'))]
checks = []
for pid in ids:
	if pid in CHECKS:
		c = CHECKS[pid]
		checks.append({
			'property_id': pid,
			'quick_cmd': './check %s --tier quick' % pid,
			'thorough_cmd': './check %s --tier thorough' % pid,
			'evidence_file': 'evidence/%s.json' % pid,
			'replay_cmd_template': './check %s --replay {path}' % pid,
			'engine': 'lean4+correspondence',
			'level_claimed': {'category': 'proof', 'text': c['text'], 'design_ref': c['design']},
			'level_note': c['note'],
			'technique': c['technique'],
		})
na = [{'property_id': p, 'reason': NA.get(p, 'check not built yet (work in progress; see DESIGN.md §8 build order)')}
	  for p in ids if p not in CHECKS]
man = {
	'version': 1,
	'setup_cmd': 'cd lean && lake build',
	'hooks': {
		'guard': 'STOCKPYL_VERIF',
		'enable': 'none needed: the harness instruments stockpyl from its own process by wrapping functions; /repo carries no hook code',
		'baseline_off_cmd': 'cd /repo && /venv/bin/python -m pytest -ra -q -p no:cacheprovider --timeout=900 --continue-on-collection-errors',
		'source_commits': [],
		'add_only': True,
	},
	'engines': [{'name': 'lean4+correspondence', 'path': 'lean/ + harness/',
				 'serves_properties': sorted(CHECKS), 'kind_free_text':
				 'Lean 4 model + theorems (lean/StockpylModel), compiled model driver (lean/Driver), Python differential harness (harness/)'}],
	'checks': checks,
	'not_applicable': na,
	'notes': 'Single entry point ./check <id> [--tier quick|thorough] [--replay f]; exit 0 held, 1 VIOLATION, 2 infrastructure error (never a verdict). known_findings.json lists genuine defects found (fixed / finding).',
}
json.dump(man, open(os.path.join(VERIF, 'MANIFEST.json'), 'w'), indent=1)
print('claimed:', sorted(CHECKS), 'not claimed:', [x['property_id'] for x in na])
