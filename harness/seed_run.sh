#!/bin/bash
# usage: seed_run.sh <patch.diff> <Cxx> [Cyy ...]
# Applies the change to a SCRATCH worktree of /repo (never to /repo itself), runs the checks against it with evidence and
# replays redirected to a scratch directory, prints the verdict lines and removes everything.
P=$(readlink -f $1); shift
mkdir -p /tmp/wt; WT=/tmp/wt/run_$$; OUTD=/tmp/wt/out_$$
git -C /repo worktree add -q --detach $WT HEAD || exit 2
git -C $WT apply --whitespace=nowarn $P 2>&1 | grep -v "^warning\|trailing whitespace" ; [ ${PIPESTATUS[0]} -eq 0 ] || { echo "PATCH DOES NOT APPLY"; git -C /repo worktree remove --force $WT; exit 2; }
cd "$(dirname "$0")/.."
for c in "$@"; do
  STOCKPYL_REPO=$WT VERIF_OUT=$OUTD ./check $c 2>&1 | grep -v conda | grep -E "^VIOLATION|^KNOWN|quick:|thorough:|INFRA|^  [a-zA-Z_() -]+:" | cut -c1-400
done
git -C /repo worktree remove --force $WT; rm -rf $OUTD
