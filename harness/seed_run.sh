#!/bin/bash
# usage: seed_run.sh <patch.diff> <Cxx> [Cyy ...]   -- applies the change to /repo, runs the checks, reverts.
P=$1; shift
cd /verif
git -C /repo apply $P || { echo "PATCH DOES NOT APPLY"; exit 2; }
for c in "$@"; do ./check $c 2>&1 | grep -v conda | grep -E "VIOLATION|KNOWN|quick:|INFRA" | cut -c1-400; done
git -C /repo checkout -- .
git -C /repo status --short | head -3
