import json, jsonschema, glob, sys
jsonschema.validate(json.load(open('/verif/MANIFEST.json')), json.load(open('/root/.vp/MANIFEST.schema.json')))
for f in glob.glob('/verif/evidence/*.json'):
	jsonschema.validate(json.load(open(f)), json.load(open('/root/.vp/EVIDENCE.schema.json')))
	print('valid', f)
print('MANIFEST valid')
