#!/bin/bash
# usage: seed_all.sh [ids...]  -- every seeded change under /verif/seeded applied to /repo in turn, its property's quick check run, change reverted.
cd /verif
OUT=/verif/seeded/RESULTS.txt
ids=${@:-$(ls seeded | grep -E '^C[0-9]+-')}
[ $# -eq 0 ] && : > $OUT
for id in $ids; do
  prop=${id%%-*}
  if ! git -C /repo apply /verif/seeded/$id/patch.diff 2>/dev/null; then echo "$id: PATCH DOES NOT APPLY" | tee -a $OUT; continue; fi
  res=$(./check $prop 2>&1 | grep -v conda | grep -E "^VIOLATION|^KNOWN|quick:|INFRA|^  [a-zA-Z-]+:" | cut -c1-300 | head -4 | tr '\n' '|')
  git -C /repo checkout -- .
  echo "$id: $res" | tee -a $OUT
done
git -C /repo status --short | head -3
