#!/bin/bash
# usage: seed_all.sh [ids...]  -- every seeded change under /verif/seeded applied (in a scratch worktree) in turn, its property's quick check run.
# PAR=<n> runs n of them at a time (each in its own scratch worktree and scratch output directory).
ROOT=$(cd "$(dirname "$0")/.." && pwd)
cd $ROOT
OUT=${SEED_RESULTS:-$ROOT/seeded/RESULTS.txt}
ids=${@:-$(ls seeded | grep -E '^C[0-9]+-')}
TMPD=$(mktemp -d /tmp/seed_all.XXXXXX)
one() { id=$1; prop=${id%%-*}
  res=$(harness/seed_run.sh $ROOT/seeded/$id/patch.diff $prop 2>&1 | head -4 | tr '\n' '|')
  echo "$id: $res" | tee $TMPD/$id; }
export -f one; export ROOT TMPD
echo $ids | tr ' ' '\n' | xargs -P ${PAR:-1} -I{} bash -c 'one {}'
if [ $# -eq 0 ]; then cat $(ls $TMPD/* | sort) > $OUT; fi
rm -rf $TMPD
