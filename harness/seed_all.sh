#!/bin/bash
# usage: seed_all.sh [ids...]  -- every seeded change under /verif/seeded applied (in a scratch worktree) in turn, its property's quick check run.
ROOT=$(cd "$(dirname "$0")/.." && pwd)
cd $ROOT
OUT=${SEED_RESULTS:-$ROOT/seeded/RESULTS.txt}
ids=${@:-$(ls seeded | grep -E '^C[0-9]+-')}
[ $# -eq 0 ] && : > $OUT
for id in $ids; do
  prop=${id%%-*}
  res=$(harness/seed_run.sh $ROOT/seeded/$id/patch.diff $prop 2>&1 | head -4 | tr '\n' '|')
  echo "$id: $res" | tee -a $OUT
done
