"""C06 - documented sequence of events; determinism, step==batch, relabelling."""
import random
from fractions import Fraction as F
import simlib, simstream, core
TRUSTED = ["exact regime; RNG: with random demand sources / Markov disruptions the model is driven by the realised demands and disruption states; reproducibility under a seed (incl. 0) is checked Python-vs-Python only",
		   "the model IS the reference implementation of the documented sequence of events (Model/Sim.lean, reconciliations marked RECONCILED:)"]
THEOREM = 'Props/C06.list (step_batch, resolve_rename, op_skips_order, sp_holds, tp_freezes, rp_releases)'


def variants(rep, spec, base):
	"""Python-vs-Python: stepwise == batch, re-run on the same objects, relabelled (fresh build and reindex_nodes), consistency flags."""
	def cmp(tag, other):
		if 'error' in other:
			rep.diff('variants', '%s run raised %s: %s' % (tag, other['error'], other.get('msg')), spec, py={'tb': other.get('tb')}, oracle=True, theorem=THEOREM)
			return
		d = simlib.compare_traces(spec, base, other)
		if base['total'] != other['total']:
			d.append((-1, 'simulation()', 'total', base['total'], other['total']))
		if d:
			rep.diff('variants', '%s trajectory differs from the batch run: %s' % (tag, simlib.fmt_diffs(d)), spec,
					 py={'variant': tag, 'diffs': [list(map(str, x)) for x in d[:8]]}, oracle=True, theorem=THEOREM)
	import zlib
	rng = random.Random(zlib.crc32(repr((spec['labels'], spec['T'], rep.seed)).encode()))          # stable across processes (str hashes are salted)
	def reset_markov():
		# the current state of a Markov disruption process is an input of the run (DisruptionProcess.disrupted, settable by the user and through
		# network_from_edges); a simulation leaves it in its last state, so "the same network" means: with that attribute put back
		for o in base['objs'].values():
			if o.disruption_process is not None and o.disruption_process.random_process_type == 'M':
				o.disruption_process.disrupted = False
	cmp('initialize+step*T+close', simlib.run_py(spec, mode='step'))
	reset_markov()
	cmp('second run on the same objects', simlib.run_py(spec, net_objs=(base['net'], base['objs'])))
	cmp("consistency_checks='E'", simlib.run_py(spec, consistency='E'))
	cmp("consistency_checks='N'", simlib.run_py(spec, consistency='N'))
	labels = spec['labels']
	pool = rng.sample(range(31, 90), len(labels))
	relabel = {l: pool[i] for i, l in enumerate(labels)}
	cmp('relabelled (fresh build)', simlib.run_py(spec, relabel=relabel))
	net, objs = simlib.build_py(spec)
	cmp('relabelled (reindex_nodes)', simlib.run_py(spec, reindex_after=relabel, net_objs=(net, objs)))
	# object life cycle: change attributes of the SAME objects after a run and simulate again == a fresh build with the new attributes
	import copy
	spec2 = copy.deepcopy(spec)
	from stockpyl.policy import Policy
	changed = []
	for l in spec2['labels']:
		nd = spec2['nodes'][str(l)]
		node_ = base['objs'][l]; obj = simlib.attr_holder(spec, node_)
		if rng.random() < .5:
			nd['slt'] = (nd['slt'] + 1) % 4; obj.shipment_lead_time = nd['slt']; changed.append('slt')
		if rng.random() < .3:
			nd['olt'] = (nd['olt'] + 1) % 3; obj.order_lead_time = nd['olt']; changed.append('olt')
		if rng.random() < .5 and nd['policy']['t'] in ('BS', 'EBS'):
			nd['policy']['a'] = core.fr(F(nd['policy']['a']) + 3); obj.inventory_policy.base_stock_level = simlib.num(nd['policy']['a']); changed.append('S')
		if rng.random() < .3:
			nd['cap'] = core.fr(F(7, 2)) if nd['cap'] in (None, '0') else None; node_.order_capacity = simlib.num(nd['cap']); changed.append('cap')
		if rng.random() < .3:
			nd['initIL'] = '6'; obj.initial_inventory_level = 6; changed.append('initIL')
	if changed:
		fresh = simlib.run_py(spec2)
		reset_markov()
		again = simlib.run_py(spec2, net_objs=(base['net'], base['objs']))
		if 'error' in fresh or 'error' in again:
			if ('error' in fresh) != ('error' in again):
				rep.diff('variants', 're-run after changing %s: %s' % (sorted(set(changed)), (again if 'error' in again else fresh).get('msg')), spec2, oracle=True, theorem=THEOREM)
		else:
			d = simlib.compare_traces(spec2, fresh, again)
			if fresh['total'] != again['total']:
				d.append((-1, 'simulation()', 'total', fresh['total'], again['total']))
			if d:
				rep.diff('variants', 'after changing %s on the same objects the re-run differs from a fresh network with the same attributes: %s' % (
					sorted(set(changed)), simlib.fmt_diffs(d)), spec2, py={'changed': changed, 'diffs': [list(map(str, x)) for x in d[:8]]}, oracle=True, theorem=THEOREM)
		rep.count('variants-rerun-after-attribute-change')
	rep.count('variants-checked', 6)


def visiting(rep, spec, py, init=None):
	"""Documented sequence of events, evaluated on the real code: in each phase every node is processed exactly once per period;
	orders are generated downstream-to-upstream (a node after all its successors), shipments upstream-to-downstream (after all its predecessors)."""
	pos, edges, inE, outE = simlib.layout(spec)
	n = len(pos)
	succ = {i: [b for (a, b) in edges if a == i and b is not None] for i in range(n)}
	pred = {i: [a for (a, b) in edges if b == i and a is not None] for i in range(n)}
	bad = []
	for name, seq, before in (('order phase', py['oseq'], succ), ('shipment phase', py['sseq'], pred)):
		if sorted(seq) != list(range(n)):
			bad.append('%s processed the nodes %s in period 0: not every node exactly once' % (name, [spec['labels'][i] for i in seq]))
			continue
		for k, i in enumerate(seq):
			late = [j for j in before[i] if j not in seq[:k]]
			if late:
				bad.append('%s processed node %s before its %s %s' % (name, spec['labels'][i], 'successors' if name == 'order phase' else 'predecessors', [spec['labels'][j] for j in late]))
	bad += simlib.oracle_disruptions(spec, py['trace'])
	if init is not None:
		# "serving backorders before new demand", per customer: the service bookkeeping of the documented sequence of events
		bad += [x for x in simlib.oracle_C02(spec, py['trace'], init) if 'demand met from stock' in x]
		# "demands and orders propagate downstream-to-upstream": an order placed in period t reaches the supplier in period t + order lead time,
		# whatever happens to the customer in between, and is never lost on the way
		bad += [x for x in simlib.oracle_C03(spec, py['trace'], init) if 'not received by the supplier' in x]
		bad += [x for x in simlib.oracle_C01(spec, py['trace'], init) if 'orders in transit to the supplier' in x]
		# "orders": the quantity a node orders in the order phase is the one its documented policy prescribes for the position it observes
		bad += simlib.oracle_C04(spec, py['trace'], init)
		# "... then costs": every cost component reported for a period is the documented function of the state reported for that period
		bad += simlib.oracle_C05(spec, py['trace'])[0]
	if bad:
		rep.diff('sim-trace-full', 'documented sequence of events violated on the real code: ' + '; '.join(bad[:3]), spec, py={'oseq': py['oseq'], 'sseq': py['sseq']}, oracle=True, theorem=THEOREM)


def run(rep, drv):
	th = rep.tier == 'thorough'
	rep.rule = ('full-trajectory equality (every documented state variable, visiting sequences, returned total) of the real simulator vs the '
				'Lean reference model on random single-product trees/DAGs (<=%d nodes); 6 Python-vs-Python variants per case; non-trivial = '
				'some positive backorder' % (8 if th else 5))
	rng = random.Random(rep.seed * 1000003 + 6)
	# corpus first: lumpy ordering around disruptions -- an (s,S) or (r,Q) customer that orders nothing in the period in which its shipment pause
	# (or its supplier's order pause) ends; a pause that starts in the first period; pauses on both nodes
	def ns(policy, slt, olt, ext, demand, dis, il):
		return {'slt': slt, 'olt': olt, 'policy': policy, 'cap': None, 'h': '1', 'p': '4' if demand else None, 'ht': None, 'rev': None, 'initIL': core.fr(il), 'initOrders': None,
				'initShipments': None, 'ext_supply': ext, 'demand': demand, 'dis': dis}
	for cust_pol, dis_t, dis_list, slt in tuple(({'t': 'sS', 'a': '4', 'b': '20'}, 'SP', [i_ == d_ for i_ in range(12)], 1) for d_ in (3, 4, 5, 6, 7)) + tuple(({'t': 'rQ', 'a': '5', 'b': '12'}, 'SP', [i_ in (d_, d_ + 1) for i_ in range(12)], 1) for d_ in (3, 4, 5)) + (({'t': 'sS', 'a': '4', 'b': '20'}, 'SP', [False] * 4 + [True] + [False] * 7, 1), ({'t': 'rQ', 'a': '5', 'b': '12'}, 'SP', [False, True, True] + [False] * 9, 1),
											({'t': 'sS', 'a': '2', 'b': '15'}, 'SP', [True, False, False, True, True, False] + [False] * 6, 0), ({'t': 'sS', 'a': '4', 'b': '20'}, 'RP', [False] * 3 + [True, True] + [False] * 7, 2),
											({'t': 'rQ', 'a': '5', 'b': '12'}, 'TP', [False, False, True] + [False] * 9, 2), ({'t': 'sS', 'a': '4', 'b': '20'}, 'OP', [False, True] * 6, 1)):
		spec = {'kind': 'serial', 'labels': [2, 1], 'edges': [[2, 1]], 'T': 12, 'nodes': {
			'2': ns({'t': 'BS', 'a': '100'}, 1, 0, True, None, None, 100),
			'1': ns(cust_pol, slt, 0, False, ['3'], {'type': dis_t, 'list': dis_list}, 20)}}
		rep.count('corpus:lumpy-orders-around-a-pause')
		r = simstream.one_case(rep, drv, 'sim-trace-full', spec, None, None, THEOREM)
		if r is not None:
			visiting(rep, spec, r[0], r[2])
	for k in range(1500 if th else 150):
		spec = simlib.gen_spec(rng, th)
		r = simstream.one_case(rep, drv, 'sim-trace-full', spec, None, None, THEOREM)
		if r is not None:
			visiting(rep, spec, r[0], r[2])
			variants(rep, spec, r[0])

	# random inputs: the trajectory is a function of (network, horizon, seed) - every variant above must reproduce it, for every legal seed (0 included)
	for k in range(500 if th else 60):
		spec = simlib.gen_spec(rng, th, {'prandom': .8})
		r = simstream.one_case(rep, drv, 'sim-trace-full', spec, None, None, THEOREM)
		if r is not None:
			variants(rep, spec, r[0])
			fresh = simlib.run_py(spec)
			if 'error' not in fresh:
				d = simlib.compare_traces(spec, r[0], fresh)
				if d or fresh['total'] != r[0]['total']:
					rep.diff('variants', 'two fresh identical networks simulated with rand_seed=%s follow different trajectories: %s' % (spec.get('seed'), simlib.fmt_diffs(d)), spec,
							 py={'diffs': [list(map(str, x)) for x in d[:8]]}, oracle=True, theorem=THEOREM)

def replay(rep, drv, doc):
	r = simstream.one_case(rep, drv, 'sim-trace-full', doc['case'], None, None, THEOREM)
	if r is not None:
		visiting(rep, doc['case'], r[0], r[2])
		variants(rep, doc['case'], r[0])
