"""C14 - (r,Q): evaluators equal their definitions, Poisson algorithm optimal, approximations solve their equations."""
import random, warnings, math
from fractions import Fraction as F
import numpy as np
import core
from core import fr, frs, unfr, err_enum

TRUSTED = ["rounded regime: the Poisson newsvendor cost values G(y) and the Poisson cdf are taken from the real code / SciPy as exact rationals of the floats; "
		   "the model recomputes the sums and the search exactly; costs compared to 1e-9",
		   "normal-demand cost = integral definition relies on scipy.integrate.quad; the reorder-point equations rely on norm.ppf / fsolve (SciPy): checked numerically "
		   "against independent quadrature / residuals (labelled tests), not modelled",
		   "global optimality of the Federgruen-Zheng search is proved only as 'reports the cost of its pair' + 'stops exactly when the cheaper extension increases the cost'; "
		   "the exhaustive integer window is a labelled test"]
THEOREM = 'Props/C14.list (fz_reports_cost, fzLoop_stops_at_increase, cost_def, bisection_post)'


def run(rep, drv):
	from stockpyl import rq
	from stockpyl.newsvendor import newsvendor_poisson_cost, newsvendor_normal_cost
	from scipy.stats import poisson, norm
	from scipy import integrate
	rng = random.Random(rep.seed + 14)
	th = rep.tier == 'thorough'
	rep.rule = ('random h, p, K, lambda, L: r_q_cost_poisson on windows of integer (r,Q) and r_q_poisson_exact vs the exact model on the same G/cdf tables + exhaustive '
				'integer window; normal-demand r_q_cost vs independent quadrature; r(Q) equalises g(r), g(r+Q) and minimises over r; approximations satisfy their defining '
				'equations. non-trivial = Q >= 2')
	# operation histories: the same item evaluated for several lead times in one process (sensitivity study), then fresh items
	LOWMEAN = [(2, 4, 50, 1, 1), (10, 20, 50, 0.5, 0.1)]
	for h_, p_ in ((2, 4), (10, 20), (1, 9), (3, 3)):
		for K_ in (5, 20, 50):
			for lam_, L_ in ((0.5, 0.1), (1, 0.2), (1, 1), (2, 0.25)):
				qd_ = math.sqrt(2 * K_ * lam_ * (h_ + p_) / (h_ * p_))
				if qd_ - math.floor(qd_) >= 0.5 and len(LOWMEAN) < 14:
					LOWMEAN.append((h_, p_, K_, lam_, L_))
	items = []
	for k in range(400 if th else 60):
		if k % 3 == 0 or not items:
			if rng.random() < .3:
				# stockout cost BELOW the holding cost (critical ratio < 1/2): the newsvendor level lies below the mean lead-time demand
				items.append((rng.choice([5, 10, 20]), rng.choice([0.5, 2, 4]), rng.choice([0.5, 2, 8]), rng.choice([1.5, 4, 6])))
				rep.count('fz:stockout-cost-below-holding-cost')
			else:
				items.append((rng.choice([0.5, 1, 2, 3]), rng.choice([4, 9, 18, 36]), rng.choice([2, 8, 20, 64]), rng.choice([0.5, 1.5, 3, 6])))
		h, p, K, lam = items[-1]
		L = [2, 4, 1, 0.5][k % 3] if k % 3 else rng.choice([1, 2, 0.5])
		if k < len(LOWMEAN):
			# corpus: nearly deterministic lead-time demand (lambda L <= 1) with an EOQB quantity whose fractional part is >= 1/2 -- there the optimal
			# integer Q can be the integer BELOW the continuous-model quantity
			h, p, K, lam, L = LOWMEAN[k]; rep.count('fz:low-mean-corpus')
		mu = lam * L
		hi = int(poisson.ppf(1 - 1e-12, mu)) + 60
		lo = -10
		G = [float(newsvendor_poisson_cost(y, h, p, mu)) if y >= 0 else float(newsvendor_poisson_cost(y, h, p, mu)) for y in range(lo, hi)]
		cdf = [float(poisson.cdf(y, mu)) for y in range(0, hi)]
		case = {'h': h, 'p': p, 'K': K, 'lambda': lam, 'L': L}
		rep.case('r_q_poisson_exact', case, nontrivial=True)
		try:
			with warnings.catch_warnings():
				warnings.simplefilter('ignore')
				r, Q, g = rq.r_q_poisson_exact(h, p, K, lam, L)
			py = (int(r), int(Q), float(g))
		except Exception as e:
			py = 'error:' + err_enum(e)
		mo = drv.call('fz', lo=lo, G=frs(G), cdf=frs(cdf), alpha=fr(p / (p + h)), Klam=fr(K * lam))
		rep.tol_cmp += 1
		bad = []
		# hypothesis of fz_optimal_table (Props/C14Opt.lean), evaluated by the driver on the very table used
		if 'unimodal' in mo:
			rep.count('fz_optimal-hypothesis-unimodal-' + ('true' if mo['unimodal'] else 'FALSE'))
			if not mo['unimodal']:
				rep.diff('r_q_poisson_exact', 'the G table is not unimodal around S: fz_optimal_table does not cover this instance', case, oracle=False, theorem='Props/C14Opt.lean fz_optimal_table')
		if isinstance(py, str):
			bad.append(py)
		else:
			r, Q, g = py
			def c(rr, QQ):
				return (K * lam + sum(G[y - lo] for y in range(rr + 1, rr + QQ + 1))) / QQ
			if Q < 1 or r < lo or r + Q + 12 >= hi:
				bad.append('returned pair (r,Q)=(%d,%d) is not a policy in the range of the table (Q >= 1, %d <= r, r+Q < %d)' % (r, Q, lo, hi))
			else:
				if abs(c(r, Q) - g) > 1e-9 * max(1, abs(g)):
					bad.append('reported cost %r but (r,Q)=(%d,%d) costs %r' % (g, r, Q, c(r, Q)))
				best = min((c(rr, QQ), rr, QQ) for rr in range(max(lo, r - 8), r + 9) for QQ in range(1, Q + 12))
				if best[0] < g - 1e-9 * max(1, abs(g)):
					bad.append('integer pair (%d,%d) costs %r < reported %r' % (best[1], best[2], best[0], g))
			rep.count('fz:Q=%d' % min(Q, 10))
		same = (not isinstance(py, str)) and 'error' not in mo and abs(float(unfr(mo['g'])) - py[2]) <= 1e-9 * max(1, abs(py[2])) and (mo['r'], mo['Q']) == (py[0], py[1])
		if not same or bad:
			rep.diff('r_q_poisson_exact', 'python %s model %s %s' % (py, mo, '; '.join(bad)), case, py=py, model=mo, oracle=bool(bad), theorem=THEOREM if same else None)
		# cost evaluator on a few (r,Q)
		for _ in range(4):
			rr = rng.randint(-3, 12); QQ = rng.randint(1, 9)
			try:
				with warnings.catch_warnings():
					warnings.simplefilter('ignore')
					a = float(rq.r_q_cost_poisson(rr, QQ, h, p, K, lam, L))
			except Exception as e:
				a = None
			m = float(unfr(drv.call('rqcost', lo=lo, G=frs(G), Klam=fr(K * lam), r=rr, Q=QQ)))
			rep.case('r_q_cost_poisson', dict(case, r=rr, Q=QQ), nontrivial=QQ >= 2)
			rep.tol_cmp += 1
			if a is None or abs(a - m) > 1e-9 * max(1, abs(m)):
				rep.diff('r_q_cost_poisson', 'python %r model (sum definition) %r' % (a, m), dict(case, r=rr, Q=QQ), py=a, model=m, oracle=True, theorem=THEOREM)
	# large mean lead-time demand (exp(-mu) is subnormal from about 708 and 0.0 from 746): the Poisson cost is still its defining sum
	for lam_, L_, r_, Q_ in ((450, 2, 880, 40), (365, 2, 700, 57), (1300, 1, 1290, 30), (100, 6.5, 640, 25)):
		mu_ = lam_ * L_; h_, p_, K_ = 1, 9, 2
		ys_ = np.arange(0, int(poisson.ppf(1 - 1e-16, mu_)) + 10)
		pm_ = poisson.pmf(ys_, mu_)
		gdef = lambda y: float(np.sum(pm_ * (h_ * np.maximum(y - ys_, 0) + p_ * np.maximum(ys_ - y, 0))))
		want_ = (K_ * lam_ + sum(gdef(y) for y in range(r_ + 1, r_ + Q_ + 1))) / Q_
		case = {'h': h_, 'p': p_, 'K': K_, 'lambda': lam_, 'L': L_, 'r': r_, 'Q': Q_, 'corpus': 'large mean'}
		rep.case('r_q_cost_poisson', case, nontrivial=True); rep.count('poisson:large-mean'); rep.tol_cmp += 1
		try:
			with warnings.catch_warnings():
				warnings.simplefilter('ignore')
				got_ = float(rq.r_q_cost_poisson(r_, Q_, h_, p_, K_, lam_, L_))
			if abs(got_ - want_) > 1e-7 * max(1, abs(want_)):
				rep.diff('r_q_cost_poisson', 'mean lead-time demand %s: r_q_cost_poisson(%d, %d) = %r, the defining sum gives %r' % (mu_, r_, Q_, got_, want_), case, py=got_, model=want_, oracle=True, theorem=THEOREM)
		except Exception as e:
			rep.diff('r_q_cost_poisson', 'raised %s' % err_enum(e), case, oracle=True, theorem=THEOREM)
	# normal demand: integral definition, r(Q), approximations (SciPy side, labelled tests)
	for k in range(150 if th else 25):
		h = rng.choice([0.5, 1, 2]); p = rng.choice([5, 14, 40]); K = rng.choice([4, 20, 100]); lam = rng.choice([20, 100, 1300]); sd = lam * rng.choice([0.1, 0.2]) ; L = rng.choice([1 / 12, 0.5, 1, 2])
		cheap_stockouts = (k % 3 == 1) if k < 6 else rng.random() < .35          # the first cases run through every regime deterministically
		if cheap_stockouts:
			h = rng.choice([3, 10, 24]); p = rng.choice([0.5, 1, 2])          # holding dearer than stockouts: r(Q) well below the mean, r+Q near it
		SLOW = [(1, 0.1, 50, 100, 30, 1), (1, 4, 20, 100, 60, 4.7), (5, 0.5, 8, 1300, 600, 1), (2, 0.25, 20, 500, 200, 0.5),
				(1, 1, 20, 200, 40, 1), (1, 1.2, 50, 200, 30, 1), (2, 2, 20, 500, 100, 0.5)]          # the last three: stockouts about as cheap as holding, reorder point BELOW the mean lead-time demand
		if 6 <= k < 6 + len(SLOW):
			# corpus: instances on which the fixed-point iterations of the approximations converge slowly (hundreds of passes)
			h, p, K, lam, sd, L = SLOW[k - 6]; cheap_stockouts = p < h; rep.count('normal:slowly-converging-approximation')
		mu = lam * L; sigma = sd * math.sqrt(L)
		case = {'h': h, 'p': p, 'K': K, 'mean': lam, 'sd': sd, 'L': L}
		rep.case('normal', case, nontrivial=True); rep.count('normal:' + ('p<h' if cheap_stockouts else 'p>h'))
		bad = []
		try:
			with warnings.catch_warnings():
				warnings.simplefilter('ignore')
				g = lambda y: h * ((y - mu) * norm.cdf((y - mu) / sigma) + sigma * norm.pdf((y - mu) / sigma)) + p * ((mu - y) * (1 - norm.cdf((y - mu) / sigma)) + sigma * norm.pdf((y - mu) / sigma))
				Q = max(1.0, math.sqrt(2 * K * lam / h)) * rng.choice([0.5, 1, 1.7]); r = mu + sigma * rng.choice([-1, 0, 1, 2])
				where = rng.choice(['near', 'near', 'far-below', 'far-above', 'straddling-wide'])
				if k < 5: where = ['far-below', 'near', 'far-above', 'straddling-wide', 'far-below'][k]
				if where == 'far-below':
					# the whole range (r, r+Q] many standard deviations below the mean lead-time demand (legal: cost of a badly understocked pair)
					Q = max(1.0, sigma * rng.choice([0.5, 2])); r = mu - sigma * rng.choice([10, 14, 30]) - Q
				elif where == 'far-above':
					Q = max(1.0, sigma * rng.choice([0.5, 2])); r = mu + sigma * rng.choice([9, 15])
				elif where == 'straddling-wide':
					r = mu - sigma * 12; Q = sigma * 25
				rep.count('normal:range-' + where)
				cst = rq.r_q_cost(r, Q, h, p, K, lam, sd, L)
				xs = np.linspace(r, r + Q, 4001)
				ref = (K * lam + float(np.trapezoid([g(x) for x in xs], xs))) / Q
				if abs(cst - ref) > 1e-5 * max(1, abs(ref)):
					bad.append('r_q_cost %r but (K lambda + integral of g over (r, r+Q]) / Q = %r' % (cst, ref))
				if abs(float(newsvendor_normal_cost(r, h, p, mu, sigma)) - g(r)) > 1e-8 * max(1, g(r)):
					bad.append('newsvendor_normal_cost != h nbar + p n')
				# r(Q) for the Q above and for small, large and very large batches (in units of sigma and of mu)
				for Qx in (Q, sigma * rng.choice([0.3, 1, 3]), sigma * rng.choice([10, 25, 60]), sigma * rng.choice([100, 400]), mu * rng.choice([2, 5])):
					if Qx <= 0: continue
					rr = rq.r_q_optimal_r_for_q(Qx, h, p, lam, sd, L)
					if abs(g(rr) - g(rr + Qx)) > 1e-5 * max(1, g(rr)):
						bad.append('Q=%r: r(Q)=%r does not equalise g(r)=%r and g(r+Q)=%r' % (Qx, rr, g(rr), g(rr + Qx)))
					c0 = rq.r_q_cost(rr, Qx, h, p, K, lam, sd, L)
					for dr in (-0.05 * Qx, 0.05 * Qx, -0.3 * Qx, 0.3 * Qx, -sigma, sigma):
						if rq.r_q_cost(rr + dr, Qx, h, p, K, lam, sd, L) < c0 - 1e-7 * max(1, c0):
							bad.append('Q=%r: r(Q)=%r does not minimise the cost over r (r %+g is cheaper)' % (Qx, rr, dr))
							break
				# the documented meaning of the option `tol`: |g(r) - g(r+Q)| <= tol, for tolerances tighter than the default too
				for tol_ in (1e-8, 1e-10):
					rt = rq.r_q_optimal_r_for_q(Q, h, p, lam, sd, L, tol=tol_)
					if abs(g(rt) - g(rt + Q)) > tol_ * 1.000001 + 1e-12 * max(1, g(rt)):
						bad.append('r_q_optimal_r_for_q(Q=%r, tol=%g) = %r leaves |g(r) - g(r+Q)| = %g' % (Q, tol_, rt, abs(g(rt) - g(rt + Q))))
				r3, Q3 = rq.r_q_eoqb_approximation(h, p, K, lam, sd, L)
				if abs(Q3 - math.sqrt(2 * K * lam * (h + p) / (h * p))) > 1e-9 * Q3 or abs(g(r3) - g(r3 + Q3)) > 1e-5 * max(1, g(r3)):
					bad.append('EOQB approximation wrong: r=%r Q=%r g(r)=%r g(r+Q)=%r' % (r3, Q3, g(r3), g(r3 + Q3)))
				if cheap_stockouts:
					# of the remaining approximations only the loss-function one has a solution for p < h
					r4, Q4 = rq.r_q_loss_function_approximation(h, p, K, lam, sd, L)
					z4 = (r4 - mu) / sigma
					n1_4 = sigma * (norm.pdf(z4) - z4 * (1 - norm.cdf(z4)))
					n2_4 = 0.5 * sigma ** 2 * ((z4 * z4 + 1) * (1 - norm.cdf(z4)) - z4 * norm.pdf(z4))
					if abs(n1_4 - h * Q4 / (h + p)) > 2e-5 or abs(Q4 - math.sqrt(2 * (K * lam + (h + p) * n2_4) / h)) > 1e-4 * max(1, Q4):
						bad.append('loss-function approximation (r=%r, Q=%r) does not satisfy its defining equations: n(r)=%r vs hQ/(h+p)=%r' % (r4, Q4, n1_4, h * Q4 / (h + p)))
					raise StopIteration
				# approximations solve their own defining equations
				r1, Q1, c1 = rq.r_q_eil_approximation(h, p, K, lam, sd, L)
				n1 = sigma * (norm.pdf((r1 - mu) / sigma) - (r1 - mu) / sigma * (1 - norm.cdf((r1 - mu) / sigma)))
				if abs(1 - norm.cdf((r1 - mu) / sigma) - Q1 * h / (p * lam)) > 1e-5 or abs(Q1 - math.sqrt(2 * lam * (K + p * n1) / h)) > 1e-4 * max(1, Q1):
					bad.append('EIL approximation does not satisfy its defining equations')
				# ... and reports the cost (5.16) of the pair it returns, whatever the sign of the safety stock r - lambda L
				g16 = h * (r1 - mu + Q1 / 2) + K * lam / Q1 + p * lam * n1 / Q1
				if abs(c1 - g16) > 1e-8 * max(1, abs(g16)):
					bad.append('EIL approximation reports cost %r for (r=%r, Q=%r); equation (5.16) gives %r' % (c1, r1, Q1, g16))
				rep.count('normal:eil-reorder-point-' + ('below' if r1 < mu else 'above') + '-mean')
				r2, Q2 = rq.r_q_eoqss_approximation(h, p, K, lam, sd, L)
				if abs(Q2 - math.sqrt(2 * K * lam / h)) > 1e-9 * Q2 or abs(norm.cdf((r2 - mu) / sigma) - p / (p + h)) > 1e-9:
					bad.append('EOQ+SS approximation wrong')
				# loss-function approximation: Q = sqrt(2[K lambda + (h+p) n2(r)]/h), n(r) = hQ/(h+p), with n, n2 the normal first/second-order losses
				r4, Q4 = rq.r_q_loss_function_approximation(h, p, K, lam, sd, L)
				z4 = (r4 - mu) / sigma
				n1_4 = sigma * (norm.pdf(z4) - z4 * (1 - norm.cdf(z4)))
				n2_4 = 0.5 * sigma ** 2 * ((z4 * z4 + 1) * (1 - norm.cdf(z4)) - z4 * norm.pdf(z4))
				if abs(n1_4 - h * Q4 / (h + p)) > 2e-5 or abs(Q4 - math.sqrt(2 * (K * lam + (h + p) * n2_4) / h)) > 1e-4 * max(1, Q4):
					bad.append('loss-function approximation (r=%r, Q=%r) does not satisfy its defining equations: n(r)=%r vs hQ/(h+p)=%r; Q vs %r' % (
						r4, Q4, n1_4, h * Q4 / (h + p), math.sqrt(2 * (K * lam + (h + p) * n2_4) / h)))
		except StopIteration:
			pass
		except Exception as e:
			import traceback
			bad.append('raised %s %s' % (err_enum(e), traceback.format_exc()[-200:]))
		if bad:
			rep.diff('normal', '; '.join(bad[:3]), case, py=bad, oracle=True, theorem=THEOREM)

	H = core.one_argument_histories
	calls = []
	for kw in H(dict(holding_cost=2, stockout_cost=9, fixed_cost=20, demand_mean=3, lead_time=1.5), ['holding_cost', 'stockout_cost', 'fixed_cost', 'demand_mean', 'lead_time']):
		calls.append(('stockpyl.rq', 'r_q_poisson_exact', (), kw))
	for kw in H(dict(reorder_point=4, order_quantity=6, holding_cost=2, stockout_cost=9, fixed_cost=20, demand_mean=3, lead_time=1.5), ['reorder_point', 'order_quantity', 'fixed_cost', 'demand_mean'],
				lambda k, v: v + 2 if k in ('reorder_point', 'order_quantity') else v * 1.5 + 1):
		calls.append(('stockpyl.rq', 'r_q_cost_poisson', (), kw))
	for fn in ('r_q_eil_approximation', 'r_q_eoqb_approximation', 'r_q_eoqss_approximation', 'r_q_loss_function_approximation'):
		for kw in H(dict(holding_cost=0.225, stockout_cost=7.5, fixed_cost=8, demand_mean=1300, demand_sd=150, lead_time=1 / 12), ['stockout_cost', 'fixed_cost', 'demand_sd', 'lead_time']):
			calls.append(('stockpyl.rq', fn, (), kw))
	for kw in H(dict(order_quantity=300, holding_cost=0.225, stockout_cost=7.5, demand_mean=1300, demand_sd=150, lead_time=1 / 12), ['order_quantity', 'stockout_cost', 'demand_sd']):
		calls.append(('stockpyl.rq', 'r_q_optimal_r_for_q', (), kw))
	for kw in H(dict(reorder_point=130, order_quantity=300, holding_cost=0.225, stockout_cost=7.5, fixed_cost=8, demand_mean=1300, demand_sd=150, lead_time=1 / 12), ['reorder_point', 'fixed_cost', 'demand_sd']):
		calls.append(('stockpyl.rq', 'r_q_cost', (), kw))
	core.history_check(rep, 'call-history', calls, theorem=THEOREM)


def replay(rep, drv, doc):
	print('replaying the quick stream; recorded case:', doc['stream'], doc['case'])
	run(rep, drv)
