"""C07 - SSM serial optimiser: minimising levels and their true expected cost."""
import random, warnings, math, itertools
from fractions import Fraction as F
import numpy as np
import core
from core import fr, frs, unfr, err_enum

TRUSTED = ["rounded regime, discrete demand (Poisson / discrete uniform / integer custom discrete) on the integer grid the code builds: the grid bounds and the per-stage "
		   "lead-time-demand tables (d, fd) are re-derived in the harness from SciPy exactly as the code documents them and passed to the model as exact rationals; "
		   "S* compared exactly (or by objective value on ties), costs to 1e-9",
		   "that the Chen-Zheng nested expectation IS the long-run expected cost of the stochastic system (Clark-Scarf decomposition) is not formalised: it is cross-checked "
		   "by an independent top-down evaluator in the harness (echelon inventory distributions propagated from the source downstream) - a labelled test",
		   "normal demand (continuous grid, find_nearest interpolation) is exercised Python-side only (coherence, one-stage newsvendor, renumbering); Shang-Song bounds per instance"]
THEOREM = 'Props/C07.list (stage_argmin, eval_is_opt_with_fixed_S, one_stage_newsvendor)'


def close(a, b, tol=1e-9):
	import math as _m
	if not (_m.isfinite(float(a)) and _m.isfinite(float(b))):
		return float(a) == float(b)          # an infinite value is close to nothing finite
	return abs(float(a) - float(b)) <= tol * max(1.0, abs(float(a)), abs(float(b)))


def ltd_table(ds, L, lower, upper):
	"""(d, fd) of stage lead-time demand as ssm_serial builds it for discrete demand."""
	dist = ds.lead_time_demand_distribution(L)
	d_lo = max(dist.ppf(lower), 0.0) if dist.a == float('-inf') else max(dist.interval(1)[0], 0.0)
	d_hi = max(dist.ppf(1.0 - upper), d_lo) if dist.b == float('inf') else max(dist.interval(1)[1], d_lo)
	d_lo = round(d_lo); num = round(d_hi - d_lo)
	d = [i + d_lo for i in range(num + 1) if (dist.cdf(i + 0.5 + d_lo) if i != num else 1.0) > (dist.cdf(i - 0.5 + d_lo) if i else 0.0)]
	fd = [(dist.cdf(d[k] + 0.5) if k + 1 != len(d) else 1.0) - (dist.cdf(d[k] - 0.5) if k else 0.0) for k in range(len(d))]
	return [int(v) for v in d], [float(v) for v in fd]


def forward_cost(S, h, Ls, p, ds):
	"""Independent top-down evaluation: echelon inventory IN_N = S_N - D_N, IN_j = min(S_j, IN_{j+1}) - D_j;
	cost = sum_j h_j E[IN_j] + (p + sum h) E[IN_1^-]. Stages 1..N (1 downstream); pmfs as dicts on integers."""
	N = len(S)
	def one_period():
		# finite-support sources: the one-period pmf straight from the attributes the user gave (whatever the order of the list)
		if ds.type == 'UD':
			return {d: 1.0 / (ds.hi - ds.lo + 1) for d in range(int(ds.lo), int(ds.hi) + 1)}
		if ds.type == 'CD':
			out = {}
			for v, q in zip(ds.demand_list, ds.probabilities):
				out[int(v)] = out.get(int(v), 0.0) + float(q)
			return out
		return None
	def ltd_pmf(L):
		p1 = one_period()
		if p1 is not None:
			cur = {0: 1.0}
			for _ in range(int(L)):
				nxt = {}
				for a_, qa in cur.items():
					for b_, qb in p1.items():
						nxt[a_ + b_] = nxt.get(a_ + b_, 0.0) + qa * qb
				cur = nxt
			return cur
		dist = ds.lead_time_demand_distribution(L)
		hi = int(dist.ppf(1 - 1e-13)) + 2 if dist.b == float('inf') else int(dist.interval(1)[1])
		lo = int(max(dist.interval(1)[0], 0)) if dist.a != float('-inf') else 0
		return {d: float(dist.pmf(d)) for d in range(lo, hi + 1) if dist.pmf(d) > 0}
	cur = None
	cost = 0.0
	for j in range(N, 0, -1):
		dp = ltd_pmf(Ls[j - 1]) if Ls[j - 1] > 0 else {0: 1.0}
		start = {S[j - 1]: 1.0} if cur is None else {}
		if cur is not None:
			for v, q in cur.items():
				k = min(S[j - 1], v); start[k] = start.get(k, 0.0) + q
		nxt = {}
		for v, q in start.items():
			for d, qd in dp.items():
				nxt[v - d] = nxt.get(v - d, 0.0) + q * qd
		cur = nxt
		cost += h[j - 1] * sum(v * q for v, q in cur.items())
	cost += (p + sum(h)) * sum(-v * q for v, q in cur.items() if v < 0)
	return cost


# Corpus: fixed instances that run first in both tiers - the situations earlier seeded changes and defects needed
CORPUS_DISCRETE = [
	{'N': 2, 'h': [1, 4], 'Ls': [3, 1], 'p': 2, 'kind': 'P', 'mean': 5},                      # upstream echelon costly RELATIVE TO THE STOCKOUT COST: upstream minimiser below the downstream optimum
	{'N': 3, 'h': [1, 6, 1], 'Ls': [2, 1, 1], 'p': 3, 'kind': 'P', 'mean': 5},
	{'N': 2, 'h': [1, 1], 'Ls': [1, 1], 'p': 5, 'kind': 'P', 'mean': 2, 'cands': [[0, 5], [0, 0], [3, 0]]},     # an echelon level of exactly 0 is a level, not "missing"
	{'N': 2, 'h': [1, 2], 'Ls': [1, 3], 'p': 20, 'kind': 'UD', 'lo': 8, 'hi': 12,              # unequal lead times, stage 2 evaluated below the internal grid
	 'cands': [[12, 20], [12, 14], [6, 10], [12, 70], [40, 90]]},          # ... and far ABOVE it (levels beyond the default inventory grid)
	{'N': 3, 'h': [3, 2, 1], 'Ls': [1, 2, 1], 'p': 30, 'kind': 'CD', 'vals': [4, 5, 6, 7], 'probs': [0.2, 0.4, 0.3, 0.1],
	 'cands': [[6, 12, 15], [6, 9, 10], [3, 4, 5]]},
	{'N': 2, 'h': [1, 2], 'Ls': [1, 2], 'p': 9, 'kind': 'CD', 'vals': [6, 0, 9, 2], 'probs': [0.1, 0.5, 0.1, 0.3]},      # a demand list in no particular order
	{'N': 1, 'h': [1], 'Ls': [2], 'p': 9, 'kind': 'CD', 'vals': [995, 1000, 1005], 'probs': [0.25, 0.5, 0.25]},            # demand in the thousands: an inventory grid of more than 2000 integer points
]
CORPUS_NORMAL = [
	{'N': 1, 'h': [1], 'Ls': [2], 'p': 10, 'mean': 20, 'sd': 1},      # same mean and lead time, different spread, in one process (a cache keyed without the spread)
	{'N': 1, 'h': [1], 'Ls': [2], 'p': 10, 'mean': 20, 'sd': 4},
	{'N': 2, 'h': [2, 1], 'Ls': [2, 1], 'p': 10, 'mean': 20, 'sd': 2},
]


def discrete_case(rep, drv, rng, th, fixed=None):
	from stockpyl import ssm_serial
	from stockpyl.demand_source import DemandSource
	from scipy import stats
	if fixed:
		# corpus case: fixed parameters (minimised past failures and seeded changes), run before the random stream
		N = fixed['N']; h = list(fixed['h']); Ls = list(fixed['Ls']); p = fixed['p']; kind = fixed['kind']
		if kind == 'P': ds = DemandSource(type='P', mean=fixed['mean'])
		elif kind == 'UD': ds = DemandSource(type='UD', lo=fixed['lo'], hi=fixed['hi'])
		else: ds = DemandSource(type='CD', demand_list=list(fixed['vals']), probabilities=list(fixed['probs']))
		rep.count('ssm:corpus-case')
	else:
		N = rng.randint(1, 4 if th else 3)
		h = [rng.choice([1, 2, 3, 0.5]) for _ in range(N)]          # echelon holding costs, stage 1 first
		if N >= 2 and rng.random() < .35:
			# a costly upstream echelon: the upstream cost function is then minimised BELOW the downstream optimum
			h[rng.randrange(1, N)] = rng.choice([4, 8]); rep.count('ssm:costly-upstream-echelon')
		Ls = [rng.choice([1, 1, 2, 3]) for _ in range(N)]
		p = rng.choice([5, 10, 37.12, 20, 2])
		kind = rng.choice(['P', 'P', 'UD', 'CD'])
		if kind == 'P':
			ds = DemandSource(type='P', mean=rng.choice([2, 5, 8]))
		elif kind == 'UD':
			lo = rng.randint(0, 3); ds = DemandSource(type='UD', lo=lo, hi=lo + rng.randint(1, 6))
		else:
			ds = DemandSource(type='CD', demand_list=[0, 2, 5, 9], probabilities=[0.25, 0.25, 0.25, 0.25])
	case = {'N': N, 'h': h, 'L': Ls, 'p': p, 'demand': kind, 'ds': {k: str(v) for k, v in ds.to_dict().items() if v is not None}}
	rep.case('ssm-discrete', case, nontrivial=N >= 2); rep.count('ssm:N=%d' % N); rep.count('ssm:' + kind)
	kw = dict(num_nodes=N, echelon_holding_cost={j + 1: h[j] for j in range(N)}, lead_time={j + 1: Ls[j] for j in range(N)}, stockout_cost=p, demand_source=ds)
	try:
		with warnings.catch_warnings():
			warnings.simplefilter('ignore')
			# demand_mean / demand_standard_deviation are documented as ignored when a demand_source is given: stale values passed next to it
			# (an instance read off a network generically) change nothing -- decided by a function of the instance, in every second case
			kw_call = dict(kw)
			if (N + int(p) + sum(Ls) + len(kind)) % 2 == 0:
				kw_call.update(demand_mean=float(ds.demand_distribution.mean()) + 7, demand_standard_deviation=2.5)
				rep.count('ssm:stale-moments-next-to-a-demand-source')
			S_star, C_star = ssm_serial.optimize_base_stock_levels(**kw_call)
	except Exception as e:
		import traceback
		rep.diff('ssm-discrete', 'raised %s: %s' % (err_enum(e), traceback.format_exc()[-250:]), case, oracle=True, theorem=THEOREM); return
	# model inputs as the code documents them
	lower = 1 - stats.norm.cdf(4); upper4 = 1 - stats.norm.cdf(4); upper8 = 1 - stats.norm.cdf(8)
	sdist = ds.lead_time_demand_distribution(sum(Ls))
	s_lo = sdist.ppf(lower) if sdist.a == float('-inf') else sdist.interval(1)[0]
	s_hi = sdist.ppf(1 - upper8) if sdist.b == float('inf') else sdist.interval(1)[1]
	x_lo = round(s_lo - s_hi); n = round(s_hi - x_lo)
	stages = []
	for j in range(N):
		d, fd = ltd_table(ds, Ls[j], lower, upper4)
		stages.append({'h': fr(h[j]), 'L': Ls[j], 'd': d, 'fd': frs(fd)})
	mu = float(ds.demand_distribution.mean())
	mo = drv.call('ssm', p=fr(p), mu=fr(mu), xlo=int(x_lo), n=int(n), stages=stages)
	if '__err__' in mo:
		raise core.Infra(str(mo))
	rep.tol_cmp += 1
	pyS = [int(S_star[j + 1]) for j in range(N)]
	bad = []
	same = close(C_star, unfr(mo['cost']))
	if pyS != mo['S']:
		# ties in the argmin are legitimate only if the objective agrees
		ev = drv.call('ssm', p=fr(p), mu=fr(mu), xlo=int(x_lo), n=int(n), stages=stages, fixed=pyS)
		if not close(unfr(ev['cost']), unfr(mo['cost'])):
			same = False
	# independent oracle: top-down expected cost of the returned levels, and no better vector nearby
	# documented truncation: each stage's lead-time demand is cut at the 1-Phi(4) upper tail (mass 3.2e-5 lumped at the last point)
	trunc = 2e-4 * (p + sum(h)) * N + 1e-6
	ref = forward_cost(pyS, h, Ls, p, ds)
	if abs(ref - C_star) > trunc:
		bad.append('reported optimum %r but the expected cost of operating S*=%s is %r (top-down evaluation)' % (C_star, pyS, ref))
	if N <= 3:
		best = (ref, pyS)
		for delta in itertools.product((-2, -1, 0, 1, 2), repeat=N):
			cand = [pyS[j] + delta[j] for j in range(N)]
			c = forward_cost(cand, h, Ls, p, ds)
			if c < best[0] - 1e-7 * max(1, abs(best[0])):
				best = (c, cand)
		if best[1] != pyS:
			bad.append('level vector %s costs %r < cost %r of the returned levels %s' % (best[1], best[0], ref, pyS))
	# expected_cost of an arbitrary vector = model evaluation mode = top-down evaluation
	cands = [[pyS[j] + rng.randint(-3, 3) for j in range(N)]]
	if N >= 2:
		# the coarse global grid: upstream stages (or all stages) heavily understocked, levels still positive - the region in which
		# the code evaluates stage j >= 2 below its internal inventory grid
		f = rng.choice([0.3, 0.45, 0.6])
		cands.append([pyS[0]] + [max(1, int(round(pyS[j] * f))) for j in range(1, N)])
		cands.append([max(1, int(round(pyS[j] * f))) for j in range(N)])
		rep.count('ssm:understocked-vectors-evaluated', 2)
	if fixed and fixed.get('cands'):
		cands += [list(c) for c in fixed['cands']]
	for cand in cands:
		try:
			with warnings.catch_warnings():
				warnings.simplefilter('ignore')
				ec = ssm_serial.expected_cost({j + 1: cand[j] for j in range(N)}, **kw)
			ev = drv.call('ssm', p=fr(p), mu=fr(mu), xlo=int(x_lo), n=int(max(n, max(cand) - x_lo)), stages=stages, fixed=cand)
			fc = forward_cost(cand, h, Ls, p, ds)
			if abs(ec - fc) > trunc * max(1.0, abs(fc) / 100):
				bad.append('expected_cost(%s) = %r but operating those levels costs %r' % (cand, ec, fc))
			if not close(ec, unfr(ev['cost'])):
				same = False
				bad_eval = 'expected_cost(%s): python %r, model evaluation %r' % (cand, ec, float(unfr(ev['cost'])))
				rep.count('ssm:eval-mismatch')
			# expected_holding_cost = the same evaluation with the stockout cost set to 0
			with warnings.catch_warnings():
				warnings.simplefilter('ignore')
				ehc = ssm_serial.expected_holding_cost({j + 1: cand[j] for j in range(N)}, **kw)
			ev0 = drv.call('ssm', p='0', mu=fr(mu), xlo=int(x_lo), n=int(max(n, max(cand) - x_lo)), stages=stages, fixed=cand)
			fc0 = forward_cost(cand, h, Ls, 0, ds)
			if abs(ehc - fc0) > trunc * max(1.0, abs(fc0) / 100):
				bad.append('expected_holding_cost(%s) = %r but the holding cost of operating those levels is %r' % (cand, ehc, fc0))
			if not close(ehc, unfr(ev0['cost'])):
				same = False
				rep.count('ssm:holding-eval-mismatch')
		except Exception as e:
			bad.append('expected_cost raised %s' % err_enum(e))
	# Shang-Song newsvendor bounds bracket every optimal level (all supported demand types)
	try:
		with warnings.catch_warnings():
			warnings.simplefilter('ignore')
			Sl = ssm_serial.newsvendor_heuristic(weight=1, **kw); Su = ssm_serial.newsvendor_heuristic(weight=0, **kw)
		rep.count('ssm:bounds-checked:' + kind)
		for j in range(1, N + 1):
			a_, b_ = min(Sl[j], Su[j]), max(Sl[j], Su[j])
			if not (a_ - 1e-9 <= pyS[j - 1] <= b_ + 1e-9):
				# an optimal level outside the bounds is a violation only if no level INSIDE them is equally good (ties)
				alt = [forward_cost(pyS[:j - 1] + [x_] + pyS[j:], h, Ls, p, ds) for x_ in range(int(math.ceil(a_ - 1e-9)), int(math.floor(b_ + 1e-9)) + 1)]
				if not alt or min(alt) > ref + 1e-7 * max(1, abs(ref)):
					bad.append('Shang-Song bounds [%r, %r] do not bracket S*_%d = %d' % (a_, b_, j, pyS[j - 1]))
	except Exception as e:
		bad.append('newsvendor_heuristic raised %s: %s' % (err_enum(e), str(e)[:100]))
	# one stage = newsvendor
	if N == 1 and kind == 'P':
		from stockpyl.newsvendor import newsvendor_poisson
		Snv, cnv = newsvendor_poisson(h[0], p, mu * Ls[0])
		if abs(cnv - C_star) > trunc:
			bad.append('one-stage system: S*=%s cost %r, newsvendor S=%s cost %r' % (pyS[0], C_star, Snv, cnv))
	# renumbering / network form
	try:
		with warnings.catch_warnings():
			warnings.simplefilter('ignore')
			order = rng.sample(range(10, 40), N)       # downstream first -> labels
			S2, C2 = ssm_serial.optimize_base_stock_levels(num_nodes=N, node_order_in_system=list(reversed(order)),
					echelon_holding_cost={order[j]: h[j] for j in range(N)}, lead_time={order[j]: Ls[j] for j in range(N)}, stockout_cost=p, demand_source=ds)
		if not close(C2, C_star) or [int(S2[order[j]]) for j in range(N)] != pyS:
			bad.append('renumbering the nodes changed the answer: %s cost %r vs %s cost %r' % ([S2[order[j]] for j in range(N)], C2, pyS, C_star))
	except Exception as e:
		bad.append('renumbered instance raised %s: %s' % (err_enum(e), str(e)[:100]))
	# network form: the same instance passed as a SupplyChainNetwork with arbitrary node indices (optimise and evaluate)
	try:
		from stockpyl.supply_chain_network import serial_system
		with warnings.catch_warnings():
			warnings.simplefilter('ignore')
			lab = rng.sample(range(0, 40), N)          # downstream first
			up_first = list(reversed(lab))
			loc = {lab[j]: sum(h[j:]) for j in range(N)}
			net = serial_system(N, node_order_in_system=up_first, echelon_holding_cost={lab[j]: h[j] for j in range(N)}, local_holding_cost=loc,
								stockout_cost={lab[j]: (p if j == 0 else 0) for j in range(N)}, shipment_lead_time={lab[j]: Ls[j] for j in range(N)},
								demand_source={lab[j]: (ds if j == 0 else None) for j in range(N)}, policy_type='BS', base_stock_level=0)
			if fixed or rng.random() < .5:
				# the same network built by hand, nodes and edges added in an arbitrary order (the order of network.nodes carries no meaning)
				from stockpyl.supply_chain_network import SupplyChainNetwork
				from stockpyl.supply_chain_node import SupplyChainNode
				from stockpyl.policy import Policy
				net = SupplyChainNetwork()
				js = list(range(N)); rng.shuffle(js)
				if fixed:
					js = list(range(N))          # corpus cases: customer-facing node first
				for j in js:
					nd_ = SupplyChainNode(lab[j], echelon_holding_cost=h[j], local_holding_cost=loc[lab[j]], stockout_cost=(p if j == 0 else 0),
										  shipment_lead_time=Ls[j], demand_source=(ds if j == 0 else None), supply_type=('U' if j == N - 1 else None))
					nd_.inventory_policy = Policy(type='BS', base_stock_level=0, node=nd_)
					net.add_node(nd_)
				es = [(lab[j + 1], lab[j]) for j in range(N - 1)]; rng.shuffle(es)
				for a_, b_ in es:
					net.add_edge(a_, b_)
				rep.count('ssm:network-form-hand-built:' + ('upstream-first' if js == sorted(js, reverse=True) else 'other-order'))
			S3, C3 = ssm_serial.optimize_base_stock_levels(network=net)
			ec3 = ssm_serial.expected_cost({lab[j]: pyS[j] for j in range(N)}, network=net)
			ecp = ssm_serial.expected_cost({j + 1: pyS[j] for j in range(N)}, **kw)
		if not close(C3, C_star) or [int(S3[lab[j]]) for j in range(N)] != pyS:
			bad.append('network form (indices %s): S*=%s cost %r, parameter form %s cost %r' % (lab, [S3[lab[j]] for j in range(N)], C3, pyS, C_star))
		if not close(ec3, ecp):
			bad.append('expected_cost of the same levels: network form (indices %s) %r, parameter form %r' % (lab, ec3, ecp))
		rep.count('ssm:network-form-checked')
	except Exception as e:
		bad.append('network form raised %s: %s' % (err_enum(e), str(e)[:100]))
	if not same or bad:
		rep.diff('ssm-discrete', 'python S*=%s cost %r; model S*=%s cost %r %s' % (pyS, C_star, mo['S'], float(unfr(mo['cost'])), '; '.join(bad[:3])), case,
				 py=[pyS, C_star], model=mo, oracle=bool(bad), theorem=THEOREM if same else None)


def normal_case(rep, rng, multi=False, fixed=None):
	from stockpyl import ssm_serial
	from stockpyl.newsvendor import newsvendor_normal
	N = rng.randint(2, 3) if multi else rng.randint(1, 3)
	h = [rng.choice([1, 2, 3]) for _ in range(N)]; Ls = [rng.choice([1, 2, 3]) for _ in range(N)]; p = rng.choice([10, 37.12]); mean, sd = rng.choice([5, 20, 50]), rng.choice([1, 2])
	if multi and len(set(Ls)) == 1:
		Ls[rng.randrange(N)] = Ls[0] % 3 + 1          # stage lead times that differ (the below-grid approximation sums them stage by stage)
	if fixed:
		N, h, Ls, p, mean, sd = fixed['N'], list(fixed['h']), list(fixed['Ls']), fixed['p'], fixed['mean'], fixed['sd']
	case = {'N': N, 'h': h, 'L': Ls, 'p': p, 'mean': mean, 'sd': sd}
	rep.case('ssm-normal', case, nontrivial=N >= 2)
	kw = dict(num_nodes=N, echelon_holding_cost={j + 1: h[j] for j in range(N)}, lead_time={j + 1: Ls[j] for j in range(N)}, stockout_cost=p, demand_mean=mean, demand_standard_deviation=sd)
	bad = []
	try:
		with warnings.catch_warnings():
			warnings.simplefilter('ignore')
			S, C = ssm_serial.optimize_base_stock_levels(**kw)
			ec = ssm_serial.expected_cost(S, **kw)
			if not close(ec, C, 2e-2):
				bad.append('reported optimum %r != expected_cost of the returned levels %r' % (C, ec))
			if N == 1:
				Snv, cnv = newsvendor_normal(h[0], p, mean, sd, lead_time=Ls[0] - 1)
				if abs(Snv - S[1]) > 0.05 * sd * math.sqrt(Ls[0]) + 0.2 or not close(cnv, C, 2e-2):
					bad.append('one stage: S*=%r cost %r, newsvendor %r cost %r' % (S[1], C, Snv, cnv))
			Sh = ssm_serial.newsvendor_heuristic(**kw)
			lo_hi = None
			try:
				Sl = ssm_serial.newsvendor_heuristic(weight=0, **kw); Su = ssm_serial.newsvendor_heuristic(weight=1, **kw)
				for j in range(1, N + 1):
					a, b = min(Sl[j], Su[j]), max(Sl[j], Su[j])
					if not (a - 0.5 * sd <= S[j] <= b + 0.5 * sd):
						bad.append('Shang-Song bounds [%r,%r] do not bracket S*_%d=%r' % (a, b, j, S[j]))
			except TypeError:
				pass
	except Exception as e:
		import traceback
		bad.append('raised %s: %s' % (err_enum(e), traceback.format_exc()[-200:]))
	# expected_cost of candidate vectors near and far below the optimum (positive levels on a coarse global grid) vs an independent
	# evaluation of the echelon recursion IN_N = S_N - D_N, IN_j = min(S_j, IN_{j+1}) - D_j by seeded sampling (labelled test, 3% band)
	if N >= 2 and not bad:
		try:
			tot = mean * sum(Ls)
			vecs = [{j: S[j] for j in S}]
			vecs.append({j: S[j] - rng.choice([0.2, 0.35, 0.5]) * mean * sum(Ls[:j]) for j in S})      # understocked everywhere, still nondecreasing upstream
			vecs.append({j: (S[j] - rng.choice([0.3, 0.5]) * tot if j == N else S[j]) for j in S})          # only the source stage starved
			g = np.random.default_rng(12345)
			M = 400000
			for vec in vecs:
				if any(v <= 0 for v in vec.values()):
					continue
				with warnings.catch_warnings():
					warnings.simplefilter('ignore')
					ec = float(ssm_serial.expected_cost(vec, **kw))
				cur = None; cost = 0.0
				for j in range(N, 0, -1):
					d = g.normal(mean * Ls[j - 1], sd * math.sqrt(Ls[j - 1]), M)
					start = np.full(M, float(vec[j])) if cur is None else np.minimum(vec[j], cur)
					cur = start - d
					cost += h[j - 1] * float(cur.mean())
				cost += (p + sum(h)) * float(np.maximum(-cur, 0).mean())
				rep.count('ssm-normal:vectors-evaluated')
				if abs(ec - cost) > 0.03 * abs(cost) + 0.5:
					bad.append('expected_cost(%s) = %r but operating those levels costs %.4f (independent evaluation)' % ({k: round(float(v), 2) for k, v in vec.items()}, ec, cost))
		except Exception as e:
			bad.append('evaluation raised %s' % err_enum(e))
	if bad:
		rep.diff('ssm-normal', '; '.join(bad[:3]), case, oracle=True, theorem=THEOREM)


def run(rep, drv):
	th = rep.tier == 'thorough'
	rep.rule = ('serial systems with 1-%d stages, echelon holding costs, lead times 1-3, Poisson / discrete-uniform / custom-discrete demand: optimiser vs the exact model of the '
				'Chen-Zheng recursion on the code\'s own grid and lead-time-demand tables; top-down expected-cost evaluator for the returned and neighbouring level vectors; '
				'expected_cost of arbitrary vectors; one stage = newsvendor; renumbering; normal demand coherence and Shang-Song bounds. non-trivial = N >= 2' % (4 if th else 3))
	rng = random.Random(rep.seed + 7)
	for fx in CORPUS_DISCRETE:
		discrete_case(rep, drv, rng, th, fixed=fx)
	for fx in CORPUS_NORMAL:
		normal_case(rep, random.Random(1), fixed=fx)
	for k in range(150 if th else 20):
		discrete_case(rep, drv, rng, th)
	rngn = random.Random(rep.seed + 70)          # own stream: changes to the discrete generator do not move these cases
	for k in range(40 if th else 7):
		normal_case(rep, rngn, multi=(k % 4 != 3))


def replay(rep, drv, doc):
	print('replaying the quick stream; recorded case:', doc['stream'], doc['case'])
	run(rep, drv)
