"""C17 - networks survive serialisation unchanged; instance file behaves like a map; CSV cells carry their labels."""
import random, json, os, copy, csv, tempfile, shutil, warnings, io, contextlib, math
from fractions import Fraction as F
import core, simlib, mplib
from core import fr, unfr, err_enum

TRUSTED = ["the `json` module and the int<->string conversion of dict keys are black boxes (keys_roundtrip is proved for any codec whose decoder inverts its encoder)",
		   "deep equality of reloaded networks and equality of their simulated trajectories are evaluated on the real objects (Python-vs-Python); the Lean "
		   "model covers the instance store (refinement to a finite map), the key codec law and the header/row alignment of the results table"]
THEOREM = 'Props/C17.list (store_refines_map, keys_roundtrip, table_aligned)'

STATE_FIELDS = ['inventory_level', 'inbound_shipment_pipeline', 'inbound_shipment', 'inbound_order_pipeline', 'inbound_order', 'outbound_shipment',
				'on_order_by_predecessor', 'backorders_by_successor', 'outbound_disrupted_items', 'inbound_disrupted_items', 'order_quantity',
				'raw_material_inventory', 'order_quantity_fg', 'pending_finished_goods', 'demand_cumul', 'demand_met_from_stock',
				'demand_met_from_stock_cumul', 'fill_rate', 'disrupted', 'holding_cost_incurred', 'stockout_cost_incurred',
				'in_transit_holding_cost_incurred', 'revenue_earned', 'total_cost_incurred']

NODE_ATTRS = ['local_holding_cost', 'echelon_holding_cost', 'in_transit_holding_cost', 'stockout_cost', 'revenue', 'shipment_lead_time',
			  'order_lead_time', 'initial_inventory_level', 'initial_orders', 'initial_shipments', 'supply_type', 'order_capacity',
			  'processing_time', 'external_inbound_cst', 'external_outbound_cst', 'demand_bound_constant', 'name']


def build_case(rng, thorough):
	"""A network with attributes at node / product / (node, product) level. Returns (kind, spec, builder)."""
	kind = rng.choice(['single', 'single', 'multi', 'multi-keyed'])
	if kind == 'single':
		spec = _gen_spec(rng, thorough, {'pcostfn': 0})   # cost FUNCTIONS are callables: documented as neither serialised nor compared
		randomise = rng.random() < .5
		rs = rng.randint(0, 10 ** 6)
		def build_single():
			from stockpyl.demand_source import DemandSource
			from stockpyl.disruption_process import DisruptionProcess
			net = simlib.build_py(spec)[0]
			if randomise:
				r2 = random.Random(rs)
				for n in net.nodes:
					if n.demand_source is not None and n.demand_source.type is not None:
						n.demand_source = r2.choice([
							DemandSource(type='P', mean=r2.randint(2, 9)), DemandSource(type='N', mean=20, standard_deviation=3, round_to_int=True),
							DemandSource(type='UD', lo=1, hi=r2.randint(3, 8)), DemandSource(type='UC', lo=1, hi=6),
							DemandSource(type='CD', demand_list=[1, 3, 6], probabilities=[0.25, 0.5, 0.25])])
					if n.disruption_process is not None and r2.random() < .5:
						n.disruption_process = DisruptionProcess(random_process_type='M', disruption_type=n.disruption_process.disruption_type,
																 disruption_probability=0.2, recovery_probability=0.5)
			return net
		spec = dict(spec, random_sources=randomise)
		return kind, spec, build_single
	spec = mplib.gen_mp_spec(rng, thorough)
	keyed = kind == 'multi-keyed'
	def build():
		net = mplib.build_mp(spec)
		if keyed:
			f = net.nodes_by_index[spec['factory']['label']]
			prods = [fp['index'] for fp in spec['factory']['products']]
			f.local_holding_cost = {p: 1.5 + i for i, p in enumerate(prods)}           # (node, product)-level numeric attributes
			f.stockout_cost = {p: 7.0 + i for i, p in enumerate(prods)}
			f.initial_inventory_level = {p: 3 + i for i, p in enumerate(prods)}
		return net
	return kind, spec, build


def simulate_dump(net, T, seed=7):
	from stockpyl import sim
	with warnings.catch_warnings():
		warnings.simplefilter('ignore')
		sim.issued_backorder_warning = False
		total = sim.simulation(net, T, rand_seed=seed, progress_bar=False, consistency_checks='W')
	out = []
	for n in sorted(net.nodes, key=lambda n: n.index):
		for t in range(T):
			sv = n.state_vars[t]
			out.append((n.index, t, {k: copy.deepcopy(getattr(sv, k)) for k in STATE_FIELDS}))
	return total, out


def norm(x):
	"""Canonical comparable form of nested state-variable containers (keys kept with their types)."""
	if isinstance(x, dict):
		return ('dict', tuple(sorted(((repr(type(k).__name__), repr(k)), norm(v)) for k, v in x.items())))
	if isinstance(x, (list, tuple)):
		return ('list', tuple(norm(v) for v in x))
	if isinstance(x, bool) or x is None or isinstance(x, str):
		return x
	return round(float(x), 9)


def attr_diffs(a, b):
	"""Independent field-wise comparison of two networks (structure + attributes at every level)."""
	out = []
	if [n.index for n in a.nodes] != [n.index for n in b.nodes]:
		return ['node lists differ: %s vs %s' % ([n.index for n in a.nodes], [n.index for n in b.nodes])]
	if sorted(a.edges) != sorted(b.edges):
		out.append('edges differ')
	for n, m in zip(a.nodes, b.nodes):
		if n.predecessor_indices() != m.predecessor_indices() or n.successor_indices() != m.successor_indices():
			out.append('adjacency of node %s differs' % n.index)
		if sorted(n.product_indices) != sorted(m.product_indices):
			out.append('products of node %s differ: %s vs %s' % (n.index, n.product_indices, m.product_indices))
			continue
		for attr in NODE_ATTRS:
			va, vb = getattr(n, attr), getattr(m, attr)
			if norm(va) != norm(vb):
				out.append('node %s attribute %s: %r vs %r' % (n.index, attr, va, vb))
		for p in n.product_indices:
			for attr in ('local_holding_cost', 'stockout_cost', 'initial_inventory_level', 'shipment_lead_time', 'order_lead_time'):
				try:
					va, vb = n.get_attribute(attr, p), m.get_attribute(attr, p)
				except Exception as e:
					out.append('get_attribute(%s, %s) raised %s on the reloaded node %s' % (attr, p, err_enum(e), n.index)); continue
				if norm(va) != norm(vb):
					out.append('node %s product %s: get_attribute(%s) = %r vs %r' % (n.index, p, attr, va, vb))
			for attr in ('inventory_policy', 'demand_source', 'disruption_process'):
				def resolved(node_):
					# the object that applies to product p; a node-level None with no product-level attribute of that name resolves to None
					try:
						return node_.get_attribute(attr, p)
					except AttributeError:
						v_ = getattr(node_, attr)
						return v_.get(p) if isinstance(v_, dict) else v_
				try:
					oa, ob = resolved(n), resolved(m)
				except Exception as e:
					out.append('get_attribute(%s, %s) raised %s' % (attr, p, err_enum(e))); continue
				if (oa is None) != (ob is None):
					out.append('node %s product %s %s: %r vs %r' % (n.index, p, attr, oa, ob)); continue
				da = {k: v for k, v in (oa.to_dict() if oa is not None else {}).items() if k not in ('node', 'product')}
				db = {k: v for k, v in (ob.to_dict() if ob is not None else {}).items() if k not in ('node', 'product')}
				if norm(da) != norm(db):
					out.append('node %s product %s %s differs: %r vs %r' % (n.index, p, attr, da, db))
		for po, qo in zip(sorted(n.products, key=lambda q: q.index), sorted(m.products, key=lambda q: q.index)):
			ba = {rm: po.BOM(rm) for rm in po.raw_material_indices}
			bb = {rm: qo.BOM(rm) for rm in qo.raw_material_indices}
			if ba != bb:
				out.append('BOM of product %s differs: %r vs %r' % (po.index, ba, bb))
	return out


def roundtrip_case(rep, rng, thorough, tmpdir, drv=None):
	from stockpyl.supply_chain_network import SupplyChainNetwork
	from stockpyl.helpers import serialize_set, deserialize_set
	from stockpyl.instances import save_instance, load_instance
	kind, spec, build = build_case(rng, thorough)
	T = min(spec['T'], 8)
	with_sv = rng.random() < .35
	via = rng.choice(['dict', 'file'])
	case = {'kind': kind, 'spec': spec, 'state_vars': with_sv, 'via': via}
	rep.case('roundtrip', case, nontrivial=True)
	rep.count('roundtrip:%s:%s:%s' % (kind, via, 'state_vars' if with_sv else 'plain'))
	bad = []
	try:
		with warnings.catch_warnings():
			warnings.simplefilter('ignore')
			net = build()
			used = (not with_sv) and rng.random() < .4
			if with_sv or used:
				# 'used': the network has been simulated before it is saved WITHOUT its state variables - run-time attributes that are
				# not state variables (e.g. whether a disruption process is currently disrupted) must survive
				simulate_dump(net, T, seed=rng.randint(1, 50))
			if used:
				rep.count('roundtrip:saved-after-a-simulation-without-state-vars')
			reference = copy.deepcopy(net)
			if via == 'dict':
				d = net.to_dict()
				s = json.dumps(d, default=serialize_set)
				d_in = json.loads(s, object_hook=deserialize_set)
				d_ref = copy.deepcopy(d_in)
				net2 = SupplyChainNetwork.from_dict(d_in)
				# decoding reads its argument: the dict is unchanged afterwards and can be decoded again with the same result
				if d_in != d_ref:
					bad.append('from_dict altered the dict it was given')
				net2b = SupplyChainNetwork.from_dict(d_in)
				# the Lean model of the generic to_dict / from_dict branch (Model/Serial.lean attrFromDict; theorem attr_roundtrip) on every
				# real product of the network: the value is decided by the key's presence, never by the value's truthiness
				if drv is not None:
					from stockpyl.supply_chain_product import SupplyChainProduct
					NUM = ['local_holding_cost', 'echelon_holding_cost', 'in_transit_holding_cost', 'stockout_cost', 'revenue', 'shipment_lead_time',
						   'order_lead_time', 'initial_inventory_level', 'initial_orders', 'initial_shipments', 'order_capacity']
					for po in net.products:
						if po.index < 0:
							continue
						pd = json.loads(json.dumps(po.to_dict(), default=serialize_set), object_hook=deserialize_set)
						ent = [[a_, None if pd[a_] is None else core.fr(F(float(pd[a_])))] for a_ in NUM if a_ in pd and (pd[a_] is None or isinstance(pd[a_], (int, float)))]
						mo = drv.call('attrdict', dict=ent, queries=[[a_, None] for a_, _ in ent])
						po2 = SupplyChainProduct.from_dict(pd)
						rep.exact_cmp += len(ent)
						for (a_, v_), m_ in zip(ent, mo):
							g_ = getattr(po2, a_)
							if (g_ is None) != (m_ is None) or (g_ is not None and F(float(g_)) != core.unfr(m_)):
								bad.append('product %s: %s stored as %r comes back as %r (model %r)' % (po.index, a_, pd[a_], g_, m_))
				again = attr_diffs(net2, net2b)
				if again:
					bad.append('decoding the same dict a second time gives a different network: ' + '; '.join(again[:2]))
			else:
				path = os.path.join(tmpdir, 'inst_%d.json' % rng.randint(0, 10 ** 9))
				save_instance('case', net, 'x', filepath=path, omit_state_vars=not with_sv)
				net2 = load_instance('case', filepath=path, ignore_state_vars=not with_sv)
				os.remove(path)
			# saving never alters the original
			if not reference.deep_equal_to(net):
				bad.append('serialising altered the original network')
			# product-level policy objects lose their node link on reload (documented), which deep_equal_to sees; for
			# such networks equality is judged by the independent field-wise comparison below, and the link is restored
			# (as a user must) before simulating the reloaded copy
			product_level_policies = kind != 'single' or spec.get('attr_level') == 'product'
			if not product_level_policies and not net.deep_equal_to(net2):
				bad.append('reloaded network is not deeply equal to the original (deep_equal_to)')
			if product_level_policies:
				for m in net2.nodes:
					for po in m.products:
						if po.inventory_policy is not None and po.inventory_policy.node is None:
							po.inventory_policy.node = m
							po.inventory_policy.product = po
			ad = attr_diffs(net, net2)
			if ad:
				bad.append('attributes differ after the round trip: ' + '; '.join(ad[:2]))
			if with_sv:
				for n, m in zip(net.nodes, net2.nodes):
					if len(n.state_vars or []) != len(m.state_vars or []):
						bad.append('state variable history of node %s has length %s after reload (was %s)' % (n.index, len(m.state_vars or []), len(n.state_vars)))
						break
					for t in range(min(T, len(n.state_vars))):
						for k in STATE_FIELDS:
							if norm(getattr(n.state_vars[t], k)) != norm(getattr(m.state_vars[t], k)):
								bad.append('saved state variable %s of node %s period %d comes back as %r (was %r)' % (
									k, n.index, t, getattr(m.state_vars[t], k), getattr(n.state_vars[t], k)))
								break
						else:
							continue
						break
					if bad:
						break
			# same trajectory under the same seed
			if not bad:
				ta, da = simulate_dump(copy.deepcopy(net), T)
				tb, db = simulate_dump(net2, T)
				if ta != tb or [(i, t, norm(x)) for i, t, x in da] != [(i, t, norm(x)) for i, t, x in db]:
					bad.append('original and reloaded network simulate to different trajectories under the same seed (total %r vs %r)' % (ta, tb))
	except Exception as e:
		import traceback
		bad.append('raised %s: %s' % (err_enum(e), traceback.format_exc()[-300:]))
	if bad:
		rep.diff('roundtrip', '; '.join(bad[:3]), case, py=bad[:6], oracle=True, theorem=THEOREM, finding_id=classify(bad))


def classify(bad):
	return None


def _gen_spec(*a, **k):
	"""simlib.gen_spec without NumPy-array demand lists: `demand_list` is documented as a list, and only documented attribute types are
	promised to serialise and to compare."""
	spec = simlib.gen_spec(*a, **k)
	for nd in spec['nodes'].values():
		nd.pop('np_demand', None)
	return spec


def store_case(rep, drv, rng, tmpdir):
	"""Operation sequences on one instance file vs the Lean store model (data identified by a token)."""
	from stockpyl.instances import save_instance, load_instance
	from stockpyl.supply_chain_network import single_stage_system
	path = os.path.join(tmpdir, 'store_%d.json' % rng.randint(0, 10 ** 9))
	names = ['a', 'b', 'c', 'd']
	# the same file under different spellings of its path (absolute, relative to the working directory, with redundant components): the store
	# is the FILE, however it is named
	base = os.path.basename(path)
	spellings = [path, os.path.relpath(path), os.path.join(tmpdir, '.', base), os.path.join(tmpdir, '..', os.path.basename(tmpdir), base),
				 tmpdir + os.sep + os.sep + base]
	spell = lambda: rng.choice(spellings) if rng.random() < .5 else path
	rng_s = random.Random(sum(map(ord, base)))          # own stream for the decisions added later: the main one is unchanged
	ops = []; py_res = []
	n_ops = rng.randint(2, 10)
	nets = {}
	for k in range(n_ops):
		if rng.random() < .6:
			tok = 100 + k
			name = rng.choice(names); rep_flag = rng.random() < .7
			use_net = rng.random() < .5
			with warnings.catch_warnings():
				warnings.simplefilter('ignore')
				if use_net:
					data = single_stage_system(holding_cost=tok, stockout_cost=9, demand_type='P', mean=3, policy_type='BS', base_stock_level=4)
					simulated = rng_s.random() < .6
					if simulated:
						# a network that has been simulated carries its state variables; saving (with or without them, whether or not anything
						# ends up being written) must leave them where they are
						from stockpyl.sim import simulation
						simulation(data, 3, rand_seed=tok, progress_bar=False)
						rep.count('store:saved-a-simulated-network')
					before = copy.deepcopy(data)
					sv_before = [None if n_.state_vars is None else [sv_.to_dict() for sv_ in n_.state_vars] for n_ in data.nodes]
					if k == 0 and not os.path.exists(path) and rng_s.random() < .5:
						save_instance(name, data, 'd', filepath=path, create_if_none=False)          # documented no-op: no file, none created
						rep.count('store:save-to-missing-file-without-create')
						if os.path.exists(path):
							rep.diff('store', 'save_instance(create_if_none=False) created the file', ops, oracle=True, theorem=THEOREM)
				else:
					data = {'token': tok, 'list': [1, 2, tok]}
					before = copy.deepcopy(data)
				save_instance(name, data, 'd', filepath=spell(), replace=rep_flag)
				if use_net and not before.deep_equal_to(data) or (not use_net and before != data):
					rep.diff('store', 'save_instance altered the object being saved', ops, oracle=True)
				elif use_net and sv_before != [None if n_.state_vars is None else [sv_.to_dict() for sv_ in n_.state_vars] for n_ in data.nodes]:
					rep.diff('store', 'save_instance(name=%r, replace=%s) altered the state variables of the network being saved (%s periods before; now %s)' % (
						name, rep_flag, [None if v is None else len(v) for v in sv_before], [None if n_.state_vars is None else len(n_.state_vars) for n_ in data.nodes]),
						ops + [{'op': 'save', 'name': name, 'data': tok, 'replace': rep_flag, 'simulated': True}], oracle=True, theorem=THEOREM)
			ops.append({'op': 'save', 'name': name, 'data': tok, 'replace': rep_flag}); py_res.append(None)
		else:
			name = rng.choice(names)
			try:
				with warnings.catch_warnings():
					warnings.simplefilter('ignore')
					d = load_instance(name, filepath=spell())
				tok = d['token'] if isinstance(d, dict) else int(d.nodes[0].local_holding_cost)
			except (KeyError, FileNotFoundError, IndexError, AttributeError, TypeError):
				tok = None
			ops.append({'op': 'load', 'name': name}); py_res.append(tok)
	if os.path.exists(path):
		file_names = []; tag_bad = []
		for r in json.load(open(path))['instances']:
			data = r.get('data')
			is_plain = isinstance(data, dict) and 'token' in data
			try:
				tokv = data['token'] if is_plain else int(data['_nodes'][0]['local_holding_cost'])
			except Exception:
				tokv = None
			file_names.append([r['name'], tokv])
			if r.get('type') != ('dict' if is_plain else 'network'):
				tag_bad.append('instance %r holds a %s but is tagged %r' % (r['name'], 'plain dict' if is_plain else 'network', r.get('type')))
		os.remove(path)
		if tag_bad:
			rep.diff('store', 'instance file entries carry the wrong type tag (load_instance decides by it whether to rebuild a network): ' + '; '.join(tag_bad[:3]),
					 ops, py=tag_bad[:5], oracle=True, theorem=THEOREM)
	else:
		file_names = []
	mo = drv.call('store', ops=ops)
	rep.case('store', ops, nontrivial=len(ops) >= 3)
	rep.exact_cmp += 1
	if mo['results'] != py_res or mo['names'] != file_names:
		rep.diff('store', 'instance file does not behave like a map: python results %s file %s, model %s %s' % (py_res, file_names, mo['results'], mo['names']),
				 ops, py=[py_res, file_names], model=mo, oracle=True, theorem=THEOREM)


def parse_header(h):
	return h


def csv_case(rep, rng, thorough, tmpdir):
	"""Every CSV cell equals the state variable its header names."""
	from stockpyl import sim_io
	spec = _gen_spec(rng, thorough, {'pcostfn': 0})
	T = min(spec['T'], 6)
	suppress = rng.random() < .6
	case = {'spec': spec, 'suppress_dummy_products': suppress}
	rep.case('csv', case, nontrivial=len(spec['labels']) >= 2)
	rep.count('csv:preds=%d' % max(sum(1 for e in spec['edges'] if e[1] == l) for l in spec['labels']))
	bad = []
	try:
		with warnings.catch_warnings():
			warnings.simplefilter('ignore')
			net, objs = simlib.build_py(spec)
			simulate_dump(net, T)
			path = os.path.join(tmpdir, 'res_%d.csv' % rng.randint(0, 10 ** 9))
			with contextlib.redirect_stdout(io.StringIO()):
				sim_io.write_results(net, T, columns_to_print='all', suppress_dummy_products=suppress, write_csv=True, csv_filename=path)
			rows = list(csv.reader(open(path)))
			os.remove(path)
		header, data = rows[0], rows[1:]
		if any(len(r) != len(header) for r in data):
			bad.append('row length %s differs from header length %d' % (sorted({len(r) for r in data}), len(header)))
		else:
			# walk the header; sections start with 'i=<node>'
			node = None
			for col, h in enumerate(header):
				if h.startswith('i='):
					node = net.nodes_by_index[int(h[2:])]; continue
				if node is None or h in ('t', ''):
					continue
				for r in data:
					t = int(r[0])
					sv = node.state_vars[t]
					cell = r[col]
					want = expected_cell(net, node, sv, h, suppress)
					if want is None:
						continue
					if not cell_eq(cell, want):
						bad.append("period %d node %s column '%s' shows %s but that state variable is %s" % (t, node.index, h, cell, want))
						break
				if len(bad) > 3:
					break
	except Exception as e:
		import traceback
		bad.append('raised %s: %s' % (err_enum(e), traceback.format_exc()[-300:]))
	if bad:
		rep.diff('csv', '; '.join(bad[:3]), case, py=bad[:6], oracle=True, theorem=THEOREM, finding_id=None)


def csv_mp_case(rep, rng, tmpdir):
	"""Multi-product networks: every row has one cell per column label, and every cell is the state variable its label names
	(labels ABBR:<node>|<product>, ABBR:<product>, ABBR:EXT)."""
	from stockpyl import sim_io
	spec = mplib.gen_mp_spec(rng)
	case = {'mp_spec': spec}
	rep.case('csv', case, nontrivial=True); rep.count('csv:multi-product')
	bad = []
	try:
		with warnings.catch_warnings():
			warnings.simplefilter('ignore')
			r = mplib.run_mp(spec)
			if 'error' in r:
				return
			net = r['net']
			path = os.path.join(tmpdir, 'resmp_%d.csv' % rng.randint(0, 10 ** 9))
			with contextlib.redirect_stdout(io.StringIO()):
				sim_io.write_results(net, spec['T'], columns_to_print='all', write_csv=True, csv_filename=path)
			rows = list(csv.reader(open(path)))
			os.remove(path)
		header, data = rows[0], rows[1:]
		if any(len(r_) != len(header) for r_ in data):
			bad.append('rows have %s cells but there are %d column labels' % (sorted({len(r_) for r_ in data}), len(header)))
		simple = {'DISR': 'disrupted', 'HC': 'holding_cost_incurred', 'SC': 'stockout_cost_incurred', 'ITHC': 'in_transit_holding_cost_incurred', 'REV': 'revenue_earned', 'TC': 'total_cost_incurred'}
		two = {'OQ': 'order_quantity', 'OO': 'on_order_by_predecessor', 'IS': 'inbound_shipment', 'IDI': 'inbound_disrupted_items', 'ISPL': 'inbound_shipment_pipeline',
			   'IO': 'inbound_order', 'OS': 'outbound_shipment', 'BO': 'backorders_by_successor', 'ODI': 'outbound_disrupted_items', 'IOPL': 'inbound_order_pipeline'}
		one = {'OQFG': 'order_quantity_fg', 'PFG': 'pending_finished_goods', 'DMFS': 'demand_met_from_stock', 'FR': 'fill_rate', 'IL': 'inventory_level', 'RM': 'raw_material_inventory'}
		node = None
		for col, h in enumerate(header):
			if bad:
				break
			if h.startswith('i='):
				node = net.nodes_by_index[int(h[2:])]; continue
			if node is None or h in ('t', ''):
				continue
			abbr, _, key = h.partition(':')
			for r_ in data[:6]:
				sv = node.state_vars[int(r_[0])]
				want = None
				try:
					if h in simple:
						want = getattr(sv, simple[h])
					elif abbr in two and '|' in key:
						a_, b_ = key.split('|')
						want = getattr(sv, two[abbr])[None if a_ == 'EXT' else int(a_)][int(b_)]
						if abbr in ('ISPL', 'IOPL'):
							want = want[1:]
					elif abbr in one and key.lstrip('-').isdigit():
						want = getattr(sv, one[abbr])[int(key)]
					else:
						continue
				except (KeyError, IndexError):
					bad.append("node %s: column label '%s' names a state variable entry that does not exist" % (node.index, h)); break
				if col >= len(r_) or not cell_eq(r_[col], want):
					bad.append("period %s node %s column '%s' shows %s but that state variable is %s" % (r_[0], node.index, h, r_[col] if col < len(r_) else '(nothing)', want)); break
	except Exception as e:
		import traceback
		bad.append('raised %s: %s' % (err_enum(e), traceback.format_exc()[-300:]))
	if bad:
		rep.diff('csv', 'multi-product network: ' + '; '.join(bad[:3]), case, py=bad[:6], oracle=True, theorem=THEOREM, finding_id=None)


def debug_save_case(rep, rng, tmpdir):
	"""sim_io.write_instance_and_states (the debugging save of a simulated network together with its history): saving never alters the original --
	its demand sources, disruption processes, attributes and state variables are what they were, and it simulates as before."""
	from stockpyl import sim_io
	from stockpyl.sim import simulation
	spec = _gen_spec(rng, False, {'prandom': .9, 'pcostfn': 0})
	case = {'spec': spec}
	rep.case('roundtrip', case, nontrivial=True); rep.count('roundtrip:debug-save-of-a-simulated-network')
	path = os.path.join(tmpdir, 'dbg_%d.json' % rng.randint(0, 10 ** 9))
	try:
		with warnings.catch_warnings():
			warnings.simplefilter('ignore')
			net, objs = simlib.build_py(spec)
			T = min(spec['T'], 6)
			simulation(net, T, rand_seed=3, progress_bar=False)
			before = copy.deepcopy(net)
			kinds = lambda nw: [(n_.index, None if n_.demand_source is None else n_.demand_source.type, None if n_.disruption_process is None else n_.disruption_process.random_process_type) for n_ in nw.nodes]
			k0 = kinds(net)
			sim_io.write_instance_and_states(net, path, instance_name='dbg')
			bad = []
			if kinds(net) != k0:
				bad.append('demand source / disruption process kinds of the ORIGINAL changed from %s to %s' % (k0, kinds(net)))
			if not before.deep_equal_to(net):
				bad.append('the original is no longer deeply equal to a copy taken just before saving')
			if not bad:
				for b_, a_ in ((before, 'copy taken before saving'),):
					t1 = simulation(copy.deepcopy(before), T, rand_seed=5, progress_bar=False); t2 = simulation(net, T, rand_seed=5, progress_bar=False)
					if t1 != t2:
						bad.append('after the save the original simulates to total cost %r, the %s to %r (same seed)' % (t2, a_, t1))
		if bad:
			rep.diff('roundtrip', 'write_instance_and_states altered the network it saved: ' + '; '.join(bad[:3]), case, py=bad[:4], oracle=True, theorem=THEOREM)
	except Exception as e:
		import traceback
		rep.diff('roundtrip', 'write_instance_and_states raised %s: %s' % (err_enum(e), traceback.format_exc()[-250:]), case, oracle=True, theorem=THEOREM)
	finally:
		if os.path.exists(path):
			os.remove(path)


def cell_eq(cell, want):
	if isinstance(want, bool):
		return cell == str(want)
	if isinstance(want, list):
		try:
			import re
			cell = re.sub(r'np\.float64\(([^)]*)\)', r'\1', cell)      # NumPy 2 repr of scalars inside printed lists
			return [float(x) for x in json.loads(cell)] == [float(x) for x in want]
		except Exception:
			return False
	try:
		return abs(float(cell) - float(want)) <= 1e-9 * max(1, abs(float(want)))
	except Exception:
		return False


def expected_cell(net, node, sv, h, suppress):
	"""Value the column labelled `h` must show. Labels: ABBR, ABBR:k (k = node index, or product index), 'EXT' for None."""
	simple = {'DISR': 'disrupted', 'HC': 'holding_cost_incurred', 'SC': 'stockout_cost_incurred', 'ITHC': 'in_transit_holding_cost_incurred',
			  'REV': 'revenue_earned', 'TC': 'total_cost_incurred'}
	if h in simple:
		return getattr(sv, simple[h])
	abbr, _, key = h.partition(':')
	prod = node.product_indices[0]
	def nodekey(k):
		return None if k == 'EXT' else int(k)
	by_pred = {'OQ': 'order_quantity', 'OO': 'on_order_by_predecessor', 'IS': 'inbound_shipment', 'IDI': 'inbound_disrupted_items', 'ISPL': 'inbound_shipment_pipeline'}
	by_succ = {'IO': 'inbound_order', 'OS': 'outbound_shipment', 'BO': 'backorders_by_successor', 'ODI': 'outbound_disrupted_items', 'IOPL': 'inbound_order_pipeline'}
	by_prod = {'OQFG': 'order_quantity_fg', 'PFG': 'pending_finished_goods', 'DMFS': 'demand_met_from_stock', 'FR': 'fill_rate', 'IL': 'inventory_level'}
	if not suppress:
		return None       # with dummy products shown the labels carry product indices as well; checked only for the suppressed (default) layout
	try:
		if abbr in by_prod and key == '':
			return getattr(sv, by_prod[abbr])[prod]
		if abbr in by_pred:
			p = nodekey(key)
			d = getattr(sv, by_pred[abbr])[p]
			v = list(d.values())[0] if len(d) == 1 else None
			return v[1:] if abbr == 'ISPL' and v is not None else v      # pipelines are shown without slot 0 (documented)
		if abbr in by_succ:
			s = nodekey(key)
			d = getattr(sv, by_succ[abbr])[s]
			v = list(d.values())[0] if len(d) == 1 else None
			return v[1:] if abbr == 'IOPL' and v is not None else v
		if abbr == 'RM':
			p = nodekey(key)
			rm = net.nodes_by_index[p].product_indices[0] if p is not None else node._external_supplier_dummy_product.index
			return sv.raw_material_inventory[rm]
	except Exception:
		return None
	return None


def run(rep, drv):
	th = rep.tier == 'thorough'
	rep.rule = ('(a) to_dict->json->from_dict and save_instance/load_instance round trips of random single- and multi-product networks (attributes at node, '
				'product and (node,product) level; with and without saved state variables): deep_equal_to, an independent field-wise comparison, original unchanged, '
				'trajectory equality under one seed; (b) save/replace/load sequences on one file vs the Lean store model; (c) every cell of the results CSV vs the state '
				'variable named by its header. non-trivial = all (every case exercises a full round trip)')
	rng = random.Random(rep.seed + 17)
	tmpdir = tempfile.mkdtemp(prefix='verif_c17_')
	try:
		for k in range(600 if th else 70):
			roundtrip_case(rep, rng, th, tmpdir, drv)
		rngs = random.Random(rep.seed + 1717)
		for k in range(800 if th else 200):
			store_case(rep, drv, rngs, tmpdir)
		for k in range(500 if th else 70):
			csv_case(rep, rng, th, tmpdir)
		rngd = random.Random(rep.seed + 1719)
		for k in range(100 if th else 20):
			debug_save_case(rep, rngd, tmpdir)
		rngm = random.Random(rep.seed + 1718)
		for k in range(150 if th else 25):
			csv_mp_case(rep, rngm, tmpdir)
	finally:
		shutil.rmtree(tmpdir, ignore_errors=True)


def replay(rep, drv, doc):
	tmpdir = tempfile.mkdtemp(prefix='verif_c17_')
	try:
		print('replaying the quick stream; recorded case stream:', doc['stream'])
		run(rep, drv)
	finally:
		shutil.rmtree(tmpdir, ignore_errors=True)
