"""C13 - (s,S): reported cost = stationary cost of the inventory chain; exact algorithm optimal."""
import random, warnings, math
from fractions import Fraction as F
import numpy as np
import core
from core import fr, frs, unfr, err_enum

TRUSTED = ["rounded regime: the model recomputes the algorithm in exact rational arithmetic on the exact values of the float pmf Python uses; "
		   "costs are compared to 1e-9 relative. SciPy's poisson.pmf values are inputs (black box)",
		   "avg_cost_converges is proved for any (c, v) passing the decidable certificate; that the model's v passes it is established per instance by "
		   "exact evaluation in the driver (reported as certificates_verified), the general statement is an open target",
		   "optimality of the Zheng-Federgruen search over all integer pairs is not proved; checked by exhaustive window search per instance (labelled test)"]
THEOREM = 'Props/C13.list (avg_cost_converges, cost_telescopes, zf_reports_cost)'


def gen_pmf(rng):
	D = rng.choice([1, 2, 2, 3, 4, 6, 9])
	w = [rng.randint(0, 6) for _ in range(D + 1)]
	if rng.random() < .3 and D >= 2:
		w[rng.randrange(1, D)] = 0          # zero-probability point inside the support
	if w[0] == sum(w):
		w[-1] += 1
	if sum(w[1:]) == 0:
		w[1] = 1
	den = 2 ** 6
	# dyadic pmf summing to exactly one
	tot = sum(w)
	q = [F(x * den // tot, den) for x in w]
	q[-1] += 1 - sum(q)
	if q[0] >= 1 or any(x < 0 for x in q):
		return gen_pmf(rng)
	return q


def stationary_cost(pmf, h, b, K, s, S):
	"""Independent oracle: stationary distribution of the inventory-position chain on {s+1..S} (linear solve)."""
	n = S - s
	D = len(pmf) - 1
	P = np.zeros((n, n))
	for i in range(1, n + 1):
		for d, q in enumerate(pmf):
			j = n if i <= d else i - d
			P[i - 1, j - 1] += float(q)
	A = np.vstack([P.T - np.eye(n), np.ones(n)])
	rhs = np.zeros(n + 1); rhs[-1] = 1
	pi = np.linalg.lstsq(A, rhs, rcond=None)[0]
	mean = sum(d * float(q) for d, q in enumerate(pmf))
	def G(y):
		return sum(float(q) * (h * max(y - d, 0) + b * max(d - y, 0)) for d, q in enumerate(pmf))
	cost = 0.0
	for i in range(1, n + 1):
		order_prob = sum(float(q) for d, q in enumerate(pmf) if i <= d)
		cost += pi[i - 1] * (G(s + i) + K * order_prob)
	return cost


def run(rep, drv):
	from stockpyl.ss import s_s_cost_discrete, s_s_discrete_exact
	from scipy.stats import poisson
	rng = random.Random(rep.seed + 13)
	th = rep.tier == 'thorough'
	rep.rule = ('random dyadic pmfs on 0..D (D 1-9, zero-probability points, short supports), integer/half-integer costs, every s<S in a window incl. S-s larger than the '
				'support: s_s_cost_discrete vs exact model + certificate verified exactly + stationary-distribution oracle; s_s_discrete_exact vs model search and '
				'exhaustive window; Poisson entry point vs the custom-pmf entry point on the Poisson pmf. non-trivial = S-s >= 2')
	certs = 0
	shared = []          # ONE list object handed to the library again and again, its contents replaced in place between the calls
	for k in range(1200 if th else 160):
		pmf = gen_pmf(rng)
		D = len(pmf) - 1
		if k % 3 == 1 and shared and len(shared) == len(pmf):
			pass          # same length as the previous contents: the in-place edit below keeps the object and its length
		h = F(rng.randint(1, 6), 2); b = F(rng.randint(2, 30), 2); K = F(rng.randint(1, 40), 2)
		s = rng.randint(-3, 6); S = s + rng.randint(1, 2 * D + 4)
		case = {'pmf': frs(pmf), 'h': fr(h), 'b': fr(b), 'K': fr(K), 's': s, 'S': S}
		rep.case('s_s_cost_discrete', case, nontrivial=S - s >= 2)
		rep.count('ss:S-s%ssupport' % ('>' if S - s > D else '<='))
		try:
			with warnings.catch_warnings():
				warnings.simplefilter('ignore')
				if k % 4 in (0, 1, 2):          # runs of consecutive calls with the same object (a cache keyed by the object would go stale)
					shared[:] = [float(q) for q in pmf]          # edited in place, same object as in the earlier calls
					arg = shared; rep.count('ss:pmf-list-reused-and-edited-in-place')
				else:
					arg = [float(q) for q in pmf]
				py = float(s_s_cost_discrete(s, S, float(h), float(b), float(K), False, demand_hi=D, demand_pmf=arg))
				if arg is shared and shared != [float(q) for q in pmf]:
					py = 'error:the pmf argument was altered'
		except Exception as e:
			py = 'error:' + err_enum(e)
		mo = drv.call('sscost', **case)
		rep.tol_cmp += 1
		ref = stationary_cost(pmf, float(h), float(b), float(K), s, S)
		mc = float(unfr(mo['cost']))
		if mo['certificate']:
			certs += 1
		else:
			rep.count('ss:certificate-failed-in-model')
		bad = isinstance(py, str) or abs(py - ref) > 1e-7 * max(1, abs(ref))
		same = (not isinstance(py, str)) and abs(py - mc) <= 1e-9 * max(1, abs(mc))
		if not same or bad or not mo['certificate']:
			rep.diff('s_s_cost_discrete', 'python %s, model %r (certificate %s), stationary cost of the chain %r' % (py, mc, mo['certificate'], ref), case,
					 py=py, model=mo, oracle=bad, theorem=THEOREM if same else None)
	rep.extra['certificates_verified_exactly'] = certs
	# exact algorithm
	# corpus first: instances on which an improving step of the algorithm raises the reorder point (dyadic pmfs)
	CORPUS = [([F(1, 2), F(0), F(3, 8), F(1, 8)], F(2), F(19), F(20)), ([F(1, 4), F(0), F(3, 8), F(0), F(3, 8)], F(1), F(9), F(10)),
			  ([F(9, 16), F(0), F(5, 16), F(1, 8)], F(2), F(19), F(20)), ([F(1, 8), F(1, 4), F(1, 4), F(1, 4), F(1, 8)], F(1), F(9), F(20)),
			  ([F(3, 8), F(3, 8), F(1, 8), F(1, 8)], F(2), F(5), F(5))]
	for k in range(250 if th else 40):
		pmf = gen_pmf(rng)
		D = len(pmf) - 1
		h = F(rng.randint(1, 6), 2); b = F(rng.randint(2, 30), 2); K = F(rng.randint(1, 40), 2)
		if rng.random() < .3:
			K = F(rng.choice([1, 2, 4, 8]), 16)          # tiny fixed cost: the near base-stock regime (s = S - 1)
			rep.count('zf:small-K')
		if k < len(CORPUS):
			pmf, h, b, K = CORPUS[k]; D = len(pmf) - 1; rep.count('zf:corpus-case')
		case = {'pmf': frs(pmf), 'h': fr(h), 'b': fr(b), 'K': fr(K)}
		rep.case('s_s_discrete_exact', case, nontrivial=True)
		try:
			with warnings.catch_warnings():
				warnings.simplefilter('ignore')
				s, S, g = s_s_discrete_exact(float(h), float(b), float(K), False, demand_hi=D, demand_pmf=[float(q) for q in pmf])
			py = (int(s), int(S), float(g))
		except Exception as e:
			py = 'error:' + err_enum(e)
		mo = drv.call('zf', **case)
		rep.tol_cmp += 1
		bad = []
		if isinstance(py, str):
			bad.append('raised ' + py)
		else:
			s, S, g = py
			if not s < S:
				bad.append('returned s >= S')
			ref = stationary_cost(pmf, float(h), float(b), float(K), s, S)
			if abs(ref - g) > 1e-7 * max(1, abs(ref)):
				bad.append('reported cost %r but the returned pair (%d,%d) costs %r' % (g, s, S, ref))
			best = min((stationary_cost(pmf, float(h), float(b), float(K), a, c), a, c) for a in range(s - 4, S + 2) for c in range(a + 1, S + 6))
			if best[0] < g - 1e-7 * max(1, abs(g)):
				bad.append('pair (%d,%d) costs %r < reported optimum %r' % (best[1], best[2], best[0], g))
		same = (not isinstance(py, str)) and 'error' not in mo and abs(float(unfr(mo['g'])) - py[2]) <= 1e-9 * max(1, abs(py[2]))
		if not same or bad:
			rep.diff('s_s_discrete_exact', 'python %s model %s %s' % (py, mo, '; '.join(bad)), case, py=py, model=mo, oracle=bool(bad),
					 theorem=THEOREM if same else None)
	# "all Poisson means": large means first (exp(-mean) is subnormal from about 708 and 0.0 from 746), with S - s comparable to the mean
	for lam, s, S, indep in ((40, 30, 75, True), (200, 150, 380, True), (735, 700, 1450, False), (760, -50, 1400, False), (800, 100, 900, True), (800, 60, 880, False)):
		hi = int(poisson.ppf(1 - 1e-14, lam)) + 2
		pm = [float(x) for x in poisson.pmf(range(hi + 1), lam)]
		h, b, K = 1, 9, 25
		case = {'lambda': lam, 'h': h, 'b': b, 'K': K, 's': s, 'S': S, 'corpus': 'large mean'}
		rep.case('poisson-vs-pmf', case, nontrivial=True); rep.count('poisson:large-mean'); rep.tol_cmp += 1
		try:
			with warnings.catch_warnings():
				warnings.simplefilter('ignore')
				a = float(s_s_cost_discrete(s, S, h, b, K, True, demand_mean=lam))
				c = float(s_s_cost_discrete(s, S, h, b, K, False, demand_hi=hi, demand_pmf=pm))
			msg = []
			if abs(a - c) > 1e-8 * max(1, abs(a)):
				msg.append('Poisson entry point %r, custom-pmf entry point on the Poisson pmf %r' % (a, c))
			if indep:
				ref = stationary_cost(pm, h, b, K, s, S)
				if abs(a - ref) > 1e-6 * max(1, abs(ref)):
					msg.append('Poisson entry point %r, stationary cost of the inventory chain %r' % (a, ref))
			if msg:
				rep.diff('poisson-vs-pmf', '; '.join(msg), case, py=[a, c], oracle=True, theorem=THEOREM)
		except Exception as e:
			rep.diff('poisson-vs-pmf', 'raised %s' % err_enum(e), case, oracle=True, theorem=THEOREM)
	# Poisson entry point = custom-pmf entry point on the Poisson pmf (truncated where the remaining mass is < 1e-13)
	for k in range(120 if th else 25):
		lam = rng.choice([0.5, 1, 2, 3.5, 5])
		hi = int(poisson.ppf(1 - 1e-14, lam)) + 2
		pm = [float(x) for x in poisson.pmf(range(hi + 1), lam)]
		h, b, K = rng.choice([1, 2]), rng.choice([5, 9, 18]), rng.choice([4, 10, 25])
		s = rng.randint(0, 4); S = s + rng.randint(1, 8)
		case = {'lambda': lam, 'h': h, 'b': b, 'K': K, 's': s, 'S': S}
		rep.case('poisson-vs-pmf', case, nontrivial=S - s >= 2)
		try:
			with warnings.catch_warnings():
				warnings.simplefilter('ignore')
				a = float(s_s_cost_discrete(s, S, h, b, K, True, demand_mean=lam))
				c = float(s_s_cost_discrete(s, S, h, b, K, False, demand_hi=hi, demand_pmf=pm))
			if abs(a - c) > 1e-8 * max(1, abs(a)):
				rep.diff('poisson-vs-pmf', 'Poisson entry point %r, custom-pmf entry point on the Poisson pmf %r' % (a, c), case, py=[a, c], oracle=True, theorem=THEOREM)
			# with use_poisson=True the custom-pmf arguments are documented to be ignored (and demand_mean with use_poisson=False)
			with warnings.catch_warnings():
				warnings.simplefilter('ignore')
				a2 = float(s_s_cost_discrete(s, S, h, b, K, True, lam, 3, [0.1, 0.0, 0.5, 0.4]))
				c2 = float(s_s_cost_discrete(s, S, h, b, K, False, 99.0, hi, pm))
			if a2 != a or c2 != c:
				rep.diff('poisson-vs-pmf', 'arguments documented as ignored change the result: Poisson %r -> %r with a stray pmf, custom pmf %r -> %r with a stray mean' % (a, a2, c, c2),
						 case, py=[a, a2, c, c2], oracle=True, theorem=THEOREM)
			if k % 5 == 0:
				with warnings.catch_warnings():
					warnings.simplefilter('ignore')
					e1 = s_s_discrete_exact(h, b, K, True, lam)
					e2 = s_s_discrete_exact(h, b, K, True, lam, 20, [1 / 21] * 21)
				if tuple(map(float, e1)) != tuple(map(float, e2)):
					rep.diff('poisson-vs-pmf', 's_s_discrete_exact(use_poisson=True): %r, with a stray pmf %r' % (e1, e2), case, py=[str(e1), str(e2)], oracle=True, theorem=THEOREM)
		except Exception as e:
			rep.diff('poisson-vs-pmf', 'raised %s' % err_enum(e), case, oracle=True, theorem=THEOREM)

	H = core.one_argument_histories
	calls = []
	pm = [0.1, 0.2, 0.0, 0.3, 0.4]
	bump = lambda k, v: ([0.4, 0.3, 0.0, 0.2, 0.1] if k == 'demand_pmf' else (v + 2 if k in ('reorder_point', 'order_up_to_level') else v * 1.5 + 1))
	for kw in H(dict(reorder_point=2, order_up_to_level=9, holding_cost=1, stockout_cost=9, fixed_cost=20, use_poisson=False, demand_hi=4, demand_pmf=pm),
				['reorder_point', 'order_up_to_level', 'holding_cost', 'stockout_cost', 'fixed_cost', 'demand_pmf'], bump):
		calls.append(('stockpyl.ss', 's_s_cost_discrete', (), kw))
	for kw in H(dict(reorder_point=2, order_up_to_level=9, holding_cost=1, stockout_cost=9, fixed_cost=20, use_poisson=True, demand_mean=3.5), ['demand_mean', 'fixed_cost', 'order_up_to_level'], bump):
		calls.append(('stockpyl.ss', 's_s_cost_discrete', (), kw))
	for kw in H(dict(holding_cost=1, stockout_cost=9, fixed_cost=20, use_poisson=False, demand_hi=4, demand_pmf=pm), ['holding_cost', 'stockout_cost', 'fixed_cost', 'demand_pmf'], bump):
		calls.append(('stockpyl.ss', 's_s_discrete_exact', (), kw))
	for kw in H(dict(holding_cost=1, stockout_cost=9, fixed_cost=20, use_poisson=True, demand_mean=3.5), ['demand_mean', 'stockout_cost'], bump):
		calls.append(('stockpyl.ss', 's_s_discrete_exact', (), kw))
	for kw in H(dict(holding_cost=0.18, stockout_cost=0.70, fixed_cost=2.5, demand_mean=50, demand_sd=8), ['holding_cost', 'stockout_cost', 'fixed_cost', 'demand_mean', 'demand_sd']):
		calls.append(('stockpyl.ss', 's_s_power_approximation', (), kw))
	core.history_check(rep, 'call-history', calls, theorem=THEOREM)


def replay(rep, drv, doc):
	print('replaying the quick stream; recorded case:', doc['stream'], doc['case'])
	run(rep, drv)
