"""C15 - simulated long-run cost agrees with the analytical expected cost."""
import random, warnings, math, copy
from fractions import Fraction as F
import numpy as np
import core, simlib
from core import fr, frs, unfr, err_enum

TRUSTED = ["what is proved: for EVERY demand path the simulated base-stock stage has IL_t = S - (last L demands) (single_stage_pathwise), its expected period cost under "
		   "i.i.d. finite-pmf demand is h*nbar(S)+p*n(S) of the L-fold convolution (single_stage_expected_cost), and an (s,S) stage with L=1 moves along the C13 chain and is "
		   "charged the integrand of G (ss_stage_chain_step + C13 avg_cost_converges). These are theorems about Model/SingleStage.lean; its tie to sim.py is the path "
		   "correspondence below (the real simulator's IL, cost and order paths on the demands it drew itself vs the model, every period)",
		   "the serial (SSM) limit is NOT a theorem: the simulated trajectory is tied exactly to the network model Model/Sim.lean, the analytical value to the C07 evaluator; "
		   "that the two agree in the limit (Clark-Scarf) is supported only by the statistical band - labelled partial",
		   "the statistical band (8 batch-means standard errors over 30 batches + the proved transient bound 2B/T for (s,S)) is supporting evidence and a search for failing "
		   "inputs, never the verdict on the unchanged tree by itself; Poisson pmfs are truncated at 1e-15 tail mass for the exact expectations (compared to 1e-7 relative)",
		   "RNG: NumPy's generators are a black box; the demands the simulator drew are read back from its own state variables"]
THEOREM = 'Props/C15.list (single_stage_pathwise, single_stage_cost, single_stage_expected_cost, ss_stage_chain_step)'


def close(a, b, tol=1e-9):
	import math as _m
	if not (_m.isfinite(float(a)) and _m.isfinite(float(b))):
		return float(a) == float(b)          # an infinite value is close to nothing finite
	return abs(float(a) - float(b)) <= tol * max(1.0, abs(float(a)), abs(float(b)))


def one_period_pmf(kind, par):
	"""pmf on 0..D of one period's demand as exact rationals of the floats Python uses."""
	from scipy.stats import poisson
	if kind == 'P':
		hi = int(poisson.ppf(1 - 1e-15, par)) + 2
		return [F(float(poisson.pmf(k, par))) for k in range(hi + 1)]
	if kind == 'UD':
		lo, hi = par
		return [F(0)] * lo + [F(1, hi - lo + 1)] * (hi - lo + 1)
	vals, probs = par
	q = [F(0)] * (max(vals) + 1)
	for v, pr in zip(vals, probs):
		q[v] += F(pr)
	return q


def make_ds(kind, par):
	from stockpyl.demand_source import DemandSource
	if kind == 'P':
		return DemandSource(type='P', mean=par)
	if kind == 'UD':
		return DemandSource(type='UD', lo=par[0], hi=par[1])
	if kind == 'N':
		return DemandSource(type='N', mean=par[0], standard_deviation=par[1])
	return DemandSource(type='CD', demand_list=list(par[0]), probabilities=list(par[1]))


def gen_demand(rng, allow_normal=False):
	kind = rng.choice(['P', 'P', 'UD', 'CD'] + (['N'] if allow_normal else []))
	if kind == 'P':
		return kind, rng.choice([1, 2, 3.5, 5, 8])
	if kind == 'UD':
		lo = rng.randint(0, 3)
		return kind, (lo, lo + rng.randint(1, 6))
	if kind == 'N':
		m = rng.choice([20, 50, 100])
		return kind, (m, m * rng.choice([0.05, 0.1, 0.15]))
	return kind, rng.choice([((0, 2, 5, 9), (0.25, 0.25, 0.25, 0.25)), ((1, 2, 3), (0.5, 0.25, 0.25)), ((0, 4), (0.75, 0.25))])


def node_spec(policy, slt, h, p, initIL, ext=True, demand=True, olt=0):
	return {'slt': slt, 'olt': olt, 'policy': policy, 'cap': None, 'h': fr(h), 'p': fr(p) if p is not None else None, 'ht': None, 'rev': None,
			'initIL': fr(initIL), 'initOrders': None, 'initShipments': None, 'ext_supply': ext, 'demand': ['0'] if demand else None, 'dis': None}


def simulate(spec, dsrc, seed):
	"""The real simulator on the spec's network with a RANDOM demand source at the demand node."""
	net, objs = simlib.build_py(spec)
	sink = [l for l in spec['labels'] if spec['nodes'][str(l)]['demand'] is not None][0]
	objs[sink].demand_source = dsrc
	sp = dict(spec); sp['seed'] = seed
	return simlib.run_py(sp, net_objs=(net, objs)), sink


def full_model_prefix(rep, drv, stream, spec, py, T0, case):
	"""Exact full-state comparison of the first T0 periods with the network model Model/Sim.lean on the drawn demands."""
	sp = dict(spec); sp['T'] = T0
	pref = {'trace': py['trace'][:T0]}
	resp = drv.call('sim', **simlib.model_request(sp, exo_from=pref['trace']))
	mo = simlib.canon_model(resp)
	if 'error' in mo:
		raise core.Infra('model driver error: ' + mo['error'])
	diffs = simlib.compare_traces(sp, pref, mo)
	rep.exact_cmp += sum(len(st['nodes']) * 13 + len(st['edges']) * 11 for st in pref['trace'])
	if diffs:
		rep.diff(stream, 'simulated trajectory differs from the network model on the drawn demands: ' + simlib.fmt_diffs(diffs), case,
				 py={'first_diffs': [list(map(str, d)) for d in diffs[:8]]}, oracle=False, theorem=None)
	return not diffs


def band(costs, warm):
	x = np.array([float(c) for c in costs[warm:]])
	nb = 30
	m = len(x) // nb
	bm = x[:m * nb].reshape(nb, m).mean(axis=1)
	return float(x.mean()), float(bm.std(ddof=1) / math.sqrt(nb))


def bs_case(rep, drv, rng, th):
	from stockpyl import newsvendor
	kind, par = gen_demand(rng, allow_normal=True)
	L = rng.choice([1, 1, 2, 3, 4])
	olt = rng.choice([0, 0, 1, 2]) if L >= 2 else 0       # part of the lead time may be ORDER lead time: the stage's lead time is olt + slt
	olt = min(olt, L - 1)
	h = rng.choice([1, 2, 0.5, 0.25]); p = rng.choice([4, 10, 2.5, 0.75])      # dyadic: the exact regime
	if kind == 'N':
		mu, sd = par[0] * L, par[1] * math.sqrt(L)
	else:
		q1 = one_period_pmf(kind, par)
		mu = float(sum(k * v for k, v in enumerate(q1))) * L
		sd = math.sqrt(float(sum(k * k * v for k, v in enumerate(q1))) - (mu / L) ** 2) * math.sqrt(L)
	zopt = {4: .8, 10: 1.3, 2.5: .6, .75: .6}[p]
	S = mu + sd * (zopt + rng.choice([0, 0, -1.5, 1, 2.5, -.7]))
	S = max(0, round(S)) if kind != 'N' else round(S * 4) / 4
	T = (12000 if th else 3000)
	seed = rng.randrange(1, 10 ** 6)
	case = {'kind': 'BS', 'demand': kind, 'par': par, 'L': L, 'order_lead_time': olt, 'shipment_lead_time': L - olt, 'h': h, 'p': p, 'S': S, 'T': T, 'seed': seed}
	rep.case('single-stage-BS', case, nontrivial=True); rep.count('bs:demand=' + kind); rep.count('bs:L=%d' % L); rep.count('bs:order-lead-time=%d' % olt)
	spec = {'kind': 'single', 'labels': [1], 'edges': [], 'T': T, 'nodes': {'1': node_spec({'t': 'BS', 'a': fr(S)}, L - olt, h, p, S, olt=olt)}}
	py, sink = simulate(spec, make_ds(kind, par), seed)
	if 'error' in py:
		rep.diff('single-stage-BS', 'simulator raised %s: %s' % (py['error'], py.get('msg')), case, py=py.get('tb'), oracle=True, theorem=THEOREM); return
	tr = py['trace']
	dem = [st['edges'][1]['io'] for st in tr]           # edge 0 = external supplier, edge 1 = external customer
	il = [st['nodes'][0]['il'] for st in tr]
	tc = [st['nodes'][0]['tc'] for st in tr]
	bad = []
	# property predicate on the real code (proved of the model for every path)
	for t in range(T):
		want = F(float(S)) - sum(dem[max(0, t - L + 1):t + 1], F(0))
		tol = 0 if kind != 'N' else 1e-9 * (1 + abs(float(want)))
		if abs(il[t] - want) > tol:
			bad.append('t=%d: inventory level %s but S - (demand of the last %d periods) = %s' % (t, float(il[t]), L, float(want))); break
		c = float(h) * max(float(il[t]), 0) + float(p) * max(-float(il[t]), 0)
		if abs(float(tc[t]) - c) > 1e-9 * (1 + abs(c)):
			bad.append('t=%d: cost charged %r but h*IL+ + p*IL- = %r (IL=%s)' % (t, float(tc[t]), c, float(il[t]))); break
	# specialised model the theorems are about
	diffs = []
	if kind != 'N':
		mo = drv.call('ss1path', S=fr(S), L=L, h=fr(h), p=fr(p), demands=frs(dem))
		mil = [unfr(x) for x in mo['il']]; mc = [unfr(x) for x in mo['cost']]
		rep.exact_cmp += 2 * T
		for t in range(T):
			if mil[t] != il[t] or not close(mc[t], tc[t], 1e-12):
				diffs.append('t=%d IL %s vs model %s, cost %s vs model %s' % (t, float(il[t]), float(mil[t]), float(tc[t]), float(mc[t]))); break
		full_model_prefix(rep, drv, 'single-stage-BS', spec, py, 60, case)
	# analytical value
	try:
		with warnings.catch_warnings():
			warnings.simplefilter('ignore')
			if kind == 'N':
				ana = newsvendor.newsvendor_normal_cost(S, h, p, par[0], par[1], lead_time=L - 1)
			elif kind == 'P':
				ana = newsvendor.newsvendor_poisson_cost(S, h, p, par * L)
			else:
				dist = make_ds(kind, par).lead_time_demand_distribution(L)
				lo, hi = dist.support()
				pmf = {k: float(dist.pmf(k)) for k in range(int(lo), int(hi) + 1)}
				_, ana = newsvendor.newsvendor_discrete(h, p, demand_pmf=pmf, base_stock_level=S)
	except Exception as e:
		rep.diff('single-stage-BS', 'analytical cost raised %s' % err_enum(e), case, oracle=True, theorem=THEOREM); return
	if kind != 'N':
		ex = drv.call('ss1expect', pmf=frs(q1), L=L, h=fr(h), p=fr(p), S=[int(S)])
		rep.tol_cmp += 1
		mexp = float(unfr(ex['cost'][0]))
		if not close(mexp, ana, 1e-7):
			bad.append('analytical cost %r but the exact expected period cost of the simulated stage is %r' % (ana, mexp))
	avg, se = band(tc, L)
	rep.count('bs:long-run-compared')
	dev = abs(avg - ana)
	rep.count('bs:dev<=2se' if dev <= 2 * se else ('bs:dev<=4se' if dev <= 4 * se else 'bs:dev>4se'))
	if dev > 8 * se + 1e-9 * (1 + abs(ana)):
		bad.append('long-run average cost %.6g over %d periods vs analytical %.6g: off by %.1f standard errors' % (avg, T - L, ana, dev / max(se, 1e-300)))
	# "over all cost parameters and base-stock levels": the same network object, given other rates and another level, is simulated again;
	# the pathwise identity (proved of the model for every path and every h, p, S) must hold with the NEW parameters
	if kind != 'N' and rng.random() < .6:
		h2 = rng.choice([x for x in (1, 2, 0.5, 0.25, 3) if x != h]); p2 = rng.choice([x for x in (4, 10, 2.5, 0.75, 6) if x != p]); S2 = max(0, int(S) + rng.choice([-3, -1, 2, 5]))
		node = py['objs'][1]
		node.local_holding_cost = h2; node.stockout_cost = p2; node.inventory_policy.base_stock_level = S2; node.initial_inventory_level = S2
		sp2 = dict(spec); sp2['T'] = 300; sp2['seed'] = seed + 1
		py2 = simlib.run_py(sp2, net_objs=(py['net'], py['objs']))
		rep.count('bs:re-run-with-other-parameters')
		if 'error' in py2:
			bad.append('second simulation of the same network with h=%s p=%s S=%s raised %s' % (h2, p2, S2, py2['error']))
		else:
			dem2 = [st['edges'][1]['io'] for st in py2['trace']]
			for t in range(300):
				want = F(S2) - sum(dem2[max(0, t - L + 1):t + 1], F(0))
				il2 = py2['trace'][t]['nodes'][0]['il']; tc2 = py2['trace'][t]['nodes'][0]['tc']
				c = F(h2) * max(want, 0) + F(p2) * max(-want, 0)
				if il2 != want or tc2 != c:
					bad.append('same network re-simulated with h=%s p=%s S=%s: t=%d inventory level %s (S - lead-time demand = %s), cost charged %s but h*IL+ + p*IL- = %s' % (
						h2, p2, S2, t, float(il2), float(want), float(tc2), float(c))); break
	if bad or diffs:
		rep.diff('single-stage-BS', '; '.join((bad + ['model/implementation differ: ' + d for d in diffs])[:3]), case,
				 py={'avg': avg, 'se': se, 'analytical': ana}, oracle=bool(bad), theorem=THEOREM if not diffs else None)


def ss_case(rep, drv, rng, th, neg=False):
	from stockpyl import ss
	kind, par = gen_demand(rng)
	q1 = one_period_pmf(kind, par)
	mu = float(sum(k * v for k, v in enumerate(q1)))
	h = rng.choice([1, 2, 0.5]); p = rng.choice([4, 10, 2.5]); K = rng.choice([0.5, 5, 20, 2.5])
	s = int(max(0, round(mu + rng.choice([-2, 0, 1, 3]))))
	if neg:
		# a NEGATIVE reorder point (order only once a backlog of 2 or 3 units has built up): legal, and optimal when stockouts are cheap and orders dear
		s = -rng.choice([2, 3]); p = rng.choice([2.5, 3]); K = rng.choice([20, 40]); rep.count('ss:negative-reorder-point')
	S = s + rng.randint(1, int(3 * mu) + 3)
	T = (12000 if th else 3000)
	seed = rng.randrange(1, 10 ** 6)
	case = {'kind': 'sS', 'demand': kind, 'par': par, 's': s, 'S': S, 'h': h, 'p': p, 'K': K, 'T': T, 'seed': seed}
	rep.case('single-stage-sS', case, nontrivial=True); rep.count('ss:demand=' + kind)
	spec = {'kind': 'single', 'labels': [1], 'edges': [], 'T': T, 'nodes': {'1': node_spec({'t': 'sS', 'a': fr(s), 'b': fr(S)}, 1, h, p, S)}}
	py, sink = simulate(spec, make_ds(kind, par), seed)
	if 'error' in py:
		rep.diff('single-stage-sS', 'simulator raised %s: %s' % (py['error'], py.get('msg')), case, py=py.get('tb'), oracle=True, theorem=THEOREM); return
	tr = py['trace']
	dem = [st['edges'][1]['io'] for st in tr]
	il = [st['nodes'][0]['il'] for st in tr]
	tc = [st['nodes'][0]['tc'] for st in tr]
	oq = [st['edges'][0]['oq'] for st in tr]
	bad = []; diffs = []
	# chain predicate on the real code: x_{t+1} = S if x_t - d_t <= s else x_t - d_t; IL_t = x_t - d_t
	x = F(S)
	for t in range(T):
		if il[t] != x - dem[t]:
			bad.append('t=%d: inventory level %s but (position after ordering) - demand = %s' % (t, float(il[t]), float(x - dem[t]))); break
		want_q = (F(S) - (x - dem[t])) if x - dem[t] <= s else F(0)
		if oq[t] != want_q:
			bad.append('t=%d: ordered %s but the (s,S) rule at position %s gives %s' % (t, float(oq[t]), float(x - dem[t]), float(want_q))); break
		c = float(h) * max(float(il[t]), 0) + float(p) * max(-float(il[t]), 0)
		if abs(float(tc[t]) - c) > 1e-9 * (1 + abs(c)):
			bad.append('t=%d: cost charged %r but h*IL+ + p*IL- = %r' % (t, float(tc[t]), c)); break
		x = x - dem[t] + oq[t]
	mo = drv.call('ss1sspath', s=fr(s), S=fr(S), L=1, il0=fr(S), h=fr(h), p=fr(p), demands=frs(dem))
	mil = [unfr(v) for v in mo['il']]; mc = [unfr(v) for v in mo['cost']]; mq = [unfr(v) for v in mo['order']]
	rep.exact_cmp += 3 * T
	for t in range(T):
		if mil[t] != il[t] or mq[t] != oq[t] or not close(mc[t], tc[t], 1e-12):
			diffs.append('t=%d IL %s/%s order %s/%s cost %s/%s (python/model)' % (t, float(il[t]), float(mil[t]), float(oq[t]), float(mq[t]), float(tc[t]), float(mc[t]))); break
	full_model_prefix(rep, drv, 'single-stage-sS', spec, py, 60, case)
	# analytical value: holding/stockout + K per order
	try:
		with warnings.catch_warnings():
			warnings.simplefilter('ignore')
			if kind == 'P':
				ana = ss.s_s_cost_discrete(s, S, h, p, K, True, par)
			else:
				ana = ss.s_s_cost_discrete(s, S, h, p, K, False, None, len(q1) - 1, [float(v) for v in q1])
	except Exception as e:
		rep.diff('single-stage-sS', 'analytical cost raised %s' % err_enum(e), case, oracle=True, theorem=THEOREM); return
	m = drv.call('sscost', pmf=frs(q1), h=fr(h), b=fr(p), K=fr(K), s=s, S=S)
	rep.tol_cmp += 1
	if not close(unfr(m['cost']), ana, 1e-7):
		bad.append('s_s_cost_discrete = %r but the stationary cost of the chain the simulated stage follows is %r' % (ana, float(unfr(m['cost']))))
	rep.count('ss:certificate-' + ('ok' if m['certificate'] else 'not-exact(truncated pmf)'))
	B = float(unfr(m['B']))
	full = [float(tc[t]) + (K if oq[t] > 0 else 0) for t in range(T)]
	avg, se = band(full, 0)
	dev = abs(avg - ana)
	rep.count('ss:long-run-compared')
	rep.count('ss:dev<=2se' if dev <= 2 * se else ('ss:dev<=4se' if dev <= 4 * se else 'ss:dev>4se'))
	if dev > 8 * se + 2 * B / T + 1e-9 * (1 + abs(ana)):
		bad.append('long-run average cost %.6g over %d periods vs s_s_cost_discrete %.6g: off by %.1f standard errors' % (avg, T, ana, dev / max(se, 1e-300)))
	if bad or diffs:
		rep.diff('single-stage-sS', '; '.join((bad + ['model/implementation differ: ' + d for d in diffs])[:3]), case,
				 py={'avg': avg, 'se': se, 'analytical': ana}, oracle=bool(bad), theorem=THEOREM if not diffs else None)


def serial_case(rep, drv, rng, th, no_transit=None, overstock=None, stale=None):
	from stockpyl import ssm_serial
	from stockpyl.supply_chain_network import echelon_to_local_base_stock_levels
	import props.c07 as c07
	N = rng.choice([2, 2, 3])
	hloc = sorted([rng.choice([1, 2, 3, 4, 6]) for _ in range(N)], reverse=True)        # stage 1 (downstream) holds the dearest stock
	for j in range(1, N):
		if hloc[j] >= hloc[j - 1]:
			hloc[j] = hloc[j - 1] / 2
	hech = [hloc[j] - (hloc[j + 1] if j + 1 < N else 0) for j in range(N)]
	Ls = [rng.choice([1, 1, 2, 3]) for _ in range(N)]
	# only at the source stage (external supplier: an order delay is exactly extra lead time); an order delay between two stages
	# changes where stock waits and is outside what the SSM covers
	olts = [0] * (N - 1) + [min(rng.choice([0, 1, 2]), Ls[N - 1] - 1)]
	p = rng.choice([10, 20, 37.5])
	lam = rng.choice([2, 5])
	ds = make_ds('P', lam)
	kw = dict(num_nodes=N, echelon_holding_cost={j + 1: hech[j] for j in range(N)}, lead_time={j + 1: Ls[j] for j in range(N)}, stockout_cost=p, demand_source=ds)
	if stale if stale is not None else (N + sum(Ls) + int(p)) % 2 == 0:
		# moments passed next to the demand source are documented as ignored (an instance read off a network generically carries both)
		kw.update(demand_mean=float(lam) + 4, demand_standard_deviation=0.5); rep.count('serial:stale-moments-next-to-the-demand-source')
	T = 12000 if th else 4000
	seed = rng.randrange(1, 10 ** 6)
	case = {'kind': 'serial', 'N': N, 'h_local': hloc, 'L': Ls, 'order_lead_times': olts, 'p': p, 'lambda': lam, 'T': T, 'seed': seed}
	try:
		with warnings.catch_warnings():
			warnings.simplefilter('ignore')
			Sopt, _ = ssm_serial.optimize_base_stock_levels(**kw)
			Sech = {j: int(Sopt[j]) + rng.choice([0, 0, -2, 1, 3]) for j in Sopt}
			if overstock if overstock is not None else rng.random() < .3:
				# "base-stock levels at and away from the optimum": the source stage heavily overstocked (beyond mean + 8 sd of the total lead-time demand)
				tot = lam * sum(Ls)
				Sech[N] = int(tot + 11 * math.sqrt(tot)) + 3; rep.count('serial:source-stage-overstocked')
			for j in range(2, N + 1):
				Sech[j] = max(Sech[j], Sech[j - 1])                                         # non-negative local levels
			ana = ssm_serial.expected_cost(Sech, **kw)
	except Exception as e:
		rep.diff('serial-SSM', 'analytical side raised %s' % err_enum(e), case, oracle=True, theorem=THEOREM); return
	case['S_echelon'] = {str(k): v for k, v in Sech.items()}
	rep.case('serial-SSM', case, nontrivial=True); rep.count('serial:N=%d' % N)
	labels = list(range(1, N + 1))
	spec = {'kind': 'serial', 'labels': labels, 'edges': [[j + 1, j] for j in range(1, N)], 'T': T, 'nodes': {}}
	# in-transit stock is charged at the shipper's holding rate by default; an explicit in-transit rate of 0 switches that off
	if no_transit is None:
		no_transit = rng.random() < .4
	case['in_transit_holding_cost'] = 0 if no_transit else None
	for j in labels:
		oj = olts[j - 1]
		spec['nodes'][str(j)] = node_spec({'t': 'BS', 'a': '0'}, Ls[j - 1] - oj, hloc[j - 1], p if j == 1 else None, 0, ext=(j == N), demand=(j == 1), olt=oj)
	if no_transit:
		for j in labels:
			spec['nodes'][str(j)]['ht'] = '0'
		rep.count('serial:in-transit-rate-0')
	net0, _ = simlib.build_py(spec)
	Sloc = echelon_to_local_base_stock_levels(net0, Sech)
	for j in labels:
		spec['nodes'][str(j)]['policy']['a'] = fr(Sloc[j]); spec['nodes'][str(j)]['initIL'] = fr(Sloc[j])
	case['S_local'] = {str(k): v for k, v in Sloc.items()}
	py, sink = simulate(spec, ds, seed)
	if 'error' in py:
		rep.diff('serial-SSM', 'simulator raised %s: %s' % (py['error'], py.get('msg')), case, py=py.get('tb'), oracle=True, theorem=THEOREM); return
	tr = py['trace']
	full_model_prefix(rep, drv, 'serial-SSM', spec, py, 50, case)
	bad = []
	# echelon-to-local conversion: local = successive differences
	for j in labels:
		if Sloc[j] != Sech[j] - (Sech[j - 1] if j > 1 else 0):
			bad.append('echelon_to_local: stage %d local %s != %s - %s' % (j, Sloc[j], Sech[j], Sech.get(j - 1, 0)))
	# the conversion is exact for non-integer levels too (normal-demand optima are never integers)
	from stockpyl.supply_chain_network import local_to_echelon_base_stock_levels
	Sfrac = {j: Sech[j] + 0.25 * j + rng.choice([0.125, 0.5, 0.75]) for j in labels}
	for j in range(2, N + 1):
		Sfrac[j] = max(Sfrac[j], Sfrac[j - 1])
	try:
		Lfrac = echelon_to_local_base_stock_levels(net0, dict(Sfrac))
		back = local_to_echelon_base_stock_levels(net0, dict(Lfrac))
		for j in labels:
			if float(Lfrac[j]) != Sfrac[j] - (Sfrac[j - 1] if j > 1 else 0) or float(back[j]) != Sfrac[j]:
				bad.append('echelon levels %s convert to local %s and back to %s' % (Sfrac, dict(Lfrac), dict(back))); break
	except Exception as e:
		bad.append('level conversion raised %s' % err_enum(e))
	# period cost identity on the real trajectory: sum_j h'_j (IL_j+ + in transit to j-1) + p IL_1-  ==  sum_j h_j IN_j + (p + h'_1) IL_1-
	pos, edges, inE, outE = simlib.layout(spec)
	tot = []
	for t, st in enumerate(tr):
		c = sum(float(nd['tc']) for nd in st['nodes'])
		tot.append(c)
		if t < 400:
			ilv = [float(nd['il']) for nd in st['nodes']]
			it = [0.0] * N         # in transit INTO stage j (index j-1)
			for e, (a, b) in enumerate(edges):
				if b is not None and 'ispl' in st['edges'][e]:
					it[b] += float(sum(st['edges'][e]['ispl']))
			ech = []
			acc = 0.0
			for j in range(N):       # stage 1 first: echelon IL_j = sum_{i<=j} IL_i + in transit into stages i<j
				acc += ilv[j] + (it[j - 1] if j > 0 else 0.0)
				ech.append(acc)
			# echelon inventory (on hand + in transit downstream) uses IL_1 net of backorders
			want = sum(hech[j] * ech[j] for j in range(N)) + (p + hloc[0]) * max(-ilv[0], 0)
			# upstream stages' backorders are owed to downstream stages, not negative stock: use on-hand for j >= 2
			onhand = sum(hloc[j] * (max(ilv[j], 0) + (0.0 if no_transit else (it[j - 1] if j > 0 else 0.0))) for j in range(N)) + p * max(-ilv[0], 0)
			if abs(c - onhand) > 1e-9 * (1 + abs(c)):
				bad.append('t=%d: total cost charged %r but sum_j h_j(IL_j+ + in transit to its customer) + p*IL_1- = %r' % (t, c, onhand)); break
	warm = sum(Ls) + 5
	avg, se = band(tot, warm)
	if no_transit:
		# the SSM cost charges the pipeline into stage j (mean lam * L_j units) at the local rate of the stage that ships it
		ana_sim = ana - sum(hloc[j] * lam * Ls[j - 1] for j in range(1, N))
	else:
		ana_sim = ana
	trunc = 2e-4 * (p + sum(hech)) * N + 1e-6
	dev = abs(avg - ana_sim)
	rep.count('serial:long-run-compared')
	rep.count('serial:dev<=2se' if dev <= 2 * se else ('serial:dev<=4se' if dev <= 4 * se else 'serial:dev>4se'))
	rep.tol_cmp += 1
	ref = c07.forward_cost([Sech[j] for j in labels], hech, Ls, p, ds)
	if abs(ref - ana) > trunc:
		bad.append('expected_cost(%s) = %r but the exact top-down evaluation of the echelon policy is %r' % (Sech, ana, ref))
	if dev > 8 * se + trunc:
		bad.append('long-run average cost %.6g over %d periods vs SSM expected cost %.6g%s: off by %.1f standard errors' % (avg, T - warm, ana_sim, ' (pipeline term removed: in-transit rate 0)' if no_transit else '', dev / max(se, 1e-300)))
	bad += workflow(rep, N, hloc, Ls, p, lam, Sech, ana, seed)
	if bad:
		rep.diff('serial-SSM', '; '.join(bad[:3]), case, py={'avg': avg, 'se': se, 'analytical': ana}, oracle=True, theorem=THEOREM)


def workflow(rep, N, hloc, Ls, p, lam, Sech, ana, seed):
	"""The way a user goes from the analysis to the simulation, on ONE network object numbered upstream-first (stage j of the analysis is node
	N + 1 - j): evaluate the echelon levels with `network=`, convert them to local levels, install them by node index, simulate. The same system
	with the levels installed BEFORE any analytical call must give the identical trajectory, and the analytical value is the one of the
	parameter form."""
	from stockpyl import ssm_serial
	from stockpyl.supply_chain_network import serial_system, echelon_to_local_base_stock_levels
	from stockpyl.sim import simulation
	idx = lambda j: N + 1 - j          # analysis stage j (1 = downstream) -> node index
	def build():
		return serial_system(N, node_order_in_system=[idx(j) for j in range(N, 0, -1)], node_order_in_lists=[idx(j) for j in range(1, N + 1)],
			local_holding_cost=list(hloc), echelon_holding_cost=[hloc[j] - (hloc[j + 1] if j + 1 < N else 0) for j in range(N)], shipment_lead_time=list(Ls), stockout_cost=[p] + [0] * (N - 1), demand_type=['P'] + [None] * (N - 1), mean=[lam] + [None] * (N - 1),
			policy_type='BS', base_stock_level=[0] * N)
	out = []
	try:
		with warnings.catch_warnings():
			warnings.simplefilter('ignore')
			Se = {idx(j): Sech[j] for j in Sech}
			want_loc = {idx(j): Sech[j] - (Sech[j - 1] if j > 1 else 0) for j in Sech}
			net_a = build()
			ana_a = ssm_serial.expected_cost(Se, network=net_a)
			loc_a = echelon_to_local_base_stock_levels(net_a, Se)
			for i, v in loc_a.items():
				net_a.nodes_by_index[i].inventory_policy.base_stock_level = v
			tot_a = simulation(net_a, 300, rand_seed=seed % 10 ** 6, progress_bar=False)
			net_b = build()
			for i, v in want_loc.items():
				net_b.nodes_by_index[i].inventory_policy.base_stock_level = v
			tot_b = simulation(net_b, 300, rand_seed=seed % 10 ** 6, progress_bar=False)
			# the policies of a pilot system that has already been simulated, moved onto a fresh copy of the system (one Policy object per node,
			# installed with `node.inventory_policy = policy`): the policy then belongs to the node it is installed on
			pilot = build()
			for i, v in want_loc.items():
				pilot.nodes_by_index[i].inventory_policy.base_stock_level = v
			simulation(pilot, 25, rand_seed=7, progress_bar=False)
			net_c = build()
			for i in want_loc:
				net_c.nodes_by_index[i].inventory_policy = pilot.nodes_by_index[i].inventory_policy
			tot_c = simulation(net_c, 300, rand_seed=seed % 10 ** 6, progress_bar=False)
			# the same penalty given as a stockout-cost FUNCTION of the ending inventory level (documented argument: IL, negative when backordered)
			net_d = build()
			for i, v in want_loc.items():
				net_d.nodes_by_index[i].inventory_policy.base_stock_level = v
			net_d.nodes_by_index[idx(1)].stockout_cost = 0
			net_d.nodes_by_index[idx(1)].stockout_cost_function = (lambda pp: (lambda il: pp * max(0, -il)))(p)
			tot_d = simulation(net_d, 300, rand_seed=seed % 10 ** 6, progress_bar=False)
			# the documented options that only switch diagnostics (the consistency checks off, or raising instead of warning) leave the trajectory alone
			tots_cc = {}
			for cc_ in ('N', 'E'):
				net_e = build()
				for i, v in want_loc.items():
					net_e.nodes_by_index[i].inventory_policy.base_stock_level = v
				tots_cc[cc_] = simulation(net_e, 300, rand_seed=seed % 10 ** 6, progress_bar=False, consistency_checks=cc_)
		for cc_, tot_e in tots_cc.items():
			if tot_e != tot_b:
				out.append("simulation(consistency_checks=%r) gives total cost %r over 300 periods; with the default setting %r (same system, same seed)" % (cc_, tot_e, tot_b))
		if abs(tot_d - tot_b) > 1e-9 * max(1, abs(tot_b)):
			out.append('stockout penalty given as the function IL -> p * max(0, -IL) gives total cost %r over 300 periods; given as the rate p it gives %r (same seed)' % (tot_d, tot_b))
		if tot_c != tot_b:
			out.append('policies moved from an already simulated pilot system onto a fresh copy give total cost %r over 300 periods; the same levels set on a fresh copy give %r (same seed)' % (tot_c, tot_b))
		rep.count('serial:analysis-then-install-then-simulate')
		if abs(ana_a - ana) > 1e-9 * max(1, abs(ana)):
			out.append('expected_cost(network=upstream-first numbering) = %r, parameter form %r' % (ana_a, ana))
		if dict(loc_a) != want_loc:
			out.append('after expected_cost(network=net), echelon_to_local_base_stock_levels(net, %s) = %s; successive differences along the line are %s' % (Se, dict(loc_a), want_loc))
		if tot_a != tot_b:
			out.append('levels installed AFTER the analytical call on the same network give total cost %r over 300 periods, installed on a fresh copy of the system %r (same seed)' % (tot_a, tot_b))
	except Exception as e:
		import traceback
		out.append('analysis-then-simulate workflow raised %s: %s' % (err_enum(e), traceback.format_exc()[-200:]))
	return out


def run(rep, drv):
	th = rep.tier == 'thorough'
	rep.rule = ('single stage BS (L 1-4; Poisson/uniform/custom discrete/normal; S at and away from the optimum), (s,S) stage (L=1; K>=0) and 2-3 stage serial systems under local '
				'levels converted from echelon levels: the real simulator with its own random demands for %d periods vs (a) the Lean single-stage model path by path, (b) the network '
				'model on a prefix, (c) exact expected period cost of the model vs the analytical function, (d) long-run average vs analytical within 8 batch-means standard errors' % (12000 if th else 3000))
	rng = random.Random(rep.seed + 15)
	for k in range(60 if th else 14):
		bs_case(rep, drv, rng, th)
	for k in range(40 if th else 8):
		ss_case(rep, drv, rng, th, neg=(k % 3 == 0))
	for k in range(12 if th else 4):
		serial_case(rep, drv, rng, th, no_transit=(k % 2 == 1), overstock=(k % 4 == 0), stale=(k % 2 == 0))


def replay(rep, drv, doc):
	print('replaying the quick stream; recorded case:', doc['stream'], doc['case'])
	run(rep, drv)
