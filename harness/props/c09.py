"""C09 - loss functions equal their definitions."""
import random, warnings, math
from fractions import Fraction as F
import numpy as np
import core
from core import fr, frs, unfr, err_enum

TRUSTED = ["SciPy primitives (pdf/pmf/cdf/ppf/expect/quad) are black boxes; closed forms are compared (a) with the model's formula evaluated on the same primitive values "
		   "(1e-9) and (b) with their definitions by direct summation / numerical quadrature in the harness (1e-6..1e-8, labelled tests)",
		   "closed form = definition is a theorem only for finite pmfs (cdf branch, complement, second-order sum); for normal / lognormal / gamma / negative-binomial / Poisson "
		   "infinite sums and integrals only the complement identities are theorems (valid for any primitive values)"]
THEOREM = 'Props/C09.list'


def direct_discrete(pmf_items, x):
	n = sum((y - x) * q for y, q in pmf_items if y >= x)
	nb = sum((x - y) * q for y, q in pmf_items if y <= x)
	n2 = 0.5 * sum((y - x) * (y - x - 1) * q for y, q in pmf_items if y >= x)
	nb2 = 0.5 * sum((x - y) * (x + 1 - y) * q for y, q in pmf_items if y <= x)
	return n, nb, n2, nb2


def close(a, b, tol=1e-9):
	if not (math.isfinite(float(a)) and math.isfinite(float(b))):
		return float(a) == float(b)
	return abs(float(a) - float(b)) <= tol * max(1.0, abs(float(a)), abs(float(b)))


def run(rep, drv):
	import stockpyl.loss_functions as lf
	from scipy import stats
	from scipy import integrate
	rng = random.Random(rep.seed + 9)
	th = rep.tier == 'thorough'
	N = 1500 if th else 200
	rep.rule = ('finite pmfs (dyadic, zero-probability points) x integer x incl. outside the support: discrete_loss / discrete_second_loss (pmf-dict and scipy-object '
				'branches) vs exact model; every closed form on parameter grids vs the model formula on the same primitives and vs its definition (direct sum / quadrature); '
				'complement identity, non-negativity, monotonicity on the Python values. non-trivial = all')

	def report(stream, what, case, py, mo, bad):
		rep.diff(stream, what, case, py=py, model=mo, oracle=bad, theorem=THEOREM)

	# ---- finite pmf --------------------------------------------------------
	for k in range(N):
		D = rng.randint(1, 8)
		w = [rng.randint(0, 5) for _ in range(D + 1)]
		if sum(w) == 0:
			w[0] = 1
		den = 64
		q = [F(x * den // sum(w), den) for x in w]
		q[-1] += 1 - sum(q)
		if any(v < 0 for v in q):
			continue
		xs = [rng.randint(-2, D + 3) for _ in range(4)]
		case = {'pmf': frs(q), 'ys': xs}
		rep.case('discrete(pmf dict)', case)
		mo = drv.call('nvdiscrete', pmf=frs(q), h='1', b='1', ys=xs)
		# a pmf dict is a mapping: insertion order is arbitrary, zero-probability points may be absent
		items = [(d, float(v)) for d, v in enumerate(q) if v != 0 or rng.random() < .5]
		rng.shuffle(items)
		pmf = dict(items)
		rep.count('pmf-dict:' + ('ascending' if [k for k, _ in items] == sorted(k for k, _ in items) else 'unordered'))
		for i, x in enumerate(xs):
			try:
				with warnings.catch_warnings():
					warnings.simplefilter('ignore')
					n, nb = lf.discrete_loss(x, pmf=pmf)
					n2, nb2 = lf.discrete_second_loss(x, pmf=pmf)
			except Exception as e:
				report('discrete(pmf dict)', 'raised %s at x=%d' % (err_enum(e), x), case, None, None, True); break
			rep.exact_cmp += 4
			m = [unfr(mo['n'][i]), unfr(mo['nbar'][i]), unfr(mo['n2'][i]), unfr(mo['n2bar'][i])]
			if [F(float(v)) for v in (n, nb, n2, nb2)] != m:
				d = direct_discrete(list(enumerate([float(v) for v in q])), x)
				bad = not all(close(a, b) for a, b in zip((n, nb, n2, nb2), d))
				report('discrete(pmf dict)', 'x=%d: python %s model %s' % (x, (n, nb, n2, nb2), [float(v) for v in m]), case, [n, nb, n2, nb2], [str(v) for v in m], bad); break
			# cdf branch through a scipy object on the same pmf
			if x >= 0:
				try:
					with warnings.catch_warnings():
						warnings.simplefilter('ignore')
						dist = stats.rv_discrete(values=(list(range(D + 1)), [float(v) for v in q]))
						n_c, nb_c = lf.discrete_loss(x, distrib=dist)
						n2_c, nb2_c = lf.discrete_second_loss(x, distrib=dist)
				except Exception as e:
					report('discrete(scipy object)', 'discrete_loss/second_loss(distrib=...) raised %s at x=%d' % (err_enum(e), x), case, None, None, True); break
				rep.tol_cmp += 4
				if not (close(nb_c, float(unfr(mo['nbarCdf'][i]))) and close(n_c, float(m[0])) and close(nb_c, float(m[1])) and close(n2_c, float(m[2])) and close(nb2_c, float(m[3]))):
					report('discrete(scipy object)', 'x=%d: distrib branch (%r,%r,%r,%r) vs pmf definition %s' % (x, n_c, nb_c, n2_c, nb2_c, [float(v) for v in m]), case,
						   [n_c, nb_c, n2_c, nb2_c], [str(v) for v in m], True); break

	# ---- frozen scipy objects built in every way scipy allows (positional / keyword / loc), several calls in one process ----
	def frozen(rng):
		fam = rng.choice(['poisson', 'nbinom', 'geom', 'binom', 'randint'])
		loc = rng.choice([0, 0, 1, 3, 10])
		style = rng.choice(['pos', 'kw', 'loc-kw', 'all-kw'])
		if fam == 'poisson':
			pars = {'mu': rng.choice([2, 5, 9])}; order = ['mu']
		elif fam == 'nbinom':
			pars = {'n': rng.choice([2, 4]), 'p': rng.choice([0.2, 0.5])}; order = ['n', 'p']
		elif fam == 'geom':
			pars = {'p': rng.choice([0.2, 0.5])}; order = ['p']
		elif fam == 'binom':
			pars = {'n': rng.choice([5, 12]), 'p': rng.choice([0.25, 0.5])}; order = ['n', 'p']
		else:
			pars = {'low': rng.choice([0, 2]), 'high': rng.choice([6, 9])}; order = ['low', 'high']
		ctor = getattr(stats, fam)
		if style == 'pos':
			dist = ctor(*[pars[k] for k in order], loc) if loc else ctor(*[pars[k] for k in order])
		elif style == 'kw':
			dist = ctor(**pars) if not loc else ctor(loc=loc, **pars)
		elif style == 'loc-kw':
			dist = ctor(*[pars[k] for k in order], loc=loc)
		else:
			dist = ctor(loc=loc, **pars)
		return dist, {'family': fam, 'pars': pars, 'loc': loc, 'style': style}
	for k in range(N // 3):
		seq = []
		base = None
		for step in range(rng.randint(2, 5)):
			dist, desc = frozen(rng)
			if base is not None and rng.random() < .6:
				# same family and parameters as an earlier call, built differently (other loc / other keyword style)
				fam0, pars0 = base
				ctor = getattr(stats, fam0)
				loc = rng.choice([0, 1, 3, 10])
				order = {'poisson': ['mu'], 'nbinom': ['n', 'p'], 'geom': ['p'], 'binom': ['n', 'p'], 'randint': ['low', 'high']}[fam0]
				style = rng.choice(['loc-kw', 'all-kw', 'pos'])
				dist = ctor(*[pars0[k2] for k2 in order], loc=loc) if style == 'loc-kw' else (ctor(loc=loc, **pars0) if style == 'all-kw' else ctor(*[pars0[k2] for k2 in order], loc))
				desc = {'family': fam0, 'pars': pars0, 'loc': loc, 'style': style}
			elif base is None or rng.random() < .5:
				base = (desc['family'], desc['pars'])
			x = rng.randint(0, 20)
			seq.append(dict(desc, x=x))
			case = {'history': list(seq)}
			rep.case('discrete(frozen scipy object, call history)', case, nontrivial=len(seq) > 1)
			rep.count('frozen:' + desc['family'] + ':' + desc['style'])
			try:
				with warnings.catch_warnings():
					warnings.simplefilter('ignore')
					n, nb = lf.discrete_loss(x, distrib=dist)
					n2, nb2 = lf.discrete_second_loss(x, distrib=dist)
			except Exception as e:
				report('discrete(frozen scipy object, call history)', 'raised %s' % err_enum(e), case, None, None, True); break
			lo_s = int(dist.support()[0]); hi_s = dist.support()[1]
			hi = int(hi_s) if hi_s != float('inf') else int(dist.ppf(1 - 1e-15)) + 5
			items = [(y, float(dist.pmf(y))) for y in range(lo_s, hi + 1)]
			d = direct_discrete(items, x)
			rep.tol_cmp += 4
			tol = 1e-9 if hi_s != float('inf') else 1e-7
			if not all(close(a, b, tol) for a, b in zip((n, nb, n2, nb2), d)):
				report('discrete(frozen scipy object, call history)', 'call %d of the history: discrete losses (%r,%r,%r,%r) but the definitions give %s' % (
					len(seq), n, nb, n2, nb2, [float(v) for v in d]), case, [n, nb, n2, nb2], [float(v) for v in d], True); break

	# ---- standard normal loss table -----------------------------------------
	for k in range(max(4, N // 40)):
		start = rng.choice([-4, -1.5, 0]); stop = start + rng.choice([0.5, 2, 4]); step = rng.choice([0.25, 0.5, 0.125])
		comp = rng.random() < .5
		case = {'start': start, 'stop': stop, 'step': step, 'complementary': comp}
		rep.case('standard_normal_loss_dict', case)
		try:
			tab = lf.standard_normal_loss_dict(start, stop, step, comp)
			want = []
			z = start
			while z < stop:
				want.append(z); z += step
			ok = list(tab.keys()) == want and all(close(tab[zz], lf.standard_normal_loss(zz)[1 if comp else 0], 1e-12) for zz in want)
			# and the table is the loss function: Lbar(z) - L(z) = z
			other = lf.standard_normal_loss_dict(start, stop, step, not comp)
			ok = ok and all(close((tab[zz] - other[zz]) * (1 if comp else -1), zz, 1e-9) for zz in want)
		except Exception as e:
			ok = False
		rep.tol_cmp += 1
		if not ok:
			report('standard_normal_loss_dict', 'table does not hold the standard normal loss values at start, start+step, ... < stop', case, None, None, True)

	# ---- discrete families -------------------------------------------------
	for k in range(N // 2):
		fam = rng.choice(['poisson', 'geometric', 'negbin', 'negbin-ms'])
		x = rng.randint(0, 25)
		case = {'family': fam, 'x': x}
		bad = []
		try:
			with warnings.catch_warnings():
				warnings.simplefilter('ignore')
				if fam == 'poisson':
					mu = rng.choice([0.5, 2, 5.5, 12]); case['mu'] = mu
					dist = stats.poisson(mu)
					n, nb = lf.poisson_loss(x, mu); n2, nb2 = lf.poisson_second_loss(x, mu)
					f, Fx = float(stats.poisson.pmf(x, mu)), float(stats.poisson.cdf(x, mu))
					m1 = drv.call('closedloss', family='poisson', args=frs([x, mu, f, Fx])); m2 = drv.call('closedloss', family='poisson2', args=frs([x, mu, f, Fx]))
					mo = [float(unfr(v)) for v in m1 + m2]
				elif fam == 'geometric':
					p = rng.choice([0.1, 0.3, 0.5, 0.8]); case['p'] = p; x = max(x, 1); case['x'] = x
					dist = stats.geom(p)
					n, nb = lf.geometric_loss(x, p); n2, nb2 = lf.geometric_second_loss(x, p)
					mo = None
				else:
					r = rng.choice([2, 3.5, 6]); p = rng.choice([0.3, 0.5, 0.7]); case.update(r=r, p=p)
					dist = stats.nbinom(r, p)
					if fam == 'negbin':
						n, nb = lf.negative_binomial_loss(x, r=r, p=p); n2, nb2 = lf.negative_binomial_second_loss(x, r=r, p=p)
						# documented: mean and sd are ignored when r and p are both provided
						junk_m, junk_s = rng.choice([3.0, 23.0, 8.5]), rng.choice([1.0, 8.0])
						a1 = lf.negative_binomial_loss(x, r=r, p=p, mean=junk_m, sd=junk_s); a2 = lf.negative_binomial_second_loss(x, r=r, p=p, mean=junk_m, sd=junk_s)
						if not (close(a1[0], n) and close(a1[1], nb) and close(a2[0], n2) and close(a2[1], nb2)):
							bad.append('negative binomial losses with (r, p) AND (mean=%r, sd=%r) given: %r %r, but with (r, p) alone %r %r - mean/sd are documented as ignored' % (
								junk_m, junk_s, a1, a2, (n, nb), (n2, nb2)))
					else:
						mean = (1 - p) * r / p; sd = math.sqrt((1 - p) * r) / p
						n, nb = lf.negative_binomial_loss(x, mean=mean, sd=sd); n2, nb2 = lf.negative_binomial_second_loss(x, mean=mean, sd=sd)
					f, Fx = float(stats.nbinom.pmf(x, r, p)), float(stats.nbinom.cdf(x, r, p))
					beta = (1 - p) / p
					m1 = drv.call('closedloss', family='negbin', args=frs([x, r, beta, (1 - p) * r / p, f, Fx]))
					mo = [float(unfr(v)) for v in m1] + [None, None]
			hi = int(dist.ppf(1 - 1e-15)) + 5
			items = [(y, float(dist.pmf(y))) for y in range(0, hi)]
			d = direct_discrete(items, x)
		except Exception as e:
			report('discrete families', '%s raised %s' % (fam, err_enum(e)), case, None, None, True); continue
		rep.case('discrete families', case); rep.count('family:' + fam); rep.tol_cmp += 4
		if not all(close(a, b, 1e-8) for a, b in zip((n, nb, n2, nb2), d)):
			bad.append('closed form (%r,%r,%r,%r) != definition by direct summation %s' % (n, nb, n2, nb2, d))
		E = float(dist.mean()); V = float(dist.var())
		if not close(nb - n, x - E, 1e-8) or n < -1e-12 or nb < -1e-12 or not close(n2 + nb2, 0.5 * ((x - E) ** 2 + (x - E) + V), 1e-8):
			bad.append('complement / non-negativity identity violated')
		same = mo is None or all(m is None or close(a, m) for a, m in zip((n, nb, n2, nb2), mo))
		if bad or not same:
			report('discrete families', '%s x=%d: %s%s' % (fam, x, '; '.join(bad), '' if same else ' | model formula on the same primitives gives %s' % mo), case,
				   [n, nb, n2, nb2], mo, bool(bad))

	# ---- continuous families -----------------------------------------------
	for k in range(N // 2):
		fam = rng.choice(['stdnormal', 'normal', 'lognormal', 'exponential', 'gamma', 'uniform', 'continuous(generic)'])
		case = {'family': fam}
		bad = []
		try:
			with warnings.catch_warnings():
				warnings.simplefilter('ignore')
				mo = None; second = None
				if fam == 'stdnormal':
					x = rng.choice([-3, -1.5, -0.3, 0, 0.7, 2, 3.5]); dist = stats.norm()
					n, nb = lf.standard_normal_loss(x); second = lf.standard_normal_second_loss(x)
					phi, Phi = float(stats.norm.pdf(x)), float(stats.norm.cdf(x))
					mo = [float(unfr(v)) for v in drv.call('closedloss', family='stdnormal', args=frs([x, phi, Phi]))]
				elif fam == 'normal':
					mean, sd = rng.choice([0, 10, 50]), rng.choice([1, 3, 8]); x = mean + sd * rng.choice([-2.5, -1, 0, 0.4, 2]); dist = stats.norm(mean, sd)
					n, nb = lf.normal_loss(x, mean, sd); second = lf.normal_second_loss(x, mean, sd)
					z = (x - mean) / sd
					mo = [float(unfr(v)) for v in drv.call('closedloss', family='normal', args=frs([x, mean, sd, float(stats.norm.pdf(z)), float(stats.norm.cdf(z))]))]
				elif fam == 'lognormal':
					mu, sg = rng.choice([0, 1, 2]), rng.choice([0.3, 0.5, 1]); x = rng.choice([0.5, 1, 3, 8, 20]); dist = stats.lognorm(s=sg, scale=math.exp(mu))
					n, nb = lf.lognormal_loss(x, mu, sg)
				elif fam == 'exponential':
					mu = rng.choice([0.2, 1, 3]); x = rng.choice([0, 0.3, 1, 4]); dist = stats.expon(scale=1 / mu)
					n, nb = lf.exponential_loss(x, mu); second = lf.exponential_second_loss(x, mu)
				elif fam == 'gamma':
					a, b = rng.choice([1.5, 3, 6]), rng.choice([0.5, 1, 2]); x = rng.choice([0.5, 2, 5, 12]); dist = stats.gamma(a, scale=b)
					n, nb = lf.gamma_loss(x, a, b); second = lf.gamma_second_loss(x, a, b)
					mo = [float(unfr(v)) for v in drv.call('closedloss', family='gamma', args=frs([x, a, b, float(stats.gamma.pdf(x, a, scale=b)), float(stats.gamma.cdf(x, a, scale=b))]))]
				elif fam == 'uniform':
					a = rng.choice([0, 2, 5]); b = a + rng.choice([1, 4, 10]); x = a + (b - a) * rng.choice([0, 0.25, 0.5, 1]); dist = stats.uniform(a, b - a)
					n, nb = lf.uniform_loss(x, a, b); second = lf.uniform_second_loss(x, a, b)
					mo = [float(unfr(v)) for v in drv.call('closedloss', family='uniform', args=frs([x, a, b]))]
				else:
					dist = rng.choice([stats.norm(10, 2), stats.gamma(3, scale=2), stats.uniform(1, 6)]); x = float(dist.ppf(rng.choice([0.1, 0.5, 0.9])))
					n, nb = lf.continuous_loss(x, dist); second = lf.continuous_second_loss(x, dist)
				case['x'] = x
				lo, hi = float(dist.ppf(1e-13)), float(dist.ppf(1 - 1e-13))
				dn = integrate.quad(lambda y: (y - x) * dist.pdf(y), x, hi, limit=200)[0] if hi > x else 0.0
				dnb = integrate.quad(lambda y: (x - y) * dist.pdf(y), lo, x, limit=200)[0] if x > lo else 0.0
				if second is not None:
					d2 = 0.5 * integrate.quad(lambda y: (y - x) ** 2 * dist.pdf(y), x, hi, limit=200)[0] if hi > x else 0.0
					d2b = 0.5 * integrate.quad(lambda y: (x - y) ** 2 * dist.pdf(y), lo, x, limit=200)[0] if x > lo else 0.0
		except Exception as e:
			report('continuous families', '%s raised %s: %s' % (fam, err_enum(e), str(e)[:100]), case, None, None, True); continue
		rep.case('continuous families', case); rep.count('family:' + fam); rep.tol_cmp += 2
		if not (close(n, dn, 1e-6) and close(nb, dnb, 1e-6)):
			bad.append('first-order pair (%r,%r) != E[(X-x)+], E[(x-X)+] by quadrature (%r,%r)' % (n, nb, dn, dnb))
		if second is not None and not (close(second[0], d2, 1e-6) and close(second[1], d2b, 1e-6)):
			bad.append('second-order pair %r != definition by quadrature (%r,%r)' % (second, d2, d2b))
		if not close(nb - n, x - float(dist.mean()), 1e-6) or n < -1e-10 or nb < -1e-10:
			bad.append('complement / non-negativity violated')
		same = mo is None or (close(n, mo[0]) and close(nb, mo[1]))
		if bad or not same:
			report('continuous families', '%s x=%r: %s%s' % (fam, x, '; '.join(bad), '' if same else ' | model formula gives %s' % mo), case, [n, nb], mo, bool(bad))
	heavy_tails(rep)
	outside_support(rep)
	shifted_families(rep)
	special_values(rep)
	call_histories(rep)


def heavy_tails(rep):
	"""Arbitrary continuous distributions include heavy-tailed ones (finite mean, infinite variance): the COMPLEMENTARY second-order loss
	1/2 E[((x-X)+)^2] and the complementary first-order loss E[(x-X)+] are lower-tail integrals and always finite."""
	from stockpyl import loss_functions as lf
	from scipy import stats, integrate
	for nm, dist in (('pareto(1.5)', stats.pareto(1.5)), ('pareto(2,scale=10)', stats.pareto(2, scale=10)), ('lomax(1.8,scale=5)', stats.lomax(1.8, scale=5)),
					 ('gamma(3,scale=2)', stats.gamma(3, scale=2))):
		for q in (0.3, 0.6, 0.9):
			x = float(dist.ppf(q))
			case = {'family': 'heavy-tail', 'dist': nm, 'x': x}
			rep.case('continuous families', case); rep.count('family:heavy-tail'); rep.tol_cmp += 1
			try:
				with warnings.catch_warnings():
					warnings.simplefilter('ignore')
					n2, n2b = lf.continuous_second_loss(x, dist)
					_, nb = lf.continuous_loss(x, dist)
				lo = float(dist.support()[0])
				d2b = 0.5 * integrate.quad(lambda y: (x - y) ** 2 * dist.pdf(y), lo, x, limit=200)[0]
				dnb = integrate.quad(lambda y: (x - y) * dist.pdf(y), lo, x, limit=200)[0]
				if not (close(n2b, d2b, 1e-6) and close(nb, dnb, 1e-6)):
					rep.diff('continuous families', '%s x=%r: complementary losses (first %r, second %r) != lower-tail integrals (%r, %r)' % (nm, x, nb, n2b, dnb, d2b), case,
							 py=[float(nb), float(n2b)], model=None, oracle=True, theorem=THEOREM)
			except Exception as e:
				rep.diff('continuous families', '%s x=%r raised %s' % (nm, x, err_enum(e)), case, oracle=True, theorem=THEOREM)


def outside_support(rep):
	"""Arguments OUTSIDE the range the generic functions integrate over (ppf(1e-10) .. ppf(1 - 1e-10)): below the support of a non-negative
	or bounded distribution, above a bounded support, far in a normal tail. There the definitions are elementary: below the support
	E[(X-x)+] = E[X] - x, E[(x-X)+] = 0, 1/2 E[((X-x)+)^2] = (Var X + (E[X]-x)^2)/2; above it the mirror image."""
	from stockpyl import loss_functions as lf
	from scipy import stats
	for nm, dist, xs in (('expon(scale=2)', stats.expon(scale=2), (-3.0, -0.5)), ('gamma(3,scale=2)', stats.gamma(3, scale=2), (-1.0,)),
						 ('lognorm(0.5,scale=3)', stats.lognorm(0.5, scale=3), (-1.5,)), ('uniform(2,6)', stats.uniform(2, 6), (0.0, 1.5, 8.0, 9.5, 12.0)),
						 ('norm(50,8)', stats.norm(50, 8), (-5.0, 110.0)), ('beta(2,3) on [1,5]', stats.beta(2, 3, loc=1, scale=4), (0.0, 6.5))):
		m, v = float(dist.mean()), float(dist.var())
		for x in xs:
			case = {'family': 'outside-support', 'dist': nm, 'x': x}
			rep.case('continuous families', case); rep.count('family:outside-support'); rep.tol_cmp += 4
			below = x < m
			want = [m - x, 0.0] if below else [0.0, x - m]
			want2 = [0.5 * (v + (m - x) ** 2), 0.0] if below else [0.0, 0.5 * (v + (m - x) ** 2)]
			try:
				with warnings.catch_warnings():
					warnings.simplefilter('ignore')
					got = [float(t) for t in lf.continuous_loss(x, dist)]; got2 = [float(t) for t in lf.continuous_second_loss(x, dist)]
				if not all(close(a, b, 1e-6) for a, b in zip(got + got2, want + want2)):
					rep.diff('continuous families', '%s x=%r (outside the integration range): losses %r, second-order %r; the definitions give %r and %r' % (nm, x, got, got2, want, want2),
							 case, py=got + got2, model=want + want2, oracle=True, theorem=THEOREM)
			except Exception as e:
				rep.diff('continuous families', '%s x=%r raised %s' % (nm, x, err_enum(e)), case, oracle=True, theorem=THEOREM)


def shifted_families(rep):
	"""Arbitrary continuous distributions include shifted and scaled members of the families that also have a closed form (a frozen SciPy
	lognormal or gamma with loc != 0 is not the two-parameter distribution of the closed form)."""
	from stockpyl import loss_functions as lf
	from scipy import stats, integrate
	for nm, dist in (('lognorm(0.3, loc=250, scale=e^5)', stats.lognorm(0.3, 250, math.exp(5))), ('lognorm(0.5, loc=-60, scale=50)', stats.lognorm(0.5, -60, 50)),
					 ('gamma(3, loc=10, scale=2)', stats.gamma(3, loc=10, scale=2)), ('expon(loc=5, scale=2)', stats.expon(loc=5, scale=2)),
					 ('norm(loc=-30, scale=4)', stats.norm(-30, 4)), ('uniform(loc=-3, scale=9)', stats.uniform(-3, 9))):
		lo, hi = float(dist.ppf(1e-13)), float(dist.ppf(1 - 1e-13))
		for q in (0.2, 0.5, 0.85):
			x = float(dist.ppf(q))
			case = {'family': 'shifted', 'dist': nm, 'x': x}
			rep.case('continuous families', case); rep.count('family:shifted'); rep.tol_cmp += 4
			try:
				with warnings.catch_warnings():
					warnings.simplefilter('ignore')
					got = [float(t) for t in lf.continuous_loss(x, dist)] + [float(t) for t in lf.continuous_second_loss(x, dist)]
				want = [integrate.quad(lambda y: (y - x) * dist.pdf(y), x, hi, limit=200)[0], integrate.quad(lambda y: (x - y) * dist.pdf(y), lo, x, limit=200)[0],
						0.5 * integrate.quad(lambda y: (y - x) ** 2 * dist.pdf(y), x, hi, limit=200)[0], 0.5 * integrate.quad(lambda y: (x - y) ** 2 * dist.pdf(y), lo, x, limit=200)[0]]
				if not all(close(a, b, 1e-6) for a, b in zip(got, want)):
					rep.diff('continuous families', '%s x=%r: losses %r, the definitions by quadrature give %r' % (nm, x, got, want), case, py=got, model=want, oracle=True, theorem=THEOREM)
			except Exception as e:
				rep.diff('continuous families', '%s x=%r raised %s' % (nm, x, err_enum(e)), case, oracle=True, theorem=THEOREM)


def special_values(rep):
	"""Parameter values at which a family degenerates into another one or a formula simplifies (shape 1, rate 1, unit scale, p = 1/2 ...): the closed
	forms still equal the definitions (quadrature / direct summation)."""
	from stockpyl import loss_functions as lf
	from scipy import stats, integrate
	cont = []
	for a in (1, 1.0, 2, 0.5):
		for b in (0.5, 1, 3):
			cont.append(('gamma_loss(a=%r, b=%r)' % (a, b), lambda x, a=a, b=b: tuple(lf.gamma_loss(x, a, b)) + tuple(lf.gamma_second_loss(x, a, b)), stats.gamma(a, scale=b)))
	for mu in (1, 1.0, 0.25, 4):
		cont.append(('exponential_loss(mu=%r)' % mu, lambda x, mu=mu: tuple(lf.exponential_loss(x, mu)) + tuple(lf.exponential_second_loss(x, mu)), stats.expon(scale=1 / mu)))
	for m, sd in ((0, 1), (0, 2), (5, 1), (1, 1)):
		cont.append(('normal_loss(mean=%r, sd=%r)' % (m, sd), lambda x, m=m, sd=sd: tuple(lf.normal_loss(x, m, sd)) + tuple(lf.normal_second_loss(x, m, sd)), stats.norm(m, sd)))
	for mu, sg in ((0, 1), (0, 0.5), (1, 1)):
		cont.append(('lognormal_loss(mu=%r, sigma=%r)' % (mu, sg), lambda x, mu=mu, sg=sg: tuple(lf.lognormal_loss(x, mu, sg)), stats.lognorm(sg, scale=math.exp(mu))))
	for a, b in ((0, 1), (0, 2), (1, 2), (-1, 1)):
		cont.append(('uniform_loss(a=%r, b=%r)' % (a, b), lambda x, a=a, b=b: tuple(lf.uniform_loss(x, a, b)) + tuple(lf.uniform_second_loss(x, a, b)), stats.uniform(a, b - a)))
	for nm, fn, dist in cont:
		lo, hi = float(dist.ppf(1e-13)), float(dist.ppf(1 - 1e-13))
		for q in (0.25, 0.6, 0.9):
			x = float(dist.ppf(q))
			case = {'family': 'special-values', 'call': nm, 'x': x}
			rep.case('continuous families', case); rep.count('family:special-values'); rep.tol_cmp += 1
			try:
				with warnings.catch_warnings():
					warnings.simplefilter('ignore')
					got = [float(t) for t in fn(x)]
				want = [integrate.quad(lambda y: (y - x) * dist.pdf(y), x, hi, limit=200)[0], integrate.quad(lambda y: (x - y) * dist.pdf(y), lo, x, limit=200)[0],
						0.5 * integrate.quad(lambda y: (y - x) ** 2 * dist.pdf(y), x, hi, limit=200)[0], 0.5 * integrate.quad(lambda y: (x - y) ** 2 * dist.pdf(y), lo, x, limit=200)[0]][:len(got)]
				if not all(close(a_, b_, 1e-6) for a_, b_ in zip(got, want)):
					rep.diff('continuous families', '%s at x=%r: %r, the definitions by quadrature give %r' % (nm, x, got, want), case, py=got, model=want, oracle=True, theorem=THEOREM)
			except Exception as e:
				rep.diff('continuous families', '%s at x=%r raised %s' % (nm, x, err_enum(e)), case, oracle=True, theorem=THEOREM)
	disc = [('poisson_loss(mean=%r)' % m, lambda x, m=m: tuple(lf.poisson_loss(x, m)) + tuple(lf.poisson_second_loss(x, m)), stats.poisson(m)) for m in (1, 1.0, 0.5, 2)]
	# large Poisson means (exp(-mean) is subnormal from about 708 and 0.0 from 746): the arguments around the mean
	big = [('poisson_loss(mean=%r)' % m, lambda x, m=m: tuple(lf.poisson_loss(x, m)) + tuple(lf.poisson_second_loss(x, m)), stats.poisson(m), xs_)
		   for m, xs_ in ((200, (180, 200, 215)), (730, (700, 730, 760)), (750, (720, 760)), (1000, (950, 1000, 1040)))]
	for nm, fn, dist, xs_ in big:
		lo_b, hi_b = int(dist.ppf(1e-16)), int(dist.ppf(1 - 1e-16)) + 5
		pm = [(y, float(dist.pmf(y))) for y in range(max(0, lo_b - 5), hi_b + 1)]
		for x in xs_:
			case = {'family': 'special-values', 'call': nm, 'x': x}
			rep.case('discrete(closed forms)', case); rep.count('family:large-poisson-mean'); rep.tol_cmp += 1
			try:
				with warnings.catch_warnings():
					warnings.simplefilter('ignore')
					got = [float(t) for t in fn(x)]
				want = [sum(q * max(y - x, 0) for y, q in pm), sum(q * max(x - y, 0) for y, q in pm),
						0.5 * sum(q * max(y - x, 0) * max(y - x - 1, 0) for y, q in pm), 0.5 * sum(q * max(x - y, 0) * max(x - y + 1, 0) for y, q in pm)]
				if not all(close(a_, b_, 1e-6) for a_, b_ in zip(got, want)):
					rep.diff('discrete(closed forms)', '%s at x=%r: %r, the definitions by summation give %r' % (nm, x, got, want), case, py=got, model=want, oracle=True, theorem=THEOREM)
			except Exception as e:
				rep.diff('discrete(closed forms)', '%s at x=%r raised %s' % (nm, x, err_enum(e)), case, oracle=True, theorem=THEOREM)
	disc += [('geometric_loss(p=%r)' % pp, lambda x, pp=pp: tuple(lf.geometric_loss(x, pp)) + tuple(lf.geometric_second_loss(x, pp)), stats.geom(pp)) for pp in (0.5, 0.25, 0.9)]
	disc += [('negative_binomial_loss(r=%r, p=%r)' % (r, pp), lambda x, r=r, pp=pp: tuple(lf.negative_binomial_loss(x, r, pp)) + tuple(lf.negative_binomial_second_loss(x, r, pp)), stats.nbinom(r, pp))
			 for r, pp in ((1, 0.3), (1, 0.5), (2, 0.5))]
	for nm, fn, dist in disc:
		top = int(dist.ppf(1 - 1e-15)) + 5 if dist.ppf(1 - 1e-15) < 1e6 else 2000
		lo_ = int(dist.support()[0])
		pm = [(y, float(dist.pmf(y))) for y in range(lo_, top + 1)]
		for x in (0, 1, 2, 5):
			case = {'family': 'special-values', 'call': nm, 'x': x}
			rep.case('discrete(closed forms)', case); rep.count('family:special-values'); rep.tol_cmp += 1
			try:
				with warnings.catch_warnings():
					warnings.simplefilter('ignore')
					got = [float(t) for t in fn(x)]
				want = [sum(q * max(y - x, 0) for y, q in pm), sum(q * max(x - y, 0) for y, q in pm),
						0.5 * sum(q * max(y - x, 0) * max(y - x - 1, 0) for y, q in pm), 0.5 * sum(q * max(x - y, 0) * max(x - y + 1, 0) for y, q in pm)]
				if not all(close(a_, b_, 1e-7) for a_, b_ in zip(got, want)):
					rep.diff('discrete(closed forms)', '%s at x=%r: %r, the definitions by summation give %r' % (nm, x, got, want), case, py=got, model=want, oracle=True, theorem=THEOREM)
			except Exception as e:
				rep.diff('discrete(closed forms)', '%s at x=%r raised %s' % (nm, x, err_enum(e)), case, oracle=True, theorem=THEOREM)


def call_histories(rep):
	"""A loss function is a function of its arguments: evaluated again with one argument changed (and once more unchanged) it gives what the same
	call gives alone in a fresh interpreter."""
	from scipy import stats
	H = core.one_argument_histories
	calls = []
	for fn, base, keys in (('normal_loss', dict(x=18, mean=15, sd=3), ['x', 'mean', 'sd']), ('normal_second_loss', dict(x=18, mean=15, sd=3), ['x', 'sd']),
						   ('lognormal_loss', dict(x=10, mu=2, sigma=0.3), ['x', 'mu', 'sigma']), ('exponential_loss', dict(x=1, mu=0.2), ['x', 'mu']),
						   ('gamma_loss', dict(x=4, a=2, b=3), ['x', 'a', 'b']), ('uniform_loss', dict(x=4, a=2, b=9), ['x', 'b']),
						   ('poisson_loss', dict(x=18, mean=15), ['x', 'mean']), ('poisson_second_loss', dict(x=18, mean=15), ['mean']),
						   ('geometric_loss', dict(x=3, p=0.2), ['x', 'p']), ('negative_binomial_loss', dict(x=14, r=6, p=0.4), ['x', 'r'])):
		bump = lambda k, v: (v + 2 if k in ('x', 'r') else (min(0.9, v + 0.3) if k == 'p' else v * 1.5 + 1))
		for kw in H(base, keys, bump):
			calls.append(('stockpyl.loss_functions', fn, (), kw))
	for kw in H(dict(x=3, pmf={0: .2, 1: .1, 4: .3, 7: .4}), ['x', 'pmf'], lambda k, v: {0: .4, 1: .1, 4: .3, 7: .2} if k == 'pmf' else v + 2):
		calls.append(('stockpyl.loss_functions', 'discrete_loss', (), kw)); calls.append(('stockpyl.loss_functions', 'discrete_second_loss', (), kw))
	for kw in H(dict(x=6.0, distrib=stats.gamma(3, scale=2)), ['x', 'distrib'], lambda k, v: stats.gamma(3, scale=4) if k == 'distrib' else v + 2):
		calls.append(('stockpyl.loss_functions', 'continuous_loss', (), kw)); calls.append(('stockpyl.loss_functions', 'continuous_second_loss', (), kw))
	for kw in H(dict(x=4, distrib=stats.binom(10, 0.4)), ['x', 'distrib'], lambda k, v: stats.binom(10, 0.7) if k == 'distrib' else v + 2):
		calls.append(('stockpyl.loss_functions', 'discrete_loss', (), kw))
	core.history_check(rep, 'call-history', calls, theorem=THEOREM)


def replay(rep, drv, doc):
	print('replaying the quick stream; recorded case:', doc['stream'], doc['case'])
	run(rep, drv)
