"""C02 - backorders / inventory level / service measures consistent."""
import simlib, simstream, mplib
TRUSTED = ["exact regime (integer / half-integer data): Python floats compared for equality with model rationals; fill rate "
		   "compared as the correctly rounded quotient", "single-product networks only at network level"]
FIELDS = ['il', 'bo', 'odi', 'os', 'io', 'is', 'ispl', 'rm', 'idi', 'oo', 'oq', 'dmfs', 'dmfsCum', 'dcum', 'fill', 'newFG', 'iopl']
THEOREM = 'Props/C02.list (bo_matches_il_kernel, shipOne_nonneg, shipOne_accounting, fill_rate_def)'

def oracle(spec, tr, init):
	return simlib.oracle_C02(spec, tr, init)

def run(rep, drv):
	th = rep.tier == 'thorough'
	rep.rule = ('random single-product networks (<=%d nodes), all policies, lead times, capacities, four disruption types; '
				'non-trivial = some period has a positive backorder; distinct by canonical spec' % (8 if th else 5))
	simstream.run_stream(rep, drv, 'sim-trace', 2500 if th else 250, FIELDS, oracle, THEOREM, th, seed_off=2)
	# customers with node index 0 and frequent disruptions (index 0 is legal and falsy; disruption bookkeeping is per customer index)
	simstream.run_stream(rep, drv, 'sim-trace', 600 if th else 80, FIELDS, oracle, THEOREM, th, force={'label0': True, 'pdis': .8}, seed_off=102)
	rerun_stream(rep, drv, 300 if th else 40, th)
	mplib.run_mp_stream(rep, drv, 'C02', THEOREM + ' + Props/MP (rm_conservation, rm_never_negative)', 400 if th else 50, th, seed_off=12)

def rerun_stream(rep, drv, n, th):
	"""Object life cycle: the same network objects simulated a second time (as run_multiple_trials does) - the second trajectory must
	satisfy the property and equal the model's, like the first."""
	import random
	rng = random.Random(rep.seed * 7 + 202)
	for k in range(n):
		spec = simlib.gen_spec(rng, th)
		r = simstream.one_case(rep, drv, 'sim-trace', spec, FIELDS, oracle, THEOREM)
		if r is None:
			continue
		py, mo, init = r
		py2 = simlib.run_py(spec, net_objs=(py['net'], py['objs']))
		rep.count('second-simulation-of-the-same-objects')
		if 'error' in py2:
			rep.diff('sim-trace', 'second simulation of the same network objects raised %s: %s' % (py2['error'], py2.get('msg')), spec, oracle=True, theorem=THEOREM)
			continue
		d = simlib.compare_traces(spec, py2, mo, FIELDS)
		fails = oracle(spec, py2['trace'], init)
		if d or fails:
			what = 'second simulation of the same network objects'
			if d:
				what += ': model/implementation differ: ' + simlib.fmt_diffs(d)
			if fails:
				what += ' | property predicate fails on the real code: ' + '; '.join(fails[:3])
			rep.diff('sim-trace', what, dict(spec, second_run=True), py={'first_diffs': [list(map(str, x)) for x in d[:8]], 'predicate_failures': fails[:8]},
					 oracle=bool(fails), theorem=THEOREM if not d else None)


def replay_mp(rep, drv, doc):
	mplib.mp_case(rep, drv, doc['case'], 'C02', THEOREM)

def replay(rep, drv, doc):
	if doc['stream'] == 'mp-kernels':
		return replay_mp(rep, drv, doc)
	r = simstream.one_case(rep, drv, doc['stream'], doc['case'], FIELDS, oracle, THEOREM)
	if doc['case'].get('second_run') and r is not None:
		py2 = simlib.run_py(doc['case'], net_objs=(r[0]['net'], r[0]['objs']))
		fails = oracle(doc['case'], py2['trace'], r[2]) if 'error' not in py2 else ['second simulation raised ' + py2['error']]
		if fails or simlib.compare_traces(doc['case'], py2, r[1], FIELDS):
			rep.diff('sim-trace', 'second simulation of the same network objects: ' + '; '.join(fails[:3]), doc['case'], oracle=bool(fails), theorem=THEOREM)
