"""C02 - backorders / inventory level / service measures consistent."""
import simlib, simstream, mplib
TRUSTED = ["exact regime (integer / half-integer data): Python floats compared for equality with model rationals; fill rate "
		   "compared as the correctly rounded quotient", "single-product networks only at network level"]
FIELDS = ['il', 'bo', 'odi', 'os', 'io', 'is', 'ispl', 'rm', 'idi', 'oo', 'oq', 'dmfs', 'dmfsCum', 'dcum', 'fill', 'newFG', 'iopl']
THEOREM = 'Props/C02.list (bo_matches_il_kernel, shipOne_nonneg, shipOne_accounting, fill_rate_def)'

def oracle(spec, tr, init):
	return simlib.oracle_C02(spec, tr, init)

def run(rep, drv):
	th = rep.tier == 'thorough'
	rep.rule = ('random single-product networks (<=%d nodes), all policies, lead times, capacities, four disruption types; '
				'non-trivial = some period has a positive backorder; distinct by canonical spec' % (8 if th else 5))
	simstream.run_stream(rep, drv, 'sim-trace', 2500 if th else 250, FIELDS, oracle, THEOREM, th, seed_off=2)
	# customers with node index 0 and frequent disruptions (index 0 is legal and falsy; disruption bookkeeping is per customer index)
	simstream.run_stream(rep, drv, 'sim-trace', 600 if th else 80, FIELDS, oracle, THEOREM, th, force={'label0': True, 'pdis': .8}, seed_off=102)
	mplib.run_mp_stream(rep, drv, 'C02', THEOREM + ' + Props/MP (rm_conservation, rm_never_negative)', 400 if th else 50, th, seed_off=12)

def replay_mp(rep, drv, doc):
	mplib.mp_case(rep, drv, doc['case'], 'C02', THEOREM)

def replay(rep, drv, doc):
	if doc['stream'] == 'mp-kernels':
		return replay_mp(rep, drv, doc)
	simstream.one_case(rep, drv, doc['stream'], doc['case'], FIELDS, oracle, THEOREM)
