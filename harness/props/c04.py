"""C04 - every order follows the policy."""
import random, warnings
from fractions import Fraction as F
import simlib, simstream, core, mplib
from core import fr, unfr
TRUSTED = ["exact regime; BEBS policies are outside the property and not modelled; BIG_FLOAT (1e100) modelled as no capacity"]
ECH_THEOREM = 'Props/C04Ech.lean echelon_equals_local_from_start (serial model Model/SerialEchelon.lean)'
THEOREM = 'Props/C04.list'


def pure_policy_stream(rep, drv, n):
	"""Policy.get_order_quantity(inventory_position=...) vs the model's Policy.qty / cap, exact."""
	from stockpyl.policy import Policy
	rng = random.Random(rep.seed + 4)
	for k in range(n):
		t = rng.choice(['BS', 'sS', 'rQ', 'FQ', 'EBS'])
		a = simlib.gen_value(rng, -5, 20, True); b = simlib.gen_value(rng, 0, 25, True)
		if t == 'sS' and b < a:
			a, b = b, a
		ip = rng.choice([a, b, a - 1, a + F(1, 2), simlib.gen_value(rng, -20, 30, True)])
		cap = rng.choice([None, None, simlib.gen_value(rng, 1, 10, True)])
		kw = {'BS': dict(base_stock_level=simlib.num(fr(a))), 'EBS': dict(base_stock_level=simlib.num(fr(a))),
			  'sS': dict(reorder_point=simlib.num(fr(a)), order_up_to_level=simlib.num(fr(b))),
			  'rQ': dict(reorder_point=simlib.num(fr(a)), order_quantity=simlib.num(fr(b))),
			  'FQ': dict(order_quantity=simlib.num(fr(a)))}[t]
		case = {'policy': {'t': t, 'a': fr(a), 'b': fr(b)}, 'ip': fr(ip), 'cap': fr(cap)}
		rep.case('policy-pure', case, nontrivial=True)
		rep.count('pure:' + t + (':boundary' if ip in (a, b) else ''))
		try:
			pol = Policy(type=t, **kw)
			py = F(float(pol.get_order_quantity(inventory_position=simlib.num(fr(ip)), order_capacity=simlib.num(fr(cap)))))
		except Exception as e:
			py = 'error:' + core.err_enum(e)
		mo = unfr(drv.call('policy', **case))
		rep.exact_cmp += 1
		want = simlib.policy_qty(case['policy'], ip)
		if cap is not None:
			want = min(want, cap)
		if py != mo or py != want:
			rep.diff('policy-pure', 'policy function: python=%s model=%s documented rule=%s' % (py, mo, want), case, py=str(py), model=str(mo),
					 oracle=(py != want), theorem=THEOREM)


def kernel_case(rep, drv, spec, net_objs=None):
	"""Model's orderQty kernel evaluated on Python's own observed state vs the order Python placed."""
	py = simlib.run_py(spec, net_objs=net_objs)
	for fl in simlib.spec_flags(spec):
		rep.count(fl)
	if 'error' in py:
		rep.case('order-kernel', spec, nontrivial=False)
		rep.diff('order-kernel', 'real simulator raised %s on an admissible network: %s' % (py['error'], py.get('msg')), spec,
				 py={'error': py['error'], 'tb': py.get('tb')}, oracle=True, theorem=THEOREM)
		return
	req = simlib.model_request(spec, exo_from=py['trace'])
	full = drv.call('sim', **req)
	init = simlib.canon_model({'trace': [full['init']], 'total': '0', 'orderSeq': [], 'shipSeq': [], 'orderOK': True})['trace'][0]
	rep.case('order-kernel', spec, nontrivial=simstream.nontrivial(spec, py))
	# hypotheses of orders_follow_policy_network / orders_follow_policy_network_ebs (Props/NetPolicy.lean, Props/NetEBS.lean), evaluated by the driver
	for hyp in ('netWF', 'visitOK', 'allVisited', 'exoOK'):
		ok = full.get(hyp, True)
		rep.count('net-theorem-hypothesis-%s-%s' % (hyp, 'true' if ok else 'FALSE'))
		if not ok:
			rep.diff('order-kernel', 'hypothesis %s of the network-level policy theorems is false on this generated network: the theorems do not cover it' % hyp,
					 spec, oracle=False, theorem='Props/NetPolicy.lean orders_follow_policy_network, Props/NetEBS.lean orders_follow_policy_network_ebs')
	if any(nd['policy']['t'] == 'EBS' for nd in spec['nodes'].values()):
		rep.count('order-kernel:network-with-echelon-base-stock-nodes')
	fails = simlib.oracle_C04(spec, py['trace'], init)
	diffs = []
	prev = init
	for t, st in enumerate(py['trace']):
		# state at ordering time: carried state + this period's inbound orders and disruption flags
		s = {'nodes': [dict(n) for n in prev['nodes']], 'edges': [dict(e) for e in prev['edges']]}
		for i, n in enumerate(s['nodes']):
			n['disrupted'] = st['nodes'][i]['disrupted']
		for e, ed in enumerate(s['edges']):
			if 'io' in st['edges'][e]:
				ed['io'] = st['edges'][e]['io']
		r = drv.call('orderqty', nodes=req['nodes'], edges=req['edges'], state=simstream.state_to_proto(s))
		for i, x in enumerate(r):
			want = F(0) if x['paused'] else unfr(x['q'])
			rep.exact_cmp += 1
			if st['nodes'][i]['oqfg'] != want:
				diffs.append('t=%d node%d(label %s): python ordered %s, model kernel on the same observed state (IP %s) orders %s' % (
					t, i, spec['labels'][i], st['nodes'][i]['oqfg'], x['ip'], want))
		prev = st
	if diffs or fails:
		what = ''
		if diffs:
			what = 'model kernel/implementation differ: ' + '; '.join(diffs[:3])
		if fails:
			what += ' | property predicate fails on the real code: ' + '; '.join(fails[:3])
		rep.diff('order-kernel', what, spec, py={'diffs': diffs[:10], 'predicate_failures': fails[:10]}, oracle=bool(fails),
				 theorem=THEOREM if not diffs else None)


def shrink_case(rep, drv, rng, th):
	"""Object life cycle: an echelon base-stock line is simulated, its customer-facing stage is then REMOVED from the network (the demand
	moves to the stage above it) and the shortened line is simulated again: every stage still orders from the echelon position of the
	network as it is NOW."""
	import copy
	from stockpyl.demand_source import DemandSource
	for _ in range(20):
		spec2 = simlib.gen_spec(rng, th, {'kind': 'serial', 'policy': 'EBS', 'pdis': 0})
		if len(spec2['labels']) >= 3:
			break
	else:
		return
	srcs = {a for a, b in spec2['edges']}
	sink = [l for l in spec2['labels'] if l not in srcs][0]
	pred = [a for a, b in spec2['edges'] if b == sink][0]
	if spec2['nodes'][str(pred)]['demand'] is not None:
		return
	py2 = simlib.run_py(spec2)
	if 'error' in py2:
		return
	net, objs = py2['net'], py2['objs']
	net.remove_node(objs[sink])
	spec1 = copy.deepcopy(spec2)
	spec1['labels'] = [l for l in spec2['labels'] if l != sink]
	spec1['edges'] = [e for e in spec2['edges'] if sink not in e]
	spec1['nodes'] = {k: v for k, v in spec1['nodes'].items() if k != str(sink)}
	spec1['nodes'][str(pred)]['demand'] = list(spec2['nodes'][str(sink)]['demand'])
	objs[pred].demand_source = DemandSource(type='D', demand_list=[simlib.num(x) for x in spec1['nodes'][str(pred)]['demand']])
	rep.count('order-kernel:line-shortened-after-a-first-simulation')
	kernel_case(rep, drv, spec1, net_objs=(net, {l: objs[l] for l in spec1['labels']}))


def ebs_equiv(rep, drv, n, th):
	"""Echelon base-stock vs converted local base-stock on serial systems (OLT = 0, no disruptions/capacity),
	started at the local levels: identical trajectories (Python vs Python, and model vs model)."""
	rng = random.Random(rep.seed + 44)
	differ_olt = 0
	for k in range(n):
		N = rng.randint(1, 6 if th else 4)
		labels = list(range(1, N + 1))           # node 1 = downstream-most (serial_system convention not needed)
		rng.shuffle(labels)
		chain = labels[:]                          # chain[0] upstream ... chain[-1] downstream
		local = [simlib.gen_value(rng, 0, 12, True) for _ in chain]
		# echelon level of stage j = sum of local levels of j and everything downstream
		ech = [sum(local[j:], F(0)) for j in range(N)]
		T = rng.randint(4, 14)
		dem = [fr(simlib.gen_value(rng, 0, 9, True)) for _ in range(rng.randint(2, T))]
		olt_pos = rng.random() < .15
		def mk(kind):
			nodes = {}
			for j, l in enumerate(chain):
				lvl = ech[j] if kind == 'EBS' else local[j]
				nodes[str(l)] = {'slt': rng_slt[j], 'olt': (rng_olt[j] if olt_pos else 0), 'policy': {'t': kind, 'a': fr(lvl)},
								 'cap': None, 'h': '1', 'p': '5', 'ht': None, 'rev': None, 'initIL': fr(local[j]),
								 'initOrders': None, 'initShipments': None, 'ext_supply': j == 0,
								 'demand': dem if j == N - 1 else None, 'dis': None}
			return {'kind': 'serial', 'labels': labels, 'edges': [[chain[j], chain[j + 1]] for j in range(N - 1)],
					'nodes': nodes, 'T': T}
		rng_slt = [rng.choice([0, 1, 2, 3]) for _ in chain]
		rng_olt = [rng.choice([1, 2]) for _ in chain]
		sa, sb = mk('EBS'), mk('BS')
		pa, pb = simlib.run_py(sa), simlib.run_py(sb)
		rep.case('ebs-vs-local', {'chain': chain, 'local': [fr(x) for x in local], 'T': T, 'demand': dem, 'slt': rng_slt,
								  'olt': rng_olt if olt_pos else 0}, nontrivial=N >= 2)
		if 'error' in pa or 'error' in pb:
			rep.diff('ebs-vs-local', 'simulator raised %s' % (pa.get('error') or pb.get('error')), sa, oracle=True)
			continue
		d = simlib.compare_traces(sa, pa, {'trace': pb['trace']}, fields=[f for f in simlib.NODE_FIELDS + simlib.CUST_FIELDS + simlib.SUPP_FIELDS])
		if olt_pos:
			differ_olt += bool(d)
			rep.count('ebs:olt>0 pair' + (' differs (legitimate)' if d else ' equal'))
			continue
		rep.count('ebs:N=%d' % N)
		if d:
			rep.diff('ebs-vs-local', 'echelon and converted local base-stock trajectories differ: ' + simlib.fmt_diffs(d), sa,
					 py={'diffs': [list(map(str, x)) for x in d[:8]]}, oracle=True, theorem=ECH_THEOREM)
		# the serial model the theorem echelon_equals_local is about (Model/SerialEchelon.lean), against the real simulator under BOTH policies
		pos_, _, _, _ = simlib.layout(sa)
		T_ = T
		dlist = [dem[t % len(dem)] for t in range(T_)]
		mdiffs = []
		for mode, py_ in (('echelon', pa), ('local', pb)):
			mo = drv.call('serial_ech', stages=[[fr(local[j]), rng_slt[j]] for j in range(N)], demands=dlist, mode=mode)
			if not mo['hypOK']:
				rep.count('ebs:theorem-hypothesis-FALSE')
				rep.diff('ebs-vs-local', 'hypotheses of echelon_equals_local_from_start (non-negative levels and demands) are false on this generated instance', sa, oracle=False, theorem=ECH_THEOREM)
			else:
				rep.count('ebs:theorem-hypotheses-true')
			if not mo['sameAsOther']:
				mdiffs.append('the serial model itself gives different trajectories under the two policies (contradicts echelon_equals_local)')
			if [unfr(x) for x in mo['echelonLevels']] != ech:
				mdiffs.append('model echelon levels %s, converted levels %s' % (mo['echelonLevels'], [fr(x) for x in ech]))
			for t in range(T_):
				for j, l in enumerate(chain):
					i = labels.index(l)          # position of the node in network.nodes order = position in the trace
					nd = py_['trace'][t]['nodes'][i]
					rep.exact_cmp += 2
					if nd['il'] != unfr(mo['il'][t][j]) or nd['oqfg'] != unfr(mo['orders'][t][j]):
						mdiffs.append('%s policy t=%d stage %d (node %s): python IL %s order %s, serial model IL %s order %s' % (
							mode, t, j, l, nd['il'], nd['oqfg'], mo['il'][t][j], mo['orders'][t][j]))
				if len(mdiffs) > 5:
					break
		if mdiffs:
			rep.diff('ebs-vs-local', 'serial echelon model/implementation differ: ' + '; '.join(mdiffs[:3]), sa, py={'diffs': mdiffs[:10]}, oracle=False, theorem=None)
		# also the level conversion functions of the library
		try:
			from stockpyl.supply_chain_network import echelon_to_local_base_stock_levels, local_to_echelon_base_stock_levels
			net, objs = simlib.build_py(sb)
			S_local = {l: simlib.num(fr(local[j])) for j, l in enumerate(chain)}
			S_ech = local_to_echelon_base_stock_levels(net, S_local)
			back = echelon_to_local_base_stock_levels(net, S_ech)
			if any(F(float(S_ech[l])) != ech[j] for j, l in enumerate(chain)) or any(F(float(back[l])) != local[j] for j, l in enumerate(chain)):
				rep.diff('ebs-vs-local', 'level conversion wrong: local %s -> echelon %s -> local %s' % (S_local, S_ech, back), sb, oracle=True)
		except Exception as e:
			rep.diff('ebs-vs-local', 'level conversion raised %s' % core.err_enum(e), sb, oracle=True)
	rep.extra['olt_positive_pairs_observed_to_differ'] = differ_olt


def run(rep, drv):
	th = rep.tier == 'thorough'
	rep.rule = ('(a) pure policy function on random parameters/positions incl. boundaries ip=s, ip=S and binding capacities; (b) order '
				'kernel: the model kernel orderQty evaluated on the state the real simulator observed, for every node and period of random '
				'single-product networks; (c) echelon vs converted local base-stock on serial systems. non-trivial (b) = some positive backorder')
	pure_policy_stream(rep, drv, 3000 if th else 500)
	rng = random.Random(rep.seed * 1000003 + 4)
	for k in range(1500 if th else 150):
		kernel_case(rep, drv, simlib.gen_spec(rng, th))
	# echelon base-stock under disruptions of every type (the echelon position counts what is held at the door, paused in transit, ...)
	for k in range(600 if th else 80):
		kernel_case(rep, drv, simlib.gen_spec(rng, th, {'kind': 'serial', 'policy': 'EBS', 'pdis': .8}))
	# echelon base-stock in distribution systems (several downstream-most nodes, each with its own backorders)
	for k in range(400 if th else 60):
		kernel_case(rep, drv, simlib.gen_spec(rng, th, {'kind': 'distribution', 'policy': 'EBS', 'pdis': .3}))
	rngs = random.Random(rep.seed * 5 + 404)
	for k in range(150 if th else 25):
		shrink_case(rep, drv, rngs, th)
	ebs_equiv(rep, drv, 600 if th else 80, th)
	mplib.run_mp_stream(rep, drv, 'C04', THEOREM + ' + Props/MP (ipMulti_single, earmark_bounds, rmOrders_sum)', 400 if th else 50, th, seed_off=14)

def replay(rep, drv, doc):
	if doc['stream'] == 'mp-kernels':
		return mplib.mp_case(rep, drv, doc['case'], 'C04', THEOREM)
	if doc['stream'] == 'order-kernel':
		kernel_case(rep, drv, doc['case'])
	elif doc['stream'] == 'policy-pure':
		from stockpyl.policy import Policy
		print('re-run the pure policy stream to reproduce:', doc['case'])
		pure_policy_stream(rep, drv, 500)
	else:
		ebs_equiv(rep, drv, 80, False)
