"""C08 - GSM optimisers: feasible, cost-consistent, globally optimal committed service times."""
import random, warnings, math, itertools
from fractions import Fraction as F
import core
from core import fr, frs, unfr, err_enum

TRUSTED = ["stage-cost tables c_k[tau] = h z sigma sqrt(tau) are computed in the harness with math.sqrt exactly as the code does (FP) and passed as exact rationals",
		   "serial DP: optimality and soundness are theorems (gsm_serial_optimal, gsm_serial_sound). Tree DP (Graves-Willems): the model carries the solution evaluators; "
		   "global optimality is checked against the model's exhaustive optimum over all integer CST vectors within the max-replenishment-time bounds (labelled test; "
		   "bruteForce_lower_bound proves the exhaustive value is a lower bound for every feasible vector in the box)",
		   "NetworkX longest paths / net demand aggregation are re-derived in the harness"]
THEOREM = 'Props/C08.list (gsm_serial_optimal, gsm_serial_sound, bruteForce_lower_bound)'


def close(a, b, tol=1e-9):
	import math as _m
	if not (_m.isfinite(float(a)) and _m.isfinite(float(b))):
		return float(a) == float(b)          # an infinite value is close to nothing finite
	return abs(float(a) - float(b)) <= tol * max(1.0, abs(float(a)), abs(float(b)))


def serial_case(rep, drv, rng):
	from stockpyl import gsm_serial
	N = rng.randint(1, 6)
	T = {k: rng.randint(0, 3) for k in range(1, N + 1)}
	h = {k: rng.choice([1, 2, 3, 5, 0.5]) for k in range(1, N + 1)}
	z = rng.choice([1, 1.645, 2.33]); sOut = rng.randint(0, 3); sIn = rng.randint(0, 3)
	sd = rng.choice([1, 10, 25.5])
	# the demand-bound constant may differ from stage to stage (dict), like every other per-stage parameter (own stream: the main one is unchanged)
	rng_z = random.Random(1009 * N + int(100 * sd) + sOut + 7 * sIn + sum(T.values()))
	zk = {k: z for k in range(1, N + 1)}
	if N >= 2 and rng_z.random() < .5:
		zk = {k: rng_z.choice([1, 1.645, 2.33, 3]) for k in range(1, N + 1)}
		rep.count('serial:stage-dependent-demand-bound-constant')
	case = {'N': N, 'T': T, 'h': h, 'z': zk, 'sOut': sOut, 'sIn': sIn, 'sd': sd}
	rep.case('gsm_serial', case, nontrivial=N >= 2); rep.count('serial:N=%d' % N)
	try:
		with warnings.catch_warnings():
			warnings.simplefilter('ignore')
			cst, cost = gsm_serial.optimize_committed_service_times(num_nodes=N, local_holding_cost=h, processing_time=T, demand_bound_constant=(zk if len(set(zk.values())) > 1 else list(zk.values())[0]),
					external_outbound_cst=sOut, external_inbound_cst=sIn, demand_mean=10, demand_standard_deviation=sd)
	except Exception as e:
		rep.diff('gsm_serial', 'raised %s' % err_enum(e), case, oracle=True, theorem=THEOREM); return
	maxtau = sIn + sum(T.values()) + 2
	stages = [{'T': T[k], 'c': frs([h[k] * zk[k] * sd * math.sqrt(t) for t in range(maxtau + 1)])} for k in range(N, 0, -1)]
	mo = drv.call('gsmserial', stages=stages, sOut=sOut, SI=sIn)
	rep.tol_cmp += 1
	bad = []
	vec = [int(cst[k]) for k in range(N, 0, -1)]
	# feasibility and cost of python's vector via the model's evaluators
	nodes = [{'T': T[k], 'c': stages[N - k]['c'], 'preds': [N - k - 1] if k < N else [], 'extIn': sIn if k == N else 0, 'extOut': sOut if k == 1 else None}
			 for k in range(N, 0, -1)]
	ev = drv.call('gsmtree', nodes=nodes, cst=vec)
	if cst[1] != sOut and N >= 1:
		bad.append('demand stage quotes %s, external outbound CST is %s' % (cst[1], sOut))
	if not ev['feasible'] and not (N == 1 or min(ev['nlt'][:-1]) >= 0):
		bad.append('returned CSTs %s are infeasible (net lead times %s)' % (vec, ev['nlt']))
	if ev['feasible'] and not close(cost, unfr(ev['cost'])):
		bad.append('reported cost %r != cost of the returned CSTs %r' % (cost, float(unfr(ev['cost']))))
	same = close(cost, unfr(mo['cost']))
	if not same or bad:
		rep.diff('gsm_serial', 'python cst %s cost %r; model cst %s cost %r %s' % (vec, cost, mo['cst'], float(unfr(mo['cost'])), '; '.join(bad)), case,
				 py=[vec, cost], model=mo, oracle=bool(bad) or (float(unfr(mo['cost'])) < cost - 1e-9 * max(1, cost)), theorem=THEOREM if same else None)
	return case, cost


def gen_tree(rng, nmax):
	kind = rng.choice(['serial', 'assembly', 'distribution', 'mixed', 'mixed'])
	n = rng.randint(2, nmax)
	if kind == 'serial':
		edges = [(i, i + 1) for i in range(n - 1)]
	elif kind == 'assembly':
		edges = [(i, n - 1) for i in range(n - 1)]
	elif kind == 'distribution':
		edges = [(0, i) for i in range(1, n)]
	else:
		edges = []
		for i in range(1, n):
			j = rng.randrange(i)
			edges.append((j, i) if rng.random() < .5 else (i, j))
	return kind, n, edges


def tree_case(rep, drv, rng, th, fixed=None):
	from stockpyl import gsm_tree
	from stockpyl.supply_chain_network import network_from_edges
	kind, n, pedges = gen_tree(rng, 6 if th else 5)
	labels = rng.sample(range(1, 40), n)
	edges = [(labels[a], labels[b]) for a, b in pedges]
	succ = {l: [] for l in labels}; pred = {l: [] for l in labels}
	for a, b in edges:
		succ[a].append(b); pred[b].append(a)
	T = {l: rng.randint(0, 3) for l in labels}
	h = {l: rng.choice([1, 2, 3, 5]) for l in labels}
	z = {l: rng.choice([1, 1.645]) for l in labels}
	sinks = [l for l in labels if not succ[l]]; sources = [l for l in labels if not pred[l]]
	# demand at every sink, and sometimes at an internal stage that also sells to the outside
	own = {l: (l in sinks or rng.random() < .25) for l in labels}
	mean = {l: (rng.choice([5, 10]) if own[l] else None) for l in labels}
	sd = {l: (rng.choice([1, 2, 4]) if own[l] else None) for l in labels}
	if any(own[l] and l not in sinks for l in labels):
		rep.count('tree:internal-stage-with-own-demand')
	extIn = {l: (rng.choice([0, 0, 1, 2]) if l in sources else None) for l in labels}
	# an outside supplier may also quote an inbound time to a stage that has suppliers of its own (its own stream: the main one is unchanged)
	rng_in = random.Random(7919 * sum(labels) + n)
	for l in labels:
		if l not in sources and rng_in.random() < .35:
			extIn[l] = rng_in.choice([1, 2, 4])
			rep.count('tree:external-inbound-cst-at-non-source-stage')
	extOut = {l: (rng.choice([0, 0, 1, 3]) if l in sinks else None) for l in labels}
	# a demand-bound constant of exactly 0 (a stage that holds no safety stock whatever its net lead time) is a value, not "missing"
	for l in labels:
		if rng_in.random() < .12:
			z[l] = 0; rep.count('tree:demand-bound-constant-0')
	# ... and an inner stage that also sells to the outside (own demand) may have promised those customers a service time of its own
	for l in labels:
		if l not in sinks and own[l] and rng_in.random() < .6:
			extOut[l] = rng_in.choice([0, 1, 2])
			rep.count('tree:external-outbound-cst-at-non-sink-stage')
	if fixed:
		# corpus instance: topology, labels and data given (positions 0..n-1 as in `labels`)
		kind, labels, edges = 'mixed', list(fixed['labels']), [tuple(e) for e in fixed['edges']]
		n = len(labels)
		succ = {l: [] for l in labels}; pred = {l: [] for l in labels}
		for a, b in edges:
			succ[a].append(b); pred[b].append(a)
		sinks = [l for l in labels if not succ[l]]; sources = [l for l in labels if not pred[l]]
		T, h = dict(fixed['T']), dict(fixed['h']); z = {l: 1.645 for l in labels}
		sd = dict(fixed['sd']); own = {l: sd[l] is not None for l in labels}; mean = {l: (10 if own[l] else None) for l in labels}
		extIn = {l: (0 if l in sources else None) for l in labels}; extOut = dict(fixed['extOut'])
		rep.count('tree:corpus')
	case = {'kind': kind, 'labels': labels, 'edges': edges, 'T': T, 'h': h, 'z': z, 'sd': sd, 'extIn': extIn, 'extOut': extOut}
	rep.case('gsm_tree', case, nontrivial=True); rep.count('tree:' + kind); rep.count('tree:n=%d' % n)
	def build(relabel=None):
		rl = (lambda l: relabel[l]) if relabel else (lambda l: l)
		with warnings.catch_warnings():
			warnings.simplefilter('ignore')
			return network_from_edges([(rl(a), rl(b)) for a, b in edges],
				processing_time={rl(l): T[l] for l in labels}, local_holding_cost={rl(l): h[l] for l in labels},
				demand_bound_constant={rl(l): z[l] for l in labels}, external_inbound_cst={rl(l): extIn[l] for l in labels},
				external_outbound_cst={rl(l): extOut[l] for l in labels}, demand_type={rl(l): ('N' if own[l] else None) for l in labels},
				mean={rl(l): mean[l] for l in labels}, standard_deviation={rl(l): sd[l] for l in labels})
	try:
		with warnings.catch_warnings():
			warnings.simplefilter('ignore')
			cst, cost = gsm_tree.optimize_committed_service_times(build())
	except Exception as e:
		import traceback
		rep.diff('gsm_tree', 'raised %s: %s' % (err_enum(e), traceback.format_exc()[-250:]), case, oracle=True, theorem=THEOREM); return
	# model: positions in topological order
	order = []
	remaining = set(labels)
	while remaining:
		for l in sorted(remaining):
			if all(p not in remaining for p in pred[l]):
				order.append(l); remaining.discard(l); break
	pos = {l: i for i, l in enumerate(order)}
	var = {}
	for l in reversed(order):
		var[l] = (sd[l] or 0) ** 2 + sum(var[s] for s in succ[l])
	M = {}
	for l in order:
		M[l] = T[l] + max([extIn[l] or 0] + [M[p] for p in pred[l]])
	maxtau = max(M.values()) + 1
	nodes = [{'T': T[l], 'c': frs([h[l] * z[l] * math.sqrt(var[l]) * math.sqrt(t) for t in range(maxtau + 1)]),
			  'preds': [pos[p] for p in pred[l]], 'extIn': extIn[l] or 0, 'extOut': extOut[l]} for l in order]
	vec = [int(cst[l]) for l in order]
	ev = drv.call('gsmtree', nodes=nodes, cst=vec)
	bad = []
	rep.tol_cmp += 1
	if not ev['feasible']:
		bad.append('returned CSTs %s are infeasible: net lead times %s, outbound limits %s' % (dict(cst), ev['nlt'], extOut))
	elif not close(cost, unfr(ev['cost'])):
		bad.append('reported cost %r != safety-stock cost of the returned CSTs %r' % (cost, float(unfr(ev['cost']))))
	desc_of = {}
	for l in reversed(order):
		desc_of[l] = set()
		for s_ in succ[l]:
			desc_of[l] |= {s_} | desc_of[s_]
	# the solution evaluators of gsm_helpers (cost / inbound CST / net lead time / base-stock and safety-stock levels of a GIVEN solution)
	# against the model evaluators, on the returned vector and on a random one
	try:
		from stockpyl import gsm_helpers
		with warnings.catch_warnings():
			warnings.simplefilter('ignore')
			tree = gsm_tree.preprocess_tree(build())
		for which, cv in (('returned', {l: int(cst[l]) for l in order}), ('random', {l: rng.randint(0, M[l]) for l in order})):
			for l in labels:
				if extOut[l] is not None and which == 'random':
					cv[l] = min(cv[l], extOut[l])
			evh = drv.call('gsmtree', nodes=nodes, cst=[cv[l] for l in order])
			with warnings.catch_warnings():
				warnings.simplefilter('ignore')
				nlt_h = gsm_helpers.net_lead_time(tree, list(labels), cv)
				si_h = gsm_helpers.inbound_cst(tree, list(labels), cv)
			for i, l in enumerate(order):
				si_ref = max([extIn[l] or 0] + [cv[q] for q in pred[l]])
				if si_h[l] != si_ref:
					bad.append('inbound_cst(%s) = %s for the %s CSTs %s, documented max(external, suppliers) = %s' % (l, si_h[l], which, cv, si_ref))
				if nlt_h[l] != evh['nlt'][i]:
					bad.append('net_lead_time(%s) = %s for the %s CSTs %s, model %s' % (l, nlt_h[l], which, cv, evh['nlt'][i]))
			if evh['feasible']:
				with warnings.catch_warnings():
					warnings.simplefilter('ignore')
					c_h = gsm_helpers.solution_cost_from_cst(tree, cv)
					ss_h = gsm_helpers.safety_stock_levels(tree, list(labels), cv)
					bs_h = gsm_helpers.cst_to_base_stock_levels(tree, list(labels), cv)
					c_b = gsm_helpers.solution_cost_from_base_stock_levels(tree, bs_h)
				rep.tol_cmp += 2
				if not close(c_h, unfr(evh['cost'])):
					bad.append('solution_cost_from_cst(%s CSTs %s) = %r, model %r' % (which, cv, c_h, float(unfr(evh['cost']))))
				# solution_cost_from_base_stock_levels is documented as holding cost x (level - demand mean): check exactly that
				want_cb = sum(h[l] * (bs_h[l] - (sum(mean[s_] for s_ in labels if own[s_] and (s_ == l or s_ in desc_of[l])))) for l in order)
				if not close(c_b, want_cb, 1e-9):
					bad.append('solution_cost_from_base_stock_levels = %r, documented sum h*(level - net demand mean) = %r' % (c_b, want_cb))
				for i, l in enumerate(order):
					nm = sum(mean[s_] for s_ in labels if own[s_] and (s_ == l or s_ in desc_of[l]))
					if not close(bs_h[l], nm * evh['nlt'][i] + ss_h[l], 1e-9):
						bad.append('cst_to_base_stock_levels(%s) = %r, net demand mean x NLT + safety stock = %r' % (l, bs_h[l], nm * evh['nlt'][i] + ss_h[l]))
				for i, l in enumerate(order):
					want_ss = z[l] * math.sqrt(var[l]) * math.sqrt(evh['nlt'][i])
					if not close(ss_h[l], want_ss, 1e-9):
						bad.append('safety_stock_levels(%s) = %r, z*sigma*sqrt(NLT) = %r' % (l, ss_h[l], want_ss))
		rep.count('tree:helpers-checked')
	except Exception as e:
		import traceback
		bad.append('gsm_helpers raised %s: %s' % (err_enum(e), traceback.format_exc()[-200:]))
	bounds = [min(M[l], extOut[l]) if extOut[l] is not None else M[l] for l in order]
	size = 1
	for b in bounds:
		size *= b + 1
	if size <= (300000 if th else 60000):
		bf = drv.call('gsmbrute', nodes=nodes, bounds=bounds)
		rep.count('tree:brute-force-checked')
		if 'cost' in bf and float(unfr(bf['cost'])) < cost - 1e-9 * max(1, cost):
			bad.append('a feasible integer CST vector costs %r < reported optimum %r' % (float(unfr(bf['cost'])), cost))
		elif 'cost' in bf and not close(cost, unfr(bf['cost'])) and not bad:
			bad.append('reported optimum %r is below the exhaustive minimum %r' % (cost, float(unfr(bf['cost']))))
	# relabelling invariance
	new = rng.sample(range(50, 99), n)
	relabel = {l: new[i] for i, l in enumerate(labels)}
	try:
		with warnings.catch_warnings():
			warnings.simplefilter('ignore')
			cst2, cost2 = gsm_tree.optimize_committed_service_times(build(relabel))
		if not close(cost, cost2):
			bad.append('renumbering the nodes changed the optimal cost: %r vs %r' % (cost, cost2))
	except Exception as e:
		bad.append('relabelled instance raised %s' % err_enum(e))
	# the public relabel_nodes: a tree that has already been relabelled (its nodes carry original_label) is a legal input; the answer comes
	# back under the labels of the network that was passed, with the same CST at every stage and the same cost
	try:
		with warnings.catch_warnings():
			warnings.simplefilter('ignore')
			pre = gsm_tree.preprocess_tree(build())
			rel = gsm_tree.relabel_nodes(pre, start_index=rng.choice([1, 1, 7]))
			back = {n_.index: n_.original_label for n_ in rel.nodes}
			cst3, cost3 = gsm_tree.optimize_committed_service_times(rel)
		rep.count('tree:solved-after-relabel_nodes')
		if set(cst3.keys()) != set(back.keys()):
			bad.append('after relabel_nodes the CSTs come back under labels %s, the network passed has labels %s' % (sorted(cst3.keys()), sorted(back.keys())))
		else:
			ev3 = drv.call('gsmtree', nodes=nodes, cst=[int(cst3[[k_ for k_, v_ in back.items() if v_ == l][0]]) for l in order])
			if not close(cost3, cost) or not ev3['feasible'] or not close(cost3, unfr(ev3['cost'])):
				bad.append('tree relabelled with relabel_nodes: cost %r (original numbering %r), CSTs mapped back %s feasible=%s cost %s' % (
					cost3, cost, {back[k_]: int(v_) for k_, v_ in cst3.items()}, ev3['feasible'], float(unfr(ev3['cost'])) if ev3['feasible'] else None))
	except Exception as e:
		import traceback
		bad.append('tree relabelled with relabel_nodes raised %s: %s' % (err_enum(e), traceback.format_exc()[-200:]))
	# serial systems: serial and tree algorithms agree
	if kind == 'serial' and all(extIn[l] in (None, 0) or l in sources for l in labels) and all(own[l] == (l in sinks) for l in labels):
		from stockpyl import gsm_serial
		chain = order      # upstream first
		N = len(chain)
		try:
			with warnings.catch_warnings():
				warnings.simplefilter('ignore')
				_, cs = gsm_serial.optimize_committed_service_times(num_nodes=N, local_holding_cost={N - i: h[l] for i, l in enumerate(chain)},
					processing_time={N - i: T[l] for i, l in enumerate(chain)}, demand_bound_constant={N - i: z[l] for i, l in enumerate(chain)},
					external_outbound_cst=extOut[chain[-1]], external_inbound_cst=extIn[chain[0]] or 0, demand_mean=mean[chain[-1]], demand_standard_deviation=sd[chain[-1]])
			if not close(cs, cost):
				bad.append('serial algorithm cost %r != tree algorithm cost %r on a serial system' % (cs, cost))
			rep.count('tree:serial-vs-tree')
		except Exception as e:
			bad.append('serial algorithm raised %s' % err_enum(e))
	# a tree that has been pre-processed and then EDITED (a demand standard deviation changed) is the edited instance: solving it gives what a
	# fresh build of the edited data gives
	try:
		l_ed = [l for l in labels if own[l]][0]
		with warnings.catch_warnings():
			warnings.simplefilter('ignore')
			pre2 = gsm_tree.preprocess_tree(build())
			pre2.nodes_by_index[l_ed].demand_source.standard_deviation = sd[l_ed] + 3
			cst4, cost4 = gsm_tree.optimize_committed_service_times(pre2)
			sd_keep = sd[l_ed]; sd[l_ed] = sd_keep + 3
			try:
				cst5, cost5 = gsm_tree.optimize_committed_service_times(build())
			finally:
				sd[l_ed] = sd_keep
		rep.count('tree:preprocessed-then-edited')
		if not close(cost4, cost5):
			bad.append('pre-processed tree whose demand sd at stage %s was then changed to %s: cost %r, the same data built afresh %r' % (l_ed, sd_keep + 3, cost4, cost5))
	except Exception as e:
		bad.append('pre-processed-then-edited tree raised %s' % err_enum(e))
	if bad:
		rep.diff('gsm_tree', '; '.join(bad[:3]), case, py={'cst': {str(k): v for k, v in cst.items()}, 'cost': cost}, model=ev, oracle=True, theorem=THEOREM)


def run(rep, drv):
	th = rep.tier == 'thorough'
	rep.rule = ('serial systems (1-6 stages) vs the exact serial DP model; random trees (serial/assembly/distribution/mixed, <=%d nodes) with processing times 0-3, '
				'external inbound/outbound CSTs: feasibility and cost of the returned CSTs via the model evaluators, exhaustive optimum over all integer CST vectors, '
				'relabelled copies, serial-vs-tree. non-trivial = >= 2 nodes' % (6 if th else 5))
	rng = random.Random(rep.seed + 8)
	for k in range(600 if th else 100):
		serial_case(rep, drv, rng)
	# corpus first: an assembly stage with a slow dedicated supplier and a supplier it shares with a second market, under every labelling of the four stages that
	# the optimiser can meet (the order in which the shared supplier is backtracked depends on it)
	import itertools as _it
	for perm in _it.permutations([1, 2, 3, 4]):
		A, B, C, D = perm          # slow supplier, assembly, shared supplier, second market
		tree_case(rep, drv, random.Random(7), th, fixed={'labels': [A, B, C, D], 'edges': [(A, B), (C, B), (C, D)], 'T': {A: 6, B: 1, C: 2, D: 1}, 'h': {A: 1.0, B: 1.2, C: 0.5, D: 5.0},
			'sd': {A: None, B: 2.0, C: None, D: 3.0}, 'extOut': {A: None, B: 0, C: None, D: 0}})

	for k in range(1200 if th else 200):
		tree_case(rep, drv, rng, th)


def replay(rep, drv, doc):
	print('replaying the quick stream; recorded case:', doc['stream'], doc['case'])
	run(rep, drv)
