"""C19 - generic MEIO search (enumeration, coordinate descent, golden-section search, grids)."""
import random, math, warnings
from fractions import Fraction as F
import core
from core import fr, frs, unfr, err_enum

TRUSTED = ["golden-section search: the model runs in exact rational arithmetic with r = the exact value of the double (sqrt(5)-1)/2 and r2 = 1-r "
		   "(r + r2 = 1 holds exactly for the two doubles); Python rounds every step, so x* is compared to 1e-9 (observed drift < 1e-13). The step count n "
		   "(math.log / math.ceil) is computed by the harness as the code does (FP)",
		   "gss_bracket is proved under the per-run side condition allOrdered (a<c<d<b in every visited state), which the driver evaluates for each run; "
		   "the unconditional statement needs r*r = 1-r, false for every rational (real golden ratio) - open target, see DESIGN.md",
		   "coordinate descent: sound/no-worse clauses are evaluated on the Python result (labelled test); every line search inside it is replayed through the model"]
THEOREM = 'Props/C19.list'

INVPHI = (math.sqrt(5) - 1) / 2
INVPHI2 = (3 - math.sqrt(5)) / 2


def gen_obj(rng, dim):
	if rng.random() < .6:
		a = [F(rng.randint(1, 8), 2) for _ in range(dim)]
		t = [F(rng.randint(0, 40), 2) for _ in range(dim)]
		cross = []
		if dim >= 2 and rng.random() < .5:
			i, k = rng.sample(range(dim), 2)
			cross.append([i, k, fr(F(rng.randint(-2, 2), 4))])
		spec = {'type': 'quad', 'a': frs(a), 't': frs(t), 'cross': cross}
		def f(x):
			return sum(float(ai) * (xi - float(ti)) * (xi - float(ti)) for ai, ti, xi in zip(a, t, x)) + \
				sum(float(F(c)) * x[i] * x[k] for i, k, c in cross)
	else:
		p = [F(rng.randint(1, 12), 2) for _ in range(dim)]
		h = [F(rng.randint(1, 6), 2) for _ in range(dim)]
		t = [F(rng.randint(0, 40), 2) for _ in range(dim)]
		spec = {'type': 'pwl', 'p': frs(p), 'h': frs(h), 't': frs(t)}
		def f(x):
			return sum(max(float(pi) * (float(ti) - xi), float(hi) * (xi - float(ti))) for pi, hi, ti, xi in zip(p, h, t, x))
	return spec, f


def gss_case(rep, drv, rng, fixed=None):
	from stockpyl.optimization import golden_section_search
	spec, fv = gen_obj(rng, 1)
	kind = rng.choice(['normal', 'normal', 'normal', 'reversed', 'degenerate', 'tiny', 'wide-fine'])
	a = F(rng.randint(-20, 60), 2); b = a + F(rng.randint(1, 80), 2)
	tol = rng.choice([1e-5, 1e-3, 1e-2, 0.5])
	if fixed:
		# corpus: a kink that is thousands of times steeper on one side than on the other, a loose tolerance, the minimiser anywhere inside
		kind = 'steep-one-side'
		pp_, hh_, tt_ = fixed
		spec = {'type': 'pwl', 'p': [fr(F(pp_))], 'h': [fr(F(hh_))], 't': [fr(F(tt_))]}
		fv = lambda x, pp_=float(pp_), hh_=float(hh_), tt_=float(tt_): max(pp_ * (tt_ - x[0]), hh_ * (x[0] - tt_))
		a, b, tol = F(0), F(100), 0.5
	if kind == 'wide-fine':
		# a wide interval with a fine tolerance (many halving steps); a piecewise-linear objective resolves its minimiser far below tol
		while spec['type'] != 'pwl':
			spec, fv = gen_obj(rng, 1)
		if rng.random() < .5:
			a = F(0); b = F(rng.choice([10 ** 5, 10 ** 6])); tol = 1e-6
			tt = F(rng.randint(1, 8 * 10 ** 5 * 8), 8)
		else:
			a = F(0); b = F(100); tol = 1e-10
			tt = F(rng.randint(1, 99 * 8), 8)
		spec = dict(spec, t=[fr(tt)])
		pp, hh = float(F(spec['p'][0])), float(F(spec['h'][0])); tf = float(tt)
		fv = lambda x, pp=pp, hh=hh, tf=tf: max(pp * (tf - x[0]), hh * (x[0] - tf))
	if kind == 'reversed':
		a, b = b, a
	elif kind == 'degenerate':
		b = a
	elif kind == 'tiny':
		b = a + F(1, 2 ** 20); tol = 1e-5
	case = {'obj': spec, 'a': fr(a), 'b': fr(b), 'tol': fr(tol), 'kind': kind}
	evals = [0]
	def f1(x):
		evals[0] += 1
		return fv([x])
	try:
		res = golden_section_search(f1, float(a), float(b), tol=tol)
	except Exception as e:
		res = ('error', err_enum(e))
	lo, hi = min(a, b), max(a, b)
	h = float(hi - lo)
	n = int(math.ceil(math.log(tol / h) / math.log(INVPHI))) if h > tol else 0
	mo = drv.call('gss', obj=spec, cur=['0'], coords=[0], r=fr(INVPHI), r2=fr(INVPHI2), a=fr(a), b=fr(b), tol=fr(tol), n=n)
	rep.case('golden_section_search', case, nontrivial=kind != 'degenerate')
	rep.count('gss:' + kind); rep.tol_cmp += 1
	# documented predicate on the Python result: a point in the interval within tol of the minimiser, and its value
	t = float(F(spec['t'][0]))
	xmin = min(max(t, float(lo)), float(hi))        # minimiser of the unimodal objective on the interval
	bad = []
	if res[0] == 'error':
		bad.append('raised ' + res[1])
	else:
		x, fx = res
		if not (float(lo) - 1e-12 <= x <= float(hi) + 1e-12):
			bad.append('returned point %r outside [%s, %s]' % (x, lo, hi))
		elif abs(x - xmin) > max(tol, h if h <= tol else 0) + 1e-9:
			bad.append('returned point %r is not within tol=%g of the minimiser %r' % (x, tol, xmin))
		if abs(fx - fv([x])) > 1e-9 * max(1, abs(fx)):
			bad.append('second component %r is not the function value %r at the returned point' % (fx, fv([x])))
	same = res[0] != 'error' and abs(res[0] - float(unfr(mo['x']))) <= 1e-9 and abs(res[1] - float(unfr(mo['fx']))) <= 1e-7 * max(1, abs(res[1]))
	if not mo['degenerate'] and not mo['ordered']:
		rep.count('gss:model-not-ordered')
		bad.append('model states not ordered (side condition of gss_bracket fails)')
	if h > tol and evals[0] != n + 2:
		same = False
	if not same and not bad and 'minGap' in mo and float(unfr(mo['minGap'])) <= 1e-9 * max(1.0, abs(res[1]) if res[0] != 'error' else 1.0):
		# f(c) = f(d) (to rounding) at some step: binary64 may take the other branch; both end points are within tol of the minimiser
		# (checked above on the real result). Not comparable step by step - counted, not reported.
		rep.count('gss:numerically-ambiguous-tie')
		same = True
	if not same or bad:
		rep.diff('golden_section_search', 'python %r (evaluations %d) model x=%s fx=%s (n=%d)%s' % (
			res, evals[0], float(unfr(mo['x'])), float(unfr(mo['fx'])), n, (' | ' + '; '.join(bad)) if bad else ''), case,
			py=[repr(res), evals[0]], model=mo, oracle=bool(bad), theorem=THEOREM if same else None)


def enum_case(rep, drv, rng):
	from stockpyl.meio_general import meio_by_enumeration
	from stockpyl.supply_chain_network import serial_system
	N = rng.randint(1, 4)
	order = rng.sample(range(0, 12), N)
	spec, fv = gen_obj(rng, N)
	nodes_sorted = order[:]      # network.node_indices order = insertion order of network_from_edges
	with warnings.catch_warnings():
		warnings.simplefilter('ignore')
		net = serial_system(N, node_order_in_system=order, local_holding_cost=1, demand_type='P', mean=3, policy_type='BS', base_stock_level=5)
	node_ids = list(net.node_indices)
	groups = None
	if N >= 2 and rng.random() < .4:
		g = rng.sample(node_ids, rng.randint(2, N))
		groups = [set(g)]
	mode = rng.choice(['explicit', 'lohistep', 'lohinum', 'defaults-hi'])
	kw = {}
	if mode == 'explicit':
		kw['base_stock_levels'] = {n: [float(F(rng.randint(0, 40), 2)) for _ in range(rng.randint(1, 4))] for n in node_ids}
	elif mode == 'lohistep':
		kw.update(truncation_lo={n: rng.randint(0, 5) for n in node_ids}, truncation_hi={n: rng.randint(6, 12) for n in node_ids},
				  discretization_step=rng.choice([1, 2, 0.5]))
	elif mode == 'lohinum':
		kw.update(truncation_lo=rng.randint(0, 4), truncation_hi=rng.randint(5, 12), discretization_num=rng.choice([2, 4]))
	else:
		kw.update(truncation_lo=-3, truncation_hi=0)
	# the documented grid, computed first: it bounds the number of objective evaluations the enumeration may perform
	opt0 = drv.call('optgroup', groups=[sorted(g) for g in groups] if groups else [], nodes=node_ids)
	size = 1
	for n in sorted(set(opt0)):
		if mode == 'explicit':
			size *= len(kw['base_stock_levels'][n])
		else:
			pk = lambda v: v[n] if isinstance(v, dict) else v
			size *= len(drv.call('grid', lo=fr(pk(kw.get('truncation_lo'))), hi=fr(pk(kw.get('truncation_hi'))),
								 step=fr(pk(kw.get('discretization_step'))) if kw.get('discretization_step') is not None else None,
								 num=pk(kw.get('discretization_num')) if kw.get('discretization_num') is not None else None))
	class TooMany(Exception):
		pass
	calls = []
	def obj(S):
		calls.append(dict(S))
		if len(calls) > size + 5:
			raise TooMany()
		return fv([S[n] for n in node_ids])
	too_many = False
	try:
		with warnings.catch_warnings():
			warnings.simplefilter('ignore')
			with core.time_limit(int(15 + size / 2000)):          # a documented grid of `size` vectors is enumerated in far less than this
				best_S, best_cost = meio_by_enumeration(net, groups=groups, objective_function=obj, progress_bar=False, **kw)
	except (TooMany, core.TimedOut):
		too_many = True
		best_S, best_cost = None, 'enumeration went beyond the %d vectors of the documented grid (stopped after %d objective evaluations%s)' % (size, len(calls), ('; e.g. %s' % calls[-1]) if calls else ' - still building a larger grid')
	except Exception as e:
		best_S, best_cost = None, err_enum(e)
	case = {'nodes': node_ids, 'obj': spec, 'groups': [sorted(g) for g in groups] if groups else None, 'mode': mode,
			'kw': {k: (v if not isinstance(v, dict) else {str(a): b for a, b in v.items()}) for k, v in kw.items()}}
	rep.case('meio_by_enumeration', case, nontrivial=len(calls) > 1)
	rep.count('enum:' + mode + (':grouped' if groups else ''))
	bad = []
	if best_S is None:
		bad.append(str(best_cost) if too_many else 'raised ' + str(best_cost))
	else:
		# predicate: reported cost is the objective at the vector; minimal over everything evaluated (= the grid); groups share a level
		if abs(best_cost - fv([best_S[n] for n in node_ids])) > 1e-9:
			bad.append('reported cost %r is not the objective at the returned vector' % best_cost)
		if any(fv([c[n] for n in node_ids]) < best_cost - 1e-9 for c in calls):
			bad.append('a grid vector has a lower objective than the one returned')
		if groups:
			for g in groups:
				if len({best_S[n] for n in g}) != 1:
					bad.append('grouped nodes do not share one level: %r' % best_S)
		# grid = documented grid
		opt = drv.call('optgroup', groups=[sorted(g) for g in groups] if groups else [], nodes=node_ids)
		leaders = sorted(set(opt))
		want = {}
		for n in leaders:
			if mode == 'explicit':
				want[n] = [F(v) for v in kw['base_stock_levels'][n]]
			else:
				def pick(v):
					return v[n] if isinstance(v, dict) else v
				g = drv.call('grid', lo=fr(pick(kw.get('truncation_lo'))), hi=fr(pick(kw.get('truncation_hi'))),
							 step=fr(pick(kw.get('discretization_step'))) if kw.get('discretization_step') is not None else None,
							 num=pick(kw.get('discretization_num')) if kw.get('discretization_num') is not None else None)
				want[n] = [unfr(v) for v in g]
		seen = {n: sorted({F(c[n]) for c in calls}) for n in leaders}
		for n in leaders:
			if seen[n] != sorted(set(want[n])):
				bad.append('node %s was enumerated over %s but the documented grid is %s' % (n, [str(x) for x in seen[n]], [str(x) for x in want[n]]))
		# model enumeration over the documented grid, same iteration order (set order of nodes_to_optimize is what Python used)
		order_used = [n for n in calls[0].keys() if n in leaders] if calls else leaders
	if bad:
		rep.diff('meio_by_enumeration', '; '.join(bad[:3]), case, py={'best': str(best_S), 'cost': str(best_cost)}, oracle=True, theorem=THEOREM)
		return
	# correspondence with the model's enumBest on the grid actually used (value of the objective, never index)
	lead_of = dict(zip(node_ids, opt))
	idx_of = {n: i for i, n in enumerate(leaders)}
	# objective over leader vectors
	grids = [frs(want[n]) for n in leaders]
	if all(lead_of[n] == n for n in node_ids):
		mo = drv.call('enum', obj=spec, grids=[frs(want[n]) for n in node_ids])
		rep.tol_cmp += 1
		if abs(float(unfr(mo['cost'])) - best_cost) > 1e-9 * max(1, abs(best_cost)):
			rep.diff('meio_by_enumeration', 'python best cost %r, model minimum over the same grid %s' % (best_cost, float(unfr(mo['cost']))), case,
					 py={'best': str(best_S), 'cost': best_cost}, model=mo, oracle=True, theorem=THEOREM)


def enum_sim_case(rep, drv, rng):
	"""Enumeration with the simulation-based objective (fixed seed): the reported cost is the objective at the returned vector and
	no grid vector is better, grouped nodes included - re-evaluated on fresh copies of the network (Python-side)."""
	from stockpyl.meio_general import meio_by_enumeration
	from stockpyl.supply_chain_network import serial_system
	from stockpyl.sim import run_multiple_trials
	import copy
	N = rng.randint(2, 3)
	def mk():
		with warnings.catch_warnings():
			warnings.simplefilter('ignore')
			return serial_system(N, local_holding_cost=[1 + i for i in range(N)], stockout_cost=[0] * (N - 1) + [10], demand_type='P', mean=4,
								 shipment_lead_time=1, policy_type='BS', base_stock_level=0)
	net = mk()
	ids = list(net.node_indices)
	groups = [set(rng.sample(ids, 2))] if rng.random() < .7 else None
	grid = {n: sorted(rng.sample(range(2, 14), 2)) for n in ids}
	seed = rng.randint(1, 999); trials, periods = 2, 25
	case = {'N': N, 'groups': [sorted(g) for g in groups] if groups else None, 'grid': {str(k): v for k, v in grid.items()}, 'seed': seed}
	rep.case('meio_by_enumeration(sim)', case, nontrivial=True)
	rep.count('enum-sim' + (':grouped' if groups else ''))
	def evaluate(S):
		fresh = mk()
		for n in fresh.nodes:
			n.inventory_policy.base_stock_level = S[n.index]
		with warnings.catch_warnings():
			warnings.simplefilter('ignore')
			return run_multiple_trials(fresh, trials, periods, rand_seed=seed, progress_bar=False)[0]
	try:
		with warnings.catch_warnings():
			warnings.simplefilter('ignore')
			best_S, best_cost = meio_by_enumeration(net, base_stock_levels=grid, groups=groups, sim_num_trials=trials, sim_num_periods=periods,
													 sim_rand_seed=seed, progress_bar=False)
	except Exception as e:
		rep.diff('meio_by_enumeration(sim)', 'raised %s' % err_enum(e), case, oracle=True, theorem=THEOREM); return
	bad = []
	true_cost = evaluate(best_S)
	if abs(true_cost - best_cost) > 1e-9 * max(1, abs(true_cost)):
		bad.append('reported cost %r but the simulated objective at the returned vector %r is %r' % (best_cost, best_S, true_cost))
	lead = {}
	for n in ids:
		lead[n] = min(g) if groups and any(n in g for g in groups) and (g := [h for h in groups if n in h][0]) else n
	leaders = sorted(set(lead.values()))
	import itertools
	for combo in itertools.product(*[grid[l] for l in leaders]):
		S = {n: combo[leaders.index(lead[n])] for n in ids}
		c = evaluate(S)
		if c < best_cost - 1e-9:
			bad.append('grid vector %r has objective %r < reported best %r' % (S, c, best_cost)); break
	if groups and len({best_S[n] for n in groups[0]}) != 1:
		bad.append('grouped nodes do not share one level')
	if bad:
		rep.diff('meio_by_enumeration(sim)', '; '.join(bad[:2]), case, py={'best': str(best_S), 'cost': best_cost}, oracle=True, theorem=THEOREM)


def cd_case(rep, drv, rng):
	from stockpyl.meio_general import meio_by_coordinate_descent
	from stockpyl import optimization
	from stockpyl.supply_chain_network import serial_system
	N = rng.randint(1, 3)
	spec, fv = gen_obj(rng, N)
	with warnings.catch_warnings():
		warnings.simplefilter('ignore')
		net = serial_system(N, local_holding_cost=1, demand_type='P', mean=3, policy_type='BS', base_stock_level=5, shipment_lead_time=1)
	node_ids = list(net.node_indices)
	lo = {n: float(F(rng.randint(0, 10), 2)) for n in node_ids}
	hi = {n: lo[n] + float(F(rng.randint(4, 60), 2)) for n in node_ids}
	init = {n: lo[n] + (hi[n] - lo[n]) * rng.choice([0, .25, .5, 1]) for n in node_ids}
	groups = [set(node_ids[:2])] if N >= 2 and rng.random() < .3 else None
	# a pinned stage: a degenerate search interval (lo = hi, or thinner than the line-search tolerance) is a legal box; and the start need not
	# lie in the box (it is chosen automatically when no initial solution is given)
	start_kind = rng.choice(['inside', 'inside', 'inside', 'automatic', 'outside'])
	if rng.random() < .3:
		n_pin = rng.choice(node_ids)
		hi[n_pin] = lo[n_pin] + rng.choice([0.0, 0.0, 4e-6])
		init[n_pin] = lo[n_pin]
		rep.count('cd:pinned-stage')
	if start_kind == 'outside':
		n_out = rng.choice(node_ids); init[n_out] = hi[n_out] + rng.choice([1.5, 7.0])
	rep.count('cd:start-' + start_kind)
	if groups:
		for n in node_ids[:2]:
			lo[n] = lo[node_ids[0]]; hi[n] = hi[node_ids[0]]; init[n] = init[node_ids[0]]
	recs = []
	orig = optimization.golden_section_search
	cur_holder = {}
	def obj(S):
		cur_holder['last'] = dict(S)
		return fv([S[n] for n in node_ids])
	def wrapped(f, a, b, tol=1e-5, verbose=False):
		r = orig(f, a, b, tol=tol, verbose=verbose)
		recs.append((a, b, tol, r, dict(cur_holder.get('last', {}))))
		return r
	optimization.golden_section_search = wrapped
	try:
		with warnings.catch_warnings():
			warnings.simplefilter('ignore')
			S, cost = meio_by_coordinate_descent(net, initial_solution=(None if start_kind == 'automatic' else dict(init)), search_lo=dict(lo), search_hi=dict(hi), groups=groups,
												  objective_function=obj, tol=1e-4, line_search_tol=1e-5)
	except Exception as e:
		S, cost = None, err_enum(e)
	finally:
		optimization.golden_section_search = orig
	case = {'nodes': node_ids, 'obj': spec, 'lo': lo, 'hi': hi, 'init': init, 'start': start_kind, 'groups': [sorted(g) for g in groups] if groups else None}
	rep.case('meio_by_coordinate_descent', case, nontrivial=len(recs) > 1)
	bad = []
	if S is None:
		bad.append('raised ' + str(cost))
	else:
		if any(not (lo[n] - 1e-9 <= S[n] <= hi[n] + 1e-9) for n in node_ids):
			bad.append('result %r outside the search box' % S)
		if abs(cost - fv([S[n] for n in node_ids])) > 1e-9 * max(1, abs(cost)):
			bad.append('reported cost %r is not the objective at the returned vector (%r)' % (cost, fv([S[n] for n in node_ids])))
		start = fv([init[n] for n in node_ids])
		# strongest true form (DESIGN.md C19.5): a start that is already optimal (e.g. at a bound) can be missed by at most the
		# line-search resolution, i.e. by at most (sum of coordinate Lipschitz constants on the box) x line_search_tol
		L = 0.0
		for i, n in enumerate(node_ids):
			t = float(F(spec['t'][i]))
			if spec['type'] == 'quad':
				L += 2 * float(F(spec['a'][i])) * max(abs(lo[n] - t), abs(hi[n] - t)) + sum(abs(float(F(c))) * max(abs(hi[m]) for m in node_ids) for a_, b_, c in spec['cross'])
			else:
				L += max(float(F(spec['p'][i])), float(F(spec['h'][i])))
		if start_kind == 'inside' and cost > start + L * 1e-5 + 1e-9:
			bad.append('result (cost %r) is worse than the starting vector (cost %r) by more than the line-search resolution allows (%g)' % (cost, start, L * 1e-5))
		if groups and len({S[n] for n in groups[0]}) != 1:
			bad.append('grouped nodes do not share one level')
	if bad:
		rep.diff('meio_by_coordinate_descent', '; '.join(bad[:3]), case, py={'S': str(S), 'cost': str(cost)}, oracle=True, theorem=THEOREM)


def cd_ridge_case(rep, k):
	"""Coupled, non-smooth convex objectives (a ridge along which single-coordinate moves do not help): where coordinate descent ends depends on
	where it starts, so the explicit `initial_solution` matters -- started at a vector it cannot improve on, it returns a cost no worse than that
	vector's (each objective is convex, hence unimodal along every coordinate)."""
	from stockpyl.meio_general import meio_by_coordinate_descent
	from stockpyl.instances import load_instance
	with warnings.catch_warnings():
		warnings.simplefilter('ignore')
		net = load_instance('example_6_1')
	ids = sorted(n.index for n in net.nodes)
	c = [5.0, 3.0 + k, 6.0 - k % 3][:len(ids)] + [4.0] * max(0, len(ids) - 3)
	objs = (('sum |x_i - c_i| + 3 max_i |x_i - c_i - (x_1 - c_1)|', lambda S: sum(abs(S[n] - c[i]) for i, n in enumerate(ids)) + 3 * max(abs((S[n] - c[i]) - (S[ids[0]] - c[0])) for i, n in enumerate(ids))),
			('coupled quadratic', lambda S: sum((S[n] - c[i]) ** 2 for i, n in enumerate(ids)) + 1.9 * sum((S[ids[i]] - c[i]) * (S[ids[i + 1]] - c[i + 1]) for i in range(len(ids) - 1))))
	for nm, f in objs:
		start = {n: c[i] for i, n in enumerate(ids)}          # the global minimiser (cost 0), strictly inside the box [0, 10]^n
		case = {'objective': nm, 'centre': c, 'start': {str(a): b for a, b in start.items()}}
		rep.case('meio_by_coordinate_descent', case, nontrivial=True); rep.count('cd:ridge-start-at-the-minimiser')
		try:
			with warnings.catch_warnings():
				warnings.simplefilter('ignore')
				S, cost = meio_by_coordinate_descent(net, initial_solution=dict(start), search_lo={n: 0 for n in ids}, search_hi={n: 10 for n in ids},
													  objective_function=f, tol=1e-4, line_search_tol=1e-5)
			f0 = f(start)
			if cost > f0 + 1e-3 or abs(cost - f(S)) > 1e-9 * max(1, abs(cost)):
				rep.diff('meio_by_coordinate_descent', '%s: started at %s (cost %r) the descent returns %s with cost %r -- worse than the starting vector' % (nm, start, f0, dict(S), cost),
						 case, py={'S': str(S), 'cost': str(cost)}, oracle=True, theorem=THEOREM)
		except Exception as e:
			rep.diff('meio_by_coordinate_descent', '%s raised %s' % (nm, err_enum(e)), case, oracle=True, theorem=THEOREM)


def grid_case(rep, drv, rng):
	from stockpyl.meio_general import truncate_and_discretize
	lo = rng.choice([None, 0, -3, 2, 1.5]); hi = rng.choice([None, 0, 5, 10, 7.5])
	if lo is not None and hi is not None and hi < lo:
		lo, hi = hi, lo
	step = rng.choice([None, None, 1, 2, 0.5, 0.25]); num = rng.choice([None, None, 0, 1, 4, 5])
	if (hi if hi is not None else 100) < (lo or 0):
		return
	case = {'lo': fr(lo), 'hi': fr(hi), 'step': fr(step), 'num': num}
	rep.case('truncate_and_discretize', case, nontrivial=True)
	rep.count('grid:' + ('step' if step is not None else 'num' if num is not None else 'default') + (':hi=0' if hi == 0 else ''))
	try:
		r = truncate_and_discretize([7], truncation_lo=lo, truncation_hi=hi, discretization_step=step, discretization_num=num)[7]
		py = [F(float(x)) for x in r]
	except Exception as e:
		py = 'error:' + err_enum(e)
	mo = [unfr(x) for x in drv.call('grid', **case)]
	rep.tol_cmp += 1
	# (hi-lo)/num is a rounded quotient when num is not a power of two: compare to 1e-12
	if not isinstance(py, list) or len(py) != len(mo) or any(abs(float(a) - float(b)) > 1e-12 * max(1, abs(float(b))) for a, b in zip(py, mo)):
		rep.diff('truncate_and_discretize', 'grid for lo=%s hi=%s step=%s num=%s: python %s, documented/model %s' % (
			lo, hi, step, num, [str(x) for x in py] if isinstance(py, list) else py, [str(x) for x in mo]), case,
			py=[str(x) for x in py] if isinstance(py, list) else py, model=[str(x) for x in mo], oracle=True, theorem=THEOREM)


def run(rep, drv):
	th = rep.tier == 'thorough'
	rep.rule = ('golden-section search on random convex quadratic / piecewise-linear objectives and intervals (normal, reversed, degenerate, tiny), '
				'x*, f(x*) and evaluation count vs the exact-rational model; enumeration on 1-4 node serial networks with explicit / (lo,hi,step) / (lo,hi,num) / '
				'default grids and groups; coordinate descent; grids. non-trivial = more than one candidate / non-degenerate interval')
	rng = random.Random(rep.seed + 19)
	for m_ in range(3, 98, 5):
		for pp_, hh_ in ((5000, 1), (1, 5000), (300, 1)):
			gss_case(rep, drv, random.Random(m_), fixed=(pp_, hh_, F(m_) + F(3, 8)))
	for k in range(2000 if th else 300):
		gss_case(rep, drv, rng)
	for k in range(800 if th else 150):
		enum_case(rep, drv, rng)
	for k in range(100 if th else 12):
		enum_sim_case(rep, drv, rng)
	for k in range(3):
		cd_ridge_case(rep, k)
	for k in range(300 if th else 60):
		cd_case(rep, drv, rng)
	for k in range(1500 if th else 300):
		grid_case(rep, drv, rng)


def replay(rep, drv, doc):
	print('replaying the whole quick stream; recorded case:', doc['stream'], doc['case'])
	run(rep, drv)
