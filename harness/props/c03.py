"""C03 - lead-time exactness, exact on-order."""
import simlib, simstream, mplib
TRUSTED = ["exact regime; single-product networks only at network level"]
FIELDS = ['oq', 'io', 'iopl', 'os', 'is', 'ispl', 'idi', 'oo', 'bo', 'odi', 'disrupted']
THEOREM = 'Props/C03.list (on_order_exact_period, on_order_exact_ext, orders_arrive, shiftPipe_get)'

def oracle(spec, tr, init):
	return simlib.oracle_C03(spec, tr, init)

def run(rep, drv):
	th = rep.tier == 'thorough'
	rep.rule = ('random single-product networks (<=%d nodes) with SLT 0-3 and OLT 0-2 drawn independently per node, with and '
				'without each disruption type; non-trivial = some positive backorder; histogram of (slt, olt, disruption) cells in '
				'input_distribution' % (8 if th else 5))
	simstream.run_stream(rep, drv, 'sim-trace', 2500 if th else 250, FIELDS, oracle, THEOREM, th, seed_off=3)
	# customers with node index 0 and frequent disruptions (index 0 is legal and falsy; disruption bookkeeping is per customer index)
	simstream.run_stream(rep, drv, 'sim-trace', 600 if th else 80, FIELDS, oracle, THEOREM, th, force={'label0': True, 'pdis': .8}, seed_off=103)
	# tracer: one marked order in an otherwise quiet history must be received exactly olt + slt periods later
	simstream.run_stream(rep, drv, 'sim-trace-nodisruption', 600 if th else 60, FIELDS, oracle, THEOREM, th, force={'pdis': 0.0}, seed_off=33)
	mplib.run_mp_stream(rep, drv, 'C03', THEOREM + ' + Props/MP (rm_conservation, rm_never_negative)', 400 if th else 50, th, seed_off=13)

def replay_mp(rep, drv, doc):
	mplib.mp_case(rep, drv, doc['case'], 'C03', THEOREM)

def replay(rep, drv, doc):
	if doc['stream'] == 'mp-kernels':
		return replay_mp(rep, drv, doc)
	simstream.one_case(rep, drv, doc['stream'], doc['case'], FIELDS, oracle, THEOREM)
