"""C03 - lead-time exactness, exact on-order."""
import simlib, simstream, mplib
from fractions import Fraction as F
TRUSTED = ["exact regime; single-product networks only at network level"]
FIELDS = ['oq', 'io', 'iopl', 'os', 'is', 'ispl', 'idi', 'oo', 'bo', 'odi', 'disrupted']
THEOREM = 'Props/C03.list (on_order_exact_period, on_order_exact_ext, orders_arrive, shiftPipe_get)'

def oracle(spec, tr, init):
	# "... unless a transit- or receipt-pausing disruption at the receiver delays it, in which case NOTHING IS LOST": on every edge into a node
	# with such a disruption, what was shipped is received, in transit or held at the door (C01's edge-flow identity, from whichever supplier)
	pos, edges, inE, outE = simlib.layout(spec)
	paused = {e for e, (a, b) in enumerate(edges) if b is not None and (spec['nodes'][str(spec['labels'][b])]['dis'] or {}).get('type') in ('RP', 'TP')}
	lost = [x for x in simlib.oracle_C01(spec, tr, init) if 'shipped != received + in transit + held at the door' in x and any(('edge%d(' % e) in x for e in paused)]
	return simlib.oracle_C03(spec, tr, init) + ['nothing is lost while a pause delays a shipment: ' + x for x in lost]

def run(rep, drv):
	th = rep.tier == 'thorough'
	rep.rule = ('random single-product networks (<=%d nodes) with SLT 0-3 and OLT 0-2 drawn independently per node, with and '
				'without each disruption type; non-trivial = some positive backorder; histogram of (slt, olt, disruption) cells in '
				'input_distribution' % (8 if th else 5))
	simstream.run_stream(rep, drv, 'sim-trace', 2500 if th else 250, FIELDS, oracle, THEOREM, th, seed_off=3)
	# customers with node index 0 and frequent disruptions (index 0 is legal and falsy; disruption bookkeeping is per customer index)
	simstream.run_stream(rep, drv, 'sim-trace', 600 if th else 80, FIELDS, oracle, THEOREM, th, force={'label0': True, 'pdis': .8}, seed_off=103)
	# tracer: one marked order in an otherwise quiet history must be received exactly olt + slt periods later
	simstream.run_stream(rep, drv, 'sim-trace-nodisruption', 600 if th else 60, FIELDS, oracle, THEOREM, th, force={'pdis': 0.0}, seed_off=33)
	import random
	rngo = random.Random(rep.seed * 13 + 303)
	for k in range(400 if th else 60):
		override_case(rep, drv, simlib.gen_spec(rngo, th))
	mplib.run_mp_stream(rep, drv, 'C03', THEOREM + ' + Props/MP (rm_conservation, rm_never_negative)', 400 if th else 50, th, seed_off=13)

def override_case(rep, drv, spec):
	"""Orders SET from outside through step(order_quantity_override=...) (the reinforcement-learning entry point): whatever quantity a node is told
	to order, on-order stays 'ordered and not yet received' and orders / shipments arrive after their lead times. The override is not part of the
	Lean model; the property's predicate is evaluated on the real trajectory (the model only supplies the documented initial state)."""
	import random
	rng = random.Random(repr(spec['labels']) + str(spec['T']))
	ov = []
	for t in range(spec['T']):
		ov.append({l: float(simlib.gen_value(rng, 0, 14, True)) for l in spec['labels'] if rng.random() < .35})
	py = simlib.run_py(spec, mode='step', overrides=ov)
	case = dict(spec, overrides=[{str(k): v for k, v in o.items()} for o in ov])
	rep.case('order-override', case, nontrivial=any(ov))
	if 'error' in py:
		rep.diff('order-override', 'step() with order_quantity_override raised %s: %s' % (py['error'], py.get('msg')), case, oracle=True, theorem=THEOREM)
		return
	resp = drv.call('sim', **simlib.model_request(spec, exo_from=py['trace']))
	init = simlib.canon_model({'trace': [resp['init']], 'total': '0', 'orderSeq': [], 'shipSeq': [], 'orderOK': True})['trace'][0]
	fails = simlib.oracle_C03(spec, py['trace'], init, tol=F(1, 10 ** 9))          # outside the exact regime: forced orders make production shares non-dyadic
	# the quantity told is the quantity ordered
	pos, edges, inE, outE = simlib.layout(spec)
	for t, o in enumerate(ov):
		for l, q in o.items():
			i = pos[l]
			dis = spec['nodes'][str(l)]['dis']
			if dis and dis['type'] == 'OP' and py['trace'][t]['nodes'][i]['disrupted']:
				continue
			for e in inE[i]:
				if float(py['trace'][t]['edges'][e]['oq']) != q:
					fails.append('t=%d node %s was told to order %s and ordered %s' % (t, l, q, float(py['trace'][t]['edges'][e]['oq'])))
	if fails:
		rep.diff('order-override', 'property predicate fails on the real code: ' + '; '.join(fails[:3]), case, py={'predicate_failures': fails[:10]}, oracle=True, theorem=THEOREM)


def replay_mp(rep, drv, doc):
	mplib.mp_case(rep, drv, doc['case'], 'C03', THEOREM)

def replay(rep, drv, doc):
	if doc['stream'] == 'mp-kernels':
		return replay_mp(rep, drv, doc)
	if doc['stream'] == 'order-override':
		return override_case(rep, drv, {k: v for k, v in doc['case'].items() if k != 'overrides'})
	simstream.one_case(rep, drv, doc['stream'], doc['case'], FIELDS, oracle, THEOREM)
