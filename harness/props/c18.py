"""C18 - network construction and mutation keep the structure coherent."""
import random, warnings, copy
from fractions import Fraction as F
import core
from core import fr, frs, unfr, err_enum

TRUSTED = ["NetworkX (descendants / ancestors / simple_cycles) is a black box; the model re-implements reachability",
		   "product / bill-of-materials mutators and the derived BOM views, and the builders' attribute placement, are checked against "
		   "reference predicates in the harness (labelled tests) - the Lean model covers the node/edge structure, re-indexing and the level conversions"]
THEOREM = 'Props/C18.list (coherent_reachable, coherent_apply, edges_iff_preds, local_echelon_inverse)'


# ------------------------------------------------------------------ operation sequences
def gen_ops(rng, n_ops):
	ops = []
	labels = []          # labels currently in the network (harness-side tracking only to generate mostly-valid ops)
	fresh = iter(rng.sample(range(1, 60), 40))
	for _ in range(n_ops):
		kind = rng.choice(['add_node', 'add_node', 'add_edge', 'add_edge', 'add_edge', 'add_successor', 'add_predecessor',
						   'remove_node', 'reindex', 'add_edge_bad', 'unlink', 'add_edges_from_list'])
		if kind == 'add_node' or len(labels) < 2:
			l = next(fresh) if rng.random() < .85 or not labels else rng.choice(labels)
			ops.append({'op': 'add_node', 'a': l})
			if l not in labels:
				labels.append(l)
		elif kind == 'add_edge':
			a, b = rng.sample(labels, 2)
			ops.append({'op': 'add_edge', 'a': a, 'b': b})
		elif kind == 'add_edge_bad':
			ops.append({'op': 'add_edge', 'a': rng.choice(labels), 'b': 99})
		elif kind in ('add_successor', 'add_predecessor'):
			a = rng.choice(labels)
			if rng.random() < .5:
				b = next(fresh); labels.append(b)
			else:
				b = rng.choice([x for x in labels if x != a])
			ops.append({'op': kind, 'a': a, 'b': b})
		elif kind == 'unlink':
			# the two node-level calls that take an edge out: a.remove_successor(b); b.remove_predecessor(a) (no-ops for non-neighbours)
			a, b = rng.sample(labels, 2)
			ops.append({'op': 'unlink', 'a': a, 'b': b})
		elif kind == 'add_edges_from_list':
			for _ in range(rng.randint(1, 3)):
				a, b = rng.sample(labels, 2)
				ops.append({'op': 'add_edge', 'a': a, 'b': b, 'via_list': True})
		elif kind == 'remove_node':
			l = rng.choice(labels) if rng.random() < .9 else 98
			ops.append({'op': 'remove_node', 'a': l})
			if l in labels:
				labels.remove(l)
		else:
			new = rng.sample(range(100, 160), len(labels))
			style = rng.random()
			if style < .2:
				new = list(labels)                                   # the identity mapping: a legal no-op
			elif style < .4 and len(labels) >= 2:
				new = labels[1:] + labels[:1]                        # a permutation of the existing indices
			m = [[l, new[i]] for i, l in enumerate(labels)]
			ops.append({'op': 'reindex', 'map': m})
			labels = [new[i] for i in range(len(labels))]
	return ops


def dump_net(net):
	nodes = []
	for n in net.nodes:
		nodes.append({'label': n.index, 'preds': list(n.predecessor_indices()), 'succs': list(n.successor_indices()),
					  'desc': sorted(d.index for d in n.descendants), 'anc': sorted(a.index for a in n.ancestors)})
	# has_directed_cycle() enumerates every simple cycle (NetworkX): asked only on networks of at most 7 nodes
	with warnings.catch_warnings():
		warnings.simplefilter('ignore')
		cyc = bool(net.has_directed_cycle()) if len(net.nodes) <= 7 else None
	return {'nodes': nodes, 'edges': [list(e) for e in net.edges], 'sources': [n.index for n in net.source_nodes],
			'sinks': [n.index for n in net.sink_nodes], 'cyc': cyc}


def coherent_py(net):
	"""The property's predicate on the real objects."""
	bad = []
	labels = [n.index for n in net.nodes]
	if len(set(labels)) != len(labels):
		bad.append('duplicate node index')
	byl = {n.index: n for n in net.nodes}
	stale = [k for k in net.nodes_by_index if k is not None and k not in byl]	# (None -> None is a documented convenience entry)
	if stale:
		bad.append('nodes_by_index still answers for %s, which are not indices of nodes of the network' % stale)
	for n in net.nodes:
		if net.nodes_by_index.get(n.index) is not n:
			bad.append('nodes_by_index[%s] is not the node with that index' % n.index)
		for s in n.successor_indices():
			if s not in byl:
				bad.append('node %s lists successor %s which is not in the network' % (n.index, s))
			elif byl[s].predecessor_indices().count(n.index) != n.successor_indices().count(s):
				bad.append('successor list of %s and predecessor list of %s are not mutual inverses' % (n.index, s))
		for p in n.predecessor_indices():
			if p not in byl:
				bad.append('node %s lists predecessor %s which is not in the network' % (n.index, p))
			elif byl[p].successor_indices().count(n.index) != n.predecessor_indices().count(p):
				bad.append('predecessor list of %s and successor list of %s are not mutual inverses' % (n.index, p))
		if len(set(n.successor_indices())) != len(n.successor_indices()) or len(set(n.predecessor_indices())) != len(n.predecessor_indices()):
			bad.append('node %s lists a neighbour twice: succs %s preds %s' % (n.index, n.successor_indices(), n.predecessor_indices()))
	# edges / sources / sinks / reachability match the graph
	succ = {n.index: [s for s in n.successor_indices() if s in byl] for n in net.nodes}
	want_edges = sorted((a, b) for a in succ for b in succ[a])
	if sorted(map(tuple, net.edges)) != want_edges:
		bad.append('edges %s do not match adjacency %s' % (net.edges, want_edges))
	def reach(l, adj):
		seen = set(); st = list(adj.get(l, []))
		while st:
			x = st.pop()
			if x not in seen:
				seen.add(x); st += adj.get(x, [])
		return seen
	pred = {n.index: [p for p in n.predecessor_indices() if p in byl] for n in net.nodes}
	for n in net.nodes:
		try:
			if set(d.index for d in n.descendants) != reach(n.index, succ) - {n.index}:
				bad.append('descendants of %s wrong' % n.index)
			if set(a.index for a in n.ancestors) != reach(n.index, pred) - {n.index}:
				bad.append('ancestors of %s wrong' % n.index)
		except Exception as e:
			bad.append('descendants/ancestors raised %s' % type(e).__name__)
	# derived views: every accessor that reports the structure must agree with the adjacency lists
	try:
		with warnings.catch_warnings():
			warnings.simplefilter('ignore')
			if list(net.node_indices) != labels:
				bad.append('node_indices %s differ from the indices of nodes %s' % (net.node_indices, labels))
			cyc = any(n.index in reach(n.index, succ) for n in net.nodes)
			if len(net.nodes) <= 7 and bool(net.has_directed_cycle()) != cyc:
				bad.append('has_directed_cycle() says %s, adjacency says %s' % (net.has_directed_cycle(), cyc))
			for n in net.nodes:
				if sorted(n.neighbor_indices) != sorted(n.successor_indices() + n.predecessor_indices()):
					bad.append('neighbor_indices of %s are %s' % (n.index, n.neighbor_indices))
				if all(x in byl for x in n.neighbor_indices) and [x.index for x in n.neighbors] != list(n.neighbor_indices):
					bad.append('neighbors of %s are not the nodes of neighbor_indices' % n.index)
				if [x.index for x in n.successors()] != list(n.successor_indices()) or [x.index for x in n.predecessors()] != list(n.predecessor_indices()):
					bad.append('successors()/predecessors() of %s disagree with the index lists' % n.index)
				if any(byl.get(x.index) is not x for x in n.successors() + n.predecessors()):
					bad.append('a neighbour object of %s is not the network\'s node of that index' % n.index)
				if net.get_node_from_index(n.index) is not n or net.parse_node(n.index) != (n, n.index) or net.parse_node(n) != (n, n.index):
					bad.append('get_node_from_index/parse_node(%s) do not return the node' % n.index)
				o = n.get_one_successor()
				if (o is None) != (len(n.successor_indices()) == 0) or (o is not None and o.index not in n.successor_indices()):
					bad.append('get_one_successor of %s wrong' % n.index)
				o = n.get_one_predecessor()
				if (o is None) != (len(n.predecessor_indices()) == 0) or (o is not None and o.index not in n.predecessor_indices()):
					bad.append('get_one_predecessor of %s wrong' % n.index)
				if n.network is not net:
					bad.append('node %s does not point back to its network' % n.index)
			if [x.index for x in net.source_nodes] != [l for l in labels if not byl[l].predecessor_indices()]:
				bad.append('source_nodes wrong')
			if [x.index for x in net.sink_nodes] != [l for l in labels if not byl[l].successor_indices()]:
				bad.append('sink_nodes wrong')
	except Exception as e:
		bad.append('a structure accessor raised %s: %s' % (type(e).__name__, str(e)[:80]))
	return bad


def ops_case(rep, drv, ops):
	from stockpyl.supply_chain_network import SupplyChainNetwork
	from stockpyl.supply_chain_node import SupplyChainNode
	net = SupplyChainNetwork()
	mo = drv.call('graphops', ops=ops)
	rep.case('op-sequence', ops, nontrivial=len(ops) >= 3)
	for k, op in enumerate(ops):
		rep.count('op:' + op['op'])
		okpy = True
		try:
			with warnings.catch_warnings():
				warnings.simplefilter('ignore')
				byl = {n.index: n for n in net.nodes}
				if op['op'] == 'add_node':
					net.add_node(SupplyChainNode(op['a']))
				elif op['op'] == 'add_edge':
					if op.get('via_list'):
						net.add_edges_from_list([(op['a'], op['b'])])
					else:
						net.add_edge(op['a'], op['b'])
				elif op['op'] == 'unlink':
					byl[op['a']].remove_successor(op['b'] if k % 2 else byl[op['b']])
					byl[op['b']].remove_predecessor(byl[op['a']] if k % 2 else op['a'])
				elif op['op'] == 'add_successor':
					net.add_successor(byl[op['a']], byl.get(op['b']) or SupplyChainNode(op['b']))
				elif op['op'] == 'add_predecessor':
					net.add_predecessor(byl[op['a']], byl.get(op['b']) or SupplyChainNode(op['b']))
				elif op['op'] == 'remove_node':
					if op['a'] in byl:
						net.remove_node(byl[op['a']])
				else:
					net.reindex_nodes({a: b for a, b in op['map']})
		except KeyError:
			okpy = False
		except Exception as e:
			rep.diff('op-sequence', 'operation %d %s raised %s' % (k, op, err_enum(e)), ops[:k + 1], py=str(e)[:200], oracle=True, theorem=THEOREM)
			return
		py = dump_net(net)
		m = mo[k]
		mg = m['g']
		for n in mg['nodes']:
			n['desc'] = sorted(n['desc']); n['anc'] = sorted(n['anc'])
		if py['cyc'] is None:
			py['cyc'] = mg['cyc']
		bad = coherent_py(net)
		rep.exact_cmp += 1
		same = (py == mg) and (okpy == m['ok'])
		if not same or bad:
			what = ''
			if not same:
				what = 'after op %d %s: python %s (accepted=%s) model %s (accepted=%s)' % (k, op, py, okpy, mg, m['ok'])
			if bad:
				what += ' | structure incoherent on the real objects after op %d %s: %s' % (k, op, '; '.join(bad[:3]))
			rep.diff('op-sequence', what, ops[:k + 1], py=py, model=mg, oracle=bool(bad), theorem=THEOREM if same else None,
					 finding_id=None)
			return


# ------------------------------------------------------------------ builders
def builders_case(rep, rng):
	from stockpyl.supply_chain_network import serial_system, owmr_system, mwor_system, single_stage_system, network_from_edges
	from stockpyl.demand_source import DemandSource
	kind = rng.choice(['serial', 'owmr', 'mwor', 'single', 'edges'])
	n = rng.randint(1, 5)
	case = {'kind': kind, 'n': n}
	bad = []
	try:
		with warnings.catch_warnings():
			warnings.simplefilter('ignore')
			if kind == 'serial':
				order = rng.sample(range(0, 12), n) if rng.random() < .6 else None
				lst_order = (rng.sample(order, n) if order else rng.sample(range(n), n)) if rng.random() < .5 else None
				nodes = order or list(range(n))
				shape = rng.choice(['scalar', 'list', 'dict', 'none'])
				vals = {l: rng.randint(1, 9) for l in nodes}
				lo = lst_order or nodes
				arg = {'scalar': 3, 'list': [vals[l] for l in lo], 'dict': {l: vals[l] for l in nodes if rng.random() < .8}, 'none': None}[shape]
				ds_shape = rng.choice(['attrs', 'object', 'attrs-list'])
				kw = dict(local_holding_cost=arg, stockout_cost=[10 + vals[l] for l in lo], shipment_lead_time=1, policy_type='BS',
						  base_stock_level={l: 5 for l in nodes})
				if ds_shape == 'attrs':
					kw.update(demand_type='P', mean=4)
				elif ds_shape == 'object':
					kw.update(demand_source=DemandSource(type='P', mean=4))
				else:
					kw.update(demand_type=['P'] * n, mean=[4] * n)
				case.update(order=order, lists=lst_order, shape=shape, ds=ds_shape)
				net = serial_system(n, node_order_in_system=order, node_order_in_lists=lst_order, **kw)
				want_edges = [(nodes[k], nodes[k + 1]) for k in range(n - 1)]
				if sorted(net.edges) != sorted(want_edges):
					bad.append('edges %s, documented %s' % (net.edges, want_edges))
				for nd in net.nodes:
					l = nd.index
					exp = {'scalar': 3, 'list': vals[l], 'dict': arg.get(l) if shape == 'dict' else None, 'none': None}[shape]
					if nd.local_holding_cost != exp:
						bad.append('holding cost of node %s is %s, documented %s' % (l, nd.local_holding_cost, exp))
					has_dem = nd.demand_source is not None and nd.demand_source.type is not None
					if has_dem != (l == nodes[-1]):
						bad.append('demand source at node %s: %s, documented only at the sink %s' % (l, has_dem, nodes[-1]))
					if (nd.supply_type == 'U') != (l == nodes[0]):
						bad.append('supply_type at node %s is %s' % (l, nd.supply_type))
					if l == nodes[-1] and nd.stockout_cost != 10 + vals[l]:
						bad.append('stockout cost at sink %s is %s, documented %s' % (l, nd.stockout_cost, 10 + vals[l]))
					if l != nodes[-1] and nd.stockout_cost not in (0, None):
						bad.append('stockout cost set at non-sink node %s' % l)
			elif kind in ('owmr', 'mwor'):
				n = max(n, 1)
				order = rng.sample(range(0, 12), n + 1) if rng.random() < .5 else None
				ds_shape = rng.choice(['attrs', 'object', 'none'])
				kw = dict(local_holding_cost=2, shipment_lead_time=1, policy_type='BS', base_stock_level=6)
				if ds_shape == 'attrs':
					kw.update(demand_type='P', mean=5)
				elif ds_shape == 'object':
					kw.update(demand_source=DemandSource(type='P', mean=5))
				# list- and dict-valued demand sources: slot k of a list belongs to node_order_in_lists[k] (node_order_in_system[k] if no list order is
				# given), whatever the indices are; one mean per node so that misplaced entries show (own stream: the main one is unchanged)
				rng_l = random.Random(37 * n + (sum(order) if order else 5) + len(kw))
				nodes_ = order or (list(range(n + 1)) if kind == 'owmr' else list(range(1, n + 1)) + [0])
				dem_ = set(nodes_[1:]) if kind == 'owmr' else {nodes_[-1]}
				want_mean = None
				if rng_l.random() < .45:
					ds_shape = rng_l.choice(['list', 'list+order_in_lists', 'dict'])
					kw.pop('demand_type', None); kw.pop('mean', None); kw.pop('demand_source', None)
					want_mean = {l: 3 + i_ for i_, l in enumerate(nodes_) if l in dem_}
					if ds_shape == 'dict':
						kw['demand_source'] = {l: DemandSource(type='P', mean=m_) for l, m_ in want_mean.items()}
					else:
						lo_ = list(nodes_)
						if ds_shape == 'list+order_in_lists':
							rng_l.shuffle(lo_); kw['node_order_in_lists'] = lo_
							for k_ in ('local_holding_cost', 'shipment_lead_time', 'policy_type', 'base_stock_level'):
								kw[k_] = [kw[k_]] * len(lo_) if not isinstance(kw[k_], list) else kw[k_]
						kw['demand_source'] = [DemandSource(type='P', mean=want_mean[l]) if l in dem_ else None for l in lo_]
					rep.count('builders:demand-source-as-' + ds_shape)
				elif ds_shape == 'attrs' and rng_l.random() < .6:
					# demand attributes given PER NODE (list in system order, or dict), with entries for the nodes that are documented to have no demand too
					ds_shape = rng_l.choice(['attrs-list', 'attrs-dict'])
					if ds_shape == 'attrs-list':
						kw.update(demand_type=['P'] * len(nodes_), mean=[5] * len(nodes_))
					else:
						kw.update(demand_type={l: 'P' for l in nodes_}, mean={l: 5 for l in nodes_})
					rep.count('builders:demand-attributes-per-node')
				# a `supply_type` argument is documented to make no difference: external supply is at the nodes without predecessors, "no matter how
				# (or whether) the corresponding parameter is set"
				if rng_l.random() < .4:
					st_form = rng_l.choice(['scalar', 'dict', 'list'])
					kw['supply_type'] = 'U' if st_form == 'scalar' else ({l: 'U' for l in nodes_} if st_form == 'dict' else (['U'] * len(nodes_) if not isinstance(kw.get('local_holding_cost'), list) or True else None))
					if st_form == 'list' and 'node_order_in_lists' in kw:
						kw['supply_type'] = ['U'] * len(kw['node_order_in_lists'])
					rep.count('builders:supply_type-argument-' + st_form)
				case.update(order=order, ds=ds_shape)
				if kind == 'owmr':
					net = owmr_system(n, node_order_in_system=order, **kw)
					nodes = order or list(range(n + 1))
					wh, ret = [nodes[0]], nodes[1:]
					want_edges = [(nodes[0], r) for r in ret]
					dem_nodes = set(ret)
				else:
					net = mwor_system(n, node_order_in_system=order, **kw)
					nodes = order or (list(range(1, n + 1)) + [0])
					wh, ret = nodes[:-1], [nodes[-1]]
					want_edges = [(w, nodes[-1]) for w in wh]
					dem_nodes = {nodes[-1]}
				if sorted(net.edges) != sorted(want_edges):
					bad.append('edges %s, documented %s' % (net.edges, want_edges))
				for nd in net.nodes:
					has_dem = nd.demand_source is not None and nd.demand_source.type is not None
					if ds_shape != 'none' and has_dem != (nd.index in dem_nodes):
						bad.append('%s: demand source at node %s is %s, documented at %s only' % (kind, nd.index, has_dem, sorted(dem_nodes)))
					if want_mean is not None and nd.index in dem_nodes and (nd.demand_source is None or nd.demand_source.mean != want_mean[nd.index]):
						bad.append('%s: node %s got the demand source with mean %s, its own entry has mean %s' % (
							kind, nd.index, None if nd.demand_source is None else nd.demand_source.mean, want_mean[nd.index]))
					if (nd.supply_type == 'U') != (nd.index in wh):
						bad.append('%s: supply_type at node %s is %s' % (kind, nd.index, nd.supply_type))
			elif kind == 'single':
				idx = rng.choice([0, 3, 7])
				net = single_stage_system(index=idx, holding_cost=1, stockout_cost=9, demand_type='P', mean=3, policy_type='BS', base_stock_level=4)
				nd = net.nodes[0]
				if len(net.nodes) != 1 or nd.index != idx or nd.supply_type != 'U' or nd.demand_source.type != 'P' or nd.local_holding_cost != 1:
					bad.append('single_stage_system wrong')
			else:
				k = max(n, 2)
				labels = rng.sample(range(0, 20), k)
				edges = [(labels[i], labels[j]) for i in range(k) for j in range(i + 1, k) if rng.random() < .4] or [(labels[0], labels[1])]
				used = sorted(set(x for e in edges for x in e))
				lo = rng.sample(used, len(used)) if rng.random() < .5 else None
				vals = {l: rng.randint(1, 9) for l in used}
				arg = [vals[l] for l in (lo or used)]
				case.update(edges=edges, lists=lo)
				net = network_from_edges(edges, node_order_in_lists=lo, local_holding_cost=arg, policy_type='BS', base_stock_level=5)
				if sorted(net.edges) != sorted(set(edges)):
					bad.append('edges %s, given %s' % (net.edges, edges))
				for nd in net.nodes:
					if nd.local_holding_cost != vals[nd.index]:
						bad.append('list attribute mapped to wrong node: node %s got %s, documented %s' % (nd.index, nd.local_holding_cost, vals[nd.index]))
					if (nd.supply_type == 'U') != (len(nd.predecessor_indices()) == 0):
						bad.append('supply_type at node %s' % nd.index)
			bad += coherent_py(net)
	except Exception as e:
		bad.append('builder raised %s: %s' % (err_enum(e), str(e)[:150]))
	rep.case('builders', case, nontrivial=True)
	rep.count('builder:' + kind)
	if bad:
		rep.diff('builders', 'builder %s: %s' % (kind, '; '.join(bad[:3])), case, py=bad[:10], oracle=True, theorem=THEOREM,
				 finding_id=None)


# ------------------------------------------------------------------ level conversions
def levels_case(rep, drv, rng):
	from stockpyl.supply_chain_network import serial_system, local_to_echelon_base_stock_levels, echelon_to_local_base_stock_levels
	n = rng.randint(1, 6)
	order = rng.sample(range(0, 15), n)          # upstream first
	local = [F(rng.randint(0, 24), 2) for _ in range(n)]      # per node in `order`
	case = {'order': order, 'local': frs(local)}
	rep.case('levels', case, nontrivial=n >= 2)
	with warnings.catch_warnings():
		warnings.simplefilter('ignore')
		net = serial_system(n, node_order_in_system=order, local_holding_cost=1, demand_type='P', mean=3, policy_type='BS', base_stock_level=1)
		# the same line stored in another order (the order of network.nodes carries no meaning): edges listed from the downstream end, nodes added in
		# a shuffled order before the edges, or the line grown upstream from the sink (its own stream: the main one is unchanged)
		rng_b = random.Random(sum((i_ + 1) * l_ for i_, l_ in enumerate(order)) + 31 * n)
		style = rng_b.choice(['serial_system', 'edges-downstream-first', 'hand-built-shuffled', 'grown-upstream']) if n >= 2 else 'serial_system'
		case['built'] = style; rep.count('levels:' + style)
		if style == 'edges-downstream-first':
			from stockpyl.supply_chain_network import network_from_edges
			net = network_from_edges([(order[i_], order[i_ + 1]) for i_ in range(n - 2, -1, -1)])
		elif style in ('hand-built-shuffled', 'grown-upstream'):
			from stockpyl.supply_chain_network import SupplyChainNetwork
			from stockpyl.supply_chain_node import SupplyChainNode
			net = SupplyChainNetwork()
			if style == 'hand-built-shuffled':
				ls_ = list(order); rng_b.shuffle(ls_)
				for l_ in ls_:
					net.add_node(SupplyChainNode(l_))
				es_ = [(order[i_], order[i_ + 1]) for i_ in range(n - 1)]; rng_b.shuffle(es_)
				net.add_edges_from_list(es_)
			else:
				net.add_node(SupplyChainNode(order[-1]))
				for i_ in range(n - 2, -1, -1):
					net.add_predecessor(net.nodes_by_index[order[i_ + 1]], SupplyChainNode(order[i_]))
		S_local = {l: float(v) for l, v in zip(order, local)}
		try:
			S_ech = local_to_echelon_base_stock_levels(net, S_local)
			back = echelon_to_local_base_stock_levels(net, S_ech)
		except Exception as e:
			rep.diff('levels', 'conversion raised %s' % err_enum(e), case, oracle=True, theorem=THEOREM); return
	down_first = list(reversed(order))
	mo = drv.call('levels', levels=frs([local[order.index(l)] for l in down_first]))
	mo_ech = {l: unfr(v) for l, v in zip(down_first, mo['echelon'])}
	py_ech = {l: F(float(S_ech[l])) for l in order}
	py_back = {l: F(float(back[l])) for l in order}
	rep.exact_cmp += 2
	bad = py_back != {l: v for l, v in zip(order, local)}
	if py_ech != mo_ech or bad:
		rep.diff('levels', 'local %s -> echelon %s (model %s) -> local %s' % (S_local, S_ech, {k: str(v) for k, v in mo_ech.items()}, back), case,
				 py={'ech': {k: str(v) for k, v in py_ech.items()}, 'back': {k: str(v) for k, v in py_back.items()}}, oracle=bad, theorem=THEOREM)
	# echelon -> local on arbitrary (possibly non-monotone) echelon levels vs model
	ech = [F(rng.randint(0, 30), 2) for _ in range(n)]
	with warnings.catch_warnings():
		warnings.simplefilter('ignore')
		loc2 = echelon_to_local_base_stock_levels(net, {l: float(v) for l, v in zip(order, ech)})
	mo2 = drv.call('levels', levels=frs([ech[order.index(l)] for l in down_first]))
	want = {l: unfr(v) for l, v in zip(down_first, mo2['local'])}
	if {l: F(float(loc2[l])) for l in order} != want:
		rep.diff('levels', 'echelon_to_local on %s: python %s model %s' % (ech, loc2, {k: str(v) for k, v in want.items()}), case, oracle=False, theorem=THEOREM)
		return
	# ... and back: echelon -> local -> echelon is the suffix-minimum map of the model (theorem toEchelon_toLocal)
	with warnings.catch_warnings():
		warnings.simplefilter('ignore')
		try:
			ech2 = local_to_echelon_base_stock_levels(net, loc2)
		except Exception as e:
			rep.diff('levels', 'local_to_echelon on converted levels raised %s' % err_enum(e), case, oracle=True, theorem=THEOREM); return
	mo3 = drv.call('levels', levels=mo2['local'])
	want3 = {l: unfr(v) for l, v in zip(down_first, mo3['echelon'])}
	rep.exact_cmp += 1
	if {l: F(float(ech2[l])) for l in order} != want3:
		rep.diff('levels', 'echelon %s -> local -> echelon: python %s model %s' % (ech, ech2, {k: str(v) for k, v in want3.items()}), case, oracle=False,
				 theorem='Stockpyl.Graph.toEchelon_toLocal')


# ------------------------------------------------------------------ products / BOM views (reference test)
def bom_case(rep, rng):
	from stockpyl.supply_chain_network import SupplyChainNetwork
	from stockpyl.supply_chain_node import SupplyChainNode
	from stockpyl.supply_chain_product import SupplyChainProduct
	bad = []
	with warnings.catch_warnings():
		warnings.simplefilter('ignore')
		try:
			net = SupplyChainNetwork()
			s1, s2, f = SupplyChainNode(1, supply_type='U'), SupplyChainNode(2, supply_type='U'), SupplyChainNode(3)
			for n in (s1, s2, f):
				net.add_node(n)
			net.add_edge(1, 3); net.add_edge(2, 3)
			p10, p11, p20 = SupplyChainProduct(10), SupplyChainProduct(11), SupplyChainProduct(20)
			s1.add_products([p10, p11]); s2.add_product(p20)
			shared = rng.random() < .4
			if shared:
				s2.add_product(p10)           # the same product carried by both suppliers
			fa, fb = SupplyChainProduct(30), SupplyChainProduct(31)
			bom = {30: {}, 31: {}}
			for fp, po in ((30, fa), (31, fb)):
				for rm in rng.sample([10, 11, 20], rng.randint(1, 3)):
					num = rng.choice([1, 2, 3])
					po.set_bill_of_materials(raw_material=rm, num_needed=num); bom[fp][rm] = num
			f.add_products([fa, fb])
			if rng.random() < .4:
				if rng.random() < .5:
					f.remove_product(fb)
				else:
					f.remove_products([31] if rng.random() < .5 else [fb])
				bom.pop(31)
			# later BOM mutations on products that are already in the network: change a quantity, add and remove an entry
			for fp, po in ((30, fa), (31, fb)):
				if fp not in bom:
					continue
				for _ in range(rng.randint(0, 2)):
					act = rng.choice(['change', 'add', 'remove'])
					if act == 'change' and bom[fp]:
						rm = rng.choice(sorted(bom[fp])); num = rng.choice([1, 2, 3, 5])
						po.set_bill_of_materials(raw_material=rm, num_needed=num); bom[fp][rm] = num
					elif act == 'add':
						rm = rng.choice([10, 11, 20]); num = rng.choice([1, 2, 4])
						po.set_bill_of_materials(raw_material=rm, num_needed=num); bom[fp][rm] = num
					elif act == 'remove' and len(bom[fp]) > 1:
						rm = rng.choice(sorted(bom[fp]))
						po.set_bill_of_materials(raw_material=rm, num_needed=0); bom[fp].pop(rm)
			prods_at = {1: [10, 11], 2: [20] + ([10] if shared else [])}
			# documented network-BOM rule, per (predecessor, raw material): a predecessor none of whose products appears in any BOM of the
			# node's products supplies 1 unit of each of its products per unit of every product of the node; otherwise the BOM number
			related = {pred: any(rm in prods for q in bom for rm in bom[q]) for pred, prods in prods_at.items()}
			for fp in bom:
				nb = {(pred, rm): (bom[fp].get(rm, 0) if related[pred] else 1) for pred, prods in prods_at.items() for rm in prods}
				want_rms = sorted({rm for (pred, rm), v in nb.items() if v > 0})
				rms = sorted(f.raw_materials_by_product(fp, return_indices=True, network_BOM=True))
				if rms != want_rms:
					bad.append('raw_materials_by_product(%s) = %s, network BOM rule says %s' % (fp, rms, want_rms))
				for (pred, rm), v in nb.items():
					if f.NBOM(product=fp, predecessor=pred, raw_material=rm) != v:
						bad.append('NBOM(%s,%s,%s) = %s != %s' % (fp, pred, rm, f.NBOM(product=fp, predecessor=pred, raw_material=rm), v))
				for rm in want_rms:
					if fp not in f.products_by_raw_material(rm, return_indices=True):
						bad.append('products_by_raw_material(%s) misses %s' % (rm, fp))
				pairs = sorted(f.supplier_raw_material_pairs_by_product(fp, return_indices=True, network_BOM=True))
				if pairs != sorted((pred, rm) for (pred, rm), v in nb.items() if v > 0):
					bad.append('supplier/raw-material pairs of %s = %s, network BOM rule says %s' % (fp, pairs, sorted((pred, rm) for (pred, rm), v in nb.items() if v > 0)))
			# upstream and downstream views mirror each other, for every (predecessor, product it carries)
			for pred, prods in prods_at.items():
				for rm in prods:
					supplies = any((bom[fp].get(rm, 0) if related[pred] else 1) > 0 for fp in bom)
					anyone = any((bom[fp].get(rm, 0) if related[q] else 1) > 0 for fp in bom for q, pr in prods_at.items() if rm in pr)
					sups = f.raw_material_suppliers_by_raw_material(rm, return_indices=True, network_BOM=True) if anyone else []
					if (pred in sups) != supplies:
						bad.append('raw_material_suppliers_by_raw_material(%s) = %s but predecessor %s %s it under the network BOM' % (rm, sups, pred, 'supplies' if supplies else 'does not supply'))
					cust = net.nodes_by_index[pred].customers_by_product(product=rm, return_indices=True, network_BOM=True)
					if (3 in cust) != supplies:
						bad.append('customers_by_product(%s) at node %s = %s but the factory %s product %s from node %s' % (
							rm, pred, cust, 'gets' if supplies else 'does not get', rm, pred))
			bad += coherent_py(net)
		except Exception as e:
			bad.append('raised %s: %s' % (err_enum(e), str(e)[:150]))
	rep.case('bom-views', {'bom': str(bom) if 'bom' in dir() else None}, nontrivial=True)
	if bad:
		rep.diff('bom-views', 'derived bill-of-materials views disagree with the product BOMs: ' + '; '.join(bad[:3]), {'bom': str(bom)}, py=bad[:8], oracle=True)


def product_registry_case(rep, rng, drv):
	"""Products of the network under add / remove sequences at node and at network level, in either order: a product that was added to the
	network explicitly stays a product of the network until it is removed from the network; one that is only there because a node handles it
	goes when the last node drops it; look-ups by index agree with the list at every step (reference: a set-based model of the two registries)."""
	from stockpyl.supply_chain_network import SupplyChainNetwork
	from stockpyl.supply_chain_node import SupplyChainNode
	from stockpyl.supply_chain_product import SupplyChainProduct
	net = SupplyChainNetwork()
	nodes = {i: SupplyChainNode(i) for i in (1, 2)}
	for n in nodes.values():
		net.add_node(n)
	net.add_edge(1, 2)
	prods = {i: SupplyChainProduct(i) for i in (50, 51, 52)}
	local, at_node = set(), {1: set(), 2: set()}
	ops = []
	for step in range(rng.randint(3, 9)):
		op = rng.choice(['node_add', 'node_add', 'net_add', 'net_add', 'node_remove', 'net_remove', 'remove_node'])
		pi = rng.choice(sorted(prods)); ni = rng.choice([1, 2])
		try:
			with warnings.catch_warnings():
				warnings.simplefilter('ignore')
				if op == 'node_add' and ni in nodes and nodes[ni] in net.nodes:
					nodes[ni].add_product(prods[pi]); at_node[ni].add(pi)
				elif op == 'net_add':
					net.add_product(prods[pi]); local.add(pi)
				elif op == 'node_remove' and pi in at_node.get(ni, ()) and nodes[ni] in net.nodes:
					nodes[ni].remove_product(prods[pi]); at_node[ni].discard(pi)
				elif op == 'net_remove' and pi in local:
					net.remove_product(prods[pi]); local.discard(pi)
				elif op == 'remove_node' and ni == 2 and nodes[2] in net.nodes and step > 3:
					net.remove_node(nodes[2]); at_node[2] = set()
				else:
					continue
			ops.append([op, pi, ni])
			want = set(local) | set().union(*[v for k_, v in at_node.items() if nodes[k_] in net.nodes])
			got = {p.index for p in net.products if p.index >= 0}
			bad = []
			# the Lean model of the two registries (Model/Registry.lean; theorem explicit_product_stays) on the same operation sequence
			mo = drv.call('registry', nodes=[1, 2], ops=ops)
			rep.exact_cmp += 1
			if sorted(got) != mo[-1]:
				bad.append('network products %s, model %s' % (sorted(got), mo[-1]))
			if got != want:
				bad.append('network products %s, expected %s' % (sorted(got), sorted(want)))
			if {i for i in net.product_indices if i >= 0} != got or {i for i in net.products_by_index if i >= 0} != got:
				bad.append('product_indices / products_by_index disagree with products')
			for i in want:
				try:
					o, ix = net.parse_product(i)
					if o is not prods[i] or ix != i: bad.append('parse_product(%d) wrong' % i)
				except Exception as e:
					bad.append('parse_product(%d) raised %s' % (i, type(e).__name__))
			if bad:
				rep.diff('product-registry', 'after %s: %s' % (ops, '; '.join(bad[:3])), {'ops': ops}, oracle=True, theorem=None)
				return
		except Exception as e:
			rep.diff('product-registry', 'operation %s raised %s: %s' % ([op, pi, ni], err_enum(e), str(e)[:100]), {'ops': ops + [[op, pi, ni]]}, oracle=True, theorem=None)
			return
	rep.case('product-registry', {'ops': ops}, nontrivial=len(ops) >= 3)


def run(rep, drv):
	th = rep.tier == 'thorough'
	rep.rule = ('(a) random operation sequences (add_node/add_edge/add_successor/add_predecessor/remove_node/reindex_nodes, incl. repeated and '
				'invalid operations) of length <=%d, structure dumped through the public accessors after EVERY operation and compared with the Lean model, '
				'plus the coherence predicate on the real objects; (b) builders with scalar/list/dict/None/object argument shapes and explicit node orders; '
				'(c) echelon<->local conversions; (d) derived BOM views. non-trivial = sequence length >= 3' % (40 if th else 12))
	rng = random.Random(rep.seed + 18)
	for k in range(1500 if th else 200):
		ops_case(rep, drv, gen_ops(rng, rng.randint(2, 40 if th else 12)))
	for k in range(1500 if th else 250):
		builders_case(rep, rng)
	for k in range(800 if th else 120):
		levels_case(rep, drv, rng)
	for k in range(800 if th else 160):
		bom_case(rep, rng)
	rngp = random.Random(rep.seed + 1800)
	for k in range(1500 if th else 300):
		product_registry_case(rep, rngp, drv)


def replay(rep, drv, doc):
	if doc['stream'] == 'op-sequence':
		ops_case(rep, drv, doc['case'])
	else:
		print('replaying the whole quick stream for', doc['stream'])
		run(rep, drv)
