"""C01 - conservation of material."""
import simlib, simstream, mplib
TRUSTED = ["exact regime (integer / half-integer data): Python floats compared for equality with model rationals",
		   "single-product networks only at network level (multi-product BOM shares are not modelled yet)"]
FIELDS = ['il', 'rm', 'pfg', 'is', 'ispl', 'idi', 'os', 'io', 'bo', 'odi', 'oq', 'oqfg', 'newFG']
THEOREM = 'Props/C01.list'

def oracle(spec, tr, init):
	return simlib.oracle_C01(spec, tr, init)

def run(rep, drv):
	th = rep.tier == 'thorough'
	rep.rule = ('random single-product networks (serial/assembly/distribution/tree/DAG, <=%d nodes), SLT 0-3, OLT 0-2, all policy '
				'types, capacities, explicit disruption lists of all four types, deterministic demand lists; non-trivial = some '
				'period has a positive backorder; distinct by canonical spec' % (8 if th else 5))
	simstream.run_stream(rep, drv, 'sim-trace', 2500 if th else 250, FIELDS, oracle, THEOREM, th)
	# customers with node index 0 and frequent disruptions (index 0 is legal and falsy; disruption bookkeeping is per customer index)
	simstream.run_stream(rep, drv, 'sim-trace', 600 if th else 80, FIELDS, oracle, THEOREM, th, force={'label0': True, 'pdis': .8}, seed_off=101)
	mplib.run_mp_stream(rep, drv, 'C01', THEOREM + ' + Props/MP (rm_conservation, rm_never_negative)', 400 if th else 50, th, seed_off=11)

def replay_mp(rep, drv, doc):
	mplib.mp_case(rep, drv, doc['case'], 'C01', THEOREM)

def replay(rep, drv, doc):
	if doc['stream'] == 'mp-kernels':
		return replay_mp(rep, drv, doc)
	r = simstream.one_case(rep, drv, doc['stream'], doc['case'], FIELDS, oracle, THEOREM)
