"""C01 - conservation of material."""
import simlib, simstream, mplib
TRUSTED = ["exact regime (integer / half-integer data): Python floats compared for equality with model rationals",
		   "single-product networks only at network level (multi-product BOM shares are not modelled yet)"]
FIELDS = ['il', 'rm', 'pfg', 'is', 'ispl', 'idi', 'os', 'io', 'bo', 'odi', 'oq', 'oqfg', 'newFG']
THEOREM = 'Props/C01.list'

def oracle(spec, tr, init):
	return simlib.oracle_C01(spec, tr, init)

def run(rep, drv):
	th = rep.tier == 'thorough'
	rep.rule = ('random single-product networks (serial/assembly/distribution/tree/DAG, <=%d nodes), SLT 0-3, OLT 0-2, all policy '
				'types, capacities, explicit disruption lists of all four types, deterministic demand lists; non-trivial = some '
				'period has a positive backorder; distinct by canonical spec' % (8 if th else 5))
	simstream.run_stream(rep, drv, 'sim-trace', 2500 if th else 250, FIELDS, oracle, THEOREM, th)
	# customers with node index 0 and frequent disruptions (index 0 is legal and falsy; disruption bookkeeping is per customer index)
	simstream.run_stream(rep, drv, 'sim-trace', 600 if th else 80, FIELDS, oracle, THEOREM, th, force={'label0': True, 'pdis': .8}, seed_off=101)
	mplib.run_mp_stream(rep, drv, 'C01', THEOREM + ' + Props/MP (rm_conservation, rm_never_negative)', 400 if th else 50, th, seed_off=11)
	import random
	rngo = random.Random(rep.seed * 13 + 301)
	for k in range(300 if th else 50):
		override_case(rep, drv, simlib.gen_spec(rngo, th))

	# object life cycle: the same network objects simulated a second time with the same horizon (as run_multiple_trials does) -- the second
	# trajectory conserves units like the first and equals the model's
	rngr = random.Random(rep.seed * 7 + 201)
	for k in range(300 if th else 40):
		spec = simlib.gen_spec(rngr, th)
		r = simstream.one_case(rep, drv, 'sim-trace', spec, FIELDS, oracle, THEOREM)
		if r is None:
			continue
		py, mo, init = r
		py2 = simlib.run_py(spec, net_objs=(py['net'], py['objs']))
		rep.count('second-simulation-of-the-same-objects')
		if 'error' in py2:
			rep.diff('sim-trace', 'second simulation of the same network objects raised %s: %s' % (py2['error'], py2.get('msg')), spec, oracle=True, theorem=THEOREM)
			continue
		d = simlib.compare_traces(spec, py2, mo, FIELDS)
		fails = oracle(spec, py2['trace'], init)
		if d or fails:
			what = 'second simulation of the same network objects'
			if d:
				what += ': model/implementation differ: ' + simlib.fmt_diffs(d)
			if fails:
				what += ' | property predicate fails on the real code: ' + '; '.join(fails[:3])
			rep.diff('sim-trace', what, dict(spec, second_run=True), py={'first_diffs': [list(map(str, x)) for x in d[:8]], 'predicate_failures': fails[:8]},
					 oracle=bool(fails), theorem=THEOREM if not d else None)


def override_case(rep, drv, spec):
	"""Orders SET from outside through step(order_quantity_override=...): whatever a node is told to order (more or LESS than its policy asks for), every
	balance of the property still closes on the real trajectory. The override is not part of the Lean model (it only supplies the documented initial
	state); comparisons within 1e-9, because forced orders make production shares non-dyadic."""
	import random
	rng = random.Random(repr(spec['labels']) + str(spec['T']) + 'c01')
	ov = []
	for t in range(spec['T']):
		ov.append({l: float(simlib.gen_value(rng, 0, 14, True)) for l in spec['labels'] if rng.random() < .35})
	py = simlib.run_py(spec, mode='step', overrides=ov)
	case = dict(spec, overrides=[{str(k): v for k, v in o.items()} for o in ov])
	rep.case('order-override', case, nontrivial=any(ov))
	if 'error' in py:
		rep.diff('order-override', 'step() with order_quantity_override raised %s: %s' % (py['error'], py.get('msg')), case, oracle=True, theorem=THEOREM)
		return
	resp = drv.call('sim', **simlib.model_request(spec, exo_from=py['trace']))
	init = simlib.canon_model({'trace': [resp['init']], 'total': '0', 'orderSeq': [], 'shipSeq': [], 'orderOK': True})['trace'][0]
	from fractions import Fraction as F
	fails = simlib.oracle_C01(spec, py['trace'], init, tol=F(1, 10 ** 9))
	if fails:
		rep.diff('order-override', 'property predicate fails on the real code: ' + '; '.join(fails[:3]), case, py={'predicate_failures': fails[:10]}, oracle=True, theorem=THEOREM)


def replay_mp(rep, drv, doc):
	mplib.mp_case(rep, drv, doc['case'], 'C01', THEOREM)

def replay(rep, drv, doc):
	if doc['stream'] == 'mp-kernels':
		return replay_mp(rep, drv, doc)
	if doc['stream'] == 'order-override':
		return override_case(rep, drv, {k: v for k, v in doc['case'].items() if k != 'overrides'})
	r = simstream.one_case(rep, drv, doc['stream'], doc['case'], FIELDS, oracle, THEOREM)
