"""C10 - closed-form solvers coherent with and optimal for their own cost functions."""
import random, warnings, math
from fractions import Fraction as F
import numpy as np
import core
from core import fr, frs, unfr, err_enum

TRUSTED = ["FP/SciPy: math.sqrt, norm.ppf/pdf/cdf, poisson.ppf, brentq and golden-section search are black boxes; theorems take the optimiser's decision through its defining "
		   "equation (e.g. h Q*^2 = 2 K lambda), whose residual the harness checks numerically (1e-9 relative)",
		   "continuous newsvendor optimality (normal / explicit-profit / myopic / yield), unimodality of the exact EOQ-with-disruptions cost and the level sets of the myopic "
		   "function are checked on decision grids (labelled tests), not proved"]
THEOREM = 'Props/C10.list'


def close(a, b, tol=1e-9):
	import math as _m
	if not (_m.isfinite(float(a)) and _m.isfinite(float(b))):
		return float(a) == float(b)          # an infinite value is close to nothing finite
	return abs(float(a) - float(b)) <= tol * max(1.0, abs(float(a)), abs(float(b)))


def run(rep, drv):
	from stockpyl import eoq, newsvendor as nvm, supply_uncertainty as su, loss_functions as lf
	from scipy import stats
	rng = random.Random(rep.seed + 10)
	th = rep.tier == 'thorough'
	N = 600 if th else 80
	rep.rule = ('random admissible parameters per model: optimise -> (decision, cost); evaluate(decision) = cost; first-order residual; model cost function at the decision and '
				'at alternatives on a grid (0.2x..5x and far) vs Python evaluation; no alternative better; evaluation mode on every grid decision. non-trivial = all')

	def bad(stream, what, case, py=None, mo=None, oracle=True):
		rep.diff(stream, what, case, py=py, model=mo, oracle=oracle, theorem=THEOREM)

	def call(f, *a, **k):
		with warnings.catch_warnings():
			warnings.simplefilter('ignore')
			return f(*a, **k)

	grid = [0.2, 0.5, 0.8, 0.95, 1.0, 1.05, 1.3, 2, 5, 25]
	for k in range(N):
		K = rng.choice([1, 8, 50, 200]); h = rng.choice([0.1, 0.225, 1, 4]); lam = rng.choice([5, 100, 1300]); p = rng.choice([2, 5, 20]); mu = lam * rng.choice([1.5, 3, 10])
		ym = rng.choice([1, 5]); ys = rng.choice([0.5, 2])
		fams = [
			('eoq', lambda Q=None: call(eoq.economic_order_quantity, K, h, lam, Q), lambda Q: [K, h, lam, Q], lambda Q: h * Q * Q - 2 * K * lam, 2 * K * lam),
			('epq', lambda Q=None: call(eoq.economic_production_quantity, K, h, lam, mu, Q), lambda Q: [K, h, lam, mu, Q], lambda Q: h * (1 - lam / mu) * Q * Q - 2 * K * lam, 2 * K * lam),
			('addyield', lambda Q=None: call(su.eoq_with_additive_yield_uncertainty, K, h, lam, ym, ys, Q), lambda Q: [K, h, lam, ym, ys, Q],
			 lambda Q: h * (Q + ym) ** 2 - 2 * K * lam - h * ys * ys, 2 * K * lam),
			('mulyield', lambda Q=None: call(su.eoq_with_multiplicative_yield_uncertainty, K, h, lam, ym, ys, Q), lambda Q: [K, h, lam, ym, ys, Q],
			 lambda Q: h * (ys * ys + ym * ym) * Q * Q - 2 * K * lam, 2 * K * lam),
		]
		for fam, f, margs, resid, scale in fams:
			case = {'family': fam, 'K': K, 'h': h, 'lambda': lam, 'mu': mu, 'ym': ym, 'ys': ys}
			rep.case('eoq-family', case); rep.count('family:' + fam)
			try:
				Q, c = f()
				if Q <= 0:
					continue
				Q2, c2 = f(Q)
				errs = []
				if not close(c, c2):
					errs.append('cost returned with the optimum %r != cost of evaluating that decision %r' % (c, c2))
				if abs(resid(Q)) > 1e-8 * scale:
					errs.append('decision %r does not satisfy the first-order condition (residual %r)' % (Q, resid(Q)))
				mo = float(unfr(drv.call('eoqcost', family=fam, args=frs(margs(Q)))))
				rep.tol_cmp += 1
				same = close(c2, mo)
				for g in grid:
					Qa = Q * g
					if fam == 'addyield' and Qa + ym <= 0:
						continue
					Qret, ca = f(Qa)
					if not close(Qret, Qa):
						errs.append('evaluating Q=%r returned the decision %r' % (Qa, Qret)); break
					ma = float(unfr(drv.call('eoqcost', family=fam, args=frs(margs(Qa)))))
					rep.tol_cmp += 1
					if not close(ca, ma):
						same = False
					if ca < c - 1e-9 * max(1, abs(c)):
						errs.append('decision %r costs %r < reported optimum %r' % (Qa, ca, c)); break
				if errs or not same:
					bad('eoq-family', '%s: %s%s' % (fam, '; '.join(errs), '' if same else ' | model cost function differs from evaluation mode'), case, oracle=bool(errs))
			except Exception as e:
				bad('eoq-family', '%s raised %s' % (fam, err_enum(e)), case)
		# EOQ with backorders: jointly over (Q, x)
		case = {'family': 'eoqb', 'K': K, 'h': h, 'p': p, 'lambda': lam}
		rep.case('eoqb', case)
		try:
			Q, x, c = call(eoq.economic_order_quantity_with_backorders, K, h, p, lam)
			_, _, c2 = call(eoq.economic_order_quantity_with_backorders, K, h, p, lam, Q, x)
			errs = []
			if not close(c, c2): errs.append('reported %r != evaluated %r' % (c, c2))
			if not close(x, h / (h + p)) or abs(h * p / (h + p) * Q * Q - 2 * K * lam) > 1e-8 * 2 * K * lam:
				errs.append('(Q,x) does not satisfy the optimality conditions')
			same = True
			for g in grid:
				for xx in (0, 0.1, x, 0.5, 0.9, 1):
					Qr, xr, ca = call(eoq.economic_order_quantity_with_backorders, K, h, p, lam, Q * g, xx)
					ma = float(unfr(drv.call('eoqcost', family='eoqb', args=frs([K, h, p, lam, Q * g, xx]))))
					rep.tol_cmp += 1
					same = same and close(ca, ma)
					# evaluation mode prices the decision it is given: the decision comes back unchanged and the cost is its cost
					# h Q (1-x)^2/2 + p Q x^2/2 + K lambda / Q (x = 0: the plain EOQ cost)
					ref = h * Q * g * (1 - xx) ** 2 / 2 + p * Q * g * xx ** 2 / 2 + K * lam / (Q * g)
					if not (close(Qr, Q * g) and close(xr, xx)) or not close(ca, ref, 1e-9):
						errs.append('evaluating (Q,x)=(%r,%r) returned the decision (%r,%r) and cost %r; that decision costs %r' % (Q * g, xx, Qr, xr, ca, ref))
					if ca < c - 1e-9 * max(1, c):
						errs.append('(Q,x)=(%r,%r) costs %r < %r' % (Q * g, xx, ca, c))
			if errs or not same:
				bad('eoqb', '; '.join(errs[:3]) + ('' if same else ' | model differs'), case, oracle=bool(errs))
		except Exception as e:
			bad('eoqb', 'raised %s' % err_enum(e), case)
	# JRP
	for k in range(N // 4):
		n = rng.randint(2, 4)
		Ks = [rng.choice([20, 50, 120, 400]) for _ in range(n)]; hs = [rng.choice([0.5, 1, 3]) for _ in range(n)]; ds = [rng.choice([100, 800, 1900]) for _ in range(n)]
		K0 = rng.choice([100, 600])
		case = {'K0': K0, 'K': Ks, 'h': hs, 'd': ds}
		rep.case('jrp', case)
		try:
			Qs, T, ms, c = call(eoq.joint_replenishment_problem_silver_heuristic, K0, Ks, hs, ds)
			t1 = K0 + sum(Ks[i] / ms[i] for i in range(n)); t2 = sum(hs[i] * ms[i] * ds[i] for i in range(n))
			errs = []
			if not close(c, t1 / T + T * t2 / 2): errs.append('cost %r != term1/T + T term2/2 = %r' % (c, t1 / T + T * t2 / 2))
			if any(not close(Qs[i], T * ms[i] * ds[i]) for i in range(n)): errs.append('Q_n != T m_n lambda_n')
			if abs(t2 * T * T - 2 * t1) > 1e-8 * 2 * t1: errs.append('T does not minimise for the chosen multiples')
			mo = float(unfr(drv.call('eoqcost', family='jrp', args=frs([t1, t2, T]))))
			rep.tol_cmp += 1
			if errs or not close(c, mo):
				bad('jrp', '; '.join(errs) or 'model differs', case, oracle=bool(errs))
		except Exception as e:
			bad('jrp', 'raised %s' % err_enum(e), case)
	# corpus: demand in lots -- pmf dicts whose keys are not consecutive integers (the zero-probability points are simply absent)
	for qs, hh, bb in (([F(1, 4), 0, 0, 0, 0, F(3, 8), 0, 0, 0, 0, F(1, 4), 0, 0, 0, 0, F(1, 8)], F(1), F(4)), ([F(1, 2), 0, 0, F(1, 4), 0, 0, 0, F(1, 4)], F(2), F(9)),
					   ([0, 0, F(1, 4), 0, F(1, 2), 0, 0, 0, 0, F(1, 4)], F(1, 2), F(3)), ([F(1, 8), F(1, 8), 0, 0, 0, 0, F(3, 4)], F(3), F(1))):
		pmf = {d_: float(v_) for d_, v_ in enumerate(qs) if v_ > 0}
		ys = list(range(-2, len(qs) + 3))
		case = {'variant': 'discrete', 'pmf': {str(k_): v_ for k_, v_ in pmf.items()}, 'h': fr(hh), 'b': fr(bb)}
		rep.case('newsvendor', case); rep.count('discrete:lot-demand-corpus')
		try:
			mo = drv.call('nvdiscrete', pmf=frs([F(v_) for v_ in qs]), h=fr(hh), b=fr(bb), ys=ys)
			costs = [unfr(v) for v in mo['costs']]
			S, c = call(nvm.newsvendor_discrete, float(hh), float(bb), demand_pmf=dict(pmf))
			errs = []
			rep.exact_cmp += 1
			near = lambda a_, b_: abs(float(a_) - float(b_)) <= 1e-9 * max(1.0, abs(float(b_)))
			if not near(c, costs[ys.index(int(S))]) or float(min(costs)) < float(c) - 1e-9 * max(1.0, abs(float(c))):
				errs.append('S*=%s reported cost %r; model cost of that level %s, model optimum %s' % (S, c, costs[ys.index(int(S))], min(costs)))
			for y in ys:
				_, ca = call(nvm.newsvendor_discrete, float(hh), float(bb), demand_pmf=dict(pmf), base_stock_level=y)
				if not near(ca, costs[ys.index(y)]):
					errs.append('evaluation at y=%d: python %r, defining expectation %s' % (y, ca, costs[ys.index(y)])); break
			# object life cycle: the SAME dict revised in place (two probabilities swapped, keys unchanged) and passed again is the revised distribution
			ks_ = sorted(pmf)
			if len(ks_) >= 2 and pmf[ks_[0]] != pmf[ks_[-1]]:
				live = dict(pmf)
				call(nvm.newsvendor_discrete, float(hh), float(bb), demand_pmf=live)
				live[ks_[0]], live[ks_[-1]] = live[ks_[-1]], live[ks_[0]]
				qs2 = [F(0)] * len(qs)
				for d_, v_ in live.items():
					qs2[d_] = F(v_)
				mo2 = drv.call('nvdiscrete', pmf=frs(qs2), h=fr(hh), b=fr(bb), ys=ys)
				costs2 = [unfr(v) for v in mo2['costs']]
				S2, c2 = call(nvm.newsvendor_discrete, float(hh), float(bb), demand_pmf=live)
				rep.count('discrete:pmf-dict-revised-in-place')
				if not near(c2, costs2[ys.index(int(S2))]) or float(min(costs2)) < float(c2) - 1e-9 * max(1.0, abs(float(c2))):
					errs.append('after the dict was revised in place: S*=%s reported cost %r; model cost of that level under the revised pmf %s, optimum %s' % (S2, c2, costs2[ys.index(int(S2))], min(costs2)))
			if errs:
				bad('newsvendor', 'discrete (lot demand): ' + '; '.join(errs[:3]), case)
		except Exception as e:
			bad('newsvendor', 'discrete (lot demand) raised %s' % err_enum(e), case)
	# newsvendor variants
	for k in range(N):
		h = rng.choice([0.18, 1, 3]); p = rng.choice([0.7, 4, 20]); mean = rng.choice([8, 50, 120]); sd = rng.choice([2, 8, 20]); L = rng.choice([0, 0, 1, 3])
		which = rng.choice(['normal', 'poisson', 'discrete', 'explicit', 'myopic', 'continuous', 'yield-additive', 'disruptions', 'eoq-disruptions'])
		if k < 3:
			which = 'eoq-disruptions'          # corpus: the first cases are EOQ-with-disruptions in the rare-long-disruption regime
		elif k < 11:
			which = 'continuous'               # corpus: one continuous newsvendor per shifted / scaled family (below)
		case = {'variant': which, 'h': h, 'p': p, 'mean': mean, 'sd': sd, 'L': L}
		rep.case('newsvendor', case); rep.count('variant:' + which)
		try:
			errs = []
			if which == 'normal':
				S, c = call(nvm.newsvendor_normal, h, p, mean, sd, L)
				_, c2 = call(nvm.newsvendor_normal, h, p, mean, sd, L, S)
				if not close(c, c2, 1e-8): errs.append('reported %r != evaluated %r' % (c, c2))
				m, s_ = mean * (L + 1), sd * math.sqrt(L + 1)
				if not close(stats.norm.cdf(S, m, s_), p / (p + h), 1e-9): errs.append('F(S*) != critical ratio')
				for dS in (-2 * s_, -0.2 * s_, -0.01, 0.01, 0.3 * s_, 3 * s_, 40 * s_):
					_, ca = call(nvm.newsvendor_normal, h, p, mean, sd, L, S + dS)
					ref = h * ((S + dS - m) * stats.norm.cdf(S + dS, m, s_) + s_ * stats.norm.pdf((S + dS - m) / s_)) + p * ((m - S - dS) * (1 - stats.norm.cdf(S + dS, m, s_)) + s_ * stats.norm.pdf((S + dS - m) / s_))
					if not close(ca, ref, 1e-8): errs.append('evaluated cost != defining expectation at S=%r' % (S + dS))
					if ca < c - 1e-9 * max(1, c): errs.append('S=%r is better' % (S + dS))
			elif which == 'poisson':
				lam = mean / 4
				S, c = call(nvm.newsvendor_poisson, h, p, lam)
				_, c2 = call(nvm.newsvendor_poisson, h, p, lam, S)
				if not close(c, c2): errs.append('reported != evaluated')
				for y in range(0, int(S) + 15):
					ca = call(nvm.newsvendor_poisson_cost, y, h, p, lam)
					hi = int(stats.poisson.ppf(1 - 1e-15, lam)) + 5
					ref = sum(stats.poisson.pmf(d, lam) * (h * max(y - d, 0) + p * max(d - y, 0)) for d in range(hi))
					if not close(ca, ref, 1e-8): errs.append('cost at y=%d != defining expectation' % y); break
					if ca < c - 1e-9 * max(1, c): errs.append('y=%d is better' % y); break
			elif which == 'discrete':
				D = rng.randint(1, 8); w = [rng.randint(0, 5) for _ in range(D + 1)]
				if sum(w) == 0: w[0] = 1
				q = [F(x * 64 // sum(w), 64) for x in w]; q[-1] += 1 - sum(q)
				if any(v < 0 for v in q): continue
				hh, bb = F(rng.randint(1, 8), 2), F(rng.randint(1, 40), 2)
				items = [(d, float(v)) for d, v in enumerate(q)]; rng.shuffle(items)
				pmf = dict(items)
				if k % 2 == 0 and any(v_ == 0 for v_ in pmf.values()) and any(v_ > 0 for v_ in pmf.values()):
					# the same distribution with its zero-probability points LEFT OUT of the dict (a support with gaps, e.g. demand in lots)
					pmf = {d_: v_ for d_, v_ in pmf.items() if v_ > 0}; rep.count('discrete:pmf-dict-with-gaps')
				S, c = call(nvm.newsvendor_discrete, float(hh), float(bb), demand_pmf=pmf)
				ys = list(range(-2, D + 4))
				mo = drv.call('nvdiscrete', pmf=frs(q), h=fr(hh), b=fr(bb), ys=ys)
				rep.exact_cmp += 1
				costs = [unfr(v) for v in mo['costs']]
				if F(float(c)) != costs[ys.index(int(S))]: errs.append('reported cost %r != model cost of S*=%s (%s)' % (c, S, costs[ys.index(int(S))]))
				if min(costs) < F(float(c)): errs.append('level %d is cheaper' % ys[costs.index(min(costs))])
				for y in ys:
					_, ca = call(nvm.newsvendor_discrete, float(hh), float(bb), demand_pmf=pmf, base_stock_level=y)
					if F(float(ca)) != costs[ys.index(y)]: errs.append('evaluation at y=%d: python %r model %s' % (y, ca, costs[ys.index(y)])); break
				# cdf at S* reaches the critical ratio first
				alpha = bb / (bb + hh); cum = F(0)
				for d, v in enumerate(q):
					cum += v
					if cum >= alpha: break
				if min(d, D) != int(S) and costs[ys.index(int(S))] != min(costs): errs.append('S*=%s is not the first level with F >= alpha (%d)' % (S, d))
			elif which == 'explicit':
				r, c0, v = 1.0 + p, 0.3, 0.12
				S, prof = call(nvm.newsvendor_normal_explicit, r, c0, v, mean, sd, h, p, L)
				_, prof2 = call(nvm.newsvendor_normal_explicit, r, c0, v, mean, sd, h, p, L, S)
				if not close(prof, prof2, 1e-8): errs.append('reported profit %r != evaluated %r' % (prof, prof2))
				for dS in (-sd, -0.05, 0.05, sd, 10 * sd):
					_, pa = call(nvm.newsvendor_normal_explicit, r, c0, v, mean, sd, h, p, L, S + dS)
					if pa > prof + 1e-9 * max(1, abs(prof)): errs.append('S=%r gives higher profit' % (S + dS))
				# Poisson version: profit defined by expectation over the Poisson lead-time demand; optimum over integer levels
				lamP = rng.choice([3, 8, 15])
				Sp, profp = call(nvm.newsvendor_poisson_explicit, r, c0, v, lamP, h, p, L)
				_, profp2 = call(nvm.newsvendor_poisson_explicit, r, c0, v, lamP, h, p, L, Sp)
				if not close(profp, profp2, 1e-8): errs.append('poisson explicit: reported profit %r != evaluated %r' % (profp, profp2))
				muP = lamP * (L + 1)
				ks = range(0, int(stats.poisson.ppf(1 - 1e-13, muP)) + 5)
				def prof_def(y):
					return sum(float(stats.poisson.pmf(k, muP)) * (r * min(y, k) + v * max(y - k, 0) - h * max(y - k, 0) - p * max(k - y, 0)) for k in ks) - c0 * y
				if not close(profp, prof_def(int(Sp)), 1e-7): errs.append('poisson explicit: profit %r but the definition gives %r at S=%r' % (profp, prof_def(int(Sp)), Sp))
				for dS in (-2, -1, 1, 2):
					_, pa = call(nvm.newsvendor_poisson_explicit, r, c0, v, lamP, h, p, L, Sp + dS)
					if pa > profp + 1e-9 * max(1, abs(profp)): errs.append('poisson explicit: S=%r gives higher profit' % (Sp + dS))
			elif which == 'myopic':
				c1, c2_, g = 1.0, rng.choice([0.8, 1.0, 1.1]), rng.choice([1.0, 0.95])
				S, c = call(nvm.myopic, h, p, c1, c2_, mean, sd, g)
				_, cc = call(nvm.myopic, h, p, c1, c2_, mean, sd, g, S)
				if not close(c, cc): errs.append('reported != evaluated')
				for dS in (-sd, -0.05, 0.05, sd, 8 * sd):
					ca = call(nvm.myopic_cost, S + dS, h, p, c1, c2_, mean, sd, g)
					gS = call(nvm.newsvendor_normal_cost, S + dS, h, p, mean, sd)
					if not close(ca, c1 * (S + dS) + gS - g * c2_ * (S + dS - mean), 1e-9): errs.append('myopic cost != c y + g(y) - gamma c+(y - mu)')
					if ca < c - 1e-9 * max(1, abs(c)): errs.append('y=%r is better' % (S + dS))
				# level sets: set_myopic_cost_to(cost) returns y on the requested side of the minimiser with G(y) = cost
				for side in (True, False):
					target = c + rng.choice([0.5, 2.0, 5.0])
					y = call(nvm.set_myopic_cost_to, target, h, p, c1, c2_, mean, sd, g, side)
					gy = call(nvm.myopic_cost, y, h, p, c1, c2_, mean, sd, g)
					if not close(gy, target, 1e-6) or (side and y > S + 1e-6) or ((not side) and y < S - 1e-6):
						errs.append('set_myopic_cost_to(%r, left_half=%s) = %r: G(y) = %r, minimiser %r' % (target, side, y, gy, S))
			elif which == 'continuous':
				dist = rng.choice([stats.gamma(4, scale=mean / 4), stats.uniform(mean / 2, mean), stats.norm(mean, sd)])
				# "any continuous distribution": shifted and scaled families too (their own stream: the main one is unchanged)
				rng_d = random.Random(rep.seed * 7 + k)
				if k % 3 == 0 or 3 <= k < 11:
					fams_ = [('lognorm(0.3, loc=mean/2, scale=mean/2)', stats.lognorm(0.3, mean / 2, mean / 2)), ('lognorm(0.6, loc=40, scale=30)', stats.lognorm(0.6, 40, 30)),
						('lognorm(0.5, loc=-20, scale=60)', stats.lognorm(0.5, -20, 60)), ('gamma(3, loc=mean/2, scale=mean/6)', stats.gamma(3, loc=mean / 2, scale=mean / 6)),
						('expon(loc=mean/2, scale=mean/2)', stats.expon(loc=mean / 2, scale=mean / 2)), ('beta(2,3) on [mean/2, 2 mean]', stats.beta(2, 3, loc=mean / 2, scale=1.5 * mean)),
						('norm(mean, sd)', stats.norm(mean, sd)), ('lognorm(0.4, scale=mean)', stats.lognorm(0.4, scale=mean))]
					dname, dist = fams_[k - 3] if 3 <= k < 11 else rng_d.choice(fams_)
					case['dist'] = dname; rep.count('continuous:shifted-or-scaled-family')
				S, c = call(nvm.newsvendor_continuous, h, p, demand_distrib=dist)
				_, c2 = call(nvm.newsvendor_continuous, h, p, demand_distrib=dist, base_stock_level=S)
				if not close(c, c2, 1e-7): errs.append('reported != evaluated')
				if not close(dist.cdf(S), p / (p + h), 1e-8): errs.append('F(S*) != critical ratio')
				# the cost is the model's defining expectation h E[(S-D)+] + p E[(D-S)+] (independent quadrature of the density), at S* and elsewhere,
				# and no other level evaluates better
				from scipy import integrate as _ig
				lo_, hi_ = float(dist.ppf(1e-12)), float(dist.ppf(1 - 1e-12))
				def defn(y):
					over = _ig.quad(lambda t_: (y - t_) * dist.pdf(t_), lo_, y, limit=200)[0] if y > lo_ else 0.0
					under = _ig.quad(lambda t_: (t_ - y) * dist.pdf(t_), y, hi_, limit=200)[0] if y < hi_ else 0.0
					return h * over + p * under
				if not close(c, defn(S), 1e-5): errs.append('cost at S*=%r reported %r, h E[(S-D)+] + p E[(D-S)+] = %r' % (S, c, defn(S)))
				for q_ in (0.1, 0.35, 0.7, 0.95):
					y = float(dist.ppf(q_))
					_, cy = call(nvm.newsvendor_continuous, h, p, demand_distrib=dist, base_stock_level=y)
					if not close(cy, defn(y), 1e-5): errs.append('cost of S=%r evaluated %r, definition %r' % (y, cy, defn(y)))
					if cy < c - 1e-7 * max(1, abs(c)): errs.append('S=%r evaluates better (%r) than the returned optimum (%r)' % (y, cy, c))
			elif which == 'yield-additive':
				d = mean
				ymn, ysd = rng.choice([(2.0, 1.0), (0.0, 3.0), (-1.5, 0.5), (4.0, 2.5)])
				for shape in ('moments', 'normal-object', 'uniform', 'gamma', 'discrete', 'uniform+moments', 'gamma+moments', 'discrete+moments', 'uniform+lossfn'):
					rep.count('additive-yield:' + shape)
					kw = {}; dist = None
					if shape.startswith('normal'): dist = stats.norm(ymn, ysd)
					elif shape.startswith('uniform'): dist = stats.uniform(ymn - ysd * 3 ** .5, 2 * ysd * 3 ** .5)
					elif shape.startswith('gamma'): dist = stats.gamma(4, loc=ymn - 2 * ysd, scale=ysd / 2)        # shifted gamma with exactly these moments
					elif shape.startswith('discrete'): dist = stats.randint(max(0, int(ymn) - 3), max(0, int(ymn) - 3) + 8)      # discrete_loss documents F(x) = 0 for x < 0: non-negative support only
					if dist is not None: kw['yield_distribution'] = dist
					if shape == 'moments': kw.update(yield_mean=ymn, yield_sd=ysd)
					if shape.endswith('+moments'): kw.update(yield_mean=float(dist.mean()), yield_sd=float(dist.std()))
					if shape.endswith('+lossfn'):
						lo_, hi_ = dist.support()
						kw['loss_function'] = lambda x: lf.uniform_loss(x, lo_, hi_)
					S, c = call(su.newsvendor_with_additive_yield_uncertainty, h, p, d, **kw)
					_, c2 = call(su.newsvendor_with_additive_yield_uncertainty, h, p, d, base_stock_level=S, **kw)
					if not close(c, c2, 1e-8): errs.append('%s: reported %r != evaluated %r' % (shape, c, c2))
					steps = (-1.0, 0.5, 3.0, -0.25 * ysd, 0.25 * ysd, -ysd, ysd, -2 * ysd, 2 * ysd) if 'discrete' not in shape else (-1.0, 1.0, 2.0, -3.0)
					for dS in steps:
						if shape.endswith('+lossfn') and not (lo_ <= d - S - dS <= hi_):
							continue          # uniform_loss is defined on the support only
						_, ca = call(su.newsvendor_with_additive_yield_uncertainty, h, p, d, base_stock_level=S + dS, **kw)
						if ca < c - 1e-7 * max(1, c): errs.append('%s: S*=%r costs %r but S=%r costs %r' % (shape, S, c, S + dS, ca))
					if shape == 'discrete':
						# the Lean model: a newsvendor in R = d - S with the yield as "demand", overage rate p, underage rate h (theorem add_yield_optimal)
						lo_, hi_ = dist.support()
						pm = [F(0)] * int(lo_) + [F(1, int(hi_ - lo_ + 1))] * int(hi_ - lo_ + 1)
						Rs = list(range(-2, int(hi_) + 3))
						mo = drv.call('nvdiscrete', pmf=frs(pm), h=fr(F(p).limit_denominator(10 ** 6)), b=fr(F(h).limit_denominator(10 ** 6)), ys=Rs)
						rep.tol_cmp += 1
						if int(d - S) != mo['opt'] and not close(float(unfr(mo['costs'][Rs.index(mo['opt'])])), c, 1e-9):
							errs.append('discrete: S*=%r (R=%d) but the model newsvendor in R is minimised at R=%d' % (S, int(d - S), mo['opt']))
						for R_, mc in zip(Rs, mo['costs']):
							_, ca = call(su.newsvendor_with_additive_yield_uncertainty, h, p, d, base_stock_level=d - R_, **kw)
							if not close(ca, float(unfr(mc)), 1e-9):
								errs.append('discrete: cost at S=%r python %r, model %r' % (d - R_, ca, float(unfr(mc)))); break
					# the cost is the documented expectation p E[(R-Y)+] + h E[(Y-R)+] with R = d - S, under the yield that the call describes
					if '+' not in shape:
						R = d - S
						if shape in ('moments', 'normal-object'):
							z = (R - ymn) / ysd; Lz = stats.norm.pdf(z) - z * (1 - stats.norm.cdf(z))
							n_ = ysd * Lz; nb_ = n_ + (R - ymn)
						elif shape == 'uniform':
							lo_, hi_ = dist.support()
							n_ = (lo_ + hi_) / 2 - R if R <= lo_ else (0.0 if R >= hi_ else (hi_ - R) ** 2 / (2 * (hi_ - lo_)))
							nb_ = n_ + (R - (lo_ + hi_) / 2)
						elif shape == 'discrete':
							lo_, hi_ = dist.support()
							n_ = sum(max(y - R, 0) * dist.pmf(y) for y in range(int(lo_), int(hi_) + 1)); nb_ = n_ + (R - float(dist.mean()))
						else:
							n_ = float(dist.expect(lambda y: max(y - R, 0.0))); nb_ = n_ + (R - float(dist.mean()))
						want = p * nb_ + h * n_
						if not close(c, want, 1e-5): errs.append('%s: cost at S*=%r reported %r, definition gives %r' % (shape, S, c, want))
						if 'discrete' not in shape and not close(float((dist or stats.norm(ymn, ysd)).cdf(d - S)), h / (h + p), 1e-7):
							errs.append('%s: F_Y(d - S*) is not h/(h+p)' % shape)
			elif which == 'disruptions':
				d = mean; a, b = rng.choice([0.04, 0.1]), rng.choice([0.25, 0.5])
				S, c = call(su.newsvendor_with_disruptions, h, p, d, a, b)
				_, c2 = call(su.newsvendor_with_disruptions, h, p, d, a, b, S)
				if not close(c, c2): errs.append('reported != evaluated')
				for mult in range(1, 12):
					_, ca = call(su.newsvendor_with_disruptions, h, p, d, a, b, d * mult)
					if ca < c - 1e-9 * max(1, c): errs.append('S=%r better' % (d * mult))
				# evaluation mode at ANY level (not only multiples of the per-period demand) is the defining expectation over the number n of
				# consecutive disrupted periods: pi_0 = b/(a+b), pi_n = a b (1-b)^(n-1)/(a+b); cost = sum pi_n [h (S-(n+1)d)+ + p ((n+1)d-S)+]
				def defn_dis(S_):
					tot_, n_ = 0.0, 0
					while True:
						pi_ = b / (a + b) if n_ == 0 else a * b * (1 - b) ** (n_ - 1) / (a + b)
						tot_ += pi_ * (h * max(0, S_ - (n_ + 1) * d) + p * max(0, (n_ + 1) * d - S_))
						n_ += 1
						if n_ > 5 and pi_ * p * (n_ + 1) * d < 1e-13 * max(1.0, tot_) / max(b, 1e-3):
							return tot_
				for frac in (0.6, 0.5, 0.97, 1.25, 3.5, 3.99, 7.75):
					_, ca = call(su.newsvendor_with_disruptions, h, p, d, a, b, d * frac)
					if not close(ca, defn_dis(d * frac), 1e-7): errs.append('cost of S=%r evaluated %r, defining expectation %r' % (d * frac, ca, defn_dis(d * frac)))
					if ca < c - 1e-9 * max(1, c): errs.append('S=%r evaluates better (%r) than the returned optimum (%r)' % (d * frac, ca, c))
			else:
				K = rng.choice([8, 50, 1]); lam = rng.choice([100, 1300]); a, b = rng.choice([0.5, 1.5]), rng.choice([6, 14])
				if k < 3 or rng.random() < .4:
					a, b = rng.choice([0.001, 0.05]), rng.choice([0.01, 0.2])          # rare, long disruptions: the closed-form approximation is far from the exact optimum
					h = rng.choice([0.01, 0.225])
					rep.count('eoq-disruptions:rare-long')
				if k < 3:
					# corpus: stockouts cheap relative to holding and long disruptions -- the exact optimum lies an order of magnitude ABOVE the approximate one
					K, h, p, lam, a, b = [(8, 10, 0.1, 1, 0.1, 0.01), (8, 5, 0.1, 1, 0.2, 0.01), (20, 10, 0.2, 2, 0.1, 0.02)][k]
					case.update({'p': p}); rep.count('eoq-disruptions:optimum-far-above-the-approximation')
				case.update({'K': K, 'lambda': lam, 'disruption_rate': a, 'recovery_rate': b, 'h': h})
				for approx in (False, True):
					Q, c = call(su.eoq_with_disruptions, K, h, p, lam, a, b, approximate=approx)
					c2 = call(su.eoq_with_disruptions_cost, Q, K, h, p, lam, a, b, approximate=approx)
					if not close(c, c2, 1e-7): errs.append('approximate=%s: reported %r != evaluated %r' % (approx, c, c2))
					for g in (0.3, 0.9, 0.999, 1.001, 1.1, 3) + ((0.003, 0.01, 0.05, 0.1, 10, 30, 100) if not approx else ()):
						ca = call(su.eoq_with_disruptions_cost, Q * g, K, h, p, lam, a, b, approximate=approx)
						if ca < c - 1e-7 * max(1, c): errs.append('approximate=%s: Q=%r better' % (approx, Q * g))
			if errs:
				bad('newsvendor', which + ': ' + '; '.join(errs[:3]), case)
		except Exception as e:
			import traceback
			bad('newsvendor', '%s raised %s: %s' % (which, err_enum(e), traceback.format_exc()[-200:]), case)

	call_histories(rep)


def call_histories(rep):
	"""Every function of the family is a function of the arguments of the call: one instance evaluated again with exactly one argument changed,
	and once more unchanged, gives what the same calls give alone in a fresh interpreter (core.history_check)."""
	H = core.one_argument_histories
	calls = []
	for kw in H(dict(fixed_cost=8, holding_cost=0.225, demand_rate=1300), ['fixed_cost', 'holding_cost', 'demand_rate']):
		calls.append(('stockpyl.eoq', 'economic_order_quantity', (), kw))
	for kw in H(dict(fixed_cost=8, holding_cost=0.225, stockout_cost=5, demand_rate=1300), ['stockout_cost', 'fixed_cost']):
		calls.append(('stockpyl.eoq', 'economic_order_quantity_with_backorders', (), kw))
	for kw in H(dict(fixed_cost=8, holding_cost=0.225, demand_rate=1300, production_rate=1700), ['production_rate', 'demand_rate']):
		calls.append(('stockpyl.eoq', 'economic_production_quantity', (), kw))
	for kw in H(dict(holding_cost=0.18, stockout_cost=0.7, demand_mean=50, demand_sd=8, lead_time=1), ['holding_cost', 'stockout_cost', 'demand_mean', 'demand_sd', 'lead_time']):
		calls.append(('stockpyl.newsvendor', 'newsvendor_normal', (), kw))
	for kw in H(dict(holding_cost=1, stockout_cost=4, demand_mean=6), ['holding_cost', 'stockout_cost', 'demand_mean']):
		calls.append(('stockpyl.newsvendor', 'newsvendor_poisson', (), kw))
	for kw in H(dict(holding_cost=1, stockout_cost=4, demand_pmf={0: .2, 1: .3, 4: .4, 9: .1}), ['stockout_cost', 'demand_pmf'],
				lambda k, v: {0: .1, 1: .3, 4: .4, 9: .2} if k == 'demand_pmf' else v * 3):
		calls.append(('stockpyl.newsvendor', 'newsvendor_discrete', (), kw))
	for kw in H(dict(fixed_cost=8, holding_cost=0.225, stockout_cost=5, demand_rate=1300, disruption_rate=1.5, recovery_rate=14), ['disruption_rate', 'recovery_rate', 'stockout_cost', 'fixed_cost']):
		calls.append(('stockpyl.supply_uncertainty', 'eoq_with_disruptions', (), kw))
	for kw in H(dict(holding_cost=0.25, stockout_cost=3, demand=2000, disruption_prob=0.04, recovery_prob=0.25), ['disruption_prob', 'recovery_prob', 'demand']):
		calls.append(('stockpyl.supply_uncertainty', 'newsvendor_with_disruptions', (), kw))
	for kw in H(dict(fixed_cost=18500, holding_cost=0.06, demand_rate=75000, yield_mean=-15000, yield_sd=9000), ['yield_mean', 'yield_sd', 'fixed_cost']):
		calls.append(('stockpyl.supply_uncertainty', 'eoq_with_additive_yield_uncertainty', (), kw))
	for kw in H(dict(fixed_cost=18500, holding_cost=0.06, demand_rate=75000, yield_mean=0.8333, yield_sd=0.1443), ['yield_mean', 'yield_sd']):
		calls.append(('stockpyl.supply_uncertainty', 'eoq_with_multiplicative_yield_uncertainty', (), kw))
	for kw in H(dict(holding_cost=15, stockout_cost=75, demand=1.5e6, yield_mean=-3e5, yield_sd=1e5), ['yield_mean', 'yield_sd', 'demand']):
		calls.append(('stockpyl.supply_uncertainty', 'newsvendor_with_additive_yield_uncertainty', (), kw))
	core.history_check(rep, 'call-history', calls, theorem=THEOREM)


def replay(rep, drv, doc):
	print('replaying the quick stream; recorded case:', doc['stream'], doc['case'])
	run(rep, drv)
