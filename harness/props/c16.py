"""C16 - demand and disruption generators realise their declared distributions (deterministic decomposition)."""
import random, warnings, math
from fractions import Fraction as F
import numpy as np
import core
from core import fr, frs, unfr, err_enum

TRUSTED = ["RNG: that NumPy's samplers realise their documented distributions, and that the Markov chain's empirical frequency converges, are facts about the runtime the model "
		   "cannot exhibit; the check decides the LOGIC: which sampler is called with which arguments (NumPy primitives replaced by a recording stub that returns "
		   "harness-chosen values), the post-processing, list cycling, validation, reported moments/cdf and the lead-time-demand convolution",
		   "SciPy distribution objects (mean/std/cdf/pmf) are black boxes compared with model pmfs; FFT convolution compared to 1e-9",
		   "a seeded sampling run (Kolmogorov-type band sized for < 1e-6 false alarms) is used only as failing-input search after a deterministic mismatch, never as the verdict"]
THEOREM = 'Props/C16.list'


class Stub:
	"""Replaces numpy.random samplers: records (name, args) and returns the value chosen by the harness."""
	def __init__(self):
		self.calls = []; self.value = 0
		self.saved = {}
	def __enter__(self):
		for nm in ('normal', 'poisson', 'randint', 'uniform', 'negative_binomial', 'choice', 'rand'):
			self.saved[nm] = getattr(np.random, nm)
			setattr(np.random, nm, self.make(nm))
		return self
	def __exit__(self, *a):
		for nm, f in self.saved.items():
			setattr(np.random, nm, f)
	def make(self, nm):
		def f(*args, **kw):
			self.calls.append((nm, args, kw))
			if len(self.calls) > 25:
				raise RuntimeError('sampler called more than 25 times for one demand (rejection loop on a fixed primitive value)')
			return self.value
		return f


def close(a, b, tol=1e-9):
	import math as _m
	if not (_m.isfinite(float(a)) and _m.isfinite(float(b))):
		return float(a) == float(b)          # an infinite value is close to nothing finite
	return abs(float(a) - float(b)) <= tol * max(1.0, abs(float(a)), abs(float(b)))


def gen_ds(rng, nonint=False):
	from stockpyl.demand_source import DemandSource
	t = rng.choice(['N', 'P', 'UD', 'UC', 'NB', 'D', 'D1', 'CD'])
	if t == 'N':
		m, s = rng.choice([5, 20, 50]), rng.choice([1, 4, 12]); return DemandSource(type='N', mean=m, standard_deviation=s), {'type': 'N', 'mean': fr(m), 'sd': fr(s)}, None
	if t == 'P':
		m = rng.choice([0.5, 3, 12]); return DemandSource(type='P', mean=m), {'type': 'P', 'mean': fr(m)}, None
	if t == 'UD':
		lo = rng.randint(0, 6); hi = lo + rng.randint(0, 7); return DemandSource(type='UD', lo=lo, hi=hi), {'type': 'UD', 'lo': lo, 'hi': hi}, [F(1, hi - lo + 1)] * (hi - lo + 1)
	if t == 'UC':
		lo = rng.choice([0, 2, 6]); hi = lo + rng.choice([1, 4, 10]); return DemandSource(type='UC', lo=lo, hi=hi), {'type': 'UC', 'lo': fr(lo), 'hi': fr(hi)}, None
	if t == 'NB':
		n, p = rng.choice([2, 5, 9]), rng.choice([0.25, 0.5, 0.75]); return DemandSource(type='NB', n=n, p=p), {'type': 'NB', 'n': fr(n), 'p': fr(p)}, None
	if t == 'D':
		l = [rng.randint(0, 12) for _ in range(rng.randint(1, 6))]
		if nonint and rng.random() < .4:
			l = [v + rng.choice([0, 0.25, 0.75, 0.375]) for v in l]        # a deterministic list need not be integer-valued (rounding applies to it too)
		return DemandSource(type='D', demand_list=l), {'type': 'D', 'list': frs(l)}, None
	if t == 'D1':
		x = rng.randint(0, 9); return DemandSource(type='D', demand_list=x), {'type': 'D', 'list': fr(x)}, None
	k = rng.randint(2, 5)
	vals = sorted(rng.sample(range(0, 12), k))
	if rng.random() < .5:
		rng.shuffle(vals)          # a demand list is a list of values: any order is legal
	if nonint and rng.random() < .3:
		vals = [v + rng.choice([0.25, 0.75]) for v in vals]          # non-integer support points (still distinct after rounding: spacing >= 1)
	probs = rng.choice([[0.7, 0.2, 0.1], [0.1] * 10, [1 / 3, 1 / 3, 1 / 3], [0.25, 0.25, 0.5], [0.3, 0.3, 0.4], [0.5, 0.5]])
	probs = probs[:k] if len(probs) >= k and abs(sum(probs[:k]) - 1) < 1e-9 else [1.0 / k] * k
	return DemandSource(type='CD', demand_list=vals, probabilities=probs), {'type': 'CD', 'vals': frs(vals), 'probs': frs(probs)}, None


def run(rep, drv):
	from stockpyl.demand_source import DemandSource
	from stockpyl.disruption_process import DisruptionProcess
	rng = random.Random(rep.seed + 16)
	th = rep.tier == 'thorough'
	N = 1500 if th else 220
	rep.rule = ('every demand type x parameters x rounding on/off: sampler name, arguments and post-processing (NumPy primitives stubbed) vs the Lean model; declared '
				'distribution support / mean / sd / cdf; deterministic list cycling; custom-discrete probability vectors that sum to one only within rounding; lead-time demand '
				'vs model convolution and L*mu, L*sigma^2; Markov / explicit disruption processes (thresholds, cycling, steady state). non-trivial = all')

	def bad(stream, what, case, py=None, mo=None, oracle=True):
		rep.diff(stream, what, case, py=py, model=mo, oracle=oracle, theorem=THEOREM)

	# ---- generation: primitive + post-processing --------------------------
	for k in range(N):
		try:
			with warnings.catch_warnings():
				warnings.simplefilter('ignore')
				ds, spec, _ = gen_ds(rng, nonint=True)
		except Exception as e:
			bad('construct', 'constructor raised %s' % err_enum(e), {}); continue
		rnd = rng.random() < .4
		ds.round_to_int = rnd
		t = rng.randint(0, 20)
		# value the primitive returns: inside the primitive's documented range
		ty = spec['type']
		if ty == 'N': u = rng.choice([-3.5, 0.0, 4.25, 17.5, 60.75])
		elif ty in ('P', 'NB'): u = rng.randint(0, 30)
		elif ty == 'UD': u = rng.randint(spec['lo'], spec['hi'])
		elif ty == 'UC': u = float(F(spec['lo'])) + (float(F(spec['hi'])) - float(F(spec['lo']))) * rng.choice([0, 0.25, 0.5, 0.875])
		elif ty == 'CD': u = float(F(rng.choice(spec['vals'])))
		else: u = 0
		case = {'ds': spec, 'u': fr(u), 't': t, 'round': rnd}
		rep.case('generate_demand', case); rep.count('type:' + ty + (':round' if rnd else ''))
		with Stub() as st:
			st.value = u
			try:
				with warnings.catch_warnings():
					warnings.simplefilter('ignore')
					d = ds.generate_demand(t)
			except Exception as e:
				d = 'error:' + err_enum(e) + ' (' + str(e)[:120] + ')'
			calls = list(st.calls)
		mo = drv.call('demand', **case)
		rep.exact_cmp += 1
		errs = []
		if isinstance(d, str):
			errs.append('generate_demand raised ' + d)
		else:
			if F(float(d)) != unfr(mo['demand']):
				errs.append('demand %r, model %s' % (d, mo['demand']))
			prim = mo['primitive']
			if prim is None:
				if calls: errs.append('deterministic demand called a sampler: %s' % calls)
			else:
				if len(calls) != 1 or calls[0][0] != prim['name']:
					errs.append('sampler called: %s, documented: %s' % ([c[0] for c in calls], prim['name']))
				else:
					args = calls[0][1]; kw = calls[0][2]
					flat = []
					for a in list(args) + list(kw.values()):
						flat += [float(x) for x in a] if isinstance(a, (list, tuple, np.ndarray)) else [float(a)]
					want = [float(unfr(x)) for x in prim['args']]
					if len(flat) != len(want) or any(not close(a, b, 1e-12) for a, b in zip(flat, want)):
						errs.append('sampler %s called with %s, the declared distribution needs %s' % (prim['name'], flat, want))
			# declared support
			try:
				dist = ds.demand_distribution if ty not in ('D',) else None
			except Exception as e:
				dist = None
				errs.append('demand_distribution raised %s (%s)' % (err_enum(e), str(e)[:100]))
			if dist is not None and not isinstance(d, str) and not rnd:
				lo_s, hi_s = dist.support()
				if not (lo_s - 1e-12 <= d <= hi_s + 1e-12) and ty != 'N':
					errs.append('generated demand %r outside the declared support [%r, %r]' % (d, lo_s, hi_s))
		if errs:
			bad('generate_demand', '; '.join(errs[:3]), case, py=[str(d), str(calls)[:300]], mo=mo)

	# ---- reported moments / cdf vs the distribution object and vs the definition ----
	alive = {}
	for k in range(N // 2):
		try:
			with warnings.catch_warnings():
				warnings.simplefilter('ignore')
				ds, spec, pmf = gen_ds(rng)
				ty = spec['type']
				if ty == 'D':
					continue
				dist = ds.demand_distribution
				rep.case('moments', spec)
				errs = []
				if not close(ds.mean, dist.mean(), 1e-9) or not close(ds.standard_deviation, dist.std(), 1e-9):
					errs.append('reported mean/sd (%r,%r) are not those of the distribution object (%r,%r)' % (ds.mean, ds.standard_deviation, dist.mean(), dist.std()))
				# ... at support points, between them (a discrete cdf is a step function) and outside the support
				for x in (dist.ppf(0.1), dist.ppf(0.5), dist.ppf(0.95), dist.ppf(0.5) + 0.5, dist.ppf(0.1) - 0.75, dist.ppf(0.95) + 0.25, dist.ppf(0.3) + 0.125, dist.ppf(0.001) - 1.5):
					if not close(ds.cdf(x), dist.cdf(x), 1e-12): errs.append('cdf(%r) = %r, the distribution object gives %r' % (x, ds.cdf(x), dist.cdf(x)))
				if ty == 'UD':
					lo, hi = spec['lo'], spec['hi']
					if not close(ds.mean, (lo + hi) / 2) or not close(ds.standard_deviation ** 2, ((hi - lo + 1) ** 2 - 1) / 12): errs.append('discrete uniform moments wrong')
				if ty == 'UC':
					lo, hi = float(F(spec['lo'])), float(F(spec['hi']))
					if not close(ds.mean, (lo + hi) / 2) or not close(ds.standard_deviation ** 2, (hi - lo) ** 2 / 12) or not close(ds.cdf((lo + hi) / 2), 0.5): errs.append('continuous uniform moments / cdf wrong')
				if ty == 'CD':
					vals = [float(F(v)) for v in spec['vals']]; pr = [float(F(v)) for v in spec['probs']]
					m = sum(v * q for v, q in zip(vals, pr))
					if not close(ds.mean, m) or not close(ds.standard_deviation ** 2, sum(q * (v - m) ** 2 for v, q in zip(vals, pr))): errs.append('custom discrete moments wrong')
				# lead-time demand
				L = rng.randint(1, 4)
				if ty in ('P', 'UD', 'NB', 'CD') and rng.random() < .2:
					# a zero lead time is legal (and the default): the empty sum is the point mass at 0
					ltd0 = ds.lead_time_demand_distribution(0)
					rep.count('lead-time-demand:L=0:' + ty)
					if not close(ltd0.mean(), 0, 1e-9) or not close(ltd0.var(), 0, 1e-9) or not close(ltd0.cdf(0), 1, 1e-12) or not close(ltd0.pmf(0), 1, 1e-12):
						errs.append('lead-time demand for L=0 is not the point mass at 0: mean %r var %r cdf(0) %r' % (ltd0.mean(), ltd0.var(), ltd0.cdf(0)))
				ltd = ds.lead_time_demand_distribution(L)
				if not close(ltd.mean(), L * float(ds.mean), 1e-3 if ty == 'NB' else 1e-8) or not close(ltd.var(), L * float(ds.standard_deviation) ** 2, 2e-2 if ty == 'NB' else 1e-7):
					errs.append('lead-time demand (L=%d) has mean/var (%r,%r), expected L*mu, L*sigma^2 = (%r,%r)' % (L, ltd.mean(), ltd.var(), L * float(ds.mean), L * float(ds.standard_deviation) ** 2))
				if ty in ('UD', 'CD'):
					if ty == 'UD':
						lo, hi = spec['lo'], spec['hi']; base = [F(1, hi - lo + 1)] * (hi - lo + 1)
					else:
						vals = [int(F(v)) for v in spec['vals']]; lo = min(vals)
						base = [F(float(F(spec['probs'][vals.index(x)]))) if x in vals else F(0) for x in range(lo, max(vals) + 1)]
					conv = [unfr(v) for v in drv.call('convmany', arrays=[frs(base)] * L)]
					rep.tol_cmp += 1
					for i, q in enumerate(conv):
						if not close(ltd.pmf(L * lo + i), float(q), 1e-9):
							errs.append('lead-time demand pmf at %d is %r, %d-fold convolution gives %r' % (L * lo + i, ltd.pmf(L * lo + i), L, float(q))); break
					cum = 0.0
					for i, q in enumerate(conv):
						cum += float(q)
						if not close(ltd.cdf(L * lo + i), cum, 1e-9): errs.append('lead-time demand cdf mismatch'); break
				if ty == 'UC':
					for x in (L * float(F(spec['lo'])) + 0.3, L * (float(F(spec['lo'])) + float(F(spec['hi']))) / 2):
						mo = float(unfr(drv.call('sumcu', n=L, lo=spec['lo'], hi=spec['hi'], xs=[fr(x)])[0]))
						if not close(ltd.cdf(x), mo, 1e-9): errs.append('lead-time demand cdf(%r)=%r, Irwin-Hall gives %r' % (x, ltd.cdf(x), mo))
				# distributions handed out earlier stay what they were, however many are requested afterwards (from this or another source)
				for sp0, L0, d0, m0, x0, c0 in alive.get(ty, []):
					if not (close(d0.mean(), m0, 1e-12) and close(d0.cdf(x0), c0, 1e-12)):
						errs.append('the lead-time demand distribution (L=%d) of %s, requested earlier, changed after a later one was requested: mean %r -> %r, cdf(%r) %r -> %r' % (
							L0, sp0, m0, d0.mean(), x0, c0, d0.cdf(x0)))
						break
				x_q = float(ltd.mean()) - 0.4 * float(ltd.std())
				alive[ty] = (alive.get(ty, []) + [(str(spec), L, ltd, float(ltd.mean()), x_q, float(ltd.cdf(x_q)))])[-2:]
				if errs:
					bad('moments', '; '.join(errs[:3]), dict(spec, L=L))
		except Exception as e:
			import traceback
			bad('moments', 'raised %s: %s' % (err_enum(e), traceback.format_exc()[-250:]), {'spec': str(spec)})

	# ---- probability vectors that sum to one only within rounding are accepted ----
	vectors = [[0.7, 0.2, 0.1], [0.1] * 10, [1 / 3] * 3, [0.3, 0.3, 0.4], [0.15, 0.25, 0.6], [1 / 7] * 7, [0.2, 0.2, 0.2, 0.4], [0.5, 0.6]]
	# ... whichever side of 1 the floating-point sum falls on (a hair above as well as a hair below), in any order of the entries
	vectors += [[0.05] * 20, [1 / 21] * 21, [0.2, 0.4, 0.3, 0.1], [0.4, 0.2, 0.3, 0.1], [0.1, 0.2, 0.3, 0.4], [1 / 9] * 9, [1 / 6] * 6, [0.1] * 3 + [0.7], [0.7] + [0.1] * 3,
				[1 / 11] * 11, [0.3, 0.1, 0.6], [0.6, 0.3, 0.1], [1 / 13] * 13, [0.45, 0.55 - 1e-7], [0.45, 0.55 + 1e-7]]
	rep.count('probability-vectors:sum-above-one-by-rounding', sum(1 for pv_ in vectors if 1 < float(np.sum(pv_)) < 1 + 1e-12))
	rep.count('probability-vectors:sum-below-one-by-rounding', sum(1 for pv_ in vectors if 1 - 1e-12 < float(np.sum(pv_)) < 1))
	for pv in vectors:
		case = {'probs': frs(pv)}
		rep.case('probability-vectors', case)
		ok_model = drv.call('probsok', probs=[fr(F(x).limit_denominator(10 ** 9)) for x in pv], tol='1/1000000000')
		try:
			with warnings.catch_warnings():
				warnings.simplefilter('ignore')
				d = DemandSource(type='CD', demand_list=list(range(len(pv))), probabilities=pv)
				d.validate_parameters(); ok_py = True
		except Exception as e:
			ok_py = False
		if ok_py != ok_model:
			bad('probability-vectors', 'probabilities %s: %s by the code, %s by the documented rule (sums to one within rounding)' % (pv, 'accepted' if ok_py else 'rejected', 'accepted' if ok_model else 'rejected'), case)

	# ---- one object through a history of attribute changes == a fresh object with the same attributes ----
	need = {'N': ('mean', 'standard_deviation'), 'P': ('mean',), 'UD': ('lo', 'hi'), 'UC': ('lo', 'hi'), 'NB': ('n', 'p'), 'D': ('demand_list',), 'CD': ('demand_list', 'probabilities')}
	def kwargs_of(spec):
		ty = spec['type']
		if ty == 'N': return {'mean': float(F(spec['mean'])), 'standard_deviation': float(F(spec['sd']))}
		if ty == 'P': return {'mean': float(F(spec['mean']))}
		if ty in ('UD', 'UC'): return {'lo': int(F(spec['lo'])), 'hi': int(F(spec['hi']))}
		if ty == 'NB': return {'n': int(F(spec['n'])), 'p': float(F(spec['p']))}
		if ty == 'D': return {'demand_list': [int(F(x)) for x in spec['list']] if isinstance(spec['list'], list) else int(F(spec['list']))}
		return {'demand_list': [int(F(x)) for x in spec['vals']], 'probabilities': [float(F(x)) for x in spec['probs']]}
	def observe(ds, u):
		out = {}
		def q(name, f):
			try:
				with warnings.catch_warnings():
					warnings.simplefilter('ignore')
					v = f()
				out[name] = v
			except Exception as e:
				out[name] = 'error:' + err_enum(e)
		q('mean', lambda: float(ds.mean)); q('sd', lambda: float(ds.standard_deviation))
		for x in (1.5, 3.5, 6, 11.25):
			q('cdf(%s)' % x, lambda: float(ds.cdf(x)))
		q('dist.support', lambda: tuple(float(v) for v in ds.demand_distribution.support()))
		q('dist.mean', lambda: float(ds.demand_distribution.mean())); q('dist.std', lambda: float(ds.demand_distribution.std()))
		q('dist.cdf(3.5)', lambda: float(ds.demand_distribution.cdf(3.5)))
		q('ltd(2).mean', lambda: float(ds.lead_time_demand_distribution(2).mean())); q('ltd(1).cdf(3.5)', lambda: float(ds.lead_time_demand_distribution(1).cdf(3.5)))
		with Stub() as st:
			st.value = u
			q('generate_demand(4)', lambda: float(ds.generate_demand(4)))
			out['sampler'] = str([(c[0], [float(a) if np.isscalar(a) else [float(z) for z in a] for a in c[1]]) for c in st.calls])
		return out
	for k in range(N // 4):
		attrs = {}
		hist = None
		steps = []
		for step in range(rng.randint(2, 6)):
			avail = [t for t in need if all(a in attrs for a in need[t]) and t != attrs.get('type')]
			if hist is not None and attrs.get('type') == 'CD' and isinstance(attrs['probabilities'], list) and isinstance(attrs['demand_list'], list) and len(attrs['probabilities']) >= 2 and len(attrs['demand_list']) == len(attrs['probabilities']) and rng.random() < .4:
				# the list attributes edited IN PLACE (the object keeps the same list): two probabilities swapped, or one demand value moved
				i_, j_ = rng.sample(range(len(attrs['probabilities'])), 2)
				if rng.random() < .6 and attrs['probabilities'][i_] != attrs['probabilities'][j_]:
					hist.probabilities[i_], hist.probabilities[j_] = hist.probabilities[j_], hist.probabilities[i_]
					attrs['probabilities'] = list(hist.probabilities); change = {'in_place': 'probabilities[%d]<->[%d]' % (i_, j_)}
				else:
					nv = max(attrs['demand_list']) + 2
					hist.demand_list[i_] = nv
					attrs['demand_list'] = list(hist.demand_list); change = {'in_place': 'demand_list[%d]=%d' % (i_, nv)}
				rep.count('history:in-place-list-edit')
				steps.append(change)
				try:
					with warnings.catch_warnings():
						warnings.simplefilter('ignore')
						fresh = DemandSource(**attrs)
				except Exception:
					break
				u = rng.choice([0, 2, 3.25, 7])
				oh = observe(hist, u); of = observe(fresh, u)
				case = {'history': list(steps), 'u': fr(u)}
				rep.case('attribute-history', case, nontrivial=True)
				d = [(k2, oh[k2], of[k2]) for k2 in oh if not (oh[k2] == of[k2] or (isinstance(oh[k2], float) and isinstance(of[k2], float) and (close(oh[k2], of[k2], 1e-12) or (oh[k2] != oh[k2] and of[k2] != of[k2]))))]
				if d:
					bad('attribute-history', 'after the in-place edit %s the object reports %s but a fresh DemandSource with the same attributes reports %s' % (
						steps, {a: b for a, b, _ in d[:4]}, {a: c for a, _, c in d[:4]}), case, py={'history_object': str(oh)[:600], 'fresh_object': str(of)[:600]})
					break
				continue
			if hist is not None and avail and rng.random() < .5:
				# "D" and "CD" share demand_list; UD/UC share (lo, hi); N/P share mean: switch the type only
				change = {'type': rng.choice(avail)}
			else:
				_, spec, _ = gen_ds(rng)
				change = dict(kwargs_of(spec)); change['type'] = spec['type']
			attrs.update(change)
			steps.append({k2: (v if not isinstance(v, float) else fr(v)) for k2, v in change.items()})
			try:
				with warnings.catch_warnings():
					warnings.simplefilter('ignore')
					if hist is None:
						hist = DemandSource(**attrs)
					else:
						for a, v in change.items():
							if a != 'type': setattr(hist, a, v)
						if 'type' in change: hist.type = change['type']
					fresh = DemandSource(**attrs)
			except Exception as e:
				break
			u = rng.choice([0, 2, 3.25, 7])
			oh = observe(hist, u); of = observe(fresh, u)
			case = {'history': list(steps), 'u': fr(u)}
			rep.case('attribute-history', case, nontrivial=len(steps) > 1); rep.count('history:type=' + attrs['type'])
			rep.exact_cmp += len(oh)
			d = [(k2, oh[k2], of[k2]) for k2 in oh if not (oh[k2] == of[k2] or (isinstance(oh[k2], float) and isinstance(of[k2], float) and (close(oh[k2], of[k2], 1e-12) or (oh[k2] != oh[k2] and of[k2] != of[k2]))))]
			if d:
				bad('attribute-history', 'after the attribute changes %s the object reports %s but a fresh DemandSource with the same attributes reports %s' % (
					steps, {a: b for a, b, _ in d[:4]}, {a: c for a, _, c in d[:4]}), case, py={'history_object': str(oh)[:600], 'fresh_object': str(of)[:600]})
				break

	# ---- disruption processes ---------------------------------------------
	EDGE = [(0.5, 0), (0.3, 1), (0, 0.5), (1, 0.5), (1, 1), (0.25, 0.0), (1.0, 0.0), (0.0, 1.0)]          # probabilities 0 and 1 are legal (absorbing / alternating states)
	for k in range(N // 2 + 6 * len(EDGE)):
		a = rng.choice([0.05, 0.1, 0.3, 0.5]); b = rng.choice([0.2, 0.5, 0.9])
		if k < 6 * len(EDGE):
			a, b = EDGE[k // 6]; rep.count('markov:probability-0-or-1')
		dp = DisruptionProcess(random_process_type='M', disruption_type='OP', disruption_probability=a, recovery_probability=b)
		state = rng.random() < .5; u = rng.choice([0.0, a, a + 1e-9, 1 - b, 1 - b + 1e-9, rng.random()])
		if k < 6 * len(EDGE):
			state = bool(k % 2); u = [0.0, 0.37, 0.999999][(k // 2) % 3]
		dp.disrupted = state
		# thresholds as binary64 computes them: the code compares the draw with the float 1.0 - b
		case = {'alpha': fr(a), 'beta': fr(1 - F(1.0 - b)), 'disrupted': state, 'u': fr(u)}
		rep.case('markov', case)
		with Stub() as st:
			st.value = u
			dp.update_disruption_state(period=3)
			calls = list(st.calls)
		mo = drv.call('markov', **case)
		rep.exact_cmp += 1
		if bool(dp.disrupted) != mo or [c[0] for c in calls] != ['rand']:
			bad('markov', 'from state %s with draw %r: python -> %s (samplers %s), model -> %s' % (state, u, dp.disrupted, [c[0] for c in calls], mo), case)
		pu, pd = dp.steady_state_probabilities()
		sm = [unfr(x) for x in drv.call('steady', alpha=fr(a), beta=fr(b))]   # exact rationals of the two doubles
		if not close(pu, sm[0], 1e-12) or not close(pd, sm[1], 1e-12):
			bad('markov', 'steady state (%r,%r), model (%s,%s)' % (pu, pd, sm[0], sm[1]), case)
		l = [rng.random() < .4 for _ in range(rng.randint(1, 7))]
		shape = rng.choice(['list', 'list', 'tuple', 'ndarray', 'single'])          # any sequence of states, or one state for every period
		if shape == 'single':
			l = l[:1]
		arg = l if shape == 'list' else (tuple(l) if shape == 'tuple' else (np.array(l) if shape == 'ndarray' else l[0]))
		rep.count('explicit:' + shape)
		de = DisruptionProcess(random_process_type='E', disruption_type='SP', disruption_state_list=arg)
		ts = [rng.randint(0, 25) for _ in range(5)]
		got = []
		for t in ts:
			try:
				de.update_disruption_state(period=t)
				v_ = de.disrupted
				got.append(bool(v_) if isinstance(v_, (bool, np.bool_)) else 'not-a-state:' + type(v_).__name__)
			except Exception as e:
				got.append('error:' + err_enum(e))
		mo = drv.call('explicit', list=l, ts=ts)
		rep.case('explicit', {'list': l, 'ts': ts}); rep.exact_cmp += 1
		try:
			_, down = de.steady_state_probabilities()
		except Exception as e:
			down = float('nan')
		if got != mo['states'] or (shape != 'single' and not close(down, unfr(mo['down']), 1e-12)):          # the steady state is documented for lists only
			bad('explicit', 'explicit list %s at periods %s -> %s (down fraction %r), model %s (%s)' % (l, ts, got, down, mo['states'], mo['down']), {'list': l, 'ts': ts})


def replay(rep, drv, doc):
	print('replaying the quick stream; recorded case:', doc['stream'], doc['case'])
	run(rep, drv)
