"""C12 - finite-horizon DP: Bellman optimality on the reported grid; evaluation = optimisation; K=0; T=1."""
import random, warnings, math
from fractions import Fraction as F
import numpy as np
import core
from core import fr, frs, unfr, err_enum

TRUSTED = ["rounded regime: demand probabilities (SciPy pmf/cdf) and the one-period cost g_t(y) are inputs, passed as exact rationals of the floats; the model redoes the recursion "
		   "exactly; every cell of cost_matrix compared to 1e-8 relative, oul_matrix by the value of the objective (ties cannot alarm)",
		   "g_t(y) passed to the model is the DOCUMENTED one-period cost: expected h(y-D)^+ + p(D-y)^+ under the specified demand distribution (normal: closed form; "
		   "discrete: direct summation) - computed in the harness independently of the code's choice of loss function",
		   "grid truncation rules (d_min, d_max, x_min, x_max from rounded means/sds) are re-derived in the harness as the code documents them (FP); range doubling is "
		   "handled by taking the x_range the code returns; myopic bounds are checked per instance (labelled test)"]
THEOREM = 'Props/C12.list (bellman, eval_reproduces_opt, K_zero_base_stock, reorderPos_eq, solve_shape)'


def fresh_source(ds):
	"""A new DemandSource with the CURRENT attribute values of `ds` (lists copied): what the harness derives the documented recursion from,
	so that nothing an object may have remembered from earlier calls enters the reference."""
	from stockpyl.demand_source import DemandSource
	if ds is None:
		return None
	kw = {}
	for a in ('type', 'mean', 'standard_deviation', 'lo', 'hi', 'n', 'p', 'demand_list', 'probabilities', 'round_to_int'):
		try:
			v = getattr(ds, '_' + a, None) if hasattr(ds, '_' + a) else getattr(ds, a, None)
		except Exception:
			v = None
		if v is not None:
			kw[a] = list(v) if isinstance(v, (list, tuple)) else v
	return DemandSource(**kw)


def one_period_cost(ds, h, p, y, mean, sd):
	from scipy.stats import norm
	if ds is None or ds.type == 'N':
		if sd == 0:
			return h * max(y - mean, 0) + p * max(mean - y, 0)
		z = (y - mean) / sd
		n = sd * (norm.pdf(z) - z * (1 - norm.cdf(z)))
		nbar = n + (y - mean)
		return h * nbar + p * n
	if ds.type == 'UC':
		# uniform on [lo, hi]: exact losses, also OUTSIDE the support (below it every unit of demand is short, above it every unit held)
		lo_, hi_ = float(ds.lo), float(ds.hi); mu_ = (lo_ + hi_) / 2
		n = mu_ - y if y <= lo_ else (0.0 if y >= hi_ else (hi_ - y) ** 2 / (2 * (hi_ - lo_)))
		nbar = 0.0 if y <= lo_ else (y - mu_ if y >= hi_ else (y - lo_) ** 2 / (2 * (hi_ - lo_)))
		return h * nbar + p * n
	dist = ds.demand_distribution
	lo, hi = int(dist.ppf(1e-15)), int(dist.ppf(1 - 1e-15)) + 2
	tot = 0.0
	for d in range(max(0, lo - 1), hi + 1):
		q = float(dist.pmf(d))
		tot += q * (h * max(y - d, 0) + p * max(d - y, 0))
	return tot


def case_inputs(rng, th):
	from stockpyl.demand_source import DemandSource
	T = rng.choice([1, 1, 2, 3, 4, 5])
	def per(f, shape=None):
		shape = shape or rng.choice(['scalar', 'list'])
		if shape == 'scalar':
			v = f(); return v, [v] * T
		l = [f() for _ in range(T)]
		return l, l
	h, hl = per(lambda: rng.choice([1, 2, 0.5]))
	p, pl = per(lambda: rng.choice([5, 10, 20]))
	c, cl = per(lambda: rng.choice([0, 1, 2]))
	K, Kl = per(lambda: rng.choice([0, 0, 5, 20, 50]), shape=rng.choice(['scalar', 'scalar', 'list']))
	g, gl = per(lambda: rng.choice([1.0, 1.0, 0.9, 0.95, 0.5, 0.75]), shape=rng.choice(['scalar', 'scalar', 'list']))        # the discount factor may vary over the periods too
	th_, tp_ = rng.choice([0, 1, 2, 0.5, 1.25]), rng.choice([0, 5, 20, 2.5])          # terminal rates need not be integers when the period rates are
	kind = rng.choice(['normal', 'normal', 'P', 'UD', 'CD', 'mixed', 'mixed'])
	if kind == 'normal':
		mean, ml = per(lambda: rng.choice([5, 8, 12]))
		sd, sl = per(lambda: rng.choice([1, 2, 3]), shape='scalar')
		dsl = [None] * T
		kw = dict(demand_mean=mean, demand_sd=sd)
	else:
		if kind == 'mixed':
			# period-varying list of different distribution types, consecutive periods often sharing mean and sd exactly
			m = rng.choice([4, 9, 16])
			mk = lambda: rng.choice([DemandSource(type='P', mean=m), DemandSource(type='N', mean=m, standard_deviation=math.sqrt(m)),
									 DemandSource(type='P', mean=rng.choice([4, 9]))])
		elif kind == 'P':
			mk = lambda: DemandSource(type='P', mean=rng.choice([3, 5, 8]))
		elif kind == 'UD':
			mk = lambda: DemandSource(type='UD', lo=rng.choice([0, 2]), hi=rng.choice([6, 9]))
		else:
			mk = lambda: DemandSource(type='CD', demand_list=[1, 4, 7, 10], probabilities=[0.25, 0.25, 0.25, 0.25])
		src, dsl = per(mk, shape='list' if kind == 'mixed' else None)
		ml = [float(d.mean if d.mean is not None else d.demand_distribution.mean()) for d in dsl]
		sl = [float(d.standard_deviation if d.standard_deviation is not None else d.demand_distribution.std()) for d in dsl]
		kw = dict(demand_source=src)
		if rng.random() < .4:
			# demand_mean / demand_sd are documented to be ignored when a demand source is given
			kw.update(demand_mean=rng.choice([3, 20]), demand_sd=rng.choice([1, 4]))
	if kind == 'normal' and T >= 2 and rng.random() < .35:
		# forward buying: purchase cost jumps after period 1 and holding is cheap, so the optimal first-period order-up-to level lies far
		# above the initial truncation of the state space - the code must enlarge its grid and restart
		h, hl = 0.125, [0.125] * T
		cl = [1] + [rng.choice([4, 6])] * (T - 1); c = list(cl)
		K, Kl = 0, [0] * T
		kind = 'normal-forward-buying'
	x0 = rng.choice([0, 2, 5])
	args = dict(num_periods=T, holding_cost=h, stockout_cost=p, terminal_holding_cost=th_, terminal_stockout_cost=tp_, purchase_cost=c, fixed_cost=K,
				discount_factor=g, initial_inventory_level=x0, **kw)
	desc = {'T': T, 'kind': kind, 'h': hl, 'p': pl, 'c': cl, 'K': Kl, 'gamma': gl, 'th': th_, 'tp': tp_, 'mean': ml, 'sd': sl, 'x0': x0}
	return args, desc, dsl


def corpus_inputs(name):
	"""Fixed instances that run first in both tiers: the situations earlier seeded changes needed."""
	from stockpyl.demand_source import DemandSource
	if name == 'mixed-equal-moments':
		# consecutive periods with equal mean and sd but different distributions
		T = 3; dsl = [DemandSource(type='N', mean=16, standard_deviation=4), DemandSource(type='P', mean=16), DemandSource(type='N', mean=16, standard_deviation=4)]
		hl, pl, cl, Kl, gl = [1] * T, [10] * T, [1] * T, [20] * T, [0.95] * T
		kw = dict(demand_source=list(dsl)); kind = 'mixed'
	elif name == 'rising-fixed-costs':
		T = 4; dsl = [None] * T
		hl, pl, cl, Kl, gl = [1] * T, [10] * T, [1] * T, [0, 5, 20, 50], [1.0] * T
		kw = dict(demand_mean=8, demand_sd=2); kind = 'normal'
	elif name == 'source-edited-in-place':
		T = 3; dsl = [DemandSource(type='CD', demand_list=[4, 8, 12, 16], probabilities=[0.1, 0.2, 0.3, 0.4]) for _ in range(T)]
		hl, pl, cl, Kl, gl = [1, 2, 1], [10, 5, 10], [1, 0, 2], [12] * T, [1.0] * T
		kw = dict(demand_source=list(dsl)); kind = 'CD'
	elif name in ('cheap-stockouts', 'cheap-stockouts-poisson'):
		# stockouts hardly dearer than buying (p < 2c) over several periods: at low inventory positions NOT ordering competes with ordering, so the cells
		# near the lower end of the state space (where demand outcomes are clamped to the lowest state) decide the policy
		T = 6 if name == 'cheap-stockouts' else 4
		dsl = [None] * T if name == 'cheap-stockouts' else [DemandSource(type='P', mean=5) for _ in range(T)]
		hl, pl, cl, Kl, gl = [1] * T, [5] * T, [4] * T, [10] * T, [1.0] * T
		kw = dict(demand_mean=8, demand_sd=2) if name == 'cheap-stockouts' else dict(demand_source=list(dsl)); kind = 'normal-cheap-stockouts' if name == 'cheap-stockouts' else 'P'
	elif name == 'uniform-continuous':
		# a continuous non-normal source (one-period cost by numerical integration in the code: tolerance 1e-6), fixed cost large enough for
		# reorder points below the support
		T = 2; dsl = [DemandSource(type='UC', lo=10, hi=30) for _ in range(T)]
		hl, pl, cl, Kl, gl = [1] * T, [10] * T, [1] * T, [30] * T, [0.95] * T
		kw = dict(demand_source=list(dsl)); kind = 'UC'
	elif name == 'forward-buying':
		# purchase cost jumps after period 1 and holding is cheap: the optimal first order-up-to level lies far above the initial
		# truncation of the state space, so the code must enlarge its grid and restart
		T = 3; dsl = [None] * T
		hl, pl, cl, Kl, gl = [0.125] * T, [10] * T, [1, 6, 6], [0] * T, [1.0] * T
		kw = dict(demand_mean=8, demand_sd=2); kind = 'normal-forward-buying'
	else:
		# rising AND falling fixed costs, period-varying discount, Poisson demand
		T = 4; dsl = [DemandSource(type='P', mean=5) for _ in range(T)]
		hl, pl, cl, Kl, gl = [1, 2, 1, 0.5], [5, 10, 20, 10], [0, 1, 2, 1], [50, 5, 20, 0], [0.9, 0.5, 1.0, 0.75]
		kw = dict(demand_source=list(dsl)); kind = 'P'
	ml = [float(d.mean if d is not None and d.mean is not None else (d.demand_distribution.mean() if d is not None else kw['demand_mean'])) for d in dsl]
	sl = [float(d.standard_deviation if d is not None and d.standard_deviation is not None else (d.demand_distribution.std() if d is not None else kw['demand_sd'])) for d in dsl]
	args = dict(num_periods=T, holding_cost=hl, stockout_cost=pl, terminal_holding_cost=1, terminal_stockout_cost=5, purchase_cost=cl, fixed_cost=Kl,
				discount_factor=gl, initial_inventory_level=2, **kw)
	desc = {'T': T, 'kind': kind, 'h': hl, 'p': pl, 'c': cl, 'K': Kl, 'gamma': gl, 'th': 1, 'tp': 5, 'mean': ml, 'sd': sl, 'x0': 2, 'corpus': name}
	return args, desc, dsl


def run_case(rep, drv, rng, th, corpus=None):
	from stockpyl.finite_horizon import finite_horizon_dp
	from stockpyl.demand_source import DemandSource
	args, desc, dsl = corpus_inputs(corpus) if corpus else case_inputs(rng, th)
	if corpus == 'source-edited-in-place':
		# object life cycle: the same DemandSource objects were used for an earlier solve, then their probability lists were edited in place
		with warnings.catch_warnings():
			warnings.simplefilter('ignore')
			finite_horizon_dp(**args)
		for d_ in dsl:
			d_.probabilities[0], d_.probabilities[-1] = d_.probabilities[-1], d_.probabilities[0]
		desc['mean'] = [float(fresh_source(d_).demand_distribution.mean()) for d_ in dsl]
		desc['sd'] = [float(fresh_source(d_).demand_distribution.std()) for d_ in dsl]
	dsl = [fresh_source(d_) for d_ in dsl]          # reference side: fresh objects with the current attribute values
	T = desc['T']
	rep.case('finite_horizon_dp', desc, nontrivial=True)
	rep.count('fh:T=%d' % T); rep.count('fh:demand=' + desc['kind']); rep.count('fh:K=0' if all(k == 0 for k in desc['K']) else 'fh:K>0')
	try:
		with warnings.catch_warnings():
			warnings.simplefilter('ignore')
			s, S, total, cm, om, xr = finite_horizon_dp(**args)
	except Exception as e:
		import traceback
		rep.diff('finite_horizon_dp', 'raised %s on an admissible instance (T=%d): %s' % (err_enum(e), T, str(e)[:120]), desc, py=traceback.format_exc()[-300:], oracle=True,
				 theorem=THEOREM, finding_id=None)
		return
	x_min, x_max = int(xr[0]), int(xr[-1]); n = x_max - x_min + 1
	# the reported grid indexes the columns of both matrices
	shape_bad = [t for t in range(1, T + 1) if len(cm[t]) != len(xr) or len(om[t]) != len(xr)]
	if shape_bad or list(xr) != list(range(x_min, x_max + 1)):
		rep.diff('finite_horizon_dp', 'x_range has %d entries (%s..%s) but the matrices have %s columns in periods %s' % (
			len(xr), x_min, x_max, sorted({len(cm[t]) for t in range(1, T + 1)}), shape_bad), desc, oracle=True, theorem=THEOREM)
		return
	if len(xr) > (max(desc['mean']) + 4 * max(desc['sd'])) * 3 + 40:
		rep.count('fh:grid-was-enlarged')
	d_spread = 4
	d_min = int(max(0, round(min(desc['mean']) - d_spread * max(desc['sd']))))
	d_max = int(round(max(desc['mean']) + d_spread * max(desc['sd'])))
	periods = []
	for t in range(T):
		ds = dsl[t] or DemandSource(type='N', mean=desc['mean'][t], standard_deviation=desc['sd'][t])
		dist = ds.demand_distribution
		if ds.is_discrete:
			prob = [float(dist.pmf(d)) for d in range(d_min, d_max + 1)]
		else:
			prob = [float(dist.cdf(d + 0.5) - dist.cdf(d - 0.5)) for d in range(d_min, d_max + 1)]
		g = [one_period_cost(dsl[t], desc['h'][t], desc['p'][t], y, desc['mean'][t], desc['sd'][t]) for y in range(x_min, x_max + 1)]
		periods.append({'K': fr(desc['K'][t]), 'c': fr(desc['c'][t]), 'gamma': fr(desc['gamma'][t]), 'prob': frs(prob), 'g': frs(g)})
	terminal = [desc['th'] * max(x, 0) + desc['tp'] * max(-x, 0) for x in range(x_min, x_max + 1)]
	mo = drv.call('fhdp', n=n, dmin=d_min, periods=periods, terminal=frs(terminal))
	if '__err__' in mo:
		raise core.Infra('model: ' + str(mo))
	bad = []; diffs = []
	rows = mo['rows']
	for t in range(T):
		mc = [float(unfr(v)) for v in rows[t]['cost']]
		pc = [float(v) for v in cm[t + 1]]
		rep.tol_cmp += n
		worst = max(abs(a - b) / max(1, abs(b)) for a, b in zip(pc, mc))
		if worst > (1e-6 if desc['kind'] == 'UC' else 1e-8):
			i = max(range(n), key=lambda i: abs(pc[i] - mc[i]))
			diffs.append('cost_matrix[t=%d][x=%d]: python %r, documented recursion %r' % (t + 1, x_min + i, pc[i], mc[i]))
		# oul attains the minimum (by objective value): cost at python's oul equals the model's optimum
		Hm = [float(unfr(v)) for v in rows[t]['H']]
		for i in range(0, n, max(1, n // 25)):
			y = int(om[t + 1][i]) - x_min
			if not (i <= y < n):
				bad.append('oul_matrix[t=%d][x=%d]=%s outside [x, x_max]' % (t + 1, x_min + i, om[t + 1][i])); break
			val = (desc['c'][t] * (y - i) + desc['K'][t] if y > i else 0) + Hm[y]
			if abs(val - mc[i]) > 1e-7 * max(1, abs(mc[i])) and not diffs:
				bad.append('oul_matrix[t=%d][x=%d]=%s does not attain the minimum: value %r vs min %r' % (t + 1, x_min + i, om[t + 1][i], val, mc[i])); break
		# reported (s,S) are those of the matrix
		if float(S[t + 1]) != float(om[t + 1][0]):
			bad.append('order_up_to_levels[%d]=%s but oul_matrix[t][x_min]=%s' % (t + 1, S[t + 1], om[t + 1][0]))
		r = x_min
		while r < x_max and om[t + 1][r + 1 - x_min] == S[t + 1]:
			r += 1
		if int(s[t + 1]) != r:
			bad.append('reorder_points[%d]=%s but the matrix gives %s' % (t + 1, s[t + 1], r))
		if desc['K'][t] == 0 and not diffs and int(s[t + 1]) != int(S[t + 1]):
			# with K = 0 every state at or below S orders up to S (K_zero_base_stock) - unless two levels tie: in binary64 the tie can be
			# broken differently for different states. Accept iff ordering up to S is (numerically) as good as what the matrix does.
			iS = int(S[t + 1]) - x_min
			tie = all(abs((desc['c'][t] * (iS - i) + Hm[iS]) - mc[i]) <= 1e-9 * max(1, abs(mc[i])) for i in range(0, iS + 1))
			if tie:
				rep.count('fh:K=0-tie-between-order-up-to-levels')
			else:
				bad.append('K=0 but reorder point %s != order-up-to level %s (t=%d)' % (s[t + 1], S[t + 1], t + 1))
	if abs(float(total) - float(cm[1][int(desc['x0']) - x_min])) > 1e-9:
		bad.append('total_cost is not cost_matrix[1][x0]')
	if mo['hitsTop']:
		rep.count('fh:model-optimum-at-top-of-grid')
	# hypothesis of dp_dominates_every_policy (Props/C12Opt.lean): non-negative probabilities and discount factors
	rep.count('dp_dominates-hypothesis-periodsOK-' + ('true' if mo.get('periodsOK', True) else 'FALSE'))
	if not mo.get('periodsOK', True):
		bad.append('a demand probability or discount factor is negative: dp_dominates_every_policy does not cover this instance')
	# evaluation mode reproduces the cost matrix
	try:
		with warnings.catch_warnings():
			warnings.simplefilter('ignore')
			a2 = dict(args); a2.update(oul_matrix=om, x_range=xr)
			_, _, total2, cm2, _, _ = finite_horizon_dp(**a2)
		if np.max(np.abs(np.array(cm2) - np.array(cm))) > 1e-8 * max(1, float(np.max(np.abs(cm)))):
			bad.append('evaluation mode with the returned oul_matrix does not reproduce the cost matrix')
	except Exception as e:
		bad.append('evaluation mode raised %s' % err_enum(e))
	if diffs or bad:
		what = ''
		if diffs:
			what = 'implementation differs from the documented recursion: ' + '; '.join(diffs[:2])
		if bad:
			what += ' | ' + '; '.join(bad[:3])
		# a difference from the documented recursion on the reported grid IS a counterexample to the property
		rep.diff('finite_horizon_dp', what, desc, py={'diffs': diffs[:5], 'bad': bad[:5]}, oracle=True, theorem=THEOREM)


def myopic_case(rep, rng):
	"""Myopic bounds bracket the optimal levels to within one grid unit (per instance, labelled test)."""
	from stockpyl.finite_horizon import finite_horizon_dp, myopic_bounds
	T = rng.choice([2, 3, 4]); h = rng.choice([1, 2]); p = rng.choice([10, 20]); c = rng.choice([1, 2]); K = rng.choice([10, 50]); mean = rng.choice([8, 12]); sd = rng.choice([1, 2])
	th_ = rng.choice([h, h, 0.5, 1.5]); tp_ = rng.choice([p, p, 2.5])
	case = {'T': T, 'h': h, 'p': p, 'c': c, 'K': K, 'mean': mean, 'sd': sd, 'terminal_h': th_, 'terminal_p': tp_}
	rep.case('myopic_bounds', case, nontrivial=True)
	try:
		with warnings.catch_warnings():
			warnings.simplefilter('ignore')
			s, S, *_ = finite_horizon_dp(T, h, p, th_, tp_, c, K, mean, sd)
			S_under, S_over, s_under, s_over = myopic_bounds(T, h, p, th_, tp_, c, K, mean, sd)
			# the same numbers given as floats (1 vs 1.0) are the same instance
			fl = myopic_bounds(T, float(h), float(p), float(th_), float(tp_), float(c), float(K), float(mean), float(sd))
			# ... and so are its list forms: length T, or length T+1 whose 0th element is documented to be ignored (whatever it holds)
			try:
				ls = myopic_bounds(T, [h] * T, [9.5] + [p] * T, th_, tp_, [7.5] + [c] * T, [33] + [K] * T, [mean] * T, [5.5] + [sd] * T)
				ar = myopic_bounds(T, np.array([2.5] + [h] * T), [p] * T, th_, tp_, np.array([c] * T), np.array([41.0] + [K] * T), np.array([3.0] + [mean] * T), [sd] * T)
			except Exception as e:
				rep.diff('myopic_bounds', 'the instance is solved when given as scalars but raises %s (%s) when the same numbers are given as lists of length T / T+1 (0th element documented as ignored)' % (
					err_enum(e), str(e)[:80]), case, oracle=True)
				return
		rep.count('myopic:list-forms-compared')
		for form_, other_ in (('lists (length T / T+1 with a stray 0th element)', ls), ('arrays', ar)):
			for nm_, a_, b_ in zip(('S_underbar', 'S_overbar', 's_underbar', 's_overbar'), (S_under, S_over, s_under, s_over), other_):
				if any(abs(float(x) - float(y)) > 1e-9 for x, y in zip(list(a_)[1:], list(b_)[1:])):
					rep.diff('myopic_bounds', '%s differs between scalar arguments and the same instance given as %s: %s vs %s' % (nm_, form_, list(a_)[1:], list(b_)[1:]), case, oracle=True)
					break
		for nm_, a_, b_ in zip(('S_underbar', 'S_overbar', 's_underbar', 's_overbar'), (S_under, S_over, s_under, s_over), fl):
			if any(abs(float(x) - float(y)) > 1e-9 for x, y in zip(list(a_)[1:], list(b_)[1:])):
				rep.diff('myopic_bounds', '%s differs between integer-valued and float-valued arguments of the same instance: %s vs %s' % (nm_, list(a_)[1:], list(b_)[1:]), case, oracle=True)
				break
		for t in range(1, T + 1):
			g_ = 1.05          # one grid unit, plus the shift the DP's integer discretisation of demand can cause at a boundary (seen: 1.008)
			if not (S_under[t] - g_ <= S[t] <= S_over[t] + g_) or not (s_under[t] - g_ <= s[t] <= s_over[t] + g_):
				rep.diff('myopic_bounds', 't=%d: s=%s S=%s outside myopic bounds s in [%s,%s], S in [%s,%s]' % (t, s[t], S[t], s_under[t], s_over[t], S_under[t], S_over[t]),
						 case, oracle=True)
				break
	except Exception as e:
		rep.count('myopic:raised:' + err_enum(e))


def run(rep, drv):
	th = rep.tier == 'thorough'
	rep.rule = ('random instances: T 1-5, scalar/list period-varying h, p, c, K (incl. K=0), discount, terminal costs, demand = normal mean/sd or Poisson / discrete-uniform / '
				'custom-discrete sources; every cell of cost_matrix vs the documented recursion (exact model), oul by objective value, (s,S) extraction, evaluation mode, K=0; '
				'myopic bounds. non-trivial = all')
	rng = random.Random(rep.seed + 12)
	for name in ('mixed-equal-moments', 'rising-fixed-costs', 'forward-buying', 'source-edited-in-place', 'varying-everything', 'cheap-stockouts', 'cheap-stockouts-poisson', 'uniform-continuous'):
		run_case(rep, drv, rng, th, corpus=name)
	for k in range(300 if th else 34):
		run_case(rep, drv, rng, th)
	for k in range(40 if th else 6):
		myopic_case(rep, rng)

	H = core.one_argument_histories
	calls = []
	base = dict(num_periods=3, holding_cost=1, stockout_cost=10, terminal_holding_cost=1, terminal_stockout_cost=10, purchase_cost=2, fixed_cost=20, demand_mean=8, demand_sd=2)
	for kw in H(base, ['purchase_cost', 'fixed_cost', 'demand_sd', 'stockout_cost'], lambda k, v: v + 1):
		calls.append(('stockpyl.finite_horizon', 'finite_horizon_dp', (), kw))
	for kw in H(base, ['purchase_cost', 'fixed_cost', 'demand_mean'], lambda k, v: v + 1):
		calls.append(('stockpyl.finite_horizon', 'myopic_bounds', (), kw))
	core.history_check(rep, 'call-history', calls, theorem=THEOREM)


def replay(rep, drv, doc):
	print('replaying the quick stream; recorded case:', doc['stream'], doc['case'])
	run(rep, drv)
