"""C11 - Wagner-Whitin: correspondence with Model/WW.lean (exact regime) + oracle (plan enumeration)."""
import random, itertools
from fractions import Fraction
import numpy as np
from core import fr, frs, unfr, err_enum

TRUSTED = ["exact regime: inputs are small integers / dyadic rationals, so every binary64 operation of the "
		   "Python code is exact and outputs are compared for equality with the model's rationals"]

THEOREM = 'Stockpyl.WW.ww_correct (+ Props/C11.list)'


def gen_param(rng, T, kind, lo, hi, shape=None, first_pos=False):
	"""Returns (python_arg, protocol_arg, list for periods 1..T as Fractions)."""
	def val():
		if kind == 'int':
			return Fraction(rng.randint(lo, hi))
		return Fraction(rng.randint(lo * 4, hi * 4), 4)
	shape = shape or rng.choice(['scalar', 'listT', 'listT1', 'arrT', 'arrT1'])
	if shape == 'scalar':
		x = val()
		if first_pos and x == 0:
			x = Fraction(1)
		return (float(x) if x.denominator > 1 or rng.random() < .5 else int(x)), fr(x), [x] * T
	vals = [val() if rng.random() < .8 else Fraction(0) for _ in range(T)]
	if first_pos and vals and vals[0] == 0:
		vals[0] = Fraction(3)
	raw = list(vals)
	if shape in ('listT1', 'arrT1'):
		raw = [val()] + raw
	py = [float(v) if v.denominator > 1 else int(v) for v in raw]
	if shape.startswith('arr'):
		py = np.array(py, dtype=float)
	return py, frs(raw), vals


MUTATED = []


def py_ww(T, h, K, d, c):
	from stockpyl.wagner_whitin import wagner_whitin
	import copy
	keep = copy.deepcopy((h, K, d, c))
	try:
		Q, cost, theta, s = wagner_whitin(T, h, K, d, c)
	except Exception as e:
		return {'error': err_enum(e)}
	for nm_, a_, b_ in zip(('holding_cost', 'fixed_cost', 'demand', 'purchase_cost'), (h, K, d, c), keep):
		if not np.array_equal(np.asarray(a_, dtype=float), np.asarray(b_, dtype=float)):
			# the plan is feasible, optimal, ... for the demands the CALLER holds: an argument rewritten in place is no longer the instance that was solved
			MUTATED.append('wagner_whitin rewrote its %s argument in place: %r -> %r' % (nm_, b_, a_))
	return {'Q': [Fraction(float(q)) for q in Q[1:]], 'cost': Fraction(float(cost)),
			'theta': [Fraction(float(x)) for x in theta[1:]], 'next': [int(x) for x in s[1:]]}


def canon_model(m):
	if '__err__' in m:
		return {'error': 'model:' + str(m['__err__'])}
	if 'error' in m:
		return m
	return {'Q': [unfr(x) for x in m['Q']], 'cost': unfr(m['cost']), 'theta': [unfr(x) for x in m['theta']],
			'next': m['next']}


def seg_cost(h, K, c, d, t, s):
	"""Documented cost of ordering in t (1-based) to cover t..s-1."""
	return K[t-1] + sum(c[t-1] * d[i-1] + h[t-1] * (i - t) * d[i-1] for i in range(t, s))


def oracle(T, h, K, c, d, out):
	"""The property's executable predicate on the *Python* output. Returns list of failures."""
	bad = []
	if 'error' in out:
		return ['raised ' + out['error'] + ' on admissible input']
	Q, cost, theta, nxt = out['Q'], out['cost'], out['theta'], out['next']
	# feasibility
	inv = Fraction(0)
	for t in range(T):
		inv += Q[t] - d[t]
		if inv < 0:
			bad.append('backorder in period %d' % (t+1))
	if inv != 0:
		bad.append('leftover stock %s' % inv)
	# orders only at pointer chain
	chain = set()
	t = 1
	guard = 0
	while t <= T and guard <= T:
		chain.add(t)
		t = nxt[t-1]
		guard += 1
	for t in range(1, T+1):
		if Q[t-1] != 0 and t not in chain:
			bad.append('order in period %d not on the pointer chain' % t)
	# cost of exactly that plan
	order_periods = sorted(chain)
	pc = Fraction(0)
	for i, t in enumerate(order_periods):
		s = order_periods[i+1] if i+1 < len(order_periods) else T+1
		pc += seg_cost(h, K, c, d, t, s)
		if Q[t-1] != sum(d[t-1:s-1]):
			bad.append('Q[%d] does not cover periods %d..%d' % (t, t, s-1))
	if pc != cost:
		bad.append('reported cost %s != cost of returned plan %s' % (cost, pc))
	# recursion
	th = theta + [Fraction(0)] if len(theta) == T else theta
	for t in range(1, T+1):
		m = min(seg_cost(h, K, c, d, t, s) + th[s-1] for s in range(t+1, T+2))
		if th[t-1] != m:
			bad.append('theta[%d] violates the recursion' % t)
	if th[T] != 0:
		bad.append('theta[T+1] != 0')
	# optimality vs every subset of order periods containing 1
	if T <= 12:
		best = None
		for mask in range(1 << (T-1)):
			ops = [1] + [t for t in range(2, T+1) if mask >> (t-2) & 1]
			tot = Fraction(0)
			for i, t in enumerate(ops):
				s = ops[i+1] if i+1 < len(ops) else T+1
				tot += seg_cost(h, K, c, d, t, s)
			if best is None or tot < best:
				best = tot
		if best != cost:
			bad.append('reported cost %s but the cheapest plan costs %s' % (cost, best))
	return bad


def one_case(rep, drv, case):
	T = case['T']
	args = {k: case[k] for k in ('h', 'K', 'd', 'c')}
	def topy(v, arr):
		if isinstance(v, list):
			l = [float(Fraction(x)) for x in v]
			if case.get('dtype'):
				return np.array([int(x) for x in l], dtype=case['dtype'])          # integer arrays of a narrow dtype are arrays of numbers like any other
			return np.array(l) if arr else l
		return float(Fraction(v))
	vals_ = [topy(args[k], case.get('arr', {}).get(k, False)) for k in ('h', 'K', 'd', 'c')]
	# a zero-dimensional array is a singleton like a Python float (one value for every period)
	vals_ = [np.array(v_) if k_ in case.get('zerod', ()) and not isinstance(v_, (list, np.ndarray)) else v_ for k_, v_ in zip(('h', 'K', 'd', 'c'), vals_)]
	py = py_ww(T, *vals_)
	m = canon_model(drv.call('ww', T=T, **args))
	return py, m


def compare(rep, stream, case, py, m, admissible, norm=None):
	while MUTATED:
		rep.diff(stream, MUTATED.pop(), case, py=None, model=None, oracle=True, theorem=THEOREM)
	same = (py == m)
	rep.exact_cmp += 1
	fails = None
	if admissible and norm is not None:
		fails = oracle(case['T'], *norm, py)
	if not same or fails:
		what = ('model/implementation differ: ' + diff_summary(py, m)) if not same else ''
		if fails:
			what += ' property predicate fails on the real code: ' + '; '.join(fails[:3])
		rep.diff(stream, what.strip(), case, py=py, model=m, oracle=bool(fails), theorem=None if not same else THEOREM)
	return same and not fails


def diff_summary(py, m):
	if 'error' in py or 'error' in m:
		return 'python=%s model=%s' % (py.get('error', 'value'), m.get('error', 'value'))
	ks = [k for k in py if py[k] != m.get(k)]
	return ', '.join('%s: python=%s model=%s' % (k, [str(x) for x in py[k]] if isinstance(py[k], list) else py[k],
														[str(x) for x in m[k]] if isinstance(m.get(k), list) else m.get(k)) for k in ks)


def run(rep, drv):
	rng = random.Random(rep.seed)
	thorough = rep.tier == 'thorough'
	n = 4000 if thorough else 600
	Tmax = 11 if thorough else 8
	rep.rule = ('random horizons T<=%d, integer/quarter-valued h,K,c,d (zero later demands allowed, d_1>0), all five '
				'parameter shapes mixed per argument; non-trivial = T>=2 and canonical input distinct; every case is '
				'compared exactly with the Lean model AND checked by full enumeration of 2^(T-1) plans' % Tmax)
	# corpus first: all fixed costs zero with a purchase cost that rises faster than the holding cost (buying ahead beats lot-for-lot),
	# falling purchase costs, a zero-demand tail
	for cz in ({'T': 4, 'h': '1', 'K': '0', 'd': ['5', '7', '3', '6'], 'c': ['1', '3', '6', '10']},
			   {'T': 3, 'h': ['1/4', '1/4', '1/4'], 'K': ['0', '0', '0'], 'd': ['4', '4', '4'], 'c': ['0', '2', '5']},
			   {'T': 4, 'h': '2', 'K': '0', 'd': ['5', '0', '3', '0'], 'c': ['9', '4', '2', '1']},
			   {'T': 5, 'h': '1', 'K': ['0', '30', '0', '30', '0'], 'd': ['6', '2', '8', '1', '4'], 'c': '1'},
			   # large cost figures with a comparatively small saving from ordering later (a "minimum" taken with a relative tolerance keeps the earlier, dearer period)
			   {'T': 2, 'h': '1', 'K': ['10000000', '100'], 'd': ['40', '50'], 'c': '1'},
			   {'T': 4, 'h': '3', 'K': '2000000', 'd': ['10', '5', '7', '2'], 'c': '0'},
			   {'T': 3, 'h': ['1', '1', '1'], 'K': ['50000000', '30', '20'], 'd': ['9', '4', '6'], 'c': ['2', '2', '1']},
			   {'T': 3, 'h': '2', 'K': ['900000000', '11', '7'], 'd': ['3', '5', '4'], 'c': '0'}):
		py, m = one_case(rep, drv, cz)
		rep.case('ww-exact', cz, nontrivial=True); rep.count('ww:corpus-case')
		nz = lambda v: [Fraction(x) for x in v] if isinstance(v, list) else [Fraction(v)] * cz['T']
		compare(rep, 'ww-exact', cz, py, m, True, (nz(cz['h']), nz(cz['K']), nz(cz['c']), nz(cz['d'])))
	# call histories: the answer is a function of the arguments of THIS call -- one instance solved again with exactly one argument changed
	# (purchase cost, fixed cost, holding cost, one demand), every call compared with the model and the oracle (own stream)
	rng_h = random.Random(rep.seed * 31 + 11)
	for i in range(n // 20 + 4):
		T = rng_h.randint(2, 6)
		base = {'T': T, 'h': str(rng_h.randint(1, 3)), 'K': str(rng_h.randint(5, 60)), 'd': [str(rng_h.randint(1, 15)) for _ in range(T)], 'c': str(rng_h.randint(0, 2))}
		calls = [dict(base)]
		calls.append(dict(base, c=[str(3 * t % 7) for t in range(T)]))          # period-dependent purchase cost
		calls.append(dict(base, c='0'))                                           # ... and none (the default)
		calls.append(dict(base, K=[str(5 + 17 * t % 40) for t in range(T)]))
		calls.append(dict(base, h=str(int(base['h']) + 2)))
		d2 = list(base['d']); d2[-1] = str(int(d2[-1]) + 9)
		calls.append(dict(base, d=d2))
		calls.append(dict(base))
		for j, cz in enumerate(calls):
			py, m = one_case(rep, drv, cz)
			rep.case('ww-exact', dict(cz, call=j), nontrivial=True); rep.count('ww:call-history')
			nz = lambda v: [Fraction(x) for x in v] if isinstance(v, list) else [Fraction(v)] * T
			compare(rep, 'ww-exact', dict(cz, history=calls[:j]), py, m, True, (nz(cz['h']), nz(cz['K']), nz(cz['c']), nz(cz['d'])))
	# singletons given as zero-dimensional arrays (np.array(500.0)): the same instance as with Python floats
	for zd in (('K',), ('h',), ('c',), ('K', 'h', 'c')):
		cz = {'T': 4, 'h': '2', 'K': '500', 'd': ['90', '120', '80', '70'], 'c': '1', 'zerod': list(zd)}
		py, m = one_case(rep, drv, cz)
		rep.case('ww-exact', cz, nontrivial=True); rep.count('ww:zero-dimensional-array-singleton')
		compare(rep, 'ww-exact', cz, py, m, True, ([Fraction(2)] * 4, [Fraction(500)] * 4, [Fraction(1)] * 4, [Fraction(x) for x in cz['d']]))
	# NumPy integer arrays of narrow dtypes: the costs are numbers, not int16/int32/uint8 registers (sums and products beyond the dtype's range)
	for dt, cz in (('int16', {'T': 4, 'h': ['2'] * 4, 'K': ['300'] * 4, 'd': ['120', '90', '100', '110'], 'c': ['150', '140', '160', '155']}),
				   ('int32', {'T': 3, 'h': ['1'] * 3, 'K': ['1000'] * 3, 'd': ['50000', '60000', '40000'], 'c': ['50000', '45000', '52000']}),
				   ('uint8', {'T': 4, 'h': ['3'] * 4, 'K': ['200'] * 4, 'd': ['90', '80', '70', '100'], 'c': ['0'] * 4}),
				   ('int64', {'T': 3, 'h': ['1'] * 3, 'K': ['10'] * 3, 'd': ['5', '6', '4'], 'c': ['1', '1', '1']})):
		cz = dict(cz, dtype=dt)
		py, m = one_case(rep, drv, cz)
		rep.case('ww-exact', cz, nontrivial=True); rep.count('ww:integer-array-dtype-' + dt)
		nz = lambda v: [Fraction(x) for x in v]
		compare(rep, 'ww-exact', cz, py, m, True, (nz(cz['h']), nz(cz['K']), nz(cz['c']), nz(cz['d'])))
	for i in range(n):
		T = rng.randint(1, Tmax) if i > 20 else rng.randint(1, 3)
		kind = rng.choice(['int', 'quarter'])
		ph, jh, nh = gen_param(rng, T, kind, 0, 4)
		pK, jK, nK = gen_param(rng, T, kind, 0, 60)
		pd, jd, nd = gen_param(rng, T, kind, 0, 15, first_pos=True)
		pc, jc, nc = gen_param(rng, T, kind, 0, 3)
		case = {'T': T, 'h': jh, 'K': jK, 'd': jd, 'c': jc,
				'arr': {k: isinstance(v, np.ndarray) for k, v in (('h', ph), ('K', pK), ('d', pd), ('c', pc))}}
		py = py_ww(T, ph, pK, pd, pc)
		m = canon_model(drv.call('ww', T=T, h=jh, K=jK, d=jd, c=jc))
		rep.case('ww-exact', case, nontrivial=T >= 2)
		rep.count('T=%d' % T)
		for k, v in (('h', ph), ('K', pK), ('d', pd), ('c', pc)):
			rep.count('shape:' + ('scalar' if not hasattr(v, '__len__') else ('T+1' if len(v) == T+1 else 'T')))
		if 'next' in py:
			rep.count('orders=%d' % sum(1 for q in py['Q'] if q > 0))
		compare(rep, 'ww-exact', case, py, m, True, (nh, nK, nc, nd))
	# shape equivalence, Python vs Python (needs no model): scalar vs list vs T+1 list
	for i in range(n // 4):
		T = rng.randint(1, Tmax)
		h, K, c = rng.randint(0, 4), rng.randint(0, 60), rng.randint(0, 3)
		d = [rng.randint(1, 15)] + [rng.randint(0, 15) for _ in range(T-1)]
		a = py_ww(T, h, K, d, c)
		b = py_ww(T, [h]*T, [0]+[K]*T, np.array([0]+d), [7]+[c]*T)
		rep.case('ww-shapes', {'T': T, 'h': h, 'K': K, 'c': c, 'd': d}, nontrivial=T >= 2)
		if a != b:
			rep.diff('ww-shapes', 'scalar and list forms give different answers', {'T': T, 'h': h, 'K': K, 'c': c, 'd': d},
					 py=a, model=b, oracle=True)
	# malformed stream: negatives and wrong lengths -> ValueError on both sides
	for i in range(n // 6):
		T = rng.randint(1, 5)
		jd = frs([rng.randint(1, 9) for _ in range(T)])
		jh, jK, jc = '1', '10', '0'
		which = rng.choice(['neg-scalar', 'neg-elem', 'neg-ignored', 'short', 'long'])
		if which == 'neg-scalar':
			jh = '-1'
		elif which == 'neg-elem':
			jd = list(jd); jd[rng.randrange(T)] = '-2'
		elif which == 'neg-ignored':
			jd = ['-1'] + list(jd)
		elif which == 'short':
			jd = list(jd)[:-1] if T > 1 else []
			if T - 1 == 0:
				which = 'empty'
		else:
			jd = list(jd) + ['1', '1']
		case = {'T': T, 'h': jh, 'K': jK, 'd': jd, 'c': jc}
		py, m = one_case(rep, drv, case)
		rep.case('ww-malformed', case, nontrivial=True)
		rep.count('malformed:' + which)
		compare(rep, 'ww-malformed', case, py, m, False)


def replay(rep, drv, doc):
	case = doc['case']
	if doc['stream'] == 'ww-shapes':
		T, h, K, c, d = case['T'], case['h'], case['K'], case['c'], case['d']
		a = py_ww(T, h, K, d, c)
		b = py_ww(T, [h]*T, [0]+[K]*T, np.array([0]+d), [7]+[c]*T)
		if a != b:
			rep.diff('ww-shapes', 'scalar and list forms give different answers', case, py=a, model=b, oracle=True)
		return
	py, m = one_case(rep, drv, case)
	norm = None
	if doc['stream'] == 'ww-exact':
		T = case['T']
		def nrm(v):
			if isinstance(v, list):
				l = [Fraction(x) for x in v]
				return l[1:] if len(l) == T+1 else l
			return [Fraction(v)] * T
		norm = (nrm(case['h']), nrm(case['K']), nrm(case['c']), nrm(case['d']))
	compare(rep, doc['stream'], case, py, m, doc['stream'] == 'ww-exact', norm)
	print('python:', py)
	print('model :', m)
