"""C20 - helpers: correspondence with Model/Helpers.lean + reference predicates."""
import random, math, copy, warnings
from fractions import Fraction as F
import numpy as np
import core
from core import fr, frs, unfr, err_enum

TRUSTED = ["FFT convolution equals direct convolution only up to binary64 rounding (compared with tolerance 1e-9)",
		   "string-keyed helpers (replace_dict_numeric_string_keys, replace_dict_null_keys, is_numeric_string), is_iterable and "
		   "check_iterable_sizes are checked against reference implementations in the harness only (labelled tests, no theorem)",
		   "Irwin-Hall closed form = true cdf of the sum is not proved; the model evaluates the same formula exactly"]
THEOREM = 'Props/C20.list'


MUTATED = []
IN_PLACE = {'change_dict_key'}          # the only helper documented to work in place


def same(a, b):
	"""Structural equality that also works for NumPy arrays and nested containers."""
	if isinstance(a, np.ndarray) or isinstance(b, np.ndarray):
		return isinstance(a, np.ndarray) and isinstance(b, np.ndarray) and a.shape == b.shape and a.dtype == b.dtype and bool(np.all(a == b))
	if type(a) is not type(b):
		return False
	if isinstance(a, dict):
		return list(a.keys()) == list(b.keys()) and all(same(a[k], b[k]) for k in a)
	if isinstance(a, (list, tuple)):
		return len(a) == len(b) and all(same(x, y) for x, y in zip(a, b))
	if not isinstance(a, (int, float, str, bool, type(None), complex, np.generic, set, frozenset, F)):
		return True          # opaque objects (SciPy distributions ...): identity is not compared
	try:
		return bool(a == b) or (a != a and b != b)
	except Exception:
		return True


def call(f, *a, **k):
	"""Calls the helper; records (never raises) when a helper not documented to work in place changed one of its arguments."""
	nm = getattr(f, '__name__', '')
	try:
		before = copy.deepcopy((a, k))
	except Exception:
		before = None
	try:
		with warnings.catch_warnings():
			warnings.simplefilter('ignore')
			return f(*a, **k)
	except Exception as e:
		return {'error': err_enum(e)}
	finally:
		if before is not None and nm not in IN_PLACE and not same(before, (a, k)) and len(MUTATED) < 20:
			MUTATED.append((nm, repr(before)[:300], repr((a, k))[:300]))


def dyad(rng, lo, hi, den=4):
	return F(rng.randint(lo * den, hi * den), den)


def run(rep, drv):
	import stockpyl.helpers as H
	rng = random.Random(rep.seed + 20)
	th = rep.tier == 'thorough'
	N = 3000 if th else 400
	rep.rule = ('per helper: random inputs incl. empty, singleton, ties, wrong lengths, None, NumPy arrays; every case compared with the Lean model '
				'(exact, or 1e-9 for FFT/Irwin-Hall) and with the documented predicate; non-trivial = canonical-input distinct')

	def diff(stream, what, case, py, mo, bad):
		rep.diff(stream, what, case, py=py, model=mo, oracle=bad, theorem=THEOREM,
				 finding_id=classify(stream, case, py))

	# ---- dict_match ------------------------------------------------------
	for k in range(N):
		keys = rng.sample(range(-3, 8), rng.randint(0, 5))
		d1 = {kk: float(dyad(rng, -4, 4)) if rng.random() < .8 else 0.0 for kk in keys if rng.random() < .8}
		d2 = {}
		for kk in keys:
			if rng.random() < .8:
				d2[kk] = d1.get(kk, 0.0) if rng.random() < .7 else float(dyad(rng, -4, 4))
				if rng.random() < .15:
					d2[kk] += 2.0 ** -rng.randint(20, 40)
		req = rng.random() < .4
		rel = rng.choice([1e-9, 0.0, 2.0 ** -10]); ab = rng.choice([0.0, 0.0, 2.0 ** -8])
		if rng.random() < .5:
			# a key present in only one dict, at / inside / outside the absolute tolerance around zero
			tgt = rng.choice([d1, d2])
			tgt[rng.choice([20, 21, 22])] = rng.choice([1, -1]) * rng.choice([ab / 2, ab, 2 * ab, 2.0 ** -30, 0.0])
		if k % 4 == 0:
			# a coarse relative tolerance with a difference between rel*min and rel*max (the documented test is symmetric: relative to the LARGER value),
			# or an absolute tolerance on large values (the tolerances are alternatives, not added up)
			if k % 8 == 0:
				rel, ab = 2.0 ** -4, 0.0
				va, vb = 16.0, 17.03125
			else:
				rel, ab = 2.0 ** -30, 2.0 ** -8
				va, vb = 2.0 ** 20, 2.0 ** 20 + 2.0 ** -8 + 2.0 ** -11
			if (k // 8) % 2:
				va, vb = vb, va
			d1[30] = va; d2[30] = vb
			rep.count('dict_match:tolerance-sliver')
		case = {'d1': [[a, fr(b)] for a, b in d1.items()], 'd2': [[a, fr(b)] for a, b in d2.items()], 'req': req, 'rel': fr(rel), 'abs': fr(ab)}
		rep.case('dict_match', case)
		rep.count('dict_match:' + ('same-keys' if set(d1) == set(d2) else 'different-keys'))
		py = call(H.dict_match, d1, d2, require_presence=req, rel_tol=rel, abs_tol=ab)
		py_rev = call(H.dict_match, d2, d1, require_presence=req, rel_tol=rel, abs_tol=ab)
		mo = drv.call('dictmatch', **case)
		rep.exact_cmp += 1
		if py != mo or py != py_rev:
			diff('dict_match', 'dict_match(d1,d2)=%s dict_match(d2,d1)=%s model=%s' % (py, py_rev, mo), case, [py, py_rev], mo, py != py_rev or py != mo)

	# ---- find_nearest ----------------------------------------------------
	for k in range(N):
		n = rng.randint(1, 8)
		arr = [dyad(rng, -6, 6) for _ in range(n)]
		srt = rng.random() < .5
		if srt:
			arr.sort()
		vals = [rng.choice(arr) if rng.random() < .3 else (dyad(rng, -8, 8) if rng.random() < .7 else (arr[0] + arr[-1]) / 2) for _ in range(rng.randint(1, 4))]
		shape = rng.choice(['list', 'ndarray', 'scalar'])
		case = {'a': frs(arr), 'vs': frs(vals if shape != 'scalar' else vals[:1]), 'sorted': srt, 'shape': shape}
		rep.case('find_nearest', case)
		rep.count('find_nearest:%s:%s' % ('sorted' if srt else 'unsorted', shape))
		pa = [float(x) for x in arr]; pv = [float(x) for x in vals]
		if shape == 'ndarray':
			r = call(H.find_nearest, np.array(pa), np.array(pv), sorted=srt)
		elif shape == 'list':
			r = call(H.find_nearest, pa, pv, sorted=srt)
		else:
			r = call(H.find_nearest, pa, pv[0], sorted=srt)
		py = r if isinstance(r, dict) else [int(x) for x in r]
		mo = drv.call('nearest', a=case['a'], vs=case['vs'], sorted=srt)
		vs = vals if shape != 'scalar' else vals[:1]
		bad = isinstance(py, dict) or len(py) != len(vs) or any(not (0 <= i < len(arr)) or abs(arr[i] - v) != min(abs(x - v) for x in arr) for i, v in zip(py, vs))
		rep.exact_cmp += 1
		if bad or (py != mo and any(not (0 <= i < len(arr)) or abs(arr[i] - v) != abs(arr[j] - v) for i, j, v in zip(py, mo, vs))):
			diff('find_nearest', 'find_nearest -> %s, model %s' % (py, mo), case, py, mo, bad)

	# ---- convolve_many / sums of uniforms ---------------------------------
	for k in range(N // 4):
		arrs = []
		for _ in range(rng.randint(1, 5)):
			m = rng.randint(1, 5)
			w = [rng.randint(0, 6) for _ in range(m)]
			if sum(w) == 0:
				w[0] = 1
			arrs.append([F(x, sum(w)) for x in w])
		case = {'arrays': [frs(a) for a in arrs]}
		rep.case('convolve_many', case)
		r = call(H.convolve_many, [[float(x) for x in a] for a in arrs])
		mo = [unfr(x) for x in drv.call('convmany', **case)]
		rep.tol_cmp += 1
		bad = isinstance(r, dict) or len(r) != len(mo) or any(abs(float(a) - float(b)) > 1e-9 for a, b in zip(r, mo)) or min(r) < 0 or abs(sum(r) - 1) > 1e-9
		if bad:
			diff('convolve_many', 'convolve_many differs from direct convolution', case, r if isinstance(r, dict) else [float(x) for x in r], [float(x) for x in mo], True)
	# rare outcomes: pmfs with a tiny (but genuine) probability; the convolution must keep the small positive entries
	# (only NEGATIVE rounding noise may be cleared), so the comparison is much tighter than the clean-up tolerance 1e-10
	for k in range(max(4, N // 16)):
		arrs = []
		for j in range(2 if k == 0 else rng.randint(2, 4)):
			eps = 1e-6 if k == 0 else rng.choice([1e-4, 1e-5, 1e-6, 3e-6])
			m = 2 if k == 0 else rng.randint(2, 4)
			w = [F(eps)] + [F(rng.randint(1, 4)) for _ in range(m - 2)]
			rest = [F(1) - sum(w)] if m - 2 == 0 else []
			if not rest:
				tot = sum(w[1:]); w = [w[0]] + [x * (1 - w[0]) / tot for x in w[1:]]
			a = rest + w if rest else w
			if k == 0:
				a = [F(1) - F(eps), F(eps)]
			elif rng.random() < .5:
				a = list(reversed(a))
			arrs.append(a)
		case = {'arrays': [frs(a) for a in arrs], 'rare': True}
		rep.case('convolve_many', case)
		rep.count('convolve_many:rare-outcomes')
		r = call(H.convolve_many, [[float(x) for x in a] for a in arrs])
		mo = [unfr(x) for x in drv.call('convmany', arrays=case['arrays'])]
		rep.tol_cmp += 1
		bad = isinstance(r, dict) or len(r) != len(mo) or any(abs(float(a) - float(b)) > 1e-13 for a, b in zip(r, mo)) or min(r) < 0
		if bad:
			diff('convolve_many', 'convolve_many loses or distorts small probabilities (rare outcomes)', case, r if isinstance(r, dict) else [float(x) for x in r], [float(x) for x in mo], True)
	for k in range(N // 8):
		n = rng.randint(0, 4); lo = rng.randint(-2, 3); hi = lo + rng.randint(0, 4)
		case = {'n': n, 'lo': lo, 'hi': hi}
		rep.case('sum_of_discrete_uniforms_pmf', case)
		r = call(H.sum_of_discrete_uniforms_pmf, n, lo, hi)
		mo = [unfr(x) for x in drv.call('sumdu', **case)]
		rep.tol_cmp += 1
		want = {n * lo + i: float(p) for i, p in enumerate(mo)}
		bad = isinstance(r, dict) and 'error' in r
		if not bad:
			bad = set(r.keys()) != set(want.keys()) or any(abs(r[kk] - want[kk]) > 1e-12 for kk in want)
		if bad:
			diff('sum_of_discrete_uniforms_pmf', 'pmf of the sum of discrete uniforms is not the n-fold convolution', case, dict(r) if not isinstance(r, dict) or 'error' not in r else r, want, True)
	for k in range(N // 8):
		n = rng.randint(1, 4); lo = dyad(rng, -2, 3, 2); hi = lo + dyad(rng, 1, 4, 2)
		xs = [n * lo + F(rng.randint(-4, 4 * n * int(hi - lo) * 2 + 4), 8) for _ in range(rng.randint(1, 4))] + [n * lo, n * hi]
		mode = rng.choice(['scalar', 'array', 'list'])
		case = {'n': n, 'lo': fr(lo), 'hi': fr(hi), 'xs': frs(xs), 'mode': mode}
		rep.case('sum_of_continuous_uniforms.cdf', case)
		rep.count('sumcu:' + mode)
		dist = call(H.sum_of_continuous_uniforms_distribution, n, float(lo), float(hi))
		mo = [unfr(x) for x in drv.call('sumcu', n=n, lo=case['lo'], hi=case['hi'], xs=case['xs'])]
		if isinstance(dist, dict):
			diff('sum_of_continuous_uniforms.cdf', 'constructor raised', case, dist, None, True); continue
		if mode == 'scalar':
			r = [call(dist.cdf, float(x)) for x in xs]
		elif mode == 'array':
			r = call(dist.cdf, np.array([float(x) for x in xs]))
		else:
			r = call(dist.cdf, [float(x) for x in xs])
		rep.tol_cmp += 1
		if isinstance(r, dict):
			bad = True; r2 = r
		else:
			r2 = [x if isinstance(x, dict) else float(x) for x in r]
			bad = any(isinstance(x, dict) or abs(x - float(m)) > 1e-9 for x, m in zip(r2, mo))
		if bad:
			diff('sum_of_continuous_uniforms.cdf', 'cdf of the sum of continuous uniforms wrong or raises (%s argument)' % mode, case, r2, [float(x) for x in mo], True)

	# ---- distribution objects of sums, Irwin-Hall cdf, nearest_dict_value, min_of_dict --------------------------------
	for k in range(N // 8):
		n = rng.randint(1, 4); lo = rng.randint(-2, 3); hi = lo + rng.randint(0, 4)
		case = {'n': n, 'lo': lo, 'hi': hi}
		rep.case('sum_of_discrete_uniforms_distribution', case)
		mo = [float(unfr(x)) for x in drv.call('sumdu', **case)]
		dist = call(H.sum_of_discrete_uniforms_distribution, n, lo, hi)
		rep.tol_cmp += 1
		if isinstance(dist, dict):
			diff('sum_of_discrete_uniforms_distribution', 'raised', case, dist, None, True)
		else:
			pm = [float(dist.pmf(n * lo + i)) for i in range(len(mo))]
			cum = 0.0; bad = False
			for i, q in enumerate(mo):
				cum += q
				if abs(pm[i] - q) > 1e-12 or abs(float(dist.cdf(n * lo + i)) - cum) > 1e-9:
					bad = True
			if bad or abs(float(dist.mean()) - n * (lo + hi) / 2) > 1e-9 or float(dist.pmf(n * lo - 1)) != 0 or float(dist.pmf(n * hi + 1)) != 0:
				diff('sum_of_discrete_uniforms_distribution', 'distribution object is not the n-fold convolution of the discrete uniform', case, pm, mo, True)
		# general discrete summands
		m = hi - lo + 1
		w = [rng.randint(0, 5) for _ in range(m)]
		if sum(w) == 0:
			w[0] = 1
		pr = [F(x, sum(w)) for x in w]
		case2 = {'n': n, 'lo': lo, 'hi': hi, 'p': frs(pr)}
		rep.case('sum_of_discretes_distribution', case2)
		mo2 = [float(unfr(x)) for x in drv.call('convmany', arrays=[frs(pr)] * n)]
		dist2 = call(H.sum_of_discretes_distribution, n, lo, hi, [float(x) for x in pr])
		rep.tol_cmp += 1
		if isinstance(dist2, dict):
			diff('sum_of_discretes_distribution', 'raised', case2, dist2, None, True)
		else:
			pm2 = [float(dist2.pmf(n * lo + i)) for i in range(len(mo2))]
			if any(abs(a - b) > 1e-9 for a, b in zip(pm2, mo2)) or abs(sum(pm2) - 1) > 1e-9:
				diff('sum_of_discretes_distribution', 'distribution object is not the n-fold convolution of the given pmf', case2, pm2, mo2, True)
		bad_len = call(H.sum_of_discretes_distribution, n, lo, hi, [1.0] * (m + 1))
		if not (isinstance(bad_len, dict) and bad_len.get('error') == 'ValueError'):
			diff('sum_of_discretes_distribution', 'a probability list of the wrong length must raise ValueError', case2, str(bad_len), None, True)
		# Irwin-Hall cdf = cdf of the sum of n U[0,1] = model sumcu with lo=0, hi=1
		nn = rng.randint(1, 5)
		xs = [F(rng.randint(0, 8 * nn), 8) for _ in range(3)] + [F(0), F(nn)]
		mo3 = [float(unfr(x)) for x in drv.call('sumcu', n=nn, lo='0', hi='1', xs=frs(xs))]
		rep.case('irwin_hall_cdf', {'n': nn, 'xs': frs(xs)})
		got = [call(H.irwin_hall_cdf, float(x), nn) for x in xs]
		rep.tol_cmp += 1
		if any(isinstance(g, dict) or abs(float(g) - m3) > 1e-9 for g, m3 in zip(got, mo3)):
			diff('irwin_hall_cdf', 'Irwin-Hall cdf differs from the cdf of the sum of n uniforms', {'n': nn, 'xs': frs(xs)}, [g if isinstance(g, dict) else float(g) for g in got], mo3, True)
		# nearest_dict_value / min_of_dict: documented results on random dicts
		keys = rng.sample([dyad(rng, -8, 8) for _ in range(12)], rng.randint(1, 6))
		keys = list(dict.fromkeys(keys))
		dct = {float(kk): rng.randint(0, 9) for kk in keys}
		q = float(rng.choice(keys)) if rng.random() < .3 else float(dyad(rng, -9, 9))
		rep.case('nearest_dict_value', {'keys': frs(keys), 'q': fr(q)})
		r = call(H.nearest_dict_value, q, dict(dct))
		best = min(abs(kk - q) for kk in dct)
		rep.exact_cmp += 1
		if isinstance(r, dict) or r not in [v for kk, v in dct.items() if abs(kk - q) == best]:
			diff('nearest_dict_value', 'nearest_dict_value(%r) = %r is not the value of a closest key' % (q, r), {'dict': {str(a_): b_ for a_, b_ in dct.items()}, 'q': q}, str(r), None, True)
		r = call(H.min_of_dict, dict(dct))
		if isinstance(r, dict) or r[0] != min(dct.values()) or dct.get(r[1]) != r[0]:
			diff('min_of_dict', 'min_of_dict = %r but the minimum value is %r' % (r, min(dct.values())), {'dict': {str(a_): b_ for a_, b_ in dct.items()}}, str(r), None, True)

	# ---- normalisers -----------------------------------------------------
	for k in range(N):
		n = rng.randint(0, 5)
		kind = rng.choice(['none', 'scalar', 'list', 'list-wrong', 'ndarray'])
		dflt = rng.choice([None, F(7)])
		if kind == 'none':
			x, jx = None, None
		elif kind == 'scalar':
			v = dyad(rng, -3, 9); x, jx = float(v), fr(v)
		else:
			m = n if kind != 'list-wrong' else n + rng.choice([1, 2]) if n == 0 or rng.random() < .5 else n - 1
			vs = [dyad(rng, -3, 9) for _ in range(m)]
			x = [float(v) for v in vs]; jx = frs(vs)
			if kind == 'ndarray':
				x = np.array(x)
		idx = rng.sample(range(-5, 20), n)
		case = {'x': jx, 'n': n, 'default': fr(dflt), 'kind': kind, 'idx': idx}
		rep.case('ensure_list/dict_for_nodes', case)
		rep.count('ensure:' + kind)
		xin = copy.deepcopy(x)
		r = call(H.ensure_list_for_nodes, x, n, None if dflt is None else float(dflt))
		py = r if isinstance(r, dict) else [None if v is None else fr(F(float(v))) for v in r]
		mo = drv.call('ensurelist', x=jx, n=n, default=fr(dflt))
		rep.exact_cmp += 1
		if py != mo:
			diff('ensure_list_for_nodes', 'python=%s model=%s' % (py, mo), case, py, mo, True)
		r = call(H.ensure_dict_for_nodes, x, idx, None if dflt is None else float(dflt))
		py = r if (isinstance(r, dict) and 'error' in r) else [[kk, None if v is None else fr(F(float(v)))] for kk, v in r.items()]
		mo = drv.call('ensuredict', x=jx, idx=idx, default=fr(dflt))
		rep.exact_cmp += 1
		if py != mo:
			diff('ensure_dict_for_nodes', 'python=%s model=%s' % (py, mo), case, py, mo, True)
		if not np.array_equal(np.array(xin, dtype=object), np.array(x, dtype=object)):
			diff('ensure_list_for_nodes', 'argument mutated', case, None, None, True)

	for k in range(N // 2):
		keys = rng.sample(range(-6, 12), rng.randint(0, 6))
		d = {kk: float(dyad(rng, -5, 5)) for kk in keys}
		nv = dyad(rng, -5, 5) if rng.random() < .4 else None
		asc = rng.random() < .5
		dd = dict(d)
		if nv is not None:
			items = list(dd.items()); items.insert(rng.randint(0, len(items)), (None, float(nv))); dd = dict(items)
		case = {'d': [[a, fr(b)] for a, b in d.items()], 'noneVal': fr(nv), 'asc': asc}
		rep.case('sort_dict_by_keys', case)
		before = copy.deepcopy(dd)
		r = call(H.sort_dict_by_keys, dd, ascending=asc)
		py = r if isinstance(r, dict) else [fr(F(float(v))) for v in r]
		mo = drv.call('sortdict', **case)
		rep.exact_cmp += 1
		rk = call(H.sort_dict_by_keys, dd, ascending=asc, return_values=False)
		want_keys = sorted(d.keys(), reverse=not asc)
		if nv is not None:
			want_keys = ([None] + want_keys) if asc else (want_keys + [None])
		if py != mo or rk != want_keys or dd != before:
			diff('sort_dict_by_keys', 'values python=%s model=%s keys=%s' % (py, mo, rk), case, py, mo, True)
		# values are data: None, 0, '' or False stored under a key (the None key included) are returned like any other value
		for odd in (None, 0, '', False):
			for none_key in (True, False):
				dd2 = dict(list(d.items())[:2]); dd2[None if none_key else 99] = odd
				for asc2 in (True, False):
					rv = call(H.sort_dict_by_keys, dict(dd2), ascending=asc2)
					ks2 = sorted([k_ for k_ in dd2 if k_ is not None], reverse=not asc2)
					if None in dd2:
						ks2 = ([None] + ks2) if asc2 else (ks2 + [None])
					want2 = [dd2[k_] for k_ in ks2]
					rk2 = call(H.sort_dict_by_keys, dict(dd2), ascending=asc2, return_values=False)
					if not (isinstance(rv, list) and len(rv) == len(want2) and all(a_ is b_ or a_ == b_ for a_, b_ in zip(rv, want2)) and [type(a_) for a_ in rv] == [type(b_) for b_ in want2]) or rk2 != ks2:
						diff('sort_dict_by_keys', 'sort_dict_by_keys(%r, ascending=%s) = %r (keys %r); documented: values %r in key order %r' % (dd2, asc2, rv, rk2, want2, ks2), {}, repr(rv), None, True)
		# change_dict_key (documented to work in place)
		if keys:
			old = rng.choice(keys + [99]); new = rng.choice(keys + [50, 51])
			case2 = {'d': [[a, fr(b)] for a, b in d.items()], 'old': old, 'new': new}
			rep.case('change_dict_key', case2)
			d3 = dict(d)
			r = call(H.change_dict_key, d3, old, new)
			py = r if isinstance(r, dict) and 'error' in r else [[kk, fr(F(v))] for kk, v in d3.items()]
			mo = drv.call('changekey', **case2)
			rep.exact_cmp += 1
			if (isinstance(py, dict) or isinstance(mo, dict)) and py != mo or (not isinstance(py, dict) and dict(map(tuple, py)) != dict(map(tuple, mo))):
				diff('change_dict_key', 'python=%s model=%s' % (py, mo), case2, py, mo, True)
		# compare_unhashable_lists
		l1 = [rng.randint(0, 3) for _ in range(rng.randint(0, 5))]
		l2 = list(l1); rng.shuffle(l2)
		if rng.random() < .5 and l2:
			l2[rng.randrange(len(l2))] = rng.randint(0, 3)
		if rng.random() < .2:
			l2 = l2[:-1]
		case3 = {'l1': l1, 'l2': l2}
		rep.case('compare_unhashable_lists', case3)
		l1c = list(l1)
		py = call(H.compare_unhashable_lists, l1, l2)
		mo = drv.call('comparelists', **case3)
		rep.exact_cmp += 1
		if py != mo or py != (sorted(l1) == sorted(l2)) or l1 != l1c:
			diff('compare_unhashable_lists', 'python=%s model=%s' % (py, mo), case3, py, mo, True)
		# round_dict_values
		xs = [dyad(rng, -6, 6, 4) for _ in range(4)]
		ty = rng.choice(['up', 'down', 'nearest', None, 'other'])
		case4 = {'xs': frs(xs), 'ty': ty or 'none'}
		rep.case('round_dict_values', case4)
		dct = {i: float(x) for i, x in enumerate(xs)}
		r = call(H.round_dict_values, dct, ty)
		py = r if 'error' in r else [fr(F(float(r[i]))) for i in range(4)]
		mo = drv.call('roundvals', **case4)
		rep.exact_cmp += 1
		if py != mo or dct != {i: float(x) for i, x in enumerate(xs)}:
			diff('round_dict_values', 'python=%s model=%s' % (py, mo), case4, py, mo, True)

	# ---- ensure_list_for_time_periods: every documented argument shape, result and (non-)aliasing -----------------
	for k in range(N // 2):
		T = rng.randint(1, 6)
		kind = rng.choice(['scalar', 'list-T', 'list-T1', 'ndarray-T', 'ndarray-T1', 'wrong', 'none'])
		if kind == 'scalar':
			x = rng.choice([rng.randint(-3, 9), float(dyad(rng, -3, 9))]); want = [0] + [x] * T
		elif kind == 'none':
			x = None; want = [0] + [None] * T
		else:
			m = {'list-T': T, 'ndarray-T': T, 'list-T1': T + 1, 'ndarray-T1': T + 1}.get(kind) or rng.choice([q for q in (0, T - 1, T + 2, T + 3) if q >= 0 and q not in (T, T + 1)])
			x = [rng.randint(-2, 9) if rng.random() < .7 else float(dyad(rng, -3, 9)) for _ in range(m)]
			want = 'ValueError' if kind == 'wrong' else (list(x) if m == T + 1 else [0] + list(x))
			if kind.startswith('ndarray'):
				x = np.array(x); want = want if isinstance(want, str) else np.array(want[1:] if m == T else want).tolist() if False else ([0] + x.tolist() if m == T else x.tolist())
		case = {'x': repr(x), 'T': T, 'kind': kind}
		rep.case('ensure_list_for_time_periods', case); rep.count('time-periods:' + kind)
		xin = copy.deepcopy(x)
		r = call(H.ensure_list_for_time_periods, x, T, rng.choice([None, 'demand']))
		rep.exact_cmp += 1
		errs = []
		if isinstance(want, str):
			if not (isinstance(r, dict) and r.get('error') == want): errs.append('a list of a wrong length must raise ValueError, got %r' % (r,))
		elif isinstance(r, dict) or not isinstance(r, list) or not same(list(r), list(want)):
			errs.append('returned %r, documented %r' % (r, want))
		if not same(xin, x):
			errs.append('the argument was changed in place: %r -> %r' % (xin, x))
		# the Lean model of the normaliser (Model/Helpers.lean ensureListForTimePeriods; theorems ensure_time_*)
		jx = None if xin is None else (fr(F(float(xin))) if kind == 'scalar' else [fr(F(float(v))) for v in list(xin)])
		mo = drv.call('ensuretime', x=jx, T=T)
		pyc = r if isinstance(r, dict) else [None if v is None else fr(F(float(v))) for v in r]
		if pyc != mo:
			errs.append('python %r, model %r' % (pyc, mo))
		if kind == 'list-T' and r is x:
			errs.append('a list of length T must give a new list, not the argument itself')
		if kind == 'list-T1' and r is not x:
			errs.append('a list of length T+1 is documented to be returned itself')
		if not errs and kind == 'list-T':
			r2 = call(H.ensure_list_for_time_periods, x, T)         # the same list can be normalised again with the same result
			if not same(r2, r): errs.append('a second call with the same list gives %r, the first gave %r' % (r2, r))
		if errs:
			diff('ensure_list_for_time_periods', '; '.join(errs[:2]), case, repr(r), repr(want), True)

	# ---- build_node_data_dict against its documented rules -----------------------------------------------------
	for k in range(N // 4):
		n = rng.randint(1, 5)
		order = rng.sample(range(0, 9), n)
		attrs = {}; dflt = {}
		names = rng.sample(['local_holding_cost', 'stockout_cost', 'demand_mean', 'lead_time', 'demand_list', 'probabilities', 'processing_time'], rng.randint(1, 5))
		for a_ in names:
			form = rng.choice(['none', 'dict', 'scalar', 'list', 'list-wrong'])
			if a_ in ('demand_list', 'probabilities') and form in ('list', 'list-wrong') and rng.random() < .6:
				attrs[a_] = [rng.randint(0, 5) for _ in range(rng.randint(1, 6))]         # a flat list: a singleton for these two attributes
			elif form == 'none': attrs[a_] = None
			elif form == 'scalar': attrs[a_] = rng.choice([0, 1, 2.5, 7])
			elif form == 'dict': attrs[a_] = {i: rng.choice([0, 3, 8]) for i in order if rng.random() < .6}
			else:
				m = n if form == 'list' else n + rng.choice([1, 2])
				if a_ in ('demand_list', 'probabilities'):
					attrs[a_] = [rng.choice([None, [1, 2, 3]]) for _ in range(m)]
					if not any(isinstance(e, list) for e in attrs[a_]): attrs[a_][0] = [4, 5]
				else:
					attrs[a_] = [rng.choice([0, 1, 4, 9]) for _ in range(m)]
			if rng.random() < .4: dflt[a_] = rng.choice([0, 99])
		def ref():
			out = {i: {} for i in order}
			for a_, v in attrs.items():
				if v is None:
					for i in order: out[i][a_] = dflt.get(a_)
				elif type(v) == dict:
					for i in order: out[i][a_] = v[i] if i in v else dflt.get(a_)
				elif isinstance(v, list) and (a_ not in ('demand_list', 'probabilities') or any(isinstance(e, list) for e in v)):
					if len(v) != len(order): return 'ValueError'
					for kk, i in enumerate(order): out[i][a_] = v[kk]
				else:
					for i in order: out[i][a_] = v
			return out
		want = ref()
		case = {'attrs': repr(attrs), 'order': order, 'defaults': repr(dflt)}
		rep.case('build_node_data_dict', case)
		r = call(H.build_node_data_dict, attrs, order, dflt)
		rep.exact_cmp += 1
		if (want == 'ValueError') != (isinstance(r, dict) and r.get('error') == 'ValueError') or (want != 'ValueError' and r != want):
			diff('build_node_data_dict', 'build_node_data_dict gives %r, its documented rules give %r' % (r, want), case, repr(r), repr(want), True)

	# ---- small predicates and the set (de)serialisers -------------------------------------------------------------
	import scipy.stats as st
	for v, w in [('3', True), ('-2.5', True), ('1e3', True), ('abc', False), ('', False), (3, False), (None, False), ('null', False), (' 4 ', True), ('4,5', False)]:
		rep.case('predicates', {'is_numeric_string': repr(v)})
		if call(H.is_numeric_string, v) != w:
			diff('predicates', 'is_numeric_string(%r) = %r' % (v, call(H.is_numeric_string, v)), {}, None, None, True)
	for dobj, disc in [(st.poisson(3), True), (st.norm(1, 2), False), (st.randint(0, 4), True), (st.uniform(0, 1), False), (st.nbinom(3, .5), True),
					   (st.rv_discrete(values=([0, 1], [.5, .5])), True), (st.poisson, True), (st.norm, False), (H.sum_of_continuous_uniforms_distribution(2, 0, 1), False),
					   (H.sum_of_discrete_uniforms_distribution(2, 0, 3), True)]:
		rep.case('predicates', {'distribution': str(getattr(getattr(dobj, 'dist', dobj), 'name', dobj))})
		if bool(call(H.is_discrete_distribution, dobj)) != disc or bool(call(H.is_continuous_distribution, dobj)) != (not disc):
			diff('predicates', 'is_discrete/continuous_distribution wrong for %r' % (dobj,), {}, None, None, True)
	import json as _json
	for k in range(20):
		obj = {'a': set(rng.sample(range(20), rng.randint(0, 5))), 'b': [1, {'c': set([rng.randint(0, 3)])}], 'd': {'type': 'set', 'x': 1}, 'e': np.float64(2.5), 'f': np.array([1, 2])}
		rep.case('serialize_set', {'obj': repr(obj)})
		try:
			back = _json.loads(_json.dumps(obj, default=H.serialize_set), object_hook=H.deserialize_set)
			ok = back == {'a': obj['a'], 'b': obj['b'], 'd': obj['d'], 'e': 2.5, 'f': [1, 2]}
		except Exception as e:
			ok = False; back = err_enum(e)
		if not ok:
			diff('serialize_set', 'JSON round trip through serialize_set / deserialize_set gives %r for %r' % (back, obj), {}, None, None, True)

	# ---- reference-only checks (labelled tests) ---------------------------
	for k in range(N // 4):
		T = rng.randint(1, 5)
		lst = [rng.randint(0, 9) for _ in range(T + 1)]
		r = H.ensure_list_for_time_periods(lst, T)
		rep.case('aliasing', {'T': T, 'list': lst})
		if r is not lst:
			diff('aliasing', 'ensure_list_for_time_periods(list of length T+1) is documented to return x itself', {'T': T}, None, None, True)
		d = {1: 2}
		if H.ensure_dict_for_nodes(d, [1]) is not d:
			diff('aliasing', 'ensure_dict_for_nodes(dict) is documented to return x itself', {}, None, None, True)
		nested = {'1': {'null': 3, '2.5': 4, 'a': {'-7': 1}}, 'null': 5, 'x': 6}
		r1 = H.replace_dict_numeric_string_keys(copy.deepcopy(nested))
		if r1 != {1: {'null': 3, 2.5: 4, 'a': {-7: 1}}, 'null': 5, 'x': 6}:
			diff('string-keys', 'replace_dict_numeric_string_keys wrong: %r' % (r1,), {}, repr(r1), None, True)
		r2 = H.replace_dict_null_keys(copy.deepcopy(nested))
		if r2 != {'1': {None: 3, '2.5': 4, 'a': {'-7': 1}}, None: 5, 'x': 6}:
			diff('string-keys', 'replace_dict_null_keys wrong: %r' % (r2,), {}, repr(r2), None, True)
		# random nested dicts (the shapes JSON produces for dicts keyed by None or by numbers at several levels): every level is rewritten, whatever
		# the key above it, and the result is a NEW dict at every level ("Return a new dict. Works recursively")
		def gen_nested(depth):
			d_ = {}
			for key_ in rng.sample(['null', '1', '-7', '2.5', 'a', 'x', '10', '0', '9007199254740993', '-9223372036854775809', '10000000000000000000001'], rng.randint(1, 5)):
				d_[key_] = gen_nested(depth - 1) if depth > 0 and rng.random() < .6 else rng.choice([0, 1.5, [0, 0], 'null', None])
			return d_
		ref_null = lambda d_: {(None if k_ == 'null' else k_): (ref_null(v_) if type(v_) is dict else v_) for k_, v_ in d_.items()}
		# "a string representing an integer is replaced with the integer itself" -- exactly, however large
		num_key = lambda k_: k_ if k_ in ('null', 'a', 'x') else (int(k_) if k_.lstrip('-').isdigit() else float(k_))
		ref_num = lambda d_: {num_key(k_): (ref_num(v_) if type(v_) is dict else v_) for k_, v_ in d_.items()}
		def shares(a_, b_):
			return a_ is b_ or (type(a_) is dict and type(b_) is dict and any(shares(va_, vb_) for va_ in a_.values() for vb_ in b_.values() if type(va_) is dict and type(vb_) is dict))
		for rep_ in range(6):
			nd_ = gen_nested(3); keep_ = copy.deepcopy(nd_)
			for fn_, ref_ in ((H.replace_dict_null_keys, ref_null), (H.replace_dict_numeric_string_keys, ref_num)):
				got_ = call(fn_, nd_)
				rep.case('string-keys', {'dict': repr(nd_), 'fn': fn_.__name__})
				if got_ != ref_(keep_) or [type(k_) for k_ in got_] != [type(k_) for k_ in ref_(keep_)]:
					diff('string-keys', '%s(%r) = %r, documented (recursive) result %r' % (fn_.__name__, keep_, got_, ref_(keep_)), {}, repr(got_), None, True)
				elif shares(got_, nd_):
					diff('string-keys', '%s(%r): the result shares a nested dict with its argument ("return a new dict", recursively)' % (fn_.__name__, keep_), {}, None, None, True)
				if nd_ != keep_:
					diff('string-keys', '%s changed its argument' % fn_.__name__, {}, None, None, True)
		vals = [(3, True), (3.0, True), (3.5, False), ('3', False), (None, False), (np.float64(2.0), True)]
		for v, w in vals:
			if H.is_integer(v) != w:
				diff('predicates', 'is_integer(%r) = %r' % (v, H.is_integer(v)), {}, None, None, True)
		class OnlyGetitem:          # iterable through the sequence protocol (__getitem__ + __len__), no __iter__
			def __len__(self): return 3
			def __getitem__(self, i):
				if i >= 3: raise IndexError(i)
				return [4.0, 5.0, 6.0][i]
		for v, w in [([1], True), ((1, 2), True), ('ab', False), (5, False), (np.array([1]), True), ({1: 2}, True), (None, False),
					 (np.array(5.0), False), (np.float64(2.0), False), (np.squeeze(np.array([7])), False), (OnlyGetitem(), True), (range(3), True),
					 ({1, 2}, True), ((x for x in [1]), True), ('', False), (np.array([[1, 2], [3, 4]]), True), (3.5, False)]:
			if call(H.is_iterable, v) != w:
				diff('predicates', 'is_iterable(%r) = %r: "iterable" means iter(x) works and x is not a string' % (v, call(H.is_iterable, v)), {}, None, None, True)
		# the normalisers branch on that predicate: a zero-dimensional array is a singleton, a sequence-protocol object is a list
		for fn_, args_, want_ in ((H.ensure_list_for_nodes, (np.array(5.0), 3), [5.0, 5.0, 5.0]), (H.ensure_list_for_nodes, (OnlyGetitem(), 3), [4.0, 5.0, 6.0]),
								  (H.ensure_list_for_time_periods, (np.float64(2.0), 2), [0, 2.0, 2.0]), (H.check_iterable_sizes, ([[1, 2, 3], np.array(5.0)],), True)):
			r_ = call(fn_, *args_)
			try:
				ok_ = (r_ == want_) if isinstance(want_, bool) else [float(x) for x in r_] == [float(x) for x in want_]
			except Exception:
				ok_ = False
			if not ok_:
				diff('predicates', '%s%r = %r, documented %r' % (fn_.__name__, args_, r_, want_), {}, None, None, True)
		# "if x is None and default is provided, return num_nodes copies of default" -- whatever the default is (a default that is itself
		# a list, tuple, dict, string or array is ONE value per node, not something to be spread over the nodes)
		for dv in ([1, 2, 3], (0, 10), {'a': 1}, 'xy', np.array([1.0, 2.0]), [], 0, False, 2.5):
			for nn in (0, 1, 2, 3):
				r_ = call(H.ensure_list_for_nodes, None, nn, dv)
				if not (isinstance(r_, list) and len(r_) == nn and all(e_ is dv for e_ in r_)):
					diff('predicates', 'ensure_list_for_nodes(None, %d, default=%r) = %r, documented: %d copies of the default' % (nn, dv, r_, nn), {}, None, None, True)
				idx_ = [7, -2, 11][:nn]
				r_ = call(H.ensure_dict_for_nodes, None, idx_, dv)
				if not (isinstance(r_, dict) and list(r_.keys()) == idx_ and all(e_ is dv for e_ in r_.values())):
					diff('predicates', 'ensure_dict_for_nodes(None, %r, default=%r) = %r, documented: the default at every node index' % (idx_, dv, r_), {}, None, None, True)
		for fn, truthy in ((H.is_list, [[1], []]), (H.is_set, [{1}, set()]), (H.is_dict, [{1: 2}, {}])):
			for v in ([1], [], {1}, set(), {1: 2}, {}, (1, 2), 'ab', 5, None, np.array([1])):
				w = any(type(v) is type(tv) for tv in truthy)
				if bool(fn(v)) != w:
					diff('predicates', '%s(%r) = %r' % (fn.__name__, v, fn(v)), {}, None, None, True)
		if not (H.check_iterable_sizes([[1, 2], [3, 4], 5, [6]]) and not H.check_iterable_sizes([[1, 2], [3, 4, 5]])):
			diff('predicates', 'check_iterable_sizes wrong', {}, None, None, True)
		nd = {2: {None: 1.0, 3: 2.0}, None: {5: 3.0}, 1: {4: 4.0}}
		if H.sort_nested_dict_by_keys(nd) != [3.0, 4.0, 1.0, 2.0] or H.sort_nested_dict_by_keys(nd, ascending=False, return_values=False) != [(2, 3), (2, None), (1, 4), (None, 5)]:
			diff('predicates', 'sort_nested_dict_by_keys wrong', {}, None, None, True)
		break

	for nm, b, a_ in MUTATED:
		diff('argument-mutation', '%s changed its argument although not documented to work in place: %s -> %s' % (nm, b, a_), {'fn': nm, 'before': b, 'after': a_}, None, None, True)
	rep.count('argument-mutation-checked-calls')


def classify(stream, case, py):
	return None


def replay(rep, drv, doc):
	print('C20 replay: re-running the whole quick stream (cases are cheap); the recorded case was:', doc['stream'], doc['case'])
	run(rep, drv)
