"""C05 - reported costs are the cost of the reported state."""
import random, warnings
from fractions import Fraction as F
import simlib, simstream, core, mplib
from core import fr, unfr
TRUSTED = ["exact regime (rates 0, 1/2, 1, 3/2, 2, 5/2, 3, 4, 10 and half-integer quantities)",
		   "cost functions are exercised as polynomials (degree <= 2) that the model evaluates exactly; multi-product networks (shared / multi-sourced raw materials, per-product rates and revenues) are checked by the property's predicate on the real objects, not by the model"]
THEOREM = 'Props/C05.list (period_costs_def, total_is_sum)'


def kernel_case(rep, drv, spec, net_objs=None, stream='cost-kernel'):
	py = simlib.run_py(spec, net_objs=net_objs)
	for fl in simlib.spec_flags(spec):
		rep.count(fl)
	for l, nd in spec['nodes'].items():
		rep.count('ht:' + ('None' if nd['ht'] is None else ('0' if nd['ht'] == '0' else 'pos')))
	if 'error' in py:
		rep.case(stream, spec, nontrivial=False)
		rep.diff(stream, 'real simulator raised %s: %s' % (py['error'], py.get('msg')), spec, py={'tb': py.get('tb')}, oracle=True)
		return
	req = simlib.model_request(spec, exo_from=py['trace'])
	rep.case(stream, spec, nontrivial=any(n['tc'] != 0 for st in py['trace'] for n in st['nodes']))
	fails, tot = simlib.oracle_C05(spec, py['trace'])
	if tot != py['total']:
		fails.append('simulation() returned %s but the per-node per-period totals add up to %s' % (py['total'], tot))
	diffs = []
	for t, st in enumerate(py['trace']):
		r = drv.call('costs', nodes=req['nodes'], edges=req['edges'], state=simstream.state_to_proto(st))
		for i, x in enumerate(r):
			for k in ('hc', 'sc', 'ithc', 'rv', 'tc'):
				rep.exact_cmp += 1
				if st['nodes'][i][k] != unfr(x[k]):
					diffs.append('t=%d node%d(label %s).%s: python=%s, model cost kernel on the same state=%s' % (
						t, i, spec['labels'][i], k, st['nodes'][i][k], x[k]))
	if diffs or fails:
		what = ''
		if diffs:
			what = 'model kernel/implementation differ: ' + '; '.join(diffs[:3])
		if fails:
			what += ' | property predicate fails on the real code: ' + '; '.join(fails[:3])
		rep.diff(stream, what, spec, py={'diffs': diffs[:10], 'predicate_failures': fails[:10]}, oracle=bool(fails),
				 theorem=THEOREM if not diffs else None)
	return py



def rerun_case(rep, drv, spec, rng):
	"""Object life cycle: simulate, change cost rates on the SAME network object, simulate again - the second run must be priced at
	the rates in force when it runs."""
	import copy
	py = simlib.run_py(spec)
	if 'error' in py:
		return
	spec2 = copy.deepcopy(spec)
	rates = {'h': ['0', '1', '2', '1/2', '3'], 'p': ['0', '4', '10', '5/2'], 'ht': [None, '0', '3/2', '1'], 'rev': ['0', '3', '1']}
	attr = {'h': 'local_holding_cost', 'p': 'stockout_cost', 'ht': 'in_transit_holding_cost', 'rev': 'revenue'}
	for l in spec2['labels']:
		nd = spec2['nodes'][str(l)]
		for k in rates:
			if rng.random() < .6:
				nd[k] = rng.choice([v for v in rates[k] if v != nd[k]])
				setattr(simlib.attr_holder(spec, py['objs'][l]), attr[k], simlib.num(nd[k]))
	rep.count('rerun-after-rate-change')
	kernel_case(rep, drv, spec2, net_objs=(py['net'], py['objs']), stream='cost-kernel(second run after changing rates)')


def trials_case(rep, rng, corpus=None):
	"""run_multiple_trials: mean of per-trial averages and SEM (ddof 0) of the totals the simulator returned."""
	from stockpyl import sim
	import numpy as np
	from stockpyl.supply_chain_network import single_stage_system
	mean = rng.randint(3, 9); T = rng.randint(3, 10); K = rng.randint(2, 5); seed = rng.randint(1, 999)
	net = single_stage_system(holding_cost=rng.choice([1, 2]), stockout_cost=rng.choice([4, 10]), demand_type='P', mean=mean,
							  policy_type='BS', base_stock_level=mean + rng.randint(0, 3), lead_time=rng.randint(0, 2))
	if corpus:
		# many trials: the per-trial seeds are a deterministic walk on 1..9999 and come round again (instances found by search on which a seed repeats
		# within 30 trials); a repeated seed is a trial like any other
		mean, T, K, seed = 4, 3, 30, corpus
		net = single_stage_system(holding_cost=1, stockout_cost=4, demand_type='P', mean=4, policy_type='BS', base_stock_level=5, lead_time=1)
	rec = []; seeds = []
	orig = sim.simulation
	def wrapped(*a, **k):
		seeds.append(k.get('rand_seed'))
		r = orig(*a, **k); rec.append(r); return r
	sim.simulation = wrapped
	try:
		with warnings.catch_warnings():
			warnings.simplefilter('ignore')
			m, s = sim.run_multiple_trials(net, K, T, rand_seed=seed, progress_bar=False)
	finally:
		sim.simulation = orig
	avg = [r / T for r in rec]
	wm = float(np.mean(avg)); ws = float(np.std(avg) / np.sqrt(len(avg)))
	case = {'mean': mean, 'T': T, 'trials': K, 'seed': seed}
	rep.case('trials', case, nontrivial=True)
	if len(set(seeds)) < len(seeds):
		rep.count('trials:a-per-trial-seed-repeats')
	if len(rec) != K or abs(m - wm) > 1e-12 * max(1, abs(wm)) or abs(s - ws) > 1e-9 * max(1, abs(ws)):
		rep.diff('trials', 'run_multiple_trials returned (%r,%r) but per-trial averages %r give (%r,%r)' % (m, s, avg, wm, ws), case, oracle=True)


def run(rep, drv):
	th = rep.tier == 'thorough'
	rep.rule = ('cost kernel: model nodeCosts evaluated on every end-of-period state the real simulator reported (all nodes, periods) of random '
				'single-product networks with holding/stockout/in-transit(None,0,positive)/revenue rates None/0/positive; simulation() total vs sum; '
				'run_multiple_trials mean/SEM vs recorded per-trial totals. non-trivial = some non-zero cost')
	rng = random.Random(rep.seed * 1000003 + 5)
	for k in range(2000 if th else 200):
		kernel_case(rep, drv, simlib.gen_spec(rng, th))
	# cost functions together with disruptions (items held for disrupted customers enter the holding-cost function)
	for k in range(600 if th else 80):
		kernel_case(rep, drv, simlib.gen_spec(rng, th, {'pcostfn': .6, 'pdis': .7}))
	for k in range(300 if th else 40):
		rerun_case(rep, drv, simlib.gen_spec(rng, th, {'pcostfn': 0}), rng)
	for sd_ in (63, 51, 71):
		trials_case(rep, random.Random(sd_), corpus=sd_)
	for k in range(60 if th else 12):
		trials_case(rep, rng)
	# multi-product networks: products with their own rates and revenues, raw materials shared by several products and multi-sourced
	mplib.run_mp_stream(rep, drv, 'C05', THEOREM + ' (multi-product: predicate on the real objects only)', 500 if th else 80, th, seed_off=5)

def replay(rep, drv, doc):
	if doc['stream'] == 'mp-kernels':
		return mplib.mp_case(rep, drv, doc['case'], 'C05', THEOREM)
	if doc['stream'] == 'cost-kernel':
		kernel_case(rep, drv, doc['case'])
	else:
		trials_case(rep, random.Random(1))
