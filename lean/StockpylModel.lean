import StockpylModel.Model.Basic
import StockpylModel.Model.WW
import StockpylModel.Lemmas.Basic
import StockpylModel.Lemmas.WW
import StockpylModel.Props.C11
