import Driver.Proto
import StockpylModel.Model.MultiProd
open Lean Stockpyl Stockpyl.MP

namespace Driver.MP

def viewOf (j : Json) : Except String RmView := do
  let others ← listOf (fun x => do
    match (← x.getArr?).toList with
    | [a, b] => pure (← ratOf a, ← ratOf b)
    | _ => throw "bad pair") (← field j "others")
  pure { pipeline := ← ratOf (← field j "pipeline"), others := others, nb := ← ratOf (← field j "nb") }

def handlers : List (String × Handler) := [
  ("mp_rmtofg", fun j => do
    let b ← listOf (listOf ratOf) (← field j "bom")
    let inp : RmIn := { avail := ← listOf ratOf (← field j "avail"),
                        unitsOrdered := ← listOf ratOf (← field j "unitsOrdered"),
                        oqfgOld := ← listOf (listOf ratOf) (← field j "oqfgOld") }
    pure <| jObj [("newFG", jRats ((List.range b.length).map (newFG b inp))),
                  ("rmAfter", jRats ((List.range inp.avail.length).map (rmAfter b inp)))]),
  ("mp_ip", fun j => do
    let rms ← listOf viewOf (← field j "rms")
    pure <| jRat (ipMulti (← ratOf (← field j "il")) rms (← boolOf (← field j "excl")))),
  ("mp_costs", fun j => do
    let b ← listOf (listOf ratOf) (← field j "bom")
    let prods ← listOf (fun x => do
      pure ({ h := ← ratOf (← field x "h"), p := ← ratOf (← field x "p"), hTransit := ← optOf ratOf (fieldD x "ht" .null),
              rev := ← ratOf (← field x "rev"), il := ← ratOf (← field x "il"), heldForCustomers := ← ratOf (← field x "odi"),
              inTransit := ← ratOf (← field x "transit"), shipped := ← ratOf (← field x "shipped") } : ProdCost)) (← field j "prods")
    let rms ← listOf (fun x => do
      pure ({ rate := ← ratOf (← field x "rate"), stock := ← ratOf (← field x "stock"), atDoor := ← ratOf (← field x "door") } : RmCost)) (← field j "rms")
    let r := mpCosts b prods rms
    pure <| jObj [("hc", jRat r.hc), ("sc", jRat r.sc), ("ithc", jRat r.ithc), ("rv", jRat r.rv), ("tc", jRat r.tc)]),
  ("mp_rmorders", fun j => do
    pure <| jRats (rmOrders (← ratOf (← field j "oq")) (← ratOf (← field j "nb")) (← natOf (← field j "k"))))
]

end Driver.MP
