import Driver.Proto
import StockpylModel.Model.Demand
open Lean Stockpyl Stockpyl.Demand Stockpyl.Helpers

namespace Driver.Demand

def dtypeOf (j : Json) : Except String DType := do
  let t ← (← field j "type").getStr?
  let r (k : String) : Except String Rat := do ratOf (← field j k)
  match t with
  | "N" => pure (.N (← r "mean") (← r "sd"))
  | "P" => pure (.P (← r "mean"))
  | "UD" => pure (.UD (← intOf (← field j "lo")) (← intOf (← field j "hi")))
  | "UC" => pure (.UC (← r "lo") (← r "hi"))
  | "NB" => pure (.NB (← r "n") (← r "p"))
  | "D" => match (← field j "list") with
    | .arr _ => do pure (.D (← listOf ratOf (← field j "list")))
    | x => do pure (.Dsingle (← ratOf x))
  | "CD" => pure (.CD (← listOf ratOf (← field j "vals")) (← listOf ratOf (← field j "probs")))
  | _ => throw "bad demand type"

def handlers : List (String × Handler) := [
  ("demand", fun j => do
    let ty ← dtypeOf (← field j "ds")
    let u ← ratOf (fieldD j "u" (.num 0))
    let t ← natOf (fieldD j "t" (.num 0))
    let rnd ← boolOf (fieldD j "round" (.bool false))
    let prim := match primitive ty with
      | none => Json.null
      | some (nm, args) => jObj [("name", .str nm), ("args", jRats args)]
    pure <| jObj [("primitive", prim), ("demand", jRat (generate ty rnd u t))]),
  ("probsok", fun j => do pure <| jBool (probsOK (← listOf ratOf (← field j "probs")) (← ratOf (← field j "tol")))),
  ("markov", fun j => do
    pure <| jBool (markovStep (← ratOf (← field j "alpha")) (← ratOf (← field j "beta")) (← boolOf (← field j "disrupted")) (← ratOf (← field j "u")))),
  ("steady", fun j => do
    let s := steadyState (← ratOf (← field j "alpha")) (← ratOf (← field j "beta"))
    pure <| jRats [s.1, s.2]),
  ("explicit", fun j => do
    let l ← listOf boolOf (← field j "list")
    let ts ← listOf natOf (← field j "ts")
    pure <| jObj [("states", jList jBool (ts.map (explicitState l))), ("down", jRat (explicitDownFraction l))])
]

end Driver.Demand
