import Driver.Proto
import Driver.WW
import Driver.Sim
import Driver.Helpers
import Driver.MP
import Driver.Graph
import Driver.Meio
import Driver.Serial
import Driver.SS
import Driver.RQ
import Driver.FH
import Driver.EOQ
import Driver.GSM
import Driver.Demand
import Driver.SSM
import Driver.SingleStage
import Driver.SerialEch
import Driver.Registry
open Lean

namespace Driver

def allHandlers : List (String × Handler) :=
  Driver.WW.handlers ++ Driver.Sim.handlers ++ Driver.Helpers.handlers ++ Driver.MP.handlers ++ Driver.Graph.handlers ++ Driver.Meio.handlers ++ Driver.Serial.handlers ++ Driver.SS.handlers ++ Driver.RQ.handlers ++ Driver.FH.handlers ++ Driver.EOQ.handlers ++ Driver.GSM.handlers ++ Driver.Demand.handlers ++ Driver.SSM.handlers ++ Driver.SingleStage.handlers ++ Driver.SerialEch.handlers ++ Driver.Registry.handlers

def dispatch (line : String) : String :=
  match Json.parse line with
  | .error e => (jObj [("err", .str s!"parse: {e}")]).compress
  | .ok j =>
    match j.getObjVal? "fn" >>= Json.getStr? with
    | .error e => (jObj [("err", .str e)]).compress
    | .ok fn =>
      match allHandlers.lookup fn with
      | none => (jObj [("err", .str s!"unknown fn {fn}")]).compress
      | some h =>
        match h j with
        | .ok r => (jObj [("ok", r)]).compress
        | .error e => (jObj [("err", .str e)]).compress

partial def loop (hin : IO.FS.Stream) (hout : IO.FS.Stream) : IO Unit := do
  let line ← hin.getLine
  if line.isEmpty then return ()
  let l := line.trimAscii.toString
  if !l.isEmpty then
    hout.putStrLn (dispatch l)
    hout.flush
  loop hin hout

end Driver

def main : IO Unit := do
  let hin ← IO.getStdin
  let hout ← IO.getStdout
  Driver.loop hin hout
  hout.flush
