import Driver.Proto
import StockpylModel.Model.Sim
import StockpylModel.Props.NetPolicy
open Lean Stockpyl Stockpyl.Sim

namespace Driver.Sim

def policyOf (j : Json) : Except String Policy := do
  let t ← (← field j "t").getStr?
  let a ← ratOf (fieldD j "a" (.num 0))
  let b ← ratOf (fieldD j "b" (.num 0))
  match t with
  | "BS" => pure (.BS a)
  | "sS" => pure (.sS a b)
  | "rQ" => pure (.rQ a b)
  | "FQ" => pure (.FQ a)
  | "EBS" => pure (.EBS a)
  | _ => throw s!"unknown policy {t}"

def dtypeOf (j : Json) : Except String (Option DType) :=
  match j with
  | .null => pure none
  | .str "OP" => pure (some .OP)
  | .str "SP" => pure (some .SP)
  | .str "TP" => pure (some .TP)
  | .str "RP" => pure (some .RP)
  | _ => throw "bad dtype"

def nodeOf (j : Json) : Except String NodeCfg := do
  pure {
    inE := ← listOf natOf (← field j "inE"),
    outE := ← listOf natOf (← field j "outE"),
    slt := ← natOf (← field j "slt"),
    olt := ← natOf (← field j "olt"),
    policy := ← policyOf (← field j "policy"),
    cap := ← optOf ratOf (fieldD j "cap" .null),
    dtype := ← dtypeOf (fieldD j "dtype" .null),
    h := ← ratOf (← field j "h"),
    p := ← ratOf (← field j "p"),
    hTransit := ← optOf ratOf (fieldD j "ht" .null),
    rev := ← ratOf (fieldD j "rev" (.num 0)),
    initIL := ← optOf ratOf (fieldD j "initIL" .null),
    initOrders := ← ratOf (fieldD j "initOrders" (.num 0)),
    initShipments := ← ratOf (fieldD j "initShipments" (.num 0)),
    hFn := ← optOf (listOf ratOf) (fieldD j "hFn" .null),
    pFn := ← optOf (listOf ratOf) (fieldD j "pFn" .null) }

def edgeOf (j : Json) : Except String Edge := do
  let a ← j.getArr?
  match a.toList with
  | [s, d] => pure ⟨← optOf natOf s, ← optOf natOf d⟩
  | _ => throw "bad edge"

def netOf (j : Json) : Except String Net := do
  pure { nodes := ← listOf nodeOf (← field j "nodes"), edges := ← listOf edgeOf (← field j "edges") }

def exoOf (j : Json) : Except String Exo := do
  pure { demand := ← ratOf (fieldD j "d" (.num 0)), disrupted := ← boolOf (fieldD j "x" (.bool false)) }

def jEdgeSt (e : EdgeSt) : Json :=
  jObj [("ispl", jRats e.ispl), ("is", jRat e.is_), ("oo", jRat e.oo), ("idi", jRat e.idi), ("oq", jRat e.oq),
        ("rm", jRat e.rm), ("iopl", jRats e.iopl), ("io", jRat e.io), ("os", jRat e.os), ("bo", jRat e.bo),
        ("odi", jRat e.odi)]

def jNodeSt (s : NodeSt) : Json :=
  jObj [("il", jRat s.il), ("oqfg", jRat s.oqfg), ("pfg", jRat s.pfg), ("dcum", jRat s.dcum), ("dmfs", jRat s.dmfs),
        ("dmfsCum", jRat s.dmfsCum), ("fill", jRat s.fill), ("disrupted", jBool s.disrupted), ("hc", jRat s.hc),
        ("sc", jRat s.sc), ("ithc", jRat s.ithc), ("rv", jRat s.rv), ("tc", jRat s.tc), ("newFG", jRat s.newFG)]

def jState (s : State) : Json := jObj [("nodes", jList jNodeSt s.nodes), ("edges", jList jEdgeSt s.edges)]

/-- `{"fn":"sim","nodes":[…],"edges":[[src,dst],…],"hist":[[{"d":…,"x":…},…],…]}` -/
def sim : Handler := fun j => do
  let net ← netOf j
  let hist ← listOf (listOf exoOf) (← field j "hist")
  let tr := simulate net hist
  pure <| jObj [("orderSeq", jNats (orderSeq net)), ("shipSeq", jNats (shipSeq net)),
                ("orderOK", jBool (OrderOK net)), ("netWF", jBool (netWFb net)), ("initOK", jBool (initOKb net)), ("allVisited", jBool (allVisitedb net && allOrderedb net)), ("visitOK", jBool (decide (VisitOK net))),
                ("exoOK", jBool (hist.all fun row => decide (row.length = net.nodes.length) && row.all fun x => decide (0 ≤ x.demand))), ("trace", jList jState tr), ("total", jRat (totalCost tr)),
                ("init", jState (initState net))]

/-- Pure policy function: `{"fn":"policy","policy":{…},"ip":…,"cap":…}` -/
def policy : Handler := fun j => do
  let p ← policyOf (← field j "policy")
  let ip ← ratOf (← field j "ip")
  let cap ← optOf ratOf (fieldD j "cap" .null)
  pure <| jRat (match cap with | none => p.qty ip | some c => min (p.qty ip) c)

def edgeStOf (j : Json) : Except String EdgeSt := do
  let g (k : String) : Except String Rat := ratOf (fieldD j k (.num 0))
  let gl (k : String) : Except String (List Rat) := listOf ratOf (fieldD j k (.arr #[]))
  pure { ispl := ← gl "ispl", is_ := ← g "is", oo := ← g "oo", idi := ← g "idi", oq := ← g "oq", rm := ← g "rm",
         iopl := ← gl "iopl", io := ← g "io", os := ← g "os", bo := ← g "bo", odi := ← g "odi" }

def nodeStOf (j : Json) : Except String NodeSt := do
  let g (k : String) : Except String Rat := ratOf (fieldD j k (.num 0))
  pure { il := ← g "il", oqfg := ← g "oqfg", pfg := ← g "pfg", dcum := ← g "dcum", dmfs := ← g "dmfs",
         dmfsCum := ← g "dmfsCum", fill := ← g "fill", disrupted := ← boolOf (fieldD j "disrupted" (.bool false)),
         newFG := ← g "newFG" }

def stateOf (j : Json) : Except String State := do
  pure { nodes := ← listOf nodeStOf (← field j "nodes"), edges := ← listOf edgeStOf (← field j "edges") }

/-- Kernel level: `{"fn":"costs", net…, "state":{…}}` → the cost record of every node for that state. -/
def costsH : Handler := fun j => do
  let net ← netOf j
  let st ← stateOf (← field j "state")
  pure <| jList jNodeSt (costs net st).nodes

/-- Kernel level: order quantity each node's policy prescribes in the given state
(state = start of period with this period's inbound orders filled in). -/
def orderQtyH : Handler := fun j => do
  let net ← netOf j
  let st ← stateOf (← field j "state")
  pure <| jList (fun n => jObj [("q", jRat (orderQty net st n)), ("paused", jBool (isDisr net st n .OP)),
                                ("ip", jRat (ipObserved net st n))])
            (List.range net.nodes.length)

def handlers : List (String × Handler) :=
  [("sim", sim), ("policy", policy), ("costs", costsH), ("orderqty", orderQtyH)]

end Driver.Sim
