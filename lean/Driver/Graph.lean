import Driver.Proto
import StockpylModel.Model.Graph
open Lean Stockpyl Stockpyl.Graph

namespace Driver.Graph

def opOf (j : Json) : Except String Op := do
  let t ← (← field j "op").getStr?
  match t with
  | "add_node" => pure (.addNode (← intOf (← field j "a")))
  | "add_edge" => pure (.addEdge (← intOf (← field j "a")) (← intOf (← field j "b")))
  | "add_successor" => pure (.addSucc (← intOf (← field j "a")) (← intOf (← field j "b")))
  | "add_predecessor" => pure (.addPred (← intOf (← field j "a")) (← intOf (← field j "b")))
  | "remove_node" => pure (.removeNode (← intOf (← field j "a")))
  | "unlink" => pure (.unlink (← intOf (← field j "a")) (← intOf (← field j "b")))
  | "reindex" => do
    let m ← listOf (fun x => do
      match (← x.getArr?).toList with
      | [a, b] => pure (← intOf a, ← intOf b)
      | _ => throw "bad pair") (← field j "map")
    pure (.reindex m)
  | _ => throw s!"unknown op {t}"

def jGraph (g : G) : Json :=
  jObj [("nodes", jList (fun (n : GNode) => jObj [("label", jInt n.label), ("preds", jInts n.preds), ("succs", jInts n.succs),
            ("desc", jInts (descendants g n.label)), ("anc", jInts (ancestors g n.label))]) g),
        ("edges", jList (fun (e : Int × Int) => Json.arr #[jInt e.1, jInt e.2]) (edges g)),
        ("sources", jInts (sources g)), ("sinks", jInts (sinks g)), ("cyc", jBool (hasCycle g))]

/-- `{"fn":"graphops","ops":[…]}` → the structure after every operation (and whether the op was accepted). -/
def graphops : Handler := fun j => do
  let ops ← listOf opOf (← field j "ops")
  let (_, outs) := ops.foldl (fun (acc : G × List Json) op =>
    let (g', ok) := apply acc.1 op
    (g', acc.2 ++ [jObj [("ok", jBool ok), ("g", jGraph g')]])) (([] : G), [])
  pure (.arr outs.toArray)

def levels : Handler := fun j => do
  let l ← listOf ratOf (← field j "levels")
  pure <| jObj [("echelon", jRats (toEchelon l)), ("local", jRats (toLocal l))]

def handlers : List (String × Handler) := [("graphops", graphops), ("levels", levels)]

end Driver.Graph
