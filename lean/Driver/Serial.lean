import Driver.Proto
import StockpylModel.Model.Serial
open Lean Stockpyl Stockpyl.Serial

namespace Driver.Serial

/-- `{"fn":"store","ops":[{"op":"save","name":…,"data":7,"replace":true},{"op":"load","name":…}]}` →
result of every operation (loaded data id or null) and the final record order. -/
def storeH : Handler := fun j => do
  let ops ← (← field j "ops").getArr?
  let mut st : Store Int := []
  let mut outs : Array Json := #[]
  for o in ops do
    let t ← (← field o "op").getStr?
    let name ← (← field o "name").getStr?
    if t == "save" then
      st := st.save name (← intOf (← field o "data")) (← boolOf (← field o "replace"))
      outs := outs.push .null
    else
      outs := outs.push (jOpt jInt (st.load name))
  pure <| jObj [("results", .arr outs), ("names", jList (fun (r : String × Int) => Json.arr #[.str r.1, jInt r.2]) st)]

/-- `{"fn":"attrdict","dict":[["name", value|null], ...],"queries":[["name", default|null], ...]}` → the value `from_dict` assigns. -/
def attrH : Handler := fun j => do
  let d ← listOf (fun x => do
    match (← x.getArr?).toList with
    | [k, v] => pure ((← k.getStr?), (← optOf ratOf v))
    | _ => throw "bad entry") (← field j "dict")
  let qs ← listOf (fun x => do
    match (← x.getArr?).toList with
    | [k, v] => pure ((← k.getStr?), (← optOf ratOf v))
    | _ => throw "bad query") (← field j "queries")
  pure <| jList (fun (q : String × Option Rat) => jOpt jRat (attrFromDict d q.2 q.1)) qs

def handlers : List (String × Handler) := [("store", storeH), ("attrdict", attrH)]

end Driver.Serial
