import Lean.Data.Json
/-
Line protocol helpers: one JSON object per request line, one JSON value per response line.
Rationals travel as strings "p/q" (or "p"), exactly; `null` is Python's `None`.
-/
open Lean

namespace Driver

abbrev Handler := Json → Except String Json

def parseRatStr (s : String) : Except String Rat :=
  match s.splitOn "/" with
  | [p] => match p.toInt? with
    | some n => pure (n : Rat)
    | none => throw s!"bad rational {s}"
  | [p, q] => match p.toInt?, q.toNat? with
    | some n, some d => if d == 0 then throw s!"zero denominator {s}" else pure (mkRat n d)
    | _, _ => throw s!"bad rational {s}"
  | _ => throw s!"bad rational {s}"

def ratOf (j : Json) : Except String Rat :=
  match j with
  | .str s => parseRatStr s
  | .num n => if n.exponent == 0 then pure (n.mantissa : Rat) else throw s!"non-integer JSON number"
  | _ => throw s!"expected rational, got {j.compress}"

def natOf (j : Json) : Except String Nat := do
  let i ← j.getInt?
  if i < 0 then throw "expected nat" else pure i.toNat

def intOf (j : Json) : Except String Int := j.getInt?

def boolOf (j : Json) : Except String Bool := j.getBool?

def listOf {α} (f : Json → Except String α) (j : Json) : Except String (List α) := do
  let a ← j.getArr?
  a.toList.mapM f

def optOf {α} (f : Json → Except String α) (j : Json) : Except String (Option α) :=
  match j with
  | .null => pure none
  | _ => some <$> f j

def field (j : Json) (k : String) : Except String Json := j.getObjVal? k

def fieldD (j : Json) (k : String) (d : Json) : Json :=
  match j.getObjVal? k with
  | .ok v => v
  | .error _ => d

def jRat (r : Rat) : Json :=
  if r.den == 1 then .str (toString r.num) else .str s!"{r.num}/{r.den}"

def jRats (l : List Rat) : Json := .arr (l.map jRat).toArray
def jNat (n : Nat) : Json := .num (n : Int)
def jInt (n : Int) : Json := .num n
def jNats (l : List Nat) : Json := .arr (l.map jNat).toArray
def jInts (l : List Int) : Json := .arr (l.map jInt).toArray
def jBool (b : Bool) : Json := .bool b
def jOpt {α} (f : α → Json) : Option α → Json
  | none => .null
  | some a => f a
def jList {α} (f : α → Json) (l : List α) : Json := .arr (l.map f).toArray
def jObj (kvs : List (String × Json)) : Json := Json.mkObj kvs

end Driver
