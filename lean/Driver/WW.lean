import Driver.Proto
import StockpylModel.Model.WW
open Lean Stockpyl

namespace Driver.WW

def paramOf (j : Json) : Except String Stockpyl.WW.Param :=
  match j with
  | .arr _ => do pure (.list (← listOf ratOf j))
  | _ => do pure (.scalar (← ratOf j))

/-- `{"fn":"ww","T":4,"h":2,"K":[..],"d":[..],"c":0}` — raw parameters, scalar or list. -/
def ww : Handler := fun j => do
  let T ← natOf (← field j "T")
  let h ← paramOf (← field j "h")
  let K ← paramOf (← field j "K")
  let d ← paramOf (← field j "d")
  let c ← paramOf (← field j "c")
  match Stockpyl.WW.wagnerWhitin T h K d c with
  | .error _ => pure <| jObj [("error", .str "ValueError")]
  | .ok r =>
    pure <| jObj [("Q", jRats r.Q), ("cost", jRat r.cost), ("theta", jRats r.theta), ("next", jNats r.next)]

def handlers : List (String × Handler) := [("ww", ww)]

end Driver.WW
