import Driver.Proto
import StockpylModel.Model.SS
open Lean Stockpyl Stockpyl.SS Stockpyl.Loss

namespace Driver.SS

def rabs (x : Rat) : Rat := if x < 0 then -x else x

def handlers : List (String × Handler) := [
  ("sscost", fun j => do
    let p ← listOf ratOf (← field j "pmf")
    let h ← ratOf (← field j "h")
    let b ← ratOf (← field j "b")
    let K ← ratOf (← field j "K")
    let s ← intOf (← field j "s")
    let S ← intOf (← field j "S")
    let n := (S - s).toNat
    let c := ssCost p h b K s S
    let G : Nat → Rat := fun i => nvCost p h b (s + (i : Int))
    let v : Nat → Rat := fun i => relValue p G c n i
    let cert := certificate p G K c n v
    let B := ((List.range n).map fun k => rabs (v (k+1))).foldl max 0
    pure <| jObj [("cost", jRat c), ("certificate", jBool cert), ("B", jRat B)]),
  ("zf", fun j => do
    let p ← listOf ratOf (← field j "pmf")
    let h ← ratOf (← field j "h")
    let b ← ratOf (← field j "b")
    let K ← ratOf (← field j "K")
    pure <| match zf p h b K 400 with
      | none => jObj [("error", .str "fuel")]
      | some r => jObj [("s", jInt r.s), ("S", jInt r.S), ("g", jRat r.g)]),
  ("nvdiscrete", fun j => do
    let p ← listOf ratOf (← field j "pmf")
    let h ← ratOf (← field j "h")
    let b ← ratOf (← field j "b")
    let ys ← listOf intOf (← field j "ys")
    pure <| jObj [("opt", jNat (nvOpt p h b)), ("costs", jRats (ys.map (nvCost p h b))),
                  ("n", jRats (ys.map (lossN p))), ("nbar", jRats (ys.map (lossNbar p))), ("mean", jRat (mean p)),
                  ("n2", jRats (ys.map (loss2 p))), ("n2bar", jRats (ys.map (loss2bar p))),
                  ("nbarCdf", jRats (ys.map fun y => lossNbarCdf p y.toNat))]),
  ("closedloss", fun j => do
    let fam ← (← field j "family").getStr?
    let a ← listOf ratOf (← field j "args")
    let g (i : Nat) : Rat := a.getD i 0
    let pair : Rat × Rat := match fam with
      | "poisson" => poissonLoss (g 0) (g 1) (g 2) (g 3)
      | "poisson2" => poissonLoss2 (g 0) (g 1) (g 2) (g 3)
      | "stdnormal" => stdNormalLoss (g 0) (g 1) (g 2)
      | "stdnormal2" => stdNormalLoss2 (g 0) (g 1) (g 2)
      | "normal" => normalLoss (g 0) (g 1) (g 2) (g 3) (g 4)
      | "negbin" => negBinLoss (g 0) (g 1) (g 2) (g 3) (g 4) (g 5)
      | "gamma" => gammaLoss (g 0) (g 1) (g 2) (g 3) (g 4)
      | "uniform" => uniformLoss (g 0) (g 1) (g 2)
      | _ => (0, 0)
    pure <| jRats [pair.1, pair.2])
]

end Driver.SS
