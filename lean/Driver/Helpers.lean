import Driver.Proto
import StockpylModel.Model.Helpers
open Lean Stockpyl Stockpyl.Helpers

namespace Driver.Helpers

def kvOf (j : Json) : Except String (Int × Rat) := do
  match (← j.getArr?).toList with
  | [k, v] => pure (← intOf k, ← ratOf v)
  | _ => throw "bad kv"

def argOf (j : Json) : Except String Arg :=
  match j with
  | .null => pure .none
  | .arr _ => do pure (.list (← listOf ratOf j))
  | _ => do pure (.scalar (← ratOf j))

def jOptRat (o : Option Rat) : Json := jOpt jRat o

def handlers : List (String × Handler) := [
  ("dictmatch", fun j => do
    let d1 ← listOf kvOf (← field j "d1")
    let d2 ← listOf kvOf (← field j "d2")
    pure <| jBool (dictMatch d1 d2 (← boolOf (← field j "req")) (← ratOf (← field j "rel")) (← ratOf (← field j "abs")))),
  ("nearest", fun j => do
    let a ← listOf ratOf (← field j "a")
    let vs ← listOf ratOf (← field j "vs")
    let sorted ← boolOf (← field j "sorted")
    if a.isEmpty then throw "empty array" else
    pure <| jNats (vs.map fun v => if sorted then nearestSorted a v else (nearestUnsorted a v).getD 0)),
  ("convmany", fun j => do
    let arrs ← listOf (listOf ratOf) (← field j "arrays")
    pure <| jRats (convMany arrs)),
  ("sumdu", fun j => do
    pure <| jRats (sumDiscreteUniforms (← natOf (← field j "n")) (← intOf (← field j "lo")) (← intOf (← field j "hi")))),
  ("sumcu", fun j => do
    let n ← natOf (← field j "n")
    let lo ← ratOf (← field j "lo")
    let hi ← ratOf (← field j "hi")
    let xs ← listOf ratOf (← field j "xs")
    pure <| jRats (xs.map (sumContinuousUniformsCdf n lo hi))),
  ("ensurelist", fun j => do
    let r := ensureListForNodes (← argOf (← field j "x")) (← natOf (← field j "n")) (← optOf ratOf (fieldD j "default" .null))
    pure <| match r with | none => jObj [("error", .str "ValueError")] | some l => jList jOptRat l),
  ("ensuretime", fun j => do
    let r := ensureListForTimePeriods (← argOf (← field j "x")) (← natOf (← field j "T"))
    pure <| match r with | none => jObj [("error", .str "ValueError")] | some l => jList jOptRat l),
  ("ensuredict", fun j => do
    let r := ensureDictForNodes (← argOf (← field j "x")) (← listOf intOf (← field j "idx")) (← optOf ratOf (fieldD j "default" .null))
    pure <| match r with
      | none => jObj [("error", .str "ValueError")]
      | some l => jList (fun (kv : Int × Option Rat) => Json.arr #[jInt kv.1, jOptRat kv.2]) l),
  ("sortdict", fun j => do
    let d ← listOf kvOf (← field j "d")
    let nv ← optOf ratOf (fieldD j "noneVal" .null)
    pure <| jRats (sortDictByKeys nv d (← boolOf (← field j "asc")))),
  ("changekey", fun j => do
    let d ← listOf kvOf (← field j "d")
    pure <| match changeDictKey d (← intOf (← field j "old")) (← intOf (← field j "new")) with
      | none => jObj [("error", .str "KeyError")]
      | some l => jList (fun (kv : Int × Rat) => Json.arr #[jInt kv.1, jRat kv.2]) l),
  ("comparelists", fun j => do
    pure <| jBool (compareLists (← listOf intOf (← field j "l1")) (← listOf intOf (← field j "l2")))),
  ("roundvals", fun j => do
    let ty ← (← field j "ty").getStr?
    pure <| jRats ((← listOf ratOf (← field j "xs")).map (roundValue ty)))
]

end Driver.Helpers
