import Driver.Proto
import StockpylModel.Model.EOQ
open Lean Stockpyl Stockpyl.EOQ

namespace Driver.EOQ

def handlers : List (String × Handler) := [
  ("eoqcost", fun j => do
    let fam ← (← field j "family").getStr?
    let a ← listOf ratOf (← field j "args")
    let g (i : Nat) : Rat := a.getD i 0
    pure <| jRat (match fam with
      | "eoq" => eoqCost (g 0) (g 1) (g 2) (g 3)
      | "eoqb" => eoqbCost (g 0) (g 1) (g 2) (g 3) (g 4) (g 5)
      | "epq" => epqCost (g 0) (g 1) (g 2) (g 3) (g 4)
      | "addyield" => eoqAddYieldCost (g 0) (g 1) (g 2) (g 3) (g 4) (g 5)
      | "mulyield" => eoqMulYieldCost (g 0) (g 1) (g 2) (g 3) (g 4) (g 5)
      | "jrp" => jrpCost (g 0) (g 1) (g 2)
      | _ => 0))
]

end Driver.EOQ
