import Driver.Proto
import StockpylModel.Model.Meio
open Lean Stockpyl Stockpyl.Meio

namespace Driver.Meio

/-- Objective over vectors: `{"type":"quad","a":[…],"t":[…],"cross":[[i,j,c],…]}` =
Σ aᵢ(xᵢ−tᵢ)² + Σ c·xᵢ·xⱼ ; `{"type":"pwl","p":[…],"h":[…],"t":[…]}` = Σ max(pᵢ(tᵢ−xᵢ), hᵢ(xᵢ−tᵢ)). -/
def objOf (j : Json) : Except String (List Rat → Rat) := do
  let ty ← (← field j "type").getStr?
  let t ← listOf ratOf (← field j "t")
  match ty with
  | "quad" => do
    let a ← listOf ratOf (← field j "a")
    let cross ← listOf (fun x => do
      match (← x.getArr?).toList with
      | [i, k, c] => pure (← natOf i, ← natOf k, ← ratOf c)
      | _ => throw "bad cross") (fieldD j "cross" (.arr #[]))
    pure fun x =>
      lsum ((List.zip a (List.zip t x)).map fun (ai, ti, xi) => ai * (xi - ti) * (xi - ti)) +
      lsum (cross.map fun (i, k, c) => c * x.getD i 0 * x.getD k 0)
  | "pwl" => do
    let p ← listOf ratOf (← field j "p")
    let h ← listOf ratOf (← field j "h")
    pure fun x =>
      lsum ((List.zip (List.zip p h) (List.zip t x)).map fun ((pi, hi), ti, xi) => max (pi * (ti - xi)) (hi * (xi - ti)))
  | _ => throw "unknown objective"

/-- Smallest gap |f(c) − f(d)| met along the iteration: an (almost) exact tie is where binary64 rounding can
legitimately take the other branch. -/
def minGap (f : Rat → Rat) (r r2 : Rat) : Nat → GState → Rat
  | 0, s => if s.yc < s.yd then s.yd - s.yc else s.yc - s.yd
  | k+1, s => min (if s.yc < s.yd then s.yd - s.yc else s.yc - s.yd) (minGap f r r2 k (gssStep f r r2 s))

def gssH : Handler := fun j => do
  let F ← objOf (← field j "obj")
  let cur ← listOf ratOf (← field j "cur")
  let coords ← listOf natOf (← field j "coords")
  let f : Rat → Rat := fun x => F (cur.mapIdx fun i v => if coords.contains i then x else v)
  let r ← ratOf (← field j "r")
  let r2 ← ratOf (← field j "r2")
  let a0 ← ratOf (← field j "a")
  let b0 ← ratOf (← field j "b")
  let tol ← ratOf (← field j "tol")
  let n ← natOf (← field j "n")
  let res := gss f r r2 a0 b0 tol n
  let a := min a0 b0
  let b := max a0 b0
  let s0 := gssInit f r r2 a b
  let sf := gssIter f r r2 (n - 1) s0
  pure <| jObj [("x", jRat res.1), ("fx", jRat res.2), ("ordered", jBool (allOrdered f r r2 (n - 1) s0)),
                ("fa", jRat sf.a), ("fb", jRat sf.b), ("degenerate", jBool (decide (b - a ≤ tol))),
                ("minGap", jRat (minGap f r r2 (n - 1) s0))]

def enumH : Handler := fun j => do
  let F ← objOf (← field j "obj")
  let grids ← listOf (listOf ratOf) (← field j "grids")
  pure <| match enumBest F grids with
    | none => jObj [("error", .str "empty")]
    | some (best, cost) => jObj [("best", jRats best), ("cost", jRat cost)]

def gridH : Handler := fun j => do
  pure <| jRats (grid (← optOf ratOf (fieldD j "lo" .null)) (← optOf ratOf (fieldD j "hi" .null))
    (← optOf ratOf (fieldD j "step" .null)) (← optOf natOf (fieldD j "num" .null)))

def groupH : Handler := fun j => do
  let groups ← listOf (listOf intOf) (← field j "groups")
  let nodes ← listOf intOf (← field j "nodes")
  pure <| jInts (nodes.map (optGroup groups))

def handlers : List (String × Handler) := [("gss", gssH), ("enum", enumH), ("grid", gridH), ("optgroup", groupH)]

end Driver.Meio
