import Driver.Proto
import StockpylModel.Model.RQ
open Lean Stockpyl Stockpyl.RQ

namespace Driver.RQ

def handlers : List (String × Handler) := [
  ("rqcost", fun j => do
    let G := tableFn (← intOf (← field j "lo")) (← listOf ratOf (← field j "G"))
    pure <| jRat (cost G (← ratOf (← field j "Klam")) (← intOf (← field j "r")) (← natOf (← field j "Q")))),
  ("fz", fun j => do
    let lo ← intOf (← field j "lo")
    let vals ← listOf ratOf (← field j "G")
    let G := tableFn lo vals
    let cdf ← listOf ratOf (← field j "cdf")
    let alpha ← ratOf (← field j "alpha")
    match firstReach alpha cdf 0 with
    | none => pure <| jObj [("error", .str "cdf table too short")]
    | some S =>
      pure <| match fz G (← ratOf (← field j "Klam")) (S : Int) 2000 with
        | none => jObj [("error", .str "fuel")]
        | some s => jObj [("S", jNat S), ("r", jInt s.r), ("Q", jNat s.Q), ("g", jRat s.g),
                          ("unimodal", jBool (tableUnimodalb lo vals (S : Int)))])
]

end Driver.RQ
