import Driver.Proto
import StockpylModel.Model.RQ
open Lean Stockpyl Stockpyl.RQ

namespace Driver.RQ

/-- `G` is given as a table of values for `y = lo, lo+1, …`; outside the table it is extended by a large value. -/
def tableFn (lo : Int) (vals : List Rat) : Int → Rat := fun y =>
  if y < lo then 1000000000 else vals.getD (y - lo).toNat 1000000000

def handlers : List (String × Handler) := [
  ("rqcost", fun j => do
    let G := tableFn (← intOf (← field j "lo")) (← listOf ratOf (← field j "G"))
    pure <| jRat (cost G (← ratOf (← field j "Klam")) (← intOf (← field j "r")) (← natOf (← field j "Q")))),
  ("fz", fun j => do
    let G := tableFn (← intOf (← field j "lo")) (← listOf ratOf (← field j "G"))
    let cdf ← listOf ratOf (← field j "cdf")
    let alpha ← ratOf (← field j "alpha")
    match firstReach alpha cdf 0 with
    | none => pure <| jObj [("error", .str "cdf table too short")]
    | some S =>
      pure <| match fz G (← ratOf (← field j "Klam")) (S : Int) 2000 with
        | none => jObj [("error", .str "fuel")]
        | some s => jObj [("S", jNat S), ("r", jInt s.r), ("Q", jNat s.Q), ("g", jRat s.g)])
]

end Driver.RQ
