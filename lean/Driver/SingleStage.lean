import Driver.Proto
import StockpylModel.Model.SingleStage
import StockpylModel.Model.SS
open Lean Stockpyl Stockpyl.SingleStage Stockpyl.Loss Stockpyl.Helpers

namespace Driver.SingleStage

def bsPath (S h p : Rat) : St → List Rat → List (Rat × Rat)
  | _, [] => []
  | st, d :: ds => let st' := step S st d; (st'.il, periodCost h p st') :: bsPath S h p st' ds

def ssPath (s S h p : Rat) : St → List Rat → List (Rat × Rat × Rat)
  | _, [] => []
  | st, d :: ds => let r := stepSS s S st d; (r.1.il, periodCost h p r.1, r.2) :: ssPath s S h p r.1 ds

def handlers : List (String × Handler) := [
  ("ss1path", fun j => do
    let S ← ratOf (← field j "S")
    let L ← natOf (← field j "L")
    let h ← ratOf (← field j "h")
    let p ← ratOf (← field j "p")
    let ds ← listOf ratOf (← field j "demands")
    let r := bsPath S h p (init S L) ds
    pure <| jObj [("il", jRats (r.map (·.1))), ("cost", jRats (r.map (·.2)))]),
  ("ss1sspath", fun j => do
    let s ← ratOf (← field j "s")
    let S ← ratOf (← field j "S")
    let L ← natOf (← field j "L")
    let il0 ← ratOf (← field j "il0")
    let h ← ratOf (← field j "h")
    let p ← ratOf (← field j "p")
    let ds ← listOf ratOf (← field j "demands")
    let r := ssPath s S h p { il := il0, pipe := List.replicate L 0 } ds
    pure <| jObj [("il", jRats (r.map (·.1))), ("cost", jRats (r.map (·.2.1))), ("order", jRats (r.map (·.2.2)))]),
  ("ss1expect", fun j => do
    let q ← listOf ratOf (← field j "pmf")
    let L ← natOf (← field j "L")
    let h ← ratOf (← field j "h")
    let p ← ratOf (← field j "p")
    let Ss ← listOf intOf (← field j "S")
    let pm := convMany (List.replicate L q)
    pure <| jObj [("cost", jRats (Ss.map (nvCost pm h p))), ("mass", jRat (lsum pm)), ("mean", jRat (mean pm))])
]

end Driver.SingleStage
