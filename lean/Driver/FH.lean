import Driver.Proto
import StockpylModel.Model.FiniteHorizon
open Lean Stockpyl Stockpyl.FH

namespace Driver.FH

def periodOf (j : Json) : Except String Period := do
  pure { K := ← ratOf (← field j "K"), c := ← ratOf (← field j "c"), gamma := ← ratOf (← field j "gamma"),
         prob := ← listOf ratOf (← field j "prob"), g := ← listOf ratOf (← field j "g") }

def jRows (n : Nat) (r : Rows) : Json :=
  jObj [("cost", jRats r.cost), ("oul", jNats r.oul), ("H", jRats r.H), ("s", jNat (reorderPos r.oul n n 0)), ("S", jNat (r.oul.getD 0 0))]

def handlers : List (String × Handler) := [
  ("fhdp", fun j => do
    let n ← natOf (← field j "n")
    let dmin ← intOf (← field j "dmin")
    let ps ← listOf periodOf (← field j "periods")
    let terminal ← listOf ratOf (← field j "terminal")
    let rows := match fieldD j "oul" .null with
      | .null => Except.ok (solve n dmin ps terminal)
      | o => do pure (solveEval n dmin ps (← listOf (listOf natOf) o) terminal)
    let rows ← rows
    let periodsOK := ps.all fun p => p.prob.all (fun q => decide (0 ≤ q)) && decide (0 ≤ p.gamma)
    pure <| jObj [("rows", jList (jRows n) rows), ("hitsTop", jBool (hitsTop n rows)), ("periodsOK", jBool periodsOK)])
]

end Driver.FH
