import Driver.Proto
import StockpylModel.Model.Registry
open Lean Stockpyl Stockpyl.Registry

namespace Driver.Registry

def opOf (j : Json) : Except String Op := do
  match (← j.getArr?).toList with
  | [t, p, n] => do
    let p ← natOf p
    let n ← natOf n
    match (← t.getStr?) with
    | "node_add" => pure (.nodeAdd n p)
    | "net_add" => pure (.netAdd p)
    | "node_remove" => pure (.nodeRemove n p)
    | "net_remove" => pure (.netRemove p)
    | "remove_node" => pure (.removeNode n)
    | s => throw s!"bad registry op {s}"
  | _ => throw "bad registry op"

def states (r : Reg) : List Op → List Reg
  | [] => []
  | op :: ops => let r' := step r op; r' :: states r' ops

def handlers : List (String × Handler) := [
  -- products of the network after every operation (sorted)
  ("registry", fun j => do
    let ns ← listOf natOf (← field j "nodes")
    let ops ← listOf opOf (← field j "ops")
    let r0 : Reg := { nodes := ns.map fun n => (n, []) }
    pure <| jList (fun r => jNats ((products r).mergeSort (· ≤ ·))) (states r0 ops))
]

end Driver.Registry
