import Driver.Proto
import StockpylModel.Model.SSM
open Lean Stockpyl Stockpyl.SSM

namespace Driver.SSM

def stageOf (j : Json) : Except String StageIn := do
  pure { h := ← ratOf (← field j "h"), L := ← natOf (← field j "L"), ds := ← listOf intOf (← field j "d"), fd := ← listOf ratOf (← field j "fd") }

def handlers : List (String × Handler) := [
  ("ssm", fun j => do
    let P : Params := { p := ← ratOf (← field j "p"), mu := ← ratOf (← field j "mu"), xlo := ← intOf (← field j "xlo"),
                        n := ← natOf (← field j "n"), stages := ← listOf stageOf (← field j "stages") }
    let fixed ← listOf (optOf intOf) (fieldD j "fixed" (.arr #[]))
    let r := solve P fixed
    pure <| jObj [("S", jInts r.S), ("cost", jRat r.cost)])
]

end Driver.SSM
