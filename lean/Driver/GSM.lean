import Driver.Proto
import StockpylModel.Model.GSM
open Lean Stockpyl Stockpyl.GSM

namespace Driver.GSM

def stageOf (j : Json) : Except String Stage := do
  pure { T := ← natOf (← field j "T"), c := ← listOf ratOf (← field j "c") }

def tnodeOf (j : Json) : Except String TNode := do
  pure { T := ← natOf (← field j "T"), c := ← listOf ratOf (← field j "c"), preds := ← listOf natOf (← field j "preds"),
         extIn := ← natOf (fieldD j "extIn" (.num 0)), extOut := ← optOf natOf (fieldD j "extOut" .null) }

def handlers : List (String × Handler) := [
  ("gsmserial", fun j => do
    let stages ← listOf stageOf (← field j "stages")
    let sOut ← natOf (← field j "sOut")
    let SI ← natOf (← field j "SI")
    pure <| jObj [("cst", jNats (solution sOut stages SI)), ("cost", jRat (theta sOut stages SI))]),
  ("gsmtree", fun j => do
    let nodes ← listOf tnodeOf (← field j "nodes")
    let cst ← listOf natOf (← field j "cst")
    pure <| jObj [("feasible", jBool (treeFeasible nodes cst)), ("cost", jRat (treeCost nodes cst)),
                  ("nlt", jInts ((List.range nodes.length).map (netLeadTime nodes cst)))]),
  ("gsmbrute", fun j => do
    let nodes ← listOf tnodeOf (← field j "nodes")
    let bounds ← listOf natOf (← field j "bounds")
    pure <| match bruteForce nodes bounds with
      | none => jObj [("error", .str "no feasible assignment")]
      | some (v, _) => jObj [("cost", jRat v)])
]

end Driver.GSM
