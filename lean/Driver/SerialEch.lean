import Driver.Proto
import StockpylModel.Model.SerialEchelon
open Lean Stockpyl Stockpyl.SerialEch

namespace Driver.SerialEch

def suffixLevels : List Stage → List Rat
  | [] => []
  | s :: rest => echLevel (s :: rest) :: suffixLevels rest

def handlers : List (String × Handler) := [
  -- serial system, upstream first: stages = [[local level, shipment lead time], ...]; mode = "local" | "echelon"
  ("serial_ech", fun j => do
    let cfg ← listOf (fun x => do
      match (← x.getArr?).toList with
      | [a, b] => pure (← ratOf a, ← natOf b)
      | _ => throw "bad stage") (← field j "stages")
    let ds ← listOf ratOf (← field j "demands")
    let mode := if (← (← field j "mode").getStr?) == "echelon" then Mode.echelonBS else Mode.localBS
    let l := cfg.map fun c => initStage c.1 c.2
    let tr := run mode ds l
    -- hypotheses of `echelon_equals_local_from_start`, evaluated on this very instance
    let hyp := cfg.all (fun c => decide (0 ≤ c.1)) && ds.all (fun d => decide (0 ≤ d))
    pure <| jObj [("orders", jList jRats (tr.map (·.1))), ("il", jList jRats (tr.map fun r => r.2.map (·.il))),
                  ("pipes", jList (jList jRats) (tr.map fun r => r.2.map (·.pipe))),
                  ("echelonLevels", jRats (suffixLevels l)), ("hypOK", jBool hyp),
                  ("sameAsOther", jBool (decide (tr = run (if mode == Mode.echelonBS then Mode.localBS else Mode.echelonBS) ds l)))])
]

end Driver.SerialEch
