import StockpylModel.Model.Helpers
import StockpylModel.Lemmas.Basic
import StockpylModel.Props.C11
/-!
# C20 — numerical and container helpers do exactly what they document
-/
namespace Stockpyl.Helpers
open Stockpyl

/-! ### dict_match -/

/-- Dictionary matching is symmetric in its arguments. -/
theorem dict_match_symm (d1 d2 : Dict) (req : Bool) (rel abs : Rat) :
    dictMatch d1 d2 req rel abs = dictMatch d2 d1 req rel abs := by
  simp [dictMatch, Bool.and_comm]

/-- … and it is exactly the documented predicate: every key of either dict matches within tolerance in the
other, a missing key counting as 0 unless presence is required. -/
theorem dict_match_spec (d1 d2 : Dict) (req : Bool) (rel abs : Rat) :
    dictMatch d1 d2 req rel abs = true ↔
      (∀ kv ∈ d1, match d2.get? kv.1 with
        | some w => isclose kv.2 w rel abs = true
        | none => isclose kv.2 0 rel abs = true ∧ req = false) ∧
      (∀ kv ∈ d2, match d1.get? kv.1 with
        | some w => isclose kv.2 w rel abs = true
        | none => isclose kv.2 0 rel abs = true ∧ req = false) := by
  simp only [dictMatch, halfMatch, Bool.and_eq_true, List.all_eq_true]
  constructor
  · rintro ⟨h1, h2⟩
    refine ⟨fun kv hkv => ?_, fun kv hkv => ?_⟩
    · have := h1 kv hkv
      cases hg : Dict.get? d2 kv.1 with
      | none => simp only [hg] at this ⊢; simpa using this
      | some w => simp only [hg] at this ⊢; exact this
    · have := h2 kv hkv
      cases hg : Dict.get? d1 kv.1 with
      | none => simp only [hg] at this ⊢; simpa using this
      | some w => simp only [hg] at this ⊢; exact this
  · rintro ⟨h1, h2⟩
    refine ⟨fun kv hkv => ?_, fun kv hkv => ?_⟩
    · have := h1 kv hkv
      cases hg : Dict.get? d2 kv.1 with
      | none => simp only [hg] at this ⊢; simpa using this
      | some w => simp only [hg] at this ⊢; exact this
    · have := h2 kv hkv
      cases hg : Dict.get? d1 kv.1 with
      | none => simp only [hg] at this ⊢; simpa using this
      | some w => simp only [hg] at this ⊢; exact this

theorem isclose_symm (a b rel abs : Rat) : isclose a b rel abs = isclose b a rel abs := by
  have h1 : rabs (a - b) = rabs (b - a) := by simp only [rabs]; split <;> split <;> grind
  have h2 : max (rabs a) (rabs b) = max (rabs b) (rabs a) := by grind
  simp only [isclose, h1, h2]

/-! ### find_nearest, unsorted mode -/

/-- The index returned is in range, points at an element of minimal distance, and is the first such. -/
theorem nearest_unsorted_spec (a : List Rat) (v : Rat) (i : Nat) (h : nearestUnsorted a v = some i) :
    ∃ y, a[i]? = some y ∧ (∀ x ∈ a, rabs (y - v) ≤ rabs (x - v)) ∧
      (∀ k x, k < i → a[k]? = some x → rabs (y - v) < rabs (x - v)) := by
  simp only [nearestUnsorted, Option.map_eq_some_iff] at h
  obtain ⟨⟨d, j⟩, hfm, rfl⟩ := h
  obtain ⟨hle, _⟩ := firstMin_spec hfm
  obtain ⟨hidx, hfirst⟩ := firstMin_index hfm
  simp only [List.getElem?_map, Option.map_eq_some_iff] at hidx
  obtain ⟨y, hy, rfl⟩ := hidx
  refine ⟨y, hy, ?_, ?_⟩
  · intro x hx
    exact hle _ (List.mem_map.mpr ⟨x, hx, rfl⟩)
  · intro k x hk hx
    exact hfirst k hk _ (by simp [List.getElem?_map, hx])

theorem nearest_unsorted_total (a : List Rat) (v : Rat) (h : a ≠ []) : ∃ i, nearestUnsorted a v = some i := by
  obtain ⟨d, j, hfm⟩ := firstMin_isSome (l := a.map fun x => rabs (x - v)) (by simpa using h)
  exact ⟨j, by simp [nearestUnsorted, hfm]⟩

/-! ### find_nearest, sorted mode -/

theorem getD_append_mid (L0 R : List Rat) (l : Rat) : (L0 ++ l :: R).getD L0.length 0 = l := by
  simp [List.getD_eq_getElem?_getD]

theorem getD_append_mid_succ (L0 R' : List Rat) (l r : Rat) : (L0 ++ l :: r :: R').getD (L0.length + 1) 0 = r := by
  have : L0 ++ l :: r :: R' = (L0 ++ [l]) ++ r :: R' := by simp
  rw [this]
  have h2 : L0.length + 1 = (L0 ++ [l]).length := by simp
  rw [h2]
  exact getD_append_mid _ _ _

theorem rabs_sub_of_le {a b : Rat} (h : a ≤ b) : rabs (b - a) = b - a := by
  simp only [rabs]; split <;> grind

theorem rabs_sub_of_ge {a b : Rat} (h : b ≤ a) : rabs (b - a) = a - b := by
  simp only [rabs]; split <;> grind

/-- On a sorted (non-decreasing), non-empty array the index returned is in range and points at an element
of minimal distance to `v` — whatever `v` is (below, inside, above the range; ties included). -/
theorem nearest_sorted_spec (a : List Rat) (v : Rat) (hs : a.Pairwise (· ≤ ·)) (hne : a ≠ []) :
    nearestSorted a v < a.length ∧
    ∀ x ∈ a, rabs (v - a.getD (nearestSorted a v) 0) ≤ rabs (v - x) := by
  have hsplit : a = a.takeWhile (· < v) ++ a.dropWhile (· < v) := (List.takeWhile_append_dropWhile).symm
  have hL : ∀ x ∈ a.takeWhile (· < v), x < v := by
    intro x hx
    have := List.all_eq_true.mp (List.all_takeWhile (l := a) (p := fun x => decide (x < v))) x hx
    simpa using this
  have hR : ∀ r R', a.dropWhile (· < v) = r :: R' → v ≤ r := by
    intro r R' h
    have := List.head?_dropWhile_not (fun x : Rat => decide (x < v)) a
    rw [h] at this
    simp only [List.head?_cons] at this
    have : ¬ r < v := by simpa using this
    exact Rat.not_lt.mp this
  generalize hLdef : a.takeWhile (· < v) = L at hsplit hL
  generalize hRdef : a.dropWhile (· < v) = R at hsplit hR
  have hidx : searchLeft a v = L.length := by simp [searchLeft, hLdef]
  subst hsplit
  have hpw := List.pairwise_append.mp hs
  obtain ⟨hpL, hpR, hLR⟩ := hpw
  simp only [nearestSorted, hidx]
  rcases List.eq_nil_or_concat L with hLnil | ⟨L0, l, hcc⟩
  · -- nothing below v: the first element is nearest
    subst hLnil
    cases R with
    | nil => simp at hne
    | cons r R' =>
      have hvr := hR r R' rfl
      simp only [List.length_nil, Nat.lt_irrefl, false_and, ↓reduceIte, List.nil_append,
        List.length_cons, Nat.zero_lt_succ, true_and]
      intro x hx
      have hrx : r ≤ x := by
        rcases List.mem_cons.mp hx with rfl | hx
        · exact Rat.le_refl
        · exact (List.pairwise_cons.mp hpR).1 x hx
      simp only [List.getD_cons_zero]
      rw [rabs_sub_of_ge hvr, rabs_sub_of_ge (Rat.le_trans hvr hrx)]
      grind
  · rw [List.concat_eq_append] at hcc
    subst hcc
    have hlv : l < v := hL l (by simp)
    have hL0l : ∀ x ∈ L0, x ≤ l := by
      intro x hx
      have := List.pairwise_append.mp hpL
      exact this.2.2 x hx l (by simp)
    cases R with
    | nil =>
      -- everything is below v: the last element is nearest
      simp only [List.append_nil, List.length_append, List.length_cons, List.length_nil]
      have e1 : L0.length + (0 + 1) = L0.length + 1 := by omega
      simp only [e1, Nat.zero_lt_succ, true_or, and_self, ↓reduceIte, Nat.add_sub_cancel]
      refine ⟨by omega, ?_⟩
      intro x hx
      have := getD_append_mid L0 [] l
      rw [this]
      have hxl : x ≤ l := by
        rcases List.mem_append.mp hx with hx | hx
        · exact hL0l x hx
        · simp at hx; subst hx; exact Rat.le_refl
      rw [rabs_sub_of_le (Rat.le_of_lt hlv), rabs_sub_of_le (Rat.le_trans hxl (Rat.le_of_lt hlv))]
      grind
    | cons r R' =>
      have hvr := hR r R' rfl
      have hRr : ∀ x ∈ r :: R', r ≤ x := by
        intro x hx
        rcases List.mem_cons.mp hx with rfl | hx
        · exact Rat.le_refl
        · exact (List.pairwise_cons.mp hpR).1 x hx
      have g1 : ((L0 ++ [l]) ++ r :: R').getD L0.length 0 = l := by
        have := getD_append_mid L0 (r :: R') l
        simpa using this
      have g2 : ((L0 ++ [l]) ++ r :: R').getD (L0.length + 1) 0 = r := by
        have := getD_append_mid_succ L0 R' l r
        simpa using this
      have hlen : (L0 ++ [l]).length = L0.length + 1 := by simp
      have hne2 : ¬ (L0.length + 1 = ((L0 ++ [l]) ++ r :: R').length) := by simp
      simp only [hlen, Nat.zero_lt_succ, true_and, hne2, false_or, Nat.add_sub_cancel, g1, g2]
      have memcases : ∀ x ∈ (L0 ++ [l]) ++ r :: R', x ≤ l ∨ r ≤ x := by
        intro x hx
        rcases List.mem_append.mp hx with hx | hx
        · left
          rcases List.mem_append.mp hx with hx | hx
          · exact hL0l x hx
          · simp at hx; subst hx; exact Rat.le_refl
        · right; exact hRr x hx
      split
      · rename_i hlt
        refine ⟨by simp, ?_⟩
        intro x hx
        rw [g1]
        rw [rabs_sub_of_le (Rat.le_of_lt hlv), rabs_sub_of_ge hvr] at hlt
        rcases memcases x hx with h | h
        · rw [rabs_sub_of_le (Rat.le_of_lt hlv), rabs_sub_of_le (Rat.le_trans h (Rat.le_of_lt hlv))]; grind
        · rw [rabs_sub_of_le (Rat.le_of_lt hlv), rabs_sub_of_ge (Rat.le_trans hvr h)]; grind
      · rename_i hnlt
        refine ⟨by simp, ?_⟩
        intro x hx
        rw [g2]
        rw [rabs_sub_of_le (Rat.le_of_lt hlv), rabs_sub_of_ge hvr] at hnlt
        rcases memcases x hx with h | h
        · rw [rabs_sub_of_ge hvr, rabs_sub_of_le (Rat.le_trans h (Rat.le_of_lt hlv))]; grind
        · rw [rabs_sub_of_ge hvr, rabs_sub_of_ge (Rat.le_trans hvr h)]; grind

/-! ### convolution -/

theorem lsum_addLists (a b : List Rat) : lsum (addLists a b) = lsum a + lsum b := by
  induction a generalizing b with
  | nil => simp only [addLists, lsum]; grind
  | cons x xs ih =>
    cases b with
    | nil => simp only [addLists, lsum]; grind
    | cons y ys => simp only [addLists, lsum, ih]; grind

theorem lsum_map_mul (a : List Rat) (b : Rat) : lsum (a.map (· * b)) = lsum a * b := by
  induction a with
  | nil => simp [lsum]
  | cons x xs ih => simp only [List.map_cons, lsum, ih]; grind

/-- Total mass of a convolution is the product of the masses … -/
theorem lsum_conv (a b : List Rat) : lsum (conv a b) = lsum a * lsum b := by
  induction b with
  | nil => simp [conv, lsum]
  | cons y ys ih => simp only [conv, lsum_addLists, lsum_map_mul, lsum, ih]; grind

/-- … so convolving pmfs (each summing to one) gives a pmf summing to one. -/
theorem convMany_sum_one (l : List (List Rat)) (h : ∀ a ∈ l, lsum a = 1) : lsum (convMany l) = 1 := by
  induction l with
  | nil => simp only [convMany, lsum]; grind
  | cons a rest ih =>
    simp only [convMany, lsum_conv, h a (by simp), ih (fun b hb => h b (by simp [hb]))]; grind

def allNN (l : List Rat) : Prop := ∀ x ∈ l, 0 ≤ x

theorem addLists_nn (a b : List Rat) (ha : allNN a) (hb : allNN b) : allNN (addLists a b) := by
  induction a generalizing b with
  | nil => simpa [addLists] using hb
  | cons x xs ih =>
    cases b with
    | nil => simpa [addLists] using ha
    | cons y ys =>
      intro z hz
      simp only [addLists, List.mem_cons] at hz
      rcases hz with rfl | hz
      · have := ha x (by simp); have := hb y (by simp); grind
      · exact ih ys (fun w hw => ha w (by simp [hw])) (fun w hw => hb w (by simp [hw])) z hz

/-- Convolution of non-negative arrays is non-negative. -/
theorem conv_nn (a b : List Rat) (ha : allNN a) (hb : allNN b) : allNN (conv a b) := by
  induction b with
  | nil => intro x hx; simp [conv] at hx
  | cons y ys ih =>
    simp only [conv]
    apply addLists_nn
    · intro z hz
      obtain ⟨x, hx, rfl⟩ := List.mem_map.mp hz
      exact Rat.mul_nonneg (ha x hx) (hb y (by simp))
    · intro z hz
      rcases List.mem_cons.mp hz with rfl | hz
      · exact Rat.le_refl
      · exact ih (fun w hw => hb w (by simp [hw])) z hz

theorem convMany_nn (l : List (List Rat)) (h : ∀ a ∈ l, allNN a) : allNN (convMany l) := by
  induction l with
  | nil => intro x hx; simp [convMany] at hx; subst hx; decide
  | cons a rest ih =>
    simp only [convMany]
    exact conv_nn _ _ (h a (by simp)) (ih (fun b hb => h b (by simp [hb])))

theorem addLists_length (a b : List Rat) : (addLists a b).length = max a.length b.length := by
  induction a generalizing b with
  | nil => simp [addLists]
  | cons x xs ih =>
    cases b with
    | nil => simp [addLists]
    | cons y ys => simp [addLists, ih]

/-- Length of a convolution: `len a + len b − 1` (for non-empty arrays). -/
theorem conv_length (a b : List Rat) (ha : a ≠ []) (hb : b ≠ []) :
    (conv a b).length = a.length + b.length - 1 := by
  have hal : 0 < a.length := List.length_pos_iff.mpr ha
  induction b with
  | nil => exact absurd rfl hb
  | cons y ys ih =>
    simp only [conv, addLists_length, List.length_map, List.length_cons]
    cases ys with
    | nil => simp [conv]; omega
    | cons z zs =>
      rw [ih (by simp)]
      simp only [List.length_cons]; omega

/-- The sum-of-discrete-uniforms pmf is a probability vector. -/
theorem sumDiscreteUniforms_is_pmf (n : Nat) (lo hi : Int) (h : lo ≤ hi) :
    lsum (sumDiscreteUniforms n lo hi) = 1 ∧ allNN (sumDiscreteUniforms n lo hi) := by
  have hk : 0 < (hi - lo + 1).toNat := by omega
  generalize hkk : (hi - lo + 1).toNat = k at hk
  have hsum : lsum (List.replicate k (1 / (k : Rat))) = 1 := by
    have : ∀ m : Nat, lsum (List.replicate m (1 / (k : Rat))) = (m : Rat) / (k : Rat) := by
      intro m
      induction m with
      | zero => simp only [List.replicate_zero, lsum, Rat.div_def]; push_cast; grind
      | succ m ih =>
        simp only [List.replicate_succ, lsum, ih]
        rw [Rat.div_def, Rat.div_def, Rat.div_def]
        push_cast
        grind
    rw [this k]
    rw [Rat.div_def]
    exact Rat.mul_inv_cancel _ (by
      intro h0
      have : (k : Rat) = ((0 : Nat) : Rat) := by simpa using h0
      have := Rat.natCast_inj.mp this
      omega)
  have hnn : allNN (List.replicate k (1 / (k : Rat))) := by
    intro x hx
    rw [(List.mem_replicate.mp hx).2, Rat.div_def]
    apply Rat.mul_nonneg (by decide)
    apply Rat.le_of_lt
    apply Rat.inv_pos.mpr
    have : ((0 : Nat) : Rat) < (k : Rat) := Rat.natCast_lt_natCast.mpr hk
    simpa using this
  constructor
  · simp only [sumDiscreteUniforms, hkk]
    apply convMany_sum_one
    intro a ha
    rw [(List.mem_replicate.mp ha).2]; exact hsum
  · simp only [sumDiscreteUniforms, hkk]
    apply convMany_nn
    intro a ha
    rw [(List.mem_replicate.mp ha).2]; exact hnn

/-! ### containers -/

/-- `compare_unhashable_lists` decides equality up to order (multiset equality). -/
theorem compareLists_iff_perm (l1 l2 : List Int) : compareLists l1 l2 = true ↔ l1.Perm l2 := by
  simp only [compareLists, Bool.and_eq_true, beq_iff_eq, List.isPerm_iff]
  constructor
  · rintro ⟨_, h⟩; exact h.symm
  · intro h; exact ⟨h.length_eq, h.symm⟩

theorem ensure_list_cases (v : Rat) (xs : List Rat) (n : Nat) (d : Option Rat) :
    ensureListForNodes .none n d = some (List.replicate n d) ∧
    ensureListForNodes (.scalar v) n d = some (List.replicate n (some v)) ∧
    (xs.length = n → ensureListForNodes (.list xs) n d = some (xs.map some)) ∧
    (xs.length ≠ n → ensureListForNodes (.list xs) n d = none) := by
  simp [ensureListForNodes]

/-- Time-period lists: the result always has T+1 entries (when defined), entry t ≥ 1 of the result is the value meant for
period t in every accepted argument shape, a list of the wrong length is rejected, and normalising is idempotent. -/
theorem ensure_time_cases (v : Rat) (xs : List Rat) (T : Nat) :
    ensureListForTimePeriods (.scalar v) T = some (some 0 :: List.replicate T (some v)) ∧
    (xs.length = T + 1 → ensureListForTimePeriods (.list xs) T = some (xs.map some)) ∧
    (xs.length = T → ensureListForTimePeriods (.list xs) T = some (some 0 :: xs.map some)) ∧
    (xs.length ≠ T → xs.length ≠ T + 1 → ensureListForTimePeriods (.list xs) T = none) := by
  refine ⟨rfl, ?_, ?_, ?_⟩
  · intro h; simp [ensureListForTimePeriods, h]
  · intro h; simp [ensureListForTimePeriods, h]
  · intro h1 h2; simp [ensureListForTimePeriods, h1, h2]

theorem ensure_time_length (x : Arg) (T : Nat) (l : List (Option Rat)) (h : ensureListForTimePeriods x T = some l) :
    l.length = T + 1 := by
  cases x with
  | none => simp [ensureListForTimePeriods] at h; subst h; simp
  | scalar v => simp [ensureListForTimePeriods] at h; subst h; simp
  | list xs =>
    simp only [ensureListForTimePeriods] at h
    split at h
    · rename_i h1; simp at h; subst h; simpa using h1
    · split at h
      · rename_i _ h2; simp at h; subst h; simpa using h2
      · simp at h

/-- The length-T form and the length-T+1 form of the same per-period values give the same periods 1..T. -/
theorem ensure_time_forms_agree (xs : List Rat) (T : Nat) (x0 : Rat) (h : xs.length = T) :
    (ensureListForTimePeriods (.list xs) T).map List.tail = (ensureListForTimePeriods (.list (x0 :: xs)) T).map List.tail := by
  have h1 : (x0 :: xs).length = T + 1 := by simp [h]
  rw [(ensure_time_cases 0 xs T).2.2.1 h, (ensure_time_cases 0 (x0 :: xs) T).2.1 h1]
  simp

theorem ensure_dict_cases (v : Rat) (xs : List Rat) (idx : List Int) (d : Option Rat) :
    ensureDictForNodes .none idx d = some (idx.map fun i => (i, d)) ∧
    ensureDictForNodes (.scalar v) idx d = some (idx.map fun i => (i, some v)) ∧
    (xs.length = idx.length → ensureDictForNodes (.list xs) idx d = some (idx.zip (xs.map some))) ∧
    (xs.length ≠ idx.length → ensureDictForNodes (.list xs) idx d = none) := by
  simp [ensureDictForNodes]

theorem insertSorted_perm (kv : Int × Rat) (l : List (Int × Rat)) : (insertSorted kv l).Perm (kv :: l) := by
  induction l with
  | nil => simp [insertSorted]
  | cons x xs ih =>
    simp only [insertSorted]
    split
    · exact List.Perm.refl _
    · exact (List.Perm.cons x ih).trans (List.Perm.swap kv x xs)

theorem insertSorted_sorted (kv : Int × Rat) (l : List (Int × Rat))
    (h : l.Pairwise (fun a b => a.1 ≤ b.1)) : (insertSorted kv l).Pairwise (fun a b => a.1 ≤ b.1) := by
  induction l with
  | nil => simp [insertSorted]
  | cons x xs ih =>
    simp only [insertSorted]
    split
    · rename_i hle
      refine List.Pairwise.cons ?_ h
      intro y hy
      rcases List.mem_cons.mp hy with rfl | hy
      · exact hle
      · exact Int.le_trans hle ((List.pairwise_cons.mp h).1 y hy)
    · rename_i hnle
      have hx := List.pairwise_cons.mp h
      refine List.Pairwise.cons ?_ (ih hx.2)
      intro y hy
      have := (insertSorted_perm kv xs).mem_iff.mp hy
      rcases List.mem_cons.mp this with rfl | hy'
      · omega
      · exact hx.1 y hy'

/-- `sort_dict_by_keys`: the values come out in ascending key order and nothing is added or lost. -/
theorem sortByKey_spec (d : List (Int × Rat)) :
    (sortByKey d).Pairwise (fun a b => a.1 ≤ b.1) ∧ (sortByKey d).Perm d := by
  induction d with
  | nil => simp [sortByKey]
  | cons x xs ih =>
    simp only [sortByKey, List.foldr_cons]
    exact ⟨insertSorted_sorted _ _ ih.1, (insertSorted_perm _ _).trans (List.Perm.cons x ih.2)⟩

example : dictMatch [(1, 5)] [] false (1/1000000000) 0 = false ∧ dictMatch [] [(1, 5)] false (1/1000000000) 0 = false ∧
    convMany [[6/10, 3/10, 1/10], [1/2, 4/10, 1/10], [3/10, 7/10], [1]] = [9/100, 327/1000, 342/1000, 182/1000, 52/1000, 7/1000] ∧
    nearestSorted [1, 3, 7] 4 = 1 ∧ roundHalfEven (5/2) = 2 ∧ roundHalfEven (7/2) = 4 := by decide +kernel

end Stockpyl.Helpers
