import StockpylModel.Props.NetArrive
/-!
# Network level, C04: the order every node places in every period is what its policy prescribes

`order_follows_policy_step`: in any well-formed network, for every node with a local (non-echelon) policy, the
finished-goods order quantity reported at the end of a period equals
`capped(policy(IL_start + min over suppliers (RM + on-order + held at the door)_start − Σ inbound orders of the period))`,
or 0 under an order-pausing disruption — whatever the other nodes do, in whatever order they are visited.
-/
namespace Stockpyl.Sim
open Stockpyl

/-! ### what the order phase does to node records and to the fields the inventory position reads -/

theorem orderOp_node_other (net : Net) (m n : Nat) (s : State) (h : m ≠ n) :
    (orderOp net m s).node n = s.node n := by
  have r1 : (receiveOrders net m s).node n = s.node n := by
    simp only [receiveOrders]; rw [node_modNode_ne _ m n _ h]; simp
  simp only [orderOp, placeOrders]
  split
  · exact r1
  · rw [node_modNode_ne _ m n _ h]; simp only [node_modEdges]; exact r1

/-- Fields of an edge record read by the customer's inventory position. -/
def ipFields (ed : EdgeSt) : Rat × Rat × Rat := (ed.rm, ed.oo, ed.idi)

theorem field_modEdges {α : Type} (g : EdgeSt → α) (st : State) (es : List Nat) (f : Nat → EdgeSt → EdgeSt)
    (hf : ∀ x ed, g (f x ed) = g ed) (hd : True) (e : Nat) : g ((st.modEdges es f).edge e) = g (st.edge e) := by
  induction es generalizing st with
  | nil => rfl
  | cons x xs ih =>
    simp only [State.modEdges, List.foldl_cons] at ih ⊢
    rw [ih]
    by_cases hx : x = e
    · subst hx
      by_cases hl : x < st.edges.length
      · rw [edge_modEdge_self st x _ hl]; exact hf _ _
      · rw [edge_out_of_range _ x (by simpa using Nat.le_of_not_lt hl),
            edge_out_of_range st x (Nat.le_of_not_lt hl)]
    · rw [edge_modEdge_ne st x e _ hx]

/-- The supplier reading its orders leaves the customer-side fields alone; only the customer's own order changes
`on-order`. -/
theorem orderOp_ipFields (net : Net) (hwf : NetWF net) (m : Nat) (s : State) (hlen : s.edges.length = net.edges.length)
    (e : Nat) (he : e ∉ (net.cfg m).inE) : ipFields ((orderOp net m s).edge e) = ipFields (s.edge e) := by
  obtain ⟨h1, h2, h3, _⟩ := orderOp_spec net hwf m s hlen
  by_cases hl : e < s.edges.length
  · by_cases ho : e ∈ (net.cfg m).outE
    · rw [h3 e ho]; rfl
    · rw [h2 e hl he ho]
  · rw [edge_out_of_range _ e (by rw [h1]; exact Nat.le_of_not_lt hl), edge_out_of_range s e (Nat.le_of_not_lt hl)]

theorem orderOp_io_other (net : Net) (hwf : NetWF net) (m : Nat) (s : State) (hlen : s.edges.length = net.edges.length)
    (e : Nat) (he : e ∉ (net.cfg m).outE) : ((orderOp net m s).edge e).io = (s.edge e).io := by
  obtain ⟨h1, h2, _, h4⟩ := orderOp_spec net hwf m s hlen
  by_cases hl : e < s.edges.length
  · by_cases hi : e ∈ (net.cfg m).inE
    · obtain ⟨q, _, hh⟩ := h4 e hi
      rw [hh]; simp only [placeOrderEdge]; split <;> rfl
    · rw [h2 e hl hi he]
  · rw [edge_out_of_range _ e (by rw [h1]; exact Nat.le_of_not_lt hl), edge_out_of_range s e (Nat.le_of_not_lt hl)]

/-- The node's own visit in the order phase. -/
theorem orderOp_self (net : Net) (hwf : NetWF net) (n : Nat) (s : State) (hn : n < s.nodes.length)
    (hlen : s.edges.length = net.edges.length) :
    ((orderOp net n s).node n).il = (s.node n).il ∧
    ((orderOp net n s).node n).disrupted = (s.node n).disrupted ∧
    ((orderOp net n s).node n).oqfg = (s.node n).oqfg +
      (if isDisr net s n .OP then 0 else orderQty net (receiveOrders net n s) n) := by
  have hn' : n < (receiveOrders net n s).nodes.length := by simpa [receiveOrders] using hn
  have r1 : (receiveOrders net n s).node n =
      { s.node n with dcum := (s.node n).dcum + lsum ((net.cfg n).outE.map fun e => (s.edge e).iopl.headD 0) } := by
    simp only [receiveOrders]
    rw [node_modNode_self _ n _ (by simpa using hn)]
    simp
  have hdis : isDisr net (receiveOrders net n s) n .OP = isDisr net s n .OP := by
    simp only [isDisr, r1]
  by_cases hd : isDisr net s n .OP = true
  · have e1 : orderOp net n s = receiveOrders net n s := by
      simp only [orderOp, placeOrders, hdis, hd, if_true]
    rw [e1, r1]
    simp only [hd, if_true]
    exact ⟨trivial, trivial, by grind⟩
  · have e1 : orderOp net n s =
        ((receiveOrders net n s).modEdges (net.cfg n).inE fun e =>
          placeOrderEdge (net.cfg n).olt (net.cfg n).slt ((net.edge e).src.isNone) (orderQty net (receiveOrders net n s) n)).modNode n
          fun x => { x with oqfg := x.oqfg + orderQty net (receiveOrders net n s) n,
                            pfg := x.pfg + orderQty net (receiveOrders net n s) n } := by
      simp only [orderOp, placeOrders, hdis, hd]
      rfl
    rw [e1, node_modNode_self _ n _ (by simpa using hn')]
    simp only [node_modEdges, r1, hd]
    exact ⟨trivial, trivial, by simp⟩

/-! ### the shipment phase and the exogenous inputs leave order quantities alone -/

theorem nodeShip_self_keeps (net : Net) (m : Nat) (s : State) :
    ((nodeShip net m s).node m).oqfg = (s.node m).oqfg ∧ ((nodeShip net m s).node m).disrupted = (s.node m).disrupted := by
  by_cases hm : m < s.nodes.length
  · have hmX : m < (loopOf net m s).1.nodes.length := by
      simp only [loopOf]; rw [shipLoop_nodes]; simpa [preShip, rmToFg, receiveShipments] using hm
    rw [nodeShip_eq]
    simp only [propagate, node_modEdges, fillRate, afterLoop]
    rw [node_modNode_self _ m _ (by simpa using hmX), node_modNode_self _ m _ hmX]
    have hnode : (loopOf net m s).1.node m = (preShip net m s).node m := by
      simp only [State.node, loopOf, shipLoop_nodes]
    simp only [hnode, preShip, rmToFg]
    rw [node_modNode_self _ m _ (by simpa [receiveShipments] using hm)]
    simp [receiveShipments]
  · have hm' : s.nodes.length ≤ m := Nat.le_of_not_lt hm
    rw [node_out_of_range _ m (by rw [nodeShip_nodes_len]; exact hm'), node_out_of_range s m hm']
    exact ⟨rfl, rfl⟩

theorem setExo_node (net : Net) (exo : List Exo) (st : State) (hx : exo.length = st.nodes.length) (n : Nat)
    (hn : n < st.nodes.length) :
    ((setExo net exo st).node n).il = (st.node n).il ∧ ((setExo net exo st).node n).oqfg = (st.node n).oqfg := by
  simp only [setExo]
  generalize hs1 : ({ st with nodes := (st.nodes.zip exo).map fun (s, x) => { s with disrupted := x.disrupted } } : State) = st1
  have a1 : (st1.node n).il = (st.node n).il ∧ (st1.node n).oqfg = (st.node n).oqfg := by
    rw [← hs1]
    simp only [State.node, List.getD_eq_getElem?_getD, List.getElem?_map]
    have hz : (st.nodes.zip exo)[n]? = some (st.nodes[n], exo[n]'(by rw [hx]; exact hn)) := by
      rw [List.getElem?_zip_eq_some]
      exact ⟨List.getElem?_eq_getElem hn, List.getElem?_eq_getElem (by rw [hx]; exact hn)⟩
    rw [hz]; simp [List.getElem?_eq_getElem hn]
  have key : ∀ (l : List Nat) (s : State),
      (l.foldl (fun s n =>
        s.modEdges ((net.cfg n).outE.filter fun e => (net.edge e).dst.isNone) fun _ ed =>
          { ed with iopl := ed.iopl.set 0 ((exo.getD n {}).demand) }) s).node n = s.node n := by
    intro l
    induction l with
    | nil => intro s; rfl
    | cons x xs ih => intro s; simp only [List.foldl_cons]; rw [ih]; simp
  rw [key]; exact a1

theorem setExo_ipFields (net : Net) (exo : List Exo) (st : State) (e : Nat) :
    ipFields ((setExo net exo st).edge e) = ipFields (st.edge e) := by
  simp only [setExo]
  generalize hs1 : ({ st with nodes := (st.nodes.zip exo).map fun (s, x) => { s with disrupted := x.disrupted } } : State) = st1
  have a2 : ipFields (st1.edge e) = ipFields (st.edge e) := by rw [← hs1]; rfl
  have key : ∀ (l : List Nat) (s : State),
      ipFields ((l.foldl (fun s n =>
        s.modEdges ((net.cfg n).outE.filter fun e => (net.edge e).dst.isNone) fun _ ed =>
          { ed with iopl := ed.iopl.set 0 ((exo.getD n {}).demand) }) s).edge e) = ipFields (s.edge e) := by
    intro l
    induction l with
    | nil => intro s; rfl
    | cons x xs ih =>
      intro s
      simp only [List.foldl_cons]
      rw [ih]
      refine field_modEdges ipFields s _ _ ?_ trivial e
      intro _ _; rfl
  rw [key, a2]

/-- The inventory position a node with a local policy observes, in terms of REPORTED quantities: the stock carried
over from the previous period and the inbound orders of the current one. -/
def ipReported (net : Net) (prev cur : State) (n : Nat) : Rat :=
  (prev.node n).il + lmin ((net.cfg n).inE.map fun e => (prev.edge e).rm + (prev.edge e).oo + (prev.edge e).idi)
    - lsum ((net.cfg n).outE.map fun e => (cur.edge e).io)

def localPolicy (p : Policy) : Bool := match p with | .EBS _ => false | _ => true

/-- **Orders follow the policy, at every node of the network** (one period). -/
theorem order_follows_policy_step (net : Net) (hwf : NetWF net) (st : State) (exo : List Exo)
    (hinv : PInvN net st) (hexo : ExoOK exo) (hxl : exo.length = net.nodes.length)
    (n : Nat) (hn : n < net.nodes.length) (hnd : (orderSeq net).Nodup) (hvis : n ∈ orderSeq net)
    (hpol : localPolicy (net.cfg n).policy = true) :
    ((afterPasses net st exo).node n).oqfg = (st.node n).oqfg +
      (if ((afterPasses net st exo).node n).disrupted && (net.cfg n).dtype == some .OP then 0
       else capped ((net.cfg n).policy.qty (ipReported net st (afterPasses net st exo) n)) (net.cfg n).cap) := by
  obtain ⟨x1, x2, _⟩ := setExo_spec net exo st hexo hinv.1.2
  obtain ⟨_, _, k3⟩ := setExo_keeps net exo st (by rw [hxl, hinv.2])
  have p1 : PInvN net (setExo net exo st) := ⟨⟨by rw [x1]; exact hinv.1.1, x2⟩, by rw [k3]; exact hinv.2⟩
  have hn0 : n < st.nodes.length := by rw [hinv.2]; exact hn
  obtain ⟨s1il, s1oq⟩ := setExo_node net exo st (by rw [hxl, hinv.2]) n hn0
  -- the order pass: only n's own visit changes the projection
  have main := passG_single (orderOp net)
    (fun s => (s.node n, (fun e => if e ∈ (net.cfg n).outE then (s.edge e).io else (0 : Rat)),
      (fun e => if e ∈ (net.cfg n).inE then ipFields (s.edge e) else ((0 : Rat), (0 : Rat), (0 : Rat)))))
    (PInvN net) (pinvN_orderOp net hwf) n
    (fun p p' => p'.1.il = p.1.il ∧ p'.1.disrupted = p.1.disrupted ∧
      p'.1.oqfg = p.1.oqfg + (if p.1.disrupted && (net.cfg n).dtype == some .OP then 0 else
        capped ((net.cfg n).policy.qty (p.1.il + lmin ((net.cfg n).inE.map fun e => (p.2.2 e).1 + (p.2.2 e).2.1 + (p.2.2 e).2.2)
          - lsum ((net.cfg n).outE.map p'.2.1))) (net.cfg n).cap))
    (by
      intro m s hs hmn
      refine Prod.ext (orderOp_node_other net m n s hmn) (Prod.ext ?_ ?_)
      · funext e
        by_cases he : e ∈ (net.cfg n).outE
        · simp only [he, if_true]
          apply orderOp_io_other net hwf m s hs.1.1 e
          intro hm'
          have a := (hwf.outE_src n e he).1
          have b := (hwf.outE_src m e hm').1
          rw [a] at b
          exact hmn (Option.some.inj b).symm
        · simp only [he, if_false]
      · funext e
        by_cases he : e ∈ (net.cfg n).inE
        · simp only [he, if_true]
          apply orderOp_ipFields net hwf m s hs.1.1 e
          intro hm'
          have a := (hwf.inE_dst n e he).1
          have b := (hwf.inE_dst m e hm').1
          rw [a] at b
          exact hmn (Option.some.inj b).symm
        · simp only [he, if_false])
    (by
      intro s hs
      have hm : n < s.nodes.length := by rw [hs.2]; exact hn
      obtain ⟨a1, a2, a3⟩ := orderOp_self net hwf n s hm hs.1.1
      refine ⟨a1, a2, ?_⟩
      rw [a3]
      congr 1
      simp only [isDisr]
      by_cases hd : ((s.node n).disrupted && (net.cfg n).dtype == some DType.OP) = true
      · simp only [hd, if_true]
      · have hd' : ((s.node n).disrupted && (net.cfg n).dtype == some DType.OP) = false := by simpa using hd
        simp only [hd']
        -- the quantity: unfold the observed inventory position after the node has read its orders
        have hloc : ipObserved net (receiveOrders net n s) n
            = localIP net (receiveOrders net n s) n - demandNow net (receiveOrders net n s) n := by
          unfold ipObserved
          cases hp : (net.cfg n).policy <;> simp_all [localPolicy]
        simp only [orderQty]
        rw [hloc]
        congr 2
        simp only [localIP, demandNow]
        -- node record and in-edges are as before the visit; the inbound orders are those read now
        have hil : ((receiveOrders net n s).node n).il = (s.node n).il := by
          simp only [receiveOrders]
          refine (il_modNode _ n n _ ?_).trans ?_
          · intro x; rfl
          · simp
        have hin : ((net.cfg n).inE.map fun e => ((receiveOrders net n s).edge e).rm + ((receiveOrders net n s).edge e).oo
              + ((receiveOrders net n s).edge e).idi)
            = (net.cfg n).inE.map fun e =>
              (if e ∈ (net.cfg n).inE then ipFields (s.edge e) else ((0 : Rat), (0 : Rat), (0 : Rat))).1
              + (if e ∈ (net.cfg n).inE then ipFields (s.edge e) else ((0 : Rat), (0 : Rat), (0 : Rat))).2.1
              + (if e ∈ (net.cfg n).inE then ipFields (s.edge e) else ((0 : Rat), (0 : Rat), (0 : Rat))).2.2 := by
          apply List.map_congr_left
          intro e he
          have hl : e < s.edges.length := by rw [hs.1.1]; exact (hwf.inE_dst n e he).2
          have hno : e ∉ (net.cfg n).outE := fun ho => not_in_both net hwf n e he ho
          rw [receiveOrders_edge net hwf n s e hl, if_neg hno]
          simp only [he, if_true, ipFields]
        have hout : ((net.cfg n).outE.map fun e => ((receiveOrders net n s).edge e).io)
            = (net.cfg n).outE.map fun e => if e ∈ (net.cfg n).outE then ((orderOp net n s).edge e).io else 0 := by
          apply List.map_congr_left
          intro e he
          simp only [he, if_true]
          have hl : e < s.edges.length := by rw [hs.1.1]; exact (hwf.outE_src n e he).2
          have hni : e ∉ (net.cfg n).inE := fun hi => not_in_both net hwf n e hi he
          rw [(orderOp_spec net hwf n s hs.1.1).2.2.1 e he, receiveOrders_edge net hwf n s e hl, if_pos he]
        rw [hil, hin, hout])
    (orderSeq net) _ p1 hnd hvis
  simp only at main
  obtain ⟨m1, m2, m3⟩ := main
  have p2 := passG_inv (orderOp net) (PInvN net) (pinvN_orderOp net hwf) (orderSeq net) _ p1
  -- the shipment pass keeps node n's order quantity and disruption flag and every inbound order
  have keep := passG_inv (nodeShip net)
    (fun s => PInvN net s ∧ (s.node n).oqfg = ((List.foldl (fun s n => orderOp net n s) (setExo net exo st) (orderSeq net)).node n).oqfg ∧
      (s.node n).disrupted = ((List.foldl (fun s n => orderOp net n s) (setExo net exo st) (orderSeq net)).node n).disrupted ∧
      ∀ e, (s.edge e).io = ((List.foldl (fun s n => orderOp net n s) (setExo net exo st) (orderSeq net)).edge e).io)
    (by
      intro m s hs
      refine ⟨pinvN_nodeShip net hwf m s hs.1, ?_, ?_, ?_⟩
      · by_cases hmn : m = n
        · subst hmn; rw [(nodeShip_self_keeps net m s).1]; exact hs.2.1
        · rw [nodeShip_node_other net m n s hmn]; exact hs.2.1
      · by_cases hmn : m = n
        · subst hmn; rw [(nodeShip_self_keeps net m s).2]; exact hs.2.2.1
        · rw [nodeShip_node_other net m n s hmn]; exact hs.2.2.1
      · intro e; rw [nodeShip_io net hwf m s hs.1.1.1 hs.1.1.2 e]; exact hs.2.2.2 e)
    (shipSeq net) _ ⟨p2, rfl, rfl, fun _ => rfl⟩
  obtain ⟨_, k1, k2, k4⟩ := keep
  have hE1 : ((afterPasses net st exo).node n).oqfg
      = ((List.foldl (fun s n => orderOp net n s) (setExo net exo st) (orderSeq net)).node n).oqfg := k1
  have hE2 : ((afterPasses net st exo).node n).disrupted
      = ((List.foldl (fun s n => orderOp net n s) (setExo net exo st) (orderSeq net)).node n).disrupted := k2
  have hE4 : ∀ e, ((afterPasses net st exo).edge e).io
      = ((List.foldl (fun s n => orderOp net n s) (setExo net exo st) (orderSeq net)).edge e).io := k4
  have hInL : ((net.cfg n).inE.map fun e =>
        (if e ∈ (net.cfg n).inE then ipFields ((setExo net exo st).edge e) else ((0 : Rat), (0 : Rat), (0 : Rat))).1
        + (if e ∈ (net.cfg n).inE then ipFields ((setExo net exo st).edge e) else ((0 : Rat), (0 : Rat), (0 : Rat))).2.1
        + (if e ∈ (net.cfg n).inE then ipFields ((setExo net exo st).edge e) else ((0 : Rat), (0 : Rat), (0 : Rat))).2.2)
      = (net.cfg n).inE.map fun e => (st.edge e).rm + (st.edge e).oo + (st.edge e).idi := by
    apply List.map_congr_left
    intro e he
    simp only [he, if_true]
    have := setExo_ipFields net exo st e
    simp only [ipFields, Prod.mk.injEq] at this
    simp only [ipFields]
    rw [this.1, this.2.1, this.2.2]
  have hOutL : ((net.cfg n).outE.map fun e => if e ∈ (net.cfg n).outE then
        ((List.foldl (fun s n => orderOp net n s) (setExo net exo st) (orderSeq net)).edge e).io else 0)
      = (net.cfg n).outE.map fun e => ((afterPasses net st exo).edge e).io := by
    apply List.map_congr_left
    intro e he
    simp only [he, if_true]
    exact (hE4 e).symm
  rw [hE1, m3]
  simp only [hE2, m2, s1oq, s1il, ipReported]
  rw [hInL, hOutL]

/-! ### along the whole trajectory -/

/-- The relation between two consecutive reported states (the first against the initial state). -/
def PolicyStep (net : Net) (prev cur : State) : Prop :=
  ∀ n, n < net.nodes.length → localPolicy (net.cfg n).policy = true →
    (cur.node n).oqfg =
      (if (cur.node n).disrupted && (net.cfg n).dtype == some .OP then 0
       else capped ((net.cfg n).policy.qty (ipReported net prev cur n)) (net.cfg n).cap)

structure CarryIP (net : Net) (prev st : State) : Prop where
  node : ∀ n, (st.node n).il = (prev.node n).il ∧ (st.node n).oqfg = 0
  edge : ∀ e, e < net.edges.length → ipFields (st.edge e) = ipFields (prev.edge e)

def allOrderedb (net : Net) : Bool := (List.range net.nodes.length).all fun n => (orderSeq net).contains n

theorem ipReported_congr (net : Net) (hwf : NetWF net) (prev st cur : State) (n : Nat) (hc : CarryIP net prev st) :
    ipReported net st cur n = ipReported net prev cur n := by
  simp only [ipReported]
  rw [(hc.node n).1]
  congr 2
  congr 1
  apply List.map_congr_left
  intro e he
  have := hc.edge e (hwf.inE_dst n e he).2
  simp only [ipFields, Prod.mk.injEq] at this
  rw [this.1, this.2.1, this.2.2]

/-- **C04 at network level.** Along the whole trajectory the simulator reports, at every node with a local policy,
the order quantity of every period is the policy's prescription for the inventory position the node observes —
the stock, on-order and raw-material quantities reported at the end of the previous period minus the inbound
orders of the current one — capped by the order capacity, and zero under an order-pausing disruption. -/
theorem orders_follow_policy_network (net : Net) (h1 : netWFb net = true) (h2 : decide (VisitOK net) = true)
    (h5 : allOrderedb net = true) (hist : List (List Exo))
    (hexo : ∀ x ∈ hist, ExoOK x ∧ x.length = net.nodes.length) :
    Chain (PolicyStep net) (initState net) (simulate net hist) := by
  obtain ⟨hwf, hinit⟩ := netWF_of_check net h1
  have hv : VisitOK net := of_decide_eq_true h2
  have hall : ∀ n, n < net.nodes.length → n ∈ orderSeq net := by
    intro n hn
    simp only [allOrderedb, List.all_eq_true, List.mem_range, List.contains_iff_mem] at h5
    exact h5 n hn
  have gen : ∀ (hist : List (List Exo)) (st prev : State),
      (∀ x ∈ hist, ExoOK x ∧ x.length = net.nodes.length) → NetInv net st →
      st.nodes.length = net.nodes.length → CarryIP net prev st → Chain (PolicyStep net) prev (run net st hist) := by
    intro hist
    induction hist with
    | nil => intro st prev _ _ _ _; simp [run, Chain]
    | cons x xs ih =>
      intro st prev hx hinv hnl hc
      obtain ⟨hxo, hxl⟩ := hx x (by simp)
      simp only [run, Chain]
      have hpn : PInvN net st := ⟨hinv.pinv, hnl⟩
      have hap := afterPasses_pinv net hwf st x hinv.pinv hxo
      have hnl' : (afterPasses net st x).nodes.length = net.nodes.length := by
        have p1 : PInvN net (setExo net x st) := by
          obtain ⟨x1, x2, _⟩ := setExo_spec net x st hxo hinv.pinv.2
          obtain ⟨_, _, k3⟩ := setExo_keeps net x st (by rw [hxl, hnl])
          exact ⟨⟨by rw [x1]; exact hinv.pinv.1, x2⟩, by rw [k3]; exact hnl⟩
        have p2 := passG_inv (orderOp net) (PInvN net) (pinvN_orderOp net hwf) (orderSeq net) _ p1
        exact (passG_inv (nodeShip net) (PInvN net) (pinvN_nodeShip net hwf) (shipSeq net) _ p2).2
      constructor
      · intro n hn hpol
        have hs := order_follows_policy_step net hwf st x hpn hxo hxl n hn hv.1 (hall n hn) hpol
        rw [(hc.node n).2] at hs
        rw [step_fst]
        -- costs leave order quantities, flags and edges alone
        have c1 : ((costs net (afterPasses net st x)).node n).oqfg = ((afterPasses net st x).node n).oqfg ∧
            ((costs net (afterPasses net st x)).node n).disrupted = ((afterPasses net st x).node n).disrupted := by
          simp only [costs, State.node, List.getD_eq_getElem?_getD, List.getElem?_map]
          have hn2 : n < (afterPasses net st x).nodes.length := by rw [hnl']; exact hn
          simp [List.getElem?_range hn2, nodeCosts]
        rw [c1.1, c1.2, hs]
        have e0 : ipReported net st (afterPasses net st x) n = ipReported net prev (costs net (afterPasses net st x)) n := by
          rw [ipReported_congr net hwf prev st (afterPasses net st x) n hc]
          rfl
        rw [e0]; grind
      · refine ih (step net st x).2 (step net st x).1 (fun y hy => hx y (by simp [hy]))
          (step_netinv net hwf hv st x hinv hxo) ?_ ?_
        · rw [step_snd]; simp only [initNext, List.length_map]; exact hnl'
        · constructor
          · intro n
            rw [step_snd, step_fst]
            constructor
            · rw [(costs_node_fields net _ n).1]
              simp only [initNext, State.node]
              exact getD_map_il _ nextNode (fun _ => rfl) rfl n
            · simp only [initNext, State.node, List.getD_eq_getElem?_getD, List.getElem?_map]
              cases (afterPasses net st x).nodes[n]? <;> rfl
          · intro e he
            rw [step_snd, step_fst, costs_edge, initNext_edge net _ e hap.1 (by rw [hap.1]; exact he)]
            rfl
  exact gen hist (initState net) (initState net) hexo (initState_netinv net hinit) (by simp [initState])
    ⟨fun n => ⟨rfl, by
        simp only [initState, State.node, List.getD_eq_getElem?_getD, List.getElem?_map]
        cases net.nodes[n]? <;> rfl⟩, fun _ _ => rfl⟩

example : allOrderedb exampleNet = true := by decide +kernel

end Stockpyl.Sim
