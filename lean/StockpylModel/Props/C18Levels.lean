import StockpylModel.Props.C18
/-!
# Echelon → local → echelon: the other direction of the base-stock level conversion

`toEchelon_toLocal` (the round trip returns the suffix minima `S⁻` of the echelon levels, whatever the levels) and
`echelon_local_inverse` (it is the identity on non-decreasing echelon levels); `local_echelon_inverse` in `Props/C18.lean` is the
local → echelon → local direction.  Any number of stages.
-/
namespace Stockpyl.Graph

theorem toEchelon_diffs (c : Rat) (l : List Rat) : toEchelon (diffs c l) = l.map (· - c) := by
  induction l generalizing c with
  | nil => simp [diffs, toEchelon]
  | cons x xs ih =>
    simp only [diffs, toEchelon, ih, List.map_map, List.map_cons]
    congr 1
    apply List.map_congr_left
    intro a _
    simp only [Function.comp]
    grind

/-- Echelon → local → echelon gives the monotonised levels `S⁻` (suffix minima): the only thing lost is what the conversion is
documented to drop. -/
theorem toEchelon_toLocal (e : List Rat) : toEchelon (toLocal e) = sufMin e := by
  unfold toLocal
  rw [toEchelon_diffs]
  conv => rhs; rw [← List.map_id (sufMin e)]
  apply List.map_congr_left
  intro a _
  show a - 0 = a
  grind

/-- On non-decreasing echelon levels (downstream-most first) the two conversions are inverse in this direction too. -/
theorem echelon_local_inverse (e : List Rat) (h : e.Pairwise (· ≤ ·)) : toEchelon (toLocal e) = e := by
  rw [toEchelon_toLocal, sufMin_of_sorted e h]

example : toEchelon (toLocal [3, 5, 4]) = [3, 4, 4] := by decide +kernel

end Stockpyl.Graph
