import StockpylModel.Props.C12
/-!
# C12 — the DP cost rows are a lower bound for EVERY ordering rule on the grid

`dp_dominates_every_policy`: for any horizon, any periods (non-negative demand probabilities and discount
factors) and ANY state-dependent order-up-to rule `oul_t(x) ∈ [x, x_max]` — not just (s,S) rules — the
expected cost of operating that rule (the code's evaluation mode) is, in every period and every state, at
least the cost the optimiser reports. With `eval_reproduces_opt` (the optimiser's own rule attains its
reported cost) this is optimality of the reported policy among all Markov policies on the grid.
-/
namespace Stockpyl.FH
open Stockpyl

def LeRow (a b : List Rat) : Prop := ∀ i, a.getD i 0 ≤ b.getD i 0

theorem dot_mono (p : List Rat) (hp : ∀ q ∈ p, 0 ≤ q) :
    ∀ (u v : List Rat), u.length = v.length → (∀ i, u.getD i 0 ≤ v.getD i 0) → dot p u ≤ dot p v := by
  induction p with
  | nil => intro u v _ _; simp [dot]
  | cons q qs ih =>
    intro u v hl h
    cases u with
    | nil => cases v with
      | nil => simp [dot]
      | cons y ys => simp at hl
    | cons x xs =>
      cases v with
      | nil => simp at hl
      | cons y ys =>
        simp only [dot]
        have h0 : x ≤ y := by simpa using h 0
        have hq : 0 ≤ q := hp q (by simp)
        have i1 := ih (fun r hr => hp r (by simp [hr])) xs ys (by simpa using hl)
          (fun i => by simpa using h (i + 1))
        have i2 := Rat.mul_le_mul_of_nonneg_left h0 hq
        grind

theorem Hval_mono (n : Nat) (dmin : Int) (per : Period) (hp : ∀ q ∈ per.prob, 0 ≤ q) (hg : 0 ≤ per.gamma)
    (a b : List Rat) (hab : LeRow a b) (iy : Nat) : Hval n dmin per a iy ≤ Hval n dmin per b iy := by
  simp only [Hval]
  have := dot_mono per.prob hp
    ((List.range per.prob.length).map fun j => a.getD (nextIdx n dmin iy j) 0)
    ((List.range per.prob.length).map fun j => b.getD (nextIdx n dmin iy j) 0)
    (by simp)
    (by
      intro i
      simp only [List.getD_eq_getElem?_getD, List.getElem?_map]
      cases h : (List.range per.prob.length)[i]? with
      | none => simp
      | some j => simp; exact hab _)
  have := Rat.mul_le_mul_of_nonneg_left this hg
  grind

theorem Hrow_getD (n : Nat) (dmin : Int) (per : Period) (next : List Rat) (iy : Nat) (h : iy < n) :
    (Hrow n dmin per next).getD iy 0 = Hval n dmin per next iy := by
  simp [Hrow, List.getD_eq_getElem?_getD, h]

/-- An admissible rule: in every state order up to a grid level at or above the current one. -/
def Admissible (n : Nat) (oul : List Nat) : Prop := ∀ ix, ix < n → ix ≤ oul.getD ix ix ∧ oul.getD ix ix < n

/-- One backward step: if the continuation of the rule is at least the optimal continuation, so is this period. -/
theorem step_dominates (n : Nat) (dmin : Int) (per : Period) (hp : ∀ q ∈ per.prob, 0 ≤ q) (hg : 0 ≤ per.gamma)
    (nextOpt nextPol : List Rat) (hnext : LeRow nextOpt nextPol) (oul : List Nat) (hadm : Admissible n oul) :
    LeRow (optRow n dmin per nextOpt).cost (evalRow n dmin per nextPol oul).cost := by
  intro ix
  by_cases hix : ix < n
  · have e1 : (optRow n dmin per nextOpt).cost.getD ix 0 = (bestAt per (Hrow n dmin per nextOpt) n ix).1 := by
      simp [optRow, List.getD_eq_getElem?_getD, hix]
    have e2 : (evalRow n dmin per nextPol oul).cost.getD ix 0
        = cand per (Hrow n dmin per nextPol) ix (oul.getD ix ix) := by
      simp [evalRow, List.getD_eq_getElem?_getD, hix]
    rw [e1, e2]
    obtain ⟨a1, a2⟩ := hadm ix hix
    have hb := (bellman per (Hrow n dmin per nextOpt) n ix hix).2.2.2.1 (oul.getD ix ix) a1 a2
    refine Rat.le_trans hb ?_
    simp only [cand]
    rw [Hrow_getD n dmin per nextOpt _ a2, Hrow_getD n dmin per nextPol _ a2]
    have := Hval_mono n dmin per hp hg nextOpt nextPol hnext (oul.getD ix ix)
    grind
  · have l1 : (optRow n dmin per nextOpt).cost.length = n := by simp [optRow]
    have l2 : (evalRow n dmin per nextPol oul).cost.length = n := by simp [evalRow]
    rw [List.getD_eq_getElem?_getD, List.getD_eq_getElem?_getD,
        List.getElem?_eq_none (by omega), List.getElem?_eq_none (by omega)]
    exact Rat.le_refl

def PeriodOK (per : Period) : Prop := (∀ q ∈ per.prob, 0 ≤ q) ∧ 0 ≤ per.gamma

/-- **No ordering rule on the grid beats the reported costs**, in any period and any state. -/
theorem dp_dominates_every_policy (n : Nat) (dmin : Int) (terminal : List Rat) :
    ∀ (ps : List Period) (ouls : List (List Nat)), ps.length = ouls.length → (∀ p ∈ ps, PeriodOK p) →
      (∀ o ∈ ouls, Admissible n o) →
      ∀ t, LeRow (((solve n dmin ps terminal).getD t ⟨[], [], []⟩).cost)
                 (((solveEval n dmin ps ouls terminal).getD t ⟨[], [], []⟩).cost) := by
  intro ps
  induction ps with
  | nil => intro ouls _ _ _ t i; simp [solve, solveEval]
  | cons per rest ih =>
    intro ouls hlen hok hadm t
    cases ouls with
    | nil => simp at hlen
    | cons o os =>
      have ih' := ih os (by simpa using hlen) (fun p hp => hok p (by simp [hp])) (fun o' ho => hadm o' (by simp [ho]))
      -- the continuation rows
      have hnext : LeRow (match solve n dmin rest terminal with | r :: _ => r.cost | [] => terminal)
          (match solveEval n dmin rest os terminal with | r :: _ => r.cost | [] => terminal) := by
        have h0 := ih' 0
        have l1 := (solve_shape n dmin rest terminal).1
        cases hs : solve n dmin rest terminal with
        | nil =>
          have : rest = [] := by
            cases rest with
            | nil => rfl
            | cons a b => rw [hs] at l1; simp at l1
          subst this
          cases os with
          | nil => simp [solveEval]; intro i; exact Rat.le_refl
          | cons a b => simp at hlen
        | cons r rs =>
          cases he : solveEval n dmin rest os terminal with
          | nil =>
            -- impossible: both lists have the length of `rest`
            cases rest with
            | nil => simp [solve] at hs
            | cons a b =>
              cases os with
              | nil => simp at hlen
              | cons o2 os2 => simp [solveEval] at he
          | cons r2 rs2 =>
            rw [hs, he] at h0
            simpa using h0
      cases t with
      | zero =>
        simp only [solve, solveEval, List.getD_cons_zero]
        exact step_dominates n dmin per (hok per (by simp)).1 (hok per (by simp)).2 _ _ hnext o (hadm o (by simp))
      | succ t =>
        simp only [solve, solveEval, List.getD_cons_succ]
        exact ih' t

end Stockpyl.FH
