import StockpylModel.Model.MultiProd
import StockpylModel.Lemmas.Sim
/-!
# C05 for multi-product nodes: the cost of the reported state, raw materials shared by several products
-/
namespace Stockpyl.MP
open Stockpyl Stockpyl.Sim

/-- The total is holding + stockout + in-transit minus the REPORTED revenue. -/
theorem mp_total_def (b : Bom) (prods : List ProdCost) (rms : List RmCost) :
    (mpCosts b prods rms).tc =
      (mpCosts b prods rms).hc + (mpCosts b prods rms).sc + (mpCosts b prods rms).ithc - (mpCosts b prods rms).rv := rfl

/-- The components are the documented functions of the reported state. -/
theorem mp_costs_def (b : Bom) (prods : List ProdCost) (rms : List RmCost) :
    (mpCosts b prods rms).hc =
        lsum (prods.map fun q => q.h * (pos q.il + q.heldForCustomers)) +
        lsum ((rmsOfNode b rms.length).map fun r =>
          (rms.getD r { rate := 0, stock := 0, atDoor := 0 }).rate *
            ((rms.getD r { rate := 0, stock := 0, atDoor := 0 }).stock + (rms.getD r { rate := 0, stock := 0, atDoor := 0 }).atDoor)) ∧
    (mpCosts b prods rms).sc = lsum (prods.map fun q => q.p * neg q.il) ∧
    (mpCosts b prods rms).ithc =
        lsum (prods.map fun q => (match q.hTransit with | none => q.h | some x => x) * q.inTransit) :=
  ⟨rfl, rfl, rfl⟩

theorem count_filter_range (p : Nat → Bool) (n r : Nat) :
    ((List.range n).filter p).count r = if r < n ∧ p r = true then 1 else 0 := by
  induction n with
  | zero => simp
  | succ n ih =>
    rw [List.range_succ, List.filter_append, List.count_append, ih]
    have hlt : r < n + 1 ↔ (r < n ∨ r = n) := by omega
    by_cases hp : p n = true <;> by_cases hr : r = n
    · subst hr; simp [hp]
    · have hne : (n == r) = false := by simp; omega
      have : r < n + 1 ↔ r < n := by omega
      simp [hp, List.count_cons, hne, this]
    · subst hr; simp [hp]
    · have : r < n + 1 ↔ r < n := by omega
      simp [hp, this]

/-- A raw material used by at least one product of the node is priced exactly once, however many products use it;
one that no product uses is not priced. (The defect repaired by 85c9a0c priced it once per product.) -/
theorem each_raw_material_once (b : Bom) (nRM r : Nat) (hr : r < nRM) :
    (rmsOfNode b nRM).count r = if (prodsFor b r).isEmpty then 0 else 1 := by
  unfold rmsOfNode
  rw [count_filter_range]
  by_cases h : (prodsFor b r).isEmpty <;> simp [h, hr]

/-- The holding cost does not depend on HOW MANY products share a raw material: two bills of materials with the same
set of used raw materials give the same cost record. -/
theorem cost_independent_of_sharing (b b' : Bom) (prods : List ProdCost) (rms : List RmCost)
    (h : ∀ r, (prodsFor b r).isEmpty = (prodsFor b' r).isEmpty) :
    mpCosts b prods rms = mpCosts b' prods rms := by
  have : rmsOfNode b rms.length = rmsOfNode b' rms.length := by
    unfold rmsOfNode; congr 1; funext r; rw [h r]
  unfold mpCosts; rw [this]

/-- One product made of one raw material: the single-product formula. -/
theorem mp_single (q : ProdCost) (x : RmCost) (nb : Rat) (hnb : 0 < nb) :
    (mpCosts [[nb]] [q] [x]).hc = q.h * (pos q.il + q.heldForCustomers) + x.rate * (x.stock + x.atDoor) := by
  have : rmsOfNode [[nb]] 1 = [0] := by
    simp [rmsOfNode, prodsFor, usesRM, bomAt, List.range, List.range.loop, hnb]
  simp [mpCosts, this, lsum]; grind

/-- Non-vacuity: two products sharing raw material 0 (4 units in stock, supplier rate 1): charged 4, not 8. -/
example : (mpCosts [[1, 1], [1, 0]]
    [{ h := 0, p := 0, hTransit := none, rev := 0, il := 0, heldForCustomers := 0, inTransit := 0, shipped := 0 },
     { h := 0, p := 0, hTransit := none, rev := 0, il := 0, heldForCustomers := 0, inTransit := 0, shipped := 0 }]
    [{ rate := 1, stock := 4, atDoor := 0 }, { rate := 1, stock := 0, atDoor := 0 }]).hc = 4 := by decide +kernel

end Stockpyl.MP
