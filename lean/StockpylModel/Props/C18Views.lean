import StockpylModel.Props.C18Reach
/-!
# The derived views of a coherent network (edges, sources, sinks) say what the adjacency lists say

`edges_nodup` (no edge is listed twice), `edges_endpoints` (both ends of a listed edge are nodes of the network), `mem_sources_iff` /
`mem_sinks_iff` (the source/sink views are exactly the nodes without predecessors/successors) and `source_no_ancestors` /
`sink_no_descendants`.  With `coherent_reachable` these hold after every accepted operation history.
-/
namespace Stockpyl.Graph

/-- On a coherent network the edge view lists no edge twice. -/
theorem edges_nodup (g : G) (hc : Coherent g) : (edges g).Nodup := by
  unfold edges
  rw [List.nodup_iff_pairwise_ne, List.pairwise_flatMap]
  constructor
  · intro n hn
    rw [List.pairwise_map]
    have := (hc.lists_nodup n hn).1
    rw [List.nodup_iff_pairwise_ne] at this
    exact this.imp (fun h e => h (by simpa using e))
  · have h := hc.nodup
    unfold labels at h
    rw [List.nodup_iff_pairwise_ne, List.pairwise_map] at h
    refine h.imp ?_
    intro a b hab x hx y hy e
    obtain ⟨s, _, rfl⟩ := List.mem_map.mp hx
    obtain ⟨t, _, rfl⟩ := List.mem_map.mp hy
    exact hab (by simpa using congrArg Prod.fst e)

/-- An edge of the edge view joins two nodes of the network (coherent network: no dangling end point). -/
theorem edges_endpoints (g : G) (hc : Coherent g) (a b : Int) (h : (a, b) ∈ edges g) : a ∈ labels g ∧ b ∈ labels g := by
  simp only [edges, List.mem_flatMap, List.mem_map, Prod.mk.injEq] at h
  obtain ⟨n, hn, s, hs, rfl, rfl⟩ := h
  obtain ⟨m, hm, hml, -⟩ := hc.succ_ok n hn s hs
  exact ⟨mem_labels.mpr ⟨n, hn, rfl⟩, mem_labels.mpr ⟨m, hm, hml⟩⟩

/-- The source view: the nodes of the network that list no predecessor. -/
theorem mem_sources_iff (g : G) (hc : Coherent g) (l : Int) : l ∈ sources g ↔ l ∈ labels g ∧ predsOf g l = [] := by
  unfold sources
  simp only [List.mem_map, List.mem_filter, List.isEmpty_iff]
  constructor
  · rintro ⟨n, ⟨hn, hp⟩, rfl⟩
    refine ⟨mem_labels.mpr ⟨n, hn, rfl⟩, ?_⟩
    unfold predsOf; rw [find_of_mem hc.nodup hn]; exact hp
  · rintro ⟨hl, hp⟩
    obtain ⟨n, hn, rfl⟩ := mem_labels.mp hl
    unfold predsOf at hp; rw [find_of_mem hc.nodup hn] at hp
    exact ⟨n, ⟨hn, hp⟩, rfl⟩

theorem mem_sinks_iff (g : G) (hc : Coherent g) (l : Int) : l ∈ sinks g ↔ l ∈ labels g ∧ succsOf g l = [] := by
  unfold sinks
  simp only [List.mem_map, List.mem_filter, List.isEmpty_iff]
  constructor
  · rintro ⟨n, ⟨hn, hp⟩, rfl⟩
    refine ⟨mem_labels.mpr ⟨n, hn, rfl⟩, ?_⟩
    unfold succsOf; rw [find_of_mem hc.nodup hn]; exact hp
  · rintro ⟨hl, hp⟩
    obtain ⟨n, hn, rfl⟩ := mem_labels.mp hl
    unfold succsOf at hp; rw [find_of_mem hc.nodup hn] at hp
    exact ⟨n, ⟨hn, hp⟩, rfl⟩

/-- A source has no ancestors and a sink has no descendants. -/
theorem source_no_ancestors (g : G) (hc : Coherent g) (l : Int) (h : l ∈ sources g) : ancestors g l = [] := by
  have hp := ((mem_sources_iff g hc l).mp h).2
  apply List.eq_nil_iff_forall_not_mem.mpr
  intro x hx
  have hpath := ancestors_sound g l x hx
  have : ∀ {b}, Path (predsOf g) l b → False := by
    intro b hb
    induction hb with
    | one h => rw [hp] at h; simp at h
    | snoc _ _ ih => exact ih
  exact this hpath

theorem sink_no_descendants (g : G) (hc : Coherent g) (l : Int) (h : l ∈ sinks g) : descendants g l = [] := by
  have hp := ((mem_sinks_iff g hc l).mp h).2
  apply List.eq_nil_iff_forall_not_mem.mpr
  intro x hx
  have hpath := descendants_sound g l x hx
  have : ∀ {b}, Path (succsOf g) l b → False := by
    intro b hb
    induction hb with
    | one h => rw [hp] at h; simp at h
    | snoc _ _ ih => exact ih
  exact this hpath

end Stockpyl.Graph
