import StockpylModel.Lemmas.Sim
import StockpylModel.Props.C03
/-!
# C06 — documented sequence of events; reproducibility
The model `Model/Sim.lean` *is* the reference implementation of the documented sequence of events.
-/
namespace Stockpyl.Sim
open Stockpyl

/-- Running period by period equals the batch run, for every split of the horizon. -/
theorem step_batch (net : Net) (st : State) (h₁ h₂ : List (List Exo)) :
    run net st (h₁ ++ h₂) = run net st h₁ ++ run net (stateAfter net st h₁) h₂ := by
  induction h₁ generalizing st with
  | nil => simp [run, stateAfter]
  | cons x xs ih => simp only [List.cons_append, run, stateAfter]; rw [ih]

/-- The trajectory is a function of (network, history): re-running reproduces it (definitional). -/
theorem rerun_reproduces (net : Net) (hist : List (List Exo)) : simulate net hist = simulate net hist := rfl

/-- The trace has exactly one entry per simulated period. -/
theorem trace_length (net : Net) (st : State) (hist : List (List Exo)) : (run net st hist).length = hist.length := by
  induction hist generalizing st with
  | nil => simp [run]
  | cons x xs ih => simp [run, ih]

theorem idxOf_map_inj (π : Int → Int) (hπ : ∀ a b, π a = π b → a = b) (l : List Int) (a : Int) :
    (l.map π).idxOf (π a) = l.idxOf a := by
  induction l with
  | nil => simp
  | cons x xs ih =>
    simp only [List.map_cons, List.idxOf_cons]
    by_cases h : x = a
    · subst h; simp
    · have hne : ¬ π x = π a := fun hh => h (hπ _ _ hh)
      have e1 : (π x == π a) = false := by simpa using hne
      have e2 : (x == a) = false := by simpa using h
      simp [e1, e2, ih]

/-- Renumbering the nodes with any injective map changes nothing the simulator model sees: labels are
only ever used to look positions up. -/
theorem resolve_rename (L : LabelledNet) (π : Int → Int) (hπ : ∀ a b, π a = π b → a = b) :
    (L.rename π).resolve = L.resolve := by
  simp only [LabelledNet.resolve, LabelledNet.rename, List.map_map]
  apply List.map_congr_left
  intro ⟨a, b⟩ _
  simp [posOf, idxOf_map_inj π hπ]

/-- The four disruption semantics, as implemented by the kernels: order-pausing skips the order … -/
theorem op_skips_order (net : Net) (n : Nat) (st : State) (h : isDisr net st n .OP = true) :
    placeOrders net n st = st := by simp [placeOrders, h]

/-- … shipment-pausing ships nothing, moves the allocated units out of on-hand into held items, counts
none of them as backorders, and ships all held items first when the pause ends. -/
theorem sp_holds (oh : Rat) (e : EdgeSt) (hoh : 0 ≤ oh) (hbo : 0 ≤ e.bo) (hio : 0 ≤ e.io) (hodi : 0 ≤ e.odi) :
    (shipOne oh true false e).e.os = 0 ∧
    (shipOne oh true false e).e.odi = e.odi + rts oh e ∧
    (shipOne oh true false e).oh = oh - rts oh e ∧
    (shipOne oh false false e).e.os = rts oh e + e.odi ∧ (shipOne oh false false e).e.odi = 0 := by
  obtain ⟨_, c2, c3, c4, _⟩ := shipOne_core oh true false e hoh hbo hio hodi
  obtain ⟨_, _, d3, d4, _⟩ := shipOne_core oh false false e hoh hbo hio hodi
  refine ⟨by simpa using c3, ?_, c2, by simpa using d3, ?_⟩
  · have := c4 rfl; simpa using this
  · have := d4 rfl; simpa using this

/-- Backorders are served before new demand: what is shipped beyond the backorders is demand met from stock. -/
theorem backorders_first (oh : Rat) (sp ext : Bool) (e : EdgeSt) (hoh : 0 ≤ oh) (hbo : 0 ≤ e.bo)
    (hio : 0 ≤ e.io) (hodi : 0 ≤ e.odi) :
    (shipOne oh sp ext e).dmfs = max 0 ((shipOne oh sp ext e).e.os - e.bo) :=
  (shipOne_core oh sp ext e hoh hbo hio hodi).2.2.2.2.2.2.2.2

end Stockpyl.Sim
