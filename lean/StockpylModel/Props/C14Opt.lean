import StockpylModel.Props.C14
/-!
# C14 — global optimality of the Federgruen–Zheng search for a unimodal one-period cost

For `G` non-increasing up to `S` and non-decreasing from `S` on (a minimiser of `G`; the code takes the
newsvendor level), the pair `(r, Q)` returned by `fz` minimises `(Kλ + Σ_{y=r+1}^{r+Q} G(y))/Q` over ALL
integer `r` and all `Q ≥ 1`.
-/
namespace Stockpyl.RQ
open Stockpyl

def Unimodal (G : Int → Rat) (S : Int) : Prop :=
  (∀ y, y < S → G (y + 1) ≤ G y) ∧ (∀ y, S ≤ y → G y ≤ G (y + 1))

theorem mono_right {G : Int → Rat} {S : Int} (h : Unimodal G S) (d : Nat) (a : Int) (ha : S ≤ a) :
    G a ≤ G (a + (d : Int)) := by
  induction d with
  | zero => simp
  | succ k ih =>
    have := h.2 (a + (k : Int)) (by omega)
    have e : a + ((k + 1 : Nat) : Int) = a + (k : Int) + 1 := by push_cast; omega
    rw [e]; grind

theorem mono_left {G : Int → Rat} {S : Int} (h : Unimodal G S) (d : Nat) (a : Int) (ha : a ≤ S) :
    G a ≤ G (a - (d : Int)) := by
  induction d with
  | zero => simp
  | succ k ih =>
    have := h.1 (a - (k : Int) - 1) (by omega)
    have e : a - ((k + 1 : Nat) : Int) = a - (k : Int) - 1 := by push_cast; omega
    have e2 : a - (k : Int) - 1 + 1 = a - (k : Int) := by omega
    rw [e2] at this
    rw [e]; grind

/-- The window `(r, r+Q]` contains `S` and each of its positions is no dearer than both neighbours. -/
structure Good (G : Int → Rat) (S : Int) (r : Int) (Q : Nat) : Prop where
  lo : r < S
  hi : S ≤ r + (Q : Int)
  inside : ∀ y, r < y → y ≤ r + (Q : Int) → G y ≤ G r ∧ G y ≤ G (r + (Q : Int) + 1)

def grow (G : Int → Rat) (r : Int) (Q : Nat) : Int := if G r < G (r + (Q : Int) + 1) then r - 1 else r

/-- Value of the position the window grows by: the cheaper neighbour. -/
def gam (G : Int → Rat) (r : Int) (Q : Nat) : Rat := if G r < G (r + (Q : Int) + 1) then G r else G (r + (Q : Int) + 1)

theorem good_start {G : Int → Rat} {S : Int} (h : Unimodal G S) : Good G S (S - 1) 1 := by
  refine ⟨by omega, by omega, ?_⟩
  intro y h1 h2
  have hy : y = S := by omega
  subst hy
  constructor
  · have := h.1 (y - 1) (by omega)
    have e : y - 1 + 1 = y := by omega
    rw [e] at this; exact this
  · have := h.2 y (Int.le_refl _)
    have e : y - 1 + ((1 : Nat) : Int) + 1 = y + 1 := by omega
    rw [e]; exact this

theorem good_grow {G : Int → Rat} {S : Int} (h : Unimodal G S) {r : Int} {Q : Nat} (g : Good G S r Q) :
    Good G S (grow G r Q) (Q + 1) := by
  unfold grow
  by_cases hc : G r < G (r + (Q : Int) + 1)
  · rw [if_pos hc]
    refine ⟨by have := g.lo; omega, by have := g.hi; push_cast; omega, ?_⟩
    intro y h1 h2
    have e : r - 1 + ((Q + 1 : Nat) : Int) + 1 = r + (Q : Int) + 1 := by push_cast; omega
    rw [e]
    have hl : G r ≤ G (r - 1) := by
      have := h.1 (r - 1) (by have := g.lo; omega)
      have e2 : r - 1 + 1 = r := by omega
      rw [e2] at this; exact this
    by_cases hy : y = r
    · subst hy; exact ⟨hl, by grind⟩
    · have := g.inside y (by omega) (by push_cast at h2; omega)
      exact ⟨by grind, this.2⟩
  · rw [if_neg hc]
    refine ⟨g.lo, by have := g.hi; push_cast; omega, ?_⟩
    intro y h1 h2
    have e : r + ((Q + 1 : Nat) : Int) + 1 = r + (Q : Int) + 1 + 1 := by push_cast; omega
    rw [e]
    have hr : G (r + (Q : Int) + 1) ≤ G (r + (Q : Int) + 1 + 1) := h.2 _ (by have := g.hi; omega)
    by_cases hy : y = r + (Q : Int) + 1
    · subst hy; exact ⟨by grind, hr⟩
    · have := g.inside y h1 (by push_cast at h2; omega)
      exact ⟨this.1, by grind⟩

/-- Moving the window one step to the right. -/
theorem windowSum_right (G : Int → Rat) (r : Int) (Q : Nat) :
    windowSum G (r + 1) Q = windowSum G r Q - G (r + 1) + G (r + (Q : Int) + 1) := by
  have h1 := windowSum_shift G (r + 1) Q
  have e : r + 1 - 1 = r := by omega
  rw [e] at h1
  have h2 : windowSum G r (Q + 1) = windowSum G r Q + G (r + ((Q + 1 : Nat) : Int)) := rfl
  have e2 : r + ((Q + 1 : Nat) : Int) = r + (Q : Int) + 1 := by push_cast; omega
  rw [e2] at h2
  grind

/-- **For its size, a good window is the cheapest of all windows.** -/
theorem window_opt {G : Int → Rat} {S : Int} (h : Unimodal G S) {r : Int} {Q : Nat} (g : Good G S r Q) (r' : Int) :
    windowSum G r Q ≤ windowSum G r' Q := by
  have right : ∀ d : Nat, windowSum G r Q ≤ windowSum G (r + (d : Int)) Q := by
    intro d
    induction d with
    | zero => simp
    | succ k ih =>
      have e : r + ((k + 1 : Nat) : Int) = r + (k : Int) + 1 := by push_cast; omega
      rw [e, windowSum_right]
      have key : G (r + (k : Int) + 1) ≤ G (r + (k : Int) + (Q : Int) + 1) := by
        by_cases hk : k + 1 ≤ Q
        · have i1 := (g.inside (r + (k : Int) + 1) (by omega) (by omega)).2
          have i2 := mono_right h k (r + (Q : Int) + 1) (by have := g.hi; omega)
          have e3 : r + (Q : Int) + 1 + (k : Int) = r + (k : Int) + (Q : Int) + 1 := by omega
          rw [e3] at i2; grind
        · have i2 := mono_right h Q (r + (k : Int) + 1) (by have := g.hi; omega)
          have e3 : r + (k : Int) + 1 + (Q : Int) = r + (k : Int) + (Q : Int) + 1 := by omega
          rw [e3] at i2; exact i2
      grind
  have left : ∀ d : Nat, windowSum G r Q ≤ windowSum G (r - (d : Int)) Q := by
    intro d
    induction d with
    | zero => simp
    | succ k ih =>
      have hs := windowSum_right G (r - ((k + 1 : Nat) : Int)) Q
      have e : r - ((k + 1 : Nat) : Int) + 1 = r - (k : Int) := by push_cast; omega
      rw [e] at hs
      have e2 : r - ((k + 1 : Nat) : Int) + (Q : Int) + 1 = r - (k : Int) + (Q : Int) := by push_cast; omega
      rw [e2] at hs
      have key : G (r - (k : Int) + (Q : Int)) ≤ G (r - (k : Int)) := by
        by_cases hk : k < Q
        · have i1 := (g.inside (r - (k : Int) + (Q : Int)) (by omega) (by omega)).1
          have i2 := mono_left h k r (by have := g.lo; omega)
          grind
        · have i2 := mono_left h Q (r - (k : Int) + (Q : Int)) (by have := g.lo; omega)
          have e3 : r - (k : Int) + (Q : Int) - (Q : Int) = r - (k : Int) := by omega
          rw [e3] at i2; exact i2
      grind
  by_cases hr : r ≤ r'
  · have := right (r' - r).toNat
    have e : r + ((r' - r).toNat : Int) = r' := by omega
    rw [e] at this; exact this
  · have := left (r - r').toNat
    have e : r - ((r - r').toNat : Int) = r' := by omega
    rw [e] at this; exact this

/-! ### the trajectory of the search -/

/-- Reorder point after `k` growth steps (the window then has `k+1` positions). -/
def traj (G : Int → Rat) (S : Int) : Nat → Int
  | 0 => S - 1
  | k+1 => grow G (traj G S k) (k + 1)

theorem good_traj {G : Int → Rat} {S : Int} (h : Unimodal G S) (k : Nat) : Good G S (traj G S k) (k + 1) := by
  induction k with
  | zero => exact good_start h
  | succ k ih => exact good_grow h ih

/-- Growing by the cheaper neighbour adds exactly its value to the window sum. -/
theorem windowSum_grow (G : Int → Rat) (r : Int) (Q : Nat) :
    windowSum G (grow G r Q) (Q + 1) = windowSum G r Q + gam G r Q := by
  unfold grow gam
  by_cases hc : G r < G (r + (Q : Int) + 1)
  · rw [if_pos hc, if_pos hc, windowSum_shift]; grind
  · rw [if_neg hc, if_neg hc]
    have : windowSum G r (Q + 1) = windowSum G r Q + G (r + ((Q + 1 : Nat) : Int)) := rfl
    rw [this]
    have e : r + ((Q + 1 : Nat) : Int) = r + (Q : Int) + 1 := by push_cast; omega
    rw [e]

/-- Numerator of the average cost after `k` steps, and the value added at the next step. -/
def num (G : Int → Rat) (Klam : Rat) (S : Int) (k : Nat) : Rat := Klam + windowSum G (traj G S k) (k + 1)
def gamk (G : Int → Rat) (S : Int) (k : Nat) : Rat := gam G (traj G S k) (k + 1)

theorem num_succ (G : Int → Rat) (Klam : Rat) (S : Int) (k : Nat) :
    num G Klam S (k + 1) = num G Klam S k + gamk G S k := by
  simp only [num, gamk, traj]
  rw [windowSum_grow]; grind

/-- The added values never decrease: the window always takes the cheapest position outside it. -/
theorem gamk_mono {G : Int → Rat} {S : Int} (h : Unimodal G S) (k : Nat) : gamk G S k ≤ gamk G S (k + 1) := by
  have g1 := good_traj h k
  have g2 := good_traj h (k + 1)
  -- the position added at step k lies inside the new window
  have hin : ∃ y, traj G S (k + 1) < y ∧ y ≤ traj G S (k + 1) + ((k + 1 + 1 : Nat) : Int) ∧ G y = gamk G S k := by
    simp only [gamk, gam, traj, grow]
    by_cases hc : G (traj G S k) < G (traj G S k + ((k + 1 : Nat) : Int) + 1)
    · rw [if_pos hc, if_pos hc]
      exact ⟨traj G S k, by omega, by push_cast; omega, rfl⟩
    · rw [if_neg hc, if_neg hc]
      exact ⟨traj G S k + ((k + 1 : Nat) : Int) + 1, by omega, by push_cast; omega, rfl⟩
  obtain ⟨y, y1, y2, y3⟩ := hin
  have := g2.inside y y1 y2
  rw [← y3]
  simp only [gamk, gam]
  split <;> grind

def ck (G : Int → Rat) (Klam : Rat) (S : Int) (k : Nat) : Rat := cost G Klam (traj G S k) (k + 1)

theorem ck_eq (G : Int → Rat) (Klam : Rat) (S : Int) (k : Nat) :
    ck G Klam S k = num G Klam S k / ((k + 1 : Nat) : Rat) := rfl

theorem natpos (k : Nat) : (0 : Rat) < ((k + 1 : Nat) : Rat) := by
  have : ((0 : Nat) : Rat) < ((k + 1 : Nat) : Rat) := by exact_mod_cast Nat.succ_pos k
  simpa using this

theorem div_le_div_right' {a b n : Rat} (hn : 0 < n) (h : a ≤ b) : a / n ≤ b / n := by
  rw [Rat.div_def, Rat.div_def]
  exact Rat.mul_le_mul_of_nonneg_right h (Rat.le_of_lt (Rat.inv_pos.mpr hn))

/-- `c_{k+1} > c_k` exactly when the added value exceeds the current average (cross-multiplied). -/
theorem ck_step (G : Int → Rat) (Klam : Rat) (S : Int) (k : Nat) :
    (ck G Klam S (k + 1) > ck G Klam S k ↔ num G Klam S k < ((k + 1 : Nat) : Rat) * gamk G S k) := by
  rw [ck_eq, ck_eq, num_succ]
  have h1 := natpos k
  have h2 := natpos (k + 1)
  have e : ((k + 1 + 1 : Nat) : Rat) = ((k + 1 : Nat) : Rat) + 1 := by push_cast; rfl
  constructor
  · intro hgt
    have : num G Klam S k / ((k + 1 : Nat) : Rat) < (num G Klam S k + gamk G S k) / ((k + 1 + 1 : Nat) : Rat) := hgt
    rw [Rat.div_lt_iff h1, Rat.div_def, Rat.mul_assoc, Rat.mul_comm _ ((k+1 : Nat) : Rat), ← Rat.mul_assoc,
        ← Rat.div_def, Rat.lt_div_iff h2, e] at this
    grind
  · intro hlt
    show num G Klam S k / ((k + 1 : Nat) : Rat) < (num G Klam S k + gamk G S k) / ((k + 1 + 1 : Nat) : Rat)
    rw [Rat.div_lt_iff h1, Rat.div_def, Rat.mul_assoc, Rat.mul_comm _ ((k+1 : Nat) : Rat), ← Rat.mul_assoc,
        ← Rat.div_def, Rat.lt_div_iff h2, e]
    grind

/-- Once the average cost goes up it keeps going up. -/
theorem cond_persists {G : Int → Rat} {S : Int} (h : Unimodal G S) (Klam : Rat) (k : Nat)
    (hc : num G Klam S k < ((k + 1 : Nat) : Rat) * gamk G S k) :
    num G Klam S (k + 1) < ((k + 1 + 1 : Nat) : Rat) * gamk G S (k + 1) := by
  rw [num_succ]
  have e : ((k + 1 + 1 : Nat) : Rat) = ((k + 1 : Nat) : Rat) + 1 := by push_cast; rfl
  rw [e]
  have hm := gamk_mono h k
  have hp := natpos k
  have : ((k + 1 : Nat) : Rat) * gamk G S k ≤ ((k + 1 : Nat) : Rat) * gamk G S (k + 1) :=
    Rat.mul_le_mul_of_nonneg_left hm (Rat.le_of_lt hp)
  grind

theorem after_stop {G : Int → Rat} {S : Int} (h : Unimodal G S) (Klam : Rat) (j : Nat)
    (hc : num G Klam S j < ((j + 1 : Nat) : Rat) * gamk G S j) (d : Nat) :
    ck G Klam S j ≤ ck G Klam S (j + d) ∧
    num G Klam S (j + d) < ((j + d + 1 : Nat) : Rat) * gamk G S (j + d) := by
  induction d with
  | zero => exact ⟨Rat.le_refl, hc⟩
  | succ d ih =>
    obtain ⟨i1, i2⟩ := ih
    have := (ck_step G Klam S (j + d)).mpr i2
    refine ⟨?_, cond_persists h Klam (j + d) i2⟩
    have e : j + (d + 1) = j + d + 1 := by omega
    rw [e]
    exact Rat.le_trans i1 (Rat.le_of_lt this)

/-- What the loop returns, in terms of the trajectory. -/
theorem fzLoop_traj (G : Int → Rat) (Klam : Rat) (S : Int) (fuel : Nat) (k : Nat) (sol : Sol)
    (hrun : fzLoop G Klam fuel (traj G S k) (k + 1) (ck G Klam S k) = some sol) :
    ∃ j, k ≤ j ∧ sol = ⟨traj G S j, j + 1, ck G Klam S j⟩ ∧ ck G Klam S (j + 1) > ck G Klam S j ∧
      ∀ i, k ≤ i → i < j → ¬ (ck G Klam S (i + 1) > ck G Klam S i) := by
  induction fuel generalizing k with
  | zero => simp [fzLoop] at hrun
  | succ f ih =>
    rw [fzLoop_succ] at hrun
    have hnext : cost G Klam (if G (traj G S k) < G (traj G S k + ((k + 1 : Nat) : Int) + 1) then traj G S k - 1
        else traj G S k) (k + 1 + 1) = ck G Klam S (k + 1) := rfl
    rw [hnext] at hrun
    by_cases hc : ck G Klam S (k + 1) > ck G Klam S k
    · rw [if_pos hc] at hrun
      simp only [Option.some.injEq] at hrun
      exact ⟨k, Nat.le_refl k, hrun.symm, hc, fun i h1 h2 => absurd h2 (by omega)⟩
    · rw [if_neg hc] at hrun
      have hstate : (if G (traj G S k) < G (traj G S k + ((k + 1 : Nat) : Int) + 1) then traj G S k - 1
          else traj G S k) = traj G S (k + 1) := rfl
      rw [hstate] at hrun
      obtain ⟨j, hj, hs, hgt, hbefore⟩ := ih (k + 1) hrun
      refine ⟨j, by omega, hs, hgt, ?_⟩
      intro i h1 h2
      by_cases hik : i = k
      · subst hik; exact hc
      · exact hbefore i (by omega) h2

/-- **Global optimality of the Federgruen–Zheng search** for a unimodal `G`: no reorder point and no order
quantity `Q ≥ 1` has a lower average cost than the pair it returns. -/
theorem fz_optimal {G : Int → Rat} {S : Int} (h : Unimodal G S) (Klam : Rat) (fuel : Nat) (sol : Sol)
    (hrun : fz G Klam S fuel = some sol) (r' : Int) (Q' : Nat) (hQ : 1 ≤ Q') :
    sol.g ≤ cost G Klam r' Q' := by
  unfold fz at hrun
  obtain ⟨j, _, hs, hgt, hbefore⟩ := fzLoop_traj G Klam S fuel 0 sol hrun
  have hg : sol.g = ck G Klam S j := by rw [hs]
  rw [hg]
  -- the best window of size Q' is the one the trajectory passes through
  obtain ⟨k, rfl⟩ : ∃ k, Q' = k + 1 := ⟨Q' - 1, by omega⟩
  have hwin : ck G Klam S k ≤ cost G Klam r' (k + 1) := by
    simp only [ck, cost]
    apply div_le_div_right' (natpos k)
    have := window_opt h (good_traj h k) r'
    grind
  refine Rat.le_trans ?_ hwin
  -- and along the trajectory the returned index is the cheapest
  by_cases hkj : j ≤ k
  · have := (after_stop h Klam j ((ck_step G Klam S j).mp hgt) (k - j)).1
    have e : j + (k - j) = k := by omega
    rw [e] at this; exact this
  · -- before the stop the average never increased
    have down : ∀ d, k + d ≤ j → ck G Klam S (k + d) ≤ ck G Klam S k := by
      intro d
      induction d with
      | zero => intro _; exact Rat.le_refl
      | succ d ih =>
        intro hle
        have i1 := ih (by omega)
        have i2 := hbefore (k + d) (by omega) (by omega)
        have e : k + (d + 1) = k + d + 1 := by omega
        rw [e]
        exact Rat.le_trans (Rat.not_lt.mp i2) i1
    have := down (j - k) (by omega)
    have e : k + (j - k) = j := by omega
    rw [e] at this; exact this

/-! ### the hypothesis as an executable check on the table the harness supplies -/

theorem getD_le_big (vals : List Rat) (hall : ∀ v ∈ vals, v ≤ 1000000000) (i : Nat) :
    vals.getD i 1000000000 ≤ 1000000000 := by
  by_cases hi : i < vals.length
  · rw [List.getD_eq_getElem?_getD, List.getElem?_eq_getElem hi]; exact hall _ (List.getElem_mem hi)
  · rw [List.getD_eq_getElem?_getD, List.getElem?_eq_none (Nat.le_of_not_lt hi)]; exact Rat.le_refl

theorem getD_default (vals : List Rat) (i : Nat) (hi : i < vals.length) (d d' : Rat) :
    vals.getD i d = vals.getD i d' := by
  simp [List.getD_eq_getElem?_getD, List.getElem?_eq_getElem hi]

theorem tableFn_unimodal (lo : Int) (vals : List Rat) (S : Int) (h : tableUnimodalb lo vals S = true) :
    Unimodal (tableFn lo vals) S := by
  simp only [tableUnimodalb, Bool.and_eq_true, decide_eq_true_eq, List.all_eq_true, List.mem_range] at h
  obtain ⟨⟨⟨h1, h2⟩, h3⟩, h4⟩ := h
  have hall : ∀ v ∈ vals, v ≤ 1000000000 := fun v hv => by simpa using h3 v hv
  constructor
  · intro y hy
    simp only [tableFn]
    by_cases hlo : y < lo
    · rw [if_pos hlo]
      by_cases hlo' : y + 1 < lo
      · rw [if_pos hlo']; exact Rat.le_refl
      · rw [if_neg hlo']; exact getD_le_big vals hall _
    · rw [if_neg hlo, if_neg (by omega)]
      have hi : (y - lo).toNat < vals.length - 1 := by omega
      have := h4 (y - lo).toNat hi
      have e1 : lo + ((y - lo).toNat : Int) = y := by omega
      rw [e1, if_pos hy] at this
      have e2 : (y + 1 - lo).toNat = (y - lo).toNat + 1 := by omega
      rw [e2, getD_default vals ((y - lo).toNat + 1) (by omega) 1000000000 0,
          getD_default vals ((y - lo).toNat) (by omega) 1000000000 0]
      simpa using this
  · intro y hy
    simp only [tableFn]
    rw [if_neg (by omega), if_neg (by omega)]
    by_cases hin : (y - lo).toNat < vals.length - 1
    · have := h4 (y - lo).toNat hin
      have e1 : lo + ((y - lo).toNat : Int) = y := by omega
      rw [e1, if_neg (by omega)] at this
      have e2 : (y + 1 - lo).toNat = (y - lo).toNat + 1 := by omega
      rw [e2, getD_default vals ((y - lo).toNat + 1) (by omega) 1000000000 0,
          getD_default vals ((y - lo).toNat) (by omega) 1000000000 0]
      simpa using this
    · have e2 : vals.length ≤ (y + 1 - lo).toNat := by omega
      rw [List.getD_eq_getElem?_getD (l := vals) (i := (y + 1 - lo).toNat), List.getElem?_eq_none e2]
      exact getD_le_big vals hall _

/-- The search on a table that passes the executable check returns a globally optimal pair. -/
theorem fz_optimal_table (lo : Int) (vals : List Rat) (S : Int) (h : tableUnimodalb lo vals S = true)
    (Klam : Rat) (fuel : Nat) (sol : Sol) (hrun : fz (tableFn lo vals) Klam S fuel = some sol)
    (r' : Int) (Q' : Nat) (hQ : 1 ≤ Q') : sol.g ≤ cost (tableFn lo vals) Klam r' Q' :=
  fz_optimal (tableFn_unimodal lo vals S h) Klam fuel sol hrun r' Q' hQ

/-- Non-vacuity: a concrete unimodal table. -/
example : tableUnimodalb (-1) [9, 4, 1, 0, 2, 7] 2 = true := by decide +kernel

end Stockpyl.RQ
