import StockpylModel.Props.MP
import StockpylModel.Lemmas.Sim
/-!
# C04 — every order follows the node's inventory policy
-/
namespace Stockpyl.Sim
open Stockpyl

/-- Base-stock raises the position to `S`, never orders a negative amount. -/
theorem bs_rule (S ip : Rat) :
    (Policy.BS S).qty ip = max 0 (S - ip) ∧ ip + (Policy.BS S).qty ip = max ip S ∧ 0 ≤ (Policy.BS S).qty ip := by
  simp only [Policy.qty]; grind

theorem ebs_rule (S ip : Rat) :
    (Policy.EBS S).qty ip = max 0 (S - ip) ∧ ip + (Policy.EBS S).qty ip = max ip S := by
  simp only [Policy.qty]; grind

/-- (s,S): order up to `S` iff the position is at or below `s`. -/
theorem sS_rule (s S ip : Rat) :
    (ip ≤ s → ip + (Policy.sS s S).qty ip = S) ∧ (s < ip → (Policy.sS s S).qty ip = 0) ∧
    (s ≤ S → 0 ≤ (Policy.sS s S).qty ip) := by
  simp only [Policy.qty]; refine ⟨?_, ?_, ?_⟩ <;> intro h <;> split <;> grind

/-- (r,Q): order `Q` iff the position is at or below `r`. -/
theorem rQ_rule (r Q ip : Rat) :
    (ip ≤ r → (Policy.rQ r Q).qty ip = Q) ∧ (r < ip → (Policy.rQ r Q).qty ip = 0) := by
  simp only [Policy.qty]; constructor <;> intro h <;> split <;> grind

/-- Fixed quantity always orders `Q`. -/
theorem fq_rule (Q ip : Rat) : (Policy.FQ Q).qty ip = Q := rfl

/-- Capacity: the order is the policy quantity capped by the capacity; `None` and `0` mean "no capacity". -/
theorem capped_rule (q c : Rat) (hc : c ≠ 0) :
    capped q none = q ∧ capped q (some 0) = q ∧ capped q (some c) = min q c := by
  simp [capped, hc]

/-- In the simulation model the finished-goods order of node `n` is exactly `capped (policy (IP observed))`
and it is what every raw-material order of that node equals (network BOM number 1), unless an
order-pausing disruption is active, in which case nothing changes at all. -/
theorem placeOrders_follows_policy (net : Net) (n : Nat) (st : State) :
    (isDisr net st n .OP = true → placeOrders net n st = st) ∧
    (isDisr net st n .OP = false →
      ∀ x, st.nodes[n]? = some x →
        ((placeOrders net n st).nodes[n]?).map (·.oqfg) =
          some (x.oqfg + capped ((net.cfg n).policy.qty (ipObserved net st n)) (net.cfg n).cap)) := by
  constructor
  · intro h; simp [placeOrders, h]
  · intro h x hx
    simp [placeOrders, h, State.modNode, State.modEdges, orderQty]
    have : ∀ (es : List Nat) (f : Nat → EdgeSt → EdgeSt) (s : State),
        (es.foldl (fun s e => s.modEdge e (f e)) s).nodes = s.nodes := by
      intro es f
      induction es with
      | nil => intro s; rfl
      | cons e es ih => intro s; simp only [List.foldl_cons]; rw [ih]; rfl
    rw [this]
    simp [hx]

/-- Inventory position observed by a local policy: inventory level + what the pipeline can still deliver
(min over raw materials of on-order + raw material + held inbound) − demand received this period. -/
theorem ipObserved_local (net : Net) (st : State) (n : Nat) (h : ∀ S, (net.cfg n).policy ≠ .EBS S) :
    ipObserved net st n = (st.node n).il
      + lmin ((net.cfg n).inE.map fun e => (st.edge e).rm + (st.edge e).oo + (st.edge e).idi)
      - demandNow net st n := by
  unfold ipObserved localIP
  split
  · rename_i S hS; exact absurd hS (h S)
  · rfl

example : (Policy.sS 3 9).qty 2 = 7 ∧ (Policy.sS 3 9).qty 4 = 0 ∧ capped 7 (some 5) = 5 := by decide +kernel

end Stockpyl.Sim
