import StockpylModel.Props.C01
/-!
# C03 — lead-time exactness and exact on-order (kernel / single-edge level)
-/
namespace Stockpyl.Sim
open Stockpyl

/-- On-order is exact across a whole period of an internal edge: if on-order equals (orders travelling to the
supplier + supplier's backorders and held items for this customer + units in transit) at the start of the
period, it does so at the start of the next one — for ANY order quantity, on-hand and disruption flags.
(Units held at the customer's door by a receipt pause have left `on-order`; they are tracked by `idi`.) -/
theorem on_order_exact_period (olt slt : Nat) (q oh : Rat) (sp tp rp : Bool) (e : EdgeSt)
    (hq : 0 ≤ q) (hoh : 0 ≤ oh) (hs : slt < e.ispl.length) (ho : olt < e.iopl.length)
    (hbo : 0 ≤ e.bo) (hodi : 0 ≤ e.odi) (hio : allNonneg e.iopl) :
    ledger (edgePeriod olt slt q oh sp tp rp e).2 = ledger e := by
  simp only [edgePeriod, ledger]
  have p1 := placeOrder_int_conserves olt slt q e ho
  have hio1 : allNonneg (placeOrderEdge olt slt false q e).iopl := by
    simp only [placeOrderEdge]; exact allNonneg_addAt _ _ _ hio hq
  generalize placeOrderEdge olt slt false q e = e1 at p1 hio1 ⊢
  obtain ⟨p1a, p1b, _, p1d, p1e, p1f⟩ := p1
  have q2 : (recvOrderEdge e1).io = e1.iopl.headD 0 ∧ (recvOrderEdge e1).ispl = e1.ispl ∧
      (recvOrderEdge e1).bo = e1.bo ∧ (recvOrderEdge e1).odi = e1.odi ∧ (recvOrderEdge e1).oo = e1.oo ∧
      lsum (recvOrderEdge e1).iopl = lsum e1.iopl - e1.iopl.headD 0 ∧
      (recvOrderEdge e1).iopl.headD 0 = 0 := by
    refine ⟨by simp [recvOrderEdge], by simp [recvOrderEdge], by simp [recvOrderEdge], by simp [recvOrderEdge],
      by simp [recvOrderEdge], ?_, ?_⟩
    · simp only [recvOrderEdge]; exact lsum_set_zero _
    · simp only [recvOrderEdge]; cases e1.iopl <;> simp
  have hio2 : 0 ≤ (recvOrderEdge e1).io := by rw [q2.1]; exact headD_nonneg _ hio1
  generalize recvOrderEdge e1 = e2 at q2 hio2 ⊢
  obtain ⟨q2a, q2b, q2c, q2d, q2e, q2f, q2g⟩ := q2
  have f3 := shipOne_frame oh sp false e2
  have a3 := shipOne_accounting oh sp e2 hoh (by rw [q2c, p1e]; exact hbo) hio2 (by rw [q2d, p1f]; exact hodi)
  simp only at f3 a3
  generalize (shipOne oh sp false e2).e = e3 at f3 a3 ⊢
  obtain ⟨f3a, _, f3c, _, _, _, f3g, f3h⟩ := f3
  have hlen : slt < e3.ispl.length := by rw [f3a, q2b, p1d]; exact hs
  have c5 := recvShip_conserves rp { e3 with ispl := addAt e3.ispl slt e3.os }
  simp only at c5
  have l4 : lsum (addAt e3.ispl slt e3.os) = lsum e3.ispl + e3.os := lsum_addAt _ _ _ hlen
  -- what the receipt does to the pipeline total and on-order
  have r5 : lsum (recvShipEdge rp { e3 with ispl := addAt e3.ispl slt e3.os }).ispl
      = lsum (addAt e3.ispl slt e3.os) - (addAt e3.ispl slt e3.os).headD 0 := by
    cases rp <;> simp [recvShipEdge, lsum_set_zero]
  generalize recvShipEdge rp { e3 with ispl := addAt e3.ispl slt e3.os } = e5 at c5 r5 ⊢
  obtain ⟨_, _, c5c, c5d, _, _, c5g, c5h, _⟩ := c5
  have n6 := nextEdge_conserves tp e5
  simp only at n6
  obtain ⟨n6a, _, _, n6d, n6e, n6f, n6g, _⟩ := n6
  rw [n6a, n6d, n6e, n6f, n6g, c5c, c5d, c5g, c5h, r5, l4, f3g, q2f, q2g, f3c, q2e, p1b, p1a, f3a, q2b, p1d]
  have : e3.bo + e3.odi + e3.os = e.bo + e.odi + e1.iopl.headD 0 := by
    rw [a3, q2c, q2d, q2a, p1e, p1f]
  grind

/-- Same for the edge from the external supplier: on-order = units in transit, always. -/
theorem on_order_exact_ext (olt slt : Nat) (q : Rat) (tp rp : Bool) (e : EdgeSt)
    (hs : olt + slt < e.ispl.length) :
    let r := extSupplyPeriod olt slt q tp rp e
    r.2.oo - lsum r.2.ispl = e.oo - lsum e.ispl := by
  simp only [extSupplyPeriod]
  have p1 := placeOrder_ext_conserves olt slt q e hs
  generalize placeOrderEdge olt slt true q e = e1 at p1 ⊢
  obtain ⟨p1a, p1b, _, _, _⟩ := p1
  have r5 : lsum (recvShipEdge rp e1).ispl = lsum e1.ispl - e1.ispl.headD 0 ∧
      (recvShipEdge rp e1).oo = e1.oo - e1.ispl.headD 0 := by
    cases rp <;> simp [recvShipEdge, lsum_set_zero]
  generalize recvShipEdge rp e1 = e5 at r5 ⊢
  have n6 := nextEdge_conserves tp e5
  simp only at n6
  obtain ⟨n6a, _, _, n6d, _⟩ := n6
  rw [n6a, n6d, r5.1, r5.2, p1a, p1b]; grind

/-! ### Lead times: the position of a unit in a pipeline -/

/-- An order written at slot `k` of the order pipeline is at slot `k - j` after `j ≤ k` period shifts,
hence is read by the supplier (slot 0) exactly `k` = order-lead-time periods later. Stated for one shift;
`orders_arrive` iterates it. -/
theorem shiftOrders_get (l : List Rat) (k : Nat) : (shiftOrders l)[k]?.getD 0 = l[k+1]?.getD 0 := by
  cases l with
  | nil => simp [shiftOrders]
  | cons x xs =>
    simp only [shiftOrders, List.tail_cons, List.isEmpty_cons, Bool.false_eq_true, ↓reduceIte,
      List.getElem?_cons_succ]
    by_cases h : k < xs.length
    · simp [List.getElem?_append_left h]
    · have h' : xs.length ≤ k := Nat.le_of_not_lt h
      rw [List.getElem?_append_right h']
      have : xs[k]? = none := List.getElem?_eq_none h'
      rw [this]
      cases hk : k - xs.length <;> simp

/-- `j` shifts move slot `k + j` to slot `k`. -/
theorem shiftOrders_iter (l : List Rat) (j k : Nat) :
    (Nat.repeat shiftOrders j l)[k]?.getD 0 = l[k + j]?.getD 0 := by
  induction j generalizing k with
  | zero => simp [Nat.repeat]
  | succ j ih =>
    simp only [Nat.repeat]
    rw [shiftOrders_get, ih]
    congr 2; omega

/-- Orders arrive exactly one order lead time later: what is written into slot `olt` now is what the
supplier reads from slot 0 after `olt` shifts (the slots in between are only ever shifted, and a later
order is written at slot `olt` again, behind it). -/
theorem orders_arrive (l : List Rat) (olt : Nat) (q : Rat) (h : olt < l.length) :
    (Nat.repeat shiftOrders olt (addAt l olt q)).headD 0 = l[olt]?.getD 0 + q := by
  have := shiftOrders_iter (addAt l olt q) olt 0
  simp only [Nat.zero_add] at this
  have hd : ∀ m : List Rat, m.headD 0 = m[0]?.getD 0 := by intro m; cases m <;> simp
  rw [hd, this]
  simp [addAt, List.getElem?_modify, h]

/-- Shipment pipeline, one period without a transit pause: after the receipt emptied slot 0, slot `k+1`
moves to slot `k`; nothing is dropped (the total is `lsum_shiftPipe`). -/
theorem shiftPipe_get (l : List Rat) (k : Nat) (h0 : l.headD 0 = 0) :
    (shiftPipe l)[k]?.getD 0 = l[k+1]?.getD 0 := by
  match l with
  | [] => simp [shiftPipe]
  | [x] => simp at h0; subst h0; cases k <;> simp [shiftPipe]
  | x :: y :: rest =>
    simp at h0; subst h0
    cases k with
    | zero => simp [shiftPipe]; grind
    | succ k =>
      simp only [shiftPipe, List.getElem?_cons_succ]
      by_cases h : k < rest.length
      · simp [List.getElem?_append_left h]
      · have h' : rest.length ≤ k := Nat.le_of_not_lt h
        rw [List.getElem?_append_right h']
        have : rest[k]? = none := List.getElem?_eq_none h'
        rw [this]
        cases hk : k - rest.length <;> simp

/-- A transit pause freezes the pipeline: nothing advances, nothing is lost. -/
theorem tp_freezes (e : EdgeSt) : (nextEdge true e).ispl = e.ispl := by simp [nextEdge]

/-- When a receipt pause ends, everything held at the door is received together with slot 0. -/
theorem rp_releases (e : EdgeSt) :
    (recvShipEdge false e).is_ = e.ispl.headD 0 + e.idi ∧ (recvShipEdge false e).idi = 0 ∧
    (recvShipEdge true e).is_ = 0 ∧ (recvShipEdge true e).idi = e.idi + e.ispl.headD 0 := by
  simp [recvShipEdge]

end Stockpyl.Sim
