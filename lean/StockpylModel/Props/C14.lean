import StockpylModel.Model.RQ
import StockpylModel.Lemmas.Basic
/-!
# C14 — (r,Q): evaluators equal their definitions; the Poisson algorithm reports the cost of its pair
-/
namespace Stockpyl.RQ
open Stockpyl

/-- The Poisson (r,Q) cost is the documented sum: `(Kλ + Σ_{y=r+1}^{r+Q} G(y))/Q`, with the window sum
satisfying its defining recursion (each step adds the next integer inventory position). -/
theorem cost_def (G : Int → Rat) (Klam : Rat) (r : Int) (Q : Nat) :
    cost G Klam r Q = (Klam + windowSum G r Q) / (Q : Rat) ∧
    windowSum G r 0 = 0 ∧ windowSum G r (Q + 1) = windowSum G r Q + G (r + ((Q + 1 : Nat) : Int)) :=
  ⟨rfl, rfl, rfl⟩

/-- Shifting the window left by one: the leftmost new position enters, positions keep their values. -/
theorem windowSum_shift (G : Int → Rat) (r : Int) (Q : Nat) :
    windowSum G (r - 1) (Q + 1) = G r + windowSum G r Q := by
  induction Q with
  | zero => simp [windowSum]; grind
  | succ q ih =>
    have : windowSum G (r - 1) (q + 1 + 1) = windowSum G (r - 1) (q + 1) + G (r - 1 + ((q + 1 + 1 : Nat) : Int)) := rfl
    rw [this, ih]
    have e : r - 1 + ((q + 1 + 1 : Nat) : Int) = r + ((q + 1 : Nat) : Int) := by push_cast; omega
    rw [e]
    simp only [windowSum]; grind

theorem fzLoop_succ (G : Int → Rat) (Klam : Rat) (f : Nat) (r : Int) (Q : Nat) (g : Rat) :
    fzLoop G Klam (f+1) r Q g =
      if cost G Klam (if G r < G (r + (Q : Int) + 1) then r - 1 else r) (Q + 1) > g then some ⟨r, Q, g⟩
      else fzLoop G Klam f (if G r < G (r + (Q : Int) + 1) then r - 1 else r) (Q + 1)
        (cost G Klam (if G r < G (r + (Q : Int) + 1) then r - 1 else r) (Q + 1)) := rfl

/-- The Federgruen–Zheng search returns a pair whose reported cost is that pair's cost. -/
theorem fzLoop_reports_cost (G : Int → Rat) (Klam : Rat) (fuel : Nat) (r : Int) (Q : Nat) (g : Rat) (sol : Sol)
    (hinv : g = cost G Klam r Q) (h : fzLoop G Klam fuel r Q g = some sol) :
    sol.g = cost G Klam sol.r sol.Q := by
  induction fuel generalizing r Q g with
  | zero => simp [fzLoop] at h
  | succ f ih =>
    rw [fzLoop_succ] at h
    generalize (if G r < G (r + (Q : Int) + 1) then r - 1 else r) = r' at h
    by_cases hc : cost G Klam r' (Q + 1) > g
    · rw [if_pos hc] at h
      simp only [Option.some.injEq] at h; subst h; exact hinv
    · rw [if_neg hc] at h
      exact ih _ _ _ rfl h

theorem fzLoop_Q_pos (G : Int → Rat) (Klam : Rat) (fuel : Nat) (r : Int) (Q : Nat) (g : Rat) (sol : Sol)
    (hQ : 1 ≤ Q) (h : fzLoop G Klam fuel r Q g = some sol) : 1 ≤ sol.Q := by
  induction fuel generalizing r Q g with
  | zero => simp [fzLoop] at h
  | succ f ih =>
    rw [fzLoop_succ] at h
    generalize (if G r < G (r + (Q : Int) + 1) then r - 1 else r) = r' at h
    by_cases hc : cost G Klam r' (Q + 1) > g
    · rw [if_pos hc] at h
      simp only [Option.some.injEq] at h; subst h; exact hQ
    · rw [if_neg hc] at h
      exact ih _ _ _ (by omega) h

theorem fz_reports_cost (G : Int → Rat) (Klam : Rat) (S : Int) (fuel : Nat) (sol : Sol)
    (h : fz G Klam S fuel = some sol) : sol.g = cost G Klam sol.r sol.Q ∧ 1 ≤ sol.Q := by
  unfold fz at h
  exact ⟨fzLoop_reports_cost G Klam fuel _ _ _ sol rfl h, fzLoop_Q_pos G Klam fuel _ 1 _ sol (Nat.le_refl 1) h⟩

/-- Local optimality certified by the stopping rule: growing the window by its cheaper neighbour makes the
average cost strictly larger than the reported one. -/
theorem fzLoop_stops_at_increase (G : Int → Rat) (Klam : Rat) (fuel : Nat) (r : Int) (Q : Nat) (g : Rat) (sol : Sol)
    (h : fzLoop G Klam fuel r Q g = some sol) :
    sol.g < cost G Klam (if G sol.r < G (sol.r + (sol.Q : Int) + 1) then sol.r - 1 else sol.r) (sol.Q + 1) := by
  induction fuel generalizing r Q g with
  | zero => simp [fzLoop] at h
  | succ f ih =>
    rw [fzLoop_succ] at h
    by_cases hc : cost G Klam (if G r < G (r + (Q : Int) + 1) then r - 1 else r) (Q + 1) > g
    · rw [if_pos hc] at h
      simp only [Option.some.injEq] at h; subst h
      exact hc
    · rw [if_neg hc] at h
      exact ih _ _ _ h

/-- The reorder point returned by the bisection equalises the cost curve at `r` and `r+Q` up to `tol`. -/
theorem bisection_post (g : Rat → Rat) (Q tol : Rat) (fuel : Nat) (lo hi r : Rat)
    (h : bisect g Q tol fuel lo hi = some r) :
    -tol ≤ g r - g (r + Q) ∧ g r - g (r + Q) ≤ tol := by
  induction fuel generalizing lo hi with
  | zero => simp [bisect] at h
  | succ f ih =>
    simp only [bisect] at h
    by_cases hc : (if g ((lo + hi) / 2) - g ((lo + hi) / 2 + Q) < 0 then -(g ((lo + hi) / 2) - g ((lo + hi) / 2 + Q))
        else g ((lo + hi) / 2) - g ((lo + hi) / 2 + Q)) > tol
    · rw [if_pos hc] at h
      by_cases hl : g ((lo + hi) / 2) < g ((lo + hi) / 2 + Q)
      · rw [if_pos hl] at h; exact ih _ _ h
      · rw [if_neg hl] at h; exact ih _ _ h
    · rw [if_neg hc] at h
      simp only [Option.some.injEq] at h; subst h
      split at hc <;> constructor <;> grind

/-- … and it stays inside the initial bracket. -/
theorem bisection_in_bracket (g : Rat → Rat) (Q tol : Rat) (fuel : Nat) (lo hi r : Rat) (hlh : lo ≤ hi)
    (h : bisect g Q tol fuel lo hi = some r) : lo ≤ r ∧ r ≤ hi := by
  induction fuel generalizing lo hi with
  | zero => simp [bisect] at h
  | succ f ih =>
    simp only [bisect] at h
    by_cases hc : (if g ((lo + hi) / 2) - g ((lo + hi) / 2 + Q) < 0 then -(g ((lo + hi) / 2) - g ((lo + hi) / 2 + Q))
        else g ((lo + hi) / 2) - g ((lo + hi) / 2 + Q)) > tol
    · rw [if_pos hc] at h
      by_cases hl : g ((lo + hi) / 2) < g ((lo + hi) / 2 + Q)
      · rw [if_pos hl] at h
        have := ih lo ((lo + hi) / 2) (by grind) h; constructor <;> grind
      · rw [if_neg hl] at h
        have := ih ((lo + hi) / 2) hi (by grind) h; constructor <;> grind
    · rw [if_neg hc] at h
      simp only [Option.some.injEq] at h; subst h; constructor <;> grind

def exG : Int → Rat := fun y => if y < 4 then 4 * (4 - y) else (y - 4)



example : cost exG 6 1 6 = 4 ∧ windowSum exG 1 6 = 18 ∧ cost exG 6 0 7 > cost exG 6 1 6 ∧ cost exG 6 1 7 ≥ cost exG 6 1 6 := by
  decide +kernel

end Stockpyl.RQ
