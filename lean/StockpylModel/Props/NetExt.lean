import StockpylModel.Props.NetPolicy
/-!
# Network level: the edges to the external supplier and to the external customer

* `ext_supply_on_order_network` — on every edge from the external supplier, in every reported state, on-order equals
  exactly what is in the shipment pipeline (orders to the external supplier are never lost or invented), and the
  flow identity `in transit' + held' + received = in transit + held + ordered` holds every period.
* `ext_customer_accounting_step` — on every edge to the external customer, every period:
  `backorders' + shipped = backorders + demand`.
-/
namespace Stockpyl.Sim
open Stockpyl

/-- One period of the whole model, seen from an edge from the external supplier into node `b`. -/
theorem step_edge_extsupply (net : Net) (hwf : NetWF net) (hv : VisitOK net) (st : State) (exo : List Exo)
    (hinv : PInv net st) (hexo : ExoOK exo) (e b : Nat) (he : e < net.edges.length)
    (hsrc : (net.edge e).src = none) (hdst : (net.edge e).dst = some b) :
    ∃ q tp rp m, 0 ≤ q ∧
      (afterPasses net st exo).edge e =
        consumeEdge m (extSupplyPeriod (net.cfg b).olt (net.cfg b).slt q tp rp (st.edge e)).1 ∧
      (step net st exo).2.edge e =
        consumeEdge m (extSupplyPeriod (net.cfg b).olt (net.cfg b).slt q tp rp (st.edge e)).2 := by
  obtain ⟨hnd1, hnd2, hall⟩ := hv
  have hev := hall e he
  simp only [edgeVisitOK, hsrc, hdst, Bool.and_eq_true, List.contains_iff_mem] at hev
  obtain ⟨ob, sb⟩ := hev
  have hine : e ∈ (net.cfg b).inE := hwf.dst_inE e he b hdst
  have notin : ∀ n, n ≠ b → e ∉ (net.cfg n).inE := by
    intro n hn hm
    have := (hwf.inE_dst n e hm).1
    rw [hdst] at this
    exact hn (Option.some.inj this).symm
  have notout : ∀ n, e ∉ (net.cfg n).outE := by
    intro n hm
    have := (hwf.outE_src n e hm).1
    rw [hsrc] at this
    exact absurd this (by simp)
  obtain ⟨x1, x2, x3⟩ := setExo_spec net exo st hexo hinv.2
  have p1 : PInv net (setExo net exo st) := ⟨by rw [x1]; exact hinv.1, x2⟩
  have e1 : (setExo net exo st).edge e = st.edge e := x3 e (by rw [hdst]; simp)
  obtain ⟨q, hq, hplace⟩ := passG_single (orderOp net) (fun s => s.edge e) (PInv net) (pinv_orderOp net hwf) b
    (fun ed ed' => ∃ q, 0 ≤ q ∧ ed' = placeOrderEdge (net.cfg b).olt (net.cfg b).slt true q ed)
    (by
      intro n s hs hnb
      exact (orderOp_spec net hwf n s hs.1).2.1 e (by rw [hs.1]; exact he) (notin n hnb) (notout n))
    (by
      intro s hs
      obtain ⟨q, hq, hh⟩ := (orderOp_spec net hwf b s hs.1).2.2.2 e hine
      refine ⟨q, hq, ?_⟩
      rw [hh, hsrc]; rfl)
    (orderSeq net) _ p1 hnd1 ob
  have p2 := pass_inv (orderOp net) (PInv net) (pinv_orderOp net hwf) (orderSeq net) _ p1
  obtain ⟨rp, m, hrs⟩ := passG_single (nodeShip net) (fun s => s.edge e) (PInv net) (pinv_nodeShip net hwf) b
    (fun ed ed' => ∃ rp m, ed' = consumeEdge m (recvShipEdge rp ed))
    (by
      intro n s hs hnb
      exact (nodeShip_spec net hwf n s hs.1 hs.2).2.1 e (by rw [hs.1]; exact he) (notin n hnb) (notout n))
    (by
      intro s hs
      exact ⟨_, _, (nodeShip_spec net hwf b s hs.1 hs.2).2.2.1 e hine⟩)
    (shipSeq net) _ p2 hnd2 sb
  have p3 : PInv net (afterPasses net st exo) :=
    pass_inv (nodeShip net) (PInv net) (pinv_nodeShip net hwf) (shipSeq net) _ p2
  have hfinal : (afterPasses net st exo).edge e =
      consumeEdge m (extSupplyPeriod (net.cfg b).olt (net.cfg b).slt q (tpFlag net (afterPasses net st exo) e) rp (st.edge e)).1 := by
    show ((shipSeq net).foldl (fun s n => nodeShip net n s)
      ((orderSeq net).foldl (fun s n => orderOp net n s) (setExo net exo st))).edge e = _
    rw [hrs, hplace, e1]
    rfl
  refine ⟨q, tpFlag net (afterPasses net st exo) e, rp, m, hq, hfinal, ?_⟩
  rw [step_snd, initNext_edge net _ e p3.1 (by rw [p3.1]; exact he), hfinal, nextEdge_consume]
  rfl

/-- Length of the shipment pipeline of every edge into a node. -/
def PipeLen (net : Net) (st : State) : Prop :=
  ∀ e b, e < net.edges.length → (net.edge e).src = none → (net.edge e).dst = some b →
    (st.edge e).ispl.length = (net.cfg b).olt + (net.cfg b).slt + 1

theorem extSupplyPeriod_len (olt slt : Nat) (q : Rat) (tp rp : Bool) (e : EdgeSt) :
    (extSupplyPeriod olt slt q tp rp e).1.ispl.length = e.ispl.length ∧
    (extSupplyPeriod olt slt q tp rp e).2.ispl.length = e.ispl.length := by
  have a : (extSupplyPeriod olt slt q tp rp e).1.ispl.length = e.ispl.length := by
    simp only [extSupplyPeriod]
    cases rp <;> simp [recvShipEdge, placeOrderEdge, addAt_length]
  refine ⟨a, ?_⟩
  show (nextEdge tp (extSupplyPeriod olt slt q tp rp e).1).ispl.length = _
  rw [(nextEdge_conserves tp _).2.2.2.2.2.2.2, a]

theorem pipeLen_step (net : Net) (hwf : NetWF net) (hv : VisitOK net) (st : State) (exo : List Exo)
    (hinv : PInv net st) (hexo : ExoOK exo) (hl : PipeLen net st) : PipeLen net (step net st exo).2 := by
  intro e b he hs hd
  obtain ⟨q, tp, rp, m, _, _, h2⟩ := step_edge_extsupply net hwf hv st exo hinv hexo e b he hs hd
  rw [h2]
  show (extSupplyPeriod _ _ q tp rp (st.edge e)).2.ispl.length = _
  rw [(extSupplyPeriod_len _ _ q tp rp (st.edge e)).2]
  exact hl e b he hs hd

theorem pipeLen_init (net : Net) : PipeLen net (initState net) := by
  intro e b he hs hd
  rw [initState_edge net e he]
  have : net.edge e = ⟨none, some b⟩ := by
    cases h : net.edge e with
    | mk s d => simp [h] at hs hd; subst hs; subst hd; rfl
  rw [this]
  simp [initEdge]
  omega

/-- **Edges from the external supplier: on-order is exactly what is in transit, in every reported state.** -/
theorem ext_supply_on_order_network (net : Net) (h1 : netWFb net = true) (h2 : decide (VisitOK net) = true)
    (hist : List (List Exo)) (hexo : ∀ x ∈ hist, ExoOK x) :
    ∀ s ∈ simulate net hist, ∀ e b, e < net.edges.length → (net.edge e).src = none → (net.edge e).dst = some b →
      (s.edge e).oo = lsum (s.edge e).ispl := by
  obtain ⟨hwf, hinit⟩ := netWF_of_check net h1
  have hv : VisitOK net := of_decide_eq_true h2
  have gen : ∀ (hist : List (List Exo)) (st : State), (∀ x ∈ hist, ExoOK x) → NetInv net st → PipeLen net st →
      (∀ e b, e < net.edges.length → (net.edge e).src = none → (net.edge e).dst = some b →
        (st.edge e).oo = lsum (st.edge e).ispl) →
      ∀ s ∈ run net st hist, ∀ e b, e < net.edges.length → (net.edge e).src = none → (net.edge e).dst = some b →
        (s.edge e).oo = lsum (s.edge e).ispl := by
    intro hist
    induction hist with
    | nil => intro st _ _ _ _ s hs; simp [run] at hs
    | cons x xs ih =>
      intro st hx hinv hpl hoo s hs e b he hsrc hdst
      have hxo : ExoOK x := hx x (by simp)
      simp only [run, List.mem_cons] at hs
      have key : ∀ e b, e < net.edges.length → (net.edge e).src = none → (net.edge e).dst = some b →
          ((step net st x).1.edge e).oo = lsum ((step net st x).1.edge e).ispl ∧
          ((step net st x).2.edge e).oo = lsum ((step net st x).2.edge e).ispl := by
        intro e b he hsrc hdst
        obtain ⟨q, tp, rp, m, _, g1, g2⟩ := step_edge_extsupply net hwf hv st x hinv.pinv hxo e b he hsrc hdst
        have hlen := hpl e b he hsrc hdst
        have main := on_order_exact_ext (net.cfg b).olt (net.cfg b).slt q tp rp (st.edge e) (by rw [hlen]; omega)
        simp only at main
        have n6 := nextEdge_conserves tp (extSupplyPeriod (net.cfg b).olt (net.cfg b).slt q tp rp (st.edge e)).1
        simp only at n6
        have h0 := hoo e b he hsrc hdst
        constructor
        · rw [step_fst, costs_edge, g1]
          show (extSupplyPeriod _ _ q tp rp (st.edge e)).1.oo = lsum (extSupplyPeriod _ _ q tp rp (st.edge e)).1.ispl
          have e2 : (extSupplyPeriod (net.cfg b).olt (net.cfg b).slt q tp rp (st.edge e)).2
              = nextEdge tp (extSupplyPeriod (net.cfg b).olt (net.cfg b).slt q tp rp (st.edge e)).1 := rfl
          rw [e2, n6.1, n6.2.2.2.1] at main
          grind
        · rw [g2]
          show (extSupplyPeriod _ _ q tp rp (st.edge e)).2.oo = lsum (extSupplyPeriod _ _ q tp rp (st.edge e)).2.ispl
          grind
      rcases hs with rfl | hs
      · exact (key e b he hsrc hdst).1
      · exact ih (step net st x).2 (fun y hy => hx y (by simp [hy])) (step_netinv net hwf hv st x hinv hxo)
          (pipeLen_step net hwf hv st x hinv.pinv hxo hpl) (fun e b he hs hd => (key e b he hs hd).2) s hs e b he hsrc hdst
  refine gen hist (initState net) hexo (initState_netinv net hinit) (pipeLen_init net) ?_
  intro e b he hs hd
  rw [initState_edge net e he]
  have : net.edge e = ⟨none, some b⟩ := by
    cases h : net.edge e with
    | mk s d => simp [h] at hs hd; subst hs; subst hd; rfl
  rw [this]
  simp only [initEdge, lsum_append, lsum_replicate', lsum, Option.isNone_none, if_true]
  grind

/-! ### edges to the external customer -/

/-- The shipping loop with the flags it actually uses. -/
theorem shipLoop_flags (net : Net) (st : State) (es : List Nat) :
    ∀ (s : State) (oh dm io : Rat), es.Nodup → 0 ≤ oh →
      (∀ e ∈ es, e < s.edges.length ∧ EdgeOK (s.edge e)) →
      ∀ e ∈ es, ∃ oh', 0 ≤ oh' ∧
        (shipLoop net st es s oh dm io).1.edge e =
          (shipOne oh' (flagsOf net st e).1 (flagsOf net st e).2 (s.edge e)).e := by
  induction es with
  | nil => intro s oh dm io _ _ _ e he; simp at he
  | cons x xs ih =>
    intro s oh dm io hnd hoh hok e he
    have hnd' := List.nodup_cons.mp hnd
    obtain ⟨hxl, hxok⟩ := hok x (by simp)
    have hnn := shipOne_nonneg oh (flagsOf net st x).1 (flagsOf net st x).2 (s.edge x) hoh hxok.bo hxok.io hxok.odi
    simp only at hnn
    rw [shipLoop_cons]
    by_cases hxe : x = e
    · subst hxe
      refine ⟨oh, hoh, ?_⟩
      rw [(shipLoop_frame net st xs _ _ _ _ x hnd'.1).1]
      exact edge_modEdge_self s x _ hxl
    · have hm : e ∈ xs := by
        rcases List.mem_cons.mp he with h' | h'
        · exact absurd h'.symm hxe
        · exact h'
      obtain ⟨oh', h1, h2⟩ := ih (s.modEdge x fun _ => (shipOne oh (flagsOf net st x).1 (flagsOf net st x).2 (s.edge x)).e)
        (shipOne oh (flagsOf net st x).1 (flagsOf net st x).2 (s.edge x)).oh
        (dm + (shipOne oh (flagsOf net st x).1 (flagsOf net st x).2 (s.edge x)).dmfs) (io + (s.edge x).io)
        hnd'.2 hnn.2.2.2.1
        (by
          intro e' he'
          have hne : x ≠ e' := fun h => hnd'.1 (h ▸ he')
          obtain ⟨a1, a2⟩ := hok e' (by simp [he'])
          refine ⟨by simpa using a1, ?_⟩
          rw [edge_modEdge_ne _ _ _ _ hne]; exact a2)
        e hm
      refine ⟨oh', h1, ?_⟩
      rw [h2, edge_modEdge_ne _ _ _ _ hxe]

/-- A node's visit in the shipment pass, seen from its edge to the external customer. -/
theorem nodeShip_extcust (net : Net) (hwf : NetWF net) (a : Nat) (s : State)
    (hlen : s.edges.length = net.edges.length) (hok : StateOK s) (e : Nat) (he : e ∈ (net.cfg a).outE)
    (hdst : (net.edge e).dst = none) :
    ∃ oh, 0 ≤ oh ∧ (nodeShip net a s).edge e = (shipOne oh false true (s.edge e)).e := by
  have hl : e < s.edges.length := by rw [hlen]; exact (hwf.outE_src a e he).2
  have hni : e ∉ (net.cfg a).inE := fun hi => not_in_both net hwf a e hi he
  have hokOut : ∀ e' ∈ (net.cfg a).outE, e' < (preShip net a s).edges.length ∧ EdgeOK ((preShip net a s).edge e') := by
    intro e' he'
    have hl' : e' < s.edges.length := by rw [hlen]; exact (hwf.outE_src a e' he').2
    refine ⟨by simpa [preShip] using hl', ?_⟩
    rw [show (preShip net a s).edge e' = s.edge e' from
      pre_out net hwf a s e' hl' (fun hi => not_in_both net hwf a e' hi he')]
    exact hok e' hl'
  have hoh0 : 0 ≤ pos (s.node a).il + ((preShip net a s).node a).newFG := by
    have h1 : 0 ≤ pos (s.node a).il := by unfold pos; grind
    have h2 : 0 ≤ ((preShip net a s).node a).newFG := by
      simp only [preShip, rmToFg, State.modNode, State.node, List.getD_eq_getElem?_getD, List.getElem?_modify, nodes_modEdges]
      cases hh : (receiveShipments net a s).nodes[a]? with
      | none => simp
      | some v => simp; exact producible_nonneg _ _ _
    grind
  obtain ⟨oh, hoh, hh⟩ := shipLoop_flags net (preShip net a s) (net.cfg a).outE (preShip net a s)
    (pos (s.node a).il + ((preShip net a s).node a).newFG) 0 0 (hwf.outE_nodup a) hoh0 hokOut e he
  refine ⟨oh, hoh, ?_⟩
  have hfl : flagsOf net (preShip net a s) e = (false, true) := by simp [flagsOf, hdst]
  rw [nodeShip_eq, propagate_edge net hwf a _ e (by
    simp only [fillRate_len, afterLoop, State.modNode, loopOf]
    rw [shipLoop_spec_len]; simpa [preShip] using hl), if_pos he]
  simp only [hdst, fillRate_edge, afterLoop, edge_modNode, loopOf]
  have hp : (preShip net a s).edge e = s.edge e := pre_out net hwf a s e hl hni
  rw [hh, hfl, hp]

def boOdi (ed : EdgeSt) : Rat × Rat := (ed.bo, ed.odi)

/-- Shape of an external-customer edge record between periods: nothing held, one order slot. -/
def ExtCustInv (net : Net) (st : State) : Prop :=
  ∀ e a, e < net.edges.length → (net.edge e).src = some a → (net.edge e).dst = none → (st.edge e).odi = 0

/-- **Demand accounting on the edge to the external customer, every period**: what is owed after the period plus
what was shipped equals what was owed before plus the period's demand. -/
theorem ext_customer_accounting_step (net : Net) (hwf : NetWF net) (hv : VisitOK net) (st : State) (exo : List Exo)
    (hinv : PInv net st) (hexo : ExoOK exo) (e a : Nat) (he : e < net.edges.length)
    (hsrc : (net.edge e).src = some a) (hdst : (net.edge e).dst = none) (hodi : (st.edge e).odi = 0) :
    ((afterPasses net st exo).edge e).bo + ((afterPasses net st exo).edge e).os
      = (st.edge e).bo + ((afterPasses net st exo).edge e).io ∧
    ((afterPasses net st exo).edge e).odi = 0 ∧ ((step net st exo).2.edge e).odi = 0 := by
  obtain ⟨hnd1, hnd2, hall⟩ := hv
  have hev := hall e he
  simp only [edgeVisitOK, hsrc, hdst, Bool.and_eq_true, List.contains_iff_mem] at hev
  obtain ⟨oa, sa⟩ := hev
  have houte : e ∈ (net.cfg a).outE := hwf.src_outE e he a hsrc
  have notin : ∀ n, e ∉ (net.cfg n).inE := by
    intro n hm
    have := (hwf.inE_dst n e hm).1
    rw [hdst] at this
    exact absurd this (by simp)
  have notout : ∀ n, n ≠ a → e ∉ (net.cfg n).outE := by
    intro n hn hm
    have := (hwf.outE_src n e hm).1
    rw [hsrc] at this
    exact hn (Option.some.inj this).symm
  obtain ⟨x1, x2, _⟩ := setExo_spec net exo st hexo hinv.2
  have p1 : PInv net (setExo net exo st) := ⟨by rw [x1]; exact hinv.1, x2⟩
  -- exogenous inputs change the order pipeline only
  have e1 : ((setExo net exo st).edge e).bo = (st.edge e).bo ∧ ((setExo net exo st).edge e).odi = (st.edge e).odi := by
    simp only [setExo]
    generalize hs1 : ({ st with nodes := (st.nodes.zip exo).map fun (s, x) => { s with disrupted := x.disrupted } } : State) = st1
    have a2 : boOdi (st1.edge e) = boOdi (st.edge e) := by rw [← hs1]; rfl
    have key : ∀ (l : List Nat) (s : State),
        boOdi ((l.foldl (fun s n =>
          s.modEdges ((net.cfg n).outE.filter fun e => (net.edge e).dst.isNone) fun _ ed =>
            { ed with iopl := ed.iopl.set 0 ((exo.getD n {}).demand) }) s).edge e) = boOdi (s.edge e) := by
      intro l
      induction l with
      | nil => intro s; rfl
      | cons x xs ih =>
        intro s
        simp only [List.foldl_cons]
        rw [ih]
        refine field_modEdges boOdi s _ _ ?_ trivial e
        intro _ _; rfl
    have := (key (List.range net.nodes.length) st1).trans a2
    simp only [boOdi, Prod.mk.injEq] at this
    exact this
  -- order pass: only a touches the edge (reads the order), keeping backorders and held items
  have ord := passG_single (orderOp net) (fun s => s.edge e) (PInv net) (pinv_orderOp net hwf) a
    (fun ed ed' => ed' = recvOrderEdge ed)
    (by
      intro n s hs hna
      exact (orderOp_spec net hwf n s hs.1).2.1 e (by rw [hs.1]; exact he) (notin n) (notout n hna))
    (by
      intro s hs
      exact (orderOp_spec net hwf a s hs.1).2.2.1 e houte)
    (orderSeq net) _ p1 hnd1 oa
  have p2 := pass_inv (orderOp net) (PInv net) (pinv_orderOp net hwf) (orderSeq net) _ p1
  obtain ⟨oh, hoh, hship⟩ := passG_single (nodeShip net) (fun s => s.edge e) (PInv net) (pinv_nodeShip net hwf) a
    (fun ed ed' => ∃ oh, 0 ≤ oh ∧ ed' = (shipOne oh false true ed).e)
    (by
      intro n s hs hna
      exact (nodeShip_spec net hwf n s hs.1 hs.2).2.1 e (by rw [hs.1]; exact he) (notin n) (notout n hna))
    (by
      intro s hs
      exact nodeShip_extcust net hwf a s hs.1 hs.2 e houte hdst)
    (shipSeq net) _ p2 hnd2 sa
  have p3 : PInv net (afterPasses net st exo) :=
    pass_inv (nodeShip net) (PInv net) (pinv_nodeShip net hwf) (shipSeq net) _ p2
  have hE : (afterPasses net st exo).edge e =
      (shipOne oh false true (recvOrderEdge ((setExo net exo st).edge e))).e := by
    show ((shipSeq net).foldl (fun s n => nodeShip net n s)
      ((orderSeq net).foldl (fun s n => orderOp net n s) (setExo net exo st))).edge e = _
    rw [hship, ord]
  have hok1 := edgeOK_recvOrder _ (p1.2 e (by rw [p1.1]; exact he))
  have hodi1 : (recvOrderEdge ((setExo net exo st).edge e)).odi = 0 := by
    simp only [recvOrderEdge]; rw [e1.2, hodi]
  have acc := shipOne_accounting_ext oh (recvOrderEdge ((setExo net exo st).edge e)) hoh hok1.bo hok1.io hodi1
  simp only at acc
  have fr := shipOne_frame oh false true (recvOrderEdge ((setExo net exo st).edge e))
  simp only at fr
  have hbo1 : (recvOrderEdge ((setExo net exo st).edge e)).bo = (st.edge e).bo := by
    simp only [recvOrderEdge]; exact e1.1
  refine ⟨?_, ?_, ?_⟩
  · rw [hE, acc.1, fr.2.2.2.2.2.2.2, hbo1]
  · rw [hE]; exact acc.2
  · rw [step_snd, initNext_edge net _ e p3.1 (by rw [p3.1]; exact he), hE]
    show (shipOne oh false true (recvOrderEdge ((setExo net exo st).edge e))).e.odi = 0
    exact acc.2

end Stockpyl.Sim
