import StockpylModel.Lemmas.WW
/-!
# C11 — Wagner–Whitin returns a feasible plan of minimum cost

Property theorems only. Model: `Model/WW.lean`. A horizon is the list `ps` of its periods
(each with its own `h, K, c, d`); a *plan* is a list of non-empty consecutive blocks whose
concatenation is `ps` — one order per block, placed in the block's first period and covering
exactly the block (this is every "subset of ordering periods containing period 1").
-/
namespace Stockpyl.WW

/-- (1) The cost-to-go satisfies the DP recursion (3.39): `θ_{T+1} = 0`, and `θ_t` is the minimum
over the next order period `s = t+1+j` of (cost of covering `t..s−1` from `t`) + `θ_s`. -/
theorem ww_recursion (p : Period) (rest : List Period) :
    theta [] = 0 ∧
    (∀ j, j ≤ rest.length → theta (p :: rest) ≤ segCost (p :: rest.take j) + theta (rest.drop j)) ∧
    (∃ j, j ≤ rest.length ∧ theta (p :: rest) = segCost (p :: rest.take j) + theta (rest.drop j)) := by
  obtain ⟨v, j, hfm, hth⟩ := thetas_cons p rest
  have hv : theta (p :: rest) = v := by simp [theta, hth]
  obtain ⟨hle, _⟩ := firstMin_spec hfm
  obtain ⟨hidx, _⟩ := firstMin_index hfm
  refine ⟨theta_nil, ?_, ?_⟩
  · intro k hk
    rw [hv]
    exact hle _ (List.mem_of_getElem? (candList_get p rest k hk))
  · obtain ⟨h1, h2⟩ := candList_mem p rest j v hidx
    exact ⟨j, h1, by rw [hv, h2]⟩

/-- The pointer stored for period `t` is the *first* minimiser (strict `<` in the code). -/
theorem ww_pointer_first (p : Period) (rest : List Period) :
    ∃ v j, thetas (p :: rest) = (v, j+1) :: thetas rest ∧ j ≤ rest.length ∧
      v = segCost (p :: rest.take j) + theta (rest.drop j) ∧
      ∀ k, k < j → v < segCost (p :: rest.take k) + theta (rest.drop k) := by
  obtain ⟨v, j, hfm, hth⟩ := thetas_cons p rest
  obtain ⟨hidx, hfirst⟩ := firstMin_index hfm
  obtain ⟨h1, h2⟩ := candList_mem p rest j v hidx
  refine ⟨v, j, hth, h1, h2, ?_⟩
  intro k hk
  exact hfirst k hk _ (candList_get p rest k (by omega))

/-- (4) Optimality: no plan is cheaper than the reported cost `θ_1`. -/
theorem ww_optimal (ps : List Period) (segs : List (List Period))
    (hne : ∀ s ∈ segs, s ≠ []) (hflat : segs.flatten = ps) :
    theta ps ≤ planCost segs := by
  induction segs generalizing ps with
  | nil =>
    simp at hflat; subst hflat
    simp [theta_nil, planCost]
  | cons s ss ih =>
    cases s with
    | nil => exact absurd rfl (hne [] List.mem_cons_self)
    | cons p pre =>
      simp only [List.flatten_cons, List.cons_append] at hflat
      subst hflat
      have hrec := (ww_recursion p (pre ++ ss.flatten)).2.1 pre.length (by simp)
      simp only [List.take_left', List.drop_left'] at hrec
      have := ih ss.flatten (fun s hs => hne s (List.mem_cons_of_mem _ hs)) rfl
      simp only [planCost]
      grind

/-- (2)+(3) The returned plan: its blocks are non-empty, tile the horizon, and its documented cost
is exactly the reported `θ_1`. -/
theorem ww_plan_cost (n : Nat) (ps : List Period) (hn : ps.length ≤ n) :
    (∀ b ∈ blocks n ps, b ≠ []) ∧ (blocks n ps).flatten = ps ∧ planCost (blocks n ps) = theta ps := by
  induction n generalizing ps with
  | zero =>
    have : ps = [] := List.eq_nil_of_length_eq_zero (by omega)
    subst this
    simp [blocks, planCost, theta_nil]
  | succ n ih =>
    cases ps with
    | nil => simp [blocks, planCost, theta_nil]
    | cons p rest =>
      obtain ⟨v, j, hth, hj, hv, _⟩ := ww_pointer_first p rest
      have hθ : theta (p :: rest) = v := by simp [theta, hth]
      simp only [blocks, hth, List.take_succ_cons, List.drop_succ_cons]
      obtain ⟨i1, i2, i3⟩ := ih (rest.drop j) (by simp at hn ⊢; omega)
      refine ⟨?_, ?_, ?_⟩
      · intro b hb
        rcases List.mem_cons.mp hb with rfl | hb
        · simp
        · exact i1 b hb
      · simp [i2]
      · simp only [planCost, i3, hθ, hv]

/-- (2) Feasibility of any block plan with non-negative demands: ordering each block's demand in
its first period never backorders (`inventory ≥ 0` after every period), leaves nothing at the end
of the horizon, has one quantity per period, and orders exactly the total demand. -/
theorem blockQ_feasible (bs : List (List Period)) (hne : ∀ b ∈ bs, b ≠ [])
    (hd : ∀ b ∈ bs, ∀ q ∈ b, 0 ≤ q.d) :
    (∀ y ∈ invTrace 0 (blockQ bs) (bs.flatten.map Period.d), 0 ≤ y) ∧
    (∀ y, (invTrace 0 (blockQ bs) (bs.flatten.map Period.d)).getLast? = some y → y = 0) ∧
    (invTrace 0 (blockQ bs) (bs.flatten.map Period.d)).length = bs.flatten.length ∧
    (blockQ bs).length = bs.flatten.length ∧
    lsum (blockQ bs) = lsum (bs.flatten.map Period.d) := by
  obtain ⟨h1, h2, h3⟩ := invTrace_blockQ 0 bs hne hd
  refine ⟨fun y hy => ?_, h2, h3, blockQ_length bs hne, lsum_blockQ bs⟩
  exact h1 y hy

/-- The plan actually returned (`order_quantities[1..T]`) is the block plan of the pointer chain. -/
theorem ww_quantities (ps : List Period) :
    (solve ps).Q = blockQ (blocks ps.length ps) := by
  simp only [solve]
  exact quantities_eq_blockQ ps.length ps (Nat.le_refl _)

/-- Headline: for every horizon with non-negative demands, the returned quantities are feasible
(no backorders, nothing left, total = total demand), cost exactly the reported cost, and no
plan is cheaper. -/
theorem ww_correct (ps : List Period) (hd : ∀ q ∈ ps, 0 ≤ q.d) :
    let r := solve ps
    (∀ y ∈ invTrace 0 r.Q (ps.map Period.d), 0 ≤ y) ∧
    (∀ y, (invTrace 0 r.Q (ps.map Period.d)).getLast? = some y → y = 0) ∧
    lsum r.Q = lsum (ps.map Period.d) ∧
    r.Q = blockQ (blocks ps.length ps) ∧
    planCost (blocks ps.length ps) = r.cost ∧
    (∀ segs : List (List Period), (∀ s ∈ segs, s ≠ []) → segs.flatten = ps → r.cost ≤ planCost segs) := by
  intro r
  obtain ⟨b1, b2, b3⟩ := ww_plan_cost ps.length ps (Nat.le_refl _)
  have hq : r.Q = blockQ (blocks ps.length ps) := ww_quantities ps
  have hd' : ∀ b ∈ blocks ps.length ps, ∀ q ∈ b, 0 ≤ q.d := by
    intro b hb q hq
    apply hd
    rw [← b2]
    exact List.mem_flatten.mpr ⟨b, hb, hq⟩
  obtain ⟨f1, f2, _, _, f5⟩ := blockQ_feasible _ b1 hd'
  rw [b2] at f1 f2 f5
  refine ⟨by rw [hq]; exact f1, by rw [hq]; exact f2, by rw [hq]; exact f5, hq, b3, ?_⟩
  intro segs hne hflat
  exact ww_optimal ps segs hne hflat

/-- (5) Shape conventions. Two parameter values are *equivalent* when they normalise to the same
per-period values and agree on whether a negative number occurs; the solver cannot tell
equivalent parameters apart … -/
def Param.Equiv (T : Nat) (a b : Param) : Prop :=
  a.norm T = b.norm T ∧ a.raw.any (· < 0) = b.raw.any (· < 0)

theorem ww_shapes_equiv (T : Nat) (h h' K K' d d' c c' : Param)
    (eh : Param.Equiv T h h') (eK : Param.Equiv T K K') (ed : Param.Equiv T d d') (ec : Param.Equiv T c c') :
    wagnerWhitin T h K d c = wagnerWhitin T h' K' d' c' := by
  unfold wagnerWhitin
  simp only [List.any_append, eh.1, eK.1, ed.1, ec.1, eh.2, eK.2, ed.2, ec.2]

/-- … a scalar is equivalent to the length-`T` list of its copies (`T ≥ 1`), … -/
theorem scalar_equiv_list (T : Nat) (hT : 1 ≤ T) (x : Rat) :
    Param.Equiv T (.scalar x) (.list (List.replicate T x)) := by
  constructor
  · simp [Param.norm]
  · simp only [Param.raw, List.any_cons, List.any_nil, Bool.or_false, List.any_replicate]
    have : (T = 0) = False := by simp; omega
    simp [this]

/-- … and a length-`T` list is equivalent to the length-`T+1` list with an ignored non-negative
0th element. -/
theorem listT_equiv_listT1 (T : Nat) (xs : List Rat) (hx : xs.length = T) (z : Rat) (hz : 0 ≤ z) :
    Param.Equiv T (.list xs) (.list (z :: xs)) := by
  constructor
  · simp [Param.norm, hx]
  · simp only [Param.raw, List.any_cons]
    have : decide (z < 0) = false := by simp; grind
    simp [this]

/-- Non-vacuity: the docstring instance (Example 3.9) — the model reproduces 1380, Q and s, and
the hypotheses of `ww_correct` hold for it. -/
def ex39 : List Period :=
  [⟨2, 500, 0, 90⟩, ⟨2, 500, 0, 120⟩, ⟨2, 500, 0, 80⟩, ⟨2, 500, 0, 70⟩]

example : (solve ex39).cost = 1380 ∧ (solve ex39).Q = [210, 0, 150, 0] ∧
    (solve ex39).next = [3, 5, 5, 5] ∧ (∀ q ∈ ex39, 0 ≤ q.d) := by decide +kernel

end Stockpyl.WW
