import StockpylModel.Model.GSM
import StockpylModel.Lemmas.Basic
/-!
# C08 — GSM: feasible, cost-consistent, optimal committed service times (serial DP proved; tree evaluators)
-/
namespace Stockpyl.GSM
open Stockpyl

theorem stageCands_get (s : Stage) (SI : Nat) (rest : Nat → Rat) (S : Nat) (h : S ≤ SI + s.T) :
    (stageCands s SI rest)[S]? = some (s.cost (SI + s.T - S) + rest S) := by
  simp [stageCands, Nat.lt_succ_of_le h]

theorem stageCands_ne_nil (s : Stage) (SI : Nat) (rest : Nat → Rat) : stageCands s SI rest ≠ [] := by
  intro h
  have := congrArg List.length h
  simp [stageCands] at this

/-- The DP value and the first-minimising CST of a stage with a successor. -/
theorem theta_cons (sOut : Nat) (s s' : Stage) (rest : List Stage) (SI : Nat) :
    ∃ v S, firstMin (stageCands s SI (theta sOut (s' :: rest))) = some (v, S) ∧
      theta sOut (s :: s' :: rest) SI = v ∧ bestS sOut (s :: s' :: rest) SI = S ∧ S ≤ SI + s.T ∧
      v = s.cost (SI + s.T - S) + theta sOut (s' :: rest) S := by
  obtain ⟨v, S, hfm⟩ := firstMin_isSome (stageCands_ne_nil s SI (theta sOut (s' :: rest)))
  obtain ⟨hidx, _⟩ := firstMin_index hfm
  have hS : S < SI + s.T + 1 := by
    have := (List.getElem?_eq_some_iff.mp hidx).1
    simpa [stageCands] using this
  rw [stageCands_get s SI _ S (by omega)] at hidx
  simp only [Option.some.injEq] at hidx
  exact ⟨v, S, hfm, by simp [theta, hfm], by simp [bestS, hfm], by omega, hidx.symm⟩

/-- Optimality of the serial DP: no feasible integer CST vector is cheaper than `θ_N(SI_ext)`, for any
number of stages, processing times, cost tables and external service times. -/
theorem gsm_serial_optimal (sOut : Nat) (stages : List Stage) (SI : Nat) (csts : List Nat)
    (hne : stages ≠ []) (hf : feasible sOut stages SI csts) :
    theta sOut stages SI ≤ planCost stages SI csts := by
  induction stages generalizing SI csts with
  | nil => exact absurd rfl hne
  | cons s rest ih =>
    cases rest with
    | nil =>
      cases csts with
      | nil => simp [feasible] at hf
      | cons S more =>
        cases more with
        | nil =>
          simp only [feasible] at hf
          subst hf
          simp only [theta, planCost]; grind
        | cons _ _ => simp [feasible] at hf
    | cons s' rest' =>
      cases csts with
      | nil => simp [feasible] at hf
      | cons S more =>
        simp only [feasible] at hf
        obtain ⟨hS, hrest⟩ := hf
        obtain ⟨v, Sb, hfm, hth, _, _, _⟩ := theta_cons sOut s s' rest' SI
        obtain ⟨hle, _⟩ := firstMin_spec hfm
        have hmem := List.mem_of_getElem? (stageCands_get s SI (theta sOut (s' :: rest')) S hS)
        have h1 := hle _ hmem
        have h2 := ih S more (by simp) hrest
        rw [hth]
        simp only [planCost]
        grind

/-- Soundness: the returned CSTs are feasible (every net lead time non-negative, the demand stage quotes the
external outbound CST) and the reported optimal cost is exactly the safety-stock cost of those CSTs. -/
theorem gsm_serial_sound (sOut : Nat) (stages : List Stage) (SI : Nat) (hne : stages ≠ []) :
    feasible sOut stages SI (solution sOut stages SI) ∧
    planCost stages SI (solution sOut stages SI) = theta sOut stages SI := by
  induction stages generalizing SI with
  | nil => exact absurd rfl hne
  | cons s rest ih =>
    cases rest with
    | nil =>
      simp only [solution, bestS, feasible, planCost, theta, true_and]; grind
    | cons s' rest' =>
      obtain ⟨v, Sb, hfm, hth, hbs, hSb, hv⟩ := theta_cons sOut s s' rest' SI
      obtain ⟨i1, i2⟩ := ih Sb (by simp)
      have hsol : solution sOut (s :: s' :: rest') SI = Sb :: solution sOut (s' :: rest') Sb := by
        simp only [solution, hbs]
      rw [hsol]
      refine ⟨⟨hSb, i1⟩, ?_⟩
      simp only [planCost]
      rw [i2, hth, hv]

/-- Tree evaluators: the cost of an assignment is the sum over nodes of the stage cost at its net lead time
`max-inbound-CST + T − S` (definitional), and inbound CST dominates every predecessor's CST. -/
theorem inbound_ge_pred (nodes : List TNode) (cst : List Nat) (k : Nat) (n : TNode) (hk : nodes[k]? = some n)
    (i : Nat) (hi : i ∈ n.preds) : cst.getD i 0 ≤ inboundCST nodes cst k ∧ n.extIn ≤ inboundCST nodes cst k := by
  simp only [inboundCST, hk]
  have gen : ∀ (l : List Nat) (a : Nat), a ≤ l.foldl max a ∧ ∀ x ∈ l, x ≤ l.foldl max a := by
    intro l
    induction l with
    | nil => intro a; simp
    | cons y ys ih =>
      intro a
      simp only [List.foldl_cons]
      obtain ⟨h1, h2⟩ := ih (max a y)
      refine ⟨by omega, ?_⟩
      intro x hx
      rcases List.mem_cons.mp hx with rfl | hx
      · omega
      · exact h2 x hx
  obtain ⟨g1, g2⟩ := gen (n.preds.map fun i => cst.getD i 0) n.extIn
  exact ⟨g2 _ (List.mem_map.mpr ⟨i, hi, rfl⟩), g1⟩

/-- The exhaustive optimum over the feasible box is a lower bound for every feasible assignment in the box
(this is what the tree algorithm's reported cost is compared with). -/
theorem bruteForce_lower_bound (nodes : List TNode) (bounds : List Nat) (v : Rat) (j : Nat)
    (h : bruteForce nodes bounds = some (v, j)) (cst : List Nat) (hc : cst ∈ allCst bounds)
    (hf : treeFeasible nodes cst = true) : v ≤ treeCost nodes cst := by
  obtain ⟨hle, _⟩ := firstMin_spec h
  apply hle
  exact List.mem_map.mpr ⟨cst, List.mem_filter.mpr ⟨hc, hf⟩, rfl⟩

end Stockpyl.GSM
