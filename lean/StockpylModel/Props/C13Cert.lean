import StockpylModel.Props.C13
/-!
# C13 — the average-cost certificate holds for EVERY instance

`certificate_holds`: for every pmf with non-negative entries and `p₀ < 1`, every one-period cost `G`, fixed
cost `K` and every number of states `n ≥ 1`, the model's relative-value function `relValue` passes the
certificate with `c = (K + Σ_{d<n} m_d G(n−d)) / M(n)` — the quantity `s_s_cost_discrete` returns. Together with
`avg_cost_converges` this makes "the reported cost is the long-run average cost of the inventory chain"
an unconditional theorem (`ss_cost_is_long_run_average`).
-/
namespace Stockpyl.SS
open Stockpyl Stockpyl.Loss

/-! ### finite sums over `0..k-1` -/

def sumTo (f : Nat → Rat) : Nat → Rat
  | 0 => 0
  | k+1 => sumTo f k + f k

theorem lsum_range_map (f : Nat → Rat) (k : Nat) : lsum ((List.range k).map f) = sumTo f k := by
  induction k with
  | zero => rfl
  | succ k ih => rw [List.range_succ, List.map_append, lsum_append, ih]; simp [sumTo, lsum]; grind

theorem sumTo_congr (f g : Nat → Rat) (k : Nat) (h : ∀ j, j < k → f j = g j) : sumTo f k = sumTo g k := by
  induction k with
  | zero => rfl
  | succ k ih => simp only [sumTo]; rw [ih (fun j hj => h j (by omega)), h k (by omega)]

theorem sumTo_add (f g : Nat → Rat) (k : Nat) : sumTo (fun j => f j + g j) k = sumTo f k + sumTo g k := by
  induction k with
  | zero => simp [sumTo]; grind
  | succ k ih => simp only [sumTo, ih]; grind

theorem sumTo_mul_left (a : Rat) (f : Nat → Rat) (k : Nat) : sumTo (fun j => a * f j) k = a * sumTo f k := by
  induction k with
  | zero => simp [sumTo]
  | succ k ih => simp only [sumTo, ih]; grind

theorem sumTo_mul_right (a : Rat) (f : Nat → Rat) (k : Nat) : sumTo (fun j => f j * a) k = sumTo f k * a := by
  induction k with
  | zero => simp [sumTo]
  | succ k ih => simp only [sumTo, ih]; grind

theorem sumTo_shift (f : Nat → Rat) (k : Nat) : sumTo f (k + 1) = f 0 + sumTo (fun l => f (l + 1)) k := by
  induction k with
  | zero => simp [sumTo]; grind
  | succ k ih => rw [sumTo, ih]; simp only [sumTo]; grind

theorem sumTo_zero_tail (h : Nat → Rat) (k : Nat) (hz : ∀ d, k ≤ d → h d = 0) (j : Nat) :
    sumTo h (k + j) = sumTo h k := by
  induction j with
  | zero => rfl
  | succ j ih =>
    have : k + (j + 1) = k + j + 1 := by omega
    rw [this, sumTo, ih, hz (k + j) (by omega)]; grind

theorem sumTo_nonneg (f : Nat → Rat) (k : Nat) (h : ∀ j, j < k → 0 ≤ f j) : 0 ≤ sumTo f k := by
  induction k with
  | zero => simp [sumTo]
  | succ k ih =>
    simp only [sumTo]
    have := ih (fun j hj => h j (by omega))
    have := h k (by omega)
    grind

/-- Summation over a triangle in two orders: `Σ_{j<i} Σ_{l≤j} F(l, j−l) = Σ_{l<i} Σ_{k<i−l} F(l, k)`. -/
theorem triangle_swap (F : Nat → Nat → Rat) (i : Nat) :
    sumTo (fun j => sumTo (fun l => F l (j - l)) (j + 1)) i =
      sumTo (fun l => sumTo (fun k => F l k) (i - l)) i := by
  induction i with
  | zero => rfl
  | succ i ih =>
    rw [sumTo, ih]
    -- right-hand side at i+1
    have r : sumTo (fun l => sumTo (fun k => F l k) (i + 1 - l)) (i + 1)
        = sumTo (fun l => sumTo (fun k => F l k) (i - l) + F l (i - l)) i + sumTo (fun k => F i k) 1 := by
      rw [sumTo]
      congr 1
      · apply sumTo_congr
        intro l hl
        have : i + 1 - l = (i - l) + 1 := by omega
        rw [this, sumTo]
      · have : i + 1 - i = 1 := by omega
        rw [this]
    rw [r, sumTo_add]
    have l1 : sumTo (fun l => F l (i - l)) (i + 1) = sumTo (fun l => F l (i - l)) i + F i (i - i) := rfl
    rw [l1]
    simp only [sumTo, Nat.sub_self]
    grind

/-! ### the renewal sequence as a function -/

def pd (p : List Rat) (d : Nat) : Rat := p.getD d 0

def mf (p : List Rat) (j : Nat) : Rat := (mList p (j + 1)).getD j 0

theorem mList_succ (p : List Rat) (k : Nat) : mList p (k + 1) = mList p k ++ [mStep p (mList p k)] := rfl

theorem mList_getD (p : List Rat) (k j : Nat) (h : j < k) : (mList p k).getD j 0 = mf p j := by
  induction k with
  | zero => omega
  | succ k ih =>
    by_cases hj : j < k
    · rw [mList_succ, List.getD_eq_getElem?_getD, List.getElem?_append_left (by simp [mList_length, hj]),
          ← List.getD_eq_getElem?_getD]
      exact ih hj
    · have : j = k := by omega
      subst this; rfl

theorem mf_zero (p : List Rat) : mf p 0 = 1 / (1 - p.headD 0) := by
  simp [mf, mList, mStep]

theorem mf_succ (p : List Rat) (j : Nat) :
    mf p (j + 1) = (1 / (1 - p.headD 0)) * sumTo (fun l => pd p (l + 1) * mf p (j - l)) (j + 1) := by
  have h1 : mf p (j + 1) = mStep p (mList p (j + 1)) := by
    simp only [mf]
    rw [mList_succ, List.getD_eq_getElem?_getD, List.getElem?_append_right (by simp [mList_length])]
    simp [mList_length]
  rw [h1]
  simp only [mStep, mList_length]
  rw [if_neg (by omega), lsum_range_map]
  congr 1
  apply sumTo_congr
  intro l hl
  simp only [pd]
  congr 1
  have : j + 1 - (l + 1) = j - l := by omega
  rw [this]
  exact mList_getD p (j + 1) (j - l) (by omega)

theorem headD_eq_pd (p : List Rat) : p.headD 0 = pd p 0 := by
  cases p <;> simp [pd]

/-- Renewal equation: `m_j = [j = 0] + Σ_{l ≤ j} p_l m_{j−l}`. -/
theorem renewal (p : List Rat) (hp0 : 1 - p.headD 0 ≠ 0) (j : Nat) :
    mf p j = (if j = 0 then 1 else 0) + sumTo (fun l => pd p l * mf p (j - l)) (j + 1) := by
  have hinv : (1 - p.headD 0) * (1 / (1 - p.headD 0)) = 1 := by
    rw [Rat.div_def, Rat.one_mul]; exact Rat.mul_inv_cancel _ hp0
  cases j with
  | zero =>
    simp only [sumTo, if_true, Nat.sub_self]
    rw [mf_zero, ← headD_eq_pd]
    grind
  | succ j =>
    rw [sumTo_shift]
    have e : sumTo (fun l => pd p (l + 1) * mf p (j + 1 - (l + 1))) (j + 1)
        = sumTo (fun l => pd p (l + 1) * mf p (j - l)) (j + 1) := by
      apply sumTo_congr; intro l _
      have : j + 1 - (l + 1) = j - l := by omega
      rw [this]
    rw [e]
    have hs := mf_succ p j
    generalize sumTo (fun l => pd p (l + 1) * mf p (j - l)) (j + 1) = Sg at hs ⊢
    rw [← headD_eq_pd]
    simp only [Nat.sub_zero, if_neg (Nat.succ_ne_zero j)]
    -- m = m0 * Sg, so (1 - p0) m = Sg
    have : (1 - p.headD 0) * mf p (j + 1) = Sg := by
      rw [hs, ← Rat.mul_assoc, hinv, Rat.one_mul]
    grind

theorem mf_nonneg (p : List Rat) (hp : ∀ q ∈ p, 0 ≤ q) (hp0 : p.headD 0 < 1) : ∀ j, 0 ≤ mf p j := by
  have hpos : 0 ≤ 1 / (1 - p.headD 0) := by
    rw [Rat.div_def, Rat.one_mul]
    exact Rat.le_of_lt (Rat.inv_pos.mpr (by grind))
  have hpd : ∀ d, 0 ≤ pd p d := by
    intro d
    simp only [pd, List.getD_eq_getElem?_getD]
    cases h : p[d]? with
    | none => simp
    | some v => simp; exact hp v (List.mem_of_getElem? h)
  intro j
  induction j using Nat.strongRecOn with
  | _ j ih =>
    cases j with
    | zero => rw [mf_zero]; exact hpos
    | succ j =>
      rw [mf_succ]
      apply Rat.mul_nonneg hpos
      apply sumTo_nonneg
      intro l hl
      exact Rat.mul_nonneg (hpd _) (ih (j - l) (by omega))

/-! ### the relative-value function satisfies the average-cost equation -/

def cGen (p : List Rat) (G : Nat → Rat) (K : Rat) (n : Nat) : Rat :=
  (K + sumTo (fun d => mf p d * G (n - d)) n) / sumTo (mf p) n

def vGen (p : List Rat) (G : Nat → Rat) (c : Rat) (i : Nat) : Rat :=
  sumTo (fun j => mf p j * (G (i - j) - c)) i

theorem relValue_eq (p : List Rat) (G : Nat → Rat) (c : Rat) (n i : Nat) (h : i ≤ n) :
    relValue p G c n i = vGen p G c i := by
  simp only [relValue, vGen]
  rw [lsum_range_map]
  apply sumTo_congr
  intro j hj
  rw [mList_getD p n j (by omega)]

theorem vGen_n (p : List Rat) (G : Nat → Rat) (K : Rat) (n : Nat) (hM : sumTo (mf p) n ≠ 0) :
    K + vGen p G (cGen p G K n) n = 0 := by
  simp only [vGen]
  have e : sumTo (fun j => mf p j * (G (n - j) - cGen p G K n)) n
      = sumTo (fun j => mf p j * G (n - j)) n - cGen p G K n * sumTo (mf p) n := by
    have : (fun j => mf p j * (G (n - j) - cGen p G K n))
        = fun j => mf p j * G (n - j) + (-(cGen p G K n)) * mf p j := by funext j; grind
    rw [this, sumTo_add, sumTo_mul_left]; grind
  rw [e]
  have : cGen p G K n * sumTo (mf p) n = K + sumTo (fun d => mf p d * G (n - d)) n := by
    simp only [cGen]
    rw [Rat.div_def, Rat.mul_assoc, Rat.inv_mul_cancel _ hM, Rat.mul_one]
  rw [this]; grind

/-- `v(i) = (G(i) − c) + Σ_{l<i} p_l v(i−l)` for `i ≥ 1`. -/
theorem vGen_renewal (p : List Rat) (hp0 : 1 - p.headD 0 ≠ 0) (G : Nat → Rat) (c : Rat) (i : Nat) (hi : 1 ≤ i) :
    vGen p G c i = (G i - c) + sumTo (fun l => pd p l * vGen p G c (i - l)) i := by
  simp only [vGen]
  -- substitute the renewal equation in every term
  have step1 : sumTo (fun j => mf p j * (G (i - j) - c)) i
      = sumTo (fun j => (if j = 0 then 1 else 0) * (G (i - j) - c)) i
        + sumTo (fun j => sumTo (fun l => pd p l * mf p (j - l) * (G (i - l - (j - l)) - c)) (j + 1)) i := by
    rw [← sumTo_add]
    apply sumTo_congr
    intro j hj
    have hr := renewal p hp0 j
    have : sumTo (fun l => pd p l * mf p (j - l) * (G (i - l - (j - l)) - c)) (j + 1)
        = sumTo (fun l => pd p l * mf p (j - l)) (j + 1) * (G (i - j) - c) := by
      rw [← sumTo_mul_right]
      apply sumTo_congr
      intro l hl
      have : i - l - (j - l) = i - j := by omega
      rw [this]
    rw [this]
    generalize sumTo (fun l => pd p l * mf p (j - l)) (j + 1) = Sg at hr ⊢
    rw [hr]; grind
  have step2 : sumTo (fun j => (if j = 0 then 1 else 0) * (G (i - j) - c)) i = G i - c := by
    obtain ⟨k, rfl⟩ : ∃ k, i = k + 1 := ⟨i - 1, by omega⟩
    rw [sumTo_shift]
    have : sumTo (fun l => (if l + 1 = 0 then (1 : Rat) else 0) * (G (k + 1 - (l + 1)) - c)) k = 0 := by
      have : (fun l => (if l + 1 = 0 then (1 : Rat) else 0) * (G (k + 1 - (l + 1)) - c)) = fun _ => 0 * 0 := by
        funext l; simp
      rw [this, sumTo_mul_left]; grind
    rw [this]; simp; grind
  have step3 := triangle_swap (fun l k => pd p l * mf p k * (G (i - l - k) - c)) i
  rw [step1, step2, step3]
  congr 1
  apply sumTo_congr
  intro l hl
  rw [← sumTo_mul_left]
  apply sumTo_congr
  intro k hk
  grind

theorem ex_sumTo (p : List Rat) (f : Nat → Rat) (off : Nat) :
    ex p f off = sumTo (fun d => pd p d * f (off + d)) p.length := by
  induction p generalizing off with
  | nil => rfl
  | cons x xs ih =>
    rw [ex, List.length_cons, sumTo_shift, ih]
    simp only [pd, List.getD_cons_zero, List.getD_cons_succ, Nat.add_zero]
    congr 1
    apply sumTo_congr
    intro d _
    have : off + 1 + d = off + (d + 1) := by omega
    rw [this]

theorem pd_zero_of_le (p : List Rat) (d : Nat) (h : p.length ≤ d) : pd p d = 0 := by
  simp [pd, List.getD_eq_getElem?_getD, List.getElem?_eq_none h]

/-- **The certificate holds for every instance.** -/
theorem certificate_holds (p : List Rat) (hp : ∀ q ∈ p, 0 ≤ q) (hp0 : p.headD 0 < 1) (G : Nat → Rat) (K : Rat)
    (n : Nat) (hn : 1 ≤ n) :
    certificate p G K (cGen p G K n) n (relValue p G (cGen p G K n) n) = true := by
  have hne : 1 - p.headD 0 ≠ 0 := by grind
  have hM : sumTo (mf p) n ≠ 0 := by
    obtain ⟨k, rfl⟩ : ∃ k, n = k + 1 := ⟨n - 1, by omega⟩
    rw [sumTo_shift]
    have h0 : 0 < mf p 0 := by
      rw [mf_zero, Rat.div_def, Rat.one_mul]; exact Rat.inv_pos.mpr (by grind)
    have h1 := sumTo_nonneg (fun l => mf p (l + 1)) k (fun j _ => mf_nonneg p hp hp0 _)
    grind
  simp only [certificate, List.all_eq_true, List.mem_range, decide_eq_true_eq]
  intro k hk
  have hi1 : 1 ≤ k + 1 := by omega
  have hi2 : k + 1 ≤ n := by omega
  generalize hc : cGen p G K n = c
  have hKv : K + relValue p G c n n = 0 := by
    rw [relValue_eq p G c n n (Nat.le_refl n), ← hc]; exact vGen_n p G K n hM
  rw [relValue_eq p G c n (k + 1) hi2, vGen_renewal p hne G c (k + 1) hi1]
  -- the expectation: terms with demand ≥ i vanish (K + v(n) = 0), the others are v(i − d)
  have hE : (expect p fun d => if k + 1 ≤ d then K + relValue p G c n n else relValue p G c n (k + 1 - d))
      = sumTo (fun l => pd p l * vGen p G c (k + 1 - l)) (k + 1) := by
    simp only [expect]
    rw [ex_sumTo]
    -- both sums equal the sum of h up to min(len, k+1) extended by zeros
    have hfun : ∀ d, pd p d * (if k + 1 ≤ 0 + d then K + relValue p G c n n else relValue p G c n (k + 1 - (0 + d)))
        = if d < k + 1 then pd p d * vGen p G c (k + 1 - d) else 0 := by
      intro d
      simp only [Nat.zero_add]
      by_cases hd : k + 1 ≤ d
      · rw [if_pos hd, if_neg (by omega), hKv]; grind
      · rw [if_neg hd, if_pos (by omega), relValue_eq p G c n (k + 1 - d) (by omega)]
    rw [sumTo_congr _ _ _ (fun d _ => hfun d)]
    have hz1 : ∀ d, min p.length (k + 1) ≤ d →
        (if d < k + 1 then pd p d * vGen p G c (k + 1 - d) else 0) = 0 := by
      intro d hd
      by_cases h1 : d < k + 1
      · rw [if_pos h1, pd_zero_of_le p d (by omega)]; grind
      · rw [if_neg h1]
    have a := sumTo_zero_tail (fun d => if d < k + 1 then pd p d * vGen p G c (k + 1 - d) else 0)
      (min p.length (k + 1)) hz1 (p.length - min p.length (k + 1))
    have b := sumTo_zero_tail (fun d => if d < k + 1 then pd p d * vGen p G c (k + 1 - d) else 0)
      (min p.length (k + 1)) hz1 (k + 1 - min p.length (k + 1))
    have e1 : min p.length (k + 1) + (p.length - min p.length (k + 1)) = p.length := by omega
    have e2 : min p.length (k + 1) + (k + 1 - min p.length (k + 1)) = k + 1 := by omega
    rw [e1] at a
    rw [e2] at b
    rw [a, ← b]
    apply sumTo_congr
    intro d hd
    rw [if_pos hd]
  rw [hE]; grind

/-! ### `s_s_cost_discrete` is the long-run average cost — unconditionally -/

theorem lsum_eq_sumTo (l : List Rat) : lsum l = sumTo (fun j => l.getD j 0) l.length := by
  induction l with
  | nil => rfl
  | cons x xs ih =>
    rw [List.length_cons, sumTo_shift]
    simp only [lsum, List.getD_cons_zero, List.getD_cons_succ, ih]

/-- The model of `s_s_cost_discrete` in the generic form: states `i = x − s`, `G i = g(s + i)`. -/
theorem ssCost_eq_cGen (p : List Rat) (h b K : Rat) (s S : Int) (hsS : s < S) :
    ssCost p h b K s S = cGen p (fun i => nvCost p h b (s + (i : Int))) K (S - s).toNat := by
  simp only [ssCost, cGen]
  have hM : lsum (mList p (S - s).toNat) = sumTo (mf p) (S - s).toNat := by
    rw [lsum_eq_sumTo, mList_length]
    apply sumTo_congr
    intro j hj
    exact mList_getD p _ j hj
  rw [hM, lsum_range_map]
  congr 2
  apply sumTo_congr
  intro d hd
  rw [mList_getD p _ d hd]
  congr 2
  omega

def rabs (x : Rat) : Rat := if x < 0 then -x else x

theorem rabs_bound (x : Rat) : -(rabs x) ≤ x ∧ x ≤ rabs x := by
  unfold rabs; split <;> constructor <;> grind

theorem sum_abs_bound (v : Nat → Rat) (n j : Nat) (h1 : 1 ≤ j) (h2 : j ≤ n) :
    rabs (v j) ≤ sumTo (fun k => rabs (v (k + 1))) n := by
  induction n with
  | zero => omega
  | succ n ih =>
    simp only [sumTo]
    have hnn : 0 ≤ rabs (v (n + 1)) := by unfold rabs; split <;> grind
    have hsn : 0 ≤ sumTo (fun k => rabs (v (k + 1))) n :=
      sumTo_nonneg _ _ (fun k _ => by unfold rabs; split <;> grind)
    by_cases hj : j = n + 1
    · subst hj; grind
    · have := ih (by omega); grind

/-- **C13, unconditional.** For every pmf (non-negative entries summing to one, `p₀ < 1`), all cost rates and
every `s < S`: the value `s_s_cost_discrete` computes is the long-run average cost of the inventory chain —
the expected total cost over ANY horizon `T` from ANY starting state differs from `T·g(s,S)` by at most a
constant `2B` independent of `T`. -/
theorem ss_cost_is_long_run_average (p : List Rat) (hp : ∀ q ∈ p, 0 ≤ q) (hsum : lsum p = 1) (hp0 : p.headD 0 < 1)
    (h b K : Rat) (s S : Int) (hsS : s < S) :
    ∃ B : Rat, ∀ (T i : Nat), 1 ≤ i → i ≤ (S - s).toNat →
      -(2 * B) ≤ J p (fun i => nvCost p h b (s + (i : Int))) K (S - s).toNat T i - (T : Rat) * ssCost p h b K s S ∧
      J p (fun i => nvCost p h b (s + (i : Int))) K (S - s).toNat T i - (T : Rat) * ssCost p h b K s S ≤ 2 * B := by
  rw [ssCost_eq_cGen p h b K s S hsS]
  generalize hG : (fun i : Nat => nvCost p h b (s + (i : Int))) = G
  generalize hn : (S - s).toNat = n
  have hn1 : 1 ≤ n := by omega
  have hcert := certificate_holds p hp hp0 G K n hn1
  refine ⟨sumTo (fun k => rabs (relValue p G (cGen p G K n) n (k + 1))) n, ?_⟩
  intro T i h1 h2
  exact avg_cost_converges p G K (cGen p G K n) n (relValue p G (cGen p G K n) n) _ hp hsum hcert
    (by
      intro j j1 j2
      have hb := sum_abs_bound (relValue p G (cGen p G K n) n) n j j1 j2
      have := rabs_bound (relValue p G (cGen p G K n) n j)
      constructor <;> grind)
    T i h1 h2

end Stockpyl.SS
