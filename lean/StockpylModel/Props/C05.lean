import StockpylModel.Lemmas.Sim
/-!
# C05 — reported costs are exactly the cost of the reported state
-/
namespace Stockpyl.Sim
open Stockpyl

/-- The cost record written for node `n` is a function of the end-of-period state only: holding rate ×
(positive inventory + items held for disrupted customers) + supplier's rate × (raw material + items held
at the door) over internal suppliers; stockout rate × backorders; in-transit rate (default: holding
rate — `None`, not `0`, triggers the default) × everything in transit to internal successors;
total = holding + stockout + in-transit − revenue. -/
theorem period_costs_def (net : Net) (st : State) (n : Nat) (s : NodeSt) :
    let c := net.cfg n
    let r := nodeCosts net st n s
    r.hc = (match c.hFn with
            | some cs => polyEval cs (pos s.il + lsum (c.outE.map fun e => (st.edge e).odi))
            | none => c.h * (pos s.il + lsum (c.outE.map fun e => (st.edge e).odi)))
        + lsum (c.inE.map fun e => match (net.edge e).src with
            | some p => (net.cfg p).h * ((st.edge e).rm + (st.edge e).idi) | none => 0) ∧
    r.sc = (match c.pFn with | some cs => polyEval cs s.il | none => c.p * neg s.il) ∧
    r.ithc = (match c.hTransit with | none => c.h | some x => x)
        * lsum (c.outE.map fun e => match (net.edge e).dst with | some _ => lsum (st.edge e).ispl | none => 0) ∧
    r.rv = c.rev * lsum (c.outE.map fun e => (st.edge e).os) ∧
    r.tc = r.hc + r.sc + r.ithc - r.rv ∧
    r.il = s.il := by
  intro c r
  exact ⟨rfl, rfl, rfl, rfl, rfl, rfl⟩

/-- A holding-cost function is applied to ALL items held — positive inventory plus the items held for
disrupted customers — not to the inventory level alone. -/
theorem holding_function_on_items_held (net : Net) (st : State) (n : Nat) (s : NodeSt) (cs : List Rat)
    (h : (net.cfg n).hFn = some cs) (hin : (net.cfg n).inE = []) :
    (nodeCosts net st n s).hc = polyEval cs (pos s.il + lsum ((net.cfg n).outE.map fun e => (st.edge e).odi)) := by
  simp [nodeCosts, h, hin, lsum]; grind

/-- An explicit in-transit rate of zero is used as zero; only `None` falls back to the holding rate. -/
theorem in_transit_rate_zero_is_not_none (net : Net) (st : State) (n : Nat) (s : NodeSt)
    (h : (net.cfg n).hTransit = some 0) : (nodeCosts net st n s).ithc = 0 := by
  simp [nodeCosts, h]

/-- The value returned by the simulation is the sum of the per-node per-period totals. -/
theorem total_is_sum (tr : List State) :
    totalCost tr = lsum (tr.map fun st => lsum (st.nodes.map (·.tc))) := rfl

theorem total_append (a b : List State) : totalCost (a ++ b) = totalCost a + totalCost b := by
  simp [totalCost, lsum_append]

end Stockpyl.Sim
