import StockpylModel.Model.Loss
import StockpylModel.Props.C13
/-!
# C09 — loss functions equal their definitions
Finite pmf on {0..D}: exact theorems. Closed forms: identities valid for ANY values of the SciPy primitives.
-/
namespace Stockpyl.Loss
open Stockpyl Stockpyl.SS

theorem ex_smul (p : List Rat) (a : Rat) (f : Nat → Rat) (off : Nat) :
    ex p (fun d => a * f d) off = a * ex p f off := by
  induction p generalizing off with
  | nil => simp only [ex]; grind
  | cons q qs ih => simp only [ex, ih]; grind

theorem ex_sub (p : List Rat) (f g : Nat → Rat) (off : Nat) :
    ex p (fun d => f d - g d) off = ex p f off - ex p g off := by
  induction p generalizing off with
  | nil => simp only [ex]; grind
  | cons q qs ih => simp only [ex, ih]; grind

theorem ex_nonneg (p : List Rat) (f : Nat → Rat) (off : Nat) (hp : ∀ q ∈ p, 0 ≤ q) (hf : ∀ d, 0 ≤ f d) :
    0 ≤ ex p f off := by
  have := ex_ge p f 0 off hp (fun d _ => hf d)
  grind

theorem ex_mono (p : List Rat) (f g : Nat → Rat) (off : Nat) (hp : ∀ q ∈ p, 0 ≤ q) (h : ∀ d, f d ≤ g d) :
    ex p f off ≤ ex p g off := by
  have := ex_nonneg p (fun d => g d - f d) off hp (fun d => by have := h d; grind)
  rw [ex_sub] at this; grind

theorem pos_sub_pos (a : Int) : pos ((a : Int) : Rat) - pos ((-a : Int) : Rat) = (a : Rat) := by
  simp only [pos]
  have : ((-a : Int) : Rat) = -((a : Int) : Rat) := by push_cast; rfl
  rw [this]; grind

/-- Complement identity: `n̄(x) − n(x) = x − E[X]` for every pmf with total mass one and every integer `x`. -/
theorem loss_complement (p : List Rat) (x : Int) (hsum : lsum p = 1) :
    lossNbar p x - lossN p x = (x : Rat) - mean p := by
  simp only [lossNbar, lossN, mean, expect]
  rw [← ex_sub]
  have : (fun d : Nat => pos ((x - (d : Int) : Int) : Rat) - pos (((d : Int) - x : Int) : Rat))
      = fun d : Nat => (x : Rat) - (d : Rat) := by
    funext d
    have h := pos_sub_pos (x - (d : Int))
    have e : (-(x - (d : Int)) : Int) = (d : Int) - x := by omega
    rw [e] at h
    rw [h]; push_cast; rfl
  rw [this, ex_sub, ex_const, hsum]; grind

/-- Both loss functions are non-negative … -/
theorem loss_nonneg (p : List Rat) (x : Int) (hp : ∀ q ∈ p, 0 ≤ q) : 0 ≤ lossN p x ∧ 0 ≤ lossNbar p x := by
  constructor <;> (apply ex_nonneg _ _ _ hp; intro d; simp only [pos]; grind)

/-- … `n` is non-increasing and `n̄` is non-decreasing in `x`. -/
theorem loss_monotone (p : List Rat) (x : Int) (hp : ∀ q ∈ p, 0 ≤ q) :
    lossN p (x + 1) ≤ lossN p x ∧ lossNbar p x ≤ lossNbar p (x + 1) := by
  constructor
  · apply ex_mono _ _ _ _ hp
    intro d
    simp only [pos]
    have : (((d : Int) - (x + 1) : Int) : Rat) = (((d : Int) - x : Int) : Rat) - 1 := by push_cast; grind
    rw [this]; grind
  · apply ex_mono _ _ _ _ hp
    intro d
    simp only [pos]
    have : ((x + 1 - (d : Int) : Int) : Rat) = ((x - (d : Int) : Int) : Rat) + 1 := by push_cast; grind
    rw [this]; grind

/-- The cdf branch of `discrete_loss` equals the definition: `n̄(x) = Σ_{y<x} F(y)` (summation by parts),
via the one-step identity `n̄(x+1) = n̄(x) + F(x)` and `n̄(0) = 0`. -/
theorem nbar_step (p : List Rat) (x : Nat) :
    lossNbar p ((x : Int) + 1) = lossNbar p (x : Int) + cdfAt p x := by
  simp only [lossNbar, cdfAt, expect]
  rw [← ex_add]
  apply ex_congr
  intro d _
  simp only [pos]
  by_cases h : d ≤ x
  · have h1 : (0 : Rat) ≤ (((x : Int) - (d : Int) : Int) : Rat) := by
      have : (0 : Int) ≤ (x : Int) - (d : Int) := by omega
      exact_mod_cast this
    have e : (((x : Int) + 1 - (d : Int) : Int) : Rat) = (((x : Int) - (d : Int) : Int) : Rat) + 1 := by push_cast; grind
    rw [e]; simp [h]; grind
  · have h1 : (((x : Int) + 1 - (d : Int) : Int) : Rat) ≤ 0 := by
      have : (x : Int) + 1 - (d : Int) ≤ 0 := by omega
      exact_mod_cast this
    have h2 : (((x : Int) - (d : Int) : Int) : Rat) ≤ 0 := by
      have : (x : Int) - (d : Int) ≤ 0 := by omega
      exact_mod_cast this
    simp [h]; grind

theorem nbar_zero (p : List Rat) : lossNbar p 0 = 0 := by
  simp only [lossNbar, expect]
  have : (fun d : Nat => pos (((0 : Int) - (d : Int) : Int) : Rat)) = fun _ => (0 : Rat) := by
    funext d
    simp only [pos]
    have : (((0 : Int) - (d : Int) : Int) : Rat) ≤ 0 := by
      have : (0 : Int) - (d : Int) ≤ 0 := by omega
      exact_mod_cast this
    grind
  rw [this, ex_const]; grind

theorem cdf_branch_eq_definition (p : List Rat) (x : Nat) : lossNbarCdf p x = lossNbar p (x : Int) := by
  induction x with
  | zero => simp [lossNbarCdf, lsum, nbar_zero]
  | succ x ih =>
    have : lossNbarCdf p (x + 1) = lossNbarCdf p x + cdfAt p x := by
      simp only [lossNbarCdf, List.range_succ, List.map_append, List.map_cons, List.map_nil, lsum_append, lsum]
      grind
    rw [this, ih]
    have := nbar_step p x
    push_cast
    rw [this]

/-- Second-order pair (factorial-moment variants): `n₂(x) + n̄₂(x) = ½ E[(X−x)(X−x−1)]
= ½ (E[X²] − (2x+1)E[X] + x² + x)`, which equals `½((x−E)² + (x−E) + V)`. -/
theorem second_loss_sum (p : List Rat) (x : Int) (hsum : lsum p = 1) :
    loss2 p x + loss2bar p x = (1/2) * (secondMoment p - (2 * (x : Rat) + 1) * mean p + (x : Rat) * (x : Rat) + (x : Rat)) := by
  simp only [loss2, loss2bar, secondMoment, mean, expect]
  have key : ex p (fun d : Nat => (if x ≤ (d : Int) then (((d : Int) - x : Int) : Rat) * ((((d : Int) - x - 1 : Int)) : Rat) else 0)
      + (if (d : Int) ≤ x then ((x - (d : Int) : Int) : Rat) * ((x + 1 - (d : Int) : Int) : Rat) else 0)) 0
      = ex p (fun d : Nat => (d : Rat) * (d : Rat) - (2 * (x : Rat) + 1) * (d : Rat) + ((x : Rat) * (x : Rat) + (x : Rat))) 0 := by
    apply ex_congr
    intro d _
    have c1 : (((d : Int) - x : Int) : Rat) = (d : Rat) - (x : Rat) := by push_cast; rfl
    have c2 : (((d : Int) - x - 1 : Int) : Rat) = (d : Rat) - (x : Rat) - 1 := by push_cast; rfl
    have c3 : ((x - (d : Int) : Int) : Rat) = (x : Rat) - (d : Rat) := by push_cast; rfl
    have c4 : ((x + 1 - (d : Int) : Int) : Rat) = (x : Rat) + 1 - (d : Rat) := by push_cast; rfl
    rw [c1, c2, c3, c4]
    rcases Int.lt_trichotomy x (d : Int) with h | h | h
    · have h1 : x ≤ (d : Int) := by omega
      have h2 : ¬ (d : Int) ≤ x := by omega
      simp only [h1, h2, ↓reduceIte]; grind
    · have h1 : x ≤ (d : Int) := by omega
      have h2 : (d : Int) ≤ x := by omega
      have e : (x : Rat) = (d : Rat) := by rw [h]; rfl
      simp only [h1, h2, ↓reduceIte, e]; grind
    · have h1 : ¬ x ≤ (d : Int) := by omega
      have h2 : (d : Int) ≤ x := by omega
      simp only [h1, h2, ↓reduceIte]; grind
  rw [ex_add] at key
  have e2 : ex p (fun d : Nat => (d : Rat) * (d : Rat) - (2 * (x : Rat) + 1) * (d : Rat) + ((x : Rat) * (x : Rat) + (x : Rat))) 0
      = ex p (fun d : Nat => (d : Rat) * (d : Rat)) 0 - (2 * (x : Rat) + 1) * ex p (fun d : Nat => (d : Rat)) 0
        + ((x : Rat) * (x : Rat) + (x : Rat)) := by
    rw [ex_add, ex_sub, ex_smul, ex_const, hsum]; grind
  rw [e2] at key
  grind

/-! ### closed forms: complement identities for ANY primitive values -/

theorem poisson_complement (x mu f F : Rat) :
    (poissonLoss x mu f F).2 - (poissonLoss x mu f F).1 = x - mu := by simp only [poissonLoss]; grind

theorem poisson_second_complement (x mu f F : Rat) :
    (poissonLoss2 x mu f F).1 + (poissonLoss2 x mu f F).2 = (1/2) * ((x - mu) * (x - mu) + (x - mu) + mu) := by
  simp only [poissonLoss2]; grind

theorem std_normal_complement (z phi Phi : Rat) :
    (stdNormalLoss z phi Phi).2 - (stdNormalLoss z phi Phi).1 = z ∧
    (stdNormalLoss2 z phi Phi).1 + (stdNormalLoss2 z phi Phi).2 = (1/2) * (z * z + 1) := by
  simp only [stdNormalLoss, stdNormalLoss2]; constructor <;> grind

theorem normal_complement (x mean sd phi Phi : Rat) (hsd : sd ≠ 0) :
    (normalLoss x mean sd phi Phi).2 - (normalLoss x mean sd phi Phi).1 = x - mean := by
  simp only [normalLoss, stdNormalLoss]
  have : sd * ((x - mean) / sd) = x - mean := by
    rw [Rat.div_def, Rat.mul_comm (x - mean), ← Rat.mul_assoc, Rat.mul_inv_cancel sd hsd]; grind
  grind

theorem negbin_gamma_complement (x r beta mean a b f F : Rat) :
    (negBinLoss x r beta mean f F).2 - (negBinLoss x r beta mean f F).1 = x - mean ∧
    (gammaLoss x a b f F).2 - (gammaLoss x a b f F).1 = x - a * b := by
  simp only [negBinLoss, gammaLoss]; constructor <;> grind

/-- Uniform on `[a,b]`: `n̄ − n = x − (a+b)/2`. -/
theorem uniform_complement (x a b : Rat) (hab : a < b) :
    (uniformLoss x a b).2 - (uniformLoss x a b).1 = x - (a + b) / 2 := by
  simp only [uniformLoss]
  have hne : 2 * (b - a) ≠ 0 := by grind
  have h2 : ((x - a) * (x - a) - (b - x) * (b - x)) = (2 * (b - a)) * (x - (a + b) / 2) := by grind
  rw [Rat.div_def, Rat.div_def]
  have hc := Rat.mul_inv_cancel _ hne
  generalize (2 * (b - a))⁻¹ = c at hc ⊢
  have : (x - a) * (x - a) * c - (b - x) * (b - x) * c = ((x - a) * (x - a) - (b - x) * (b - x)) * c := by grind
  rw [this, h2]
  have : 2 * (b - a) * (x - (a + b) / 2) * c = (2 * (b - a) * c) * (x - (a + b) / 2) := by grind
  rw [this, hc]; grind

example : lossN [1/4, 1/2, 1/4] 1 = 1/4 ∧ lossNbar [1/4, 1/2, 1/4] 1 = 1/4 ∧ mean [1/4, 1/2, 1/4] = 1 ∧
    loss2 [1/4, 1/2, 1/4] 0 = 1/4 := by decide +kernel

end Stockpyl.Loss
