import StockpylModel.Model.SSM
import StockpylModel.Lemmas.Basic
/-!
# C07 — SSM serial optimiser: minimising levels, evaluation = optimisation, one stage = newsvendor
-/
namespace Stockpyl.SSM
open Stockpyl

/-- In optimisation mode the level chosen for a stage is a (first) minimiser of that stage's cost row `C_j`
over the whole grid. -/
theorem stage_argmin (P : Params) (j : Nat) (st : StageIn) (cbarPrev : List Rat) :
    let r := stageStep P j st cbarPrev none
    r.1 = cRow P j st cbarPrev ∧ r.2.1 < r.1.length ∧ ∀ c ∈ r.1, r.1.getD r.2.1 0 ≤ c := by
  simp only [stageStep]
  generalize hC : cRow P j st cbarPrev = C
  have hne : C ≠ [] := by
    intro h
    have := congrArg List.length h
    rw [← hC] at this; simp [cRow] at this
  obtain ⟨v, k, hfm⟩ := firstMin_isSome hne
  obtain ⟨hle, _⟩ := firstMin_spec hfm
  obtain ⟨hidx, _⟩ := firstMin_index hfm
  simp only [hfm]
  have hk := (List.getElem?_eq_some_iff.mp hidx).1
  refine ⟨trivial, hk, ?_⟩
  intro c hc
  simp only [List.getD_eq_getElem?_getD, hidx, Option.getD_some]
  exact hle c hc

/-- Evaluation mode reuses the optimiser with the level fixed: fixing a stage's level at the optimiser's own
choice reproduces the optimiser's rows exactly. -/
theorem eval_is_opt_with_fixed_S (P : Params) (j : Nat) (st : StageIn) (cbarPrev : List Rat) :
    stageStep P j st cbarPrev (some (gridAt P (stageStep P j st cbarPrev none).2.1)) = stageStep P j st cbarPrev none := by
  simp only [stageStep, gridAt]
  have : ∀ k : Nat, (P.xlo + (k : Int) - P.xlo).toNat = k := by intro k; omega
  simp only [this]

/-- The reported optimal cost is `C_N` evaluated at the last stage's level. -/
theorem reported_cost_def (P : Params) (fixed : List (Option Int)) :
    (solve P fixed).cost = match (run P fixed).getLast? with | some r => r.1.getD r.2.1 0 | none => 0 := rfl

/-- One stage reduces to the newsvendor: with a single stage (echelon = local holding cost `h`), a grid that
starts at or below zero and non-negative demand values, `Ĉ_1(y) = h·y⁺ + p·y⁻` for EVERY position reached —
on the grid and below it (the linear left tail is exact), hence `C_1(y) = Σ_d f_d (h (y−d)⁺ + p (d−y)⁺)`. -/
theorem one_stage_chat (p mu h : Rat) (L : Nat) (ds : List Int) (fd : List Rat) (xlo : Int) (n i : Nat) (d : Int)
    (hx : xlo ≤ 0) (hi : i ≤ n) (hd : 0 ≤ d) :
    let st : StageIn := ⟨h, L, ds, fd⟩
    let P : Params := ⟨p, mu, xlo, n, [st]⟩
    chatAt P 1 st (cbar0 P) (gridAt P i - d) = h * pos ((xlo + i - d : Int) : Rat) + p * neg ((xlo + i - d : Int) : Rat) := by
  intro st P
  have hsum : sumH P = h := by simp only [sumH, P, st, List.map_cons, List.map_nil, lsum]; grind
  have hxlo : P.xlo = xlo := rfl
  have hn : P.n = n := rfl
  have hh : st.h = h := rfl
  have hp : P.p = p := rfl
  simp only [chatAt, gridAt, hxlo]
  split
  · rename_i hlt
    have hneg : ((xlo + (i : Int) - d : Int) : Rat) < 0 := by
      have : xlo + (i : Int) - d < 0 := by omega
      exact_mod_cast this
    have e1 : sumL P 1 1 = 0 := by simp [sumL]
    simp only [chatLim1, hsum, hp, List.range_one, List.map_cons, List.map_nil, lsum, e1, Nat.zero_add]
    have e2 : hAt P 1 = h := by simp [hAt, P, st]
    rw [e2]
    have z : ((0 : Nat) : Rat) = 0 := rfl
    rw [z]
    simp only [pos, neg]
    generalize ((xlo + (i : Int) - d : Int) : Rat) = y at hneg ⊢
    grind
  · rename_i hge
    have hk : (xlo + (i : Int) - d - xlo).toNat ≤ n := by omega
    have hidx : ((xlo + (i : Int) - d - xlo).toNat : Int) = (i : Int) - d := by omega
    simp only [cbar0, hn, List.getD_eq_getElem?_getD, List.getElem?_map, List.getElem?_range (Nat.lt_succ_of_le hk), Option.map_some,
      Option.getD_some, gridAt, hsum, hxlo, hh, hp]
    have e : ((xlo + ((xlo + (i : Int) - d - xlo).toNat : Int) : Int) : Rat) = ((xlo + (i : Int) - d : Int) : Rat) := by
      rw [hidx]; congr 1; omega
    rw [e]
    simp only [pos, neg]
    generalize ((xlo + (i : Int) - d : Int) : Rat) = y
    grind

theorem one_stage_newsvendor (p mu h : Rat) (L : Nat) (ds : List Int) (fd : List Rat) (xlo : Int) (n i : Nat)
    (hx : xlo ≤ 0) (hi : i ≤ n) (hd : ∀ d ∈ ds, 0 ≤ d) :
    let st : StageIn := ⟨h, L, ds, fd⟩
    let P : Params := ⟨p, mu, xlo, n, [st]⟩
    (cRow P 1 st (cbar0 P)).getD i 0 =
      lsum ((List.zip ds fd).map fun (d, f) => f * (h * pos ((xlo + i - d : Int) : Rat) + p * neg ((xlo + i - d : Int) : Rat))) := by
  intro st P
  have hn : P.n = n := rfl
  simp only [cRow, hn]
  rw [List.getD_eq_getElem?_getD, List.getElem?_map, List.getElem?_range (by omega)]
  simp only [Option.map_some, Option.getD_some]
  congr 1
  apply List.map_congr_left
  intro ⟨d, f⟩ hmem
  have hdm : d ∈ ds := (List.of_mem_zip hmem).1
  have := one_stage_chat p mu h L ds fd xlo n i d hx hi (hd d hdm)
  simp only at this ⊢
  rw [this]

end Stockpyl.SSM
