import StockpylModel.Props.Net
import StockpylModel.Lemmas.SimNode
/-!
# Network level, C02: at every node of every well-formed network, in every reachable state, the backorders
owed to its customers add up to the negative part of its inventory level.
No condition on the visiting sequences is needed: every single node operation preserves the invariant.
-/
namespace Stockpyl.Sim
open Stockpyl

/-- Backorders node `n` owes, summed over its out-edges (successors and the external customer). -/
def outBO (net : Net) (s : State) (n : Nat) : Rat := lsum ((net.cfg n).outE.map fun e => (s.edge e).bo)

def NodeBO (net : Net) (s : State) : Prop := ∀ n, outBO net s n = neg (s.node n).il

structure Inv2 (net : Net) (s : State) : Prop where
  pinv : PInv net s
  nlen : s.nodes.length = net.nodes.length
  bo : NodeBO net s

theorem outBO_congr (net : Net) (s s' : State) (n : Nat)
    (h : ∀ e ∈ (net.cfg n).outE, (s'.edge e).bo = (s.edge e).bo) : outBO net s' n = outBO net s n := by
  simp only [outBO]
  congr 1
  apply List.map_congr_left
  exact h

theorem inv2_orderOp (net : Net) (hwf : NetWF net) (m : Nat) (s : State) (h : Inv2 net s) :
    Inv2 net (orderOp net m s) := by
  obtain ⟨k1, k2, k3⟩ := orderOp_keeps net m s
  refine ⟨pinv_orderOp net hwf m s h.pinv, by rw [k3]; exact h.nlen, ?_⟩
  intro n
  rw [outBO_congr net s _ n (fun e _ => k2 e), k1 n]
  exact h.bo n

theorem node_out_of_range (st : State) (n : Nat) (h : st.nodes.length ≤ n) : st.node n = {} := by
  simp [State.node, List.getD_eq_getElem?_getD, List.getElem?_eq_none h]

theorem inv2_nodeShip (net : Net) (hwf : NetWF net) (m : Nat) (s : State) (h : Inv2 net s) :
    Inv2 net (nodeShip net m s) := by
  have hlen := h.pinv.1
  have hok := h.pinv.2
  refine ⟨pinv_nodeShip net hwf m s h.pinv, by rw [nodeShip_nodes_len]; exact h.nlen, ?_⟩
  intro n
  by_cases hnm : m = n
  · subst hnm
    by_cases hm : m < s.nodes.length
    · -- the node that ships: the kernel theorem
      rw [nodeShip_il_self net hwf m s hm hlen]
      have houtl : ∀ e ∈ (net.cfg m).outE, e < s.edges.length := by
        intro e he; rw [hlen]; exact (hwf.outE_src m e he).2
      have hmap : ((net.cfg m).outE.map fun e => (preShip net m s).edge e) = (net.cfg m).outE.map fun e => s.edge e := by
        apply List.map_congr_left
        intro e he
        exact pre_out net hwf m s e (houtl e he) (fun hi => not_in_both net hwf m e hi he)
      have hsa := (shipLoop_shipAll net (preShip net m s) (net.cfg m).outE (preShip net m s)
        (pos (s.node m).il + ((preShip net m s).node m).newFG) 0 0 (hwf.outE_nodup m)
        (by intro e he; simp only [preShip, rmToFg_len, receiveShipments_len]; exact houtl e he)).1
      have hl : ((net.cfg m).outE.map fun e =>
          ((flagsOf net (preShip net m s) e).1, (flagsOf net (preShip net m s) e).2, (preShip net m s).edge e))
          = (net.cfg m).outE.map fun e =>
          ((flagsOf net (preShip net m s) e).1, (flagsOf net (preShip net m s) e).2, s.edge e) := by
        apply List.map_congr_left
        intro e he
        have := pre_out net hwf m s e (houtl e he) (fun hi => not_in_both net hwf m e hi he)
        simp only [preShip]; rw [this]
      rw [hl] at hsa
      -- out-edge backorders after the visit are those of the pure loop
      have hbo : outBO net (nodeShip net m s) m =
          sumBO (shipAll (pos (s.node m).il + producible net (receiveShipments net m s) m)
            ((net.cfg m).outE.map fun e =>
              ((flagsOf net (preShip net m s) e).1, (flagsOf net (preShip net m s) e).2, s.edge e))).1 := by
        rw [← (preShip_node net m s hm).2, ← hsa]
        simp only [outBO, sumBO, List.map_map]
        congr 1
        apply List.map_congr_left
        intro e he
        exact nodeShip_bo_out net hwf m s hlen e he
      rw [hbo]
      have kern := bo_matches_il_kernel (s.node m).il (producible net (receiveShipments net m s) m)
        ((net.cfg m).outE.map fun e =>
          ((flagsOf net (preShip net m s) e).1, (flagsOf net (preShip net m s) e).2, s.edge e))
        (producible_nonneg _ _ _)
        (by
          intro x hx
          obtain ⟨e, he, rfl⟩ := List.mem_map.mp hx
          have := hok e (houtl e he)
          exact ⟨this.bo, this.io, this.odi⟩)
        (by
          have := h.bo m
          simp only [outBO] at this
          simp only [sumBO, List.map_map]
          exact this)
      rw [kern]
      simp only [List.map_map]
      rfl
    · -- a position outside the network: nothing there
      have hm' : s.nodes.length ≤ m := Nat.le_of_not_lt hm
      have hcfg := cfg_default net m (by rw [← h.nlen]; exact hm')
      rw [node_out_of_range _ m (by rw [nodeShip_nodes_len]; exact hm')]
      simp only [outBO, hcfg.2.1, List.map_nil, lsum, neg]
      grind
  · rw [nodeShip_il_other net m n s hnm]
    rw [outBO_congr net s _ n (by
      intro e he
      apply nodeShip_bo_other net hwf m s hlen hok e
      intro hm
      have a := (hwf.outE_src n e he).1
      have b := (hwf.outE_src m e hm).1
      rw [a] at b
      exact hnm (Option.some.inj b).symm)]
    exact h.bo n

/-! ### exogenous inputs, costs and next-period initialisation keep the invariant -/

theorem getD_map_il (l : List NodeSt) (f : NodeSt → NodeSt) (hf : ∀ x, (f x).il = x.il) (hd : (f {}).il = 0) (n : Nat) :
    ((l.map f).getD n {}).il = (l.getD n {}).il := by
  simp only [List.getD_eq_getElem?_getD, List.getElem?_map]
  cases h : l[n]? with
  | none => simp
  | some v => simp [hf]

theorem setExo_keeps (net : Net) (exo : List Exo) (st : State) (hx : exo.length = st.nodes.length) :
    (∀ n, ((setExo net exo st).node n).il = (st.node n).il) ∧
    (∀ e, ((setExo net exo st).edge e).bo = (st.edge e).bo) ∧
    (setExo net exo st).nodes.length = st.nodes.length := by
  simp only [setExo]
  generalize hs1 : ({ st with nodes := (st.nodes.zip exo).map fun (s, x) => { s with disrupted := x.disrupted } } : State) = st1
  have a1 : ∀ n, (st1.node n).il = (st.node n).il := by
    intro n
    rw [← hs1]
    simp only [State.node, List.getD_eq_getElem?_getD, List.getElem?_map]
    by_cases hn : n < st.nodes.length
    · have hz : (st.nodes.zip exo)[n]? = some (st.nodes[n], exo[n]'(by rw [hx]; exact hn)) := by
        rw [List.getElem?_zip_eq_some]
        exact ⟨List.getElem?_eq_getElem hn, List.getElem?_eq_getElem (by rw [hx]; exact hn)⟩
      rw [hz]; simp [List.getElem?_eq_getElem hn]
    · have hz : (st.nodes.zip exo)[n]? = none := by
        apply List.getElem?_eq_none; simp [List.length_zip]; omega
      rw [hz, List.getElem?_eq_none (Nat.le_of_not_lt hn)]; simp
  have a2 : ∀ e, (st1.edge e).bo = (st.edge e).bo := by intro e; rw [← hs1]; rfl
  have a3 : st1.nodes.length = st.nodes.length := by rw [← hs1]; simp [List.length_zip, hx]
  have key : ∀ (l : List Nat) (s : State),
      let r := l.foldl (fun s n =>
        s.modEdges ((net.cfg n).outE.filter fun e => (net.edge e).dst.isNone) fun _ ed =>
          { ed with iopl := ed.iopl.set 0 ((exo.getD n {}).demand) }) s
      (∀ n, (r.node n).il = (s.node n).il) ∧ (∀ e, (r.edge e).bo = (s.edge e).bo) ∧ r.nodes.length = s.nodes.length := by
    intro l
    induction l with
    | nil => intro s; exact ⟨fun _ => rfl, fun _ => rfl, rfl⟩
    | cons x xs ih =>
      intro s
      simp only [List.foldl_cons]
      obtain ⟨b1, b2, b3⟩ := ih (s.modEdges ((net.cfg x).outE.filter fun e => (net.edge e).dst.isNone) fun _ ed =>
          { ed with iopl := ed.iopl.set 0 ((exo.getD x {}).demand) })
      refine ⟨?_, ?_, ?_⟩
      · intro n; rw [b1 n]; simp
      · intro e; rw [b2 e]
        refine bo_modEdges s _ _ ?_ e
        intro _ _; rfl
      · rw [b3]; simp
  obtain ⟨c1, c2, c3⟩ := key (List.range net.nodes.length) st1
  exact ⟨fun n => by rw [c1 n, a1 n], fun e => by rw [c2 e, a2 e], by rw [c3, a3]⟩

theorem inv2_setExo (net : Net) (exo : List Exo) (st : State) (h : Inv2 net st) (hexo : ExoOK exo)
    (hx : exo.length = net.nodes.length) : Inv2 net (setExo net exo st) := by
  obtain ⟨x1, x2, _⟩ := setExo_spec net exo st hexo h.pinv.2
  obtain ⟨k1, k2, k3⟩ := setExo_keeps net exo st (by rw [hx, h.nlen])
  refine ⟨⟨by rw [x1]; exact h.pinv.1, x2⟩, by rw [k3]; exact h.nlen, ?_⟩
  intro n
  rw [outBO_congr net st _ n (fun e _ => k2 e), k1 n]
  exact h.bo n

theorem inv2_initNext (net : Net) (hwf : NetWF net) (s : State) (h : Inv2 net s) : Inv2 net (initNext net s) := by
  refine ⟨initNext_pinv net s h.pinv, by simp [initNext, h.nlen], ?_⟩
  intro n
  have hil : ((initNext net s).node n).il = (s.node n).il := by
    simp only [initNext, State.node]
    exact getD_map_il s.nodes nextNode (fun _ => rfl) rfl n
  rw [hil, outBO_congr net s _ n (by
    intro e he
    rw [initNext_edge net s e h.pinv.1 (by rw [h.pinv.1]; exact (hwf.outE_src n e he).2)]
    rfl)]
  exact h.bo n

theorem costs_nodeBO (net : Net) (s : State) (h : NodeBO net s) : NodeBO net (costs net s) := by
  intro n
  have hil : ((costs net s).node n).il = (s.node n).il := by
    simp only [costs, State.node, List.getD_eq_getElem?_getD, List.getElem?_map, List.getElem?_range']
    by_cases hn : n < s.nodes.length
    · simp [List.getElem?_range hn, nodeCosts, State.node, List.getD_eq_getElem?_getD]
    · have : (List.range s.nodes.length)[n]? = none := by
        apply List.getElem?_eq_none; simpa using Nat.le_of_not_lt hn
      simp [this, List.getElem?_eq_none (Nat.le_of_not_lt hn)]
  rw [hil]
  have : outBO net (costs net s) n = outBO net s n := outBO_congr net s _ n (fun e _ => rfl)
  rw [this]
  exact h n

theorem inv2_afterPasses (net : Net) (hwf : NetWF net) (st : State) (exo : List Exo) (h : Inv2 net st)
    (hexo : ExoOK exo) (hx : exo.length = net.nodes.length) : Inv2 net (afterPasses net st exo) := by
  have p1 := inv2_setExo net exo st h hexo hx
  have p2 := pass_inv (orderOp net) (Inv2 net) (inv2_orderOp net hwf) (orderSeq net) _ p1
  exact pass_inv (nodeShip net) (Inv2 net) (inv2_nodeShip net hwf) (shipSeq net) _ p2

/-! ### the initial state -/

def initOKb (net : Net) : Bool :=
  (List.range net.nodes.length).all fun n =>
    match (net.cfg n).initIL with
    | some x => decide (0 ≤ x)
    | none => true

theorem policyOK_qty0 (c : NodeCfg) (h : policyOK c = true) : 0 ≤ c.policy.qty 0 := by
  simp only [policyOK, Bool.and_eq_true] at h
  obtain ⟨h1, _⟩ := h
  cases hp : c.policy with
  | BS S => simp only [Policy.qty]; grind
  | EBS S => simp only [Policy.qty]; grind
  | FQ Q => rw [hp] at h1; simp only [Policy.qty]; simpa using h1
  | rQ r Q => rw [hp] at h1; simp only [Policy.qty]; have : 0 ≤ Q := by simpa using h1
              split <;> grind
  | sS s S => rw [hp] at h1; simp only [Policy.qty]; have : s ≤ S := by simpa using h1
              split <;> grind

theorem initState_inv2 (net : Net) (h1 : netWFb net = true) (h3 : initOKb net = true) : Inv2 net (initState net) := by
  obtain ⟨hwf, hinit⟩ := netWF_of_check net h1
  refine ⟨(initState_netinv net hinit).pinv, by simp [initState], ?_⟩
  intro n
  have hb : outBO net (initState net) n = 0 := by
    simp only [outBO]
    have : ((net.cfg n).outE.map fun e => ((initState net).edge e).bo) = (net.cfg n).outE.map fun _ => (0 : Rat) := by
      apply List.map_congr_left
      intro e he
      rw [initState_edge net e (hwf.outE_src n e he).2]
      obtain ⟨src, dst⟩ := net.edge e
      cases src <;> cases dst <;> rfl
    rw [this]
    generalize (net.cfg n).outE = l
    induction l with
    | nil => rfl
    | cons x xs ih => simp only [List.map_cons, lsum, ih]; grind
  rw [hb]
  by_cases hn : n < net.nodes.length
  · have hnode : (initState net).node n = { il := initIL (net.cfg n) } := by
      simp [initState, State.node, Net.cfg, List.getD_eq_getElem?_getD, List.getElem?_eq_getElem hn]
    rw [hnode]
    have hge : 0 ≤ initIL (net.cfg n) := by
      simp only [initIL]
      cases hi : (net.cfg n).initIL with
      | some x =>
        simp only [initOKb, List.all_eq_true, List.mem_range] at h3
        have := h3 n hn
        rw [hi] at this
        simpa using this
      | none =>
        simp only [netWFb, Bool.and_eq_true, List.all_eq_true, List.mem_range] at h1
        have := h1.1 n hn
        simp only [nodeWFb, Bool.and_eq_true] at this
        exact policyOK_qty0 _ this.1.2
    simp only [neg]; grind
  · rw [node_out_of_range _ n (by simpa [initState] using Nat.le_of_not_lt hn)]
    simp only [neg]; grind

/-- **C02 at network level.** For every well-formed network (any topology, any visiting order), every history
of non-negative demands and arbitrary disruption flags, in every state the simulator reports and at every node:
the backorders the node owes its customers add up to exactly the negative part of its inventory level. -/
theorem bo_matches_il_network (net : Net) (h1 : netWFb net = true) (h3 : initOKb net = true)
    (hist : List (List Exo)) (hexo : ∀ x ∈ hist, ExoOK x ∧ x.length = net.nodes.length) :
    ∀ s ∈ simulate net hist, ∀ n, outBO net s n = neg (s.node n).il := by
  obtain ⟨hwf, _⟩ := netWF_of_check net h1
  have gen : ∀ (hist : List (List Exo)) (st : State), (∀ x ∈ hist, ExoOK x ∧ x.length = net.nodes.length) →
      Inv2 net st → ∀ s ∈ run net st hist, NodeBO net s := by
    intro hist
    induction hist with
    | nil => intro st _ _ s hs; simp [run] at hs
    | cons x xs ih =>
      intro st hx hinv s hs
      obtain ⟨hxo, hxl⟩ := hx x (by simp)
      have ha := inv2_afterPasses net hwf st x hinv hxo hxl
      simp only [run, List.mem_cons] at hs
      rcases hs with rfl | hs
      · rw [step_fst]; exact costs_nodeBO net _ ha.bo
      · refine ih (step net st x).2 (fun y hy => hx y (by simp [hy])) ?_ s hs
        rw [step_snd]; exact inv2_initNext net hwf _ ha
  exact gen hist (initState net) hexo (initState_inv2 net h1 h3)

example : initOKb exampleNet = true := by decide +kernel

end Stockpyl.Sim
