import StockpylModel.Props.Net
/-!
# The two visiting sequences never repeat a node (unconditionally)

`orderSeq` (post-order DFS, `sim.py:_generate_downstream_orders`) and `shipSeq` (pre-order DFS that enters a successor once all its
predecessors have been entered, `_generate_downstream_shipments`) are computed with a fuel-bounded recursion and a visited list. Whatever
the network (cyclic, ill-formed, any fuel), neither sequence contains a node twice: this discharges the two `Nodup` conjuncts of `VisitOK`
for every network, so that only the per-edge ordering condition `edgeVisitOK` remains an executable hypothesis.
-/
namespace Stockpyl.Sim
open Stockpyl

/-- Invariant of a DFS state `(visited, output)`: the output has no duplicates and only holds visited nodes. -/
def SeqInv (s : List Nat × List Nat) : Prop := s.2.Nodup ∧ ∀ x ∈ s.2, x ∈ s.1

/-- What a visit may do to a DFS state: keep the invariant, only grow the visited list, and add to the output only nodes that were not
visited before. -/
def Ext (s t : List Nat × List Nat) : Prop :=
  SeqInv t ∧ (∀ x ∈ s.1, x ∈ t.1) ∧ (∀ x ∈ t.2, x ∈ s.2 ∨ x ∉ s.1)

theorem Ext.refl (s : List Nat × List Nat) (h : SeqInv s) : Ext s s :=
  ⟨h, fun _ hx => hx, fun _ hx => Or.inl hx⟩

theorem Ext.trans {s t u : List Nat × List Nat} (h1 : Ext s t) (h2 : Ext t u) : Ext s u := by
  refine ⟨h2.1, fun x hx => h2.2.1 x (h1.2.1 x hx), fun x hx => ?_⟩
  rcases h2.2.2 x hx with h | h
  · exact h1.2.2 x h
  · exact Or.inr fun hs => h (h1.2.1 x hs)

theorem foldl_ext (f : List Nat × List Nat → Nat → List Nat × List Nat)
    (hf : ∀ s m, SeqInv s → Ext s (f s m)) (l : List Nat) (s : List Nat × List Nat) (hs : SeqInv s) :
    Ext s (l.foldl f s) := by
  induction l generalizing s with
  | nil => exact Ext.refl s hs
  | cons m l ih =>
    have h1 := hf s m hs
    exact Ext.trans h1 (ih (f s m) h1.1)

theorem ordVisit_ext (net : Net) (fuel n : Nat) (s : List Nat × List Nat) (hs : SeqInv s) :
    Ext s (ordVisit net fuel n s) := by
  induction fuel generalizing n s with
  | zero => cases s; exact Ext.refl _ hs
  | succ fuel ih =>
    obtain ⟨vis, out⟩ := s
    unfold ordVisit
    by_cases hv : vis.contains n = true
    · simp only [hv, if_true]; exact Ext.refl _ hs
    · simp only [hv]
      have hn : n ∉ vis := fun h => hv (List.contains_iff_mem.mpr h)
      have h0 : SeqInv (n :: vis, out) := ⟨hs.1, fun x hx => List.mem_cons_of_mem _ (hs.2 x hx)⟩
      have hF := foldl_ext (fun s m => ordVisit net fuel m s) (fun s m h => ih m s h) (net.succs n) (n :: vis, out) h0
      generalize (net.succs n).foldl (fun s m => ordVisit net fuel m s) (n :: vis, out) = r at hF
      obtain ⟨vis', out'⟩ := r
      obtain ⟨⟨hnd, hsub⟩, hmono, hnew⟩ := hF
      have hnout : n ∉ out' := by
        intro h
        rcases hnew n h with h' | h'
        · exact hn (hs.2 n h')
        · exact h' (List.mem_cons_self ..)
      refine ⟨⟨?_, ?_⟩, ?_, ?_⟩
      · show (out' ++ [n]).Nodup
        rw [List.nodup_append]
        refine ⟨hnd, (by simp), ?_⟩
        intro a ha b hb
        rw [List.mem_singleton] at hb
        subst hb
        exact fun h => hnout (h ▸ ha)
      · intro x hx
        show x ∈ vis'
        rcases List.mem_append.mp hx with h | h
        · exact hsub x h
        · rw [List.mem_singleton] at h; subst h; exact hmono _ (List.mem_cons_self ..)
      · intro x hx
        exact hmono x (List.mem_cons_of_mem _ hx)
      · intro x hx
        show x ∈ out ∨ x ∉ vis
        rcases List.mem_append.mp hx with h | h
        · rcases hnew x h with h' | h'
          · exact Or.inl h'
          · exact Or.inr fun hxv => h' (List.mem_cons_of_mem _ hxv)
        · rw [List.mem_singleton] at h; subst h; exact Or.inr hn

theorem shipVisit_ext (net : Net) (fuel n : Nat) (s : List Nat × List Nat) (hs : SeqInv s) :
    Ext s (shipVisit net fuel n s) := by
  induction fuel generalizing n s with
  | zero => cases s; exact Ext.refl _ hs
  | succ fuel ih =>
    obtain ⟨vis, out⟩ := s
    unfold shipVisit
    by_cases hv : vis.contains n = true
    · simp only [hv, if_true]; exact Ext.refl _ hs
    · simp only [hv]
      have hn : n ∉ vis := fun h => hv (List.contains_iff_mem.mpr h)
      have hno : n ∉ out := fun h => hn (hs.2 n h)
      have h0 : SeqInv (n :: vis, out ++ [n]) := by
        refine ⟨?_, ?_⟩
        · show (out ++ [n]).Nodup
          rw [List.nodup_append]
          refine ⟨hs.1, (by simp), ?_⟩
          intro a ha b hb
          rw [List.mem_singleton] at hb
          subst hb
          exact fun h => hno (h ▸ ha)
        · intro x hx
          show x ∈ n :: vis
          rcases List.mem_append.mp hx with h | h
          · exact List.mem_cons_of_mem _ (hs.2 x h)
          · rw [List.mem_singleton] at h; subst h; exact List.mem_cons_self ..
      have hF := foldl_ext
        (fun s m => if (net.preds m).all (fun p => s.1.contains p) then shipVisit net fuel m s else s)
        (fun s m h => by
          by_cases hc : ((net.preds m).all fun p => s.1.contains p) = true
          · simp only [hc, if_true]; exact ih m s h
          · simp only [hc]; exact Ext.refl s h)
        (net.succs n) (n :: vis, out ++ [n]) h0
      refine ⟨hF.1, fun x hx => hF.2.1 x (List.mem_cons_of_mem _ hx), fun x hx => ?_⟩
      rcases hF.2.2 x hx with h | h
      · rcases List.mem_append.mp h with h' | h'
        · exact Or.inl h'
        · rw [List.mem_singleton] at h'; subst h'; exact Or.inr hn
      · exact Or.inr fun hxv => h (List.mem_cons_of_mem _ hxv)

/-- **The order sequence never repeats a node** — for every network, with no hypothesis. -/
theorem orderSeq_nodup (net : Net) : (orderSeq net).Nodup := by
  unfold orderSeq
  exact (foldl_ext (fun s n => ordVisit net (net.nodes.length + 1) n s) (fun s m h => ordVisit_ext net _ m s h)
    (sources net) ([], []) ⟨List.nodup_nil, fun _ h => by cases h⟩).1.1

/-- **The shipment sequence never repeats a node** — for every network, with no hypothesis. -/
theorem shipSeq_nodup (net : Net) : (shipSeq net).Nodup := by
  unfold shipSeq
  exact (foldl_ext (fun s n => shipVisit net (net.nodes.length + 1) n s) (fun s m h => shipVisit_ext net _ m s h)
    (sources net) ([], []) ⟨List.nodup_nil, fun _ h => by cases h⟩).1.1

/-- `VisitOK` reduces to its per-edge part. -/
theorem visitOK_iff (net : Net) : VisitOK net ↔ ∀ e, e < net.edges.length → edgeVisitOK net e = true :=
  ⟨fun h => h.2.2, fun h => ⟨orderSeq_nodup net, shipSeq_nodup net, h⟩⟩

end Stockpyl.Sim
