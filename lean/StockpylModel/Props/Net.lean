import StockpylModel.Lemmas.SimNet
/-!
# Network level: the single-edge theorems of C01–C03 hold on every edge of every well-formed network

`step_edge_internal` shows that one period of the whole simulator model (`Sim.step`: exogenous inputs, the
order pass over `orderSeq`, the shipment pass over `shipSeq`, costs, next-period initialisation) acts on the
record of an internal edge exactly as `edgePeriod` does for SOME non-negative order quantity and supplier
on-hand and SOME disruption flags. The per-edge invariants then hold in every reachable state by induction
over the history.
-/
namespace Stockpyl.Sim
open Stockpyl

/-- Visiting-order side condition for one edge (decidable; evaluated by the driver for every generated
network): both end-points are visited in both passes, the customer before the supplier in the order pass
and the supplier before the customer in the shipment pass. -/
def edgeVisitOK (net : Net) (e : Nat) : Bool :=
  match (net.edge e).src, (net.edge e).dst with
  | some a, some b =>
    (orderSeq net).contains a && (orderSeq net).contains b &&
    decide ((orderSeq net).idxOf b < (orderSeq net).idxOf a) &&
    (shipSeq net).contains a && (shipSeq net).contains b &&
    decide ((shipSeq net).idxOf a < (shipSeq net).idxOf b)
  | some a, none => (orderSeq net).contains a && (shipSeq net).contains a
  | none, some b => (orderSeq net).contains b && (shipSeq net).contains b
  | none, none => true

def VisitOK (net : Net) : Prop :=
  (orderSeq net).Nodup ∧ (shipSeq net).Nodup ∧ ∀ e, e < net.edges.length → edgeVisitOK net e = true

instance (net : Net) : Decidable (VisitOK net) := by unfold VisitOK; infer_instance

/-- Phase invariant: the state has one record per edge and all records meet the sign conditions. -/
def PInv (net : Net) (s : State) : Prop := s.edges.length = net.edges.length ∧ StateOK s

theorem pinv_orderOp (net : Net) (hwf : NetWF net) (n : Nat) (s : State) (h : PInv net s) :
    PInv net (orderOp net n s) :=
  ⟨by rw [(orderOp_spec net hwf n s h.1).1]; exact h.1, orderOp_ok net hwf n s h.1 h.2⟩

theorem pinv_nodeShip (net : Net) (hwf : NetWF net) (n : Nat) (s : State) (h : PInv net s) :
    PInv net (nodeShip net n s) :=
  ⟨by rw [(nodeShip_spec net hwf n s h.1 h.2).1]; exact h.1, nodeShip_ok net hwf n s h.1 h.2⟩

/-- The state after the two passes of one period. -/
def afterPasses (net : Net) (st : State) (exo : List Exo) : State :=
  (shipSeq net).foldl (fun s n => nodeShip net n s)
    ((orderSeq net).foldl (fun s n => orderOp net n s) (setExo net exo st))

theorem step_fst (net : Net) (st : State) (exo : List Exo) :
    (step net st exo).1 = costs net (afterPasses net st exo) := rfl

theorem step_snd (net : Net) (st : State) (exo : List Exo) :
    (step net st exo).2 = initNext net (afterPasses net st exo) := rfl

theorem afterPasses_pinv (net : Net) (hwf : NetWF net) (st : State) (exo : List Exo)
    (hinv : PInv net st) (hexo : ExoOK exo) : PInv net (afterPasses net st exo) := by
  obtain ⟨x1, x2, _⟩ := setExo_spec net exo st hexo hinv.2
  have p1 : PInv net (setExo net exo st) := ⟨by rw [x1]; exact hinv.1, x2⟩
  have p2 := pass_inv (orderOp net) (PInv net) (pinv_orderOp net hwf) (orderSeq net) _ p1
  exact pass_inv (nodeShip net) (PInv net) (pinv_nodeShip net hwf) (shipSeq net) _ p2

theorem nextEdge_consume (tp : Bool) (m : Rat) (x : EdgeSt) :
    nextEdge tp (consumeEdge m x) = consumeEdge m (nextEdge tp x) := by
  cases x; rfl

/-- **Projection of one period onto an internal edge.** -/
theorem step_edge_internal (net : Net) (hwf : NetWF net) (hv : VisitOK net) (st : State) (exo : List Exo)
    (hinv : PInv net st) (hexo : ExoOK exo) (e a b : Nat) (he : e < net.edges.length)
    (hsrc : (net.edge e).src = some a) (hdst : (net.edge e).dst = some b) :
    ∃ q oh sp tp rp m, 0 ≤ q ∧ 0 ≤ oh ∧
      (afterPasses net st exo).edge e =
        consumeEdge m (edgePeriod (net.cfg b).olt (net.cfg b).slt q oh sp tp rp (st.edge e)).1 ∧
      (step net st exo).2.edge e =
        consumeEdge m (edgePeriod (net.cfg b).olt (net.cfg b).slt q oh sp tp rp (st.edge e)).2 := by
  obtain ⟨hnd1, hnd2, hall⟩ := hv
  have hev := hall e he
  simp only [edgeVisitOK, hsrc, hdst, Bool.and_eq_true, List.contains_iff_mem, decide_eq_true_eq] at hev
  obtain ⟨⟨⟨⟨⟨oa, ob⟩, oidx⟩, sa⟩, sb⟩, sidx⟩ := hev
  have hab : a ≠ b := fun h => hwf.no_loop e a hsrc (h ▸ hdst)
  have hine : e ∈ (net.cfg b).inE := hwf.dst_inE e he b hdst
  have houte : e ∈ (net.cfg a).outE := hwf.src_outE e he a hsrc
  -- who touches e
  have notin : ∀ n, n ≠ b → e ∉ (net.cfg n).inE := by
    intro n hn hm
    have := (hwf.inE_dst n e hm).1
    rw [hdst] at this
    exact hn (Option.some.inj this).symm
  have notout : ∀ n, n ≠ a → e ∉ (net.cfg n).outE := by
    intro n hn hm
    have := (hwf.outE_src n e hm).1
    rw [hsrc] at this
    exact hn (Option.some.inj this).symm
  -- exogenous inputs
  obtain ⟨x1, x2, x3⟩ := setExo_spec net exo st hexo hinv.2
  have p1 : PInv net (setExo net exo st) := ⟨by rw [x1]; exact hinv.1, x2⟩
  have e1 : (setExo net exo st).edge e = st.edge e := x3 e (by rw [hdst]; simp)
  -- order pass: customer b places, then supplier a reads
  obtain ⟨mid, ⟨q, hq, hmid⟩, hrecv⟩ := pass_two (orderOp net) e (PInv net) (pinv_orderOp net hwf) b a hab.symm
    (fun ed ed' => ∃ q, 0 ≤ q ∧ ed' = placeOrderEdge (net.cfg b).olt (net.cfg b).slt false q ed)
    (fun ed ed' => ed' = recvOrderEdge ed)
    (by
      intro n s hs hnb hna
      exact (orderOp_spec net hwf n s hs.1).2.1 e (by rw [hs.1]; exact he) (notin n hnb) (notout n hna))
    (by
      intro s hs
      obtain ⟨q, hq, hh⟩ := (orderOp_spec net hwf b s hs.1).2.2.2 e hine
      refine ⟨q, hq, ?_⟩
      rw [hh, hsrc]; rfl)
    (by
      intro s hs
      exact (orderOp_spec net hwf a s hs.1).2.2.1 e houte)
    (orderSeq net) _ p1 hnd1 ob oa oidx
  have p2 := pass_inv (orderOp net) (PInv net) (pinv_orderOp net hwf) (orderSeq net) _ p1
  -- shipment pass: supplier a ships, then customer b receives
  obtain ⟨mid2, ⟨oh, sp, hoh, hmid2⟩, ⟨rp, m, hrs⟩⟩ := pass_two (nodeShip net) e (PInv net) (pinv_nodeShip net hwf) a b hab
    (fun ed ed' => ∃ oh sp, 0 ≤ oh ∧ ed' = propEdge net e (shipOne oh sp false ed).e)
    (fun ed ed' => ∃ rp m, ed' = consumeEdge m (recvShipEdge rp ed))
    (by
      intro n s hs hna hnb
      exact (nodeShip_spec net hwf n s hs.1 hs.2).2.1 e (by rw [hs.1]; exact he) (notin n hnb) (notout n hna))
    (by
      intro s hs
      obtain ⟨oh, sp, hoh, hh⟩ := (nodeShip_spec net hwf a s hs.1 hs.2).2.2.2 e houte
      refine ⟨oh, sp, hoh, ?_⟩
      rw [hh, hdst]; rfl)
    (by
      intro s hs
      exact ⟨_, _, (nodeShip_spec net hwf b s hs.1 hs.2).2.2.1 e hine⟩)
    (shipSeq net) _ p2 hnd2 sa sb sidx
  have p3 : PInv net (afterPasses net st exo) :=
    pass_inv (nodeShip net) (PInv net) (pinv_nodeShip net hwf) (shipSeq net) _ p2
  have hfinal : (afterPasses net st exo).edge e =
      consumeEdge m (edgePeriod (net.cfg b).olt (net.cfg b).slt q oh sp
        (tpFlag net (afterPasses net st exo) e) rp (st.edge e)).1 := by
    show ((shipSeq net).foldl (fun s n => nodeShip net n s)
      ((orderSeq net).foldl (fun s n => orderOp net n s) (setExo net exo st))).edge e = _
    rw [hrs, hmid2, hrecv, hmid, e1]
    simp only [edgePeriod, propEdge, hdst]
  refine ⟨q, oh, sp, tpFlag net (afterPasses net st exo) e, rp, m, hq, hoh, hfinal, ?_⟩
  rw [step_snd, initNext_edge net _ e p3.1 (by rw [p3.1]; exact he), hfinal, nextEdge_consume]
  rfl

/-! ### invariants of every reachable state -/

theorem edgePeriod_lengths (olt slt : Nat) (q oh : Rat) (sp tp rp : Bool) (e : EdgeSt) :
    let r := edgePeriod olt slt q oh sp tp rp e
    r.1.ispl.length = e.ispl.length ∧ r.1.iopl.length = e.iopl.length ∧
    r.2.ispl.length = e.ispl.length ∧ r.2.iopl.length = e.iopl.length ∧ r.1.iopl.headD 0 = 0 := by
  have f3 := shipOne_frame oh sp false (recvOrderEdge (placeOrderEdge olt slt false q e))
  simp only at f3
  obtain ⟨f3a, _, _, _, _, _, f3g, _⟩ := f3
  have r1 : ∀ x : EdgeSt, (recvShipEdge rp x).ispl.length = x.ispl.length ∧ (recvShipEdge rp x).iopl = x.iopl := by
    intro x; cases rp <;> simp [recvShipEdge]
  have e2a : (recvOrderEdge (placeOrderEdge olt slt false q e)).ispl = e.ispl := by
    simp [recvOrderEdge, placeOrderEdge]
  have e2b : (recvOrderEdge (placeOrderEdge olt slt false q e)).iopl = (addAt e.iopl olt q).set 0 0 := by
    simp [recvOrderEdge, placeOrderEdge]
  have hA : (edgePeriod olt slt q oh sp tp rp e).1.ispl.length = e.ispl.length := by
    simp only [edgePeriod]
    rw [(r1 _).1]
    simp only [addAt_length]
    rw [f3a, e2a]
  have hB : (edgePeriod olt slt q oh sp tp rp e).1.iopl = (addAt e.iopl olt q).set 0 0 := by
    simp only [edgePeriod]
    rw [(r1 _).2]
    simp only
    rw [f3g, e2b]
  refine ⟨hA, by rw [hB]; simp [addAt_length], ?_, ?_, ?_⟩
  · show (nextEdge tp (edgePeriod olt slt q oh sp tp rp e).1).ispl.length = _
    rw [(nextEdge_conserves tp _).2.2.2.2.2.2.2, hA]
  · show (nextEdge tp (edgePeriod olt slt q oh sp tp rp e).1).iopl.length = _
    simp only [nextEdge]
    rw [hB]
    cases h : (addAt e.iopl olt q) with
    | nil =>
      have : e.iopl.length = 0 := by rw [← addAt_length e.iopl olt q, h]; rfl
      simp [this]
    | cons x xs =>
      have : e.iopl.length = xs.length + 1 := by rw [← addAt_length e.iopl olt q, h]; rfl
      simp [this]
  · rw [hB]; cases (addAt e.iopl olt q) <;> simp

/-- Everything the per-edge theorems need, as one invariant of the whole state. -/
structure NetInv (net : Net) (st : State) : Prop where
  pinv : PInv net st
  lens : ∀ e a b, e < net.edges.length → (net.edge e).src = some a → (net.edge e).dst = some b →
    (st.edge e).ispl.length = (net.cfg b).olt + (net.cfg b).slt + 1 ∧
    (st.edge e).iopl.length = (net.cfg b).olt + 1

theorem initNext_pinv (net : Net) (s : State) (h : PInv net s) : PInv net (initNext net s) := by
  refine ⟨by rw [initNext_len net s h.1]; exact h.1, ?_⟩
  intro e he
  rw [initNext_len net s h.1] at he
  rw [initNext_edge net s e h.1 he]
  exact edgeOK_next _ _ (h.2 e he)

theorem step_netinv (net : Net) (hwf : NetWF net) (hv : VisitOK net) (st : State) (exo : List Exo)
    (hinv : NetInv net st) (hexo : ExoOK exo) : NetInv net (step net st exo).2 := by
  refine ⟨?_, ?_⟩
  · rw [step_snd]; exact initNext_pinv net _ (afterPasses_pinv net hwf st exo hinv.pinv hexo)
  · intro e a b he hs hd
    obtain ⟨q, oh, sp, tp, rp, m, _, _, _, h2⟩ := step_edge_internal net hwf hv st exo hinv.pinv hexo e a b he hs hd
    obtain ⟨l1, l2⟩ := hinv.lens e a b he hs hd
    have := edgePeriod_lengths (net.cfg b).olt (net.cfg b).slt q oh sp tp rp (st.edge e)
    simp only at this
    rw [h2]
    exact ⟨by show (edgePeriod _ _ q oh sp tp rp (st.edge e)).2.ispl.length = _; rw [this.2.2.1, l1],
           by show (edgePeriod _ _ q oh sp tp rp (st.edge e)).2.iopl.length = _; rw [this.2.2.2.1, l2]⟩

/-- **On-order is exact on every internal edge of the network, across a whole period** — at the end of the
period (the state variables the simulator reports) and at the start of the next one. -/
theorem ledger_step (net : Net) (hwf : NetWF net) (hv : VisitOK net) (st : State) (exo : List Exo)
    (hinv : NetInv net st) (hexo : ExoOK exo) (e a b : Nat) (he : e < net.edges.length)
    (hs : (net.edge e).src = some a) (hd : (net.edge e).dst = some b) :
    ledger ((step net st exo).1.edge e) = ledger (st.edge e) ∧
    ledger ((step net st exo).2.edge e) = ledger (st.edge e) := by
  obtain ⟨q, oh, sp, tp, rp, m, hq, hoh, h1, h2⟩ :=
    step_edge_internal net hwf hv st exo hinv.pinv hexo e a b he hs hd
  obtain ⟨l1, l2⟩ := hinv.lens e a b he hs hd
  have hok := hinv.pinv.2 e (by rw [hinv.pinv.1]; exact he)
  have main := on_order_exact_period (net.cfg b).olt (net.cfg b).slt q oh sp tp rp (st.edge e) hq hoh
    (by rw [l1]; omega) (by rw [l2]; omega) hok.bo hok.odi hok.iopl
  have lens := edgePeriod_lengths (net.cfg b).olt (net.cfg b).slt q oh sp tp rp (st.edge e)
  simp only at lens
  have n6 := nextEdge_conserves tp (edgePeriod (net.cfg b).olt (net.cfg b).slt q oh sp tp rp (st.edge e)).1
  simp only at n6
  have h12 : ledger (edgePeriod (net.cfg b).olt (net.cfg b).slt q oh sp tp rp (st.edge e)).2 =
      ledger (edgePeriod (net.cfg b).olt (net.cfg b).slt q oh sp tp rp (st.edge e)).1 := by
    show ledger (nextEdge tp (edgePeriod (net.cfg b).olt (net.cfg b).slt q oh sp tp rp (st.edge e)).1) = _
    simp only [ledger]
    rw [n6.1, n6.2.2.2.1, n6.2.2.2.2.1, n6.2.2.2.2.2.1, n6.2.2.2.2.2.2.1, lens.2.2.2.2]
    grind
  constructor
  · rw [step_fst, costs_edge, h1]
    show ledger (edgePeriod _ _ q oh sp tp rp (st.edge e)).1 = _
    rw [← h12]; exact main
  · rw [h2]; exact main

/-! ### the initial state, and every reachable state -/

theorem lsum_replicate' (n : Nat) (x : Rat) : lsum (List.replicate n x) = (n : Rat) * x := by
  induction n with
  | zero => simp [lsum]
  | succ k ih =>
    simp only [List.replicate_succ, lsum, ih]
    have : ((k + 1 : Nat) : Rat) = (k : Rat) + 1 := by simp
    rw [this]; grind

theorem allNonneg_replicate (n : Nat) (x : Rat) (hx : 0 ≤ x) : allNonneg (List.replicate n x) := by
  intro y hy; rw [List.eq_of_mem_replicate hy]; exact hx

theorem initState_edge (net : Net) (e : Nat) (he : e < net.edges.length) :
    (initState net).edge e = initEdge net (net.edge e) := by
  simp [initState, State.edge, Net.edge, List.getD_eq_getElem?_getD, List.getElem?_eq_getElem he]

theorem initEdge_ok (net : Net) (hinit : ∀ n, 0 ≤ (net.cfg n).initOrders) (ed : Edge) : EdgeOK (initEdge net ed) := by
  obtain ⟨src, dst⟩ := ed
  have z : (0 : Rat) ≤ 0 := by grind
  have one : allNonneg ([0] : List Rat) := by intro y hy; simp at hy; subst hy; exact z
  cases src <;> cases dst <;> simp only [initEdge]
  · exact ⟨z, z, z, by intro y hy; simp at hy⟩
  · exact ⟨z, z, z, by intro y hy; simp at hy⟩
  · exact ⟨z, z, z, one⟩
  · refine ⟨z, z, z, ?_⟩
    intro y hy
    rcases List.mem_append.mp hy with hy | hy
    · exact allNonneg_replicate _ _ (hinit _) y hy
    · exact one y hy

theorem initState_netinv (net : Net) (hinit : ∀ n, 0 ≤ (net.cfg n).initOrders) : NetInv net (initState net) := by
  refine ⟨⟨by simp [initState], ?_⟩, ?_⟩
  · intro e he
    have he' : e < net.edges.length := by simpa [initState] using he
    rw [initState_edge net e he']
    exact initEdge_ok net hinit _
  · intro e a b he hs hd
    rw [initState_edge net e he]
    have : net.edge e = ⟨some a, some b⟩ := by
      cases h : net.edge e with
      | mk s d => simp [h] at hs hd; subst hs; subst hd; rfl
    rw [this]
    simp [initEdge]
    omega

theorem initState_ledger (net : Net) (e a b : Nat) (he : e < net.edges.length)
    (hs : (net.edge e).src = some a) (hd : (net.edge e).dst = some b) :
    ledger ((initState net).edge e) = 0 := by
  rw [initState_edge net e he]
  have : net.edge e = ⟨some a, some b⟩ := by
    cases h : net.edge e with
    | mk s d => simp [h] at hs hd; subst hs; subst hd; rfl
  rw [this]
  simp only [initEdge, ledger, lsum_append, lsum_replicate', lsum, Option.isNone_some, Bool.false_eq_true, if_false]
  grind

/-- **C03 at network level.** For every well-formed network whose two visiting sequences meet the decidable
side condition, every history of non-negative demands and arbitrary disruption flags, every period and every
internal edge: the on-order quantity the customer keeps for that supplier equals the orders still travelling
to the supplier + the supplier's backorders and held items for it + the units in transit — in every state
the simulator reports (`simulate`), for any number of nodes and periods. -/
theorem on_order_exact_network (net : Net) (hwf : NetWF net) (hv : VisitOK net)
    (hinit : ∀ n, 0 ≤ (net.cfg n).initOrders) (hist : List (List Exo)) (hexo : ∀ x ∈ hist, ExoOK x) :
    ∀ s ∈ simulate net hist, ∀ e a b, e < net.edges.length → (net.edge e).src = some a →
      (net.edge e).dst = some b → ledger (s.edge e) = 0 := by
  have gen : ∀ (hist : List (List Exo)) (st : State), (∀ x ∈ hist, ExoOK x) → NetInv net st →
      (∀ e a b, e < net.edges.length → (net.edge e).src = some a → (net.edge e).dst = some b →
        ledger (st.edge e) = 0) →
      ∀ s ∈ run net st hist, ∀ e a b, e < net.edges.length → (net.edge e).src = some a →
        (net.edge e).dst = some b → ledger (s.edge e) = 0 := by
    intro hist
    induction hist with
    | nil => intro st _ _ _ s hs; simp [run] at hs
    | cons x xs ih =>
      intro st hx hinv hled s hs e a b he hsrc hdst
      have hxo : ExoOK x := hx x (by simp)
      simp only [run, List.mem_cons] at hs
      have hl := ledger_step net hwf hv st x hinv hxo e a b he hsrc hdst
      rcases hs with rfl | hs
      · rw [hl.1]; exact hled e a b he hsrc hdst
      · refine ih (step net st x).2 (fun y hy => hx y (by simp [hy])) (step_netinv net hwf hv st x hinv hxo) ?_
          s hs e a b he hsrc hdst
        intro e' a' b' he' hs' hd'
        rw [(ledger_step net hwf hv st x hinv hxo e' a' b' he' hs' hd').2]
        exact hled e' a' b' he' hs' hd'
  exact gen hist (initState net) hexo (initState_netinv net hinit) (initState_ledger net)

/-! ### the well-formedness hypothesis as an executable check -/

def policyOK (c : NodeCfg) : Bool :=
  (match c.policy with
   | .rQ _ Q => decide (0 ≤ Q)
   | .FQ Q => decide (0 ≤ Q)
   | .sS s S => decide (s ≤ S)
   | _ => true) &&
  (match c.cap with
   | some x => decide (0 ≤ x)
   | none => true)

def nodeWFb (net : Net) (n : Nat) : Bool :=
  let c := net.cfg n
  c.inE.all (fun e => (net.edge e).dst == some n && decide (e < net.edges.length)) &&
  c.outE.all (fun e => (net.edge e).src == some n && decide (e < net.edges.length)) &&
  decide c.inE.Nodup && decide c.outE.Nodup && policyOK c && decide (0 ≤ c.initOrders)

def edgeWFb (net : Net) (e : Nat) : Bool :=
  (match (net.edge e).dst with
   | some n => (net.cfg n).inE.contains e
   | none => true) &&
  (match (net.edge e).src with
   | some n => (net.cfg n).outE.contains e
   | none => true) &&
  (match (net.edge e).src, (net.edge e).dst with
   | some a, some b => a != b
   | _, _ => true)

/-- Executable well-formedness check (evaluated by the driver for every generated network). -/
def netWFb (net : Net) : Bool :=
  (List.range net.nodes.length).all (nodeWFb net) && (List.range net.edges.length).all (edgeWFb net)

theorem cfg_default (net : Net) (n : Nat) (h : net.nodes.length ≤ n) :
    (net.cfg n).inE = [] ∧ (net.cfg n).outE = [] ∧ (net.cfg n).policy = .FQ 0 ∧ (net.cfg n).cap = none ∧
    (net.cfg n).initOrders = 0 := by
  simp [Net.cfg, List.getD_eq_getElem?_getD, List.getElem?_eq_none h]

theorem edge_default (net : Net) (e : Nat) (h : net.edges.length ≤ e) : net.edge e = ⟨none, none⟩ := by
  simp [Net.edge, List.getD_eq_getElem?_getD, List.getElem?_eq_none h]

theorem policyOK_nonneg (c : NodeCfg) (h : policyOK c = true) (ip : Rat) : 0 ≤ capped (c.policy.qty ip) c.cap := by
  simp only [policyOK, Bool.and_eq_true] at h
  obtain ⟨h1, h2⟩ := h
  have hq : 0 ≤ c.policy.qty ip := by
    cases hp : c.policy with
    | BS S => simp only [Policy.qty]; grind
    | EBS S => simp only [Policy.qty]; grind
    | FQ Q => rw [hp] at h1; simp only [Policy.qty]; simpa using h1
    | rQ r Q => rw [hp] at h1; simp only [Policy.qty]; have : 0 ≤ Q := by simpa using h1
                split <;> grind
    | sS s S => rw [hp] at h1; simp only [Policy.qty]; have : s ≤ S := by simpa using h1
                split <;> grind
  cases hc : c.cap with
  | none => simpa [capped] using hq
  | some x =>
    rw [hc] at h2
    have hx : 0 ≤ x := by simpa using h2
    simp only [capped]
    split <;> grind

/-- The executable check implies the hypothesis of the network-level theorems. -/
theorem netWF_of_check (net : Net) (h : netWFb net = true) :
    NetWF net ∧ ∀ n, 0 ≤ (net.cfg n).initOrders := by
  simp only [netWFb, Bool.and_eq_true, List.all_eq_true, List.mem_range] at h
  obtain ⟨hn, he⟩ := h
  have node : ∀ n, n < net.nodes.length →
      (∀ e ∈ (net.cfg n).inE, (net.edge e).dst = some n ∧ e < net.edges.length) ∧
      (∀ e ∈ (net.cfg n).outE, (net.edge e).src = some n ∧ e < net.edges.length) ∧
      (net.cfg n).inE.Nodup ∧ (net.cfg n).outE.Nodup ∧ policyOK (net.cfg n) = true ∧
      0 ≤ (net.cfg n).initOrders := by
    intro n hlt
    have := hn n hlt
    simp only [nodeWFb, Bool.and_eq_true, List.all_eq_true, decide_eq_true_eq, beq_iff_eq] at this
    obtain ⟨⟨⟨⟨⟨a, b⟩, c⟩, d⟩, e'⟩, f⟩ := this
    exact ⟨a, b, c, d, e', f⟩
  have edge : ∀ e, e < net.edges.length →
      (∀ n, (net.edge e).dst = some n → e ∈ (net.cfg n).inE) ∧
      (∀ n, (net.edge e).src = some n → e ∈ (net.cfg n).outE) ∧
      (∀ n, (net.edge e).src = some n → (net.edge e).dst ≠ some n) := by
    intro e hlt
    have := he e hlt
    simp only [edgeWFb, Bool.and_eq_true] at this
    obtain ⟨⟨a, b⟩, c⟩ := this
    refine ⟨?_, ?_, ?_⟩
    · intro n hd; rw [hd] at a; simpa using a
    · intro n hs; rw [hs] at b; simpa using b
    · intro n hs hd; rw [hs, hd] at c; simp at c
  refine ⟨⟨?_, ?_, ?_, ?_, ?_, ?_, ?_, ?_⟩, ?_⟩
  · intro n e hm
    by_cases hlt : n < net.nodes.length
    · exact (node n hlt).1 e hm
    · rw [(cfg_default net n (Nat.le_of_not_lt hlt)).1] at hm; simp at hm
  · intro n e hm
    by_cases hlt : n < net.nodes.length
    · exact (node n hlt).2.1 e hm
    · rw [(cfg_default net n (Nat.le_of_not_lt hlt)).2.1] at hm; simp at hm
  · intro e hlt n hd; exact (edge e hlt).1 n hd
  · intro e hlt n hs; exact (edge e hlt).2.1 n hs
  · intro n
    by_cases hlt : n < net.nodes.length
    · exact (node n hlt).2.2.1
    · rw [(cfg_default net n (Nat.le_of_not_lt hlt)).1]; exact List.nodup_nil
  · intro n
    by_cases hlt : n < net.nodes.length
    · exact (node n hlt).2.2.2.1
    · rw [(cfg_default net n (Nat.le_of_not_lt hlt)).2.1]; exact List.nodup_nil
  · intro e n hs
    by_cases hlt : e < net.edges.length
    · exact (edge e hlt).2.2 n hs
    · rw [edge_default net e (Nat.le_of_not_lt hlt)] at hs; simp at hs
  · intro n ip
    by_cases hlt : n < net.nodes.length
    · exact policyOK_nonneg _ (node n hlt).2.2.2.2.1 ip
    · obtain ⟨_, _, hp, hc, _⟩ := cfg_default net n (Nat.le_of_not_lt hlt)
      rw [hp, hc]; simp [Policy.qty, capped]
  · intro n
    by_cases hlt : n < net.nodes.length
    · exact (node n hlt).2.2.2.2.2
    · rw [(cfg_default net n (Nat.le_of_not_lt hlt)).2.2.2.2]; grind

/-- The network-level theorem with executable hypotheses only: what the driver evaluates (`netWF`, `visitOK`,
non-negative demands) is exactly what the theorem assumes. -/
theorem on_order_exact_checked (net : Net) (h1 : netWFb net = true) (h2 : decide (VisitOK net) = true)
    (hist : List (List Exo)) (hexo : ∀ x ∈ hist, ExoOK x) :
    ∀ s ∈ simulate net hist, ∀ e a b, e < net.edges.length → (net.edge e).src = some a →
      (net.edge e).dst = some b → ledger (s.edge e) = 0 :=
  on_order_exact_network net (netWF_of_check net h1).1 (of_decide_eq_true h2) (netWF_of_check net h1).2 hist hexo

/-- Non-vacuity: a two-stage serial system (node 1 supplies node 0; external supplier and customer) meets both
executable hypotheses. -/
def exampleNet : Net :=
  { nodes := [ { inE := [0], outE := [2], slt := 1, olt := 1, policy := .BS 10, cap := none, dtype := some .SP,
                 h := 1, p := 5, hTransit := none, rev := 0, initIL := some 4, initOrders := 2, initShipments := 1 },
               { inE := [1], outE := [0], slt := 2, olt := 0, policy := .sS 3 8, cap := some 6, dtype := none,
                 h := 1, p := 0, hTransit := none, rev := 0, initIL := none, initOrders := 0, initShipments := 0 } ],
    edges := [⟨some 1, some 0⟩, ⟨none, some 1⟩, ⟨some 0, none⟩] }

example : netWFb exampleNet = true ∧ decide (VisitOK exampleNet) = true := by decide +kernel

end Stockpyl.Sim
