import StockpylModel.Props.MP
import StockpylModel.Lemmas.Sim
/-!
# C02 — backorders, inventory level and service measures stay mutually consistent
Kernel-level theorems about `shipOne`/`shipAll`/`fillRate` (Model/Sim.lean), valid for every list of
successors, every disruption-flag assignment and all non-negative inputs.
-/
namespace Stockpyl.Sim
open Stockpyl

/-- Every unit a customer has ordered is shipped, backordered or held: one successor, one period. -/
theorem shipOne_accounting (oh : Rat) (sp : Bool) (e : EdgeSt) (hoh : 0 ≤ oh) (hbo : 0 ≤ e.bo)
    (hio : 0 ≤ e.io) (hodi : 0 ≤ e.odi) :
    let r := shipOne oh sp false e
    r.e.bo + r.e.odi + r.e.os = e.bo + e.odi + e.io := by
  obtain ⟨c1, _, c3, c4, _, _, _, _, _⟩ := shipOne_core oh sp false e hoh hbo hio hodi
  intro r
  have c4' := c4 rfl
  show (shipOne oh sp false e).e.bo + (shipOne oh sp false e).e.odi + (shipOne oh sp false e).e.os = _
  rw [c1, c3, c4']
  cases sp <;> simp <;> grind

/-- External customer (never shipment-paused, no held items): shipped + backordered = owed. -/
theorem shipOne_accounting_ext (oh : Rat) (e : EdgeSt) (hoh : 0 ≤ oh) (hbo : 0 ≤ e.bo)
    (hio : 0 ≤ e.io) (hodi : e.odi = 0) :
    let r := shipOne oh false true e
    r.e.bo + r.e.os = e.bo + e.io ∧ r.e.odi = 0 := by
  obtain ⟨c1, _, c3, _, c5, _, _, _, _⟩ := shipOne_core oh false true e hoh hbo hio (by rw [hodi]; exact Rat.le_refl)
  intro r
  have c5' := c5 rfl
  refine ⟨?_, by rw [c5', hodi]⟩
  show (shipOne oh false true e).e.bo + (shipOne oh false true e).e.os = _
  rw [c1, c3, hodi]; simp; grind

/-- No count goes negative, and a node never takes more from its shelf than it holds. -/
theorem shipOne_nonneg (oh : Rat) (sp ext : Bool) (e : EdgeSt) (hoh : 0 ≤ oh) (hbo : 0 ≤ e.bo)
    (hio : 0 ≤ e.io) (hodi : 0 ≤ e.odi) :
    let r := shipOne oh sp ext e
    0 ≤ r.e.bo ∧ 0 ≤ r.e.os ∧ 0 ≤ r.e.odi ∧ 0 ≤ r.oh ∧ r.oh ≤ oh ∧ 0 ≤ r.dmfs ∧ r.dmfs ≤ r.e.os ∧
    r.e.os ≤ (oh - r.oh) + e.odi := by
  obtain ⟨c1, c2, c3, c4, c5, c6, c7, c8, c9⟩ := shipOne_core oh sp ext e hoh hbo hio hodi
  intro r
  show 0 ≤ (shipOne oh sp ext e).e.bo ∧ 0 ≤ (shipOne oh sp ext e).e.os ∧ 0 ≤ (shipOne oh sp ext e).e.odi ∧
    0 ≤ (shipOne oh sp ext e).oh ∧ (shipOne oh sp ext e).oh ≤ oh ∧ 0 ≤ (shipOne oh sp ext e).dmfs ∧
    (shipOne oh sp ext e).dmfs ≤ (shipOne oh sp ext e).e.os ∧
    (shipOne oh sp ext e).e.os ≤ (oh - (shipOne oh sp ext e).oh) + e.odi
  rw [c9, c1, c2, c3]
  cases ext
  · rw [c4 rfl]; cases sp <;> simp <;> grind
  · rw [c5 rfl]; cases sp <;> simp <;> grind

/-- Backorders match the inventory level: if before the shipping loop the successors' backorders add up
to the negative part of the inventory level `il`, and the loop starts from on-hand `il⁺ + produced`,
then afterwards they add up to the negative part of the new level `il + produced − orders received`
— for every number of successors and every pattern of shipment-pausing disruptions. -/
theorem bo_matches_il_kernel (il fg : Rat) (l : List (Bool × Bool × EdgeSt)) (hfg : 0 ≤ fg)
    (hw : ∀ x ∈ l, 0 ≤ x.2.2.bo ∧ 0 ≤ x.2.2.io ∧ 0 ≤ x.2.2.odi)
    (hinv : sumBO (l.map (·.2.2)) = neg il) :
    sumBO (shipAll (pos il + fg) l).1 = neg (il + fg - sumIO (l.map (·.2.2))) := by
  have hoh : 0 ≤ pos il + fg := by simp only [pos]; grind
  obtain ⟨h1, _, _⟩ := shipAll_spec (pos il + fg) l hoh hw
  rw [h1, hinv]
  simp only [pos, neg]
  grind

/-- The loop never leaves on-hand stock unused while a backorder remains, and never overdraws:
on-hand left = unused part. -/
theorem shipAll_on_hand (oh : Rat) (l : List (Bool × Bool × EdgeSt)) (hoh : 0 ≤ oh)
    (hw : ∀ x ∈ l, 0 ≤ x.2.2.bo ∧ 0 ≤ x.2.2.io ∧ 0 ≤ x.2.2.odi) :
    (shipAll oh l).2.1 = max 0 (oh - (sumBO (l.map (·.2.2)) + sumIO (l.map (·.2.2)))) ∧
    0 ≤ (shipAll oh l).2.1 := by
  obtain ⟨_, h2, _⟩ := shipAll_spec oh l hoh hw
  rw [h2]; grind

/-- Fill rate is exactly cumulative demand met from stock over cumulative demand (1 when there has
been no demand), hence within [0,1] whenever `0 ≤ met ≤ demand`. -/
theorem fill_rate_def (n : Nat) (st : State) (x : NodeSt) (hx : st.nodes[n]? = some x) :
    ((fillRate n st).nodes[n]?).map (·.fill) = some (if 0 < x.dcum then x.dmfsCum / x.dcum else 1) := by
  simp [fillRate, State.modNode, hx]

theorem fill_rate_unit (met dem : Rat) (h0 : 0 ≤ met) (h1 : met ≤ dem) :
    0 ≤ (if 0 < dem then met / dem else 1) ∧ (if 0 < dem then met / dem else 1) ≤ 1 := by
  split
  · rename_i h
    have hinv : 0 < dem⁻¹ := Rat.inv_pos.mpr h
    constructor
    · rw [Rat.div_def]; exact Rat.mul_nonneg h0 (Rat.le_of_lt hinv)
    · rw [Rat.div_def]
      have := Rat.mul_le_mul_of_nonneg_right h1 (Rat.le_of_lt hinv)
      rwa [Rat.mul_inv_cancel dem (by grind)] at this
  · constructor <;> grind

/-- Non-vacuity: two successors, the second shipment-paused, on-hand 5. -/
example : let l : List (Bool × Bool × EdgeSt) :=
      [(false, false, { bo := 2, io := 4 }), (true, false, { bo := 0, io := 3, odi := 1 })]
    (∀ x ∈ l, 0 ≤ x.2.2.bo ∧ 0 ≤ x.2.2.io ∧ 0 ≤ x.2.2.odi) ∧
    sumBO (shipAll 5 l).1 = 4 ∧ ((shipAll 5 l).1.map (·.os)) = [5, 0] := by decide +kernel

end Stockpyl.Sim
