import StockpylModel.Model.Serial
import StockpylModel.Props.C20
/-!
# C17 — networks survive serialisation unchanged (store, key codec, table alignment)
-/
namespace Stockpyl.Serial
open Stockpyl

variable {α : Type}

theorem load_save_same (st : Store α) (n : String) (d : α) :
    (st.save n d true).load n = some d := by
  unfold Store.save Store.load
  split
  · rename_i h
    simp only [↓reduceIte]
    induction st with
    | nil => simp at h
    | cons r rs ih =>
      simp only [List.map_cons, List.find?_cons]
      by_cases hr : r.1 == n
      · simp [hr]
      · simp only [hr, Bool.false_eq_true, ↓reduceIte]
        simp only [List.any_cons, hr, Bool.false_or] at h
        exact ih h
  · rename_i h
    simp only [List.find?_append]
    have : List.find? (fun x => x.1 == n) st = none := by
      apply List.find?_eq_none.mpr
      intro x hx hxn
      exact h (List.any_eq_true.mpr ⟨x, hx, hxn⟩)
    simp [this]

theorem find_map_other (st : Store α) (n m : String) (d : α) (h : m ≠ n) :
    List.find? (fun x => x.1 == m) (st.map fun r => if r.1 == n then (n, d) else r) =
      List.find? (fun x => x.1 == m) st := by
  induction st with
  | nil => rfl
  | cons x xs ih =>
    simp only [List.map_cons, List.find?_cons]
    by_cases hx : (x.1 == n) = true
    · have hxn : x.1 = n := by simpa using hx
      have e1 : ((n, d).1 == m) = false := by simp [Ne.symm h]
      have e2 : (x.1 == m) = false := by rw [hxn]; simp [Ne.symm h]
      rw [if_pos hx, e1, e2]
      exact ih
    · rw [if_neg hx]
      cases hxm : (x.1 == m) with
      | true => rfl
      | false => exact ih

theorem find_none_of_not_any (st : Store α) (k : String) (h : st.any (·.1 == k) = false) :
    List.find? (fun x => x.1 == k) st = none := by
  apply List.find?_eq_none.mpr
  intro x hx hxk
  have : st.any (·.1 == k) = true := List.any_eq_true.mpr ⟨x, hx, by simpa using hxk⟩
  rw [h] at this; exact absurd this (by decide)

/-- Saving under one name never changes what any other name loads (other instances are preserved),
whether the record is replaced, appended or (replace = false) left alone. -/
theorem load_save_other (st : Store α) (n m : String) (d : α) (r : Bool) (h : m ≠ n) :
    (st.save n d r).load m = st.load m := by
  unfold Store.save Store.load
  split
  · split
    · rw [find_map_other st n m d h]
    · rfl
  · simp only [List.find?_append]
    have hnm : (n == m) = false := by simp [Ne.symm h]
    cases hf : List.find? (fun x => x.1 == m) st <;> simp [hnm]

theorem any_of_load (st : Store α) (n : String) (h : (st.load n).isSome) : st.any (·.1 == n) = true := by
  unfold Store.load at h
  cases hf : List.find? (fun x => x.1 == n) st with
  | none => simp [hf] at h
  | some x =>
    have h1 : (x.1 == n) = true := by
      have := List.find?_some hf
      simpa using this
    exact List.any_eq_true.mpr ⟨x, List.mem_of_find?_eq_some hf, by simpa using h1⟩

theorem load_of_not_any (st : Store α) (n : String) (h : st.any (·.1 == n) = false) : st.load n = none := by
  unfold Store.load; rw [find_none_of_not_any st n h]; rfl

/-- `replace = False` on an existing name leaves the file content alone. -/
theorem save_noreplace (st : Store α) (n : String) (d : α) (h : (st.load n).isSome) :
    st.save n d false = st := by
  unfold Store.save
  simp [any_of_load st n h]

theorem load_save_new (st : Store α) (n : String) (d : α) (r : Bool) (h : st.any (·.1 == n) = false) :
    (st.save n d r).load n = some d := by
  unfold Store.save Store.load
  simp only [h, Bool.false_eq_true, ↓reduceIte, List.find?_append, find_none_of_not_any st n h]
  simp

/-- The abstraction map from the file to a finite map. -/
def abs (st : Store α) : String → Option α := fun k => st.load k

/-- Refinement: every operation on the file behaves like the same operation on a finite map
`name ↦ data`, and returns the same result — hence so does every operation sequence. -/
theorem store_refines_map (st : Store α) (op : StoreOp α) :
    abs (implStep st op).1 = (specStep (abs st) op).1 ∧ (implStep st op).2 = (specStep (abs st) op).2 := by
  cases op with
  | load n => exact ⟨rfl, rfl⟩
  | save n d r =>
    refine ⟨?_, ?_⟩
    · funext k
      simp only [implStep, specStep]
      split
      · rename_i hc
        obtain ⟨hex, hr⟩ := hc
        subst hr
        show (st.save n d false).load k = st.load k
        rw [save_noreplace st n d hex]
      · rename_i hc
        show (st.save n d r).load k = if k = n then some d else st.load k
        by_cases hk : k = n
        · subst hk
          rw [if_pos rfl]
          cases hany : st.any (·.1 == k) with
          | false => exact load_save_new st k d r hany
          | true =>
            have hex : (st.load k).isSome = true := by
              unfold Store.load
              obtain ⟨x, hx, hxn⟩ := List.any_eq_true.mp hany
              cases hf : List.find? (fun x => x.1 == k) st with
              | none => exact absurd hxn (by simpa using List.find?_eq_none.mp hf x hx)
              | some y => rfl
            cases r with
            | false => exact absurd ⟨hex, rfl⟩ hc
            | true => exact load_save_same st k d
        · rw [if_neg hk]
          exact load_save_other st n k d r hk
    · simp only [implStep, specStep]; split <;> rfl

/-- Key codec: whatever the encoder (`json.dump` stringifies keys) and decoder (re-intification on load)
are, if decoding inverts encoding on the keys in use, a dict survives the round trip with its keys. -/
theorem keys_roundtrip {V : Type} (enc : Key → String) (dec : String → Key) (d : List (Key × V))
    (h : ∀ kv ∈ d, dec (enc kv.1) = kv.1) :
    (d.map fun kv => (enc kv.1, kv.2)).map (fun sv => (dec sv.1, sv.2)) = d := by
  induction d with
  | nil => rfl
  | cons x xs ih =>
    simp only [List.map_cons]
    rw [ih (fun kv hkv => h kv (by simp [hkv]))]
    have := h x (by simp)
    simp [this]

/-- Without a decoder for a kind of key, the round trip changes the dict: integer keys come back as
strings (this is the finding for product-keyed numeric attributes). -/
example : (([(Key.int 10, (3 : Nat))].map fun kv => (toString (repr kv.1), kv.2)).map fun sv => (Key.str sv.1, sv.2))
    ≠ [(Key.int 10, 3)] := by decide

/-- Results table: header and row built from the same column list pair every cell with its own label … -/
theorem table_aligned (cols : List (String × Rat)) : (headerOf cols).zip (rowOf cols) = cols := by
  unfold headerOf rowOf
  induction cols with
  | nil => rfl
  | cons x xs ih => simp [ih]

/-- … and sorting the columns by key (as `sort_dict_by_keys` does for every product/predecessor-keyed state
variable) keeps each value with its key: the sorted column list is a permutation of the dict's items. -/
theorem sorted_columns_keep_labels (d : List (Int × Rat)) (kv : Int × Rat) :
    kv ∈ Helpers.sortByKey d ↔ kv ∈ d := (Helpers.sortByKey_spec d).2.mem_iff

/-- **Every plain attribute survives the dict round trip with its exact value** — a number (`0` included), or `None` —
whatever default `from_dict` would use for a missing key. -/
theorem attr_roundtrip (names : List String) (obj : String → Option Rat) (dflt : Option Rat) (a : String) (h : a ∈ names) :
    attrFromDict (attrsToDict names obj) dflt a = obj a := by
  unfold attrFromDict attrsToDict
  induction names with
  | nil => simp at h
  | cons n ns ih =>
    simp only [List.map_cons, List.lookup_cons]
    by_cases hn : a = n
    · subst hn; simp
    · have : (a == n) = false := by simpa using hn
      simp only [this]
      exact ih (by simpa [hn] using h)

/-- A key that is absent takes the default; a key that is present with value `None` stays `None`. -/
theorem attr_missing_default (d : AttrDict) (dflt : Option Rat) (a : String) (h : d.lookup a = none) :
    attrFromDict d dflt a = dflt := by
  simp [attrFromDict, h]

example : attrFromDict (attrsToDict ["initial_inventory_level", "stockout_cost"] (fun a => if a = "stockout_cost" then none else some 0))
    (some 7) "initial_inventory_level" = some 0 := by decide +kernel

end Stockpyl.Serial
