import StockpylModel.Model.SingleStage
import StockpylModel.Props.C16
import StockpylModel.Props.C13
import StockpylModel.Props.C10
/-!
# C15 — simulated long-run cost agrees with the analytical expected cost (what a theorem can carry)
-/
namespace Stockpyl.SingleStage
open Stockpyl Stockpyl.Loss Stockpyl.SS Stockpyl.Helpers

/-- Invariant of a base-stock stage started at its level with an empty pipeline, for non-negative demands:
the pipeline holds exactly the demands of the last `L` periods (each period orders what was demanded) and
inventory level + pipeline = `S`. -/
structure Inv (S : Rat) (L : Nat) (ds : List Rat) (st : St) : Prop where
  pipe : st.pipe = (List.replicate L 0 ++ ds).drop ds.length
  level : st.il = S - lsum st.pipe

theorem inv_init (S : Rat) (L : Nat) : Inv S L [] (init S L) := by
  constructor
  · simp [init]
  · simp only [init]
    have : lsum (List.replicate L (0 : Rat)) = 0 := by
      induction L with
      | zero => simp [lsum]
      | succ k ih => simp only [List.replicate_succ, lsum, ih]; grind
    rw [this]; grind

theorem lsum_drop_one (l : List Rat) (hl : l ≠ []) : lsum (l.drop 1) = lsum l - l.headD 0 := by
  cases l with
  | nil => exact absurd rfl hl
  | cons x xs => simp only [List.drop_succ_cons, List.drop_zero, lsum, List.headD_cons]; grind

theorem inv_step (S : Rat) (L : Nat) (ds : List Rat) (st : St) (d : Rat) (hd : 0 ≤ d) (h : Inv S L ds st) :
    Inv S L (ds ++ [d]) (step S st d) := by
  obtain ⟨hp, hl⟩ := h
  have hq : max 0 (S - (st.il + lsum st.pipe - d)) = d := by rw [hl]; grind
  have hlen : st.pipe.length = L := by rw [hp]; simp
  constructor
  · simp only [step, hq]
    rw [hp]
    have e : (List.replicate L (0 : Rat) ++ (ds ++ [d])) = (List.replicate L 0 ++ ds) ++ [d] := by simp
    rw [e, List.length_append, List.length_singleton]
    have hle : ds.length ≤ (List.replicate L (0 : Rat) ++ ds).length := by simp
    rw [← List.drop_drop, List.drop_append_of_le_length hle]
    cases hh : (List.replicate L (0 : Rat) ++ ds).drop ds.length ++ [d] with
    | nil => simp at hh
    | cons x xs => simp
  · simp only [step, hq]
    have hne : st.pipe ++ [d] ≠ [] := by simp
    have := lsum_drop_one (st.pipe ++ [d]) hne
    have e : (st.pipe ++ [d]).tail = (st.pipe ++ [d]).drop 1 := by simp
    rw [e, this, lsum_append, hl]
    simp only [lsum]; grind

/-- Pathwise law of the simulated single stage: for EVERY non-negative demand path, after the demands `ds` the
inventory level is `S` minus the demands of the last `L` periods. -/
theorem single_stage_pathwise (S : Rat) (L : Nat) (ds : List Rat) (hd : ∀ d ∈ ds, 0 ≤ d) :
    Inv S L ds (runFrom S (init S L) ds) := by
  have gen : ∀ (pre : List Rat) (st : St), Inv S L pre st → ∀ ds : List Rat, (∀ d ∈ ds, 0 ≤ d) →
      Inv S L (pre ++ ds) (runFrom S st ds) := by
    intro pre st hinv ds
    induction ds generalizing pre st with
    | nil => intro _; simpa [runFrom] using hinv
    | cons d rest ih =>
      intro hd
      simp only [runFrom]
      have := ih (pre ++ [d]) (step S st d) (inv_step S L pre st d (hd d (by simp)) hinv)
        (fun x hx => hd x (by simp [hx]))
      simpa using this
  simpa using gen [] (init S L) (inv_init S L) ds hd

/-- Hence the cost charged in a period is the newsvendor cost of the realised lead-time demand:
`h (S − D)⁺ + p (D − S)⁺` with `D` = sum of the last `L` demands. -/
theorem single_stage_cost (S h p : Rat) (L : Nat) (ds : List Rat) (hd : ∀ d ∈ ds, 0 ≤ d) :
    let D := lsum ((List.replicate L 0 ++ ds).drop ds.length)
    periodCost h p (runFrom S (init S L) ds) = h * pos (S - D) + p * neg (S - D) := by
  obtain ⟨hp, hl⟩ := single_stage_pathwise S L ds hd
  simp only [periodCost, hl, hp]

/-! ### expectation over i.i.d. finite-pmf demand = loss functions of the L-fold convolution -/

theorem ex_addLists (u v : List Rat) (f : Nat → Rat) (off : Nat) :
    ex (addLists u v) f off = ex u f off + ex v f off := by
  induction u generalizing v off with
  | nil => simp only [addLists, ex]; grind
  | cons x xs ih =>
    cases v with
    | nil => simp only [addLists, ex]; grind
    | cons y ys => simp only [addLists, ex, ih]; grind

theorem ex_map_mul (a : List Rat) (c : Rat) (f : Nat → Rat) (off : Nat) :
    ex (a.map (· * c)) f off = c * ex a f off := by
  induction a generalizing off with
  | nil => simp only [List.map_nil, ex]; grind
  | cons x xs ih => simp only [List.map_cons, ex, ih]; grind

theorem ex_shift (l : List Rat) (f : Nat → Rat) (off : Nat) :
    ex l f (off + 1) = ex l (fun d => f (d + 1)) off := by
  induction l generalizing off with
  | nil => rfl
  | cons x xs ih => simp only [ex, ih]

/-- Expectation under a convolution is the iterated expectation of the sum:
`E_{a⊛b}[f] = Σ_j b_j · E_a[f(· + j)]`. -/
theorem expect_conv (a b : List Rat) (f : Nat → Rat) :
    expect (conv a b) f = expect b (fun j => expect a (fun i => f (i + j))) := by
  induction b generalizing f with
  | nil => simp [conv, expect, ex]
  | cons y ys ih =>
    simp only [conv, expect]
    rw [ex_addLists, ex_map_mul]
    have h1 : ex (0 :: conv a ys) f 0 = ex (conv a ys) (fun d => f (d + 1)) 0 := by
      simp only [ex]; rw [ex_shift]; grind
    rw [h1]
    have := ih (fun d => f (d + 1))
    simp only [expect] at this
    rw [this]
    simp only [ex]
    rw [ex_shift]
    have e : (fun j => ex a (fun i => f (i + j + 1)) 0) = (fun d => ex a (fun i => f (i + (d + 1))) 0) := by
      funext j; rfl
    rw [e]
    grind

/-- Iterated expectation of `g(D_1 + … + D_L)` over `L` independent demands with pmf `q`
(the innermost expectation is over the most recently added demand). -/
def iterExpect (q : List Rat) : Nat → (Nat → Rat) → Rat
  | 0, g => g 0
  | L+1, g => iterExpect q L fun j => expect q fun i => g (i + j)

/-- The expected per-period cost of the simulated stage equals the analytical newsvendor cost for demand over
its lead time: with i.i.d. demand of pmf `q`, the expected value of `g(D_1 + … + D_L)` is the expectation of
`g` under the `L`-fold convolution — for any `g`, in particular `g = h(S−·)⁺ + p(·−S)⁺`. -/
theorem expect_convMany_replicate (q : List Rat) (L : Nat) (g : Nat → Rat) :
    expect (convMany (List.replicate L q)) g = iterExpect q L g := by
  induction L generalizing g with
  | zero => simp only [List.replicate_zero, convMany, expect, ex, iterExpect]; grind
  | succ L ih =>
    have hcm : convMany (List.replicate (L + 1) q) = conv q (convMany (List.replicate L q)) := by
      simp [List.replicate_succ, convMany]
    rw [hcm, expect_conv, ih]
    rfl

/-- The analytical side: the newsvendor cost function `h·n̄(S) + p·n(S)` of the lead-time-demand pmf IS the
expectation of the per-period cost `h(S−D)⁺ + p(D−S)⁺`. -/
theorem newsvendor_cost_is_expectation (pm : List Rat) (h p : Rat) (S : Int) :
    h * lossNbar pm S + p * lossN pm S
      = expect pm fun d => h * pos ((S - (d : Int) : Int) : Rat) + p * pos (((d : Int) - S : Int) : Rat) := by
  simp only [lossNbar, lossN, expect]
  generalize (0 : Nat) = off
  induction pm generalizing off with
  | nil => simp only [ex]; grind
  | cons x xs ih => simp only [ex]; have := ih (off + 1); grind

/-- C15, single stage: in every period from `L` on, the expected cost charged by the simulated stage
(expectation over the `L` i.i.d. demands in its window, by `single_stage_cost`) equals the analytical newsvendor
cost `h·n̄_L(S) + p·n_L(S)` for the `L`-fold convolution of the demand pmf. Holding for each period, it
holds for every average over periods `≥ L` — so the long-run average converges to (is eventually equal in
expectation to) the analytical cost. -/
theorem single_stage_expected_cost (q : List Rat) (L : Nat) (h p : Rat) (S : Int) :
    iterExpect q L (fun D => h * pos ((S - (D : Int) : Int) : Rat) + p * pos (((D : Int) - S : Int) : Rat))
      = h * lossNbar (convMany (List.replicate L q)) S + p * lossN (convMany (List.replicate L q)) S := by
  rw [newsvendor_cost_is_expectation, expect_convMany_replicate]

/-- (s,S) stage with lead time 1: with `x` = inventory position at the start of the period (after the last
order), the period ends at inventory level `x − d` — so it is charged `h(x−d)⁺ + p(d−x)⁺`, the integrand of the
analytical one-period cost `G(x)` — and the next inventory position is `S` if `x − d ≤ s`, else `x − d`: exactly
the transition `SS.nextSt` of the chain whose long-run average C13 identifies with `g(s,S)`. -/
theorem ss_stage_chain_step (s S : Rat) (st : St) (d : Rat) (hlen : st.pipe.length = 1) :
    let x := st.il + lsum st.pipe
    let r := stepSS s S st d
    r.1.il = x - d ∧ r.1.pipe.length = 1 ∧
    r.1.il + lsum r.1.pipe = (if x - d ≤ s then S else x - d) ∧
    (0 < r.2 → x - d ≤ s) := by
  match hp : st.pipe, hlen with
  | [q0], _ =>
    simp only [stepSS, hp, lsum, List.cons_append, List.nil_append, List.headD_cons, List.tail_cons, List.length_cons,
      List.length_nil]
    refine ⟨by grind, trivial, ?_, ?_⟩
    · split <;> grind
    · split <;> grind

theorem nextSt_matches (s S x d : Int) (hx : s < x) (hxS : x ≤ S) (hd : 0 ≤ d) :
    ((if x - d ≤ s then S else x - d) - s).toNat = nextSt (S - s).toNat (x - s).toNat d.toNat := by
  unfold nextSt
  split <;> split <;> omega

example : (runFrom 10 (init 10 2) [3, 4, 5, 6]).il = 10 - (5 + 6) := by decide +kernel
example : lsum ((List.replicate 2 (0:Rat) ++ [3, 4, 5, 6]).drop 4) = 11 := by decide +kernel
example : iterExpect [1/2, 1/2] 2 (fun D => (D : Rat)) = 1 := by decide +kernel

end Stockpyl.SingleStage
