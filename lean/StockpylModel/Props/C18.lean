import StockpylModel.Model.Graph
import StockpylModel.Lemmas.Basic
/-!
# C18 — network construction and mutation keep the structure coherent
-/
namespace Stockpyl.Graph
open Stockpyl

/-- Structural coherence: labels are unique; predecessor and successor lists are mutual inverses (every
successor entry of `n` names a node of the network that lists `n` as predecessor, and vice versa — so there
are no dangling labels); no list mentions a neighbour twice. -/
structure Coherent (g : G) : Prop where
  nodup : (labels g).Nodup
  succ_ok : ∀ n ∈ g, ∀ s ∈ n.succs, ∃ m ∈ g, m.label = s ∧ n.label ∈ m.preds
  pred_ok : ∀ n ∈ g, ∀ p ∈ n.preds, ∃ m ∈ g, m.label = p ∧ n.label ∈ m.succs
  lists_nodup : ∀ n ∈ g, n.succs.Nodup ∧ n.preds.Nodup

theorem coherent_empty : Coherent [] :=
  ⟨by simp [labels], by simp, by simp, by simp⟩

theorem label_unique {g : G} (h : (labels g).Nodup) {n m : GNode} (hn : n ∈ g) (hm : m ∈ g)
    (hl : n.label = m.label) : n = m := by
  induction g with
  | nil => simp at hn
  | cons x xs ih =>
    simp only [labels, List.map_cons, List.nodup_cons] at h
    rcases List.mem_cons.mp hn with rfl | hn' <;> rcases List.mem_cons.mp hm with rfl | hm'
    · rfl
    · exact absurd (List.mem_map.mpr ⟨m, hm', hl.symm⟩) h.1
    · exact absurd (List.mem_map.mpr ⟨n, hn', hl⟩) h.1
    · exact ih h.2 hn' hm'

theorem mem_labels {g : G} {l : Int} : l ∈ labels g ↔ ∃ n ∈ g, n.label = l := by
  simp [labels]

theorem hasEdge_iff {g : G} {a b : Int} : hasEdge g a b = true ↔ ∃ n ∈ g, n.label = a ∧ b ∈ n.succs := by
  simp [hasEdge]

/-- Adding a node keeps the structure coherent. -/
theorem coherent_addNode (g : G) (l : Int) (h : Coherent g) : Coherent (addNode g l) := by
  unfold addNode
  split
  · exact h
  · rename_i hl
    refine ⟨?_, ?_, ?_, ?_⟩
    · simp only [labels, List.map_append, List.map_cons, List.map_nil]
      apply List.nodup_append.mpr
      refine ⟨h.nodup, by simp, ?_⟩
      intro x hx y hy
      simp at hy; subst hy
      intro hxy; subst hxy; exact hl hx
    · intro n hn s hs
      rcases List.mem_append.mp hn with hn | hn
      · obtain ⟨m, hm, h1, h2⟩ := h.succ_ok n hn s hs
        exact ⟨m, List.mem_append_left _ hm, h1, h2⟩
      · simp at hn; subst hn; simp at hs
    · intro n hn p hp
      rcases List.mem_append.mp hn with hn | hn
      · obtain ⟨m, hm, h1, h2⟩ := h.pred_ok n hn p hp
        exact ⟨m, List.mem_append_left _ hm, h1, h2⟩
      · simp at hn; subst hn; simp at hp
    · intro n hn
      rcases List.mem_append.mp hn with hn | hn
      · exact h.lists_nodup n hn
      · simp at hn; subst hn; simp

@[simp] theorem link_label (a b : Int) (n : GNode) : (link a b n).label = n.label := by
  unfold link; split <;> split <;> rfl

theorem link_succs (a b : Int) (n : GNode) :
    (link a b n).succs = if n.label = a then n.succs ++ [b] else n.succs := by
  unfold link; split <;> split <;> simp_all

theorem link_preds (a b : Int) (n : GNode) :
    (link a b n).preds = if n.label = b then n.preds ++ [a] else n.preds := by
  unfold link; split <;> split <;> simp_all

/-- Linking two existing nodes that are not yet linked keeps the structure coherent. -/
theorem coherent_link (g : G) (a b : Int) (h : Coherent g) (ha : a ∈ labels g) (hb : b ∈ labels g)
    (hne : hasEdge g a b = false) : Coherent (g.map (link a b)) := by
  have hnoedge : ∀ n ∈ g, n.label = a → b ∉ n.succs := by
    intro n hn hl hbs
    have : hasEdge g a b = true := hasEdge_iff.mpr ⟨n, hn, hl, hbs⟩
    rw [hne] at this; exact absurd this (by decide)
  have hnopred : ∀ n ∈ g, n.label = b → a ∉ n.preds := by
    intro n hn hl hap
    obtain ⟨m, hm, h1, h2⟩ := h.pred_ok n hn a hap
    rw [hl] at h2
    exact hnoedge m hm h1 h2
  refine ⟨?_, ?_, ?_, ?_⟩
  · have : labels (g.map (link a b)) = labels g := by simp [labels, Function.comp_def]
    rw [this]; exact h.nodup
  · intro n' hn' s hs
    obtain ⟨n, hn, rfl⟩ := List.mem_map.mp hn'
    rw [link_succs] at hs
    simp only [link_label]
    have old : s ∈ n.succs → ∃ m ∈ g.map (link a b), m.label = s ∧ n.label ∈ m.preds := by
      intro hs0
      obtain ⟨m, hm, h1, h2⟩ := h.succ_ok n hn s hs0
      refine ⟨link a b m, List.mem_map.mpr ⟨m, hm, rfl⟩, by simpa using h1, ?_⟩
      rw [link_preds]; split <;> simp [h2]
    split at hs
    · rename_i hla
      rcases List.mem_append.mp hs with hs0 | hs1
      · exact old hs0
      · simp at hs1; subst hs1
        obtain ⟨m, hm, hmb⟩ := mem_labels.mp hb
        refine ⟨link a s m, List.mem_map.mpr ⟨m, hm, rfl⟩, by simpa using hmb, ?_⟩
        rw [link_preds, if_pos hmb, hla]; simp
    · exact old hs
  · intro n' hn' p hp
    obtain ⟨n, hn, rfl⟩ := List.mem_map.mp hn'
    rw [link_preds] at hp
    simp only [link_label]
    have old : p ∈ n.preds → ∃ m ∈ g.map (link a b), m.label = p ∧ n.label ∈ m.succs := by
      intro hp0
      obtain ⟨m, hm, h1, h2⟩ := h.pred_ok n hn p hp0
      refine ⟨link a b m, List.mem_map.mpr ⟨m, hm, rfl⟩, by simpa using h1, ?_⟩
      rw [link_succs]; split <;> simp [h2]
    split at hp
    · rename_i hlb
      rcases List.mem_append.mp hp with hp0 | hp1
      · exact old hp0
      · simp at hp1; subst hp1
        obtain ⟨m, hm, hma⟩ := mem_labels.mp ha
        refine ⟨link p b m, List.mem_map.mpr ⟨m, hm, rfl⟩, by simpa using hma, ?_⟩
        rw [link_succs, if_pos hma, hlb]; simp
    · exact old hp
  · intro n' hn'
    obtain ⟨n, hn, rfl⟩ := List.mem_map.mp hn'
    obtain ⟨h1, h2⟩ := h.lists_nodup n hn
    rw [link_succs, link_preds]
    constructor
    · split
      · rename_i hla
        apply List.nodup_append.mpr
        refine ⟨h1, by simp, ?_⟩
        intro x hx y hy; simp at hy; subst hy
        intro hxy; subst hxy; exact hnoedge n hn hla hx
      · exact h1
    · split
      · rename_i hlb
        apply List.nodup_append.mpr
        refine ⟨h2, by simp, ?_⟩
        intro x hx y hy; simp at hy; subst hy
        intro hxy; subst hxy; exact hnopred n hn hlb hx
      · exact h2

theorem labels_addNode_mem (g : G) (l x : Int) : x ∈ labels (addNode g l) ↔ x ∈ labels g ∨ x = l := by
  unfold addNode
  split
  · rename_i h
    constructor
    · intro hx; exact Or.inl hx
    · rintro (hx | rfl)
      · exact hx
      · exact h
  · simp [labels]

theorem coherent_addSucc (g : G) (a b : Int) (h : Coherent g) (ha : a ∈ labels g) : Coherent (addSucc g a b) := by
  unfold addSucc
  have h1 := coherent_addNode g b h
  simp only
  split
  · exact h1
  · rename_i hne
    exact coherent_link _ a b h1 ((labels_addNode_mem g b a).mpr (Or.inl ha))
      ((labels_addNode_mem g b b).mpr (Or.inr rfl)) (by simpa using hne)

theorem coherent_addPred (g : G) (b a : Int) (h : Coherent g) (hb : b ∈ labels g) : Coherent (addPred g b a) := by
  unfold addPred
  have h1 := coherent_addNode g a h
  simp only
  split
  · exact h1
  · rename_i hne
    exact coherent_link _ a b h1 ((labels_addNode_mem g a a).mpr (Or.inr rfl))
      ((labels_addNode_mem g a b).mpr (Or.inl hb)) (by simpa using hne)

theorem coherent_addEdge (g g' : G) (a b : Int) (h : Coherent g) (he : addEdge g a b = .ok g') : Coherent g' := by
  unfold addEdge at he
  split at he
  · cases he; exact h
  · rename_i hne
    split at he
    · rename_i hab
      cases he
      exact coherent_link g a b h hab.1 hab.2 (by simpa using hne)
    · cases he

/-- Removing a node (and its label from every neighbour list) keeps the structure coherent. -/
theorem coherent_removeNode (g : G) (l : Int) (h : Coherent g) : Coherent (removeNode g l) := by
  have memR : ∀ n', n' ∈ removeNode g l ↔ ∃ n ∈ g, n.label ≠ l ∧
      n' = { n with preds := n.preds.erase l, succs := n.succs.erase l } := by
    intro n'
    simp only [removeNode, List.mem_map, List.mem_filter, bne_iff_ne, ne_eq]
    constructor
    · rintro ⟨n, ⟨hn, hl⟩, rfl⟩; exact ⟨n, hn, hl, rfl⟩
    · rintro ⟨n, hn, hl, rfl⟩; exact ⟨n, ⟨hn, hl⟩, rfl⟩
  refine ⟨?_, ?_, ?_, ?_⟩
  · have : labels (removeNode g l) = (labels g).filter (· != l) := by
      simp only [labels, removeNode, List.map_map, List.filter_map]
      rfl
    rw [this]
    exact h.nodup.filter _
  · intro n' hn' s hs
    obtain ⟨n, hn, hl, rfl⟩ := (memR n').mp hn'
    simp only at hs ⊢
    have hsn : s ∈ n.succs := List.mem_of_mem_erase hs
    have hsl : s ≠ l := by
      intro hh; subst hh
      exact (List.Nodup.mem_erase_iff (h.lists_nodup n hn).1).mp hs |>.1 rfl
    obtain ⟨m, hm, h1, h2⟩ := h.succ_ok n hn s hsn
    refine ⟨{ m with preds := m.preds.erase l, succs := m.succs.erase l }, (memR _).mpr ⟨m, hm, by rw [h1]; exact hsl, rfl⟩, h1, ?_⟩
    simp only
    exact (List.mem_erase_of_ne hl).mpr h2
  · intro n' hn' p hp
    obtain ⟨n, hn, hl, rfl⟩ := (memR n').mp hn'
    simp only at hp ⊢
    have hpn : p ∈ n.preds := List.mem_of_mem_erase hp
    have hpl : p ≠ l := by
      intro hh; subst hh
      exact (List.Nodup.mem_erase_iff (h.lists_nodup n hn).2).mp hp |>.1 rfl
    obtain ⟨m, hm, h1, h2⟩ := h.pred_ok n hn p hpn
    refine ⟨{ m with preds := m.preds.erase l, succs := m.succs.erase l }, (memR _).mpr ⟨m, hm, by rw [h1]; exact hpl, rfl⟩, h1, ?_⟩
    simp only
    exact (List.mem_erase_of_ne hl).mpr h2
  · intro n' hn'
    obtain ⟨n, hn, _, rfl⟩ := (memR n').mp hn'
    obtain ⟨h1, h2⟩ := h.lists_nodup n hn
    exact ⟨h1.erase _, h2.erase _⟩

/-- After removal the label is gone from the network and from every neighbour list. -/
theorem removeNode_gone (g : G) (l : Int) (h : Coherent g) :
    l ∉ labels (removeNode g l) ∧ ∀ n ∈ removeNode g l, l ∉ n.succs ∧ l ∉ n.preds := by
  constructor
  · simp [labels, removeNode]
  · intro n' hn'
    simp only [removeNode, List.mem_map, List.mem_filter] at hn'
    obtain ⟨n, ⟨hn, _⟩, rfl⟩ := hn'
    obtain ⟨h1, h2⟩ := h.lists_nodup n hn
    exact ⟨fun hh => ((List.Nodup.mem_erase_iff h1).mp hh).1 rfl, fun hh => ((List.Nodup.mem_erase_iff h2).mp hh).1 rfl⟩

/-- Re-indexing with a map that is injective on the network's labels keeps the structure coherent. -/
theorem coherent_reindex (g : G) (π : Int → Int) (h : Coherent g)
    (hπ : ∀ x ∈ labels g, ∀ y ∈ labels g, π x = π y → x = y) : Coherent (reindex g π) := by
  have inLab_s : ∀ n ∈ g, ∀ s ∈ n.succs, s ∈ labels g := by
    intro n hn s hs
    obtain ⟨m, hm, h1, _⟩ := h.succ_ok n hn s hs
    exact mem_labels.mpr ⟨m, hm, h1⟩
  have inLab_p : ∀ n ∈ g, ∀ p ∈ n.preds, p ∈ labels g := by
    intro n hn p hp
    obtain ⟨m, hm, h1, _⟩ := h.pred_ok n hn p hp
    exact mem_labels.mpr ⟨m, hm, h1⟩
  have nodup_map : ∀ l : List Int, (∀ x ∈ l, x ∈ labels g) → l.Nodup → (l.map π).Nodup := by
    intro l hl hnd
    induction l with
    | nil => simp
    | cons x xs ih =>
      simp only [List.map_cons, List.nodup_cons] at hnd ⊢
      refine ⟨?_, ih (fun y hy => hl y (by simp [hy])) hnd.2⟩
      intro hmem
      obtain ⟨y, hy, hxy⟩ := List.mem_map.mp hmem
      have := hπ y (hl y (by simp [hy])) x (hl x (by simp)) hxy
      subst this; exact hnd.1 hy
  refine ⟨?_, ?_, ?_, ?_⟩
  · have : labels (reindex g π) = (labels g).map π := by simp [labels, reindex, Function.comp_def]
    rw [this]
    exact nodup_map _ (fun x hx => hx) h.nodup
  · intro n' hn' s' hs'
    simp only [reindex, List.mem_map] at hn'
    obtain ⟨n, hn, rfl⟩ := hn'
    simp only [List.mem_map] at hs'
    obtain ⟨s, hs, rfl⟩ := hs'
    obtain ⟨m, hm, h1, h2⟩ := h.succ_ok n hn s hs
    refine ⟨⟨π m.label, m.preds.map π, m.succs.map π⟩, ?_, by simp [h1], ?_⟩
    · simp only [reindex, List.mem_map]; exact ⟨m, hm, rfl⟩
    · simp only [List.mem_map]; exact ⟨n.label, h2, rfl⟩
  · intro n' hn' p' hp'
    simp only [reindex, List.mem_map] at hn'
    obtain ⟨n, hn, rfl⟩ := hn'
    simp only [List.mem_map] at hp'
    obtain ⟨p, hp, rfl⟩ := hp'
    obtain ⟨m, hm, h1, h2⟩ := h.pred_ok n hn p hp
    refine ⟨⟨π m.label, m.preds.map π, m.succs.map π⟩, ?_, by simp [h1], ?_⟩
    · simp only [reindex, List.mem_map]; exact ⟨m, hm, rfl⟩
    · simp only [List.mem_map]; exact ⟨n.label, h2, rfl⟩
  · intro n' hn'
    simp only [reindex, List.mem_map] at hn'
    obtain ⟨n, hn, rfl⟩ := hn'
    obtain ⟨h1, h2⟩ := h.lists_nodup n hn
    exact ⟨nodup_map _ (inLab_s n hn) h1, nodup_map _ (inLab_p n hn) h2⟩

/-- Admissible operations: a re-indexing map must be injective on the current labels (the code requires a
dict with a distinct new index for every node). -/
def Op.ok (g : G) : Op → Prop
  | .reindex m => ∀ x ∈ labels g, ∀ y ∈ labels g, applyMap m x = applyMap m y → x = y
  | _ => True

/-- Taking an edge out at both of its end-points keeps the structure coherent. -/
theorem coherent_unlink (g : G) (a b : Int) (h : Coherent g) : Coherent (unlink g a b) := by
  have memU : ∀ n', n' ∈ unlink g a b ↔ ∃ n ∈ g, n' = unlinkNode a b n := by
    intro n'
    simp only [unlink, List.mem_map]
    constructor
    · rintro ⟨n, hn, rfl⟩; exact ⟨n, hn, rfl⟩
    · rintro ⟨n, hn, rfl⟩; exact ⟨n, hn, rfl⟩
  have lab : ∀ n, (unlinkNode a b n).label = n.label := by
    intro n; simp only [unlinkNode]; split <;> split <;> rfl
  have succs_of : ∀ n, (unlinkNode a b n).succs = if n.label = a then n.succs.erase b else n.succs := by
    intro n; simp only [unlinkNode]; split <;> split <;> simp_all
  have preds_of : ∀ n, (unlinkNode a b n).preds = if n.label = b then n.preds.erase a else n.preds := by
    intro n; simp only [unlinkNode]; split <;> split <;> simp_all
  refine ⟨?_, ?_, ?_, ?_⟩
  · have : labels (unlink g a b) = labels g := by
      simp only [labels, unlink, List.map_map]
      apply List.map_congr_left
      intro n _; exact lab n
    rw [this]; exact h.nodup
  · intro n' hn' s hs
    obtain ⟨n, hn, rfl⟩ := (memU n').mp hn'
    rw [succs_of] at hs
    rw [lab]
    have hsn : s ∈ n.succs := by
      split at hs
      · exact List.mem_of_mem_erase hs
      · exact hs
    have hne : ¬ (n.label = a ∧ s = b) := by
      rintro ⟨ha, hb⟩
      rw [if_pos ha] at hs
      subst hb
      exact (List.Nodup.mem_erase_iff (h.lists_nodup n hn).1).mp hs |>.1 rfl
    obtain ⟨m, hm, h1, h2⟩ := h.succ_ok n hn s hsn
    refine ⟨unlinkNode a b m, (memU _).mpr ⟨m, hm, rfl⟩, by rw [lab]; exact h1, ?_⟩
    rw [preds_of]
    split
    · rename_i hmb
      have : n.label ≠ a := by
        intro ha
        exact hne ⟨ha, by rw [← h1]; exact hmb⟩
      exact (List.mem_erase_of_ne this).mpr h2
    · exact h2
  · intro n' hn' p hp
    obtain ⟨n, hn, rfl⟩ := (memU n').mp hn'
    rw [preds_of] at hp
    rw [lab]
    have hpn : p ∈ n.preds := by
      split at hp
      · exact List.mem_of_mem_erase hp
      · exact hp
    have hne : ¬ (n.label = b ∧ p = a) := by
      rintro ⟨hb, ha⟩
      rw [if_pos hb] at hp
      subst ha
      exact (List.Nodup.mem_erase_iff (h.lists_nodup n hn).2).mp hp |>.1 rfl
    obtain ⟨m, hm, h1, h2⟩ := h.pred_ok n hn p hpn
    refine ⟨unlinkNode a b m, (memU _).mpr ⟨m, hm, rfl⟩, by rw [lab]; exact h1, ?_⟩
    rw [succs_of]
    split
    · rename_i hma
      have : n.label ≠ b := by
        intro hb
        exact hne ⟨hb, by rw [← h1]; exact hma⟩
      exact (List.mem_erase_of_ne this).mpr h2
    · exact h2
  · intro n' hn'
    obtain ⟨n, hn, rfl⟩ := (memU n').mp hn'
    obtain ⟨h1, h2⟩ := h.lists_nodup n hn
    rw [succs_of, preds_of]
    constructor
    · split
      · exact h1.erase _
      · exact h1
    · split
      · exact h2.erase _
      · exact h2

/-- Every single operation preserves coherence … -/
theorem coherent_apply (g : G) (op : Op) (h : Coherent g) (hok : op.ok g) : Coherent (apply g op).1 := by
  cases op with
  | addNode l => exact coherent_addNode g l h
  | addEdge a b =>
    simp only [apply]
    cases he : addEdge g a b with
    | ok g' => exact coherent_addEdge g g' a b h he
    | error e => exact h
  | addSucc a b =>
    simp only [apply]
    split
    · rename_i ha; exact coherent_addSucc g a b h ha
    · exact h
  | addPred b a =>
    simp only [apply]
    split
    · rename_i hb; exact coherent_addPred g b a h hb
    · exact h
  | removeNode l => exact coherent_removeNode g l h
  | reindex m => exact coherent_reindex g _ h hok
  | unlink a b => exact coherent_unlink g a b h

/-- Run a whole operation sequence. -/
def runOps : G → List Op → G
  | g, [] => g
  | g, op :: ops => runOps (apply g op).1 ops

def AllOk : G → List Op → Prop
  | _, [] => True
  | g, op :: ops => op.ok g ∧ AllOk (apply g op).1 ops

/-- … hence after ANY sequence of admissible operations, of any length, starting from the empty network,
predecessor and successor lists are mutual inverses, there are no dangling or duplicate labels. -/
theorem coherent_reachable (ops : List Op) (g : G) (h : Coherent g) (hok : AllOk g ops) : Coherent (runOps g ops) := by
  induction ops generalizing g with
  | nil => exact h
  | cons op ops ih => exact ih _ (coherent_apply g op h hok.1) hok.2

/-- In a coherent network the edge list is exactly the pairs (n, s) with s a successor of n, equivalently
the pairs (p, n) with p a predecessor of n: the two adjacency lists describe the same graph. -/
theorem edges_iff_preds (g : G) (h : Coherent g) (a b : Int) :
    (a, b) ∈ edges g ↔ ∃ m ∈ g, m.label = b ∧ a ∈ m.preds := by
  simp only [edges, List.mem_flatMap, List.mem_map, Prod.mk.injEq]
  constructor
  · rintro ⟨n, hn, s, hs, rfl, rfl⟩
    exact h.succ_ok n hn s hs
  · rintro ⟨m, hm, rfl, ha⟩
    obtain ⟨n, hn, h1, h2⟩ := h.pred_ok m hm a ha
    exact ⟨n, hn, m.label, h2, h1, rfl⟩

/-! ### echelon ↔ local base-stock levels -/

theorem toEchelon_length (l : List Rat) : (toEchelon l).length = l.length := by
  induction l with
  | nil => rfl
  | cons x xs ih => simp [toEchelon, ih]

/-- Echelon levels built from non-negative local levels are non-decreasing going upstream and start at
the sink's local level. -/
theorem toEchelon_mono (l : List Rat) (h : ∀ x ∈ l, 0 ≤ x) :
    (toEchelon l).Pairwise (· ≤ ·) ∧ ∀ y ∈ toEchelon l, l.headD 0 ≤ y := by
  induction l with
  | nil => simp [toEchelon]
  | cons x xs ih =>
    have hx := h x (by simp)
    obtain ⟨i1, i2⟩ := ih (fun y hy => h y (by simp [hy]))
    simp only [toEchelon, List.headD_cons]
    have hxs0 : ∀ y ∈ toEchelon xs, 0 ≤ y := by
      intro y hy
      have := i2 y hy
      cases xs with
      | nil => simp [toEchelon] at hy
      | cons z zs => simp only [List.headD_cons] at this; have := h z (by simp); grind
    constructor
    · refine List.Pairwise.cons ?_ ?_
      · intro y hy
        obtain ⟨z, hz, rfl⟩ := List.mem_map.mp hy
        have := hxs0 z hz; grind
      · rw [List.pairwise_map]
        exact i1.imp (fun hab => by grind)
    · intro y hy
      rcases List.mem_cons.mp hy with rfl | hy
      · exact Rat.le_refl
      · obtain ⟨z, hz, rfl⟩ := List.mem_map.mp hy
        have := hxs0 z hz; grind

theorem sufMin_of_sorted (e : List Rat) (h : e.Pairwise (· ≤ ·)) : sufMin e = e := by
  induction e with
  | nil => rfl
  | cons x xs ih =>
    cases xs with
    | nil => rfl
    | cons y ys =>
      have hp := List.pairwise_cons.mp h
      simp only [sufMin]
      rw [ih hp.2]
      simp only [List.headD_cons]
      have := hp.1 y (by simp)
      congr 1; grind

theorem diffs_toEchelon (c : Rat) (l : List Rat) : diffs c ((toEchelon l).map (· + c)) = l := by
  induction l generalizing c with
  | nil => rfl
  | cons x xs ih =>
    simp only [toEchelon, List.map_cons, diffs, List.map_map]
    have : ((fun a => a + c) ∘ fun a => a + x) = fun a => a + (x + c) := by funext a; simp; grind
    rw [this, ih (x + c)]
    congr 1; grind

/-- Converting non-negative local levels to echelon levels and back is the identity. -/
theorem local_echelon_inverse (l : List Rat) (h : ∀ x ∈ l, 0 ≤ x) : toLocal (toEchelon l) = l := by
  unfold toLocal
  rw [sufMin_of_sorted _ (toEchelon_mono l h).1]
  have := diffs_toEchelon 0 l
  have e : (toEchelon l).map (· + 0) = toEchelon l := by
    conv => rhs; rw [← List.map_id (toEchelon l)]
    apply List.map_congr_left; intro a _; simp only [id]; grind
  rw [e] at this; exact this

example : toEchelon [4, 5, 7] = [4, 9, 16] ∧ toLocal [4, 9, 16] = [4, 5, 7] ∧ toLocal [4, 3, 16] = [3, 0, 13] := by
  decide +kernel

end Stockpyl.Graph
