import StockpylModel.Props.NetPolicy
/-!
# Network level, C04 for echelon base-stock nodes

`order_follows_policy_step_ebs`: in any well-formed network, a node with an echelon base-stock policy orders
`capped(max 0 (S − (echelon inventory position of the START-of-period state − Σ inbound orders of the period)))`,
or 0 under an order-pausing disruption. The echelon position reads other nodes' inventory levels and pipelines; none of
them moves during the order phase, whatever the visiting order.
-/
namespace Stockpyl.Sim
open Stockpyl

/-- Guarded views: pipelines of internal edges only, triples of the node's own in-edges only. -/
def isplInt (net : Net) (s : State) (e : Nat) : List Rat := if (net.edge e).src.isSome then (s.edge e).ispl else []
def ipfOwn (net : Net) (n : Nat) (s : State) (e : Nat) : Rat × Rat × Rat :=
  if e ∈ (net.cfg n).inE then ipFields (s.edge e) else ((0 : Rat), (0 : Rat), (0 : Rat))

theorem transitInto_congr (net : Net) (n : Nat) (desc : List Nat) (f g : Nat → List Rat) (d : Nat)
    (h : ∀ e p, (net.edge e).src = some p → f e = g e) : transitInto net n desc f d = transitInto net n desc g d := by
  unfold transitInto
  congr 1
  apply List.map_congr_left
  intro e _
  cases hs : (net.edge e).src with
  | none => rfl
  | some p => simp only; rw [h e p hs]

theorem ownTot_congr (net : Net) (n : Nat) (f g : Nat → Rat × Rat × Rat) (c : Rat × Rat × Rat → Rat)
    (h : ∀ e ∈ (net.cfg n).inE, f e = g e) : ownTot net n f c = ownTot net n g c := by
  unfold ownTot
  congr 1
  apply List.map_congr_left
  intro e he
  rw [h e he]

/-- The echelon position only reads internal pipelines and the node's own in-edge triples. -/
theorem eipOf_congr (net : Net) (n : Nat) (ils : Nat → Rat) (f g : Nat → List Rat) (a b : Nat → Rat × Rat × Rat)
    (h1 : ∀ e p, (net.edge e).src = some p → f e = g e) (h2 : ∀ e ∈ (net.cfg n).inE, a e = b e) :
    eipOf net n ils f a = eipOf net n ils g b := by
  unfold eipOf
  have t : ∀ d, transitInto net n (net.descendants n) f d = transitInto net n (net.descendants n) g d :=
    fun d => transitInto_congr net n _ f g d h1
  simp only [t, ownTot_congr net n a b _ h2]

theorem eipOf_congr_all (net : Net) (n : Nat) (ils ils' : Nat → Rat) (f g : Nat → List Rat) (a b : Nat → Rat × Rat × Rat)
    (h0 : ∀ k, ils k = ils' k) (h1 : ∀ e p, (net.edge e).src = some p → f e = g e) (h2 : ∀ e ∈ (net.cfg n).inE, a e = b e) :
    eipOf net n ils f a = eipOf net n ils' g b := by
  have : ils = ils' := funext h0
  subst this
  exact eipOf_congr net n ils f g a b h1 h2

theorem echelonIP_eq (net : Net) (s : State) (n : Nat) :
    echelonIP net s n = eipOf net n (fun k => (s.node k).il) (isplInt net s) (ipfOwn net n s) := by
  unfold echelonIP
  apply eipOf_congr
  · intro e p h; simp [isplInt, h]
  · intro e he; simp [ipfOwn, he, ipFields]

/-! ### frame facts: what the order phase and the exogenous inputs leave alone -/

theorem setExo_ispl (net : Net) (exo : List Exo) (st : State) (e : Nat) :
    ((setExo net exo st).edge e).ispl = (st.edge e).ispl := by
  simp only [setExo]
  generalize hs1 : ({ st with nodes := (st.nodes.zip exo).map fun (s, x) => { s with disrupted := x.disrupted } } : State) = st1
  have a2 : (st1.edge e).ispl = (st.edge e).ispl := by rw [← hs1]; rfl
  have key : ∀ (l : List Nat) (s : State),
      ((l.foldl (fun s n =>
        s.modEdges ((net.cfg n).outE.filter fun e => (net.edge e).dst.isNone) fun _ ed =>
          { ed with iopl := ed.iopl.set 0 ((exo.getD n {}).demand) }) s).edge e).ispl = (s.edge e).ispl := by
    intro l
    induction l with
    | nil => intro s; rfl
    | cons x xs ih =>
      intro s
      simp only [List.foldl_cons]
      rw [ih]
      refine field_modEdges (·.ispl) s _ _ ?_ trivial e
      intro _ _; rfl
  rw [key, a2]

/-- Placing and reading orders never touches the shipment pipeline of an edge that starts at a real node. -/
theorem orderOp_ispl_internal (net : Net) (hwf : NetWF net) (m : Nat) (s : State) (hlen : s.edges.length = net.edges.length)
    (e p : Nat) (hsrc : (net.edge e).src = some p) : ((orderOp net m s).edge e).ispl = (s.edge e).ispl := by
  obtain ⟨h1, h2, h3, h4⟩ := orderOp_spec net hwf m s hlen
  by_cases hl : e < s.edges.length
  · by_cases hi : e ∈ (net.cfg m).inE
    · obtain ⟨q, _, hh⟩ := h4 e hi
      rw [hh]; simp [placeOrderEdge, hsrc]
    · by_cases ho : e ∈ (net.cfg m).outE
      · rw [h3 e ho]; rfl
      · rw [h2 e hl hi ho]
  · rw [edge_out_of_range _ e (by rw [h1]; exact Nat.le_of_not_lt hl), edge_out_of_range s e (Nat.le_of_not_lt hl)]

theorem receiveOrders_il (net : Net) (n k : Nat) (s : State) : ((receiveOrders net n s).node k).il = (s.node k).il := by
  simp only [receiveOrders]
  refine (il_modNode _ n k _ ?_).trans ?_
  · intro x; rfl
  · simp

/-- The inventory position an echelon base-stock node observes, in terms of REPORTED quantities: the echelon position
of the state the period starts from, minus the inbound orders of the period. -/
def ipReportedE (net : Net) (prev cur : State) (n : Nat) : Rat :=
  echelonIP net prev n - lsum ((net.cfg n).outE.map fun e => (cur.edge e).io)

/-- **Orders follow the policy at echelon base-stock nodes too** (one period, any well-formed network). -/
theorem order_follows_policy_step_ebs (net : Net) (hwf : NetWF net) (st : State) (exo : List Exo)
    (hinv : PInvN net st) (hexo : ExoOK exo) (hxl : exo.length = net.nodes.length)
    (n : Nat) (hn : n < net.nodes.length) (hnd : (orderSeq net).Nodup) (hvis : n ∈ orderSeq net)
    (S : Rat) (hpol : (net.cfg n).policy = .EBS S) :
    ((afterPasses net st exo).node n).oqfg = (st.node n).oqfg +
      (if ((afterPasses net st exo).node n).disrupted && (net.cfg n).dtype == some .OP then 0
       else capped (max 0 (S - ipReportedE net st (afterPasses net st exo) n)) (net.cfg n).cap) := by
  obtain ⟨x1, x2, _⟩ := setExo_spec net exo st hexo hinv.1.2
  obtain ⟨k1, _, k3⟩ := setExo_keeps net exo st (by rw [hxl, hinv.2])
  have p1 : PInvN net (setExo net exo st) := ⟨⟨by rw [x1]; exact hinv.1.1, x2⟩, by rw [k3]; exact hinv.2⟩
  have hn0 : n < st.nodes.length := by rw [hinv.2]; exact hn
  obtain ⟨_, s1oq⟩ := setExo_node net exo st (by rw [hxl, hinv.2]) n hn0
  -- the order pass: only n's own visit changes the projection
  have main := passG_single (orderOp net)
    (fun s => (s.node n, (fun e => if e ∈ (net.cfg n).outE then (s.edge e).io else (0 : Rat)),
      ipfOwn net n s, (fun k => (s.node k).il), isplInt net s))
    (PInvN net) (pinvN_orderOp net hwf) n
    (fun p p' => p'.1.disrupted = p.1.disrupted ∧
      p'.1.oqfg = p.1.oqfg + (if p.1.disrupted && (net.cfg n).dtype == some .OP then 0 else
        capped (max 0 (S - (eipOf net n p.2.2.2.1 p.2.2.2.2 p.2.2.1 - lsum ((net.cfg n).outE.map p'.2.1)))) (net.cfg n).cap))
    (by
      intro m s hs hmn
      refine Prod.ext (orderOp_node_other net m n s hmn) (Prod.ext ?_ (Prod.ext ?_ (Prod.ext ?_ ?_)))
      · funext e
        by_cases he : e ∈ (net.cfg n).outE
        · simp only [he, if_true]
          apply orderOp_io_other net hwf m s hs.1.1 e
          intro hm'
          have a := (hwf.outE_src n e he).1
          have b := (hwf.outE_src m e hm').1
          rw [a] at b
          exact hmn (Option.some.inj b).symm
        · simp only [he, if_false]
      · funext e
        by_cases he : e ∈ (net.cfg n).inE
        · simp only [ipfOwn, he, if_true]
          apply orderOp_ipFields net hwf m s hs.1.1 e
          intro hm'
          have a := (hwf.inE_dst n e he).1
          have b := (hwf.inE_dst m e hm').1
          rw [a] at b
          exact hmn (Option.some.inj b).symm
        · simp only [ipfOwn, he, if_false]
      · funext k; exact (orderOp_keeps net m s).1 k
      · funext e
        simp only [isplInt]
        cases hsrc : (net.edge e).src with
        | none => rfl
        | some p => simp only [Option.isSome_some, if_true]; exact orderOp_ispl_internal net hwf m s hs.1.1 e p hsrc)
    (by
      intro s hs
      have hm : n < s.nodes.length := by rw [hs.2]; exact hn
      obtain ⟨_, a2, a3⟩ := orderOp_self net hwf n s hm hs.1.1
      refine ⟨a2, ?_⟩
      rw [a3]
      congr 1
      simp only [isDisr]
      by_cases hd : ((s.node n).disrupted && (net.cfg n).dtype == some DType.OP) = true
      · simp only [hd, if_true]
      · have hd' : ((s.node n).disrupted && (net.cfg n).dtype == some DType.OP) = false := by simpa using hd
        simp only [hd']
        have hobs : ipObserved net (receiveOrders net n s) n
            = echelonIP net (receiveOrders net n s) n - demandNow net (receiveOrders net n s) n := by
          unfold ipObserved; rw [hpol]
        simp only [orderQty]
        rw [hobs, hpol]
        simp only [Policy.qty]
        -- the echelon position read after the node has read its orders is the one of the state before the visit
        have e1 : eipOf net n (fun k => ((receiveOrders net n s).node k).il) (isplInt net (receiveOrders net n s))
              (ipfOwn net n (receiveOrders net n s))
            = eipOf net n (fun k => (s.node k).il) (isplInt net s) (ipfOwn net n s) := by
          apply eipOf_congr_all
          · intro k; exact receiveOrders_il net n k s
          · intro e p hsrc
            simp only [isplInt, hsrc, Option.isSome_some, if_true]
            by_cases hl : e < s.edges.length
            · rw [receiveOrders_edge net hwf n s e hl]
              split
              · rfl
              · rfl
            · rw [edge_out_of_range _ e (by simpa using Nat.le_of_not_lt hl), edge_out_of_range s e (Nat.le_of_not_lt hl)]
          · intro e he
            have hl : e < s.edges.length := by rw [hs.1.1]; exact (hwf.inE_dst n e he).2
            have hno : e ∉ (net.cfg n).outE := fun ho => not_in_both net hwf n e he ho
            simp only [ipfOwn, he, if_true]
            rw [receiveOrders_edge net hwf n s e hl, if_neg hno]
        have e2 : demandNow net (receiveOrders net n s) n
            = lsum ((net.cfg n).outE.map fun e => if e ∈ (net.cfg n).outE then ((orderOp net n s).edge e).io else 0) := by
          simp only [demandNow]
          congr 1
          apply List.map_congr_left
          intro e he
          simp only [he, if_true]
          have hl : e < s.edges.length := by rw [hs.1.1]; exact (hwf.outE_src n e he).2
          rw [(orderOp_spec net hwf n s hs.1.1).2.2.1 e he, receiveOrders_edge net hwf n s e hl, if_pos he]
        rw [echelonIP_eq, e1, e2])
    (orderSeq net) _ p1 hnd hvis
  simp only at main
  obtain ⟨m2, m3⟩ := main
  have p2 := passG_inv (orderOp net) (PInvN net) (pinvN_orderOp net hwf) (orderSeq net) _ p1
  -- the shipment pass keeps node n's order quantity and disruption flag and every inbound order
  have keep := passG_inv (nodeShip net)
    (fun s => PInvN net s ∧ (s.node n).oqfg = ((List.foldl (fun s n => orderOp net n s) (setExo net exo st) (orderSeq net)).node n).oqfg ∧
      (s.node n).disrupted = ((List.foldl (fun s n => orderOp net n s) (setExo net exo st) (orderSeq net)).node n).disrupted ∧
      ∀ e, (s.edge e).io = ((List.foldl (fun s n => orderOp net n s) (setExo net exo st) (orderSeq net)).edge e).io)
    (by
      intro m s hs
      refine ⟨pinvN_nodeShip net hwf m s hs.1, ?_, ?_, ?_⟩
      · by_cases hmn : m = n
        · subst hmn; rw [(nodeShip_self_keeps net m s).1]; exact hs.2.1
        · rw [nodeShip_node_other net m n s hmn]; exact hs.2.1
      · by_cases hmn : m = n
        · subst hmn; rw [(nodeShip_self_keeps net m s).2]; exact hs.2.2.1
        · rw [nodeShip_node_other net m n s hmn]; exact hs.2.2.1
      · intro e; rw [nodeShip_io net hwf m s hs.1.1.1 hs.1.1.2 e]; exact hs.2.2.2 e)
    (shipSeq net) _ ⟨p2, rfl, rfl, fun _ => rfl⟩
  obtain ⟨_, k1', k2', k4'⟩ := keep
  have hE1 : ((afterPasses net st exo).node n).oqfg
      = ((List.foldl (fun s n => orderOp net n s) (setExo net exo st) (orderSeq net)).node n).oqfg := k1'
  have hE2 : ((afterPasses net st exo).node n).disrupted
      = ((List.foldl (fun s n => orderOp net n s) (setExo net exo st) (orderSeq net)).node n).disrupted := k2'
  have hE4 : ∀ e, ((afterPasses net st exo).edge e).io
      = ((List.foldl (fun s n => orderOp net n s) (setExo net exo st) (orderSeq net)).edge e).io := k4'
  -- the echelon position of the state with the exogenous inputs set is the one of the start state
  have hStart : eipOf net n (fun k => ((setExo net exo st).node k).il) (isplInt net (setExo net exo st)) (ipfOwn net n (setExo net exo st))
      = echelonIP net st n := by
    rw [echelonIP_eq]
    apply eipOf_congr_all
    · intro k; exact k1 k
    · intro e p hsrc; simp only [isplInt, hsrc, Option.isSome_some, if_true]; exact setExo_ispl net exo st e
    · intro e he
      simp only [ipfOwn, he, if_true]
      exact setExo_ipFields net exo st e
  have hOutL : ((net.cfg n).outE.map fun e => if e ∈ (net.cfg n).outE then
        ((List.foldl (fun s n => orderOp net n s) (setExo net exo st) (orderSeq net)).edge e).io else 0)
      = (net.cfg n).outE.map fun e => ((afterPasses net st exo).edge e).io := by
    apply List.map_congr_left
    intro e he
    simp only [he, if_true]
    exact (hE4 e).symm
  rw [hE1, m3]
  simp only [hE2, m2, s1oq, ipReportedE]
  rw [hStart, hOutL]

/-! ### along the whole trajectory -/

theorem transitInto_congr_lsum (net : Net) (n : Nat) (desc : List Nat) (f g : Nat → List Rat) (d : Nat)
    (h : ∀ e ∈ (net.cfg d).inE, lsum (f e) = lsum (g e)) : transitInto net n desc f d = transitInto net n desc g d := by
  unfold transitInto
  congr 1
  apply List.map_congr_left
  intro e he
  cases hs : (net.edge e).src with
  | none => rfl
  | some p => simp only; rw [h e he]

/-- The echelon position reads the pipelines only through their totals. -/
theorem eipOf_congr_lsum (net : Net) (n : Nat) (ils ils' : Nat → Rat) (f g : Nat → List Rat) (a b : Nat → Rat × Rat × Rat)
    (h0 : ∀ k, ils k = ils' k) (h1 : ∀ d, ∀ e ∈ (net.cfg d).inE, lsum (f e) = lsum (g e))
    (h2 : ∀ e ∈ (net.cfg n).inE, a e = b e) : eipOf net n ils f a = eipOf net n ils' g b := by
  have : ils = ils' := funext h0
  subst this
  unfold eipOf
  have t : ∀ d, transitInto net n (net.descendants n) f d = transitInto net n (net.descendants n) g d :=
    fun d => transitInto_congr_lsum net n _ f g d (h1 d)
  simp only [t, ownTot_congr net n a b _ h2]

/-- What a start-of-period state shares with the previously reported state, as far as echelon positions go. -/
structure CarryE (net : Net) (prev st : State) : Prop where
  node : ∀ n, (st.node n).il = (prev.node n).il ∧ (st.node n).oqfg = 0
  edge : ∀ e, e < net.edges.length →
    ipFields (st.edge e) = ipFields (prev.edge e) ∧ lsum (st.edge e).ispl = lsum (prev.edge e).ispl

theorem echelonIP_carry (net : Net) (hwf : NetWF net) (prev st : State) (n : Nat) (hc : CarryE net prev st) :
    echelonIP net st n = echelonIP net prev n := by
  unfold echelonIP
  apply eipOf_congr_lsum
  · intro k; exact (hc.node k).1
  · intro d e he; exact (hc.edge e (hwf.inE_dst d e he).2).2
  · intro e he
    have := (hc.edge e (hwf.inE_dst n e he).2).1
    simpa [ipFields] using this

/-- The relation between two consecutive reported states at echelon base-stock nodes. -/
def PolicyStepE (net : Net) (prev cur : State) : Prop :=
  ∀ n, n < net.nodes.length → ∀ S, (net.cfg n).policy = .EBS S →
    (cur.node n).oqfg =
      (if (cur.node n).disrupted && (net.cfg n).dtype == some .OP then 0
       else capped (max 0 (S - ipReportedE net prev cur n)) (net.cfg n).cap)

/-- **C04 at network level, echelon base-stock nodes.** Along the whole trajectory the simulator reports, at every node
with an echelon base-stock policy, the order of every period is `capped(max 0 (S − (echelon inventory position reported
at the end of the previous period − inbound orders of the period)))` (0 under an order-pausing disruption) — in every
well-formed network (executable hypotheses, evaluated by the driver for every generated network), whatever the other
nodes' policies, lead times, capacities and disruptions. -/
theorem orders_follow_policy_network_ebs (net : Net) (h1 : netWFb net = true) (h2 : decide (VisitOK net) = true)
    (h5 : allOrderedb net = true) (hist : List (List Exo))
    (hexo : ∀ x ∈ hist, ExoOK x ∧ x.length = net.nodes.length) :
    Chain (PolicyStepE net) (initState net) (simulate net hist) := by
  obtain ⟨hwf, hinit⟩ := netWF_of_check net h1
  have hv : VisitOK net := of_decide_eq_true h2
  have hall : ∀ n, n < net.nodes.length → n ∈ orderSeq net := by
    intro n hn
    simp only [allOrderedb, List.all_eq_true, List.mem_range, List.contains_iff_mem] at h5
    exact h5 n hn
  have gen : ∀ (hist : List (List Exo)) (st prev : State),
      (∀ x ∈ hist, ExoOK x ∧ x.length = net.nodes.length) → NetInv net st →
      st.nodes.length = net.nodes.length → CarryE net prev st → Chain (PolicyStepE net) prev (run net st hist) := by
    intro hist
    induction hist with
    | nil => intro st prev _ _ _ _; simp [run, Chain]
    | cons x xs ih =>
      intro st prev hx hinv hnl hc
      obtain ⟨hxo, hxl⟩ := hx x (by simp)
      simp only [run, Chain]
      have hpn : PInvN net st := ⟨hinv.pinv, hnl⟩
      have hap := afterPasses_pinv net hwf st x hinv.pinv hxo
      have hnl' : (afterPasses net st x).nodes.length = net.nodes.length := by
        have p1 : PInvN net (setExo net x st) := by
          obtain ⟨x1, x2, _⟩ := setExo_spec net x st hxo hinv.pinv.2
          obtain ⟨_, _, k3⟩ := setExo_keeps net x st (by rw [hxl, hnl])
          exact ⟨⟨by rw [x1]; exact hinv.pinv.1, x2⟩, by rw [k3]; exact hnl⟩
        have p2 := passG_inv (orderOp net) (PInvN net) (pinvN_orderOp net hwf) (orderSeq net) _ p1
        exact (passG_inv (nodeShip net) (PInvN net) (pinvN_nodeShip net hwf) (shipSeq net) _ p2).2
      constructor
      · intro n hn S hpol
        have hs := order_follows_policy_step_ebs net hwf st x hpn hxo hxl n hn hv.1 (hall n hn) S hpol
        rw [(hc.node n).2] at hs
        rw [step_fst]
        have c1 : ((costs net (afterPasses net st x)).node n).oqfg = ((afterPasses net st x).node n).oqfg ∧
            ((costs net (afterPasses net st x)).node n).disrupted = ((afterPasses net st x).node n).disrupted := by
          simp only [costs, State.node, List.getD_eq_getElem?_getD, List.getElem?_map]
          have hn2 : n < (afterPasses net st x).nodes.length := by rw [hnl']; exact hn
          simp [List.getElem?_range hn2, nodeCosts]
        rw [c1.1, c1.2, hs]
        have e0 : ipReportedE net st (afterPasses net st x) n = ipReportedE net prev (costs net (afterPasses net st x)) n := by
          simp only [ipReportedE]
          rw [echelonIP_carry net hwf prev st n hc]
          rfl
        rw [e0]; grind
      · refine ih (step net st x).2 (step net st x).1 (fun y hy => hx y (by simp [hy]))
          (step_netinv net hwf hv st x hinv hxo) ?_ ?_
        · rw [step_snd]; simp only [initNext, List.length_map]; exact hnl'
        · constructor
          · intro n
            rw [step_snd, step_fst]
            constructor
            · rw [(costs_node_fields net _ n).1]
              simp only [initNext, State.node]
              exact getD_map_il _ nextNode (fun _ => rfl) rfl n
            · simp only [initNext, State.node, List.getD_eq_getElem?_getD, List.getElem?_map]
              cases (afterPasses net st x).nodes[n]? <;> rfl
          · intro e he
            rw [step_snd, step_fst, costs_edge, initNext_edge net _ e hap.1 (by rw [hap.1]; exact he)]
            refine ⟨rfl, ?_⟩
            simp only [nextEdge]
            split
            · rfl
            · exact lsum_shiftPipe _
  exact gen hist (initState net) (initState net) hexo (initState_netinv net hinit) (by simp [initState])
    ⟨fun n => ⟨rfl, by
        simp only [initState, State.node, List.getD_eq_getElem?_getD, List.getElem?_map]
        cases net.nodes[n]? <;> rfl⟩, fun _ _ => ⟨rfl, rfl⟩⟩

/-- Non-vacuity: the two-stage example network with echelon base-stock policies at both nodes meets every hypothesis. -/
def exampleNetE : Net :=
  { exampleNet with nodes := exampleNet.nodes.map fun c => { c with policy := .EBS 12, cap := none } }

example : netWFb exampleNetE = true ∧ decide (VisitOK exampleNetE) = true ∧ allOrderedb exampleNetE = true := by
  decide +kernel

end Stockpyl.Sim
