import StockpylModel.Model.SerialEchelon
import StockpylModel.Lemmas.Sim
/-!
# C04 — serial systems: echelon base-stock ≡ converted local base-stock (identical trajectories)
-/
namespace Stockpyl.SerialEch
open Stockpyl
open Stockpyl.Sim (shiftPipe addAt allNonneg lsum_shiftPipe lsum_set_zero lsum_addAt allNonneg_shiftPipe
  allNonneg_set_zero allNonneg_addAt headD_nonneg addAt_length)

theorem pos_sub_neg (x : Rat) : pos x - neg x = x := by unfold pos neg; grind
theorem neg_nonneg (x : Rat) : 0 ≤ neg x := by unfold neg; grind
theorem pos_nonneg (x : Rat) : 0 ≤ pos x := by unfold pos; grind

/-- Sum of the local inventory positions along the chain (each stage's supplier backorders are the `neg il` of the
stage before it). -/
def sumLip : Rat → List Stage → Rat
  | _, [] => 0
  | up, s :: rest => lip up s + sumLip (neg s.il) rest

/-- Telescoping: the backorders a stage owes are on order at the next one, so along the chain only the first
stage's supplier backorders and the last stage's customer backorders survive. -/
theorem sumLip_telescope (up : Rat) (s : Stage) (rest : List Stage) :
    sumLip up (s :: rest) = up + onHandAndTransit (s :: rest) - lastNeg s rest := by
  induction rest generalizing up s with
  | nil =>
    simp only [sumLip, lip, onHandAndTransit, lastNeg]
    have := pos_sub_neg s.il; grind
  | cons t r ih =>
    have h := ih (neg s.il) t
    simp only [sumLip, lip, onHandAndTransit, lastNeg] at h ⊢
    have := pos_sub_neg s.il; grind

/-- **The echelon inventory position of a stage is the sum of the local inventory positions of the stage and of every
stage downstream of it** — in every state. -/
theorem eip_eq_sumLip (up : Rat) (s : Stage) (rest : List Stage) : eip up s rest = sumLip up (s :: rest) := by
  rw [sumLip_telescope]; simp only [eip, onHandAndTransit]; grind

/-- Invariant at the start of a period: every stage's local inventory position sits at its local base-stock level and
nothing negative is in transit. -/
def AtLevels : Rat → List Stage → Prop
  | _, [] => True
  | up, s :: rest => lip up s = s.S ∧ allNonneg s.pipe ∧ 0 < s.pipe.length ∧ AtLevels (neg s.il) rest

theorem sumLip_atLevels (up : Rat) (l : List Stage) (h : AtLevels up l) : sumLip up l = echLevel l := by
  induction l generalizing up with
  | nil => rfl
  | cons s rest ih => simp only [sumLip, echLevel]; rw [h.1, ih _ h.2.2.2]

/-- With every position at its level, every stage orders exactly the period's demand — under either policy. -/
theorem orders_pass_through (m : Mode) (d : Rat) (hd : 0 ≤ d) (up : Rat) (l : List Stage) (h : AtLevels up l) :
    orders m d up l = List.replicate l.length d := by
  induction l generalizing up with
  | nil => rfl
  | cons s rest ih =>
    have hr := ih (neg s.il) h.2.2.2
    have hio : (orders m d (neg s.il) rest).headD d = d := by
      rw [hr]; cases rest <;> simp [List.replicate]
    simp only [orders, List.length_cons, List.replicate_succ]
    rw [hio, hr]
    congr 1
    cases m with
    | localBS => simp only; rw [h.1]; grind
    | echelonBS =>
      simp only
      rw [eip_eq_sumLip, sumLip_atLevels up (s :: rest) h]; grind

/-- Backorders after serving: what was owed plus the new demand minus what could be shipped. -/
theorem backorder_arith (x r q : Rat) :
    neg (x + r - q) = neg x + q - min (pos x + r) (neg x + q) := by
  unfold pos neg; grind

theorem shipped_nonneg (x r q : Rat) (hr : 0 ≤ r) (hq : 0 ≤ q) : 0 ≤ min (pos x + r) (neg x + q) := by
  unfold pos neg; grind

/-- The shipment phase keeps every local position at its level when every stage ordered the period's demand:
position' = position + order − demand, stage by stage (what the supplier could not ship stays on order as its backorder). -/
theorem ship_keeps_levels (d : Rat) (hd : 0 ≤ d) (l : List Stage) :
    ∀ (up up' arrive : Rat), 0 ≤ arrive → up' = up + d - arrive → AtLevels up l →
      AtLevels up' (ship d arrive (List.replicate l.length d) l) := by
  induction l with
  | nil => intro _ _ _ _ _ _; trivial
  | cons s rest ih =>
    intro up up' arrive ha hup h
    obtain ⟨h1, h2, h3, h4⟩ := h
    have hidx : s.pipe.length - 1 < s.pipe.length := by omega
    have hp1 : allNonneg (addAt s.pipe (s.pipe.length - 1) arrive) := allNonneg_addAt _ _ _ h2 ha
    have hrecv : 0 ≤ (addAt s.pipe (s.pipe.length - 1) arrive).headD 0 := headD_nonneg _ hp1
    have hio : ((List.replicate (s :: rest).length d).drop 1).headD d = d := by
      simp only [List.length_cons, List.replicate_succ, List.drop_succ_cons, List.drop_zero]
      cases rest <;> simp [List.replicate]
    have hdrop : (List.replicate (s :: rest).length d).drop 1 = List.replicate rest.length d := by
      simp [List.replicate_succ]
    simp only [ship]
    rw [hio, hdrop]
    refine ⟨?_, allNonneg_shiftPipe _ (allNonneg_set_zero _ hp1), ?_, ?_⟩
    · simp only [lip]
      rw [lsum_shiftPipe, lsum_set_zero, lsum_addAt _ _ _ hidx]
      simp only [lip] at h1
      grind
    · simp [Sim.shiftPipe_length, addAt_length]; exact h3
    · apply ih (neg s.il) _ _ (shipped_nonneg s.il _ d hrecv hd) _ h4
      rw [backorder_arith s.il _ d]

/-- One period from a state with every position at its level: both policies place the same orders (the demand, at
every stage) and reach the same next state, which again has every position at its level. -/
theorem step_same (d : Rat) (hd : 0 ≤ d) (l : List Stage) (h : AtLevels 0 l) :
    step .echelonBS d l = step .localBS d l ∧ AtLevels 0 (step .localBS d l).2 := by
  have e1 := orders_pass_through .echelonBS d hd 0 l h
  have e2 := orders_pass_through .localBS d hd 0 l h
  refine ⟨by simp only [step]; rw [e1, e2], ?_⟩
  simp only [step]; rw [e2]
  cases l with
  | nil => trivial
  | cons s rest =>
    apply ship_keeps_levels d hd (s :: rest) 0 0 _ _ _ h
    · simp [List.replicate_succ]; exact hd
    · simp [List.replicate_succ]; grind

/-- **C04, serial systems.** Started with every stage's local inventory position at its local base-stock level, the
echelon base-stock policy with the converted levels (`echLevel`, the sum of the local levels of the stage and of
everything downstream) and the local base-stock policy generate identical trajectories — orders and states, every
period, for every number of stages, every lead time, every non-negative demand sequence. -/
theorem echelon_equals_local (ds : List Rat) (hds : ∀ d ∈ ds, 0 ≤ d) (l : List Stage) (h : AtLevels 0 l) :
    run .echelonBS ds l = run .localBS ds l := by
  induction ds generalizing l with
  | nil => rfl
  | cons d ds ih =>
    obtain ⟨e, hn⟩ := step_same d (hds d (by simp)) l h
    simp only [run]
    rw [e, ih (fun x hx => hds x (by simp [hx])) _ hn]

/-- The initial state the simulator builds (inventory at the local level, empty pipelines) has every position at its
level when the levels are non-negative. -/

theorem lsum_replicate_zero (n : Nat) : lsum (List.replicate n 0) = 0 := by
  induction n with
  | zero => rfl
  | succ n ih => simp only [List.replicate_succ, lsum, ih]; grind

theorem init_atLevels (cfg : List (Rat × Nat)) (h : ∀ c ∈ cfg, 0 ≤ c.1) (up : Rat) (hup : up = 0) :
    AtLevels up (cfg.map fun c => initStage c.1 c.2) := by
  induction cfg generalizing up with
  | nil => trivial
  | cons c cs ih =>
    simp only [List.map_cons, AtLevels]
    refine ⟨?_, ?_, by simp [initStage], ?_⟩
    · simp only [lip, initStage, lsum_replicate_zero, hup]; grind
    · intro x hx; simp [initStage] at hx; rw [hx]; exact Rat.le_refl
    · apply ih (fun x hx => h x (by simp [hx]))
      have := h c (by simp)
      simp only [initStage, neg]; grind

/-- The statement for the simulator's own starting state. -/
theorem echelon_equals_local_from_start (cfg : List (Rat × Nat)) (hS : ∀ c ∈ cfg, 0 ≤ c.1)
    (ds : List Rat) (hds : ∀ d ∈ ds, 0 ≤ d) :
    run .echelonBS ds (cfg.map fun c => initStage c.1 c.2) = run .localBS ds (cfg.map fun c => initStage c.1 c.2) :=
  echelon_equals_local ds hds _ (init_atLevels cfg hS 0 rfl)

/-- Non-vacuity: a three-stage system with different lead times; the hypotheses hold, the orders are the demands, and the
two trajectories are equal AND non-trivial (a stockout occurs). -/
example : AtLevels 0 ([(4, 1), (6, 0), (5, 2)].map fun c => initStage c.1 c.2) := by
  apply init_atLevels
  · intro c hc
    simp at hc
    rcases hc with rfl | rfl | rfl <;> decide +kernel
  · rfl
example : (run .echelonBS [3, 9, 2] ([(4, 1), (6, 0), (5, 2)].map fun c => initStage c.1 c.2)).map (·.1)
    = [[3, 3, 3], [9, 9, 9], [2, 2, 2]] := by decide +kernel
example : ((run .echelonBS [3, 9, 2] ([(4, 1), (6, 0), (5, 2)].map fun c => initStage c.1 c.2)).map
    (fun r => r.2.map (·.il))) = ((run .localBS [3, 9, 2] ([(4, 1), (6, 0), (5, 2)].map fun c => initStage c.1 c.2)).map
    (fun r => r.2.map (·.il))) := by decide +kernel

end Stockpyl.SerialEch
