import StockpylModel.Props.NetBO
/-!
# Network level, C01: material balance at every node and on every internal edge, every period

* `node_balance_step` — for every node: inventory level at the end of the period = level at the start
  + units produced − orders received from its customers; and for each of its suppliers, raw-material stock
  = old stock + receipt − units produced.
* `edge_flow_step` — for every internal edge: what the supplier shipped = what the customer received + the
  change of (in transit + held at the door); every unit ordered is shipped, backordered or held.
Together with `bo_matches_il_network` these are the conservation laws of C01 for whole networks.
-/
namespace Stockpyl.Sim
open Stockpyl

theorem setExo_rm (net : Net) (exo : List Exo) (st : State) (e : Nat) :
    ((setExo net exo st).edge e).rm = (st.edge e).rm := by
  simp only [setExo]
  generalize hs1 : ({ st with nodes := (st.nodes.zip exo).map fun (s, x) => { s with disrupted := x.disrupted } } : State) = st1
  have a2 : (st1.edge e).rm = (st.edge e).rm := by rw [← hs1]; rfl
  have key : ∀ (l : List Nat) (s : State),
      ((l.foldl (fun s n =>
        s.modEdges ((net.cfg n).outE.filter fun e => (net.edge e).dst.isNone) fun _ ed =>
          { ed with iopl := ed.iopl.set 0 ((exo.getD n {}).demand) }) s).edge e).rm = (s.edge e).rm := by
    intro l
    induction l with
    | nil => intro s; rfl
    | cons x xs ih =>
      intro s
      simp only [List.foldl_cons]
      rw [ih]
      refine rm_modEdges s _ _ ?_ e
      intro _ _; rfl
  rw [key, a2]

/-- Phase invariant for the node-level balance. -/
def PInvN (net : Net) (s : State) : Prop := PInv net s ∧ s.nodes.length = net.nodes.length

theorem pinvN_orderOp (net : Net) (hwf : NetWF net) (m : Nat) (s : State) (h : PInvN net s) :
    PInvN net (orderOp net m s) :=
  ⟨pinv_orderOp net hwf m s h.1, by rw [(orderOp_keeps net m s).2.2]; exact h.2⟩

theorem pinvN_nodeShip (net : Net) (hwf : NetWF net) (m : Nat) (s : State) (h : PInvN net s) :
    PInvN net (nodeShip net m s) :=
  ⟨pinv_nodeShip net hwf m s h.1, by rw [nodeShip_nodes_len]; exact h.2⟩

/-- **Material balance at a node over one period** (C01, node level): for every node that the shipment pass
visits, in any well-formed network, whatever the orders, demands and disruptions. -/
theorem node_balance_step (net : Net) (hwf : NetWF net) (st : State) (exo : List Exo)
    (hinv : PInvN net st) (hexo : ExoOK exo) (hxl : exo.length = net.nodes.length)
    (n : Nat) (hn : n < net.nodes.length) (hnd : (shipSeq net).Nodup) (hvis : n ∈ shipSeq net) :
    ((afterPasses net st exo).node n).il =
      (st.node n).il + ((afterPasses net st exo).node n).newFG
        - lsum ((net.cfg n).outE.map fun e => ((afterPasses net st exo).edge e).io) ∧
    ∀ e ∈ (net.cfg n).inE, ((afterPasses net st exo).edge e).rm =
      (st.edge e).rm + ((afterPasses net st exo).edge e).is_ - ((afterPasses net st exo).node n).newFG := by
  -- exogenous inputs and the order pass keep inventory levels and raw-material stocks
  obtain ⟨x1, x2, _⟩ := setExo_spec net exo st hexo hinv.1.2
  obtain ⟨k1, _, k3⟩ := setExo_keeps net exo st (by rw [hxl, hinv.2])
  have p1 : PInvN net (setExo net exo st) := ⟨⟨by rw [x1]; exact hinv.1.1, x2⟩, by rw [k3]; exact hinv.2⟩
  have q1 : ((setExo net exo st).node n).il = (st.node n).il ∧
      ∀ e, ((setExo net exo st).edge e).rm = (st.edge e).rm := ⟨k1 n, setExo_rm net exo st⟩
  have q2 := passG_inv (orderOp net)
    (fun s => (s.node n).il = (st.node n).il ∧ ∀ e, (s.edge e).rm = (st.edge e).rm)
    (by
      intro m s hs
      exact ⟨by rw [(orderOp_keeps net m s).1 n]; exact hs.1, fun e => by rw [orderOp_rm]; exact hs.2 e⟩)
    (orderSeq net) _ q1
  have p2 := passG_inv (orderOp net) (PInvN net) (pinvN_orderOp net hwf) (orderSeq net) _ p1
  -- the shipment pass: only n's own visit changes the projection
  have main := passG_single (nodeShip net)
    (fun s => ((s.node n).il, (s.node n).newFG, (fun e => (s.edge e).io),
      (fun e => if e ∈ (net.cfg n).inE then ((s.edge e).rm, (s.edge e).is_) else ((0 : Rat), (0 : Rat)))))
    (PInvN net) (pinvN_nodeShip net hwf) n
    (fun p p' => p'.1 = p.1 + p'.2.1 - lsum ((net.cfg n).outE.map p.2.2.1) ∧ p'.2.2.1 = p.2.2.1 ∧
      ∀ e ∈ (net.cfg n).inE, (p'.2.2.2 e).1 = (p.2.2.2 e).1 + (p'.2.2.2 e).2 - p'.2.1)
    (by
      intro m s hs hmn
      have hnode := nodeShip_node_other net m n s hmn
      simp only [hnode]
      refine Prod.ext rfl (Prod.ext rfl (Prod.ext ?_ ?_))
      · funext e; exact nodeShip_io net hwf m s hs.1.1 hs.1.2 e
      · funext e
        by_cases he : e ∈ (net.cfg n).inE
        · simp only [he, if_true]
          have hni : e ∉ (net.cfg m).inE := by
            intro hm'
            have a := (hwf.inE_dst n e he).1
            have b := (hwf.inE_dst m e hm').1
            rw [a] at b
            exact hmn (Option.some.inj b).symm
          obtain ⟨r1, r2⟩ := nodeShip_rm_other net hwf m s hs.1.1 hs.1.2 e hni
          rw [r1, r2]
        · simp only [he, if_false])
    (by
      intro s hs
      have hm : n < s.nodes.length := by rw [hs.2]; exact hn
      refine ⟨?_, ?_, ?_⟩
      · show ((nodeShip net n s).node n).il = (s.node n).il + ((nodeShip net n s).node n).newFG - _
        rw [nodeShip_il_self net hwf n s hm hs.1.1, nodeShip_newFG_self net n s hm]
        simp only [sumIO, List.map_map]
        rfl
      · funext e; exact nodeShip_io net hwf n s hs.1.1 hs.1.2 e
      · intro e he
        simp only [he, if_true]
        rw [nodeShip_newFG_self net n s hm]
        exact nodeShip_rm_self net hwf n s hs.1.1 hs.1.2 e he)
    (shipSeq net) _ p2 hnd hvis
  simp only at main
  obtain ⟨m1, m2, m3⟩ := main
  constructor
  · show ((afterPasses net st exo).node n).il = _
    simp only [afterPasses]
    rw [m1, q2.1]
    have : (fun e => ((List.foldl (fun s n => nodeShip net n s)
        (List.foldl (fun s n => orderOp net n s) (setExo net exo st) (orderSeq net)) (shipSeq net)).edge e).io)
        = fun e => ((List.foldl (fun s n => orderOp net n s) (setExo net exo st) (orderSeq net)).edge e).io := m2
    rw [this]
  · intro e he
    have := m3 e he
    simp only [he, if_true] at this
    simp only [afterPasses]
    rw [this, q2.2 e]

/-- **Flow on an internal edge over one period** (C01, edge level, in the network). -/
theorem edge_flow_step (net : Net) (hwf : NetWF net) (hv : VisitOK net) (st : State) (exo : List Exo)
    (hinv : NetInv net st) (hexo : ExoOK exo) (e a b : Nat) (he : e < net.edges.length)
    (hs : (net.edge e).src = some a) (hd : (net.edge e).dst = some b) :
    lsum ((afterPasses net st exo).edge e).ispl + ((afterPasses net st exo).edge e).idi
        + ((afterPasses net st exo).edge e).is_
      = lsum (st.edge e).ispl + (st.edge e).idi + ((afterPasses net st exo).edge e).os ∧
    ((afterPasses net st exo).edge e).bo + ((afterPasses net st exo).edge e).odi
        + ((afterPasses net st exo).edge e).os
      = (st.edge e).bo + (st.edge e).odi + ((afterPasses net st exo).edge e).io := by
  obtain ⟨q, oh, sp, tp, rp, m, hq, hoh, h1, _⟩ :=
    step_edge_internal net hwf hv st exo hinv.pinv hexo e a b he hs hd
  obtain ⟨l1, l2⟩ := hinv.lens e a b he hs hd
  have hok := hinv.pinv.2 e (by rw [hinv.pinv.1]; exact he)
  have main := edge_period_conserves (net.cfg b).olt (net.cfg b).slt q oh sp tp rp (st.edge e) hq hoh
    (by rw [l1]; omega) (by rw [l2]; omega) hok.bo hok.odi hok.iopl
  simp only at main
  rw [h1]
  exact ⟨main.1, main.2.1⟩

/-! ### along the whole trajectory -/

/-- The balance between one reported state and the next (the first one against the initial state). -/
structure Balance (net : Net) (prev s : State) : Prop where
  node : ∀ n, n < net.nodes.length →
    (s.node n).il = (prev.node n).il + (s.node n).newFG - lsum ((net.cfg n).outE.map fun e => (s.edge e).io) ∧
    ∀ e ∈ (net.cfg n).inE, (s.edge e).rm = (prev.edge e).rm + (s.edge e).is_ - (s.node n).newFG
  edge : ∀ e a b, e < net.edges.length → (net.edge e).src = some a → (net.edge e).dst = some b →
    lsum (s.edge e).ispl + (s.edge e).idi + (s.edge e).is_ = lsum (prev.edge e).ispl + (prev.edge e).idi + (s.edge e).os ∧
    (s.edge e).bo + (s.edge e).odi + (s.edge e).os = (prev.edge e).bo + (prev.edge e).odi + (s.edge e).io

def Chain (R : State → State → Prop) : State → List State → Prop
  | _, [] => True
  | prev, s :: rest => R prev s ∧ Chain R s rest

/-- What a start-of-period state shares with the previously reported state. -/
structure Carry (net : Net) (prev st : State) : Prop where
  il : ∀ n, (st.node n).il = (prev.node n).il
  edge : ∀ e, e < net.edges.length → (st.edge e).rm = (prev.edge e).rm ∧ (st.edge e).bo = (prev.edge e).bo ∧
    (st.edge e).odi = (prev.edge e).odi ∧
    lsum (st.edge e).ispl + (st.edge e).idi = lsum (prev.edge e).ispl + (prev.edge e).idi

def allVisitedb (net : Net) : Bool := (List.range net.nodes.length).all fun n => (shipSeq net).contains n

theorem costs_node_fields (net : Net) (s : State) (n : Nat) :
    ((costs net s).node n).il = (s.node n).il ∧ ((costs net s).node n).newFG = (s.node n).newFG := by
  simp only [costs, State.node, List.getD_eq_getElem?_getD, List.getElem?_map]
  by_cases hn : n < s.nodes.length
  · simp [List.getElem?_range hn, nodeCosts]
  · have : (List.range s.nodes.length)[n]? = none := by
      apply List.getElem?_eq_none; simpa using Nat.le_of_not_lt hn
    simp [this, List.getElem?_eq_none (Nat.le_of_not_lt hn)]

/-- **C01 at network level.** Along the whole trajectory the simulator reports, for every well-formed network
meeting the executable side conditions, every node and every internal edge balance in every period. -/
theorem conservation_network (net : Net) (h1 : netWFb net = true) (h2 : decide (VisitOK net) = true)
    (h4 : allVisitedb net = true) (hist : List (List Exo))
    (hexo : ∀ x ∈ hist, ExoOK x ∧ x.length = net.nodes.length) :
    Chain (Balance net) (initState net) (simulate net hist) := by
  obtain ⟨hwf, hinit⟩ := netWF_of_check net h1
  have hv : VisitOK net := of_decide_eq_true h2
  have hall : ∀ n, n < net.nodes.length → n ∈ shipSeq net := by
    intro n hn
    simp only [allVisitedb, List.all_eq_true, List.mem_range, List.contains_iff_mem] at h4
    exact h4 n hn
  have gen : ∀ (hist : List (List Exo)) (st prev : State),
      (∀ x ∈ hist, ExoOK x ∧ x.length = net.nodes.length) → NetInv net st →
      st.nodes.length = net.nodes.length → Carry net prev st → Chain (Balance net) prev (run net st hist) := by
    intro hist
    induction hist with
    | nil => intro st prev _ _ _ _; simp [run, Chain]
    | cons x xs ih =>
      intro st prev hx hinv hnl hc
      obtain ⟨hxo, hxl⟩ := hx x (by simp)
      simp only [run, Chain]
      have hpn : PInvN net st := ⟨hinv.pinv, hnl⟩
      have hap := afterPasses_pinv net hwf st x hinv.pinv hxo
      constructor
      · -- the reported state balances against the previous one
        constructor
        · intro n hn
          obtain ⟨b1, b2⟩ := node_balance_step net hwf st x hpn hxo hxl n hn hv.2.1 (hall n hn)
          rw [step_fst]
          obtain ⟨c1, c2⟩ := costs_node_fields net (afterPasses net st x) n
          refine ⟨?_, ?_⟩
          · rw [c1, c2, b1, hc.il n]; rfl
          · intro e he
            rw [c2]
            show ((afterPasses net st x).edge e).rm = _
            rw [b2 e he, (hc.edge e (hwf.inE_dst n e he).2).1]; rfl
        · intro e a b he hs hd
          obtain ⟨f1, f2⟩ := edge_flow_step net hwf hv st x hinv hxo e a b he hs hd
          obtain ⟨_, g2, g3, g4⟩ := hc.edge e he
          rw [step_fst]
          simp only [costs_edge]
          rw [f1, f2, g2, g3, ← g4]
          exact ⟨rfl, rfl⟩
      · -- and the next start-of-period state carries it over
        refine ih (step net st x).2 (step net st x).1 (fun y hy => hx y (by simp [hy]))
          (step_netinv net hwf hv st x hinv hxo) ?_ ?_
        · rw [step_snd]
          simp only [initNext, List.length_map]
          have : (afterPasses net st x).nodes.length = net.nodes.length := by
            have p1 : PInvN net (setExo net x st) := by
              obtain ⟨x1, x2, _⟩ := setExo_spec net x st hxo hinv.pinv.2
              obtain ⟨_, _, k3⟩ := setExo_keeps net x st (by rw [hxl, hnl])
              exact ⟨⟨by rw [x1]; exact hinv.pinv.1, x2⟩, by rw [k3]; exact hnl⟩
            have p2 := passG_inv (orderOp net) (PInvN net) (pinvN_orderOp net hwf) (orderSeq net) _ p1
            exact (passG_inv (nodeShip net) (PInvN net) (pinvN_nodeShip net hwf) (shipSeq net) _ p2).2
          exact this
        · constructor
          · intro n
            rw [step_snd, step_fst, (costs_node_fields net _ n).1]
            simp only [initNext, State.node]
            exact getD_map_il _ nextNode (fun _ => rfl) rfl n
          · intro e he
            rw [step_snd, step_fst, costs_edge,
                initNext_edge net _ e hap.1 (by rw [hap.1]; exact he)]
            have n6 := nextEdge_conserves (tpFlag net (afterPasses net st x) e) ((afterPasses net st x).edge e)
            simp only at n6
            exact ⟨n6.2.1, n6.2.2.2.2.1, n6.2.2.2.2.2.1, by rw [n6.1, n6.2.2.1]⟩
  have hi := initState_netinv net hinit
  exact gen hist (initState net) (initState net) hexo hi (by simp [initState])
    ⟨fun _ => rfl, fun _ _ => ⟨rfl, rfl, rfl, rfl⟩⟩

example : allVisitedb exampleNet = true := by decide +kernel

end Stockpyl.Sim
