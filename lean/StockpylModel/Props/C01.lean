import StockpylModel.Props.MP
import StockpylModel.Lemmas.Sim
import StockpylModel.Props.C02
/-!
# C01 — conservation of material (kernel level: every kernel that moves units conserves them)
-/
namespace Stockpyl.Sim
open Stockpyl

/-- Receipt: what leaves slot 0 of the pipeline (plus, when the receipt pause ends, what was held at
the door) is exactly what enters raw-material stock; under a receipt pause it is held at the door.
`in transit + held + received` is unchanged and raw material grows by the receipt. -/
theorem recvShip_conserves (rp : Bool) (e : EdgeSt) :
    let e' := recvShipEdge rp e
    lsum e'.ispl + e'.idi + e'.is_ = lsum e.ispl + e.idi ∧ e'.rm = e.rm + e'.is_ ∧
    e'.oo = e.oo - e.ispl.headD 0 ∧
    e'.iopl = e.iopl ∧ e'.io = e.io ∧ e'.os = e.os ∧ e'.bo = e.bo ∧ e'.odi = e.odi ∧ e'.oq = e.oq := by
  cases rp <;> simp [recvShipEdge, lsum_set_zero] <;> grind

/-- Production: the producible quantity is available in every raw-material stock and non-negative. -/
theorem producible_le (net : Net) (st : State) (n e : Nat) (he : e ∈ (net.cfg n).inE)
    (hrm : 0 ≤ (st.edge e).rm) :
    producible net st n ≤ (st.edge e).rm ∧ 0 ≤ producible net st n := by
  constructor
  · have := lmin_le ((net.cfg n).inE.map fun e => if 0 < (st.edge e).rm then (st.edge e).rm else 0)
      (if 0 < (st.edge e).rm then (st.edge e).rm else 0) (List.mem_map.mpr ⟨e, he, rfl⟩)
    unfold producible
    split at this <;> grind
  · apply lmin_nonneg
    intro x hx
    obtain ⟨e', _, rfl⟩ := List.mem_map.mp hx
    split <;> grind

/-- Shipment into the customer's pipeline: in-transit grows by exactly the outbound shipment. -/
theorem propagate_conserves (e : EdgeSt) (slt : Nat) (h : slt < e.ispl.length) :
    lsum (addAt e.ispl slt e.os) = lsum e.ispl + e.os := lsum_addAt _ _ _ h

/-- Order to the external supplier enters the shipment pipeline in full. -/
theorem placeOrder_ext_conserves (olt slt : Nat) (q : Rat) (e : EdgeSt) (h : olt + slt < e.ispl.length) :
    let e' := placeOrderEdge olt slt true q e
    lsum e'.ispl = lsum e.ispl + q ∧ e'.oo = e.oo + q ∧ e'.oq = e.oq + q ∧ e'.idi = e.idi ∧ e'.rm = e.rm := by
  simp [placeOrderEdge, lsum_addAt _ _ _ h]

/-- Order to an internal supplier enters the supplier's order pipeline in full. -/
theorem placeOrder_int_conserves (olt slt : Nat) (q : Rat) (e : EdgeSt) (h : olt < e.iopl.length) :
    let e' := placeOrderEdge olt slt false q e
    lsum e'.iopl = lsum e.iopl + q ∧ e'.oo = e.oo + q ∧ e'.oq = e.oq + q ∧ e'.ispl = e.ispl ∧
    e'.bo = e.bo ∧ e'.odi = e.odi := by
  simp [placeOrderEdge, lsum_addAt _ _ _ h]

/-- Carry-over into the next period: nothing in transit is lost (shifted or frozen), stocks, backorders,
held items and on-order are carried unchanged. -/
theorem nextEdge_conserves (tp : Bool) (e : EdgeSt) :
    let e' := nextEdge tp e
    lsum e'.ispl = lsum e.ispl ∧ e'.rm = e.rm ∧ e'.idi = e.idi ∧ e'.oo = e.oo ∧ e'.bo = e.bo ∧
    e'.odi = e.odi ∧ lsum e'.iopl = lsum e.iopl - e.iopl.headD 0 ∧ e'.ispl.length = e.ispl.length := by
  refine ⟨?_, rfl, rfl, rfl, rfl, rfl, ?_, ?_⟩
  · cases tp <;> simp [nextEdge, lsum_shiftPipe]
  · cases h : e.iopl with
    | nil => simp [nextEdge, h, lsum]; grind
    | cons x xs => simp [nextEdge, h, lsum, lsum_append]; grind
  · cases tp <;> simp [nextEdge, shiftPipe_length]

/-- One whole period of one internal edge, in the order of the two passes, for ANY order quantity,
on-hand, and disruption flags: what the supplier shipped is what the customer received plus what is
still in transit or held at its door (`edge flow`), and every unit ordered is shipped, backordered or
held (`demand accounting`); raw material grows by the receipt. -/
theorem edge_period_conserves (olt slt : Nat) (q oh : Rat) (sp tp rp : Bool) (e : EdgeSt)
    (hq : 0 ≤ q) (hoh : 0 ≤ oh) (hs : slt < e.ispl.length) (ho : olt < e.iopl.length)
    (hbo : 0 ≤ e.bo) (hodi : 0 ≤ e.odi) (hio : allNonneg e.iopl) :
    let r := edgePeriod olt slt q oh sp tp rp e
    lsum r.1.ispl + r.1.idi + r.1.is_ = lsum e.ispl + e.idi + r.1.os ∧
    r.1.bo + r.1.odi + r.1.os = e.bo + e.odi + r.1.io ∧
    r.1.rm = e.rm + r.1.is_ ∧
    lsum r.2.ispl + r.2.idi = lsum r.1.ispl + r.1.idi ∧ r.2.bo = r.1.bo ∧ r.2.odi = r.1.odi ∧ r.2.rm = r.1.rm := by
  intro r
  show lsum (edgePeriod olt slt q oh sp tp rp e).1.ispl + (edgePeriod olt slt q oh sp tp rp e).1.idi
      + (edgePeriod olt slt q oh sp tp rp e).1.is_ = lsum e.ispl + e.idi + (edgePeriod olt slt q oh sp tp rp e).1.os ∧
    (edgePeriod olt slt q oh sp tp rp e).1.bo + (edgePeriod olt slt q oh sp tp rp e).1.odi
      + (edgePeriod olt slt q oh sp tp rp e).1.os = e.bo + e.odi + (edgePeriod olt slt q oh sp tp rp e).1.io ∧
    (edgePeriod olt slt q oh sp tp rp e).1.rm = e.rm + (edgePeriod olt slt q oh sp tp rp e).1.is_ ∧
    lsum (edgePeriod olt slt q oh sp tp rp e).2.ispl + (edgePeriod olt slt q oh sp tp rp e).2.idi
      = lsum (edgePeriod olt slt q oh sp tp rp e).1.ispl + (edgePeriod olt slt q oh sp tp rp e).1.idi ∧
    (edgePeriod olt slt q oh sp tp rp e).2.bo = (edgePeriod olt slt q oh sp tp rp e).1.bo ∧
    (edgePeriod olt slt q oh sp tp rp e).2.odi = (edgePeriod olt slt q oh sp tp rp e).1.odi ∧
    (edgePeriod olt slt q oh sp tp rp e).2.rm = (edgePeriod olt slt q oh sp tp rp e).1.rm
  simp only [edgePeriod]
  -- stage 1: the customer's order
  have p1 := placeOrder_int_conserves olt slt q e ho
  have hio1 : allNonneg (placeOrderEdge olt slt false q e).iopl := by
    simp only [placeOrderEdge]; exact allNonneg_addAt _ _ _ hio hq
  have hidi1 : (placeOrderEdge olt slt false q e).idi = e.idi := by simp [placeOrderEdge]
  have hrm1 : (placeOrderEdge olt slt false q e).rm = e.rm := by simp [placeOrderEdge]
  generalize placeOrderEdge olt slt false q e = e1 at p1 hio1 hidi1 hrm1 ⊢
  obtain ⟨_, _, _, p1d, p1e, p1f⟩ := p1
  -- stage 2: the supplier reads its order pipeline
  have q2 : (recvOrderEdge e1).io = e1.iopl.headD 0 ∧ (recvOrderEdge e1).ispl = e1.ispl ∧
      (recvOrderEdge e1).bo = e1.bo ∧ (recvOrderEdge e1).odi = e1.odi ∧ (recvOrderEdge e1).idi = e1.idi ∧
      (recvOrderEdge e1).rm = e1.rm := by simp [recvOrderEdge]
  have hio2 : 0 ≤ (recvOrderEdge e1).io := by rw [q2.1]; exact headD_nonneg _ hio1
  generalize recvOrderEdge e1 = e2 at q2 hio2 ⊢
  obtain ⟨_, q2b, q2c, q2d, q2e, q2f⟩ := q2
  -- stage 3: the supplier serves the customer
  have f3 := shipOne_frame oh sp false e2
  have a3 := shipOne_accounting oh sp e2 hoh (by rw [q2c, p1e]; exact hbo) hio2 (by rw [q2d, p1f]; exact hodi)
  simp only at f3 a3
  generalize (shipOne oh sp false e2).e = e3 at f3 a3 ⊢
  obtain ⟨f3a, _, _, f3d, _, f3f, _, f3h⟩ := f3
  -- stage 4/5: into the pipeline, then the receipt
  have hlen : slt < e3.ispl.length := by rw [f3a, q2b, p1d]; exact hs
  have c5 := recvShip_conserves rp { e3 with ispl := addAt e3.ispl slt e3.os }
  simp only at c5
  have l4 : lsum (addAt e3.ispl slt e3.os) = lsum e3.ispl + e3.os := lsum_addAt _ _ _ hlen
  generalize recvShipEdge rp { e3 with ispl := addAt e3.ispl slt e3.os } = e5 at c5 ⊢
  obtain ⟨c5a, c5b, _, _, c5e, c5f, c5g, c5h, _⟩ := c5
  have n6 := nextEdge_conserves tp e5
  simp only at n6
  obtain ⟨n6a, n6b, n6c, _, n6e, n6f, _, _⟩ := n6
  rw [l4] at c5a
  rw [f3a, q2b, p1d] at c5a
  refine ⟨?_, ?_, ?_, ?_, n6e, n6f, n6b⟩
  · rw [c5a, f3d, q2e, hidi1, c5f]; grind
  · rw [c5g, c5h, c5f, c5e, a3, f3h, q2c, q2d, p1e, p1f]
  · rw [c5b, f3f, q2f, hrm1]
  · rw [n6a, n6c]

/-- Non-vacuity of `edge_period_conserves`: a concrete edge with SLT 1, OLT 1 under a shipment pause. -/
example : let e : EdgeSt := { ispl := [3, 0, 0], iopl := [2, 0], bo := 1, odi := 0, oo := 6, rm := 0 }
    (1 < e.ispl.length ∧ 1 < e.iopl.length ∧ allNonneg e.iopl) ∧
    (edgePeriod 1 1 4 2 true false false e).1.odi = 2 := by
  refine ⟨⟨by decide, by decide, ?_⟩, by decide +kernel⟩
  intro x hx; simp at hx; rcases hx with rfl | rfl <;> decide +kernel

end Stockpyl.Sim
