import StockpylModel.Model.EOQ
import StockpylModel.Props.C09
/-!
# C10 — each closed-form solver is coherent with, and optimal for, its own cost function
-/
namespace Stockpyl.EOQ
open Stockpyl Stockpyl.Loss Stockpyl.SS

theorem sq_nonneg' (x : Rat) : 0 ≤ x * x := by
  by_cases h : 0 ≤ x
  · exact Rat.mul_nonneg h h
  · have h' : 0 ≤ -x := by grind
    have : x * x = (-x) * (-x) := by grind
    rw [this]; exact Rat.mul_nonneg h' h'

/-- Generic "a/Q + bQ" lemma: if `a, b, Q, Q* > 0` and `b·Q*² = a`, then `a/Q + bQ ≥ a/Q* + bQ* = 2bQ*`. -/
theorem aq_bq_min (a b Q Qs : Rat) (hQ : 0 < Q) (hQs : 0 < Qs) (hb : 0 < b) (hopt : b * Qs * Qs = a) :
    a / Q + b * Q ≥ a / Qs + b * Qs ∧ a / Qs + b * Qs = 2 * b * Qs := by
  have hQi : 0 < Q⁻¹ := Rat.inv_pos.mpr hQ
  have e1 : a / Qs = b * Qs := by
    rw [← hopt, Rat.div_def, Rat.mul_assoc (b * Qs), Rat.mul_inv_cancel Qs (by grind)]; grind
  have e2 : Q * Q⁻¹ = 1 := Rat.mul_inv_cancel Q (by grind)
  constructor
  · rw [e1]
    -- a/Q + bQ − 2bQ* = b (Q − Q*)² / Q ≥ 0
    have key : a / Q + b * Q - 2 * b * Qs = b * ((Q - Qs) * (Q - Qs)) * Q⁻¹ := by
      rw [Rat.div_def, ← hopt]
      have : b * Q = b * Q * (Q * Q⁻¹) := by rw [e2]; grind
      rw [this]
      have : 2 * b * Qs = 2 * b * Qs * (Q * Q⁻¹) := by rw [e2]; grind
      rw [this]; grind
    have hsq : 0 ≤ (Q - Qs) * (Q - Qs) := sq_nonneg' _
    have := Rat.mul_nonneg (Rat.mul_nonneg (Rat.le_of_lt hb) hsq) (Rat.le_of_lt hQi)
    grind
  · rw [e1]; grind

/-- EOQ: for any `Q*` satisfying the first-order condition `h·Q*² = 2Kλ`, the reported cost `h·Q*` is the cost
of `Q*`, and no order quantity `Q > 0` is cheaper. -/
theorem eoq_optimal (K h lam Q Qs : Rat) (hh : 0 < h) (hQ : 0 < Q) (hQs : 0 < Qs) (hopt : h * Qs * Qs = 2 * K * lam) :
    eoqCost K h lam Qs = h * Qs ∧ eoqCost K h lam Qs ≤ eoqCost K h lam Q := by
  have hb : 0 < h / 2 := by grind
  have := aq_bq_min (K * lam) (h / 2) Q Qs hQ hQs hb (by grind)
  simp only [eoqCost]
  have e1 : h * Q / 2 = h / 2 * Q := by grind
  have e2 : h * Qs / 2 = h / 2 * Qs := by grind
  rw [e1, e2]
  constructor
  · rw [this.2]; grind
  · exact this.1

/-- EPQ: same with the effective holding rate `h(1 − λ/μ)`. -/
theorem epq_optimal (K h lam mu Q Qs : Rat) (hh : 0 < h * (1 - lam / mu)) (hQ : 0 < Q) (hQs : 0 < Qs)
    (hopt : h * (1 - lam / mu) * Qs * Qs = 2 * K * lam) :
    epqCost K h lam mu Qs = h * (1 - lam / mu) * Qs ∧ epqCost K h lam mu Qs ≤ epqCost K h lam mu Q := by
  have := eoq_optimal K (h * (1 - lam / mu)) lam Q Qs hh hQ hQs hopt
  simpa [epqCost, eoqCost] using this

/-- EOQ with backorders, stockout fraction: for every `Q > 0` the fraction `x* = h/(h+p)` minimises the cost
over ALL `x`, and the cost at `x*` is an EOQ cost with holding rate `hp/(h+p)`. -/
theorem eoqb_fraction_optimal (K h p lam Q x : Rat) (hh : 0 < h) (hp : 0 < p) (hQ : 0 < Q) :
    eoqbCost K h p lam Q (h / (h + p)) ≤ eoqbCost K h p lam Q x ∧
    eoqbCost K h p lam Q (h / (h + p)) = eoqCost K (h * p / (h + p)) lam Q := by
  have hs : 0 < h + p := by grind
  have hne : h + p ≠ 0 := by grind
  have hi := Rat.mul_inv_cancel (h + p) hne
  generalize hxs : h / (h + p) = xs
  have hx1 : xs * (h + p) = h := by rw [← hxs, Rat.div_def, Rat.mul_assoc, Rat.mul_comm _ (h + p), hi]; grind
  have hhp : h * p / (h + p) = p * xs := by
    rw [← hxs, Rat.div_def, Rat.div_def]; grind
  constructor
  · -- difference = (h+p) Q (x − x*)² / 2 ≥ 0
    have a1 : eoqbCost K h p lam Q x - eoqbCost K h p lam Q xs = Q / 2 * (x - xs) * ((h + p) * (x + xs) - 2 * h) := by
      simp only [eoqbCost]; grind
    have a2 : (h + p) * (x + xs) - 2 * h = (h + p) * (x - xs) := by
      have : 2 * h = 2 * (xs * (h + p)) := by rw [hx1]
      rw [this]; grind
    have key : eoqbCost K h p lam Q x - eoqbCost K h p lam Q xs = (h + p) * Q * ((x - xs) * (x - xs)) / 2 := by
      rw [a1, a2]; grind
    have hsq : 0 ≤ (x - xs) * (x - xs) := sq_nonneg' _
    have := Rat.mul_nonneg (Rat.mul_nonneg (Rat.le_of_lt hs) (Rat.le_of_lt hQ)) hsq
    grind
  · simp only [eoqbCost, eoqCost, hhp]
    have : h = xs * (h + p) := hx1.symm
    have hpp : p = (h + p) - xs * (h + p) := by grind
    generalize h + p = s at *
    subst this
    grind

/-- EOQ with backorders, jointly: with `x* = h/(h+p)` and `Q*` solving `(hp/(h+p))·Q*² = 2Kλ`, no pair
`(Q, x)` with `Q > 0` is cheaper, and the reported cost `Q*·hp/(h+p)` is the cost of `(Q*, x*)`. -/
theorem eoqb_optimal (K h p lam Q x Qs : Rat) (hh : 0 < h) (hp : 0 < p) (hQ : 0 < Q) (hQs : 0 < Qs)
    (hopt : h * p / (h + p) * Qs * Qs = 2 * K * lam) :
    eoqbCost K h p lam Qs (h / (h + p)) = Qs * (h * p / (h + p)) ∧
    eoqbCost K h p lam Qs (h / (h + p)) ≤ eoqbCost K h p lam Q x := by
  have hs : 0 < h + p := by grind
  have hh' : 0 < h * p / (h + p) := by
    rw [Rat.div_def]; exact Rat.mul_pos (Rat.mul_pos hh hp) (Rat.inv_pos.mpr hs)
  obtain ⟨f1, f2⟩ := eoqb_fraction_optimal K h p lam Q x hh hp hQ
  obtain ⟨_, g2⟩ := eoqb_fraction_optimal K h p lam Qs (h / (h + p)) hh hp hQs
  obtain ⟨e1, e2⟩ := eoq_optimal K (h * p / (h + p)) lam Q Qs hh' hQ hQs hopt
  constructor
  · rw [g2, e1]; grind
  · rw [g2]; rw [f2] at f1; exact Rat.le_trans e2 f1

/-- JRP (Silver): for the chosen multiples the reported base cycle time `T* ` with `T*²·term2 = 2·term1`
minimises `term1/T + T·term2/2`, and the reported cost is that expression at `T*`. -/
theorem jrp_cycle_optimal (t1 t2 T Ts : Rat) (h2 : 0 < t2) (hT : 0 < T) (hTs : 0 < Ts) (hopt : t2 * Ts * Ts = 2 * t1) :
    jrpCost t1 t2 Ts ≤ jrpCost t1 t2 T := by
  have := aq_bq_min t1 (t2 / 2) T Ts hT hTs (by grind) (by grind)
  simp only [jrpCost]
  have e1 : T / 2 * t2 = t2 / 2 * T := by grind
  have e2 : Ts / 2 * t2 = t2 / 2 * Ts := by grind
  rw [e1, e2]; exact this.1

/-- Multiplicative yield: `Q*` with `h(σ²+μ²)·Q*² = 2Kλ` minimises the cost. -/
theorem eoq_mul_yield_optimal (K h lam ym ys Q Qs : Rat) (hh : 0 < h) (hym : 0 < ym) (hQ : 0 < Q) (hQs : 0 < Qs)
    (hv : 0 < ys * ys + ym * ym) (hopt : h * (ys * ys + ym * ym) * Qs * Qs = 2 * K * lam) :
    eoqMulYieldCost K h lam ym ys Qs ≤ eoqMulYieldCost K h lam ym ys Q := by
  have hyi : 0 < ym⁻¹ := Rat.inv_pos.mpr hym
  have hb : 0 < h * (ys * ys + ym * ym) / 2 * ym⁻¹ := by
    apply Rat.mul_pos _ hyi
    have := Rat.mul_pos hh hv; grind
  have hy1 : ym * ym⁻¹ = 1 := Rat.mul_inv_cancel ym (by grind)
  have := aq_bq_min (K * lam * ym⁻¹) (h * (ys * ys + ym * ym) / 2 * ym⁻¹) Q Qs hQ hQs hb (by grind)
  have c : ∀ q : Rat, 0 < q → eoqMulYieldCost K h lam ym ys q = K * lam * ym⁻¹ / q + h * (ys * ys + ym * ym) / 2 * ym⁻¹ * q := by
    intro q hq
    simp only [eoqMulYieldCost, Rat.div_def]
    have hq1 : q * q⁻¹ = 1 := Rat.mul_inv_cancel q (by grind)
    have : (q * ym)⁻¹ = ym⁻¹ * q⁻¹ := by
      have h1 : (q * ym) * (ym⁻¹ * q⁻¹) = 1 := by
        have : (q * ym) * (ym⁻¹ * q⁻¹) = q * (ym * ym⁻¹) * q⁻¹ := by grind
        rw [this, hy1]; grind
      have h2 := Rat.mul_inv_cancel (q * ym) (by
        intro h0
        rcases Rat.mul_eq_zero.mp h0 with h | h <;> grind)
      have : (q * ym)⁻¹ = (q * ym)⁻¹ * ((q * ym) * (ym⁻¹ * q⁻¹)) := by rw [h1]; grind
      rw [this, ← Rat.mul_assoc, Rat.mul_comm (q * ym)⁻¹, h2]; grind
    rw [this]
    have h2i : (2 * ym)⁻¹ = 2⁻¹ * ym⁻¹ := by
      have h1 : (2 * ym) * ((2:Rat)⁻¹ * ym⁻¹) = 1 := by
        have : (2 * ym) * ((2:Rat)⁻¹ * ym⁻¹) = (2 * (2:Rat)⁻¹) * (ym * ym⁻¹) := by grind
        rw [this, hy1]; decide +kernel
      have h2 := Rat.mul_inv_cancel (2 * ym) (by grind)
      have : (2 * ym)⁻¹ = (2 * ym)⁻¹ * ((2 * ym) * ((2:Rat)⁻¹ * ym⁻¹)) := by rw [h1]; grind
      rw [this, ← Rat.mul_assoc, Rat.mul_comm (2 * ym)⁻¹, h2]; grind
    rw [h2i]; grind
  rw [c Q hQ, c Qs hQs]; exact this.1

/-- Additive yield: with `u* = Q* + μ_Y` solving `h·u*² = 2Kλ + hσ²`, no `Q` with `Q + μ_Y > 0` is cheaper. -/
theorem eoq_add_yield_optimal (K h lam ym ys Q Qs : Rat) (hh : 0 < h) (hQ : 0 < Q + ym) (hQs : 0 < Qs + ym)
    (hopt : h * (Qs + ym) * (Qs + ym) = 2 * K * lam + h * ys * ys) :
    eoqAddYieldCost K h lam ym ys Qs ≤ eoqAddYieldCost K h lam ym ys Q := by
  have := aq_bq_min ((2 * K * lam + h * ys * ys) / 2) (h / 2) (Q + ym) (Qs + ym) hQ hQs (by grind) (by grind)
  have c : ∀ q : Rat, 0 < q + ym → eoqAddYieldCost K h lam ym ys q = (2 * K * lam + h * ys * ys) / 2 / (q + ym) + h / 2 * (q + ym) := by
    intro q hq
    simp only [eoqAddYieldCost, Rat.div_def]
    have h1 : (q + ym) * (q + ym)⁻¹ = 1 := Rat.mul_inv_cancel _ (by grind)
    have : (2 * (q + ym))⁻¹ = 2⁻¹ * (q + ym)⁻¹ := by
      have e1 : (2 * (q + ym)) * ((2:Rat)⁻¹ * (q + ym)⁻¹) = 1 := by
        have : (2 * (q + ym)) * ((2:Rat)⁻¹ * (q + ym)⁻¹) = (2 * (2:Rat)⁻¹) * ((q + ym) * (q + ym)⁻¹) := by grind
        rw [this, h1]; decide +kernel
      have e2 := Rat.mul_inv_cancel (2 * (q + ym)) (by grind)
      have : (2 * (q + ym))⁻¹ = (2 * (q + ym))⁻¹ * ((2 * (q + ym)) * ((2:Rat)⁻¹ * (q + ym)⁻¹)) := by rw [e1]; grind
      rw [this, ← Rat.mul_assoc, Rat.mul_comm (2 * (q + ym))⁻¹, e2]; grind
    rw [this]; grind
  rw [c Q hQ, c Qs hQs]; exact this.1

/-! ### discrete newsvendor -/

theorem cdfAt_mono (p : List Rat) (x : Nat) (hp : ∀ q ∈ p, 0 ≤ q) : cdfAt p x ≤ cdfAt p (x + 1) := by
  apply ex_mono _ _ _ _ hp
  intro d
  by_cases h : d ≤ x
  · have : d ≤ x + 1 := by omega
    simp [h, this]
  · by_cases h2 : d ≤ x + 1 <;> simp [h, h2] <;> decide

theorem cdfAt_mono' (p : List Rat) (x y : Nat) (hp : ∀ q ∈ p, 0 ≤ q) (hxy : x ≤ y) : cdfAt p x ≤ cdfAt p y := by
  induction y with
  | zero => have : x = 0 := by omega
            subst this; exact Rat.le_refl
  | succ y ih =>
    by_cases h : x ≤ y
    · exact Rat.le_trans (ih h) (cdfAt_mono p y hp)
    · have : x = y + 1 := by omega
      subst this; exact Rat.le_refl

/-- The increment of the newsvendor cost: `g(y+1) − g(y) = (h+b)·F(y) − b` for `y ≥ 0`. -/
theorem nvCost_step (p : List Rat) (h b : Rat) (y : Nat) (hsum : lsum p = 1) :
    nvCost p h b ((y : Int) + 1) - nvCost p h b (y : Int) = (h + b) * cdfAt p y - b := by
  have s1 := nbar_step p y
  have c1 := loss_complement p ((y : Int) + 1) hsum
  have c0 := loss_complement p (y : Int) hsum
  simp only [nvCost]
  have : (((y : Int) + 1 : Int) : Rat) = ((y : Int) : Rat) + 1 := by push_cast; rfl
  rw [this] at c1
  grind

/-- The discrete newsvendor solution is optimal: if `S` is the first level whose cdf reaches the critical
ratio (`F(y) < α` for all `y < S`, `F(S) ≥ α`, `α = b/(b+h)`), then `h·n̄(S) + b·n(S) ≤ h·n̄(y) + b·n(y)` for
EVERY level `y ≥ 0` — for every pmf on `{0..D}`. -/
theorem nv_discrete_optimal (p : List Rat) (h b : Rat) (S : Nat) (hp : ∀ q ∈ p, 0 ≤ q) (hsum : lsum p = 1)
    (hh : 0 < h) (hb : 0 ≤ b)
    (hbelow : ∀ y, y < S → (h + b) * cdfAt p y < b) (hat : b ≤ (h + b) * cdfAt p S) (y : Nat) :
    nvCost p h b (S : Int) ≤ nvCost p h b (y : Int) := by
  have hhb : 0 < h + b := by grind
  -- decreasing up to S
  have down : ∀ k, k ≤ S → nvCost p h b (S : Int) ≤ nvCost p h b ((S - k : Nat) : Int) := by
    intro k
    induction k with
    | zero => intro _; simp
    | succ k ih =>
      intro hk
      have := ih (by omega)
      have st := nvCost_step p h b (S - (k + 1)) hsum
      have e : ((S - (k + 1) : Nat) : Int) + 1 = ((S - k : Nat) : Int) := by omega
      rw [e] at st
      have := hbelow (S - (k + 1)) (by omega)
      grind
  -- increasing from S on
  have up : ∀ k, nvCost p h b (S : Int) ≤ nvCost p h b ((S + k : Nat) : Int) := by
    intro k
    induction k with
    | zero => simp
    | succ k ih =>
      have st := nvCost_step p h b (S + k) hsum
      have e : ((S + k : Nat) : Int) + 1 = ((S + (k + 1) : Nat) : Int) := by omega
      rw [e] at st
      have hm := cdfAt_mono' p S (S + k) hp (by omega)
      have := Rat.mul_le_mul_of_nonneg_left hm (Rat.le_of_lt hhb)
      grind
  by_cases hy : y ≤ S
  · have := down (S - y) (by omega)
    have e : S - (S - y) = y := by omega
    rw [e] at this; exact this
  · have := up (y - S)
    have e : S + (y - S) = y := by omega
    rw [e] at this; exact this

/-- Coherence: the cost returned with the optimal level is the cost obtained by evaluating that level
(the evaluation branch is total on the integers: `nvCost` is defined for every `y`). -/
theorem nv_discrete_coherent (p : List Rat) (h b : Rat) (y : Int) : nvCost p h b y = h * lossNbar p y + b * lossN p y := rfl

/-- Newsvendor with additive yield uncertainty and a discrete yield on `{0..D}` (pmf `pY`): ordering up to `S` when the
demand is `d` costs `p·E[(R − Y)⁺] + h·E[(Y − R)⁺]` with `R = d − S` — a newsvendor in `R` whose "demand" is the
yield and whose overage / underage rates are `p` / `h` (supply_uncertainty.py, equations (9.27)-(9.28)). -/
def addYieldCost (pY : List Rat) (h p : Rat) (d S : Int) : Rat := nvCost pY p h (d - S)

theorem addYield_is_newsvendor (pY : List Rat) (h p : Rat) (d S : Int) :
    addYieldCost pY h p d S = p * lossNbar pY (d - S) + h * lossN pY (d - S) := rfl

/-- `S* = d − F_Y⁻¹(h/(h+p))` is optimal among all levels `S ≤ d`: if `R*` is the first point at which the yield cdf
reaches `h/(h+p)`, no level is cheaper than `d − R*` — for every yield pmf on `{0..D}`. -/
theorem add_yield_optimal (pY : List Rat) (h p : Rat) (d : Int) (R : Nat) (hpmf : ∀ q ∈ pY, 0 ≤ q) (hsum : lsum pY = 1)
    (hp : 0 < p) (hh : 0 ≤ h)
    (hbelow : ∀ y, y < R → (p + h) * cdfAt pY y < h) (hat : h ≤ (p + h) * cdfAt pY R) (S : Int) (hS : S ≤ d) :
    addYieldCost pY h p d (d - R) ≤ addYieldCost pY h p d S := by
  have key := nv_discrete_optimal pY p h R hpmf hsum hp hh hbelow hat (d - S).toNat
  simp only [addYieldCost]
  have e1 : d - (d - (R : Int)) = (R : Int) := by omega
  have e2 : (((d - S).toNat : Nat) : Int) = d - S := by omega
  rw [e1, ← e2]; exact key

example : eoqCost 8 (225/1000) 1300 (1040/3) ≥ 0 ∧ (225/1000 : Rat) * 4 * 4 = 2 * (18/10) * 1 := by decide +kernel

end Stockpyl.EOQ
