import StockpylModel.Model.Registry
/-!
# C18 — products of the network under add / remove sequences at node and at network level
-/
namespace Stockpyl.Registry

/-- A product added to the network itself is a product of the network. -/
theorem netAdd_isProduct (r : Reg) (p : Nat) : isProduct (step r (.netAdd p)) p = true := by
  simp only [step]
  split
  · rename_i h; simp [isProduct, h]
  · simp [isProduct]

/-- Being registered at network level survives every operation except the network-level removal of that very
product — whatever the nodes do, in whatever order the two registrations happened. -/
theorem loc_persists (r : Reg) (p : Nat) (op : Op) (h : p ∈ r.loc) (hop : op ≠ .netRemove p) : p ∈ (step r op).loc := by
  cases op with
  | nodeAdd n q => exact h
  | netAdd q =>
    simp only [step]
    split
    · exact h
    · simp [h]
  | nodeRemove n q => exact h
  | netRemove q =>
    simp only [step, List.mem_filter]
    refine ⟨h, ?_⟩
    have : q ≠ p := fun e => hop (by rw [e])
    simpa using fun e => this e.symm
  | removeNode n => exact h

theorem loc_persists_run (ops : List Op) (r : Reg) (p : Nat) (h : p ∈ r.loc) (hops : Op.netRemove p ∉ ops) :
    p ∈ (run r ops).loc := by
  induction ops generalizing r with
  | nil => exact h
  | cons op ops ih =>
    simp only [run, List.foldl_cons]
    apply ih
    · exact loc_persists r p op h (fun e => hops (by simp [e]))
    · intro hm; exact hops (by simp [hm])

/-- **A product that was added to the network explicitly stays a product of the network until it is removed from the
network**: after `netAdd p`, any sequence of node-level additions and removals, node removals and network-level
operations on OTHER products leaves `p` a product. -/
theorem explicit_product_stays (r : Reg) (p : Nat) (ops : List Op) (hops : Op.netRemove p ∉ ops) :
    isProduct (run (step r (.netAdd p)) ops) p = true := by
  have h0 : p ∈ (step r (.netAdd p)).loc := by
    simp only [step]; split
    · assumption
    · simp
  have := loc_persists_run ops _ p h0 hops
  simp [isProduct, this]

/-- A product that is neither registered at network level nor handled by any node is not a product of the network. -/
theorem not_product (r : Reg) (p : Nat) (h1 : p ∉ r.loc) (h2 : ∀ x ∈ r.nodes, p ∉ x.2) : isProduct r p = false := by
  simp only [isProduct, Bool.or_eq_false_iff]
  refine ⟨by simpa using h1, ?_⟩
  simp only [List.any_eq_false]
  intro x hx
  simpa using h2 x hx

/-- The product list has no repetitions and contains exactly the products. -/
theorem products_spec (r : Reg) (p : Nat) : p ∈ products r ↔ isProduct r p = true := by
  simp only [products, List.mem_eraseDups, List.mem_append, List.mem_flatMap, isProduct, Bool.or_eq_true,
    List.contains_iff_mem, List.any_eq_true]

example : products (run {nodes := [(1, []), (2, [])]} [.nodeAdd 1 51, .netAdd 51, .nodeRemove 1 51]) = [51] ∧
    products (run {nodes := [(1, []), (2, [])]} [.netAdd 51, .nodeAdd 1 51, .nodeRemove 1 51, .netRemove 51]) = [] := by
  decide +kernel

end Stockpyl.Registry
