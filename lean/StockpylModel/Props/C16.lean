import StockpylModel.Model.Demand
import StockpylModel.Props.C20
/-!
# C16 — demand and disruption generators realise their declared distributions (logic part)
-/
namespace Stockpyl.Demand
open Stockpyl Stockpyl.Helpers

/-- Deterministic lists are replayed cyclically by period, whatever the primitive value and rounding flag. -/
theorem demand_cycle (l : List Rat) (u : Rat) (t : Nat) (hl : l ≠ []) :
    generate (.D l) false u t = l.getD (t % l.length) 0 ∧
    generate (.D l) false u (t + l.length) = generate (.D l) false u t := by
  have hpos : 0 < l.length := List.length_pos_iff.mpr hl
  simp [generate, postprocess, Nat.add_mod_right]

theorem explicit_cycle (l : List Bool) (t : Nat) (hl : l ≠ []) :
    explicitState l (t + l.length) = explicitState l t := by
  simp [explicitState, Nat.add_mod_right]

/-- Support: whenever the primitive's value lies in the primitive's documented range, the generated demand
lies in the declared support. -/
theorem support_normal (m s u : Rat) (t : Nat) : 0 ≤ generate (.N m s) false u t := by
  simp only [generate, postprocess]; grind

theorem support_uniform_discrete (lo hi : Int) (u : Int) (t : Nat) (h1 : lo ≤ u) (h2 : u < hi + 1) :
    ((lo : Int) : Rat) ≤ generate (.UD lo hi) false (u : Rat) t ∧ generate (.UD lo hi) false (u : Rat) t ≤ ((hi : Int) : Rat) := by
  simp only [generate, postprocess, Bool.false_eq_true, ↓reduceIte]
  constructor
  · exact_mod_cast h1
  · have : u ≤ hi := by omega
    exact_mod_cast this

theorem support_uniform_continuous (lo hi u : Rat) (t : Nat) (h1 : lo ≤ u) (h2 : u < hi) :
    lo ≤ generate (.UC lo hi) false u t ∧ generate (.UC lo hi) false u t < hi := by
  simp only [generate, postprocess]; exact ⟨h1, h2⟩

/-- The primitive of a continuous uniform demand on `[lo, hi]` is `uniform(lo, hi)` — not `uniform(lo, hi − lo)`. -/
theorem uniform_continuous_primitive (lo hi : Rat) : primitive (.UC lo hi) = some ("uniform", [lo, hi]) := rfl

/-- Rounding to integers never moves a demand by more than one half. -/
theorem round_close (x : Rat) : -(1/2 : Rat) ≤ ((roundHalfEven x : Int) : Rat) - x ∧ ((roundHalfEven x : Int) : Rat) - x ≤ 1/2 := by
  have hf1 : ((x.floor : Int) : Rat) ≤ x := Rat.floor_le x
  have hf2 : x < ((x.floor : Int) : Rat) + 1 := by
    have := Rat.lt_floor_add_one x
    push_cast at this; exact this
  simp only [roundHalfEven]
  split
  · constructor <;> grind
  · split
    · push_cast; constructor <;> grind
    · split
      · constructor <;> grind
      · push_cast; constructor <;> grind

/-- A probability vector summing to one within the tolerance is accepted (in particular one that sums to one
exactly, or one whose binary64 sum is 0.9999999999999999). -/
theorem probs_accepted (probs : List Rat) (tol : Rat) (h : rabs (lsum probs - 1) ≤ tol) : probsOK probs tol = true := by
  simp [probsOK, h]

/-- Steady state of the Markov disruption process: `(π_up, π_down) = (β, α)/(α+β)` is a probability vector
satisfying the balance equation `π_up·α = π_down·β`. -/
theorem steady_state_balance (alpha beta : Rat) (h : alpha + beta ≠ 0) :
    (steadyState alpha beta).1 + (steadyState alpha beta).2 = 1 ∧
    (steadyState alpha beta).1 * alpha = (steadyState alpha beta).2 * beta := by
  simp only [steadyState, Rat.div_def]
  have hi := Rat.mul_inv_cancel (alpha + beta) h
  generalize (alpha + beta)⁻¹ = c at hi
  constructor
  · have : beta * c + alpha * c = (alpha + beta) * c := by grind
    rw [this, hi]
  · grind

/-- One step of the chain: a working node becomes disrupted exactly when the uniform draw is at most `α`, a
disrupted node recovers exactly when the draw exceeds `1 − β` (so with probability `β` for a U[0,1) draw). -/
theorem markov_step_thresholds (alpha beta u : Rat) :
    (markovStep alpha beta false u = true ↔ u ≤ alpha) ∧ (markovStep alpha beta true u = false ↔ 1 - beta < u) := by
  simp only [markovStep]
  constructor
  · simp
  · simp; exact Rat.not_le

/-- First moment of a convolution: `E[X+Y]·1 = E[X]·mass(Y) + mass(X)·E[Y]` for pmfs on `0,1,2,…`
(so lead-time demand of `L` independent periods has mean `L·μ` when masses are one). -/
theorem firstMoment_shift (p : List Rat) (i : Nat) : firstMoment p (i + 1) = firstMoment p i + lsum p := by
  induction p generalizing i with
  | nil => simp only [firstMoment, lsum]; grind
  | cons q qs ih =>
    simp only [firstMoment, lsum, ih]
    push_cast; grind

theorem firstMoment_addLists (a b : List Rat) (i : Nat) :
    firstMoment (addLists a b) i = firstMoment a i + firstMoment b i := by
  induction a generalizing b i with
  | nil => simp only [addLists, firstMoment]; grind
  | cons x xs ih =>
    cases b with
    | nil => simp only [addLists, firstMoment]; grind
    | cons y ys => simp only [addLists, firstMoment, ih]; grind

theorem firstMoment_scale (a : List Rat) (c : Rat) (i : Nat) :
    firstMoment (a.map (· * c)) i = firstMoment a i * c := by
  induction a generalizing i with
  | nil => simp only [List.map_nil, firstMoment]; grind
  | cons x xs ih => simp only [List.map_cons, firstMoment, ih]; grind

theorem conv_first_moment (a b : List Rat) :
    firstMoment (conv a b) 0 = firstMoment a 0 * lsum b + lsum a * firstMoment b 0 := by
  induction b with
  | nil => simp only [conv, firstMoment, lsum]; grind
  | cons y ys ih =>
    simp only [conv]
    rw [firstMoment_addLists, firstMoment_scale]
    have h1 : firstMoment (0 :: conv a ys) 0 = firstMoment (conv a ys) 1 := by simp only [firstMoment]; grind
    rw [h1, firstMoment_shift, ih, lsum_conv]
    have h2 : firstMoment (y :: ys) 0 = firstMoment ys 1 := by simp only [firstMoment]; grind
    rw [h2, firstMoment_shift]
    simp only [lsum]; grind

/-- The explicit disruption list's reported steady-state frequency is the fraction of `True` entries. -/
theorem explicit_fraction_def (l : List Bool) :
    explicitDownFraction l = ((l.filter id).length : Rat) / (l.length : Rat) := rfl

example : generate (.D [3, 9, 1]) false 0 7 = 9 ∧ generate (.N 5 2) false (-1) 0 = 0 ∧ generate (.P 3) true (5/2) 0 = 2 ∧
    probsOK [7/10, 2/10, 1/10] 0 = true ∧ steadyState (1/10) (3/10) = (3/4, 1/4) := by decide +kernel

end Stockpyl.Demand
