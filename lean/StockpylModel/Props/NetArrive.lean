import StockpylModel.Props.NetFlow
/-!
# Network level, C03: orders arrive exactly one order lead time later

`orders_arrive_network`: in every well-formed network, for every internal edge with order lead time `L` at the
customer and every period `t`, the inbound order the supplier reads in period `t + L` is exactly the order
quantity the customer placed in period `t` — whatever happens in between (other orders, disruptions of any type
at any node, shortages). For `L = 0` the supplier reads the order in the same period.
-/
namespace Stockpyl.Sim
open Stockpyl

/-- Slot-level description of one period of an internal edge's order pipeline. -/
theorem edgePeriod_orders (olt slt : Nat) (q oh : Rat) (sp tp rp : Bool) (e : EdgeSt)
    (hlen : e.iopl.length = olt + 1) (hoq : e.oq = 0) :
    let r := edgePeriod olt slt q oh sp tp rp e
    r.1.oq = q ∧ r.2.oq = 0 ∧
    r.1.io = e.iopl.getD 0 0 + (if olt = 0 then q else 0) ∧
    (∀ k, 1 ≤ k → r.1.iopl.getD k 0 = e.iopl.getD k 0 + (if k = olt then q else 0)) ∧
    (∀ k, r.2.iopl.getD k 0 = r.1.iopl.getD (k + 1) 0) ∧
    r.2.iopl.getD olt 0 = 0 := by
  have f3 := shipOne_frame oh sp false (recvOrderEdge (placeOrderEdge olt slt false q e))
  simp only at f3
  obtain ⟨_, _, _, _, f3e, _, f3g, f3h⟩ := f3
  have r1 : ∀ x : EdgeSt, (recvShipEdge rp x).iopl = x.iopl ∧ (recvShipEdge rp x).io = x.io ∧
      (recvShipEdge rp x).oq = x.oq := by
    intro x; cases rp <;> simp [recvShipEdge]
  have hiopl : (edgePeriod olt slt q oh sp tp rp e).1.iopl = (addAt e.iopl olt q).set 0 0 := by
    simp only [edgePeriod]; rw [(r1 _).1]; simp only; rw [f3g]; simp [recvOrderEdge, placeOrderEdge]
  have hio : (edgePeriod olt slt q oh sp tp rp e).1.io = (addAt e.iopl olt q).headD 0 := by
    simp only [edgePeriod]; rw [(r1 _).2.1]; simp only; rw [f3h]; simp [recvOrderEdge, placeOrderEdge]
  have hoq1 : (edgePeriod olt slt q oh sp tp rp e).1.oq = q := by
    simp only [edgePeriod]; rw [(r1 _).2.2]; simp only; rw [f3e]; simp [recvOrderEdge, placeOrderEdge, hoq]; try grind
  have hget : ∀ k, (addAt e.iopl olt q).getD k 0 = e.iopl.getD k 0 + (if k = olt then q else 0) := by
    intro k
    simp only [addAt, List.getD_eq_getElem?_getD, List.getElem?_modify]
    by_cases hk : k = olt
    · subst hk
      have : k < e.iopl.length := by omega
      simp [List.getElem?_eq_getElem this]
    · have : ¬ olt = k := fun h => hk h.symm
      simp [this, hk]
      cases e.iopl[k]? <;> simp <;> grind
  refine ⟨hoq1, by simp [edgePeriod, nextEdge], ?_, ?_, ?_, ?_⟩
  · rw [hio]
    have := hget 0
    have hd : ∀ m : List Rat, m.headD 0 = m.getD 0 0 := by intro m; cases m <;> simp
    rw [hd, this]
    by_cases h0 : olt = 0
    · simp [h0]
    · have : ¬ 0 = olt := fun h => h0 h.symm
      simp [h0, this]
  · intro k hk
    rw [hiopl]
    have : ((addAt e.iopl olt q).set 0 0).getD k 0 = (addAt e.iopl olt q).getD k 0 := by
      simp only [List.getD_eq_getElem?_getD, List.getElem?_set]
      have : ¬ 0 = k := by omega
      simp [this]
    rw [this, hget k]
  · intro k
    show (nextEdge tp (edgePeriod olt slt q oh sp tp rp e).1).iopl.getD k 0 = _
    have := shiftOrders_get (edgePeriod olt slt q oh sp tp rp e).1.iopl k
    simp only [shiftOrders] at this
    simp only [nextEdge, List.getD_eq_getElem?_getD]
    exact this
  · show (nextEdge tp (edgePeriod olt slt q oh sp tp rp e).1).iopl.getD olt 0 = 0
    have := shiftOrders_get (edgePeriod olt slt q oh sp tp rp e).1.iopl olt
    simp only [shiftOrders] at this
    simp only [nextEdge, List.getD_eq_getElem?_getD]
    rw [this, hiopl]
    have hl : ((addAt e.iopl olt q).set 0 0).length = olt + 1 := by simp [addAt_length, hlen]
    rw [List.getElem?_eq_none (by omega)]; rfl

/-- Start-of-period shape of the order side of every internal edge: nothing ordered yet this period, and the
slot a new order is written to is empty. -/
def StartInv (net : Net) (st : State) : Prop :=
  ∀ e a b, e < net.edges.length → (net.edge e).src = some a → (net.edge e).dst = some b →
    (st.edge e).oq = 0 ∧ (st.edge e).iopl.getD (net.cfg b).olt 0 = 0

theorem run_length (net : Net) (st : State) (hist : List (List Exo)) : (run net st hist).length = hist.length := by
  induction hist generalizing st with
  | nil => rfl
  | cons x xs ih => simp [run, ih]

theorem edge_facts (net : Net) (hwf : NetWF net) (hv : VisitOK net) (st : State) (x : List Exo)
    (hinv : NetInv net st) (hsi : StartInv net st) (hxo : ExoOK x) (e a b : Nat) (he : e < net.edges.length)
    (hs : (net.edge e).src = some a) (hd : (net.edge e).dst = some b) :
    ((step net st x).1.edge e).io = (st.edge e).iopl.getD 0 0 + (if (net.cfg b).olt = 0 then ((step net st x).1.edge e).oq else 0) ∧
    (∀ k, 1 ≤ k → ((step net st x).2.edge e).iopl.getD (k - 1) 0 =
        (st.edge e).iopl.getD k 0 + (if k = (net.cfg b).olt then ((step net st x).1.edge e).oq else 0)) ∧
    ((step net st x).2.edge e).oq = 0 ∧ ((step net st x).2.edge e).iopl.getD (net.cfg b).olt 0 = 0 := by
  obtain ⟨q, oh, sp, tp, rp, m, _, _, h1, h2⟩ := step_edge_internal net hwf hv st x hinv.pinv hxo e a b he hs hd
  obtain ⟨_, l2⟩ := hinv.lens e a b he hs hd
  obtain ⟨s1, s2⟩ := hsi e a b he hs hd
  have fx := edgePeriod_orders (net.cfg b).olt (net.cfg b).slt q oh sp tp rp (st.edge e) l2 s1
  simp only at fx
  obtain ⟨f1, f2, f3, f4, f5, f6⟩ := fx
  rw [step_fst, costs_edge, h1, h2]
  refine ⟨?_, ?_, f2, f6⟩
  · show (edgePeriod _ _ q oh sp tp rp (st.edge e)).1.io = _ + (if _ then (edgePeriod _ _ q oh sp tp rp (st.edge e)).1.oq else 0)
    rw [f3, f1]
  · intro k hk
    show (edgePeriod _ _ q oh sp tp rp (st.edge e)).2.iopl.getD (k - 1) 0 = _ +
      (if _ then (edgePeriod _ _ q oh sp tp rp (st.edge e)).1.oq else 0)
    rw [f5 (k - 1), f1]
    have : k - 1 + 1 = k := by omega
    rw [this, f4 k hk]

/-- **Orders arrive exactly one order lead time later** (every internal edge, every period, any history). -/
theorem orders_arrive_network (net : Net) (h1 : netWFb net = true) (h2 : decide (VisitOK net) = true)
    (hist : List (List Exo)) (hexo : ∀ x ∈ hist, ExoOK x)
    (e a b : Nat) (he : e < net.edges.length) (hs : (net.edge e).src = some a) (hd : (net.edge e).dst = some b)
    (t : Nat) (ht : t + (net.cfg b).olt < hist.length) :
    (((simulate net hist).getD (t + (net.cfg b).olt) ⟨[], []⟩).edge e).io =
      (((simulate net hist).getD t ⟨[], []⟩).edge e).oq := by
  obtain ⟨hwf, hinit⟩ := netWF_of_check net h1
  have hv : VisitOK net := of_decide_eq_true h2
  -- a value in slot k of the start-of-period pipeline is read k periods later; a new order after `olt` periods
  have slot : ∀ (k : Nat) (hist : List (List Exo)) (st : State), (∀ x ∈ hist, ExoOK x) → NetInv net st →
      StartInv net st → k ≤ (net.cfg b).olt → k < hist.length →
      (((run net st hist).getD k ⟨[], []⟩).edge e).io =
        (st.edge e).iopl.getD k 0 +
          (if k = (net.cfg b).olt then (((run net st hist).getD 0 ⟨[], []⟩).edge e).oq else 0) := by
    intro k
    induction k with
    | zero =>
      intro hist st hx hinv hsi _ hlen
      cases hist with
      | nil => simp at hlen
      | cons x xs =>
        have hxo := hx x (by simp)
        simp only [run, List.getD_cons_zero]
        have := (edge_facts net hwf hv st x hinv hsi hxo e a b he hs hd).1
        rw [this]
        by_cases h0 : (net.cfg b).olt = 0
        · simp [h0]
        · have : ¬ 0 = (net.cfg b).olt := fun h => h0 h.symm
          simp [h0, this]
    | succ k ih =>
      intro hist st hx hinv hsi hk hlen
      cases hist with
      | nil => simp at hlen
      | cons x xs =>
        have hxo := hx x (by simp)
        obtain ⟨_, g2, g3, g4⟩ := edge_facts net hwf hv st x hinv hsi hxo e a b he hs hd
        have hinv' := step_netinv net hwf hv st x hinv hxo
        simp only [run, List.getD_cons_succ, List.getD_cons_zero]
        have hsi' : StartInv net (step net st x).2 := by
          intro e' a' b' he' hs' hd'
          obtain ⟨_, _, g3', g4'⟩ := edge_facts net hwf hv st x hinv hsi hxo e' a' b' he' hs' hd'
          exact ⟨g3', g4'⟩
        have := ih xs (step net st x).2 (fun y hy => hx y (by simp [hy])) hinv' hsi' (by omega)
          (by simpa using hlen)
        rw [this, if_neg (by omega)]
        have := g2 (k + 1) (by omega)
        simp only [Nat.add_sub_cancel] at this
        rw [this]
        grind
  -- shift the starting point to period t
  have main : ∀ (t : Nat) (hist : List (List Exo)) (st : State), (∀ x ∈ hist, ExoOK x) → NetInv net st →
      StartInv net st → t + (net.cfg b).olt < hist.length →
      (((run net st hist).getD (t + (net.cfg b).olt) ⟨[], []⟩).edge e).io =
        (((run net st hist).getD t ⟨[], []⟩).edge e).oq := by
    intro t
    induction t with
    | zero =>
      intro hist st hx hinv hsi hlen
      have := slot (net.cfg b).olt hist st hx hinv hsi (Nat.le_refl _) (by omega)
      simp only [Nat.zero_add]
      rw [this, if_pos rfl, (hsi e a b he hs hd).2]; grind
    | succ t ih =>
      intro hist st hx hinv hsi hlen
      cases hist with
      | nil => simp at hlen
      | cons x xs =>
        have hxo := hx x (by simp)
        have hinv' := step_netinv net hwf hv st x hinv hxo
        have hsi' : StartInv net (step net st x).2 := by
          intro e' a' b' he' hs' hd'
          obtain ⟨_, _, g3', g4'⟩ := edge_facts net hwf hv st x hinv hsi hxo e' a' b' he' hs' hd'
          exact ⟨g3', g4'⟩
        have e1 : t + 1 + (net.cfg b).olt = (t + (net.cfg b).olt) + 1 := by omega
        simp only [run, e1, List.getD_cons_succ]
        exact ih xs (step net st x).2 (fun y hy => hx y (by simp [hy])) hinv' hsi' (by simp at hlen; omega)
  have hsi0 : StartInv net (initState net) := by
    intro e' a' b' he' hs' hd'
    rw [initState_edge net e' he']
    have : net.edge e' = ⟨some a', some b'⟩ := by
      cases h : net.edge e' with
      | mk s d => simp [h] at hs' hd'; subst hs'; subst hd'; rfl
    rw [this]
    simp [initEdge, List.getD_eq_getElem?_getD]
  exact main t hist (initState net) hexo (initState_netinv net hinit) hsi0 ht

end Stockpyl.Sim
