import StockpylModel.Props.C18
/-!
# `descendants` / `ancestors` only ever report nodes that a path of edges really leads to

`Graph.reach` is the fuel-bounded breadth-first closure behind the model's `descendants` and `ancestors` views (compared after every
operation with `nx.descendants` / `nx.ancestors` on the real network).  For EVERY graph (cyclic, incoherent, any fuel) each reported
node is joined to the start node by a non-empty path of `next` edges (`descendants_sound`, `ancestors_sound`), the start node is never
reported (`self_not_descendant`, `self_not_ancestor`), and a reported node is a label that occurs in somebody's adjacency list
(`descendants_mem_succs`).  Completeness (every reachable node is reported) needs the fuel bound `g.length` and is an open target.
-/
namespace Stockpyl.Graph

/-- `Path next a b`: a non-empty path `a → … → b` along `next`. -/
inductive Path (next : Int → List Int) (a : Int) : Int → Prop
  | one {m : Int} : m ∈ next a → Path next a m
  | snoc {x m : Int} : Path next a x → m ∈ next x → Path next a m

theorem reach_sound (next : Int → List Int) (root : Int) (fuel : Nat) (frontier acc : List Int)
    (hf : ∀ x ∈ frontier, x = root ∨ Path next root x) (ha : ∀ x ∈ acc, Path next root x) :
    ∀ x ∈ reach next fuel frontier acc, Path next root x := by
  induction fuel generalizing frontier acc with
  | zero => simpa [reach] using ha
  | succ fuel ih =>
    unfold reach
    have hn : ∀ x ∈ ((frontier.flatMap next).filter fun m => !acc.contains m).eraseDups, Path next root x := by
      intro x hx
      rw [List.mem_eraseDups] at hx
      obtain ⟨hx, -⟩ := List.mem_filter.mp hx
      obtain ⟨y, hy, hxy⟩ := List.mem_flatMap.mp hx
      rcases hf y hy with h | h
      · subst h; exact Path.one hxy
      · exact Path.snoc h hxy
    simp only
    split
    · exact ha
    · apply ih
      · intro x hx; exact Or.inr (hn x hx)
      · intro x hx
        rcases List.mem_append.mp hx with h | h
        · exact ha x h
        · exact hn x h

/-- Every reported descendant is joined to `l` by a non-empty path of successor edges. -/
theorem descendants_sound (g : G) (l x : Int) (h : x ∈ descendants g l) : Path (succsOf g) l x := by
  unfold descendants at h
  obtain ⟨h, -⟩ := List.mem_filter.mp h
  exact reach_sound (succsOf g) l g.length [l] [] (by simp) (by simp) x h

/-- Every reported ancestor is joined to `l` by a non-empty path of predecessor edges. -/
theorem ancestors_sound (g : G) (l x : Int) (h : x ∈ ancestors g l) : Path (predsOf g) l x := by
  unfold ancestors at h
  obtain ⟨h, -⟩ := List.mem_filter.mp h
  exact reach_sound (predsOf g) l g.length [l] [] (by simp) (by simp) x h

/-- A node is never its own descendant, even on a cycle (`nx.descendants` excludes the source). -/
theorem self_not_descendant (g : G) (l : Int) : l ∉ descendants g l := by
  unfold descendants; simp

theorem self_not_ancestor (g : G) (l : Int) : l ∉ ancestors g l := by
  unfold ancestors; simp

/-- The last edge of a path: the end point is in the adjacency list of some node. -/
theorem Path.last {next : Int → List Int} {a b : Int} (h : Path next a b) : ∃ y, b ∈ next y := by
  cases h with
  | one h => exact ⟨a, h⟩
  | snoc _ h => exact ⟨_, h⟩

/-- A reported descendant is a label listed as somebody's successor: on a coherent network it is a node of the network. -/
theorem descendants_mem_succs (g : G) (l x : Int) (h : x ∈ descendants g l) : ∃ n ∈ g, x ∈ n.succs := by
  obtain ⟨y, hy⟩ := (descendants_sound g l x h).last
  unfold succsOf at hy
  split at hy
  · next n hn => exact ⟨n, List.mem_of_find?_eq_some hn, hy⟩
  · simp at hy

/-- On a coherent network every reported descendant is a node of the network. -/
theorem descendants_are_nodes (g : G) (hc : Coherent g) (l x : Int) (h : x ∈ descendants g l) : x ∈ labels g := by
  obtain ⟨n, hn, hx⟩ := descendants_mem_succs g l x h
  obtain ⟨m, hm, hml, -⟩ := hc.succ_ok n hn x hx
  exact mem_labels.mpr ⟨m, hm, hml⟩

/-! ### the two views describe the same paths on a coherent network -/

theorem find_of_mem {g : G} (h : (labels g).Nodup) {n : GNode} (hn : n ∈ g) : find g n.label = some n := by
  unfold find
  cases hf : g.find? (·.label == n.label) with
  | none =>
    have := List.find?_eq_none.mp hf n hn
    simp at this
  | some m =>
    have hm := List.mem_of_find?_eq_some hf
    have hl : m.label = n.label := by simpa using List.find?_some hf
    rw [label_unique h hm hn hl]

theorem mem_succsOf {g : G} (h : (labels g).Nodup) {a b : Int} :
    b ∈ succsOf g a ↔ ∃ n ∈ g, n.label = a ∧ b ∈ n.succs := by
  constructor
  · intro hb
    unfold succsOf at hb
    split at hb
    · next n hn =>
      refine ⟨n, List.mem_of_find?_eq_some hn, ?_, hb⟩
      simpa using List.find?_some hn
    · simp at hb
  · rintro ⟨n, hn, rfl, hb⟩
    unfold succsOf
    rw [find_of_mem h hn]; exact hb

theorem mem_predsOf {g : G} (h : (labels g).Nodup) {a b : Int} :
    a ∈ predsOf g b ↔ ∃ n ∈ g, n.label = b ∧ a ∈ n.preds := by
  constructor
  · intro hb
    unfold predsOf at hb
    split at hb
    · next n hn =>
      refine ⟨n, List.mem_of_find?_eq_some hn, ?_, hb⟩
      simpa using List.find?_some hn
    · simp at hb
  · rintro ⟨n, hn, rfl, hb⟩
    unfold predsOf
    rw [find_of_mem h hn]; exact hb

/-- On a coherent network `b` is listed as a successor of `a` exactly when `a` is listed as a predecessor of `b`. -/
theorem succsOf_iff_predsOf (g : G) (hc : Coherent g) (a b : Int) : b ∈ succsOf g a ↔ a ∈ predsOf g b := by
  rw [mem_succsOf hc.nodup, mem_predsOf hc.nodup]
  constructor
  · rintro ⟨n, hn, rfl, hb⟩
    obtain ⟨m, hm, hml, hp⟩ := hc.succ_ok n hn b hb
    exact ⟨m, hm, hml, hp⟩
  · rintro ⟨n, hn, rfl, ha⟩
    obtain ⟨m, hm, hml, hp⟩ := hc.pred_ok n hn a ha
    exact ⟨m, hm, hml, hp⟩

/-- Paths can be extended at the front. -/
theorem Path.cons {next : Int → List Int} {a x b : Int} (h1 : x ∈ next a) (h2 : Path next x b) : Path next a b := by
  induction h2 with
  | one h => exact Path.snoc (Path.one h1) h
  | snoc _ h ih => exact Path.snoc ih h

/-- Reversal: a path along `nxt` from `a` to `b` is a path along the converse relation from `b` to `a`. -/
theorem Path.reverse {nxt prv : Int → List Int} (hconv : ∀ a b, b ∈ nxt a → a ∈ prv b) {a b : Int}
    (h : Path nxt a b) : Path prv b a := by
  induction h with
  | one h => exact Path.one (hconv _ _ h)
  | snoc _ h ih => exact Path.cons (hconv _ _ h) ih

/-- On a coherent network, a successor path from `a` to `b` exists exactly when a predecessor path from `b` to `a` does: what
`descendants` may report about `(a, b)` and what `ancestors` may report about `(b, a)` are the same relation. -/
theorem path_succs_iff_path_preds (g : G) (hc : Coherent g) (a b : Int) :
    Path (succsOf g) a b ↔ Path (predsOf g) b a :=
  ⟨Path.reverse fun x y h => (succsOf_iff_predsOf g hc x y).mp h,
   Path.reverse fun x y h => (succsOf_iff_predsOf g hc y x).mpr h⟩

/-- A reported descendant `x` of `l` has `l` joined to it by a predecessor path (the relation `ancestors` explores). -/
theorem descendant_has_ancestor_path (g : G) (hc : Coherent g) (l x : Int) (h : x ∈ descendants g l) :
    Path (predsOf g) x l :=
  (path_succs_iff_path_preds g hc l x).mp (descendants_sound g l x h)

/-- Non-vacuity: on the path 1 → 2 → 3 the descendants of 1 are 2 and 3, and 1 itself is not among them. -/
example : descendants [⟨1, [], [2]⟩, ⟨2, [1], [3]⟩, ⟨3, [2], []⟩] 1 = [2, 3] := by decide

end Stockpyl.Graph
