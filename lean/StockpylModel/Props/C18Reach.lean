import StockpylModel.Props.C18
/-!
# `descendants` / `ancestors` only ever report nodes that a path of edges really leads to

`Graph.reach` is the fuel-bounded breadth-first closure behind the model's `descendants` and `ancestors` views (compared after every
operation with `nx.descendants` / `nx.ancestors` on the real network).  For EVERY graph (cyclic, incoherent, any fuel) each reported
node is joined to the start node by a non-empty path of `next` edges (`descendants_sound`, `ancestors_sound`), the start node is never
reported (`self_not_descendant`, `self_not_ancestor`), and a reported node is a label that occurs in somebody's adjacency list
(`descendants_mem_succs`).  On a coherent network the closure is also complete: the fuel `g.length` suffices (`reach_closed`, a counting argument over the
duplicate-free accumulator), so `descendants` / `ancestors` are exactly graph reachability (`mem_descendants_iff`, `mem_ancestors_iff`)
and `b` is a descendant of `a` exactly when `a` is an ancestor of `b` (`descendant_iff_ancestor`).
-/
namespace Stockpyl.Graph

/-- `Path next a b`: a non-empty path `a → … → b` along `next`. -/
inductive Path (next : Int → List Int) (a : Int) : Int → Prop
  | one {m : Int} : m ∈ next a → Path next a m
  | snoc {x m : Int} : Path next a x → m ∈ next x → Path next a m

theorem reach_sound (next : Int → List Int) (root : Int) (fuel : Nat) (frontier acc : List Int)
    (hf : ∀ x ∈ frontier, x = root ∨ Path next root x) (ha : ∀ x ∈ acc, Path next root x) :
    ∀ x ∈ reach next fuel frontier acc, Path next root x := by
  induction fuel generalizing frontier acc with
  | zero => simpa [reach] using ha
  | succ fuel ih =>
    unfold reach
    have hn : ∀ x ∈ ((frontier.flatMap next).filter fun m => !acc.contains m).eraseDups, Path next root x := by
      intro x hx
      rw [List.mem_eraseDups] at hx
      obtain ⟨hx, -⟩ := List.mem_filter.mp hx
      obtain ⟨y, hy, hxy⟩ := List.mem_flatMap.mp hx
      rcases hf y hy with h | h
      · subst h; exact Path.one hxy
      · exact Path.snoc h hxy
    simp only
    split
    · exact ha
    · apply ih
      · intro x hx; exact Or.inr (hn x hx)
      · intro x hx
        rcases List.mem_append.mp hx with h | h
        · exact ha x h
        · exact hn x h

/-- Every reported descendant is joined to `l` by a non-empty path of successor edges. -/
theorem descendants_sound (g : G) (l x : Int) (h : x ∈ descendants g l) : Path (succsOf g) l x := by
  unfold descendants at h
  obtain ⟨h, -⟩ := List.mem_filter.mp h
  exact reach_sound (succsOf g) l g.length [l] [] (by simp) (by simp) x h

/-- Every reported ancestor is joined to `l` by a non-empty path of predecessor edges. -/
theorem ancestors_sound (g : G) (l x : Int) (h : x ∈ ancestors g l) : Path (predsOf g) l x := by
  unfold ancestors at h
  obtain ⟨h, -⟩ := List.mem_filter.mp h
  exact reach_sound (predsOf g) l g.length [l] [] (by simp) (by simp) x h

/-- A node is never its own descendant, even on a cycle (`nx.descendants` excludes the source). -/
theorem self_not_descendant (g : G) (l : Int) : l ∉ descendants g l := by
  unfold descendants; simp

theorem self_not_ancestor (g : G) (l : Int) : l ∉ ancestors g l := by
  unfold ancestors; simp

/-- The last edge of a path: the end point is in the adjacency list of some node. -/
theorem Path.last {next : Int → List Int} {a b : Int} (h : Path next a b) : ∃ y, b ∈ next y := by
  cases h with
  | one h => exact ⟨a, h⟩
  | snoc _ h => exact ⟨_, h⟩

/-- A reported descendant is a label listed as somebody's successor: on a coherent network it is a node of the network. -/
theorem descendants_mem_succs (g : G) (l x : Int) (h : x ∈ descendants g l) : ∃ n ∈ g, x ∈ n.succs := by
  obtain ⟨y, hy⟩ := (descendants_sound g l x h).last
  unfold succsOf at hy
  split at hy
  · next n hn => exact ⟨n, List.mem_of_find?_eq_some hn, hy⟩
  · simp at hy

/-- On a coherent network every reported descendant is a node of the network. -/
theorem descendants_are_nodes (g : G) (hc : Coherent g) (l x : Int) (h : x ∈ descendants g l) : x ∈ labels g := by
  obtain ⟨n, hn, hx⟩ := descendants_mem_succs g l x h
  obtain ⟨m, hm, hml, -⟩ := hc.succ_ok n hn x hx
  exact mem_labels.mpr ⟨m, hm, hml⟩

/-! ### the two views describe the same paths on a coherent network -/

theorem find_of_mem {g : G} (h : (labels g).Nodup) {n : GNode} (hn : n ∈ g) : find g n.label = some n := by
  unfold find
  cases hf : g.find? (·.label == n.label) with
  | none =>
    have := List.find?_eq_none.mp hf n hn
    simp at this
  | some m =>
    have hm := List.mem_of_find?_eq_some hf
    have hl : m.label = n.label := by simpa using List.find?_some hf
    rw [label_unique h hm hn hl]

theorem mem_succsOf {g : G} (h : (labels g).Nodup) {a b : Int} :
    b ∈ succsOf g a ↔ ∃ n ∈ g, n.label = a ∧ b ∈ n.succs := by
  constructor
  · intro hb
    unfold succsOf at hb
    split at hb
    · next n hn =>
      refine ⟨n, List.mem_of_find?_eq_some hn, ?_, hb⟩
      simpa using List.find?_some hn
    · simp at hb
  · rintro ⟨n, hn, rfl, hb⟩
    unfold succsOf
    rw [find_of_mem h hn]; exact hb

theorem mem_predsOf {g : G} (h : (labels g).Nodup) {a b : Int} :
    a ∈ predsOf g b ↔ ∃ n ∈ g, n.label = b ∧ a ∈ n.preds := by
  constructor
  · intro hb
    unfold predsOf at hb
    split at hb
    · next n hn =>
      refine ⟨n, List.mem_of_find?_eq_some hn, ?_, hb⟩
      simpa using List.find?_some hn
    · simp at hb
  · rintro ⟨n, hn, rfl, hb⟩
    unfold predsOf
    rw [find_of_mem h hn]; exact hb

/-- On a coherent network `b` is listed as a successor of `a` exactly when `a` is listed as a predecessor of `b`. -/
theorem succsOf_iff_predsOf (g : G) (hc : Coherent g) (a b : Int) : b ∈ succsOf g a ↔ a ∈ predsOf g b := by
  rw [mem_succsOf hc.nodup, mem_predsOf hc.nodup]
  constructor
  · rintro ⟨n, hn, rfl, hb⟩
    obtain ⟨m, hm, hml, hp⟩ := hc.succ_ok n hn b hb
    exact ⟨m, hm, hml, hp⟩
  · rintro ⟨n, hn, rfl, ha⟩
    obtain ⟨m, hm, hml, hp⟩ := hc.pred_ok n hn a ha
    exact ⟨m, hm, hml, hp⟩

/-- Paths can be extended at the front. -/
theorem Path.cons {next : Int → List Int} {a x b : Int} (h1 : x ∈ next a) (h2 : Path next x b) : Path next a b := by
  induction h2 with
  | one h => exact Path.snoc (Path.one h1) h
  | snoc _ h ih => exact Path.snoc ih h

/-- Reversal: a path along `nxt` from `a` to `b` is a path along the converse relation from `b` to `a`. -/
theorem Path.reverse {nxt prv : Int → List Int} (hconv : ∀ a b, b ∈ nxt a → a ∈ prv b) {a b : Int}
    (h : Path nxt a b) : Path prv b a := by
  induction h with
  | one h => exact Path.one (hconv _ _ h)
  | snoc _ h ih => exact Path.cons (hconv _ _ h) ih

/-- On a coherent network, a successor path from `a` to `b` exists exactly when a predecessor path from `b` to `a` does: what
`descendants` may report about `(a, b)` and what `ancestors` may report about `(b, a)` are the same relation. -/
theorem path_succs_iff_path_preds (g : G) (hc : Coherent g) (a b : Int) :
    Path (succsOf g) a b ↔ Path (predsOf g) b a :=
  ⟨Path.reverse fun x y h => (succsOf_iff_predsOf g hc x y).mp h,
   Path.reverse fun x y h => (succsOf_iff_predsOf g hc y x).mpr h⟩

/-- A reported descendant `x` of `l` has `l` joined to it by a predecessor path (the relation `ancestors` explores). -/
theorem descendant_has_ancestor_path (g : G) (hc : Coherent g) (l x : Int) (h : x ∈ descendants g l) :
    Path (predsOf g) x l :=
  (path_succs_iff_path_preds g hc l x).mp (descendants_sound g l x h)

/-- On a coherent network every reported ancestor is a node of the network. -/
theorem ancestors_are_nodes (g : G) (hc : Coherent g) (l x : Int) (h : x ∈ ancestors g l) : x ∈ labels g := by
  obtain ⟨y, hy⟩ := (ancestors_sound g l x h).last
  obtain ⟨n, hn, -, hx⟩ := (mem_predsOf hc.nodup).mp hy
  obtain ⟨m, hm, hml, -⟩ := hc.pred_ok n hn x hx
  exact mem_labels.mpr ⟨m, hm, hml⟩

/-- On a coherent network an ancestor and a descendant relation can only hold between nodes joined both ways round:
if `x` is reported as an ancestor of `l`, a successor path leads from `x` to `l`. -/
theorem ancestor_has_descendant_path (g : G) (hc : Coherent g) (l x : Int) (h : x ∈ ancestors g l) :
    Path (succsOf g) x l :=
  (path_succs_iff_path_preds g hc x l).mpr (ancestors_sound g l x h)

/-- Non-vacuity: on the path 1 → 2 → 3 the descendants of 1 are 2 and 3, and 1 itself is not among them. -/
example : descendants [⟨1, [], [2]⟩, ⟨2, [1], [3]⟩, ⟨3, [2], []⟩] 1 = [2, 3] := by decide
example : ancestors [⟨1, [], [2]⟩, ⟨2, [1], [3]⟩, ⟨3, [2], []⟩] 3 = [2, 1] := by decide

/-! ### completeness: on a coherent network the closure reports every reachable node (fuel `g.length` is enough) -/

theorem nodup_eraseDups_aux (n : Nat) : ∀ l : List Int, l.length ≤ n → l.eraseDups.Nodup := by
  induction n with
  | zero => intro l hl; have : l = [] := List.length_eq_zero_iff.mp (by omega); subst this; simp
  | succ n ih =>
    intro l hl
    cases l with
    | nil => simp
    | cons a as =>
      rw [List.eraseDups_cons, List.nodup_cons]
      refine ⟨?_, ih _ ?_⟩
      · intro h
        rw [List.mem_eraseDups] at h
        simpa using (List.mem_filter.mp h).2
      · have := List.length_filter_le (fun b => !b == a) as
        simp at hl; omega

theorem nodup_eraseDups (l : List Int) : l.eraseDups.Nodup := nodup_eraseDups_aux l.length l (Nat.le_refl _)

/-- What the closure must satisfy on exit: the successors of the root and of every reported node are reported. -/
def Closed (next : Int → List Int) (root : Int) (res : List Int) : Prop :=
  ∀ y, (y ∈ res ∨ y = root) → ∀ m ∈ next y, m ∈ res

theorem reach_closed (next : Int → List Int) (root : Int) (U : List Int) (hU : ∀ y m, m ∈ next y → m ∈ U)
    (fuel : Nat) (frontier acc : List Int)
    (hnd : acc.Nodup) (hsub : ∀ x ∈ acc, x ∈ U) (hfuel : U.length ≤ acc.length + fuel)
    (hinv : ∀ y, (y ∈ acc ∨ y = root) → y ∈ frontier ∨ ∀ m ∈ next y, m ∈ acc) :
    Closed next root (reach next fuel frontier acc) := by
  induction fuel generalizing frontier acc with
  | zero =>
    have hall : ∀ x ∈ U, x ∈ acc := by
      intro x hx
      apply Classical.byContradiction
      intro hxa
      have h1 : (x :: acc).Nodup := List.nodup_cons.mpr ⟨hxa, hnd⟩
      have h2 : (x :: acc) ⊆ U := by
        intro z hz
        rcases List.mem_cons.mp hz with rfl | hz
        · exact hx
        · exact hsub z hz
      have := List.Nodup.length_le_of_subset h1 h2
      simp at this; omega
    intro y _ m hm
    simp only [reach]
    exact hall m (hU y m hm)
  | succ fuel ih =>
    unfold reach
    simp only
    have hmem : ∀ x, x ∈ ((frontier.flatMap next).filter fun m => !acc.contains m).eraseDups ↔
        (∃ y ∈ frontier, x ∈ next y) ∧ x ∉ acc := by
      intro x
      rw [List.mem_eraseDups, List.mem_filter, List.mem_flatMap]
      simp
    generalize hnx : ((frontier.flatMap next).filter fun m => !acc.contains m).eraseDups = nxt at hmem
    have hnxnd : nxt.Nodup := hnx ▸ nodup_eraseDups _
    split
    · next hemp =>
      have hemp' : nxt = [] := by simpa using hemp
      intro y hy m hm
      rcases hinv y hy with hf | hf
      · apply Classical.byContradiction
        intro hma
        have : m ∈ nxt := (hmem m).mpr ⟨⟨y, hf, hm⟩, hma⟩
        rw [hemp'] at this; simp at this
      · exact hf m hm
    · next hne =>
      have hpos : 0 < nxt.length := by
        cases nxt with
        | nil => simp at hne
        | cons _ _ => simp
      apply ih
      · rw [List.nodup_append]
        refine ⟨hnd, hnxnd, ?_⟩
        intro a ha b hb hab
        subst hab
        exact ((hmem a).mp hb).2 ha
      · intro x hx
        rcases List.mem_append.mp hx with h | h
        · exact hsub x h
        · obtain ⟨⟨y, _, hy⟩, _⟩ := (hmem x).mp h
          exact hU y x hy
      · rw [List.length_append]; omega
      · intro y hy
        have hy' : (y ∈ acc ∨ y = root) ∨ y ∈ nxt := by
          rcases hy with h | h
          · rcases List.mem_append.mp h with h | h
            · exact Or.inl (Or.inl h)
            · exact Or.inr h
          · exact Or.inl (Or.inr h)
        rcases hy' with h | h
        · right
          intro m hm
          rcases hinv y h with hf | hf
          · by_cases hma : m ∈ acc
            · exact List.mem_append_left _ hma
            · exact List.mem_append_right _ ((hmem m).mpr ⟨⟨y, hf, hm⟩, hma⟩)
          · exact List.mem_append_left _ (hf m hm)
        · exact Or.inl h

theorem Closed.path {next : Int → List Int} {root : Int} {res : List Int} (hc : Closed next root res)
    {x : Int} (hp : Path next root x) : x ∈ res := by
  induction hp with
  | one h => exact hc root (Or.inr rfl) _ h
  | snoc _ h ih => exact hc _ (Or.inl ih) _ h

/-- Completeness on a coherent network: every node joined to `l` by a non-empty successor path, other than `l` itself, is reported. -/
theorem descendants_complete (g : G) (hc : Coherent g) (l x : Int) (hp : Path (succsOf g) l x) (hx : x ≠ l) :
    x ∈ descendants g l := by
  unfold descendants
  rw [List.mem_filter]
  refine ⟨?_, by simpa using hx⟩
  have hU : ∀ y m, m ∈ succsOf g y → m ∈ labels g := by
    intro y m hm
    obtain ⟨n, hn, -, hs⟩ := (mem_succsOf hc.nodup).mp hm
    obtain ⟨k, hk, hkl, -⟩ := hc.succ_ok n hn m hs
    exact mem_labels.mpr ⟨k, hk, hkl⟩
  have := reach_closed (succsOf g) l (labels g) hU g.length [l] [] (by simp) (by simp) (by simp [labels])
    (by
      intro y hy
      rcases hy with h | h
      · exact absurd h (by simp)
      · exact Or.inl (by simp [h]))
  exact this.path hp

theorem ancestors_complete (g : G) (hc : Coherent g) (l x : Int) (hp : Path (predsOf g) l x) (hx : x ≠ l) :
    x ∈ ancestors g l := by
  unfold ancestors
  rw [List.mem_filter]
  refine ⟨?_, by simpa using hx⟩
  have hU : ∀ y m, m ∈ predsOf g y → m ∈ labels g := by
    intro y m hm
    obtain ⟨n, hn, -, hs⟩ := (mem_predsOf hc.nodup).mp hm
    obtain ⟨k, hk, hkl, -⟩ := hc.pred_ok n hn m hs
    exact mem_labels.mpr ⟨k, hk, hkl⟩
  have := reach_closed (predsOf g) l (labels g) hU g.length [l] [] (by simp) (by simp) (by simp [labels])
    (by
      intro y hy
      rcases hy with h | h
      · exact absurd h (by simp)
      · exact Or.inl (by simp [h]))
  exact this.path hp

/-- The descendants view is exactly graph reachability on a coherent network. -/
theorem mem_descendants_iff (g : G) (hc : Coherent g) (l x : Int) :
    x ∈ descendants g l ↔ Path (succsOf g) l x ∧ x ≠ l :=
  ⟨fun h => ⟨descendants_sound g l x h, fun e => self_not_descendant g l (e ▸ h)⟩,
   fun h => descendants_complete g hc l x h.1 h.2⟩

theorem mem_ancestors_iff (g : G) (hc : Coherent g) (l x : Int) :
    x ∈ ancestors g l ↔ Path (predsOf g) l x ∧ x ≠ l :=
  ⟨fun h => ⟨ancestors_sound g l x h, fun e => self_not_ancestor g l (e ▸ h)⟩,
   fun h => ancestors_complete g hc l x h.1 h.2⟩

/-- `b` is a descendant of `a` exactly when `a` is an ancestor of `b` (coherent network, any operation history). -/
theorem descendant_iff_ancestor (g : G) (hc : Coherent g) (a b : Int) :
    b ∈ descendants g a ↔ a ∈ ancestors g b := by
  rw [mem_descendants_iff g hc, mem_ancestors_iff g hc, path_succs_iff_path_preds g hc]
  constructor <;> rintro ⟨h1, h2⟩ <;> exact ⟨h1, fun e => h2 e.symm⟩

/-! ### `has_directed_cycle` -/

theorem reach_closed_succs (g : G) (hc : Coherent g) (l : Int) :
    Closed (succsOf g) l (reach (succsOf g) g.length [l] []) := by
  have hU : ∀ y m, m ∈ succsOf g y → m ∈ labels g := by
    intro y m hm
    obtain ⟨n, hn, -, hs⟩ := (mem_succsOf hc.nodup).mp hm
    obtain ⟨k, hk, hkl, -⟩ := hc.succ_ok n hn m hs
    exact mem_labels.mpr ⟨k, hk, hkl⟩
  exact reach_closed (succsOf g) l (labels g) hU g.length [l] [] (by simp) (by simp) (by simp [labels])
    (by
      intro y hy
      rcases hy with h | h
      · exact absurd h (by simp)
      · exact Or.inl (by simp [h]))

/-- The model's `has_directed_cycle` answers "yes" exactly when some node of the (coherent) network is joined to itself by a
non-empty path of successor edges. -/
theorem hasCycle_iff (g : G) (hc : Coherent g) :
    hasCycle g = true ↔ ∃ l ∈ labels g, Path (succsOf g) l l := by
  unfold hasCycle
  rw [List.any_eq_true]
  constructor
  · rintro ⟨n, hn, h⟩
    refine ⟨n.label, mem_labels.mpr ⟨n, hn, rfl⟩, ?_⟩
    exact reach_sound (succsOf g) n.label g.length [n.label] [] (by simp) (by simp) _ (List.contains_iff_mem.mp h)
  · rintro ⟨l, hl, hp⟩
    obtain ⟨n, hn, rfl⟩ := mem_labels.mp hl
    exact ⟨n, hn, List.contains_iff_mem.mpr ((reach_closed_succs g hc n.label).path hp)⟩

/-- A network with an edge from a node to itself, or a two-cycle, has a directed cycle; a path network has none. -/
example : hasCycle [⟨1, [2], [2]⟩, ⟨2, [1], [1]⟩] = true := by decide
example : hasCycle [⟨1, [], [2]⟩, ⟨2, [1], [3]⟩, ⟨3, [2], []⟩] = false := by decide

end Stockpyl.Graph
