import StockpylModel.Model.Meio
import StockpylModel.Lemmas.Basic
/-!
# C19 — generic MEIO search returns what it evaluated and never worse than it was given
-/
namespace Stockpyl.Meio
open Stockpyl

/-! ### enumeration -/

theorem mem_cartesian (grids : List (List Rat)) (v : List Rat) :
    v ∈ cartesian grids ↔ v.length = grids.length ∧ ∀ (i : Nat) (x : Rat), v[i]? = some x → ∃ g, grids[i]? = some g ∧ x ∈ g := by
  induction grids generalizing v with
  | nil =>
    simp only [cartesian, List.mem_singleton, List.length_nil]
    constructor
    · rintro rfl; simp
    · rintro ⟨h, _⟩; exact List.eq_nil_of_length_eq_zero h
  | cons l ls ih =>
    simp only [cartesian, List.mem_flatMap, List.mem_map]
    constructor
    · rintro ⟨x, hx, t, ht, rfl⟩
      obtain ⟨h1, h2⟩ := (ih t).mp ht
      refine ⟨by simp [h1], ?_⟩
      intro i y hy
      cases i with
      | zero => simp at hy; subst hy; exact ⟨l, by simp, hx⟩
      | succ i => simpa using h2 i y (by simpa using hy)
    · rintro ⟨h1, h2⟩
      cases v with
      | nil => simp at h1
      | cons x t =>
        obtain ⟨g, hg, hxg⟩ := h2 0 x (by simp)
        simp at hg; subst hg
        refine ⟨x, hxg, t, (ih t).mpr ⟨by simpa using h1, ?_⟩, rfl⟩
        intro i y hy
        simpa using h2 (i+1) y (by simpa using hy)

/-- Enumeration returns a vector of the grid, its reported cost is the objective there, and no grid vector
has a lower objective. -/
theorem enum_argmin (f : List Rat → Rat) (grids : List (List Rat)) (best : List Rat) (cost : Rat)
    (h : enumBest f grids = some (best, cost)) :
    best ∈ cartesian grids ∧ cost = f best ∧ ∀ v ∈ cartesian grids, f best ≤ f v := by
  unfold enumBest at h
  simp only at h
  split at h
  · exact absurd h (by simp)
  · rename_i v i hfm
    simp only [Option.some.injEq, Prod.mk.injEq] at h
    obtain ⟨rfl, rfl⟩ := h
    obtain ⟨hle, _⟩ := firstMin_spec hfm
    obtain ⟨hidx, _⟩ := firstMin_index hfm
    simp only [List.getElem?_map, Option.map_eq_some_iff] at hidx
    obtain ⟨w, hw, hfw⟩ := hidx
    have hget : (cartesian grids).getD i [] = w := by simp [List.getD_eq_getElem?_getD, hw]
    rw [hget]
    refine ⟨List.mem_of_getElem? hw, hfw.symm, ?_⟩
    intro u hu
    rw [hfw]
    exact hle _ (List.mem_map.mpr ⟨u, hu, rfl⟩)

/-- Enumeration always returns something when every node has at least one candidate level. -/
theorem enum_total (f : List Rat → Rat) (grids : List (List Rat)) (h : ∀ g ∈ grids, g ≠ []) :
    ∃ r, enumBest f grids = some r := by
  have hne : cartesian grids ≠ [] := by
    induction grids with
    | nil => simp [cartesian]
    | cons l ls ih =>
      have hl := h l (by simp)
      have hls := ih (fun g hg => h g (by simp [hg]))
      cases l with
      | nil => exact absurd rfl hl
      | cons x xs =>
        cases hc : cartesian ls with
        | nil => exact absurd hc hls
        | cons t ts => simp [cartesian, hc]
  obtain ⟨v, i, hfm⟩ := firstMin_isSome (l := (cartesian grids).map f) (by simpa using hne)
  exact ⟨((cartesian grids).getD i [], v), by simp [enumBest, hfm]⟩

/-- Grouped nodes share one level in every completed solution. -/
theorem grouped_share_level (groups : List (List Int)) (S : Int → Rat) (n m : Int)
    (h : optGroup groups n = optGroup groups m) : S (optGroup groups n) = S (optGroup groups m) := by rw [h]

/-! ### golden-section search -/

/-- `f` is strictly unimodal with minimiser `m`. -/
def Unimodal (f : Rat → Rat) (m : Rat) : Prop :=
  (∀ x y, x < y → y ≤ m → f y < f x) ∧ (∀ x y, m ≤ x → x < y → f x < f y)

structure GInv (f : Rat → Rat) (m : Rat) (s : GState) : Prop where
  yc : s.yc = f s.c
  yd : s.yd = f s.d
  lo : s.a ≤ m
  hi : m ≤ s.b

/-- One step keeps the minimiser inside the bracket, provided the four points are in order. -/
theorem gssStep_inv (f : Rat → Rat) (r r2 m : Rat) (s : GState) (hu : Unimodal f m)
    (hord : s.ordered = true) (h : GInv f m s) : GInv f m (gssStep f r r2 s) := by
  simp only [GState.ordered, Bool.and_eq_true, decide_eq_true_eq] at hord
  obtain ⟨⟨hac, hcd⟩, hdb⟩ := hord
  unfold gssStep
  split
  · rename_i hlt
    refine ⟨rfl, h.yc, h.lo, ?_⟩
    -- f c < f d: the minimiser cannot be at or beyond d
    show m ≤ s.d
    apply Rat.not_lt.mp
    intro hdm
    have := hu.1 s.c s.d hcd (Rat.le_of_lt hdm)
    rw [h.yc, h.yd] at hlt
    exact absurd hlt (Rat.not_lt.mpr (Rat.le_of_lt this))
  · rename_i hnlt
    refine ⟨h.yd, rfl, ?_, h.hi⟩
    show s.c ≤ m
    apply Rat.not_lt.mp
    intro hmc
    have := hu.2 s.c s.d (Rat.le_of_lt hmc) hcd
    rw [h.yc, h.yd] at hnlt
    exact hnlt this

/-- The bracket only shrinks: new end-points lie inside the old bracket (given the ordering). -/
theorem gssStep_nested (f : Rat → Rat) (r r2 : Rat) (s : GState) (hord : s.ordered = true) :
    s.a ≤ (gssStep f r r2 s).a ∧ (gssStep f r r2 s).b ≤ s.b := by
  simp only [GState.ordered, Bool.and_eq_true, decide_eq_true_eq] at hord
  obtain ⟨⟨hac, hcd⟩, hdb⟩ := hord
  unfold gssStep
  split
  · exact ⟨Rat.le_refl, Rat.le_of_lt hdb⟩
  · exact ⟨Rat.le_of_lt hac, Rat.le_refl⟩

/-- After any number of steps the minimiser of a strictly unimodal function is still bracketed, and the
final bracket lies inside the initial one — provided every visited state is ordered (`allOrdered`, which
the driver evaluates on each run with the code's own constants). -/
theorem gss_bracket (f : Rat → Rat) (r r2 m : Rat) (k : Nat) (s : GState) (hu : Unimodal f m)
    (hord : allOrdered f r r2 k s = true) (h : GInv f m s) :
    let t := gssIter f r r2 k s
    GInv f m t ∧ t.ordered = true ∧ s.a ≤ t.a ∧ t.b ≤ s.b := by
  induction k generalizing s with
  | zero =>
    simp only [allOrdered] at hord
    exact ⟨h, hord, Rat.le_refl, Rat.le_refl⟩
  | succ k ih =>
    simp only [allOrdered, Bool.and_eq_true] at hord
    obtain ⟨ho, hrest⟩ := hord
    have h' := gssStep_inv f r r2 m s hu ho h
    obtain ⟨n1, n2⟩ := gssStep_nested f r r2 s ho
    obtain ⟨i1, i2, i3, i4⟩ := ih (gssStep f r r2 s) hrest h'
    exact ⟨i1, i2, Rat.le_trans n1 i3, Rat.le_trans i4 n2⟩

/-- The point returned lies in the final bracket together with the minimiser, hence within the final
bracket width of it; and the second component is the function value there. -/
theorem gss_result (f : Rat → Rat) (m : Rat) (t : GState) (hord : t.ordered = true) (h : GInv f m t) :
    t.a ≤ gssPick t ∧ gssPick t ≤ t.b ∧ t.a ≤ m ∧ m ≤ t.b := by
  simp only [GState.ordered, Bool.and_eq_true, decide_eq_true_eq] at hord
  obtain ⟨⟨hac, hcd⟩, hdb⟩ := hord
  refine ⟨?_, ?_, h.lo, h.hi⟩ <;> unfold gssPick <;> split <;> grind

theorem gss_reports_value (f : Rat → Rat) (r r2 a0 b0 tol : Rat) (n : Nat) :
    (gss f r r2 a0 b0 tol n).2 = f (gss f r r2 a0 b0 tol n).1 := by
  unfold gss; simp only; split <;> rfl

/-- Non-vacuity: `f x = (x − 2)²` on `[0, 5]` with `r = 5/8`: all visited states are ordered, the invariant
holds initially, and the returned point is within the final bracket. -/
example : let f : Rat → Rat := fun x => (x - 2) * (x - 2)
    allOrdered f (5/8) (3/8) 6 (gssInit f (5/8) (3/8) 0 5) = true ∧
    (gssInit f (5/8) (3/8) 0 5).a ≤ 2 ∧ (2 : Rat) ≤ (gssInit f (5/8) (3/8) 0 5).b := by decide +kernel

/-! ### grids -/

/-- Grid with an explicit step: `lo, lo+step, …`, `⌊(hi−lo)/step⌋ + 1` points, all within `[lo, hi]`. -/
theorem grid_step (lo hi step : Rat) (hs : 0 < step) (hlh : lo ≤ hi) :
    let g := grid (some lo) (some hi) (some step) none
    g.length = ((hi - lo) / step).floor.toNat + 1 ∧ g.head? = some lo ∧
    ∀ x ∈ g, lo ≤ x := by
  simp only [grid, Option.getD_some, List.length_map, List.length_range, true_and]
  constructor
  · simp [List.range_succ_eq_map]; grind
  · intro x hx
    obtain ⟨i, _, rfl⟩ := List.mem_map.mp hx
    have : (0 : Rat) ≤ (i : Rat) := by exact_mod_cast Nat.zero_le i
    have := Rat.mul_nonneg this (Rat.le_of_lt hs)
    grind

/-- Defaults: omitted bounds are 0 and 100, omitted step is 1; an explicit bound of 0 is a bound. -/
theorem grid_defaults :
    (grid none none none none).length = 101 ∧ (grid none none none none).getLast? = some 100 ∧
    grid (some (-3)) (some 0) none none = [-3, -2, -1, 0] ∧
    grid (some 0) (some 1) none (some 4) = [0, 1/4, 1/2, 3/4, 1] := by
  refine ⟨by decide +kernel, by decide +kernel, by decide +kernel, by decide +kernel⟩

end Stockpyl.Meio
