import StockpylModel.Model.MultiProd
import StockpylModel.Lemmas.Sim
/-!
# Product-general kernel theorems (used by C01, C02, C04): arbitrary products and BOM numbers
-/
namespace Stockpyl.MP
open Stockpyl Stockpyl.Sim

/-- Raw-material conservation at a multi-product node, any BOM: stock after production = stock before −
Σ over the products that use it of (units produced × BOM number). -/
theorem rm_conservation (b : Bom) (inp : RmIn) (r : Nat) :
    rmAfter b inp r = inp.avail.getD r 0 - lsum ((prodsFor b r).map fun p => newFG b inp p * bomAt b p r) := rfl

theorem div_mul_cancel' (x y : Rat) (hy : 0 < y) : x / y * y = x :=
  Rat.div_mul_cancel (by intro h; rw [h] at hy; exact absurd hy (by decide))

theorem div_nonneg' (x y : Rat) (hx : 0 ≤ x) (hy : 0 < y) : 0 ≤ x / y := by
  rw [Rat.div_def]; exact Rat.mul_nonneg hx (Rat.le_of_lt (Rat.inv_pos.mpr hy))

/-- A product never uses more of a raw material than its share. -/
theorem newFG_le_share (b : Bom) (inp : RmIn) (p r : Nat) (hr : r < inp.avail.length)
    (hu : usesRM b p r = true) : newFG b inp p * bomAt b p r ≤ share b inp r p := by
  have hb : 0 < bomAt b p r := by simpa [usesRM] using hu
  have hmem : share b inp r p / bomAt b p r ∈
      (rmsFor b inp.avail.length p).map fun r => share b inp r p / bomAt b p r := by
    apply List.mem_map.mpr
    exact ⟨r, by simp [rmsFor, hr, hu], rfl⟩
  have h1 := lmin_le _ _ hmem
  have h2 := Rat.mul_le_mul_of_nonneg_right h1 (Rat.le_of_lt hb)
  rw [div_mul_cancel' _ _ hb] at h2
  exact h2

theorem share_nonneg (b : Bom) (inp : RmIn) (r p : Nat) (hf : 0 ≤ shareFrac b inp r p) :
    0 ≤ share b inp r p := by
  unfold share
  split
  · rename_i h; exact Rat.mul_nonneg (Rat.le_of_lt h) hf
  · exact Rat.le_refl

/-- Production is never negative (when the allocation fractions are non-negative). -/
theorem newFG_nonneg (b : Bom) (inp : RmIn) (p : Nat) (hf : ∀ r, 0 ≤ shareFrac b inp r p) :
    0 ≤ newFG b inp p := by
  apply lmin_nonneg
  intro x hx
  obtain ⟨r, hr, rfl⟩ := List.mem_map.mp hx
  have hu : usesRM b p r = true := by simp [rmsFor] at hr; exact hr.2
  have hb : 0 < bomAt b p r := by simpa [usesRM] using hu
  exact div_nonneg' _ _ (share_nonneg b inp r p (hf r)) hb

theorem lsum_le_lsum {α} (l : List α) (f g : α → Rat) (h : ∀ a ∈ l, f a ≤ g a) :
    lsum (l.map f) ≤ lsum (l.map g) := by
  induction l with
  | nil => simp [lsum]
  | cons a as ih =>
    simp only [List.map_cons, lsum]
    have := h a (by simp)
    have := ih (fun x hx => h x (by simp [hx]))
    grind

theorem lsum_map_mul_left {α} (l : List α) (c : Rat) (f : α → Rat) :
    lsum (l.map fun a => c * f a) = c * lsum (l.map f) := by
  induction l with
  | nil => simp [lsum]
  | cons a as ih => simp only [List.map_cons, lsum, ih]; grind

/-- No raw material is created: if the allocation fractions of raw material `r` are non-negative and add up
to at most one, production consumes at most what is there, so stock stays non-negative — for ANY products,
BOM numbers, stocks and order histories. -/
theorem rm_never_negative (b : Bom) (inp : RmIn) (r : Nat) (hr : r < inp.avail.length)
    (havail : 0 ≤ inp.avail.getD r 0)
    (hf : ∀ p, 0 ≤ shareFrac b inp r p)
    (hsum : lsum ((prodsFor b r).map fun p => shareFrac b inp r p) ≤ 1) :
    0 ≤ rmAfter b inp r := by
  unfold rmAfter consumed
  have h1 : lsum ((prodsFor b r).map fun p => newFG b inp p * bomAt b p r)
      ≤ lsum ((prodsFor b r).map fun p => share b inp r p) := by
    apply lsum_le_lsum
    intro p hp
    have hu : usesRM b p r = true := by simp [prodsFor] at hp; exact hp.2
    exact newFG_le_share b inp p r hr hu
  have h2 : lsum ((prodsFor b r).map fun p => share b inp r p) ≤ inp.avail.getD r 0 := by
    by_cases hpos : 0 < inp.avail.getD r 0
    · have : (fun p => share b inp r p) = fun p => inp.avail.getD r 0 * shareFrac b inp r p := by
        funext p; unfold share; rw [if_pos hpos]
      rw [this, lsum_map_mul_left]
      have := Rat.mul_le_mul_of_nonneg_left hsum (Rat.le_of_lt hpos)
      simpa using this
    · have : (fun p => share b inp r p) = fun _ => (0 : Rat) := by
        funext p; unfold share; rw [if_neg hpos]
      rw [this]
      have : lsum ((prodsFor b r).map fun _ => (0 : Rat)) = 0 := by
        induction (prodsFor b r) with
        | nil => simp [lsum]
        | cons a as ih => simp only [List.map_cons, lsum, ih]; grind
      rw [this]; exact havail
  grind

/-- Earmarking never makes the pipeline negative and never increases it. -/
theorem earmark_bounds (pl : Rat) (others : List (Rat × Rat)) (hpl : 0 ≤ pl)
    (ho : ∀ x ∈ others, 0 ≤ x.1 * x.2) : 0 ≤ earmark pl others ∧ earmark pl others ≤ pl := by
  induction others generalizing pl with
  | nil => simp [earmark, hpl]
  | cons x xs ih =>
    obtain ⟨pfg, nb⟩ := x
    have h0 := ho (pfg, nb) (by simp)
    simp only at h0
    have := ih (max 0 (pl - pfg * nb)) (by grind) (fun y hy => ho y (by simp [hy]))
    simp only [earmark]
    constructor
    · exact this.1
    · have := this.2; grind

/-- With a single product (nothing to earmark) and BOM number 1 the inventory position is the single-product
formula of `Sim.localIP`: `IL + min_rm pipeline`. -/
theorem ipMulti_single (il : Rat) (pls : List Rat) (excl : Bool) :
    ipMulti il (pls.map fun pl => ⟨pl, [], 1⟩) excl = il + lmin pls := by
  simp only [ipMulti, List.map_map]
  congr 2
  conv => rhs; rw [← List.map_id pls]
  apply List.map_congr_left
  intro a _
  have h1 : (1 : Rat)⁻¹ = 1 := by decide +kernel
  cases excl <;> simp [earmark, Rat.div_def, h1]

/-- Raw-material orders add up, per raw material, to the finished-goods order times the BOM number,
whatever the number of suppliers (≥ 1) of that raw material. -/
theorem rmOrders_sum (oq nb : Rat) (k : Nat) : lsum (rmOrders oq nb (k+1)) = oq * nb := by
  simp only [rmOrders, lsum]
  have : lsum (List.replicate k (0 : Rat)) = 0 := by
    induction k with
    | zero => simp [lsum]
    | succ k ih => simp only [List.replicate_succ, lsum, ih]; grind
  rw [this]; grind

/-- Non-vacuity: products 0 and 1 use raw material 0 with BOM numbers 2 and 3; 30 units available, orders
4 and 6 placed one lead time ago (26 units ordered): each product gets its share and nothing is created. -/
example : let b : Bom := [[2], [3]]
    let inp : RmIn := { avail := [30], unitsOrdered := [26], oqfgOld := [[4, 6]] }
    newFG b inp 0 = 60/13 ∧ newFG b inp 1 = 90/13 ∧ rmAfter b inp 0 = 0 := by decide +kernel

end Stockpyl.MP
