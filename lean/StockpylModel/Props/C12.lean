import StockpylModel.Model.FiniteHorizon
import StockpylModel.Lemmas.Basic
/-!
# C12 — finite-horizon DP satisfies Bellman optimality; evaluation matches optimisation
-/
namespace Stockpyl.FH
open Stockpyl

theorem candList_get (per : Period) (H : List Rat) (n ix k : Nat) (hk : k < n - ix) :
    (candList per H n ix)[k]? = some (cand per H ix (ix + k)) := by
  simp [candList, hk]

/-- Bellman optimality on the grid: for every state `x` the reported cost is attained at the reported
order-up-to level `y* ≥ x` on the grid, and no level `y ≥ x` on the grid is cheaper:
`cost_t(x) = min_{x ≤ y ≤ x_max} ( K·[y>x] + c·(y−x) + H_t(y) )`, first minimiser. -/
theorem bellman (per : Period) (H : List Rat) (n ix : Nat) (hix : ix < n) :
    let b := bestAt per H n ix
    ix ≤ b.2 ∧ b.2 < n ∧ b.1 = cand per H ix b.2 ∧
    (∀ iy, ix ≤ iy → iy < n → b.1 ≤ cand per H ix iy) ∧
    (∀ iy, ix ≤ iy → iy < b.2 → b.1 < cand per H ix iy) := by
  have hne : candList per H n ix ≠ [] := by
    have : 0 < n - ix := by omega
    intro h
    have := congrArg List.length h
    simp [candList] at this; omega
  obtain ⟨v, k, hfm⟩ := firstMin_isSome hne
  obtain ⟨hle, _⟩ := firstMin_spec hfm
  obtain ⟨hidx, hfirst⟩ := firstMin_index hfm
  have hk : k < n - ix := by
    have := List.getElem?_eq_some_iff.mp hidx
    obtain ⟨hlt, _⟩ := this
    simpa [candList] using hlt
  simp only [bestAt, hfm]
  rw [candList_get per H n ix k hk] at hidx
  simp only [Option.some.injEq] at hidx
  refine ⟨by omega, by omega, hidx.symm, ?_, ?_⟩
  · intro iy h1 h2
    have : cand per H ix iy ∈ candList per H n ix := by
      have := candList_get per H n ix (iy - ix) (by omega)
      have e : ix + (iy - ix) = iy := by omega
      rw [e] at this
      exact List.mem_of_getElem? this
    exact hle _ this
  · intro iy h1 h2
    have hk2 : iy - ix < k := by omega
    have := hfirst (iy - ix) hk2 (cand per H ix iy) (by
      have := candList_get per H n ix (iy - ix) (by omega)
      have e : ix + (iy - ix) = iy := by omega
      rw [e] at this; exact this)
    exact this

/-- Evaluation reproduces optimisation: feeding the order-up-to row returned by the optimiser back in
evaluation mode yields the same cost row (and the same `H`). -/
theorem eval_reproduces_opt (n : Nat) (dmin : Int) (per : Period) (next : List Rat) :
    (evalRow n dmin per next (optRow n dmin per next).oul).cost = (optRow n dmin per next).cost ∧
    (evalRow n dmin per next (optRow n dmin per next).oul).H = (optRow n dmin per next).H := by
  refine ⟨?_, rfl⟩
  simp only [evalRow, optRow, List.map_map]
  apply List.map_congr_left
  intro ix hix
  have hlt : ix < n := List.mem_range.mp hix
  have hb := (bellman per (Hrow n dmin per next) n ix hlt).2.2.1
  simp only [Function.comp]
  have : ((List.range n).map ((fun x => x.2) ∘ bestAt per (Hrow n dmin per next) n)).getD ix ix
      = (bestAt per (Hrow n dmin per next) n ix).2 := by
    simp [List.getD_eq_getElem?_getD, hlt]
  rw [this]
  exact hb.symm

/-- Without fixed or purchase cost, not ordering is never worse than the minimum over `y ≥ x` allows:
the reported cost never exceeds the cost of staying put (`y = x` is always a candidate). -/
theorem cost_le_stay (per : Period) (H : List Rat) (n ix : Nat) (hix : ix < n) :
    (bestAt per H n ix).1 ≤ H.getD ix 0 := by
  have := (bellman per H n ix hix).2.2.2.1 ix (Nat.le_refl _) hix
  simp only [cand, Nat.lt_irrefl, ↓reduceIte] at this
  grind

/-- The cost rows have one entry per grid point, for every horizon length `T ≥ 1` (including one period). -/
theorem solve_shape (n : Nat) (dmin : Int) (ps : List Period) (terminal : List Rat) :
    (solve n dmin ps terminal).length = ps.length ∧
    ∀ r ∈ solve n dmin ps terminal, r.cost.length = n ∧ r.oul.length = n ∧ r.H.length = n := by
  induction ps with
  | nil => simp [solve]
  | cons p rest ih =>
    simp only [solve, List.length_cons, List.mem_cons]
    refine ⟨by rw [ih.1], ?_⟩
    intro r hr
    rcases hr with rfl | hr
    · simp [optRow, Hrow]
    · exact ih.2 r hr

/-- The first minimiser is characterised by its defining property. -/
theorem bestAt_unique (per : Period) (H : List Rat) (n ix q : Nat) (hix : ix < n) (hq1 : ix ≤ q) (hq2 : q < n)
    (hmin : ∀ iy, ix ≤ iy → iy < n → cand per H ix q ≤ cand per H ix iy)
    (hfirst : ∀ iy, ix ≤ iy → iy < q → cand per H ix q < cand per H ix iy) :
    (bestAt per H n ix).2 = q := by
  obtain ⟨b1, b2, b3, b4, b5⟩ := bellman per H n ix hix
  rcases Nat.lt_trichotomy (bestAt per H n ix).2 q with h | h | h
  · have := hfirst _ b1 h
    rw [← b3] at this
    have := b4 q hq1 hq2
    grind
  · exact h
  · have := b5 q hq1 h
    have := hmin _ b1 b2
    rw [← b3] at this
    grind

theorem cand_shift (per : Period) (H : List Rat) (x y : Nat) (hK : per.K = 0) (hxy : x ≤ y) :
    cand per H x y = cand per H 0 y - per.c * (x : Rat) := by
  unfold cand
  by_cases h1 : x < y
  · have h0 : 0 < y := by omega
    simp only [h1, h0, ↓reduceIte, hK, Nat.sub_zero]
    have : ((y - x : Nat) : Rat) = (y : Rat) - (x : Rat) := by
      have e : y = (y - x) + x := by omega
      have : (y : Rat) = ((y - x : Nat) : Rat) + (x : Rat) := by
        conv => lhs; rw [e]
        exact Rat.natCast_add _ _
      grind
    rw [this]; grind
  · have : x = y := by omega
    subst this
    by_cases h0 : 0 < x
    · simp [h0, hK]; grind
    · have : x = 0 := by omega
      subst this; simp; grind

/-- A fixed cost of zero yields reorder point = order-up-to level: with `K_t = 0` every state at or below
the order-up-to position `S` of the lowest state orders up to exactly `S` (so the (s,S) policy degenerates
to a base-stock policy), and a state above `S` never orders "down" to it. -/
theorem K_zero_base_stock (per : Period) (H : List Rat) (n : Nat) (hn : 0 < n) (hK : per.K = 0) :
    let S := (bestAt per H n 0).2
    (∀ x, x ≤ S → (bestAt per H n x).2 = S) ∧ (∀ x, S < x → x < n → (bestAt per H n x).2 ≠ S) := by
  intro S
  obtain ⟨_, s2, s3, s4, s5⟩ := bellman per H n 0 hn
  constructor
  · intro x hx
    have hxn : x < n := by omega
    apply bestAt_unique per H n x S hxn hx s2
    · intro iy h1 h2
      rw [cand_shift per H x S hK hx, cand_shift per H x iy hK h1]
      have := s4 iy (Nat.zero_le _) h2
      rw [s3] at this
      grind
    · intro iy h1 h2
      rw [cand_shift per H x S hK hx, cand_shift per H x iy hK h1]
      have := s5 iy (Nat.zero_le _) h2
      rw [s3] at this
      grind
  · intro x hx hxn
    have := (bellman per H n x hxn).1
    omega

/-- … hence the extracted reorder position equals the order-up-to position. -/
theorem reorderPos_eq (oul : List Nat) (n S : Nat) (hS : S < n) (h0 : oul.getD 0 0 = S)
    (hle : ∀ x, x ≤ S → oul.getD x n = S) (hgt : ∀ x, S < x → x < n → oul.getD x n ≠ S) :
    ∀ fuel r, r ≤ S → S - r ≤ fuel → reorderPos oul n fuel r = S := by
  intro fuel
  induction fuel with
  | zero => intro r h1 h2; simp only [reorderPos]; omega
  | succ f ih =>
    intro r h1 h2
    simp only [reorderPos]
    by_cases hr : r = S
    · subst hr
      have : ¬ (oul.getD (r + 1) n = oul.getD 0 0 ∧ r + 1 < n) := by
        rintro ⟨e, hlt⟩
        rw [h0] at e
        exact hgt (r + 1) (by omega) hlt e
      rw [if_neg this]
    · have hlt : r + 1 ≤ S := by omega
      have : oul.getD (r + 1) n = oul.getD 0 0 ∧ r + 1 < n := ⟨by rw [h0]; exact hle _ hlt, by omega⟩
      rw [if_pos this]
      exact ih (r + 1) hlt (by omega)

end Stockpyl.FH
