import StockpylModel.Model.SS
import StockpylModel.Lemmas.Basic
/-!
# C13 — (s,S): the reported cost is the long-run average cost of the inventory chain
-/
namespace Stockpyl.SS
open Stockpyl Stockpyl.Loss

/-! ### expectation over a finite pmf -/

theorem ex_add (p : List Rat) (f g : Nat → Rat) (off : Nat) :
    ex p (fun d => f d + g d) off = ex p f off + ex p g off := by
  induction p generalizing off with
  | nil => simp only [ex]; grind
  | cons q qs ih => simp only [ex, ih]; grind

theorem ex_const (p : List Rat) (a : Rat) (off : Nat) : ex p (fun _ => a) off = a * lsum p := by
  induction p generalizing off with
  | nil => simp only [ex, lsum]; grind
  | cons q qs ih => simp only [ex, ih, lsum]; grind

theorem ex_congr (p : List Rat) (f g : Nat → Rat) (off : Nat) (h : ∀ d, off ≤ d → f d = g d) :
    ex p f off = ex p g off := by
  induction p generalizing off with
  | nil => simp [ex]
  | cons q qs ih =>
    simp only [ex]
    rw [h off (Nat.le_refl _), ih (off + 1) (fun d hd => h d (by omega))]

theorem ex_le (p : List Rat) (f : Nat → Rat) (B : Rat) (off : Nat) (hp : ∀ q ∈ p, 0 ≤ q)
    (hf : ∀ d, off ≤ d → f d ≤ B) : ex p f off ≤ B * lsum p := by
  induction p generalizing off with
  | nil => simp [ex, lsum]
  | cons q qs ih =>
    simp only [ex, lsum]
    have h1 := hp q (by simp)
    have h2 := hf off (Nat.le_refl _)
    have h3 := ih (off + 1) (fun x hx => hp x (by simp [hx])) (fun d hd => hf d (by omega))
    have h4 := Rat.mul_le_mul_of_nonneg_left h2 h1
    grind

theorem ex_ge (p : List Rat) (f : Nat → Rat) (B : Rat) (off : Nat) (hp : ∀ q ∈ p, 0 ≤ q)
    (hf : ∀ d, off ≤ d → B ≤ f d) : B * lsum p ≤ ex p f off := by
  induction p generalizing off with
  | nil => simp [ex, lsum]
  | cons q qs ih =>
    simp only [ex, lsum]
    have h1 := hp q (by simp)
    have h2 := hf off (Nat.le_refl _)
    have h3 := ih (off + 1) (fun x hx => hp x (by simp [hx])) (fun d hd => hf d (by omega))
    have h4 := Rat.mul_le_mul_of_nonneg_left h2 h1
    grind

/-! ### from a certificate to the long-run average cost -/

theorem nextSt_range (n i d : Nat) (hi : 1 ≤ i ∧ i ≤ n) : 1 ≤ nextSt n i d ∧ nextSt n i d ≤ n := by
  unfold nextSt; split <;> omega

/-- Telescoping identity: if `v` satisfies the average-cost equation with constant `c` on the states
`1..n`, then for EVERY horizon `T` and starting state, expected total cost = `T·c + v(start) − E[v(X_T)]`. -/
theorem cost_telescopes (p : List Rat) (G : Nat → Rat) (K c : Rat) (n : Nat) (v : Nat → Rat)
    (hsum : lsum p = 1) (hcert : certificate p G K c n v = true) (T : Nat) :
    ∀ i, 1 ≤ i → i ≤ n → J p G K n T i + W p v n T i = (T : Rat) * c + v i := by
  have cert : ∀ i, 1 ≤ i → i ≤ n →
      v i + c = G i + expect p fun d => if i ≤ d then K + v n else v (i - d) := by
    intro i h1 h2
    simp only [certificate, List.all_eq_true, List.mem_range, decide_eq_true_eq] at hcert
    have := hcert (i - 1) (by omega)
    have e : i - 1 + 1 = i := by omega
    simpa [e] using this
  induction T with
  | zero => intro i _ _; simp [J, W]
  | succ T ih =>
    intro i h1 h2
    simp only [J, W, expect]
    have step : ex p (fun d => (if i ≤ d then K else 0) + J p G K n T (nextSt n i d)) 0
        + ex p (fun d => W p v n T (nextSt n i d)) 0
        = ex p (fun d => (if i ≤ d then K + v n else v (i - d)) + (T : Rat) * c) 0 := by
      rw [← ex_add]
      apply ex_congr
      intro d _
      obtain ⟨r1, r2⟩ := nextSt_range n i d ⟨h1, h2⟩
      have := ih (nextSt n i d) r1 r2
      unfold nextSt at this ⊢
      split <;> simp_all <;> grind
    have e2 : ex p (fun d => (if i ≤ d then K + v n else v (i - d)) + (T : Rat) * c) 0
        = ex p (fun d => if i ≤ d then K + v n else v (i - d)) 0 + (T : Rat) * c := by
      rw [ex_add, ex_const, hsum]; grind
    have c1 := cert i h1 h2
    simp only [expect] at c1
    have : G i + ex p (fun d => (if i ≤ d then K else 0) + J p G K n T (nextSt n i d)) 0
        + ex p (fun d => W p v n T (nextSt n i d)) 0
        = G i + (ex p (fun d => (if i ≤ d then K else 0) + J p G K n T (nextSt n i d)) 0
        + ex p (fun d => W p v n T (nextSt n i d)) 0) := by grind
    rw [this, step, e2]
    push_cast
    grind

theorem W_bounded (p : List Rat) (v : Nat → Rat) (n : Nat) (B : Rat) (hp : ∀ q ∈ p, 0 ≤ q) (hsum : lsum p = 1)
    (hv : ∀ j, 1 ≤ j → j ≤ n → -B ≤ v j ∧ v j ≤ B) (T : Nat) :
    ∀ i, 1 ≤ i → i ≤ n → -B ≤ W p v n T i ∧ W p v n T i ≤ B := by
  induction T with
  | zero => intro i h1 h2; simpa [W] using hv i h1 h2
  | succ T ih =>
    intro i h1 h2
    simp only [W, expect]
    have hr : ∀ d, 0 ≤ d → -B ≤ W p v n T (nextSt n i d) ∧ W p v n T (nextSt n i d) ≤ B := by
      intro d _
      obtain ⟨r1, r2⟩ := nextSt_range n i d ⟨h1, h2⟩
      exact ih _ r1 r2
    have u := ex_le p (fun d => W p v n T (nextSt n i d)) B 0 hp (fun d hd => (hr d hd).2)
    have l := ex_ge p (fun d => W p v n T (nextSt n i d)) (-B) 0 hp (fun d hd => (hr d hd).1)
    rw [hsum] at u l
    constructor <;> grind

/-- The reported cost IS the long-run average cost, with a rate: if the certificate holds for `(c, v)` then
for every horizon `T ≥ 1` and every starting state the expected average cost per period is within
`2B/T` of `c`, where `B` bounds `|v|` — in exact arithmetic, for every pmf (any support, zero-probability
points included) and every `s < S` (including `S − s` larger than the support). -/
theorem avg_cost_converges (p : List Rat) (G : Nat → Rat) (K c : Rat) (n : Nat) (v : Nat → Rat) (B : Rat)
    (hp : ∀ q ∈ p, 0 ≤ q) (hsum : lsum p = 1) (hcert : certificate p G K c n v = true)
    (hv : ∀ j, 1 ≤ j → j ≤ n → -B ≤ v j ∧ v j ≤ B) (T : Nat) (i : Nat) (h1 : 1 ≤ i) (h2 : i ≤ n) :
    -(2 * B) ≤ J p G K n T i - (T : Rat) * c ∧ J p G K n T i - (T : Rat) * c ≤ 2 * B := by
  have t := cost_telescopes p G K c n v hsum hcert T i h1 h2
  have w := W_bounded p v n B hp hsum hv T i h1 h2
  have vi := hv i h1 h2
  constructor <;> grind

/-! ### the renewal sequence -/

theorem mList_length (p : List Rat) (k : Nat) : (mList p k).length = k := by
  induction k with
  | zero => rfl
  | succ k ih => simp [mList, ih]

/-- `m_0 = 1/(1 − p_0)`. -/
theorem m_zero (p : List Rat) (k : Nat) : (mList p (k+1)).getD 0 0 = 1 / (1 - p.headD 0) := by
  induction k with
  | zero => simp [mList, mStep]
  | succ k ih =>
    have : mList p (k + 1 + 1) = mList p (k + 1) ++ [mStep p (mList p (k + 1))] := rfl
    rw [this, List.getD_eq_getElem?_getD, List.getElem?_append_left (by simp [mList_length])]
    rw [← List.getD_eq_getElem?_getD]; exact ih

/-- The exact algorithm reports the cost of the pair it returns. -/
theorem zfLoop_reports_cost (p : List Rat) (h b K : Rat) (fuel : Nat) (s shat Shat : Int) (ghat : Rat) (S : Int)
    (r : ZF) (hinv : ghat = ssCost p h b K shat Shat) (hr : zfLoop p h b K fuel s shat Shat ghat S = some r) :
    r.g = ssCost p h b K r.s r.S := by
  induction fuel generalizing s shat Shat ghat S with
  | zero => simp [zfLoop] at hr
  | succ f ih =>
    simp only [zfLoop] at hr
    split at hr
    · split at hr
      · split at hr
        · exact absurd hr (by simp)
        · rename_i s' _
          exact ih s' s' S _ (S + 1) rfl hr
      · exact ih s shat Shat ghat (S + 1) hinv hr
    · simp only [Option.some.injEq] at hr
      subst hr
      exact hinv

theorem zf_reports_cost (p : List Rat) (h b K : Rat) (fuel : Nat) (r : ZF) (hr : zf p h b K fuel = some r) :
    r.g = ssCost p h b K r.s r.S := by
  unfold zf at hr
  simp only at hr
  split at hr
  · exact absurd hr (by simp)
  · exact zfLoop_reports_cost p h b K fuel _ _ _ _ _ r rfl hr

/-- Non-vacuity and a worked instance: pmf (1/5, 1/2, 3/10) on {0,1,2}, h = 1, b = 4, K = 5, (s,S) = (0,6) —
`S − s` exceeds the support. The model's relative-value function passes the certificate with `c = g(s,S)`. -/
example :
    let p : List Rat := [1/5, 1/2, 3/10]
    let G : Nat → Rat := fun i => nvCost p 1 4 (0 + (i : Int))
    let c := ssCost p 1 4 5 0 6
    let v := fun i => relValue p G c 6 i - 0
    certificate p G 5 c 6 (fun i => relValue p G c 6 i) = true ∧ lsum p = 1 ∧ (∀ q ∈ p, 0 ≤ q) := by
  decide +kernel

end Stockpyl.SS
