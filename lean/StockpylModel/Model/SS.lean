import StockpylModel.Model.Loss
/-
Model of `stockpyl.ss` for discrete demand on {0..D} (custom pmf; the Poisson entry point is the same
computation with the Poisson pmf supplied by SciPy): `s_s_cost_discrete` (ss.py:134-172, after the
fixes: pmf entries beyond the support are 0 and the whole support enters the one-period cost) and the
Zheng–Federgruen search `s_s_discrete_exact` (ss.py:258-354).
-/
namespace Stockpyl.SS
open Stockpyl Stockpyl.Loss

/-- Renewal sequence `m_0 = 1/(1−p_0)`, `m_j = m_0 · Σ_{l=1}^{j} p_l m_{j−l}`, built as a list
`[m_0, …, m_{k−1}]` (most recent last). -/
def mStep (p : List Rat) (ms : List Rat) : Rat :=
  let j := ms.length
  let m0 := 1 / (1 - p.headD 0)
  if j = 0 then m0
  else m0 * lsum ((List.range j).map fun l => p.getD (l + 1) 0 * ms.getD (j - (l + 1)) 0)

def mList (p : List Rat) : Nat → List Rat
  | 0 => []
  | k+1 => let ms := mList p k; ms ++ [mStep p ms]

/-- `g(s,S) = (K + Σ_{d=0}^{S−s−1} m_d · G(S−d)) / M(S−s)`. -/
def ssCost (p : List Rat) (h b K : Rat) (s S : Int) : Rat :=
  let n := (S - s).toNat
  let ms := mList p n
  (K + lsum ((List.range n).map fun d => ms.getD d 0 * nvCost p h b (S - d))) / lsum ms

/-- Zheng–Federgruen search with fuel (every loop of the code is bounded by fuel; `none` = fuel ran out). -/
def findS0 (p : List Rat) (h b K : Rat) (S0 : Int) : Nat → Int → Option Int
  | 0, _ => none
  | f+1, s =>
    let s' := s - 1
    if ssCost p h b K s' S0 ≤ nvCost p h b s' then some s' else findS0 p h b K S0 f s'

def raiseS (p : List Rat) (h b K : Rat) (Shat : Int) : Nat → Int → Option Int
  | 0, _ => none
  | f+1, s => if ssCost p h b K s Shat ≤ nvCost p h b (s + 1) then raiseS p h b K Shat f (s + 1) else some s

structure ZF where
  s : Int
  S : Int
  g : Rat
deriving Repr

def zfLoop (p : List Rat) (h b K : Rat) : Nat → Int → Int → Int → Rat → Int → Option ZF
  | 0, _, _, _, _, _ => none
  | f+1, s, shat, Shat, ghat, S =>
    if nvCost p h b S ≤ ghat then
      if ssCost p h b K shat S < ghat then
        match raiseS p h b K S (f+1) s with
        | none => none
        | some s' => zfLoop p h b K f s' s' S (ssCost p h b K s' S) (S + 1)
      else zfLoop p h b K f s shat Shat ghat (S + 1)
    else some ⟨shat, Shat, ghat⟩

def zf (p : List Rat) (h b K : Rat) (fuel : Nat) : Option ZF :=
  let y := (nvOpt p h b : Int)
  match findS0 p h b K y fuel y with
  | none => none
  | some s0 => zfLoop p h b K fuel s0 s0 y (ssCost p h b K s0 y) (y + 1)

/-! ### the inventory Markov chain operated under (s,S): states `i = x − s ∈ {1..n}`, `n = S − s` -/

/-- Next state after demand `d` from state `i`: order up to `n` when the level falls to `s` or below. -/
def nextSt (n i d : Nat) : Nat := if i ≤ d then n else i - d

/-- Expected total cost over `T` periods starting in state `i` (`G i` = one-period cost in state `i`). -/
def J (p : List Rat) (G : Nat → Rat) (K : Rat) (n : Nat) : Nat → Nat → Rat
  | 0, _ => 0
  | T+1, i => G i + expect p fun d => (if i ≤ d then K else 0) + J p G K n T (nextSt n i d)

/-- Expected value of `v` after `T` periods. -/
def W (p : List Rat) (v : Nat → Rat) (n : Nat) : Nat → Nat → Rat
  | 0, i => v i
  | T+1, i => expect p fun d => W p v n T (nextSt n i d)

/-- Candidate relative-value function: expected cost minus `c` × expected time until the next order. -/
def relValue (p : List Rat) (G : Nat → Rat) (c : Rat) (n : Nat) (i : Nat) : Rat :=
  let ms := mList p n
  lsum ((List.range i).map fun j => ms.getD j 0 * (G (i - j) - c))

/-- The certificate (average-cost optimality equation for the fixed policy), decidable over `Rat`. -/
def certificate (p : List Rat) (G : Nat → Rat) (K c : Rat) (n : Nat) (v : Nat → Rat) : Bool :=
  (List.range n).all fun k =>
    let i := k + 1
    decide (v i + c = G i + expect p fun d => if i ≤ d then K + v n else v (i - d))

end Stockpyl.SS
