import StockpylModel.Model.Loss
/-
Cost functions of the deterministic single-echelon models (eoq.py, supply_uncertainty.py) over an
ordered field (`Rat` here); square roots are not computed: the optimiser's `Q*` enters the theorems
through its defining equation (e.g. `Q*² = 2Kλ/h`), which the correspondence checks numerically.
-/
namespace Stockpyl.EOQ
open Stockpyl

def eoqCost (K h lam Q : Rat) : Rat := K * lam / Q + h * Q / 2
def eoqbCost (K h p lam Q x : Rat) : Rat := h * Q * (1 - x) * (1 - x) / 2 + p * Q * x * x / 2 + K * lam / Q
def epqCost (K h lam mu Q : Rat) : Rat := K * lam / Q + h * (1 - lam / mu) * Q / 2
/-- EOQ with additive yield uncertainty (mean `ym`, sd `ys`). -/
def eoqAddYieldCost (K h lam ym ys Q : Rat) : Rat :=
  (2 * K * lam + h * ys * ys) / (2 * (Q + ym)) + h * (Q + ym) / 2
/-- EOQ with multiplicative yield uncertainty. -/
def eoqMulYieldCost (K h lam ym ys Q : Rat) : Rat :=
  K * lam / (Q * ym) + h * Q * (ys * ys + ym * ym) / (2 * ym)
/-- Joint replenishment: cost of base cycle time `T` for chosen multiples (`term1`, `term2` as in the code). -/
def jrpCost (term1 term2 T : Rat) : Rat := term1 / T + T / 2 * term2

end Stockpyl.EOQ
