import StockpylModel.Model.Basic
/-
Models of `stockpyl.optimization.golden_section_search` and of the generic MEIO searches in
`stockpyl.meio_general` (enumeration, coordinate descent, grid construction, grouping).
-/
namespace Stockpyl.Meio
open Stockpyl

/-! ### golden-section search (optimization.py:27-121) -/

structure GState where
  a : Rat
  b : Rat
  c : Rat
  d : Rat
  yc : Rat
  yd : Rat
  h : Rat
deriving Repr

def gssInit (f : Rat → Rat) (r r2 a b : Rat) : GState :=
  let h := b - a
  let c := a + r2 * h
  let d := a + r * h
  { a := a, b := b, c := c, d := d, yc := f c, yd := f d, h := h }

def gssStep (f : Rat → Rat) (r r2 : Rat) (s : GState) : GState :=
  if s.yc < s.yd then
    let h := r * s.h
    let c := s.a + r2 * h
    { a := s.a, b := s.d, d := s.c, yd := s.yc, h := h, c := c, yc := f c }
  else
    let h := r * s.h
    let d := s.c + r * h
    { a := s.c, b := s.b, c := s.d, yc := s.yd, h := h, d := d, yd := f d }

def gssIter (f : Rat → Rat) (r r2 : Rat) : Nat → GState → GState
  | 0, s => s
  | k+1, s => gssIter f r r2 k (gssStep f r r2 s)

def gssPick (s : GState) : Rat := if s.yc < s.yd then (s.a + s.d) / 2 else (s.c + s.b) / 2

/-- `golden_section_search(f, a, b, tol)` with the step count `n` (computed by the code with
`math.log`/`math.ceil`) given. Degenerate interval (`h ≤ tol`): the midpoint and its value
(after the fix; the code used to return the two end-points). -/
def gss (f : Rat → Rat) (r r2 a0 b0 tol : Rat) (n : Nat) : Rat × Rat :=
  let a := min a0 b0
  let b := max a0 b0
  if b - a ≤ tol then ((a + b) / 2, f ((a + b) / 2))
  else
    let s := gssIter f r r2 (n - 1) (gssInit f r r2 a b)
    (gssPick s, f (gssPick s))

def GState.ordered (s : GState) : Bool := decide (s.a < s.c) && decide (s.c < s.d) && decide (s.d < s.b)

/-- Every state visited keeps its four points in order `a < c < d < b` (checked per run by the driver). -/
def allOrdered (f : Rat → Rat) (r r2 : Rat) : Nat → GState → Bool
  | 0, s => s.ordered
  | k+1, s => s.ordered && allOrdered f r r2 k (gssStep f r r2 s)

/-! ### enumeration (meio_general.py:115-200) -/

/-- `itertools.product(*lists)`: last list varies fastest. -/
def cartesian : List (List Rat) → List (List Rat)
  | [] => [[]]
  | l :: ls => l.flatMap fun x => (cartesian ls).map fun t => x :: t

/-- Best vector over the Cartesian grid with a strict `<` incumbent (first minimiser wins). -/
def enumBest (f : List Rat → Rat) (grids : List (List Rat)) : Option (List Rat × Rat) :=
  let cands := cartesian grids
  match firstMin (cands.map f) with
  | none => none
  | some (v, i) => some (cands.getD i [], v)

/-- `_base_stock_group_assignments`: every node is mapped to the smallest index of its group (the last
group in `groups` that contains it wins, as in the code), or to itself. -/
def optGroup (groups : List (List Int)) (n : Int) : Int :=
  (groups.foldl (fun acc g => if g.contains n then g.foldl min n else acc) n)

/-- Complete a solution over the optimised nodes to all nodes: grouped nodes share one level. -/
def complete (groups : List (List Int)) (nodes : List Int) (S : Int → Rat) : List (Int × Rat) :=
  nodes.map fun n => (n, S (optGroup groups n))

/-! ### grids (meio_general.py:360-457, after the fix: an explicit bound of 0 is a bound) -/

/-- Grid for one node. `num`, when it has to be derived from a step, is `int((hi-lo)/step)` (truncation). -/
def grid (lo hi : Option Rat) (step : Option Rat) (num : Option Nat) : List Rat :=
  let lo := lo.getD 0
  let hi := hi.getD 100
  let (step, num) : Rat × Nat :=
    match step, num with
    | some s, _ => (s, ((hi - lo) / s).floor.toNat)
    | none, some k => (if k ≠ 0 ∧ lo < hi then (hi - lo) / k else 1, k)
    | none, none => (1, (hi - lo).floor.toNat)
  (List.range (num + 1)).map fun (i : Nat) => (i : Rat) * step + lo

end Stockpyl.Meio
