import StockpylModel.Model.Basic
import StockpylModel.Model.Loss
import StockpylModel.Model.Helpers
/-
A single stage operated by the simulator under a base-stock policy (one node, external supplier,
shipment lead time `L`, order lead time 0, no disruptions): the specialisation of `Model/Sim.lean`
used for C15. `pipe` = orders still in transit, oldest first (length `L`).
-/
namespace Stockpyl.SingleStage
open Stockpyl

structure St where
  il : Rat
  pipe : List Rat
deriving Repr

/-- One period: observe demand, order up to `S`, receive what was ordered `L` periods ago, serve demand. -/
def step (S : Rat) (st : St) (d : Rat) : St :=
  let ip := st.il + lsum st.pipe - d
  let q := max 0 (S - ip)
  let pipe' := st.pipe ++ [q]
  { il := st.il + pipe'.headD 0 - d, pipe := pipe'.tail }

/-- Same period under an (s,S) policy: order up to `S` when the inventory position (after demand) is `≤ s`. -/
def stepSS (s S : Rat) (st : St) (d : Rat) : St × Rat :=
  let ip := st.il + lsum st.pipe - d
  let q := if ip ≤ s then S - ip else 0
  let pipe' := st.pipe ++ [q]
  ({ il := st.il + pipe'.headD 0 - d, pipe := pipe'.tail }, q)

def runFrom (S : Rat) (st : St) : List Rat → St
  | [] => st
  | d :: ds => runFrom S (step S st d) ds

def init (S : Rat) (L : Nat) : St := { il := S, pipe := List.replicate L 0 }

def periodCost (h p : Rat) (st : St) : Rat := h * pos st.il + p * neg st.il

/-- End-of-period inventory levels along a demand path. -/
def ilPath (S : Rat) : St → List Rat → List Rat
  | _, [] => []
  | st, d :: ds => let st' := step S st d; st'.il :: ilPath S st' ds

end Stockpyl.SingleStage
